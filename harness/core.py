"""
Shared machinery of the Ka verification checks.

One check run (`./check Cxx --tier T`) does, in order:
  1. translate   regenerate lean/KaVerif/Gen/*.lean from /repo's working tree
  2. build       `lake build` the property's modules (theorems are re-checked by Lean's kernel)
  3. audit       `#print axioms` of every property theorem, grep for sorry/native_decide/...
  4. correspond  drive the Lean model and the real Python code with the same inputs
  5. oracle      the property's own statement evaluated on the real code (search for a replay)
  6. report      known findings, VIOLATION lines, evidence file

Exit codes: 0 held, 1 violation, 2 infrastructure failure.
"""
import os, sys, json, time, re, subprocess, hashlib, random, signal, tempfile, shutil, fcntl, contextlib, io, traceback

VERIF = os.path.dirname(os.path.dirname(os.path.abspath(__file__)))
LEAN = os.path.join(VERIF, "lean")
REPO = os.environ.get("KA_REPO", "/repo")
ALLOWED_AXIOMS = {"propext", "Classical.choice", "Quot.sound"}
FORBIDDEN = re.compile(r"\bsorry\b|\badmit\b|^axiom |\bnative_decide\b|\bbv_decide\b|implemented_by|\bunsafe |maxHeartbeats 0", re.M)

TRUSTED_BASE = [
    "Lean 4.33.0 kernel (thorough tier: re-checked by leanchecker)",
    "axioms allowed in property theorems: propext, Classical.choice, Quot.sound (audited by #print axioms on every run)",
    "translator translate/gen.py (prints what the running ka modules contain into KaVerif/Gen/*.lean)",
    "correspondence check: the hand-written parts of the Lean model agree with /repo on the generated inputs only",
    "CPython (int, Fraction, float, datetime, str, re, random), IEEE rounding and libm are modelled, not verified",
]


class Infra(Exception):
    pass


# ----------------------------------------------------------------------------
# real code
# ----------------------------------------------------------------------------
class Timeout(Exception):
    pass


@contextlib.contextmanager
def alarm(seconds):
    """Watchdog for calls into the real code.  The budget is CPU time of this process (ITIMER_PROF), so that a loaded
    machine cannot make a prompt call look like a hang; a wall-clock timer at ten times the budget is the backstop for
    a call that blocks without computing."""
    def h(sig, frm):
        raise Timeout()
    old_a = signal.signal(signal.SIGALRM, h)
    old_p = signal.signal(signal.SIGPROF, h)
    signal.setitimer(signal.ITIMER_PROF, seconds)
    signal.setitimer(signal.ITIMER_REAL, 10 * seconds)
    try:
        yield
    finally:
        signal.setitimer(signal.ITIMER_PROF, 0)
        signal.setitimer(signal.ITIMER_REAL, 0)
        signal.signal(signal.SIGALRM, old_a)
        signal.signal(signal.SIGPROF, old_p)


_scratch_home = None


def scratch_home():
    """An empty HOME so that no per-user ka file leaks into the run."""
    global _scratch_home
    if _scratch_home is None:
        _scratch_home = tempfile.mkdtemp(prefix="kaverif-home-")
        import atexit
        atexit.register(lambda: shutil.rmtree(_scratch_home, ignore_errors=True))
    return _scratch_home


def import_real():
    """Import the real ka package from /repo's working tree (never a stale copy)."""
    os.environ["HOME"] = scratch_home()
    os.environ["KA_VERIF"] = "1"
    os.environ.setdefault("MPLBACKEND", "Agg")
    src = os.path.join(REPO, "src")
    if sys.path[0] != src:
        sys.path.insert(0, src)
    for m in list(sys.modules):
        if m == "ka" or m.startswith("ka."):
            del sys.modules[m]
    import ka.interpret  # noqa
    import ka
    if not os.path.abspath(ka.__file__).startswith(os.path.abspath(src)):
        raise Infra("ka imported from %s, not from %s" % (ka.__file__, src))
    return ka


ERRCODE = {
    "ZeroDivisionError": "divzero", "OverflowError": "overflow", "KaRuntimeError": "runtime",
    "NoMatchingFunctionSignatureError": "nomatch", "UnknownFunctionError": "unknownfn",
    "UnknownKeywordError": "unknownkw", "BadTypeKeywordError": "badkw",
    "IncompatibleQuantitiesError": "incompatible", "FunctionArgError": "funarg",
    "InvalidParameterException": "invalidparam",
}


def err_code(e):
    """Map an exception raised by the real code to the model's error enum."""
    n = type(e).__name__
    if n == "EvalError":
        # eval_parse_tree re-raises ZeroDivisionError / OverflowError as EvalError from inside the handler, so the
        # original is the exception's context.  The wording of the message is never looked at.
        c = e.__cause__ or e.__context__
        if isinstance(c, ZeroDivisionError):
            return "divzero"
        if isinstance(c, OverflowError):
            return "overflow"
        return "eval"
    if n in ERRCODE:
        return ERRCODE[n]
    if n == "Timeout":
        return "diverges"
    return "py:" + n


def num_canon(v):
    """Canonical text of a Python number: i:<n> | q:<n>/<d> | f:<bits> (never decimal float text)."""
    from fractions import Fraction
    import struct
    if isinstance(v, bool):
        return "b:%d" % int(v)
    if isinstance(v, int):
        return "i:%d" % v
    if isinstance(v, Fraction):
        return "q:%d/%d" % (v.numerator, v.denominator)
    if isinstance(v, float):
        return "f:%d" % struct.unpack("<Q", struct.pack("<d", v))[0]
    return None


def float_of_bits(b):
    import struct
    return struct.unpack("<d", struct.pack("<Q", int(b)))[0]


def num_parse(s):
    """Inverse of num_canon → Python value."""
    from fractions import Fraction
    k, _, r = s.partition(":")
    if k == "i":
        return int(r)
    if k == "q":
        n, d = r.split("/")
        return Fraction(int(n), int(d))
    if k == "f":
        return float_of_bits(r)
    if k == "b":
        return bool(int(r))
    raise ValueError(s)


def nums_agree(a, b, tol=1e-9):
    """Compare two canonical numbers: exact kinds exactly, floats within tol (relative)."""
    if a == b:
        return True
    if a[:2] == "f:" and b[:2] == "f:":
        x, y = float_of_bits(a[2:]), float_of_bits(b[2:])
        if x != x and y != y:
            return True
        return abs(x - y) <= tol * max(1.0, abs(x), abs(y))
    return False


REAL_DIGIT_LIMIT = [None]


@contextlib.contextmanager
def real_mode():
    """run a piece of the real code under the int<->str digit limit the real code left in force (see Real.__init__)"""
    if REAL_DIGIT_LIMIT[0] is None or not hasattr(sys, "get_int_max_str_digits"):
        yield
        return
    sys.set_int_max_str_digits(REAL_DIGIT_LIMIT[0])
    try:
        yield
    finally:
        REAL_DIGIT_LIMIT[0] = sys.get_int_max_str_digits()
        sys.set_int_max_str_digits(0)


class Real:
    """The real implementation, in-process, with captured streams and a watchdog."""

    def __init__(self):
        self.ka = import_real()
        import ka.interpret, ka.tokens, ka.parse, ka.eval, ka.functions, ka.types, ka.units
        # CPython's int<->str digit limit is process-wide state that the code under test may set (it lifts it at import): the harness
        # does its own conversions without a limit, and gives the real code the setting the real code itself left behind
        if hasattr(sys, "get_int_max_str_digits"):
            REAL_DIGIT_LIMIT[0] = sys.get_int_max_str_digits()
            sys.set_int_max_str_digits(0)
        self.interpret = ka.interpret
        self.tokens = ka.tokens
        self.parse = ka.parse
        self.eval = ka.eval
        self.functions = ka.functions
        self.types = ka.types
        self.units = ka.units

    def new_env(self):
        return self.eval.EvalEnvironment()

    def _note(self, text, env, t0, outcome=None):
        """remember top-level expressions evaluated in a fresh environment (for the generic re-evaluation oracle)"""
        if env is not None or not isinstance(text, str):
            return
        seen = self.__dict__.setdefault("seen", {})
        if text not in seen and len(seen) < 200000:
            seen[text] = time.process_time() - t0
        first = self.__dict__.setdefault("first_outcome", {})
        if outcome is not None and text not in first and len(first) < 20000:
            first[text] = outcome

    def _canon(self, v):
        try:
            import alias_common
            return alias_common.deep_canon(v, self.types)
        except Exception:  # noqa
            return None

    def value(self, text, env=None, timeout=5.0):
        """tokenise → parse → eval → reduce_result.  Returns ('ok', value) or ('err', code)."""
        t0_ = time.process_time()
        try:
            with alarm(timeout), real_mode():
                toks = self.tokens.tokenise(text)
                tree = self.parse.parse_tokens(toks)
                v = self.eval.eval_parse_tree(tree, env)
                v = self.interpret.reduce_result(v)
            self._note(text, env, t0_, ("value", self._canon(v)))
            return ("ok", v)
        except BaseException as e:  # noqa
            if isinstance(e, (KeyboardInterrupt, SystemExit)):
                raise
            return ("err", err_code(e))

    def execute(self, text, env=None, timeout=5.0, **kw):
        """interpret.execute with captured streams.  Returns dict(status,out,err,escaped)."""
        out, err = io.StringIO(), io.StringIO()
        box = self.interpret.ResultBox()
        status, escaped = None, None
        t0_ = time.process_time()
        try:
            with alarm(timeout), real_mode():
                status = self.interpret.execute(text, env=env, out=out, errout=err, result_box=box, **kw)
            if status == 0 and not kw:
                self._note(text, env, t0_, ("execute", out.getvalue()))
        except BaseException as e:  # noqa
            if isinstance(e, (KeyboardInterrupt, SystemExit)):
                raise
            escaped = "diverges" if isinstance(e, Timeout) else type(e).__name__
        return dict(status=status, out=out.getvalue(), err=err.getvalue(), escaped=escaped, value=box.value)


# ----------------------------------------------------------------------------
# Lean side
# ----------------------------------------------------------------------------
def _lake_lock():
    f = open(os.path.join(LEAN, ".lake.lock"), "w")
    fcntl.flock(f, fcntl.LOCK_EX)
    return f


def run_cmd(cmd, cwd=None, timeout=3600, inp=None):
    # own process group: on a timeout the whole tree (lake -> lean --run) goes, not only the direct child
    p = subprocess.Popen(cmd, cwd=cwd, stdin=subprocess.PIPE if inp is not None else None, stdout=subprocess.PIPE,
                         stderr=subprocess.STDOUT, text=True, start_new_session=True)
    try:
        out, _ = p.communicate(inp, timeout=timeout)
    except subprocess.TimeoutExpired:
        try:
            os.killpg(p.pid, signal.SIGKILL)
        except OSError:
            pass
        p.wait()
        raise
    return p.returncode, out


def translate(gens):
    """Regenerate the named Gen modules from /repo.  Returns (ok, log)."""
    if not gens:
        return True, ""
    env = dict(os.environ, HOME=scratch_home(), KA_VERIF="1", MPLBACKEND="Agg")
    p = subprocess.run([sys.executable, os.path.join(VERIF, "translate", "gen.py")] + list(gens),
                       stdout=subprocess.PIPE, stderr=subprocess.STDOUT, text=True, env=env, timeout=600)
    return p.returncode == 0, p.stdout


def lake_build(targets, clean=False):
    lock = _lake_lock()
    try:
        rc, out = run_cmd(["lake", "build"] + list(targets), cwd=LEAN, timeout=3000)
    finally:
        lock.close()
    return rc == 0, out


def _being_rebuilt(out):
    return "does not exist" in out and "object file" in out or "failed to read file" in out or "invalid header" in out


def _wait_for_builders():
    time.sleep(1.0)
    lock = _lake_lock()      # blocks while a build holds the lock
    lock.close()
    lake_build(["KaVerif.Driver.All"])


def strip_comments(src):
    # nested block comments /- … -/ and line comments --
    out, i, depth, n = [], 0, 0, len(src)
    while i < n:
        if src.startswith("/-", i):
            depth += 1; i += 2; continue
        if depth and src.startswith("-/", i):
            depth -= 1; i += 2; continue
        if depth:
            if src[i] == "\n":
                out.append("\n")
            i += 1; continue
        if src.startswith("--", i):
            while i < n and src[i] != "\n":
                i += 1
            continue
        out.append(src[i]); i += 1
    return "".join(out)


def grep_forbidden():
    hits = []
    for root, _, files in os.walk(os.path.join(LEAN, "KaVerif")):
        for f in files:
            if f.endswith(".lean"):
                p = os.path.join(root, f)
                src = strip_comments(open(p, encoding="utf-8").read())
                for m in FORBIDDEN.finditer(src):
                    line = src.count("\n", 0, m.start()) + 1
                    hits.append("%s:%d: %s" % (os.path.relpath(p, LEAN), line, m.group(0).strip()))
    return hits


def audit_axioms(pid, modules, theorems):
    """#print axioms for every property theorem.  Returns (ok, per-theorem dict, log)."""
    d = os.path.join(LEAN, ".audit")
    os.makedirs(d, exist_ok=True)
    path = os.path.join(d, pid + ".lean")
    with open(path, "w") as f:
        for m in modules:
            f.write("import %s\n" % m)
        for t in theorems:
            f.write("#print axioms %s\n" % t)
    for attempt in range(6):
        rc, out = run_cmd(["lake", "env", "lean", path], cwd=LEAN, timeout=1200)
        if rc != 0 and _being_rebuilt(out) and attempt < 5:
            _wait_for_builders()
            lake_build(list(modules))
            continue
        break
    res, ok = {}, rc == 0
    # output: "'name' depends on axioms: [a, b]"  or "'name' does not depend on any axioms"
    for m in re.finditer(r"'([^']+)' (depends on axioms: \[([^\]]*)\]|does not depend on any axioms)", out):
        axs = [a.strip() for a in (m.group(3) or "").replace("\n", " ").split(",") if a.strip()]
        res[m.group(1)] = axs
    for t in theorems:
        if t not in res:
            ok = False
        elif not set(res[t]) <= ALLOWED_AXIOMS:
            ok = False
    return ok, res, out


def leanchecker(modules):
    rc, out = run_cmd(["lake", "env", "leanchecker"] + list(modules), cwd=LEAN, timeout=3000)
    return rc == 0, out


class LeanDriver:
    """Runs the model driver once over a batch of request lines."""

    def run(self, lines):
        if not lines:
            return []
        for l in lines:
            if "\n" in l:
                raise Infra("newline in request line")
        for attempt in range(6):
            rc, out = run_cmd(["lake", "env", "lean", "--run", "Main.lean"], cwd=LEAN,
                              inp="\n".join(lines) + "\n", timeout=3000)
            if rc != 0 and _being_rebuilt(out) and attempt < 5:
                _wait_for_builders()        # another check is rebuilding a shared module right now
                continue
            break
        res = out.split("\n")
        if res and res[-1] == "":
            res.pop()
        if rc != 0 or len(res) != len(lines):
            raise Infra("model driver failed (rc=%s, %d answers for %d requests): %s"
                        % (rc, len(res), len(lines), out[-2000:]))
        return res


# ----------------------------------------------------------------------------
# a check run
# ----------------------------------------------------------------------------
def load_known():
    p = os.path.join(VERIF, "known_findings.json")
    if not os.path.exists(p):
        return []
    return json.load(open(p))["findings"]


class Ctx:
    def __init__(self, pid, tier, seed):
        self.pid, self.tier, self.seed = pid, tier, seed
        self.rng = random.Random(seed * 1000003 + int(hashlib.sha1(pid.encode()).hexdigest()[:8], 16))
        self.t0 = time.time()
        self.violations = []      # concrete failing inputs (dicts)
        self.breaks = []          # broken obligations / correspondences without a failing input (yet)
        self.known_hits = {}      # key -> description
        self.known = [k for k in load_known() if k.get("property") == pid and k.get("status") == "known"]
        self.cov = dict(evaluations=0, distinct_nontrivial=0, samples=[], histogram={})
        self._distinct = set()
        self.obligations = 0
        self.discharged = 0
        self.notes = []
        self.assumptions = []
        self._real = None
        self.model = LeanDriver()
        self.model_ok = True

    # lazily import the real code (so a broken import becomes a reported break, not a crash)
    @property
    def real(self):
        if self._real is None:
            self._real = Real()
        return self._real

    def quick(self):
        return self.tier == "quick"

    def n(self, quick, thorough):
        return quick if self.tier == "quick" else thorough

    # ---- coverage accounting
    def count(self, case_key, nontrivial=True, bucket=None):
        self.cov["evaluations"] += 1
        if nontrivial and case_key not in self._distinct:
            self._distinct.add(case_key)
        if bucket is not None:
            h = self.cov["histogram"]
            h[bucket] = h.get(bucket, 0) + 1

    def sample(self, s, limit=12):
        if len(self.cov["samples"]) < limit:
            self.cov["samples"].append(s)

    # ---- outcomes
    def _known_match(self, key, text):
        for k in self.known:
            if "key" in k and k["key"] == key:
                return k
            if "match" in k and re.search(k["match"], text or ""):
                return k
        return None

    def violation(self, key, input_, expected, actual, how, stream=None):
        """A concrete input on which the REAL code breaks the property."""
        k = self._known_match(key, input_ if isinstance(input_, str) else json.dumps(input_))
        if k is not None:
            self.known_hits.setdefault(k.get("key") or k.get("match"), k["what"])
            return
        if len(self.violations) < 50:
            self.violations.append(dict(key=key, input=input_, expected=expected, actual=actual,
                                        how_to_replay=how, stream=stream))

    def broken(self, what, detail=""):
        """A proof obligation / table / correspondence that no longer checks."""
        if len(self.breaks) < 50:
            self.breaks.append(dict(what=what, detail=detail[-4000:] if isinstance(detail, str) else detail))

    # ---- correspondence helper
    def correspond(self, stream, cases, agree=None, describe=None):
        """cases: list of (request_line, real_answer, info).  Runs the model on all request
        lines and returns the list of disagreeing (request, real, model, info)."""
        if not self.model_ok or not cases:
            return []
        lines = [c[0] for c in cases]
        answers = self.model.run(lines)
        bad = []
        for (req, real, info), ans in zip(cases, answers):
            ok = agree(real, ans, info) if agree else (real == ans)
            if not ok:
                bad.append((req, real, ans, info))
        self.cov.setdefault("correspondence", {})[stream] = dict(cases=len(cases), disagreements=len(bad))
        for req, real, ans, info in bad[:5]:
            self.broken("correspondence stream '%s' disagrees" % stream,
                        json.dumps(dict(request=req, real=real, model=ans, info=describe(info) if describe else str(info))))
        return bad


GENDIR = os.path.join(LEAN, "KaVerif", "Gen")
GENREF = os.path.join(VERIF, "genref")


def restore_reference(only=None):
    """Put the REFERENCE tables (genref/: the Gen files as generated from the reviewed tree) back over lean/KaVerif/Gen.
    `only`: names of Gen modules (prefix match, e.g. 'Registry' covers RegistryTable3) or None for all.
    Returns the names of the files whose content changed."""
    changed = []
    if not os.path.isdir(GENREF):
        return changed
    for f in sorted(os.listdir(GENREF)):
        stem = f.split(".")[0]
        if only is not None and not any(stem.lower().startswith(o.lower()) or (o == "Registry" and stem == "registry")
                                        or (o == "Units" and stem == "units") for o in only):
            continue
        ref = open(os.path.join(GENREF, f), "rb").read()
        p = os.path.join(GENDIR, f)
        cur = open(p, "rb").read() if os.path.exists(p) else None
        if cur != ref:
            with open(p, "wb") as g:
                g.write(ref)
            changed.append(f)
    return changed


def _build(ctx, targets):
    """build the model driver and the property's proof modules; returns (driver ok, proofs ok, failed modules, log)"""
    okd, logd = lake_build(["KaVerif.Driver.All"])
    ok, log = lake_build(targets)
    failed = re.findall(r"^- (\S+)", logd if not okd else "", re.M) + re.findall(r"^- (\S+)", log if not ok else "", re.M)
    return okd, ok, failed, (logd if not okd else "") + (log if not ok else "")


def proof_phase(ctx, mod):
    """translate + build + audit (+ leanchecker).  Records breaks; returns True when all fine.

    Two ties hold the model to the code: (1) the translator regenerates the tables and the theorems are re-checked on
    them, (2) the correspondence streams.  When (1) cannot be re-established on the current source — the translator no
    longer recognises the shape of the code, or a kernel-checked fact / proof fails on the regenerated tables — that is
    not yet a violation: the run puts the reference tables back (so that the model and every theorem build again),
    remembers what broke in `ctx.retied`, and lets tie (2) and the oracle decide against the current code."""
    ok_all = True
    ctx.retied = []
    gens = getattr(mod, "GEN", [])
    ok, log = translate(gens)
    if not ok:
        failed_gens = re.findall(r"^gen: FAILED (\S+)", log, re.M) or list(gens)
        restore_reference(failed_gens)
        ctx.retied.append(dict(what="translator failed for %s" % ",".join(failed_gens), detail=log[-4000:]))
    targets = list(getattr(mod, "LEAN_MODULES", []))
    theorems = list(getattr(mod, "THEOREMS", []))
    ctx.obligations = len(theorems)
    okd, ok, failed, log = _build(ctx, targets)
    ctx.lost_modules = []
    if okd and not ok:
        # The model driver builds on the regenerated tables; only proofs about them fail (a kernel-checked table fact, or a lemma
        # that names an entry which moved).  The driver KEEPS the current tables — so that the correspondence compares the code
        # with a model of the CURRENT data — and the modules that no longer build are recorded as a lost tie: their theorems are
        # not re-checked in this run, and the correspondence streams and the oracle decide (DESIGN 12.8 / 12.11).
        good = [t for t in targets if lake_build([t])[0]]
        ctx.lost_modules = [t for t in targets if t not in good]
        ctx.retied.append(dict(what="lake build failed (theorems no longer check on the regenerated tables): %s [the model keeps the "
                                    "regenerated tables; not re-checked in this run: the theorems of %s]"
                                    % (", ".join(failed or ctx.lost_modules), ", ".join(ctx.lost_modules)), detail=log[-4000:]))
        targets = good
        ok = True
    if not (okd and ok):
        what = ("model driver does not build: %s" if not okd else "lake build failed (a theorem no longer checks): %s") % ", ".join(failed or targets)
        # first the generated modules the failure itself points at (a module named in the log, and the translated function
        # BODIES whenever one of the modules built on them fails: generated code is the most fragile table); then the tables
        # this property regenerates itself; only if that is not enough, every table.  Restoring as little as possible matters:
        # a reference table that is put back although it could have been regenerated makes the model speak about the OLD code.
        restored, okd2, ok2 = [], False, False
        named = [g for g in dict.fromkeys(re.findall(r"KaVerif[./]Gen[./]([A-Za-z]+?)(?:\d*|Table\d*|Reach\w*)\b", log or "")) if g]
        if any(("Bodies" in m or "EvalG" in m) for m in (failed or [])) or "Bodies" in (log or ""):
            named = ["Bodies"] + [g for g in named if g != "Bodies"]
        for g in named:
            got = restore_reference([g])
            if got:
                restored += got
                okd2, ok2, failed2, log2 = _build(ctx, targets)
                if okd2 and ok2:
                    break
        if not (okd2 and ok2):
            more = restore_reference(list(gens)) if gens else []
            if more:
                restored += more
                okd2, ok2, failed2, log2 = _build(ctx, targets)
        if not restored or not (okd2 and ok2):
            more = restore_reference(None)
            if more:
                restored = restored + more
                okd2, ok2, failed2, log2 = _build(ctx, targets)
        if restored and okd2 and ok2:
            ctx.retied.append(dict(what=what + " [on the regenerated tables: " + ", ".join(restored) + "]", detail=log[-4000:]))
            okd, ok = True, True
        else:
            if restored:
                okd, ok, failed, log = okd2, ok2, failed2, log2
                what = ("model driver does not build: %s" if not okd else "lake build failed (a theorem no longer checks): %s") % ", ".join(failed or targets)
            ctx.broken(what, log)
    ctx.model_ok = okd
    if not ok:
        ctx.build_failed = True
        return False
    # facts of the reviewed tree that a harmless change may take away (declared by the check as OPTIONAL_MODULES): built and audited
    # when they hold; when they do not, that is said — it is neither a lost tie nor a broken obligation
    opt_mods, opt_thms = list(getattr(mod, "OPTIONAL_MODULES", [])), list(getattr(mod, "OPTIONAL_THEOREMS", []))
    ctx.optional_lost = []
    if opt_mods:
        oko, logo = lake_build(opt_mods)
        if oko:
            targets = targets + opt_mods
            theorems = theorems + opt_thms
            ctx.obligations = len(theorems)
        else:
            ctx.optional_lost = opt_thms
            why = " ".join(l.strip() for l in logo.split("\n") if "error" in l.lower())[:300]
            msg = ("facts of the reviewed tree that no longer hold on this one (not required by the property; the theorems about the "
                   "entries the reviewed tree had still check): %s — %s" % (", ".join(opt_thms), why))
            ctx.notes.append(msg)
            ctx.assumptions.append(msg)
            print("NOTE property=%s %s" % (ctx.pid, msg[:400]))
    if not okd:
        ok_all = False
    ctx.build_failed = False
    meta_p = os.path.join(GENDIR, "registry.json")
    if "Registry" in gens and os.path.exists(meta_p):
        try:
            ren = json.load(open(meta_p)).get("impl_renamed") or []
        except Exception:  # noqa
            ren = []
        if ren:
            ctx.assumptions.append("%d overload(s) whose Python callable was renamed/restructured keep the reference implementation label "
                                   "(identity of an overload = name + signature); their behaviour is tied by correspondence only: %s"
                                   % (len(ren), ", ".join("%s%s" % (r["name"], r["sig"]) for r in ren[:12])))
    hits = grep_forbidden()
    if hits:
        ctx.broken("forbidden construct in Lean sources", "\n".join(hits))
        ok_all = False
    ok, res, log = audit_axioms(ctx.pid, targets, theorems)
    ctx.axioms = res
    ctx.discharged = sum(1 for t in theorems if t in res and set(res[t]) <= ALLOWED_AXIOMS)
    if not ok:
        bad = [t for t in theorems if t not in res or not set(res[t]) <= ALLOWED_AXIOMS]
        missing_only = [t for t in bad if t not in res]
        if ctx.lost_modules and missing_only == bad:
            # theorems of the modules that no longer build on the regenerated tables: already recorded as the lost tie
            ctx.retied[-1]["detail"] = "theorems not re-checked in this run: %s\n%s" % (", ".join(bad), ctx.retied[-1].get("detail", ""))
        else:
            ctx.broken("axiom audit failed for: %s" % ", ".join(bad), log)
            ok_all = False
    if ctx.tier == "thorough" and ok_all:
        ok, log = leanchecker(targets)
        ctx.cov["leanchecker"] = "ok" if ok else "FAILED"
        if not ok:
            ctx.broken("leanchecker rejected %s" % ",".join(targets), log)
            ok_all = False
    return ok_all


def finish(ctx, mod):
    pid = ctx.pid
    os.makedirs(os.path.join(VERIF, "replays"), exist_ok=True)
    os.makedirs(os.path.join(VERIF, "evidence"), exist_ok=True)
    for key, what in sorted(ctx.known_hits.items()):
        print("KNOWN-FINDING: property=%s %s" % (pid, what))
    rc = 0
    lines = []
    retied = getattr(ctx, "retied", [])
    if retied and (ctx.violations or ctx.breaks):
        # the translator tie was lost AND the correspondence / oracle found a difference: name both in the replay
        ctx.breaks = retied + ctx.breaks
    elif retied:
        for r in retied:
            print("NOTE property=%s re-tied by correspondence only (reference tables kept): %s" % (pid, r["what"][:300]))
            ctx.assumptions.append("THIS RUN: %s — the tables could not be re-derived from the current source; the reference tables were "
                                   "kept, every theorem was re-checked on them, and the model was tied to the current code by the "
                                   "correspondence streams and the oracle alone (all agreed)" % r["what"][:300])
    if ctx.violations:
        v = ctx.violations[0]
        h = hashlib.sha1(json.dumps(v, sort_keys=True, default=str).encode()).hexdigest()[:10]
        path = os.path.join(VERIF, "replays", "%s-%s.json" % (pid, h))
        json.dump(dict(property=pid, kind="failing-input", tier=ctx.tier, seed=ctx.seed, first=v, all=ctx.violations,
                       broken_obligations=ctx.breaks), open(path, "w"), indent=1, default=str)
        lines.append("VIOLATION property=%s replay=%s" % (pid, path))
        rc = 1
    elif ctx.breaks:
        b = ctx.breaks[0]
        h = hashlib.sha1(json.dumps(b, sort_keys=True, default=str).encode()).hexdigest()[:10]
        path = os.path.join(VERIF, "replays", "%s-%s.json" % (pid, h))
        json.dump(dict(property=pid, kind="broken-obligation", tier=ctx.tier, seed=ctx.seed,
                       no_longer_checks=[x["what"] for x in ctx.breaks],
                       detail=ctx.breaks), open(path, "w"), indent=1, default=str)
        lines.append("VIOLATION property=%s replay=%s no-failing-input-found" % (pid, path))
        rc = 1
    cov = ctx.cov
    cov["distinct_nontrivial"] = len(ctx._distinct)
    cov["obligations"] = ctx.obligations
    cov["discharged"] = ctx.discharged
    cov["checker_cmd"] = "cd lean && lake build %s && lake env lean .audit/%s.lean  # #print axioms" % (
        " ".join(getattr(mod, "LEAN_MODULES", [])), pid)
    cov["trusted_base"] = TRUSTED_BASE + list(getattr(mod, "TRUSTED_EXTRA", []))
    cov["rule"] = getattr(mod, "RULE", "")
    cov["theorems"] = {t: getattr(ctx, "axioms", {}).get(t) for t in getattr(mod, "THEOREMS", [])}
    cov["known_findings_hit"] = sorted(ctx.known_hits.values())
    if ctx.notes:
        cov["notes"] = ctx.notes
    if not cov["samples"]:
        cov["samples"] = ["(no case reached)"]
    ev = dict(property_id=pid, tier=ctx.tier, seed=ctx.seed, level="proof", coverage=cov,
              assumptions=list(getattr(mod, "ASSUMPTIONS", [])) + ctx.assumptions,
              wall_s=round(time.time() - ctx.t0, 2), violations=len(ctx.violations) + (1 if (ctx.breaks and not ctx.violations) else 0))
    json.dump(ev, open(os.path.join(VERIF, "evidence", pid + ".json"), "w"), indent=1, default=str)
    for l in lines:
        print(l)
    print("%s tier=%s seed=%d evaluations=%d distinct=%d theorems=%d/%d wall=%.1fs -> %s" % (
        pid, ctx.tier, ctx.seed, cov["evaluations"], cov["distinct_nontrivial"], ctx.discharged, ctx.obligations,
        time.time() - ctx.t0, "VIOLATION" if rc else "ok"))
    return rc


def main(argv):
    import argparse, importlib
    ap = argparse.ArgumentParser()
    ap.add_argument("pid")
    ap.add_argument("--tier", default=os.environ.get("VERIF_TIER", "quick"), choices=["quick", "thorough"])
    ap.add_argument("--replay")
    a = ap.parse_args(argv)
    seed = int(os.environ.get("VERIF_SEED", "0") or 0)
    sys.path.insert(0, os.path.join(VERIF, "harness"))
    try:
        mod = importlib.import_module("props." + a.pid)
    except ModuleNotFoundError:
        print("no such check: " + a.pid)
        return 2
    rep = None
    if a.replay:
        rep = json.load(open(a.replay))
        if hasattr(mod, "replay"):
            return mod.replay(Ctx(a.pid, rep.get("tier", a.tier), int(rep.get("seed", seed))), rep)
        # generic replay: the same seeded run that produced the replay, then look for the same failing input / obligation
        a.tier, seed = rep.get("tier", a.tier), int(rep.get("seed", seed))
    ctx = Ctx(a.pid, a.tier, seed)
    try:
        proof_ok = proof_phase(ctx, mod)
        ctx.proof_ok = proof_ok
        try:
            mod.check(ctx)
            if not getattr(mod, "NO_REPEAT_ORACLE", False):
                repeat_oracle(ctx)
                history_oracle(ctx)
        except Infra:
            raise
        except Timeout:
            raise Infra("watchdog fired outside a guarded call")
        rc = finish(ctx, mod)
        if rep is not None:
            if rep.get("kind") == "failing-input":
                key = (rep.get("first") or {}).get("key")
                hit = [v for v in ctx.violations if v["key"] == key]
                print("REPLAY %s: %s" % (a.pid, ("reproduced: %s -> %s (expected %s)" % (key, hit[0]["actual"], hit[0]["expected"])) if hit
                                          else "NOT reproduced: %s no longer fails on this tree" % key))
                return 1 if hit else 0
            whats = set(rep.get("no_longer_checks", []))
            hit = [b for b in ctx.breaks if b["what"] in whats]
            print("REPLAY %s: %s" % (a.pid, "reproduced: " + hit[0]["what"] if hit else "NOT reproduced: those obligations check again"))
            return 1 if hit else 0
        return rc
    except Infra as e:
        print("INFRA-FAILURE %s: %s" % (a.pid, e))
        return 2
    except subprocess.TimeoutExpired as e:
        print("INFRA-FAILURE %s: timeout %s" % (a.pid, e))
        return 2
    except Exception:  # a bug in the harness is not a violation of the property
        traceback.print_exc()
        print("INFRA-FAILURE %s: the check itself crashed" % a.pid)
        return 2



# ---- a program run as a script file (`ka --script f`) means what the same text means to execute(): layout (one token per
# line, so that every kind of token starts a line somewhere) changes nothing
SCRIPT_PROGRAMS = ["#2020-03-01# - #2020-02-01# to days", "x = 7; #2021-01-01# - #2020-01-01# to days", "size({1, 2, #2020-01-01# < #2020-01-02#})",
                   "x = 2; y = x^10; y - 1", "{a * 2 : a in 1..4, a % 2 == 0}", "(3 m + 20 cm) to mm", "-5 + 3", "1 - -2", "a = \"x y\"; a",
                   "7 % 4", "2 km | h to m | s", "1/0", "x = 3; x!; x +", "[1, 2] * 3", "5 > 3 >= 1", "max(1, 2, 3)"]


def script_route(ctx, programs=None, prefix="script-layout"):
    R = ctx.real
    home = scratch_home()
    sdir = os.path.join(home, "layouts")
    os.makedirs(sdir, exist_ok=True)
    env = dict(os.environ, HOME=home, PYTHONPATH=os.path.join(REPO, "src"), MPLBACKEND="Agg")
    jobs = []
    for i, text in enumerate(programs or SCRIPT_PROGRAMS):
        try:
            toks = R.tokens.tokenise(text)
            lex = [text[t.begin_index_incl:t.end_index_excl] for t in toks]
        except Exception:  # noqa: the token class does not look as expected, or the text does not lex: only the text itself
            lex = None
        layouts = [("as written", text)]
        if lex and "".join(lex).replace(" ", "") == text.replace(" ", ""):
            layouts += [("one token per line", "\n".join(lex)), ("one token per line, indented", "\n  ".join(lex) + "\n")]
        base = R.execute(text, timeout=10)
        for j, (what, lay) in enumerate(layouts):
            jobs.append((text, what, lay, base, os.path.join(sdir, "p%d_%d.ka" % (i, j))))

    def run(job):
        text, what, lay, base, path = job
        with open(path, "w", encoding="utf-8", newline="") as f:
            f.write(lay)
        try:
            p = subprocess.run([sys.executable, "-m", "ka.cli", "--script", path], env=env, stdout=subprocess.PIPE, stderr=subprocess.PIPE, text=True, timeout=60)
            return job, p.returncode, p.stdout, p.stderr
        except subprocess.TimeoutExpired:
            return job, "timeout", "", ""
    from concurrent.futures import ThreadPoolExecutor
    with ThreadPoolExecutor(8) as ex:
        for (text, what, lay, base, path), rc, out, err in ex.map(run, jobs):
            ctx.count("%s:%s:%s" % (prefix, what, text), bucket="script route/" + what)
            if base["escaped"] or base["status"] not in (0, 1):
                continue
            if rc != base["status"] or out != base["out"] or "Traceback" in err:
                ctx.violation("%s:%s" % (prefix, lay), lay, "what execute(%r) gives: status %s, prints %r" % (text, base["status"], base["out"][:120]),
                              "exit %r, prints %r %s" % (rc, out[:120], err.strip()[-160:]),
                              "HOME=<empty> python -m ka.cli --script <file holding the input, %s>" % what)

# ---- session bindings of a real EvalEnvironment, independent of how the class stores them ----------------------------
ENV_NAME_POOL = set("a b c d e f g h i j k l m n o p q r s t u v w x y z xs ys iv jv pi true false".split())


def _env_dicts(env):
    """the dict-like stores of an environment object, outermost first (a plain dict of bindings, or a stack of scopes)"""
    out = []
    for k, val in vars(env).items():
        if isinstance(val, dict):
            out.append((k, [val]))
        elif isinstance(val, (list, tuple)) and val and all(isinstance(x, dict) for x in val):
            out.append((k, list(val)))
    return out


def env_names(env, extra=()):
    """candidate names: everything any dict-like store of the object mentions, the harness pool and `extra`"""
    names = set(ENV_NAME_POOL) | set(extra)
    for _k, ds in _env_dicts(env):
        for d in ds:
            names.update(k for k in d if isinstance(k, str))
    return names


def env_bindings(env, extra=()):
    """name -> value for every name that READS as bound, decided through the public `get_variable` (so that a scope
    stack, a shadow table or a renamed attribute are all observed the way a program observes them)"""
    v = getattr(env, "_variables", None)
    out = {}
    for nm in sorted(env_names(env, extra) | (set(v) if isinstance(v, dict) else set())):
        try:
            out[nm] = env.get_variable(nm)
        except Exception:  # noqa: unassigned
            pass
    return out


def env_bound(env, name):
    try:
        env.get_variable(name)
        return True
    except Exception:  # noqa
        return False


def clone_env(env):
    """an independent copy of a session: same class, every dict / stack-of-dicts attribute copied one level deep"""
    import copy
    e2 = copy.copy(env)
    for k, val in list(vars(env).items()):
        if isinstance(val, dict):
            setattr(e2, k, dict(val))
        elif isinstance(val, list):
            setattr(e2, k, [dict(x) if isinstance(x, dict) else x for x in val])
    return e2


# ---- generic oracle: one parse node evaluated repeatedly gives each time what it gives when written out --------------------
REPEAT_SKIP = re.compile(r"rand|sample|seed|now|today|quit|exit|histogram|line|scatter|plot|options|bar|text|[;=%\n\r]|\bi_\b")


def repeat_oracle(ctx, n_quick=120, n_thorough=1500):
    """For expressions E this run evaluated successfully: `{E : i_ in 1..3}` (ONE node, evaluated three times) must print what
    `{E, E, E}` (three nodes, evaluated once each) prints.  Implementations that keep state on the parse node, update an
    operand or a literal in place, or memoise per call site are right the first time only."""
    R = ctx.real
    seen = getattr(R, "seen", None)
    if not seen:
        return
    cands = sorted(t for t, dt in seen.items() if dt < 0.05 and 0 < len(t) < 300 and not REPEAT_SKIP.search(t.replace("==", "").replace("<=", "").replace(">=", "").replace("!=", "")))
    rng = random.Random(ctx.seed * 7919 + 17)
    for text in rng.sample(cands, min(len(cands), ctx.n(n_quick, n_thorough))):
        a = R.execute("{%s, %s, %s}" % (text, text, text))
        if a["status"] != 0 or a["escaped"] or " object at 0x" in a["out"]:
            continue
        b = R.execute("{%s : i_ in 1..3}" % text)
        ctx.count("repeat:" + text, bucket="re-evaluated node")
        if b["escaped"] or b["status"] != 0 or b["out"] != a["out"]:
            ctx.violation("repeat:" + text, "{%s : i_ in 1..3}" % text, a["out"].strip()[:200],
                          (b["out"].strip() or "status %s %s %s" % (b["status"], b["escaped"] or "", b["err"].strip()))[:200],
                          "execute('{E : i_ in 1..3}') against execute('{E, E, E}') for E = %r" % text)


def history_oracle(ctx, n_quick=250, n_thorough=3000):
    """Expressions this run evaluated in a FRESH environment early on are evaluated again at the very end, after everything
    else the check did in this process (failing parses, other kinds, other units, commands): the outcome must be the same.
    State that outlives an evaluation — counters, memo tables, registries updated on lookup — shows up here."""
    R = ctx.real
    first = getattr(R, "first_outcome", None)
    if not first:
        return
    seen = getattr(R, "seen", {})
    cands = [t for t in first if seen.get(t, 1) < 0.05 and 0 < len(t) < 400 and first[t][1] is not None and " object at 0x" not in first[t][1]
             and not REPEAT_SKIP.search(t.replace("==", "").replace("<=", "").replace(">=", "").replace("!=", "").replace(";", "").replace("=", ""))
             and "\n" not in t and "%" not in t]
    rng = random.Random(ctx.seed * 104729 + 5)
    early = cands[: ctx.n(n_quick, n_thorough) // 2]
    rest = cands[len(early):]
    pick = early + rng.sample(rest, min(len(rest), ctx.n(n_quick, n_thorough) // 2))
    for text in pick:
        kind, before = first[text]
        if kind == "value":
            k, v = R.value(text)
            now = R._canon(v) if k == "ok" else "err " + str(v)
        else:
            r = R.execute(text)
            now = r["out"] if (r["status"] == 0 and not r["escaped"]) else "status %s %s %s" % (r["status"], r["escaped"] or "", r["err"].strip()[:120])
        ctx.count("again:" + text, bucket="evaluated again at the end")
        if now != before and now is not None:
            ctx.violation("history:" + text, text + "     (evaluated again at the end of the run, fresh environment)", str(before).strip()[:200], str(now).strip()[:200],
                          "the same process evaluates other inputs in between; first and last outcome of execute(%r) differ" % text)
