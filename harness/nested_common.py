"""Shared oracle: NESTED comprehensions with re-used names, against a reference interpreter with lexical scoping.

A comprehension `{body : x in A, y in B, cond, ...}` evaluates its generator sources A, B in the ENCLOSING scope,
walks them in lock-step, binds x, y for the conditions and the body only, and puts the enclosing bindings back
afterwards.  Implementations that keep a single slot per name, hoist "loop-invariant" conditions, cache per call
site, or restore in the wrong order are right for flat comprehensions and wrong only when an inner comprehension
re-uses the name of an outer generator variable (or of a session variable) — so this generator does that on
purpose: a small pool of names, inner comprehensions inside bodies, conditions and generator sources, sources that
read the outer variable of the same name (`{x : x in 1..x}`), a name listed twice, and session variables of the
same names that must read unchanged afterwards.

Expression language (integers only, so that the reference is exact and trivially right):
    e ::= lit | var | (e + e) | (e * e) | sum(C) | size(C) | max(C ∪ {0})
    C ::= {e : v in S, ..., cond, ...}          S ::= lo..hi  with lo, hi expressions | {e, e, ...}
    cond ::= e < e | e <= e | e == e | e != e
"""
import core

NAMES = ["x", "y", "n"]


class Unbound(Exception):
    pass


def gen_expr(rng, depth, scope, nest_budget):
    """scope: names that are readable here"""
    r = rng.random()
    if depth <= 0 or r < 0.25:
        if scope and rng.random() < 0.7:
            return ("var", rng.choice(sorted(scope)))
        return ("lit", rng.randrange(0, 5))
    if r < 0.45:
        return ("add", gen_expr(rng, depth - 1, scope, nest_budget), gen_expr(rng, depth - 1, scope, nest_budget))
    if r < 0.55:
        return ("mul", gen_expr(rng, depth - 1, scope, nest_budget), ("lit", rng.randrange(0, 3)))
    if nest_budget[0] <= 0:
        return ("var", rng.choice(sorted(scope))) if scope else ("lit", 1)
    nest_budget[0] -= 1
    return (rng.choice(["sum", "size", "max0"]), gen_compr(rng, depth - 1, scope, nest_budget))


def gen_source(rng, depth, scope, nest_budget):
    if rng.random() < 0.6:
        lo = ("lit", rng.randrange(0, 3))
        hi = ("var", rng.choice(sorted(scope))) if scope and rng.random() < 0.6 else ("lit", rng.randrange(0, 5))
        return ("range", lo, hi)
    return ("list", [gen_expr(rng, min(depth, 1), scope, nest_budget) for _ in range(rng.randrange(0, 4))])


def gen_compr(rng, depth, scope, nest_budget):
    ng = rng.choice([1, 1, 1, 2])
    # re-use enclosing names on purpose
    pool = NAMES if rng.random() < 0.8 else ["k", "m"]
    names = [rng.choice(pool) for _ in range(ng)] if rng.random() < 0.15 else rng.sample(pool, min(ng, len(pool)))
    gens = [(nm, gen_source(rng, depth, scope, nest_budget)) for nm in names]
    inner = set(scope) | set(names)
    conds = []
    for _ in range(rng.choice([0, 0, 1, 1, 2])):
        if names and nest_budget[0] > 0 and rng.random() < 0.35:
            # a condition whose ONLY use of the outer variable v is inside the generator source of an inner comprehension that
            # re-binds v: it looks loop-invariant to a free-variable analysis that treats the inner binding as covering its source
            nest_budget[0] -= 1
            v = rng.choice(names)
            src = ("range", ("lit", rng.randrange(0, 2)), ("var", v)) if rng.random() < 0.6 else ("list", [("var", v), ("lit", rng.randrange(0, 4))])
            inner_c = ("compr", rng.choice([("var", v), ("lit", 1), ("mul", ("var", v), ("lit", 2))]), [(v, src)], [])
            conds.append((rng.choice(["<", "<=", "==", "!="]), (rng.choice(["sum", "size", "max0"]), inner_c), ("lit", rng.randrange(0, 8))))
            continue
        conds.append((rng.choice(["<", "<=", "==", "!="]), gen_expr(rng, depth, inner, nest_budget), gen_expr(rng, min(depth, 1), inner, nest_budget)))
    body = gen_expr(rng, depth, inner, nest_budget)
    return ("compr", body, gens, conds)


def text_of(e):
    t = e[0]
    if t == "lit":
        return str(e[1])
    if t == "var":
        return e[1]
    if t == "add":
        return "(%s + %s)" % (text_of(e[1]), text_of(e[2]))
    if t == "mul":
        return "(%s * %s)" % (text_of(e[1]), text_of(e[2]))
    if t == "sum":
        return "sum(%s)" % text_of(e[1])
    if t == "size":
        return "size(%s)" % text_of(e[1])
    if t == "max0":
        return "max(0, sum(%s))" % text_of(e[1])
    if t == "range":
        return "%s..%s" % (text_of(e[1]) if e[1][0] in ("lit", "var") else "(" + text_of(e[1]) + ")",
                           text_of(e[2]) if e[2][0] in ("lit", "var") else "(" + text_of(e[2]) + ")")
    if t == "list":
        return "{" + ", ".join(text_of(x) for x in e[1]) + "}"
    if t == "compr":
        clauses = ["%s in %s" % (nm, text_of(src)) for nm, src in e[2]] + ["%s %s %s" % (text_of(a), op, text_of(b)) for op, a, b in e[3]]
        return "{%s : %s}" % (text_of(e[1]), ", ".join(clauses))
    raise ValueError(t)


def ref(e, b):
    """reference value (int or list of ints) under bindings b; raises Unbound / TypeError for programs Ka must reject"""
    t = e[0]
    if t == "lit":
        return e[1]
    if t == "var":
        if e[1] not in b:
            raise Unbound(e[1])
        return b[e[1]]
    if t in ("add", "mul"):
        p, q = ref(e[1], b), ref(e[2], b)
        if isinstance(p, list) or isinstance(q, list):
            raise TypeError("array arithmetic")
        return p + q if t == "add" else p * q
    if t == "sum":
        return sum(ref(e[1], b))
    if t == "size":
        return len(ref(e[1], b))
    if t == "max0":
        return max(0, sum(ref(e[1], b)))
    if t == "range":
        lo, hi = ref(e[1], b), ref(e[2], b)
        if isinstance(lo, list) or isinstance(hi, list):
            raise TypeError("array bound")
        return list(range(lo, hi + 1))
    if t == "list":
        xs = [ref(x, b) for x in e[1]]
        return xs
    if t == "compr":
        srcs = [ref(src, b) for _nm, src in e[2]]          # in the ENCLOSING scope, all of them, before any binding
        for s in srcs:
            if not isinstance(s, list):
                raise TypeError("generator is not an array")
        out = []
        for i in range(min(len(s) for s in srcs)):
            b2 = dict(b)
            for (nm, _), s in zip(e[2], srcs):
                b2[nm] = s[i]                               # a name listed twice: the later generator wins
            keep = True
            for op, p, q in e[3]:
                pv, qv = ref(p, b2), ref(q, b2)
                if isinstance(pv, list) or isinstance(qv, list):
                    raise TypeError("array comparison")
                if not {"<": pv < qv, "<=": pv <= qv, "==": pv == qv, "!=": pv != qv}[op]:
                    keep = False
                    break                                    # later conditions are not evaluated (they could only fail, never change the result, in this language: no errors possible after scoping is checked)
            if keep:
                out.append(ref(e[1], b2))
        return out
    raise ValueError(t)


def has_nested_list_value(v):
    return isinstance(v, list) and any(isinstance(x, list) for x in v)


def to_py(v, T):
    if isinstance(v, T.Array):
        return [to_py(x, T) for x in v.contents]
    return v


def run(ctx, n, prefix="nested"):
    """n random programs; each: bind session variables, evaluate a nested comprehension, compare with the reference, then
    require every session variable to read as before and no generator name to be left bound"""
    R, rng = ctx.real, ctx.rng
    T = R.types
    done = 0
    attempts = 0
    while done < n and attempts < n * 6:
        attempts += 1
        sess = {nm: rng.randrange(0, 6) for nm in rng.sample(NAMES, rng.randrange(0, len(NAMES) + 1))}
        # the session may have REASSIGNED a constant: inside a comprehension it reads as reassigned, too
        for nm in rng.sample(["pi", "e", "true", "false"], rng.choice([0, 0, 1, 2])):
            sess[nm] = rng.randrange(2, 9)
        budget = [rng.choice([1, 2, 2, 3])]
        prog = gen_compr(rng, 3, set(sess), budget)
        if budget[0] == rng.choice([1, 2, 3]) and rng.random() < 0.5:
            continue                                         # prefer programs that really nest
        text = text_of(prog)
        if len(text) > 400:
            continue
        try:
            want = ref(prog, dict(sess))
            want_kind = "ok"
        except (Unbound, TypeError):
            want, want_kind = None, "err"
        env = R.new_env()
        for nm, val in sorted(sess.items()):
            R.execute("%s = %d" % (nm, val), env=env)
        k, v = R.value(text, env=env)
        done += 1
        setup = "; ".join("%s = %d" % kv for kv in sorted(sess.items()))
        shown = (setup + "; " if setup else "") + text
        how = "one EvalEnvironment: %s then execute(%r), then read the session variables" % (setup or "(no assignments)", text)
        ctx.count("%s:%s" % (prefix, shown), nontrivial=want_kind == "ok", bucket="%s/%s" % (prefix, "value" if want_kind == "ok" else "rejected"))
        if want_kind == "ok":
            got = to_py(v, T) if k == "ok" else None
            if k != "ok" or got != want or type(got) is not type(want):
                ctx.violation("%s:%s" % (prefix, shown), shown, str(want).replace("[", "{").replace("]", "}"),
                              (str(got).replace("[", "{").replace("]", "}") if k == "ok" else "err " + str(v)), how)
        else:
            if k == "ok":
                ctx.violation("%s:%s" % (prefix, shown), shown, "an error (unassigned name / array where a number is needed)", "ok " + str(to_py(v, T)), how)
            elif isinstance(v, str) and v.startswith("py:"):
                ctx.violation("%s-escape:%s" % (prefix, shown), shown, "a diagnosed error", v, how)
        # the session afterwards
        after = {}
        for nm in NAMES + ["k", "m"] + [c for c in ("pi", "e", "true", "false") if c in sess]:
            k2, v2 = R.value(nm, env=env)
            after[nm] = v2 if k2 == "ok" else None
        wrong = [nm for nm in after if after[nm] != sess.get(nm)]
        if wrong:
            ctx.violation("%s-scope:%s" % (prefix, shown), shown + "; then read " + ", ".join(wrong),
                          "session variables as assigned (%s), generator names unbound" % (setup or "none"),
                          ", ".join("%s reads %r" % (nm, after[nm]) for nm in wrong), how)
    return done
