#!/bin/sh
# Build the framework from files on disk only (offline): regenerate the tables from /repo, build all Lean modules.
set -e
cd "$(dirname "$0")"
H=$(mktemp -d)
HOME=$H KA_VERIF=1 MPLBACKEND=Agg /venv/bin/python translate/gen.py || echo "setup: translator reported a failure (the checks will report it)"
rm -rf "$H"
tools/mkdriver.py
cd lean
lake build || echo "setup: lake build reported failures (the checks will report them)"
