import KaVerif.Driver.Arith
/-
  Line-protocol driver: one request per line `<stream> <payload>`, one answer per line.
  Run with `lake env lean --run Main.lean`.
-/
open KaVerif

def step (line : String) : String :=
  let line := line.trimAscii.toString
  let (stream, payload) :=
    match line.splitOn " " with
    | s :: rest => (s, " ".intercalate rest)
    | [] => ("", "")
  match stream with
  | "aexp" => Driver.handleAExp payload
  | "ping" => "pong"
  | _ => "bad-stream"

partial def loop (h : IO.FS.Stream) (out : IO.FS.Stream) : IO Unit := do
  let line ← h.getLine
  if line.isEmpty then return ()
  out.putStrLn (step line)
  loop h out

def main : IO Unit := do
  let out ← IO.getStdout
  loop (← IO.getStdin) out
