import KaVerif.Driver.All
/-
  Line-protocol driver: one request per line `<stream> <payload>`, one answer per line.
  Run with `lake env lean --run Main.lean`.
-/
partial def loop (h : IO.FS.Stream) (out : IO.FS.Stream) : IO Unit := do
  let line ← h.getLine
  if line.isEmpty then return ()
  out.putStrLn (KaVerif.Driver.step line)
  loop h out

def main : IO Unit := do
  let out ← IO.getStdout
  loop (← IO.getStdin) out
