import KaVerif.Model.Sexp
import KaVerif.Model.Num
import KaVerif.Model.Arith
import KaVerif.Lemmas.NumLemmas
import KaVerif.Props.C01
import KaVerif.Driver.Arith
