import KaVerif.Model.Elementary
import KaVerif.Driver.Compare
-- STREAM elem handleElem
namespace KaVerif.Driver
open KaVerif Elementary

def elemFn? : String → Option Fn
  | "sin" => some .sin | "cos" => some .cos | "tan" => some .tan | "sqrt" => some .sqrt
  | "ln" => some .ln | "log2" => some .log2 | "log10" => some .log10 | "abs" => some .abs
  | "floor" => some .floor | "ceil" => some .ceil | "round" => some .round | "int" => some .toInt
  | "float" => some .toFloat | "+" => some .pos | "-" => some .neg | _ => none

def elemShow : Except Err Num → String
  | .ok v => "ok " ++ v.render
  | .error e => "err " ++ e.code

/-- `elem <fn> N|<num>` / `elem <fn> Q|<num>|<dim>` / `elem log <x> <base>` / `elem pow <x> <y>` -/
def handleElem (payload : String) : String :=
  match payload.splitOn " " with
  | ["log", a, b] =>
    (match parseNum? a, parseNum? b with
     | some x, some y => elemShow (applyLog x y)
     | _, _ => "bad-op")
  | ["pow", a, b] =>
    (match parseNum? a, parseNum? b with
     | some x, some y => elemShow (Num.binop .pow x y)
     | _, _ => "bad-op")
  | [f, v] =>
    (match elemFn? f, v.splitOn "|" with
     | some fn, ["N", n] => (match parseNum? n with
        | some x => elemShow (applyNum fn x)
        | none => "bad-op")
     | some fn, ["Q", n, d] => (match parseNum? n with
        | some x => (match applyQty fn x [] with
            | .ok (m, _) => "ok " ++ m.render ++ "|" ++ d
            | .error e => "err " ++ e.code)
        | none => "bad-op")
     | _, _ => "bad-op")
  | _ => "bad-op"

end KaVerif.Driver
