import KaVerif.Model.Compare
-- STREAM cmp handleCmp
namespace KaVerif.Driver
open KaVerif Compare

/-- canonical number text `i:<n>` | `q:<n>/<d>` | `f:<bits>` → Num -/
def parseNum? (s : String) : Option Num :=
  match s.splitOn ":" with
  | ["i", n] => n.toInt?.map Num.int
  | ["q", r] => (match r.splitOn "/" with
      | [n, d] => do let a ← n.toInt?; let b ← d.toNat?; some (Num.frac (mkRat a b))
      | _ => none)
  | ["f", b] => b.toNat?.map (fun k => Num.flt (Float.ofBits (UInt64.ofNat k)))
  | _ => none

def cmpOp? : String → Option CmpOp
  | "<" => some .lt | "<=" => some .le | "==" => some .eq | "!=" => some .ne
  | ">" => some .gt | ">=" => some .ge | _ => none

/-- `N|i:3`, `Q|i:3|0,1,0`, `T|<days>|<us>` -/
def cval? (s : String) : Option CVal :=
  match s.splitOn "|" with
  | ["N", n] => (parseNum? n).map CVal.num
  | ["Q", n, d] => do
      let m ← parseNum? n
      let dim ← (d.splitOn ",").mapM (·.toInt?)
      some (CVal.qty m dim)
  | ["T", d, u] => do let a ← d.toInt?; let b ← u.toNat?; some (CVal.inst a b)
  | _ => none

def handleCmp (payload : String) : String :=
  match payload.splitOn " " with
  | [o, a, b] =>
    match cmpOp? o, cval? a, cval? b with
    | some op, some x, some y =>
      match evalCmp op x y with
      | .ok v => "ok " ++ v.render
      | .error e => "err " ++ e.code
    | _, _, _ => "bad-op"
  | _ => "bad-op"

end KaVerif.Driver
