import KaVerif.Model.Array
import KaVerif.Model.Session
import KaVerif.Model.Sexp
import KaVerif.Driver.Compare
-- STREAM arr handleArr
namespace KaVerif.Driver
open KaVerif Arr

def arrShowNums (xs : List Num) : String := "{" ++ " ".intercalate (xs.map Num.render) ++ "}"

def arrRes : Except Err Num → String
  | .ok v => "ok " ++ v.render
  | .error e => "err " ++ e.code

/-- evaluation of the Session expression fragment over an integer environment (no functions/units) -/
def arrEvalE (env : Arr.Env Int) : Session.Exp → Except Err Int
  | .lit n => .ok n
  | .var x => match env.lookup x with
    | some v => .ok v
    | none => .error .eval
  | .add a b => do let x ← arrEvalE env a; let y ← arrEvalE env b; .ok (x + y)
  | .mul a b => do let x ← arrEvalE env a; let y ← arrEvalE env b; .ok (x * y)
  | _ => .error .eval

partial def arrExp? : Sexp → Option Session.Exp
  | .list [.atom "lit", n] => n.int?.map Session.Exp.lit
  | .list [.atom "var", .atom x] => some (.var x)
  | .list [.atom "add", a, b] => do let x ← arrExp? a; let y ← arrExp? b; some (.add x y)
  | .list [.atom "mul", a, b] => do let x ← arrExp? a; let y ← arrExp? b; some (.mul x y)
  | _ => none

def arrCond? : Sexp → Option (Arr.Env Int → Except Err Cond)
  | .list [.atom "raw", e] => do
    let x ← arrExp? e
    some (fun env => do let v ← arrEvalE env x; .ok (if v = 1 then .one else if v = 0 then .zero else .notBool))
  | .list [.atom op, a, b] => do
    let x ← arrExp? a; let y ← arrExp? b
    let rel : Int → Int → Bool ← match op with
      | "lt" => some (fun p q => decide (p < q)) | "le" => some (fun p q => decide (p ≤ q))
      | "eq" => some (fun p q => decide (p = q)) | "ne" => some (fun p q => decide (p ≠ q))
      | _ => none
    some (fun env => do let p ← arrEvalE env x; let q ← arrEvalE env y; .ok (if rel p q then .one else .zero))
  | _ => none

def handleArr (payload : String) : String :=
  match payload.splitOn " " with
  | ["range", a, b] => (match a.toInt?, b.toInt? with
      | some lo, some hi => "ok {" ++ " ".intercalate ((Arr.range lo hi).map (fun k => s!"i:{k}")) ++ "}"
      | _, _ => "bad-op")
  | ["rangestep", a, b, c] => (match parseNum? a, parseNum? b, parseNum? c with
      | some lo, some hi, some st =>
        (match kaRange lo.toRat hi.toRat st.toRat with
         | .ok xs => "ok " ++ arrShowNums (xs.map Num.canon)
         | .error e => "err " ++ e.code)
      | _, _, _ => "bad-op")
  | "agg" :: fn :: rest =>
    (match rest.mapM parseNum? with
     | some xs =>
       (match fn with
        | "sum" => arrRes (arraySum xs) | "prod" => arrRes (arrayProd xs) | "mean" => arrRes (arrayMean xs)
        | "median" => arrRes (arrayMedian xs) | "min" => arrRes (arrayMin xs) | "max" => arrRes (arrayMax xs)
        | "size" => "ok " ++ (arraySize xs).render
        | _ => "bad-op")
     | none => "bad-op")
  | "in" :: x :: rest =>
    (match parseNum? x, rest.mapM parseNum? with
     | some v, some xs => "ok " ++ (inArray v xs).render
     | _, _ => "bad-op")
  | "compr" :: rest =>
    (match Sexp.parse ("(" ++ " ".intercalate rest ++ ")") with
     | some (.list [.list (.atom "names" :: ns), .list (.atom "arrays" :: as), .list (.atom "conds" :: cs), .list [.atom "body", b]]) =>
       let names := ns.filterMap (fun | .atom s => some s | _ => none)
       let arrays := as.filterMap (fun | .list xs => xs.mapM Sexp.int? | _ => none)
       (match cs.mapM arrCond?, arrExp? b with
        | some conds, some body =>
          (match comprehension names arrays conds (fun env => arrEvalE env body) [] with
           | .ok vs => "ok {" ++ " ".intercalate (vs.map (fun k => s!"i:{k}")) ++ "}"
           | .error e => "err " ++ e.code)
        | _, _ => "bad-op")
     | _ => "bad-op")
  | _ => "bad-op"

end KaVerif.Driver
