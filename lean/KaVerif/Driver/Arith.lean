import KaVerif.Model.Sexp
import KaVerif.Model.Arith
-- STREAM aexp handleAExp
namespace KaVerif.Driver
open KaVerif

def binOp? : String → Option Num.BinOp
  | "add" => some .add | "sub" => some .sub | "mul" => some .mul
  | "div" => some .div | "mod" => some .mod | "pow" => some .pow | _ => none

def unOp? : String → Option Num.UnOp
  | "pos" => some .pos | "neg" => some .neg | "abs" => some .abs | "floor" => some .floor
  | "ceil" => some .ceil | "round" => some .round | "int" => some .toInt | "float" => some .toFloat
  | _ => none

partial def aexp? : Sexp → Option AExp
  | .list [.atom "lit", n] => do let k ← n.nat?; some (.lit k)
  | .list [.atom "sci", m, e] => do let k ← m.nat?; let x ← e.int?; some (.sci k x)
  | .list [.atom "bin", .atom o, a, b] => do
      let op ← binOp? o; let x ← aexp? a; let y ← aexp? b; some (.bin op x y)
  | .list [.atom "un", .atom o, a] => do
      let op ← unOp? o; let x ← aexp? a; some (.un op x)
  | _ => none

def showRes : Except Err Num → String
  | .ok v => "ok " ++ v.render
  | .error e => "err " ++ e.code

def showDen : Den → String
  | .val q => "val " ++ (Num.canon q).render
  | .divZero => "divzero"
  | .outOfScope => "oos"

/-- `aexp <sexpr>` → `<evalA result> | <den>` -/
def handleAExp (payload : String) : String :=
  match Sexp.parse payload >>= aexp? with
  | some e => showRes (evalA e) ++ " | " ++ showDen (den e)
  | none => "bad-op"

end KaVerif.Driver
