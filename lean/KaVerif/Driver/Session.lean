import KaVerif.Model.Session
import KaVerif.Model.Sexp
-- STREAM sess handleSess
namespace KaVerif.Driver
open KaVerif Session

def sessWorld : World :=
  ⟨[("abs", fun n => (n.natAbs : Int)), ("floor", id), ("round", id), ("int", id), ("ceil", id)],
   [("dozen", 12), ("hundred", 100), ("thousand", 1000), ("million", 1000000)]⟩

partial def sessExp? : Sexp → Option Exp
  | .list [.atom "lit", n] => n.int?.map Exp.lit
  | .list [.atom "var", .atom x] => some (.var x)
  | .list [.atom "add", a, b] => do let x ← sessExp? a; let y ← sessExp? b; some (.add x y)
  | .list [.atom "mul", a, b] => do let x ← sessExp? a; let y ← sessExp? b; some (.mul x y)
  | .list [.atom "call", .atom f, a] => do let x ← sessExp? a; some (.call f x)
  | .list [.atom "unit", a, .atom u] => do let x ← sessExp? a; some (.unit x u)
  | _ => none

def sessStmt? : Sexp → Option Stmt
  | .list [.atom "a", .atom x, e] => (sessExp? e).map (Stmt.assign x)
  | .list [.atom "e", e] => (sessExp? e).map Stmt.expr
  | _ => none

def sessErr : SErr → String
  | .unassigned _ => "unassigned" | .unknownFn => "unknownfn" | .unknownUnit => "unknownunit"

def sessEnvShow (env : Env) : String :=
  let names := (env.map (·.1)).eraseDups
  let sorted := names.toArray.qsort (· < ·) |>.toList
  ",".intercalate (sorted.filterMap (fun x => (env.get x).map (fun v => s!"{x}={v}")))

def sessRes : Except SErr (Option Int) → String
  | .ok (some v) => s!"ok:{v}"
  | .ok none => "ok:none"
  | .error e => "err:" ++ sessErr e

/-- `sess ((1 stmt…) (2 stmt…) …)`: inputs tagged with session 1 or 2.
    Answer: results of the inputs in order, then both final binding tables. -/
def handleSess (payload : String) : String :=
  match Sexp.parse payload with
  | some (.list inputs) =>
    let rec go (e1 e2 : Env) (ins : List Sexp) (acc : List String) : Option (Env × Env × List String) :=
      match ins with
      | [] => some (e1, e2, acc.reverse)
      | .list (.atom tag :: ss) :: rest => do
        let stmts ← ss.mapM sessStmt?
        if tag == "1" then
          let o := runInput sessWorld e1 none stmts
          go o.env e2 rest (sessRes o.result :: acc)
        else
          let o := runInput sessWorld e2 none stmts
          go e1 o.env rest (sessRes o.result :: acc)
      | _ => none
    match go (initial []) (initial []) inputs [] with
    | some (e1, e2, rs) => " ".intercalate rs ++ " | " ++ sessEnvShow e1 ++ " | " ++ sessEnvShow e2
    | none => "bad-op"
  | _ => "bad-op"

end KaVerif.Driver
