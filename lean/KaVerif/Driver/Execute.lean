import KaVerif.Model.Execute
import KaVerif.Gen.Exec
-- STREAM exec handleExec
-- STREAM execcmd handleExecCmd
namespace KaVerif.Driver
open KaVerif Exec

def execOpt (s : String) : Option String := if s == "-" then none else some s

/-- `exec <lex> <parse> <evalTree> <display>` (exception class or `-`) → outcome -/
def handleExec (payload : String) : String :=
  match payload.splitOn " " with
  | [a, b, c, d] =>
    match execute Gen.Exec.lexCaught Gen.Exec.parseCaught Gen.Exec.evalCaught Gen.Exec.evalConverted
        ⟨execOpt a, execOpt b, execOpt c, execOpt d⟩ with
    | .done st o e => s!"done {st} {o} {e}"
    | .escaped cls => "escaped " ++ cls
  | _ => "bad-op"

/-- `execcmd w1 w2 …` (the words after `%`; `-` alone = no words) -/
def handleExecCmd (payload : String) : String :=
  let words := if payload == "-" then [] else (payload.splitOn " ").filter (· != "")
  match interpretCommand Gen.Exec.commands words with
  | .unknown => "unknown"
  | .wrongArity a b => s!"arity {a} {b}"
  | .run names args => "run " ++ names.headD "" ++ " " ++ toString args.length

end KaVerif.Driver
