import KaVerif.Model.Num
import KaVerif.Model.Prob
import KaVerif.Gen.ProbTable
-- STREAM prob handleProb
namespace KaVerif.Driver
open KaVerif KaVerif.Prob

/-- canonical number text `i:<n>` | `q:<n>/<d>` | `f:<bits>` → exact rational value -/
def probNum? (s : String) : Option Rat :=
  match s.splitOn ":" with
  | ["i", n] => n.toInt?.map (fun k => (k : Rat))
  | ["q", r] => (match r.splitOn "/" with
      | [n, d] => do let a ← n.toInt?; let b ← d.toNat?; if b = 0 then none else some (mkRat a b)
      | _ => none)
  | ["f", b] => b.toNat?.map (fun k => Num.floatToRat (Float.ofBits (UInt64.ofNat k)))
  | _ => none

def probInt? (s : String) : Option Int := do
  let q ← probNum? s
  if q.den = 1 then some q.num else none

def probOp? : String → Option Op
  | "le" => some .le | "lt" => some .lt | "gt" => some .gt | "ge" => some .ge | "eq" => some .eq
  | _ => none

/-- a distribution of the request: discrete, or the (rational) continuous Uniform -/
inductive ProbSpec where
  | d (x : Dist)
  | c (x : CDist)

def probSpec? : List String → Option ProbSpec
  | ["binomial", n, p] => do let a ← probInt? n; let b ← probNum? p; some (.d (.binomial a b))
  | ["poisson", mu, e] => do let a ← probInt? mu; let b ← probNum? e; some (.d (.poisson a b))
  | ["geometric", p] => do let b ← probNum? p; some (.d (.geometric b))
  | ["bernoulli", p] => do let b ← probNum? p; some (.d (.bernoulli b))
  | ["uniformint", lo, hi] => do let a ← probInt? lo; let b ← probInt? hi; some (.d (.uniformInt a b))
  | ["uniform", lo, hi] => do let a ← probNum? lo; let b ← probNum? hi; some (.c (.uniform a b))
  | ["exponential", lam] => do let a ← probNum? lam; some (.c (.exponential a))
  | ["gaussian", mu, sd] => do let a ← probNum? mu; let b ← probNum? sd; some (.c (.gaussian a b))
  | _ => none

def probDummyFns : Fns := { exp := fun _ => 0, erf := fun _ => 0, sqrt2 := 1 }

def ProbSpec.valid : ProbSpec → Bool
  | .d x => x.valid
  | .c x => x.valid

def ProbSpec.law : ProbSpec → Law
  | .d x => x.law
  | .c x => x.law probDummyFns

/-- tokens of a chain: `X`, numbers, operator words, alternating -/
def probChain? : List String → Option Written
  | [] => none
  | [t] => do let x ← term? t; some ⟨[x], []⟩
  | t :: o :: rest => do
      let x ← term? t
      let op ← probOp? o
      let w ← probChain? rest
      some ⟨x :: w.terms, op :: w.ops⟩
where
  term? (s : String) : Option Term :=
    if s = "X" then some .rv else (probNum? s).map Term.num

def probShow (q : Rat) : String := "ok " ++ (Num.canon q).render

/-- `prob <dist> <params…> | valid`            → `ok` | `err invalidparam`
    `prob <dist> <params…> | pmf <k>` / `cdf <k>` / `mean`
    `prob <dist> <params…> | ev <term> <op> <term> [<op> <term>]`   (through flips + labels + rows)
    numbers in canonical text; answers `ok <number>` | `err <class>` -/
def handleProb (payload : String) : String :=
  match payload.splitOn " | " with
  | [ds, qs] =>
    match probSpec? (ds.splitOn " ") with
    | none => "bad-op"
    | some spec =>
      if !spec.valid then "err invalidparam" else
      match qs.splitOn " ", spec with
      | ["valid"], _ => "ok"
      | ["mean"], .d x => probShow x.mean
      | ["mean"], .c x => probShow x.mean
      | ["pmf", k], .d x => (match probInt? k with | some z => probShow (x.pmf z) | none => "bad-op")
      | ["cdf", k], .d x => (match probInt? k with | some z => probShow (x.cdf z) | none => "bad-op")
      | ["cdf", k], .c (.uniform a b) =>
        (match probNum? k with | some z => probShow ((CDist.uniform a b).cdf probDummyFns z) | none => "bad-op")
      | "ev" :: toks, _ =>
        (match spec, probChain? toks with
         | _, none => "bad-op"
         | .c (.exponential _), _ | .c (.gaussian _ _), _ => "bad-op"
         | _, some w =>
           match probWritten Gen.ProbTable.flips Gen.ProbTable.labels Gen.ProbTable.rows spec.law w with
           | .ok v => probShow v
           | .error .unknownFn => "err unknownfn"
           | .error .noMatch => "err nomatch"
           | .error .typeErr => "err type")
      | _, _ => "bad-op"
  | _ => "bad-op"

end KaVerif.Driver
