import KaVerif.Model.Quantity
import KaVerif.Gen.Units
import KaVerif.Model.Sexp
import KaVerif.Driver.Compare
-- STREAM qexp handleQExp
namespace KaVerif.Driver
open KaVerif Qty

def qCodePoints? (s : String) : Option (List Nat) := (s.splitOn ".").mapM (·.toNat?)

def qUnitList? (xs : List Sexp) : Option (List (List Nat × Int)) :=
  xs.mapM (fun
    | .list [.atom n, e] => do let cp ← qCodePoints? n; let k ← e.int?; some (cp, k)
    | _ => none)

def qSig? : Sexp → Option Sig
  | .list [.list (.atom "u" :: us), .list (.atom "i" :: is)] => do
    let a ← qUnitList? us; let b ← qUnitList? is; some ⟨a, b⟩
  | _ => none

def qOp? : String → Option QOp
  | "+" => some .add | "-" => some .sub | "*" => some .mul | "/" => some .div
  | "<" => some .lt | "<=" => some .le | "==" => some .eq | "!=" => some .ne | _ => none

partial def qExp? : Sexp → Option QExp
  | .list [.atom "lit", .atom n] => (parseNum? n).map QExp.lit
  | .list [.atom "tag", e, s] => do let x ← qExp? e; let g ← qSig? s; some (.tag x g)
  | .list [.atom "conv", e, s] => do let x ← qExp? e; let g ← qSig? s; some (.conv x g)
  | .list [.atom "bin", .atom o, a, b] => do let op ← qOp? o; let x ← qExp? a; let y ← qExp? b; some (.bin op x y)
  | _ => none

def handleQExp (payload : String) : String :=
  match Sexp.parse payload >>= qExp? with
  | none => "bad-op"
  | some e =>
    match evalQ Gen.Units.table e with
    | .ok (.num n) => "ok N|" ++ n.render
    | .ok (.qty m d) => "ok Q|" ++ m.render ++ "|" ++ ",".intercalate (d.map toString)
    | .error err => "err " ++ err.code

end KaVerif.Driver
