import KaVerif.Model.Instant
-- STREAM inst handleInst
/-
  Line protocol of the instant model (C17).

    inst parse <cp,cp,…>              instant_from_iso on the text with these code points
    inst floor|ceil <I>
    inst year|month|day|hour|minute|second <I>
    inst addq|qadd|subq <I> <num> <dim>     instant ± quantity (qadd = the reversed registration)
    inst addi|iadd|subi <I> <int>           instant ± whole days
    inst sub <I> <J>                         instant − instant
    inst lt|le|gt|ge|eq|ne <I> <J>
    inst span <num>                          timedelta(seconds=float(num)) in microseconds

  <I> = Y-M-D-h-m-s-us (decimal integers), <num> = i:<n> | q:<n>/<d> | f:<bits>,
  <dim> = comma-separated exponents (n or n/d).
  Answers: `ok Y-M-D-h-m-s-us`, `ok S <num>` (a quantity in seconds), `ok <num>`, `ok us <k>`,
  `err <code>`, `unmodelled`, `bad-op`.
-/
namespace KaVerif.Driver
open KaVerif KaVerif.Instant

def instNum? (s : String) : Option Num :=
  match s.splitOn ":" with
  | ["i", n] => n.toInt?.map Num.int
  | ["q", r] => (match r.splitOn "/" with
      | [n, d] => do let a ← n.toInt?; let b ← d.toNat?; some (Num.frac (mkRat a b))
      | _ => none)
  | ["f", b] => b.toNat?.map (fun k => Num.flt (Float.ofBits (UInt64.ofNat k)))
  | _ => none

def instRat? (s : String) : Option Rat :=
  match s.splitOn "/" with
  | [n] => n.toInt?.map (fun k => (k : Rat))
  | [n, d] => do let a ← n.toInt?; let b ← d.toNat?; some (mkRat a b)
  | _ => none

def instDim? (s : String) : Option (List Rat) := (s.splitOn ",").mapM instRat?

def instArg? (s : String) : Option Inst :=
  match (s.splitOn "-").mapM (·.toNat?) with
  | some [y, m, d, h, mi, sc, us] =>
    (match mkDateTime y m d h mi sc us with
     | .ok i => some i
     | .error _ => none)
  | _ => none

def instShow (i : Inst) : String :=
  s!"{i.year}-{i.month}-{i.dayOfMonth}-{i.hour}-{i.minute}-{i.second}-{i.micro}"

def instRes : Except Err Inst → String
  | .ok i => "ok " ++ instShow i
  | .error e => "err " ++ e.code

def instCmp? : String → Option Cmp
  | "lt" => some .lt | "le" => some .le | "gt" => some .gt | "ge" => some .ge
  | "eq" => some .eq | "ne" => some .ne | _ => none

def instField? : String → Option (Inst → Nat)
  | "year" => some Inst.year | "month" => some Inst.month | "day" => some Inst.dayOfMonth
  | "hour" => some Inst.hour | "minute" => some Inst.minute | "second" => some Inst.second
  | _ => none

def handleInst (payload : String) : String :=
  match payload.splitOn " " with
  | ["parse", cps] =>
    (match (cps.splitOn ",").mapM (·.toNat?) with
     | some ns =>
       (match instantFromIso (ns.map Char.ofNat) with
        | .ok i => "ok " ++ instShow i
        | .invalid => "err runtime"
        | .notModelled => "unmodelled")
     | none => "bad-op")
  | ["span", n] =>
    (match instNum? n with
     | some mag =>
       (match spanUs mag with
        | .ok k => s!"ok us {k}"
        | .error e => "err " ++ e.code)
     | none => "bad-op")
  | [op, a] =>
    (match instArg? a with
     | none => "bad-arg"
     | some i =>
       if op == "floor" then instRes (floorInstant i)
       else if op == "ceil" then instRes (ceilInstant i)
       else match instField? op with
         | some f => "ok " ++ (Num.int (f i)).render
         | none => "bad-op")
  | [op, a, b] =>
    (match instArg? a with
     | none => "bad-arg"
     | some i =>
       if op == "addi" || op == "iadd" || op == "subi" then
         (match b.toInt? with
          | some n => instRes (if op == "subi" then instantMinusInt i n else instantPlusInt i n)
          | none => "bad-arg")
       else match instArg? b with
         | none => "bad-arg"
         | some j =>
           if op == "sub" then
             (match instantMinusInstant i j with
              | .ok m => "ok S " ++ m.render
              | .error e => "err " ++ e.code)
           else match instCmp? op with
             | some c => "ok " ++ (cmpReg c i j).render
             | none => "bad-op")
  | [op, a, n, d] =>
    (match instArg? a, instNum? n, instDim? d with
     | some i, some mag, some dim =>
       if op == "addq" || op == "qadd" then instRes (instantPlusQuantity i mag dim)
       else if op == "subq" then instRes (instantMinusQuantity i mag dim)
       else "bad-op"
     | _, _, _ => "bad-arg")
  | _ => "bad-op"

end KaVerif.Driver
