import KaVerif.Model.UserFilesGen
-- STREAM cfg handleCfg
-- STREAM curparse handleCurParse
-- STREAM curreg handleCurReg
-- STREAM startup handleStartup
-- STREAM savehist handleSaveHist
namespace KaVerif.Driver
open KaVerif KaVerif.UserFiles

def ufProps : List CfgProp := genProps
def ufConsts : Consts := genConsts

def ufHexVal (c : Char) : Nat :=
  if c.isDigit then c.toNat - 48 else if 'a' ≤ c ∧ c ≤ 'f' then c.toNat - 87 else 0

def ufHexBytes : List Char → List UInt8
  | a :: b :: r => UInt8.ofNat (ufHexVal a * 16 + ufHexVal b) :: ufHexBytes r
  | _ => []

def ufBytes (s : String) : List UInt8 := if s == "-" then [] else ufHexBytes s.toList

def ufDots (s : Str) : String := ".".intercalate (s.map toString)

def ufUndots (s : String) : Str :=
  if s == "" then [] else (s.splitOn ".").map (fun t => t.toNat?.getD 0)

def ufVal : CfgVal → String
  | .str s => "s" ++ ufDots s
  | .int n => "i" ++ toString n
  | .bool b => if b then "b1" else "b0"

def ufConfig (c : Config) : String :=
  ";".intercalate (c.map (fun (k, v) => ufDots k ++ "=" ++ ufVal v))

def ufWarn : Warning → String
  | .expectInt _ => "I"
  | .expectBool _ => "B"
  | .unknownVar _ => "U"
  | .couldNotOpen => "O"
  | .couldNotRead => "R"
  | .currencyFallback => "C"
  | .historyLoad _ => "L"
  | .historySave _ => "S"

def ufWarns (ws : List Warning) : String := ",".intercalate (ws.map ufWarn)

def ufExn (e : Exn) : String := (reprStr e).replace "KaVerif.UserFiles.Exn." ""

/-- `cfg <hex bytes of the file>` → `<config>|<warning kinds>` -/
def handleCfg (payload : String) : String :=
  match readConfigFile Gen.Caught.guard Py.cpython ufProps (.bytes (ufBytes payload)) [] with
  | .ok (c, ws) => ufConfig c ++ "|" ++ ufWarns ws
  | .error e => "crash " ++ ufExn e

def ufRate : Rate → String
  | .fin q => s!"fin:{q.num}/{q.den}"
  | .inf neg => if neg then "-inf" else "inf"
  | .nan => "nan"

def ufTable (t : Table) : String :=
  ";".intercalate (t.map (fun c => ufDots c.symbol ++ "," ++ ufDots c.name ++ "," ++ ufRate c.rate))

/-- `curparse <hex bytes of utf-8 text>` → `none` | `err <exn>` | `ok <rows>`   (parse_currency_data) -/
def handleCurParse (payload : String) : String :=
  match Py.cpython.decodeStrict (ufBytes payload) with
  | none => "bad-op"
  | some s =>
    match parseCurrencyData readRateCPython s with
    | .ok none => "none"
    | .ok (some t) => "ok " ++ ufTable t
    | .error e => "err " ++ ufExn e

def ufStrList (s : String) : List Str :=
  if s == "-" then [] else (s.splitOn ",").map (fun t => ufUndots (t.drop 1).toString)

/-- `curreg <names>|<symbols>|<rows>` (strings as `s<code points joined by .>`, lists joined by `,`,
    a row = `sym/name/NFKD(name)/positive?`) → the registered (symbol, name, row index) in order -/
def handleCurReg (payload : String) : String :=
  match payload.splitOn "|" with
  | [ns, ss, rs] =>
    let rows : List (List String) := if rs == "-" then [] else (rs.splitOn ",").map (·.splitOn "/")
    let str (x : String) : Str := ufUndots (x.drop 1).toString
    let table : Table := rows.zipIdx.map (fun (r, i) =>
      match r with
      | [a, b, _, p] => ⟨str a, str b, if p == "1" then .fin ((i + 1 : Nat) : Rat) else .fin 0⟩
      | _ => ⟨[], [], .nan⟩)
    -- unicodedata.normalize("NFKD", name): supplied by the harness for exactly the names of the request
    let nfkdTable : List (Str × Str) := rows.filterMap (fun r =>
      match r with
      | [_, b, d, _] => some (str b, str d)
      | _ => none)
    let nfkd (x : Str) : Str := (lookupStr x nfkdTable).getD x
    match registerAll nfkd ufConsts.specialNames ufConsts.specialSymbols ⟨ufStrList ns, ufStrList ss, []⟩ table with
    | .error e => "crash " ++ ufExn e
    | .ok r => "ok " ++ ",".intercalate (r.units.map (fun (sym, name, c) =>
        "s" ++ ufDots sym ++ "/s" ++ ufDots name ++ "/" ++
          (match c.rate with | .fin q => toString (q.num - 1) | _ => "?")))
  | _ => "bad-op"

def ufState (s : String) : Option FState :=
  if s == "M" then some .missing
  else if s == "D" then some .dir
  else if s == "O" then some .unopenable
  else if s == "R" then some .unreadable
  else if s.startsWith "B" then some (.bytes (ufBytes (s.drop 1).toString))
  else none

/-- `startup <one|int> <cfg state> <currency state> <history state>`  (state = M | D | O | R | B<hex> | B-) -/
def handleStartup (payload : String) : String :=
  match payload.splitOn " " with
  | [m, a, b, c] =>
    match ufState a, ufState b, ufState c with
    | some cfg, some cur, some hist =>
      let mode := if m == "int" then Mode.interpreter else Mode.oneShot
      match startup Gen.Caught.guard Py.cpython ufConsts ⟨[], [], []⟩ cfg cur hist mode with
      | .error e => "crash " ++ ufExn e
      | .ok r =>
        "ok " ++ ufConfig r.config ++ "|" ++ (if r.fileTableUsed then "file" else "default") ++ "|" ++
          (match r.base with | some b => ufDots b | none => "none") ++ "|" ++ toString r.history.length ++ "|" ++
          ufWarns r.warnings
    | _, _, _ => "bad-op"
  | _ => "bad-op"

def ufExnOf (s : String) : Option Exn :=
  [Exn.isADirectory, .notADirectory, .permission, .fileNotFound, .fileExists, .osOther, .unicodeDecode,
   .unicodeEncode, .valueError, .typeError, .assertion].find? (fun e => ufExn e == s)

/-- `savehist <enabled 0|1> <state> <parent exists 0|1> <what creating raises | none>` → outcome|warnings -/
def handleSaveHist (payload : String) : String :=
  match payload.splitOn " " with
  | [en, st, pe, cr] =>
    match ufState st with
    | some hist =>
      match saveHistory Gen.Caught.guard (en == "1") (SaveOS.ofState hist (pe == "1") (ufExnOf cr)) with
      | .error e => "crash " ++ ufExn e
      | .ok (r, ws) => (reprStr r).replace "KaVerif.UserFiles.Saved." "" ++ "|" ++ ufWarns ws
    | none => "bad-op"
  | _ => "bad-op"

end KaVerif.Driver
