import KaVerif.Driver.Arith
import KaVerif.Driver.Disp
/-
  The line-protocol dispatcher: one request `<stream> <payload>` ↦ one answer line.
-/
namespace KaVerif.Driver
open KaVerif

def step (line : String) : String :=
  let line := line.trimAscii.toString
  let (stream, payload) :=
    match line.splitOn " " with
    | s :: rest => (s, " ".intercalate rest)
    | [] => ("", "")
  match stream with
  | "aexp" => handleAExp payload
  | "disp" => handleDisp payload
  | "ping" => "pong"
  | _ => "bad-stream"


end KaVerif.Driver
