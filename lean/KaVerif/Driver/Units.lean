import KaVerif.Gen.Units
-- STREAM unit handleUnit
-- STREAM unitq handleUnitReadings
/-
  C13 driver.  `unit <hex utf-8 spelling>`  → `ok <unit index> <kind>:<n>/<d> <offkind>:<n>/<d> <0|1 prefixed>`
                                              | `none` | `err invalidprefix`          (lookup_unit)
               `unitq <hex utf-8 spelling>` → `exact` | `noreading` | `uniq <unit index> <n>/<d>` | `ambig <count>`
                                              (the decided hypothesis of C13_prefix_unique)
  Multiples are printed in lowest terms; kinds i / q / f as in the Python code.
-/
namespace KaVerif.Driver
open KaVerif KaVerif.Units

def unitsHexVal (c : Char) : Option Nat :=
  if '0' ≤ c ∧ c ≤ '9' then some (c.toNat - '0'.toNat)
  else if 'a' ≤ c ∧ c ≤ 'f' then some (c.toNat - 'a'.toNat + 10)
  else if 'A' ≤ c ∧ c ≤ 'F' then some (c.toNat - 'A'.toNat + 10)
  else none

def unitsHexBytes : List Char → Option (List UInt8)
  | [] => some []
  | a :: b :: rest => do
    let x ← unitsHexVal a
    let y ← unitsHexVal b
    let r ← unitsHexBytes rest
    some (UInt8.ofNat (x * 16 + y) :: r)
  | _ => none

/-- hex-encoded UTF-8 → code points (`-` = the empty string) -/
def unitsDecode (s : String) : Option (List Nat) :=
  if s == "-" then some [] else
  match unitsHexBytes s.toList with
  | none => none
  | some bs =>
    match String.fromUTF8? (ByteArray.mk bs.toArray) with
    | some str => some (str.toList.map Char.toNat)
    | none => none

def unitsQ (n : Int) (d : Nat) : String :=
  let q := mkRat n d
  s!"{q.num}/{q.den}"

def handleUnit (payload : String) : String :=
  match unitsDecode payload.trimAscii.toString with
  | none => "bad-op"
  | some w =>
    match lookupUnit Gen.Units.table w with
    | .ok none => "none"
    | .error .invalidPrefix => "err invalidprefix"
    | .ok (some r) =>
      s!"ok {r.idx} {r.mulKind.code}:{unitsQ r.mulNum r.mulDen} {r.unit.offKind.code}:{unitsQ r.unit.offNum r.unit.offDen} {if r.prefixed then 1 else 0}"

def handleUnitReadings (payload : String) : String :=
  match unitsDecode payload.trimAscii.toString with
  | none => "bad-op"
  | some w =>
    let t := Gen.Units.table
    if (assoc t.names w).isSome || (assoc t.symbols w).isSome then "exact" else
    match readings t.names t.symbols w t.prefixes with
    | [] => "noreading"
    | rs =>
      match uniqueReading t w with
      | some (p, i) => s!"uniq {i} {unitsQ p.mulNum p.mulDen}"
      | none => s!"ambig {rs.length}"

end KaVerif.Driver
