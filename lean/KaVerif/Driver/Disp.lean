import KaVerif.Gen.Registry
-- STREAM disp handleDisp
namespace KaVerif.Driver
open KaVerif Dispatch Gen.Registry

def natList? (s : String) : Option (List Nat) :=
  if s == "-" then some [] else (s.splitOn ",").mapM (·.toNat?)

def kwList? (s : String) : Option (List (Nat × Nat)) :=
  if s == "-" then some [] else
    (s.splitOn ",").mapM (fun p => match p.splitOn ":" with
      | [a, b] => do let x ← a.toNat?; let y ← b.toNat?; some (x, y)
      | _ => none)

/-- `disp <name> <classes> <kw>` → `ok <impl id>` | `err <kind>` -/
def handleDisp (payload : String) : String :=
  match payload.splitOn " " with
  | [name, a, k] =>
    match natList? a, kwList? k with
    | some args, some kw =>
      match resolve inst sub registry name args kw with
      | .ok h => s!"ok {h.impl}"
      | .error .unknownFunction => "err unknownfn"
      | .error .noMatch => "err nomatch"
      | .error .unknownKeyword => "err unknownkw"
      | .error .badKeyword => "err badkw"
    | _, _ => "bad-op"
  | _ => "bad-op"

end KaVerif.Driver
