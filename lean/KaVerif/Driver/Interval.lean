import KaVerif.Model.Interval
-- STREAM intv handleIntv
/-
  Line protocol of the interval model:  `intv <op> <num>…`, numbers in the canonical form
  `i:<n>` | `q:<n>/<d>` | `f:<bits of the double>` (harness/core.num_canon).  Every number is
  turned into its exact rational value; the model runs at core `Rat` (`Intv.ratOps`).
  An interval operand is given by the two bounds of the literal `[a, b]` and is built by
  `make` (so the `a > b ↦ [0, 0]` rule is part of every request).
  Answers: `ok [<num> <num>]`, `ok <num>`, `err <class>`; exact results are printed in the
  canonical form of the rational (`i:` when integral, `q:` otherwise).
  sqrt / log / non-integer powers are executed with Lean's `Float` (libm), which is
  what Python's `math` does; they are compared with a tolerance by the harness.
-/
namespace KaVerif.Driver
open KaVerif KaVerif.Interval

def intvNum? (s : String) : Option Rat :=
  match s.splitOn ":" with
  | ["i", n] => (fun (k : Int) => (k : Rat)) <$> n.toInt?
  | ["q", r] =>
    match r.splitOn "/" with
    | [n, d] => do
      let n ← n.toInt?
      let d ← d.toNat?
      if d = 0 then none else some ((n : Rat) / (d : Rat))
    | _ => none
  | ["f", b] => (fun (k : Nat) => Num.floatToRat (Float.ofBits (UInt64.ofNat k))) <$> b.toNat?
  | _ => none

def intvViaFloat1 (f : Float → Float) (x : Rat) : Rat := Num.floatToRat (f (Num.ratToFloat x))

/-- `math.sqrt`, `math.log(x, base) = log(x) / log(base)`, float `**`, `math.e`, in doubles. -/
def intvFns : Fns Rat where
  sqrt := intvViaFloat1 Float.sqrt
  log x b := Num.floatToRat (Float.log (Num.ratToFloat x) / Float.log (Num.ratToFloat b))
  rpow x y := Num.floatToRat (Float.pow (Num.ratToFloat x) (Num.ratToFloat y))
  e := Num.floatToRat (Float.exp 1.0)

def intvShowNum (q : Rat) : String := (Num.canon q).render
def intvShowI (I : Intv Rat) : String := s!"ok [{intvShowNum I.a} {intvShowNum I.b}]"
def intvShowEI : Except Err (Intv Rat) → String
  | .ok I => intvShowI I
  | .error e => "err " ++ e.code
def intvShowInt (k : Int) : String := s!"ok i:{k}"

def intvRel? : String → Option Intv.Rel
  | "lt" => some .lt | "le" => some .le | "gt" => some .gt | "ge" => some .ge | _ => none

def runIntv (op : String) (xs : List Rat) : String :=
  let O := Intv.ratOps
  match op, xs with
  | "make", [a, b] => intvShowI (O.make a b)
  | "add", [a, b, n] => intvShowI (O.addN (O.make a b) n)
  | "radd", [n, a, b] => intvShowI (O.nAdd n (O.make a b))
  | "sub", [a, b, n] => intvShowI (O.subN (O.make a b) n)
  | "mul", [a, b, n] => intvShowI (O.mulN (O.make a b) n)
  | "rmul", [n, a, b] => intvShowI (O.nMul n (O.make a b))
  | "div", [a, b, n] => intvShowEI (O.divIN (O.make a b) n)
  | "pow", [a, b, y] => intvShowEI (O.powI intvFns (O.make a b) (Expo.ofRat y))
  | "neg", [a, b] => intvShowI (O.flip (O.make a b))
  | "pos", [a, b] => intvShowI (O.make a b)
  | "sqrt", [a, b] => intvShowEI (O.sqrtI intvFns (O.make a b))
  | "ln", [a, b] => intvShowEI (O.lnI intvFns (O.make a b))
  | "log2", [a, b] => intvShowEI (O.logI intvFns (O.make a b) 2)
  | "log10", [a, b] => intvShowEI (O.logI intvFns (O.make a b) 10)
  | "log", [a, b, base] => intvShowEI (O.logI intvFns (O.make a b) base)
  | "abs", [a, b] => intvShowI (O.absI (O.make a b))
  | "in", [x, a, b] => intvShowInt (O.inI x (O.make a b))
  | "contains", [a, b, x] => intvShowInt (O.contains (O.make a b) x)
  | "eq", [a, b, c, d] => intvShowInt (O.eqI (O.make a b) (O.make c d))
  | "ne", [a, b, c, d] => intvShowInt (O.neqI (O.make a b) (O.make c d))
  | "min", [a, b, x] => intvShowI (O.minIN (O.make a b) x)
  | "rmin", [x, a, b] => intvShowI (O.nMin x (O.make a b))
  | "max", [a, b, x] => intvShowI (O.maxIN (O.make a b) x)
  | "rmax", [x, a, b] => intvShowI (O.nMax x (O.make a b))
  | "size", [a, b] => "ok " ++ intvShowNum (O.size (O.make a b))
  | "lower", [a, b] => "ok " ++ intvShowNum (O.make a b).a
  | "upper", [a, b] => "ok " ++ intvShowNum (O.make a b).b
  | "pm", [x, y] => intvShowI (O.plusMinus x y)
  | "tol", [x, y] => intvShowI (O.plusMinus x y)
  | _, _ => "bad-op"

/-- `intv <op> <num>…`; comparisons are `intv cmp_in <rel> a b x`, `cmp_ni <rel> x a b`,
    `cmp_ii <rel> a b c d` with `<rel>` one of lt le gt ge. -/
def handleIntv (payload : String) : String :=
  match payload.splitOn " " |>.filter (· ≠ "") with
  | [] => "bad-op"
  | op :: rest =>
    if op = "cmp_in" ∨ op = "cmp_ni" ∨ op = "cmp_ii" then
      match rest with
      | r :: nums =>
        match intvRel? r, nums.mapM intvNum? with
        | some r, some xs =>
          let O := Intv.ratOps
          match op, xs with
          | "cmp_in", [a, b, x] => intvShowInt (O.cmpIN r (O.make a b) x)
          | "cmp_ni", [x, a, b] => intvShowInt (O.cmpNI r x (O.make a b))
          | "cmp_ii", [a, b, c, d] => intvShowInt (O.cmpII r (O.make a b) (O.make c d))
          | _, _ => "bad-op"
        | _, _ => "bad-op"
      | [] => "bad-op"
    else
      match rest.mapM intvNum? with
      | some xs => runIntv op xs
      | none => "bad-op"

end KaVerif.Driver
