import KaVerif.Model.Lexer
-- STREAM lex handleLex
-- STREAM lexcls handleLexCls
namespace KaVerif.Driver
open KaVerif KaVerif.Lexer

def lexHexVal? (c : Char) : Option Nat :=
  if '0' ≤ c && c ≤ '9' then some (c.toNat - 48)
  else if 'a' ≤ c && c ≤ 'f' then some (c.toNat - 87)
  else none

def lexHexBytes? : List Char → Option (List UInt8)
  | [] => some []
  | [_] => none
  | a :: b :: r => do
    let x ← lexHexVal? a; let y ← lexHexVal? b; let rest ← lexHexBytes? r
    some (UInt8.ofNat (x * 16 + y) :: rest)

/-- hex-encoded UTF-8 → the string as a list of code points -/
def lexHexString? (h : String) : Option (List Char) := do
  let bs ← lexHexBytes? h.toList
  let s ← String.fromUTF8? (ByteArray.mk bs.toArray)
  some s.toList

def lexCodes (cs : List Char) : String := ".".intercalate (cs.map (fun c => toString c.toNat))

def lexTagDump : Tag → String
  | .num => "n" | .var => "v" | .str => "s" | .inst => "i"
  | .const sp => "c" ++ lexCodes sp.toList

def lexValDump : TokVal → String
  | .none => ""
  | .num n => n.render
  | .name s => lexCodes s.toList
  | .text s => lexCodes s.toList

def lexTokDump (t : Token) : String := s!"{lexTagDump t.tag}:{t.b}:{t.e}:{lexValDump t.val}"

def lexErrDump : LexErr → String
  | .unknownToken i => s!"err UnknownTokenError {i}"
  | .badNumber i => s!"err BadNumberError {i}"
  | .unclosedString i => s!"err UnclosedStringError {i}"
  | .unclosedInstant i => s!"err UnclosedInstantError {i}"
  | .outOfFuel => "err diverges"

/-- `lex <hex utf-8>` → `ok tag:b:e:value|…` | `err <class> <index>`.
    A string with a character outside the model's alphabet is refused (`out-of-alphabet`). -/
def handleLex (payload : String) : String :=
  match lexHexString? payload.trimAscii.toString with
  | none => "bad-op"
  | some s =>
    if !s.all inAlphabet then "out-of-alphabet" else
    match tokenise s with
    | .ok ts => "ok " ++ "|".intercalate (ts.map lexTokDump)
    | .error e => lexErrDump e

/-- `lexcls <code point>` → the model's `isspace isnumeric isalpha inAlphabet` bits -/
def handleLexCls (payload : String) : String :=
  match payload.trimAscii.toString.toNat? with
  | none => "bad-op"
  | some n =>
    let c := Char.ofNat n
    let b (x : Bool) := if x then "1" else "0"
    b (isSpace c) ++ b (isNumeric c) ++ b (isAlpha c) ++ b (inAlphabet c)

end KaVerif.Driver
