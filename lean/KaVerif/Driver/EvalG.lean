import KaVerif.Model.EvalG
import KaVerif.Driver.Eval
-- STREAM runG handleEvalRunG
-- STREAM runsessG handleEvalSessionG
-- STREAM bodiesG handleBodiesG
namespace KaVerif.Driver
open KaVerif KaVerif.Eval KaVerif.EvalG

/-- `runG <hex utf-8 text>`: one input against a fresh session, evaluated with the function bodies TRANSLATED from the
    Python source (`Gen.Bodies.bodiesTable`) in place of the hand-written ones -/
def handleEvalRunG (payload : String) : String :=
  match evalHexString? payload.trimAscii.toString with
  | none => "bad-op"
  | some s => evalShow (runTextW dispatchTopG s)

/-- `runsessG <hex>;<hex>;…`: successive inputs against one session, translated bodies -/
def handleEvalSessionG (payload : String) : String :=
  match (payload.trimAscii.toString.splitOn ";").mapM evalHexString? with
  | none => "bad-op"
  | some ss => ";".intercalate ((runSessionW dispatchTopG initialEnv false ss).map evalShow)

/-- `bodiesG`: how many descriptors the translator translated / refused (the harness reports it) -/
def handleBodiesG (_ : String) : String :=
  s!"{Gen.Bodies.bodiesTable.length} {Gen.Bodies.untranslated.length}"

end KaVerif.Driver
