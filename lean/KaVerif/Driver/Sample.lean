import KaVerif.Model.Num
import KaVerif.Model.Sample
-- STREAM sample handleSample
-- STREAM sprog handleSampleProg
-- STREAM scdf handleSampleCdf
/-
  C18 driver.  Draws and parameters travel as exact rationals `n/d` (or plain integers).
  The abstract functions of the model (`ln`, `erfinv`, `sqrt 2`, `exp(-mu)`) are executed with
  Lean `Float` (same libm as CPython), `erfinv` being a line-by-line port of utils.erfinv/ndtri.
-/
namespace KaVerif.Driver
open KaVerif KaVerif.Sample

def smpRat? (s : String) : Option Rat :=
  match s.splitOn "/" with
  | [n] => n.toInt?.map (fun k => (k : Rat))
  | [n, d] => do let a ← n.toInt?; let b ← d.toNat?; if b = 0 then none else some (mkRat a b)
  | _ => none

def smpShow (q : Rat) : String := s!"{q.num}/{q.den}"

def smpF (q : Rat) : Float := Num.ratToFloat q
def smpQ (x : Float) : Rat := Num.floatToRat x

/-- utils.polevl: `ans += coef * x**power` -/
def smpPolevl (x : Float) (coefs : List Float) : Float :=
  let n := coefs.length
  (coefs.zipIdx).foldl (fun ans ci => ans + ci.1 * Float.pow x (Float.ofNat (n - 1 - ci.2))) 0.0

def smpP1evl (x : Float) (coefs : List Float) : Float := smpPolevl x (1.0 :: coefs)

/-- utils.ndtri -/
def smpNdtri (y0 : Float) : Float :=
  let P0 : List Float := [-5.99633501014107895267E1, 9.80010754185999661536E1, -5.66762857469070293439E1,
    1.39312609387279679503E1, -1.23916583867381258016E0]
  let Q0 : List Float := [1.95448858338141759834E0, 4.67627912898881538453E0, 8.63602421390890590575E1,
    -2.25462687854119370527E2, 2.00260212380060660359E2, -8.20372256168333339912E1,
    1.59056225126211695515E1, -1.18331621121330003142E0]
  let P1 : List Float := [4.05544892305962419923E0, 3.15251094599893866154E1, 5.71628192246421288162E1,
    4.40805073893200834700E1, 1.46849561928858024014E1, 2.18663306850790267539E0,
    -1.40256079171354495875E-1, -3.50424626827848203418E-2, -8.57456785154685413611E-4]
  let Q1 : List Float := [1.57799883256466749731E1, 4.53907635128879210584E1, 4.13172038254672030440E1,
    1.50425385692907503408E1, 2.50464946208309415979E0, -1.42182922854787788574E-1,
    -3.80806407691578277194E-2, -9.33259480895457427372E-4]
  let P2 : List Float := [3.23774891776946035970E0, 6.91522889068984211695E0, 3.93881025292474443415E0,
    1.33303460815807542389E0, 2.01485389549179081538E-1, 1.23716634817820021358E-2,
    3.01581553508235416007E-4, 2.65806974686737550832E-6, 6.23974539184983293730E-9]
  let Q2 : List Float := [6.02427039364742014255E0, 3.67983563856160859403E0, 1.37702099489081330271E0,
    2.16236993594496635890E-1, 1.34204006088543189037E-2, 3.28014464682127739104E-4,
    2.89247864745380683936E-6, 6.79019408009981274425E-9]
  let s2pi : Float := 2.50662827463100050242
  let em2 : Float := 0.13533528323661269189
  let (y, code) := if y0 > (1.0 - em2) then (1.0 - y0, false) else (y0, true)
  if y > em2 then
    let y := y - 0.5
    let y2 := y * y
    let x := y + y * (y2 * smpPolevl y2 P0 / smpP1evl y2 Q0)
    x * s2pi
  else
    let x := Float.sqrt (-2.0 * Float.log y)
    let x0 := x - Float.log x / x
    let z := 1.0 / x
    let x1 := if x < 8.0 then z * smpPolevl z P1 / smpP1evl z Q1 else z * smpPolevl z P2 / smpP1evl z Q2
    let x := x0 - x1
    if code then -x else x

/-- utils.erfinv -/
def smpErfinv (z : Float) : Float :=
  if z == 0.0 then 0.0
  else if z == 1.0 then 1.0 / 0.0
  else if z == -1.0 then -(1.0 / 0.0)
  else smpNdtri ((z + 1.0) / 2.0) / Float.sqrt 2.0

def smpFns : Fns where
  ln := fun x => smpQ (Float.log (smpF x))
  erfinv := fun z => smpQ (smpErfinv (smpF z))
  sqrt2 := smpQ (Float.sqrt 2.0)
  expNeg := fun mu => smpQ (Float.exp (-(Float.ofInt mu)))
  fuel := 5000

/-- `<name>:<p1>,<p2>` -/
def smpDist? (name params : String) : Option Dist :=
  let ps := params.splitOn ","
  match name, ps with
  | "Binomial", [n, p] => do let a ← n.toInt?; let b ← smpRat? p; some (.binomial a b)
  | "Poisson", [m] => do let a ← m.toInt?; some (.poisson a)
  | "Geometric", [p] => do let b ← smpRat? p; some (.geometric b)
  | "Bernoulli", [p] => do let b ← smpRat? p; some (.bernoulli b)
  | "UniformInt", [l, h] => do let a ← l.toInt?; let b ← h.toInt?; some (.uniformInt a b)
  | "Exponential", [l] => do let b ← smpRat? l; some (.exponential b)
  | "Uniform", [l, h] => do let a ← smpRat? l; let b ← smpRat? h; some (.uniform a b)
  | "Gaussian", [m, s] => do let a ← smpRat? m; let b ← smpRat? s; some (.gaussian a b)
  | _, _ => none

def smpDraws? (ws : List String) : Option (List Rat) := (ws.filter (· ≠ "")).mapM smpRat?

def smpStream (l : List Rat) : Draws := fun i => l.getD i 0

def smpOpt : Option Rat → String
  | some q => smpShow q
  | none => "none"

/-- `sample <Dist> <params> <draw> <draw> …` → `<value> <draws consumed>` -/
def handleSample (payload : String) : String :=
  match payload.splitOn " " with
  | name :: params :: ds =>
    match smpDist? name params, smpDraws? ds with
    | some d, some l =>
      if !d.valid then "err invalidparam" else
      let (x, g) := d.sample smpFns { us := smpStream l, i := 0 }
      if g.i > l.length then "short" else s!"{smpOpt x} {g.i}"
    | _, _ => "bad-op"
  | _ => "bad-op"

def smpOp? (s : String) : Option Op :=
  match s.splitOn ":" with
  | ["rand"] => some .rand
  | ["seed", k] => k.toInt?.map Op.seed
  | ["s", name, params] => (smpDist? name params).map Op.sample
  | ["m", name, params, n] => do let d ← smpDist? name params; let k ← n.toInt?; some (.sampleN d k)
  | _ => none

def smpRes : Res → String
  | .none => "none"
  | .num x => "num:" ++ smpOpt x
  | .arr xs => "arr:" ++ ",".intercalate (xs.map smpOpt)

/-- every stream segment `label:d d d` ; label `init` or a seed value -/
def smpSeg? (s : String) : Option (String × List Rat) :=
  match s.splitOn ":" with
  | [lab, ds] => (smpDraws? (ds.splitOn " ")).map (fun l => (lab, l))
  | _ => none

/-- run the ops one at a time so that the generator position after each is reported -/
def smpRunAll (seeded : Int → Draws) : List Op → Gen → List String → List String
  | [], _, acc => acc.reverse
  | op :: ops, g, acc =>
    let (r, g') := op.run seeded smpFns g
    smpRunAll seeded ops g' (s!"{smpRes r}@{g'.i}" :: acc)

/-- `sprog <op>;<op>;… | init:<draws> | <k>:<draws> | …` → `<res>@<position>;…`.
    `init` is the stream in force before the first `seed`; `<k>` the stream `seed(k)` installs. -/
def handleSampleProg (payload : String) : String :=
  match payload.splitOn " | " with
  | opsS :: segsS =>
    match (opsS.splitOn ";").mapM smpOp?, segsS.mapM smpSeg? with
    | some ops, some segs =>
      let look (lab : String) : Draws := smpStream ((segs.lookup lab).getD [])
      let seeded : Int → Draws := fun k => look (toString k)
      ";".intercalate (smpRunAll seeded ops { us := look "init", i := 0 } [])
    | _, _ => "bad-op"
  | _ => "bad-op"

/-- `scdf <Dist> <params> <t>` → the model's restated cdf at `t` (Bernoulli, UniformInt, Uniform, Poisson) -/
def handleSampleCdf (payload : String) : String :=
  match payload.splitOn " " with
  | [name, params, ts] =>
    match smpDist? name params, smpRat? ts with
    | some (.bernoulli p), some t => smpShow (cdfBernoulli p t.floor)
    | some (.uniformInt lo hi), some t => smpShow (cdfUniformInt lo hi t.floor)
    | some (.uniform lo hi), some t => smpShow (cdfUniform lo hi t)
    | some (.poisson mu), some t =>
      if t < 0 then "0/1" else smpShow (cdfPoisson (mu : Rat) (smpFns.expNeg mu) t.floor.toNat)
    | _, _ => "bad-op"
  | _ => "bad-op"

end KaVerif.Driver
