import KaVerif.Model.Sexp
import KaVerif.Model.Comb
-- STREAM combdiff handleCombDiff
-- STREAM combmul handleCombMul
-- STREAM combresolve handleCombResolve
-- STREAM cexp handleCombCExp
namespace KaVerif.Driver
open KaVerif KaVerif.Comb

def combShowRange (r : IntRange) : String := s!"{r.lo},{r.hi}"
def combShowRanges (l : List IntRange) : String := " ".intercalate (l.map combShowRange)
def combShow (c : Combinatoric) : String := combShowRanges c.ns ++ " ; " ++ combShowRanges c.ds
def combB01 (b : Bool) : String := if b then "1" else "0"

def combRange? (s : String) : Option IntRange :=
  match s.splitOn "," with
  | [a, b] => do let lo ← a.toInt?; let hi ← b.toInt?; some ⟨lo, hi⟩
  | _ => none

def combRanges? (s : String) : Option (List IntRange) :=
  ((s.splitOn " ").filter (fun t => t != "")).mapM combRange?

/-- `;`-separated groups of ranges -/
def combGroups? (s : String) : Option (List (List IntRange)) :=
  (s.splitOn ";").mapM combRanges?

def combShowNumRes : Except Err Num → String
  | .ok v => "ok " ++ v.render
  | .error e => "err " ++ e.code

/-- `combdiff a.lo a.hi b.lo b.hi` → `<self_remain>|<other_remain>|<intersects>|<a empty>|<b empty>` -/
def handleCombDiff (payload : String) : String :=
  match ((payload.splitOn " ").filter (fun t => t != "")).mapM String.toInt? with
  | some [al, ah, bl, bh] =>
    let a : IntRange := ⟨al, ah⟩; let b : IntRange := ⟨bl, bh⟩
    let d := a.difference b
    combShowRanges d.1 ++ "|" ++ combShowRanges d.2 ++ "|" ++ combB01 (a.intersects b) ++ "|" ++ combB01 a.isEmpty ++ "|" ++ combB01 b.isEmpty
  | _ => "bad-op"

/-- `combmul <self.ns> ; <self.ds> ; <new_ns> ; <new_ds>` → `ok <ns> ; <ds>` | `err <code>` -/
def handleCombMul (payload : String) : String :=
  match combGroups? payload with
  | some [ns, ds, nns, nds] =>
    (match (Combinatoric.mk ns ds).mul nns nds with
     | .ok c => "ok " ++ combShow c
     | .error e => "err " ++ e.code)
  | _ => "bad-op"

/-- `combresolve <ns> ; <ds>` → `ok <num>` | `err <code>` -/
def handleCombResolve (payload : String) : String :=
  match combGroups? payload with
  | some [ns, ds] => combShowNumRes (Combinatoric.mk ns ds).resolve
  | _ => "bad-op"

partial def combCExp? : Sexp → Option CExp
  | .list [.atom "int", z] => do let k ← z.int?; some (.int k)
  | .list [.atom "sci", m, e] => do let k ← m.nat?; let x ← e.int?; some (.sci k x)
  | .list [.atom "fact", n] => do let k ← n.int?; some (.fact k)
  | .list [.atom "choose", n, k] => do let a ← n.int?; let b ← k.int?; some (.choose a b)
  | .list [.atom "mul", a, b] => do let x ← combCExp? a; let y ← combCExp? b; some (.mul x y)
  | .list [.atom "div", a, b] => do let x ← combCExp? a; let y ← combCExp? b; some (.div x y)
  | _ => none

def combShowCVal : Except Err CVal → String
  | .ok (.num v) => "ok N " ++ v.render
  | .ok (.comb c) => "ok C " ++ combShow c
  | .error e => "err " ++ e.code

def combShowEager : Option Rat → String
  | some q => "val " ++ (Num.canon q).render
  | none => "divzero"

/-- `cexp <sexpr>` → `<eval_parse_tree result> | <after reduce_result> | <eager meaning>` -/
def handleCombCExp (payload : String) : String :=
  match Sexp.parse payload >>= combCExp? with
  | some e => combShowCVal (evalC e) ++ " | " ++ combShowNumRes (evalTop e) ++ " | " ++ combShowEager (eager e)
  | none => "bad-op"

end KaVerif.Driver
