import KaVerif.Model.Sexp
import KaVerif.Model.Render
-- STREAM parse handleParse
-- STREAM render handleRender
/-
  Line protocol for the parser model (C02).

  `parse (<tok> …)`            tok = ("<tag>" b e [value]); value: canonical number `i:…|q:…/…|f:<bits>`
                               for 'number', a quoted string for 'identifier' / 'string' / 'instant'
     → `ok <dump>` | `err <token_index>` | `exc overflow` | `exc fuel`
  `render min|full <ast>`      → the token list of renderMin / renderFull, as `("<tag>" [value]) …`

  dump = (statements d…) | (assignment "x" d) | (leaf N <num>) | (leaf S "s") | (leaf I "raw")
       | (variable "x") | (funcall "label" d…) | (keyword-arg "k" d) | (quantity <sig> d)
       | (convert-unit <sig> d) | (array d…) | (array-with-condition <#gens> d (gen "x" d)… d…)
  sig  = ((("m" 2) …) (("s" 1) …))
-/
namespace KaVerif.Driver
open KaVerif KaVerif.Parser

def parserUnq (s : String) : Option String :=
  match s.toList with
  | '"' :: r => some (String.ofList r)
  | _ => none

def parserQuote (s : String) : String :=
  let esc := s.toList.flatMap (fun c => if c == '"' || c == '\\' then ['\\', c] else [c])
  "\"" ++ String.ofList esc ++ "\""

def parserNum? (s : String) : Option Num :=
  match s.splitOn ":" with
  | ["i", r] => r.toInt?.map Num.int
  | ["q", r] =>
    match r.splitOn "/" with
    | [a, b] => do
      let x ← a.toInt?; let y ← b.toNat?
      if y = 0 then none else some (Num.frac ((x : Rat) / (y : Rat)))
    | _ => none
  | ["f", r] => r.toNat?.map (fun b => Num.flt (Float.ofBits (UInt64.ofNat b)))
  | _ => none

def parserTok? : Sexp → Option Token
  | .list (.atom tag :: b :: e :: rest) => do
    let tg ← parserUnq tag
    let bi ← b.nat?; let ei ← e.nat?
    match tg, rest with
    | "number", [.atom v] => do let x ← parserNum? v; some { tag := .num, b := bi, e := ei, val := .num x }
    | "identifier", [.atom v] => do let x ← parserUnq v; some { tag := .var, b := bi, e := ei, val := .name x }
    | "string", [.atom v] => do let x ← parserUnq v; some { tag := .str, b := bi, e := ei, val := .text x }
    | "instant", [.atom v] => do let x ← parserUnq v; some { tag := .inst, b := bi, e := ei, val := .text x }
    | _, [] => some { tag := .const tg, b := bi, e := ei }
    | _, _ => none
  | _ => none

def parserSig (s : UnitSig) : String :=
  let us (l : List (String × Int)) := "(" ++ " ".intercalate (l.map fun (n, e) => s!"({parserQuote n} {e})") ++ ")"
  "(" ++ us s.units ++ " " ++ us s.inv ++ ")"

def parserCmpLabel (os : List PCmp) : String := "_".intercalate (os.map PCmp.spelling)

def parserNode (head : String) (kids : List String) : String :=
  "(" ++ " ".intercalate (head :: kids) ++ ")"

mutual
partial def parserDump : Ast → String
  | .num v =>
    match Num.simplify v with
    | .ok w => s!"(leaf N {w.render})"
    | .error _ => "(leaf N overflow)"
  | .str s => s!"(leaf S {parserQuote s})"
  | .inst s => s!"(leaf I {parserQuote s})"
  | .var x => s!"(variable {parserQuote x})"
  | .bin o l r => parserNode s!"funcall {parserQuote o.spelling}" [parserDump l, parserDump r]
  | .sign neg x => parserNode s!"funcall {parserQuote (if neg then "-" else "+")}" [parserDump x]
  | .fact x => parserNode "funcall \"!\"" [parserDump x]
  | .range a b => parserNode "funcall \"range\"" [parserDump a, parserDump b]
  | .interval a b => parserNode "funcall \"interval\"" [parserDump a, parserDump b]
  | .cmp1 o a b => parserNode s!"funcall {parserQuote (parserCmpLabel [o])}" [parserDump a, parserDump b]
  | .cmp2 o1 o2 a b c =>
    parserNode s!"funcall {parserQuote (parserCmpLabel [o1, o2])}" [parserDump a, parserDump b, parserDump c]
  | .call f args kws =>
    parserNode s!"funcall {parserQuote f}"
      (args.map parserDump ++ kws.map fun (k, v) => parserNode s!"keyword-arg {parserQuote k}" [parserDump v])
  | .quantity x s => parserNode s!"quantity {parserSig s}" [parserDump x]
  | .convert e s => parserNode s!"convert-unit {parserSig s}" [parserDump e]
  | .array xs => parserNode "array" (xs.map parserDump)
  | .compr body gens conds =>
    parserNode s!"array-with-condition {gens.length}"
      (parserDump body :: (gens.map fun (n, e) => parserNode s!"gen {parserQuote n}" [parserDump e])
        ++ conds.map parserDump)
  | .assign x e => parserNode s!"assignment {parserQuote x}" [parserDump e]
  | .stmts ss => parserNode "statements" (ss.map parserDump)
end

/-- `parse <token list>` -/
def handleParse (payload : String) : String :=
  match Sexp.parse payload with
  | some (.list ts) =>
    match ts.mapM parserTok? with
    | some toks =>
      match parse toks with
      | .ok t => "ok " ++ parserDump t
      | .error (.parsing i) => s!"err {i}"
      | .error .overflow => "exc overflow"
      | .error .fuel => "exc fuel"
    | none => "bad-op"
  | _ => "bad-op"

def parserBin? : String → Option PBin
  | "+" => some .add | "-" => some .sub | "±" => some .pm | "*" => some .mul | "/" => some .div
  | "%" => some .mod | "^" => some .pow | _ => none

def parserCmp? : String → Option PCmp
  | "==" => some .eq | "!=" => some .neq | "<" => some .lt | ">" => some .gt | "<=" => some .leq
  | ">=" => some .geq | "=" => some .asg | "in" => some .elem | _ => none

def parserUnits? (x : Sexp) : Option (List (String × Int)) :=
  match x with
  | .list us => us.mapM fun
    | .list [.atom n, e] => do let nm ← parserUnq n; let k ← e.int?; some (nm, k)
    | _ => none
  | _ => none

def parserSig? : Sexp → Option UnitSig
  | .list [a, b] => do let u ← parserUnits? a; let i ← parserUnits? b; some ⟨u, i⟩
  | _ => none

partial def parserAst? : Sexp → Option Ast
  | .list [.atom "num", .atom v] => (parserNum? v).map .num
  | .list [.atom "str", .atom v] => (parserUnq v).map .str
  | .list [.atom "inst", .atom v] => (parserUnq v).map .inst
  | .list [.atom "var", .atom v] => (parserUnq v).map .var
  | .list [.atom "bin", .atom o, l, r] => do
    let op ← parserUnq o >>= parserBin?; let a ← parserAst? l; let b ← parserAst? r; some (.bin op a b)
  | .list [.atom "sign", .atom o, x] => do
    let s ← parserUnq o; let a ← parserAst? x
    if s == "-" then some (.sign true a) else if s == "+" then some (.sign false a) else none
  | .list [.atom "fact", x] => (parserAst? x).map .fact
  | .list [.atom "range", a, b] => do let x ← parserAst? a; let y ← parserAst? b; some (.range x y)
  | .list [.atom "interval", a, b] => do let x ← parserAst? a; let y ← parserAst? b; some (.interval x y)
  | .list [.atom "cmp", .list [.atom o], a, b] => do
    let c ← parserUnq o >>= parserCmp?; let x ← parserAst? a; let y ← parserAst? b; some (.cmp1 c x y)
  | .list [.atom "cmp", .list [.atom o1, .atom o2], a, b, c] => do
    let c1 ← parserUnq o1 >>= parserCmp?; let c2 ← parserUnq o2 >>= parserCmp?
    let x ← parserAst? a; let y ← parserAst? b; let z ← parserAst? c; some (.cmp2 c1 c2 x y z)
  | .list [.atom "call", .atom f, .list args, .list kws] => do
    let nm ← parserUnq f
    let as ← args.mapM parserAst?
    let ks ← kws.mapM fun
      | .list [.atom k, v] => do let kn ← parserUnq k; let x ← parserAst? v; some (kn, x)
      | _ => none
    some (.call nm as ks)
  | .list [.atom "qty", x, s] => do let a ← parserAst? x; let sg ← parserSig? s; some (.quantity a sg)
  | .list [.atom "conv", x, s] => do let a ← parserAst? x; let sg ← parserSig? s; some (.convert a sg)
  | .list (.atom "arr" :: xs) => do let as ← xs.mapM parserAst?; some (.array as)
  | .list [.atom "compr", body, .list gens, .list conds] => do
    let b ← parserAst? body
    let gs ← gens.mapM fun
      | .list [.atom k, v] => do let kn ← parserUnq k; let x ← parserAst? v; some (kn, x)
      | _ => none
    let cs ← conds.mapM parserAst?
    some (.compr b gs cs)
  | .list [.atom "assign", .atom n, e] => do let nm ← parserUnq n; let x ← parserAst? e; some (.assign nm x)
  | .list (.atom "stmts" :: xs) => do let as ← xs.mapM parserAst?; some (.stmts as)
  | _ => none

def parserShowTok (t : Token) : String :=
  match t.val with
  | .none => s!"({parserQuote t.tag.render})"
  | .num v => s!"({parserQuote t.tag.render} {v.render})"
  | .name s => s!"({parserQuote t.tag.render} {parserQuote s})"
  | .text s => s!"({parserQuote t.tag.render} {parserQuote s})"

/-- `render min|full <ast>` -/
def handleRender (payload : String) : String :=
  match payload.splitOn " " with
  | mode :: rest =>
    match Sexp.parse (" ".intercalate rest) >>= parserAst? with
    | some t =>
      let toks := if mode == "full" then renderFull t else renderMin t
      let wf := if decide t.WF then "wf" else "notwf"
      wf ++ " " ++ " ".intercalate (toks.map parserShowTok)
    | none => "bad-op"
  | _ => "bad-op"

end KaVerif.Driver
