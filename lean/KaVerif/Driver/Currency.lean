import KaVerif.Model.Currency
-- STREAM curconv handleCurConv
-- STREAM curexport handleCurExport
namespace KaVerif.Driver
open KaVerif KaVerif.UserFiles KaVerif.Currency

def curRat? (s : String) : Option Rat :=
  match s.splitOn "/" with
  | [n, d] => do
    let n ← n.toInt?
    let d ← d.toNat?
    if d = 0 then none else some (mkRat n d)
  | [n] => (n.toInt?).map (fun n => (n : Rat))
  | _ => none

def curShowRat (q : Rat) : String := s!"{q.num}/{q.den}"

def curUndots (s : String) : Str :=
  if s == "" then [] else (s.splitOn ".").map (fun t => t.toNat?.getD 0)

/-- `curconv <rate base> <rate A> <rate B> <x>` (exact rationals n/d) → value of `x A to B` -/
def handleCurConv (payload : String) : String :=
  match payload.splitOn " " with
  | [b, a, c, x] =>
    match curRat? b, curRat? a, curRat? c, curRat? x with
    | some rb, some ra, some rc, some x =>
      curShowRat (convert ⟨[], [], .fin rb⟩ ⟨[], [], .fin ra⟩ ⟨[], [], .fin rc⟩ x)
    | _, _, _, _ => "bad-op"
  | _ => "bad-op"

/-- `curexport <rows>`: a row = `s<symbol>/s<name>/s<str(rate)>` (code points joined by `.`), rows joined by `,`
    → the text `scrape_and_store_rates_to` writes, as code points -/
def handleCurExport (payload : String) : String :=
  let rows : List (List String) := if payload == "-" then [] else (payload.splitOn ",").map (·.splitOn "/")
  let strs : List Str := rows.map (fun r => match r with | [_, _, c] => curUndots (c.drop 1).toString | _ => [])
  let table : Table := rows.zipIdx.map (fun (r, i) =>
    match r with
    | [a, b, _] => ⟨curUndots (a.drop 1).toString, curUndots (b.drop 1).toString, .fin ((i : Nat) : Rat)⟩
    | _ => ⟨[], [], .nan⟩)
  let showRate : Rate → Str := fun r => match r with
    | .fin q => strs.getD q.num.toNat []
    | _ => []
  ".".intercalate ((exportTable showRate table).map toString)

end KaVerif.Driver
