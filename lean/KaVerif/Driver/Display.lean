import KaVerif.Model.Sexp
import KaVerif.Model.Display
-- STREAM fmt handleFmt
-- STREAM display handleDisplay
-- STREAM stringify handleStringify
namespace KaVerif.Driver
open KaVerif KaVerif.Display

/-- answer text: printable ASCII as is, `\` doubled, everything else as `\u{hex}` -/
def dispEscape (t : Text) : String :=
  String.ofList (t.flatMap fun c =>
    if c = '\\' then ['\\', '\\']
    else if c.toNat ≥ 32 ∧ c.toNat ≤ 126 then [c]
    else "\\u{".toList ++ (Nat.toDigits 16 c.toNat) ++ ['}'])

def dispShow : Except Err Text → String
  | .ok t => "ok " ++ dispEscape t
  | .error e => "err " ++ e.code

def dispCodepoints (xs : List Sexp) : Option Text :=
  xs.mapM fun s => do let n ← s.nat?; some (Char.ofNat n)

def dispNum? : Sexp → Option Num
  | .list [.atom "i", n] => do let k ← n.int?; some (.int k)
  | .list [.atom "q", n, d] => do
      let a ← n.int?; let b ← d.nat?
      if b = 0 then none else some (.frac (mkRat a b))
  | .list [.atom "f", b] => do let k ← b.nat?; some (.flt (Float.ofBits (UInt64.ofNat k)))
  | _ => none

partial def dispVal? : Sexp → Option DVal
  | .list [.atom "qty", m, .list (.atom "d" :: es)] => do
      let mag ← dispNum? m
      let dim ← es.mapM Sexp.int?
      some (.qty mag dim)
  | .list (.atom "arr" :: xs) => do
      let vs ← xs.mapM dispVal?
      some (.arr vs)
  | .list [.atom "intv", a, b] => do
      let x ← dispNum? a; let y ← dispNum? b; some (.intv x y)
  | .list (.atom "str" :: cps) => do let t ← dispCodepoints cps; some (.str t)
  | .list (.atom "inst" :: cps) => do let t ← dispCodepoints cps; some (.inst t)
  | s => do let n ← dispNum? s; some (.num n)

def dispNames? : Sexp → Option (List Text)
  | .list (.atom "names" :: ns) => ns.mapM fun s => match s with
      | .list cps => dispCodepoints cps
      | _ => none
  | _ => none

def dispBool? : Sexp → Option Bool
  | .atom "1" => some true
  | .atom "0" => some false
  | _ => none

/-- `fmt <N> <float bits>` → `ok <text>` | `err <code>` -/
def handleFmt (payload : String) : String :=
  match payload.splitOn " " with
  | [n, b] =>
    (match n.toInt?, b.toNat? with
     | some N, some bits => dispShow (precisionifyFloat N (Float.ofBits (UInt64.ofNat bits)))
     | _, _ => "bad-request")
  | _ => "bad-request"

/-- `display (req <N> <brackets 0|1> (names (cp…)…) <dval>)` -/
def handleDisplay (payload : String) : String :=
  match Sexp.parse payload with
  | some (.list [.atom "req", n, b, names, v]) =>
    (match n.int?, dispBool? b, dispNames? names, dispVal? v with
     | some N, some br, some nm, some dv => dispShow (displayResult nm N br dv)
     | _, _, _, _ => "bad-request")
  | _ => "bad-request"

/-- `stringify (req <N> <brackets 0|1> (names (cp…)…) <dval>)` -/
def handleStringify (payload : String) : String :=
  match Sexp.parse payload with
  | some (.list [.atom "req", n, b, names, v]) =>
    (match n.int?, dispBool? b, dispNames? names, dispVal? v with
     | some N, some br, some nm, some dv => dispShow (stringify nm N br dv)
     | _, _, _, _ => "bad-request")
  | _ => "bad-request"

end KaVerif.Driver
