import KaVerif.Model.Eval
-- STREAM run handleEvalRun
-- STREAM runsess handleEvalSession
-- STREAM evalconst handleEvalConst
namespace KaVerif.Driver
open KaVerif KaVerif.Eval

def evalHexVal? (c : Char) : Option Nat :=
  if '0' ≤ c && c ≤ '9' then some (c.toNat - 48)
  else if 'a' ≤ c && c ≤ 'f' then some (c.toNat - 87)
  else none

def evalHexBytes? : List Char → Option (List UInt8)
  | [] => some []
  | [_] => none
  | a :: b :: r => do
    let x ← evalHexVal? a; let y ← evalHexVal? b; let rest ← evalHexBytes? r
    some (UInt8.ofNat (x * 16 + y) :: rest)

/-- hex-encoded UTF-8 → String -/
def evalHexString? (h : String) : Option String := do
  let bs ← evalHexBytes? h.toList
  String.fromUTF8? (ByteArray.mk bs.toArray)

def evalHexDigit (n : Nat) : Char := if n < 10 then Char.ofNat (48 + n) else Char.ofNat (87 + n)

/-- String → hex of its UTF-8 bytes -/
def evalToHex (s : String) : String :=
  String.ofList (s.toUTF8.toList.flatMap fun b => [evalHexDigit (b.toNat / 16), evalHexDigit (b.toNat % 16)])

/-- `ok <hex of output text>` | `err <class>` | `escaped <class>` | `unmodelled <why>` -/
def evalShow : Outcome → String
  | .ok s => "ok " ++ evalToHex s
  | .unmodelled w => "unmodelled " ++ w.replace ";" ","
  | o => o.render

/-- `run <hex utf-8 text>`: one input against a fresh session -/
def handleEvalRun (payload : String) : String :=
  match evalHexString? payload.trimAscii.toString with
  | none => "bad-op"
  | some s => evalShow (runText s)

/-- `runsess <hex>;<hex>;…`: successive inputs against one session; answers joined by `;` -/
def handleEvalSession (payload : String) : String :=
  match (payload.trimAscii.toString.splitOn ";").mapM evalHexString? with
  | none => "bad-op"
  | some ss => ";".intercalate ((runSession initialEnv false ss).map evalShow)

/-- `evalconst`: the bit patterns the model uses for `math.e` and `math.pi` (the harness compares them
    with the running interpreter's) -/
def handleEvalConst (_ : String) : String := s!"{eBits.toNat} {piBits.toNat}"

end KaVerif.Driver
