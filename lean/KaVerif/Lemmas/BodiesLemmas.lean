import KaVerif.Gen.Bodies
import KaVerif.Model.EvalG
import KaVerif.Lemmas.EvalLemmas
/-
  Lemmas for Props/Bodies.lean: the function bodies TRANSLATED from the Python source (`Gen/Bodies.lean`,
  written by translate/gen_bodies.py) agree with the hand-written bodies of `Model/Eval.lean`
  (`BodyCode.run`), which are what the property theorems and the pipeline refinement theorems are about.

  Shape of every proof: both sides are `do` blocks over the error monad; the translated side calls
  `rec name [Val.num x, …]` and inspects the answer with the runtime functions of `Model/PyRt.lean`, the
  hand-written side goes through `rnum` (which answers `bad` when the dispatcher returns something that
  is not a number).  Under `NumDisp rec` — the dispatcher returns a number or an error for the calls on
  plain numbers that the bodies make — `rec name [.num x, .num y] = rnum rec name [x, y] >>= pure ∘ .num`,
  and after that rewriting both sides normalise (associativity of bind, `if` pulled out of binds) to the
  same term.  `NumDisp` is PROVED for the real dispatcher `Eval.dispatchV n` below (`numDisp_dispatchV`),
  by kernel `decide` over the generated registry.

  No Mathlib.  Proofs use `cases … <;> …` without naming constructors of `Val` / `BodyCode`, so that new
  constructors do not break them.
-/
set_option linter.unusedSimpArgs false
namespace KaVerif.Bodies
open KaVerif Num Eval PyRt

/-! ### the hypothesis on the dispatcher -/

/-- the calls `dispatch(name, (numbers…))` made by the translated bodies: name and number of arguments -/
def numCalls : List (String × Nat) :=
  [("<=", 2), ("<", 2), ("==", 2), ("min", 2), ("max", 2), ("min", 3), ("max", 3), ("abs", 1), ("-", 1), ("-", 2),
   ("+", 2), ("*", 2), ("/", 2), ("^", 2), ("sqrt", 1), ("log", 2), ("int", 1), ("!=", 2), (">", 2), (">=", 2)]

/-- On plain numbers the dispatcher answers with a number or raises (for the calls of `numCalls`).
    True of Ka's `dispatch`: see `numDisp_dispatchV`. -/
def NumDisp (rec : Disp) : Prop :=
  ∀ (nm : String) (xs : List Num), (nm, xs.length) ∈ numCalls → ∀ v, rec nm (xs.map .num) = .ok v → ∃ r, v = .num r

/-! ### the error monad -/

theorem ok_bind {α β : Type} (x : α) (f : α → R β) : (Except.ok x : R α) >>= f = f x := rfl
theorem error_bind {α β : Type} (e : EvalErr) (f : α → R β) : (Except.error e : R α) >>= f = .error e := rfl
theorem pure_def {α : Type} (x : α) : (pure x : R α) = .ok x := rfl
theorem map_def {α β : Type} (f : α → β) (x : R α) : Except.map f x = x >>= fun a => .ok (f a) := by
  cases x <;> rfl
theorem ite_bind {α β : Type} (c : Prop) [Decidable c] (x y : R α) (k : α → R β) :
    (if c then x else y) >>= k = if c then x >>= k else y >>= k := by
  split <;> rfl
theorem bind_congr' {α β : Type} (x : R α) (f g : α → R β) (h : ∀ a, f a = g a) : x >>= f = x >>= g := by
  have : f = g := funext h
  rw [this]
theorem raise_def {α : Type} (e : Err) : (raise e : R α) = .error (.err e) := rfl
theorem pyRaise_def {α : Type} (e : Err) : (pyRaise e : R α) = .error (.err e) := rfl

theorem NumDisp.call {rec : Disp} (h : NumDisp rec) (nm : String) (xs : List Num) (hc : (nm, xs.length) ∈ numCalls) :
    rec nm (xs.map .num) = (rnum rec nm xs >>= fun r => .ok (.num r)) := by
  unfold rnum
  cases hr : rec nm (xs.map .num) with
  | error e => rfl
  | ok v =>
    obtain ⟨r, rfl⟩ := h nm xs hc v hr
    rfl

theorem NumDisp.c1 {rec : Disp} (h : NumDisp rec) (nm : String) (x : Num) (hc : (nm, 1) ∈ numCalls) :
    rec nm [.num x] = (rnum rec nm [x] >>= fun r => .ok (.num r)) := h.call nm [x] hc
theorem NumDisp.c2 {rec : Disp} (h : NumDisp rec) (nm : String) (x y : Num) (hc : (nm, 2) ∈ numCalls) :
    rec nm [.num x, .num y] = (rnum rec nm [x, y] >>= fun r => .ok (.num r)) := h.call nm [x, y] hc
theorem NumDisp.c3 {rec : Disp} (h : NumDisp rec) (nm : String) (x y z : Num) (hc : (nm, 3) ∈ numCalls) :
    rec nm [.num x, .num y, .num z] = (rnum rec nm [x, y, z] >>= fun r => .ok (.num r)) := h.call nm [x, y, z] hc

/-- normalisation of both sides: `bodies_norm h [definitions to unfold]` -/
syntax "bodies_norm" ident "[" Lean.Parser.Tactic.simpLemma,* "]" : tactic
macro_rules
  | `(tactic| bodies_norm $h:ident [$ls,*]) => `(tactic|
    simp only [bind_assoc, pure_bind, ok_bind, error_bind, map_def, ite_bind, pure_def, raise_def, pyRaise_def,
      pyAttr, pyMapM, PyRt.pyInt, pyMul, pySub, pyAdd, pyArith, pyTruthy, mkInterval, pyEq, pyNe, liftE,
      List.mapM_cons, List.mapM_nil, List.append, reduceIte, Bool.false_eq_true, if_true, if_false, List.cons_append, List.nil_append,
      NumDisp.c2 $h "<=" _ _ (by decide), NumDisp.c2 $h "<" _ _ (by decide), NumDisp.c2 $h "==" _ _ (by decide),
      NumDisp.c2 $h "min" _ _ (by decide), NumDisp.c2 $h "max" _ _ (by decide),
      NumDisp.c3 $h "min" _ _ _ (by decide), NumDisp.c3 $h "max" _ _ _ (by decide),
      NumDisp.c1 $h "abs" _ (by decide), NumDisp.c1 $h "-" _ (by decide), NumDisp.c2 $h "-" _ _ (by decide),
      NumDisp.c2 $h "+" _ _ (by decide), NumDisp.c2 $h "*" _ _ (by decide), NumDisp.c2 $h "/" _ _ (by decide),
      NumDisp.c2 $h "^" _ _ (by decide), NumDisp.c1 $h "sqrt" _ (by decide), NumDisp.c2 $h "log" _ _ (by decide),
      NumDisp.c1 $h "int" _ (by decide), $ls,*])

/-! ### argument shapes -/

theorem holds_num {v : Val} (h : Shape.holds .num v = true) : ∃ n, v = .num n := by
  cases v <;> first | exact ⟨_, rfl⟩ | (simp [Shape.holds] at h)
theorem holds_intv {v : Val} (h : Shape.holds .intv v = true) : ∃ a b, v = .intv a b := by
  cases v <;> first | exact ⟨_, _, rfl⟩ | (simp [Shape.holds] at h)
theorem holds_arr {v : Val} (h : Shape.holds .arr v = true) : ∃ xs, v = .arr xs := by
  cases v <;> first | exact ⟨_, rfl⟩ | (simp [Shape.holds] at h)
theorem holds_qty {v : Val} (h : Shape.holds .qty v = true) : ∃ m d, v = .qty m d := by
  cases v <;> first | exact ⟨_, _, rfl⟩ | (simp [Shape.holds] at h)
theorem holds_int {v : Val} (h : Shape.holds .int v = true) : ∃ k, v = .num (.int k) := by
  cases v with
  | num n => cases n <;> first | exact ⟨_, rfl⟩ | (simp [Shape.holds] at h)
  | _ => simp [Shape.holds] at h

theorem wt1 {s : Shape} {args : List Val} (h : wellTyped [s] Option.none args = true) : ∃ x, args = [x] ∧ s.holds x = true := by
  match args, h with
  | [x], h => exact ⟨x, rfl, by simpa [wellTyped] using h⟩
  | [], h => simp [wellTyped] at h
  | _ :: _ :: _, h => simp [wellTyped] at h

theorem wt2 {s1 s2 : Shape} {args : List Val} (h : wellTyped [s1, s2] Option.none args = true) :
    ∃ x y, args = [x, y] ∧ s1.holds x = true ∧ s2.holds y = true := by
  match args, h with
  | [x, y], h => exact ⟨x, y, rfl, by simpa [wellTyped] using h⟩
  | [], h => simp [wellTyped] at h
  | [_], h => simp [wellTyped] at h
  | _ :: _ :: _ :: _, h => simp [wellTyped] at h

theorem wt3 {s1 s2 s3 : Shape} {args : List Val} (h : wellTyped [s1, s2, s3] Option.none args = true) :
    ∃ x y z, args = [x, y, z] ∧ s1.holds x = true ∧ s2.holds y = true ∧ s3.holds z = true := by
  match args, h with
  | [x, y, z], h => exact ⟨x, y, z, rfl, by simpa [wellTyped, and_assoc] using h⟩
  | [], h => simp [wellTyped] at h
  | [_], h => simp [wellTyped] at h
  | [_, _], h => simp [wellTyped] at h
  | _ :: _ :: _ :: _ :: _, h => simp [wellTyped] at h

/-- a table keyed by distinct strings: membership is lookup -/
theorem lookup_of_mem_nodup {α : Type} (l : List (String × α)) (k : String) (v : α)
    (hn : (l.map (·.1)).Nodup) (hm : (k, v) ∈ l) : l.lookup k = some v := by
  induction l with
  | nil => cases hm
  | cons p l ih =>
    obtain ⟨k', v'⟩ := p
    simp only [List.map_cons, List.nodup_cons] at hn
    simp only [List.mem_cons, Prod.mk.injEq] at hm
    rcases hm with ⟨rfl, rfl⟩ | hm
    · simp [List.lookup]
    · have hne : k ≠ k' := by
        intro e; subst e
        exact hn.1 (List.mem_map.mpr ⟨(k, v), hm, rfl⟩)
      have : (k == k') = false := by simpa using hne
      simp only [List.lookup, this]
      exact ih hn.2 hm

/-! ### the interval family (functions.py, section "Intervals") -/

section Interval
variable {rec : Disp}
open Gen.Bodies

theorem make_interval_from_bounds_agree (h : NumDisp rec) (x y : Num) :
    make_interval_from_bounds rec (.num x) (.num y) = ivFromBounds rec x y := by
  bodies_norm h [make_interval_from_bounds, ivFromBounds]

theorem make_interval_with_num_op_agree (h : NumDisp rec) (op : String) (hop : (op, 2) ∈ numCalls) (a b n : Num) :
    make_interval_with_num_op__op op rec (.intv a b) (.num n) = bIvNumOp op rec [.intv a b, .num n] := by
  bodies_norm h [make_interval_with_num_op__op, make_interval_from_bounds, bIvNumOp, ivFromBounds, NumDisp.c2 h op _ _ hop]

theorem make_interval_agree (h : NumDisp rec) (a b : Num) :
    make_interval rec (.num a) (.num b) = bMakeInterval rec [.num a, .num b] := by
  bodies_norm h [make_interval, bMakeInterval]

theorem interval_contains_agree (h : NumDisp rec) (a b x : Num) :
    interval_contains rec (.intv a b) (.num x) = bIvContains rec [.intv a b, .num x] := by
  bodies_norm h [interval_contains, bIvContains, ivContains]

theorem in_interval_agree (h : NumDisp rec) (a b x : Num) :
    in_interval rec (.num x) (.intv a b) = bInInterval rec [.num x, .intv a b] := by
  bodies_norm h [in_interval, bInInterval, ivContains]

theorem interval_flip_agree (h : NumDisp rec) (a b : Num) :
    interval_flip rec (.intv a b) = bIvFlip rec [.intv a b] := by
  bodies_norm h [interval_flip, bIvFlip]

theorem interval_sqrt_agree (h : NumDisp rec) (a b : Num) :
    interval_sqrt rec (.intv a b) = bIvSqrt rec [.intv a b] := by
  bodies_norm h [interval_sqrt, interval_has_negative, bIvSqrt]

theorem interval_log_agree (h : NumDisp rec) (a b base : Num) :
    interval_log rec (.intv a b) (.num base) = bIvLog rec [.intv a b, .num base] := by
  bodies_norm h [interval_log, make_interval_from_bounds, bIvLog, ivLog, ivFromBounds]

theorem interval_abs_agree (h : NumDisp rec) (a b : Num) :
    interval_abs rec (.intv a b) = bIvAbs rec [.intv a b] := by
  bodies_norm h [interval_abs, interval_contains, bIvAbs, ivContains]

theorem interval_eq_agree (h : NumDisp rec) (a1 b1 a2 b2 : Num) :
    interval_eq rec (.intv a1 b1) (.intv a2 b2) = bIvEq false rec [.intv a1 b1, .intv a2 b2] := by
  bodies_norm h [interval_eq, bIvEq]

theorem interval_neq_agree (h : NumDisp rec) (a1 b1 a2 b2 : Num) :
    interval_neq rec (.intv a1 b1) (.intv a2 b2) = bIvEq true rec [.intv a1 b1, .intv a2 b2] := by
  bodies_norm h [interval_neq, interval_eq, bIvEq]

theorem interval_min_agree (h : NumDisp rec) (a b x : Num) :
    interval_min rec (.intv a b) (.num x) = bIvMin rec [.intv a b, .num x] := by
  bodies_norm h [interval_min, bIvMin]

theorem interval_max_agree (h : NumDisp rec) (a b x : Num) :
    interval_max rec (.intv a b) (.num x) = bIvMax rec [.intv a b, .num x] := by
  bodies_norm h [interval_max, bIvMax]

theorem interval_size_agree (h : NumDisp rec) (a b : Num) :
    interval_size rec (.intv a b) = bIvSize rec [.intv a b] := by
  bodies_norm h [interval_size, bIvSize]

theorem interval_plusminus_agree (h : NumDisp rec) (x y : Num) :
    interval_plusminus rec (.num x) (.num y) = bPlusMinus rec [.num x, .num y] := by
  bodies_norm h [interval_plusminus, make_interval_from_bounds, bPlusMinus, ivFromBounds]

theorem interval_ln_agree (h : NumDisp rec) (a b : Num) :
    interval_ln rec (.intv a b) = bIvLogBase LogBase.e.num rec [.intv a b] := by
  bodies_norm h [interval_ln, interval_log, make_interval_from_bounds, bIvLogBase, ivLog, ivFromBounds, mathE, LogBase.num]

theorem interval_log10_agree (h : NumDisp rec) (a b : Num) :
    interval_log10 rec (.intv a b) = bIvLogBase LogBase.ten.num rec [.intv a b] := by
  bodies_norm h [interval_log10, interval_log, make_interval_from_bounds, bIvLogBase, ivLog, ivFromBounds, LogBase.num]

theorem interval_log2_agree (h : NumDisp rec) (a b : Num) :
    interval_log2 rec (.intv a b) = bIvLogBase LogBase.two.num rec [.intv a b] := by
  bodies_norm h [interval_log2, interval_log, make_interval_from_bounds, bIvLogBase, ivLog, ivFromBounds, LogBase.num]

theorem interval_num_agree (h : NumDisp rec) (name : String) (hn : (name, 2) ∈ numCalls) (a b x : Num) :
    register_interval_cmp__interval_num name rec (.intv a b) (.num x) = bIvCmp name .intervalNum rec [.intv a b, .num x] := by
  bodies_norm h [register_interval_cmp__interval_num, bIvCmp, NumDisp.c2 h name _ _ hn]

theorem num_interval_agree (h : NumDisp rec) (name : String) (hn : (name, 2) ∈ numCalls) (a b x : Num) :
    register_interval_cmp__num_interval name rec (.num x) (.intv a b) = bIvCmp name .numInterval rec [.num x, .intv a b] := by
  bodies_norm h [register_interval_cmp__num_interval, bIvCmp, NumDisp.c2 h name _ _ hn]

theorem interval_interval_agree (h : NumDisp rec) (name : String) (hn : (name, 2) ∈ numCalls) (a1 b1 a2 b2 : Num) :
    register_interval_cmp__interval_interval name rec (.intv a1 b1) (.intv a2 b2)
      = bIvCmp name .intervalInterval rec [.intv a1 b1, .intv a2 b2] := by
  bodies_norm h [register_interval_cmp__interval_interval, bIvCmp, NumDisp.c2 h name _ _ hn]

/-- `swap(f)` of `register_interval_cmp` and `reverse_f` of `register_commutative_op` are `bRev` -/
theorem swapped_f_agree (f : Disp → Val → Val → R Val) (g : Body) (y x : Val) (hfg : f rec x y = g rec [x, y]) :
    register_interval_cmp__swap__swapped_f f rec y x = bRev g rec [y, x] := by
  simp only [register_interval_cmp__swap__swapped_f, bRev, hfg]

theorem reverse_f_agree (f : Disp → Val → Val → R Val) (g : Body) (y x : Val) (hfg : f rec x y = g rec [x, y]) :
    register_commutative_op__reverse_f f rec y x = bRev g rec [y, x] := by
  simp only [register_commutative_op__reverse_f, bRev, hfg]

theorem interval_get_lower_agree (a b : Num) : interval_get_lower rec (.intv a b) = bIvLower rec [.intv a b] := rfl
theorem interval_get_upper_agree (a b : Num) : interval_get_upper rec (.intv a b) = bIvUpper rec [.intv a b] := rfl
theorem lambda_plus_Interval_agree (x : Val) : lambda_plus_Interval rec x = BodyCode.run .ident rec [x] := rfl

/-- `is_fractional` as the translated code computes it is `isFractionalD` -/
theorem is_fractional_agree (h : NumDisp rec) (e : Num) : is_fractional rec (.num e) = isFractionalD rec e := by
  bodies_norm h [is_fractional, is_true, isFractionalD, truthy, Bool.not_not]

theorem interval_to_power_agree (h : NumDisp rec) (a b e : Num) :
    interval_to_power rec (.intv a b) (.num e) = bIvPow rec [.intv a b, .num e] := by
  bodies_norm h [interval_to_power, interval_has_negative, interval_contains, is_fractional_agree h, bIvPow, ivContains]
  apply bind_congr'
  intro neg
  cases hn : truthy neg <;> simp only [Bool.true_and, Bool.false_and, Bool.and_false, if_true, if_false, Bool.false_eq_true, reduceIte]

end Interval

/-! ### the quantity-operator closures of `register_quantities_op` -/

section Quantities
variable {rec : Disp}
open Gen.Bodies

theorem qty_same_agree (h : NumDisp rec) (name : String) (hn : (name, 2) ∈ numCalls) (wrap : Bool) (x y : Num) (dx dy : List Int) :
    register_quantities_op__f name Option.none wrap rec (.qty x dx) (.qty y dy)
      = bQtyQty name .same wrap rec [.qty x dx, .qty y dy] := by
  cases hd : (dx != dy) <;> cases wrap <;>
    bodies_norm h [register_quantities_op__f, bQtyQty, qtyF, pyQv, mkQuantity, Option.isNone, NumDisp.c2 h name _ _ hn, hd]

theorem qty_mul_agree (h : NumDisp rec) (name : String) (hn : (name, 2) ∈ numCalls) (wrap : Bool) (x y : Num) (dx dy : List Int) :
    register_quantities_op__f name (some lambda_qv1_times_qv2) wrap rec (.qty x dx) (.qty y dy)
      = bQtyQty name .mul wrap rec [.qty x dx, .qty y dy] := by
  cases wrap <;>
    bodies_norm h [register_quantities_op__f, bQtyQty, qtyF, pyQv, mkQuantity, Option.isNone, NumDisp.c2 h name _ _ hn,
      lambda_qv1_times_qv2, qvMul]

theorem qty_div_agree (h : NumDisp rec) (name : String) (hn : (name, 2) ∈ numCalls) (wrap : Bool) (x y : Num) (dx dy : List Int) :
    register_quantities_op__f name (some lambda_qv1_div_qv2) wrap rec (.qty x dx) (.qty y dy)
      = bQtyQty name .div wrap rec [.qty x dx, .qty y dy] := by
  cases wrap <;>
    bodies_norm h [register_quantities_op__f, bQtyQty, qtyF, pyQv, mkQuantity, Option.isNone, NumDisp.c2 h name _ _ hn,
      lambda_qv1_div_qv2, qvDiv]

/-- `left_is_number(n, q) = f(Quantity(n, zero), q)` -/
theorem left_is_number_agree (f : Disp → Val → Val → R Val) (name : String) (rule : QvRule) (wrap : Bool) (x y : Num) (dy : List Int)
    (hf : f rec (.qty x zeroDim) (.qty y dy) = bQtyQty name rule wrap rec [.qty x zeroDim, .qty y dy]) :
    register_quantities_op__left_is_number f rec (.num x) (.qty y dy) = bNumQty name rule wrap rec [.num x, .qty y dy] := by
  simp only [register_quantities_op__left_is_number, mkQuantity, ok_bind, hf, bQtyQty, bNumQty]

theorem right_is_number_agree (f : Disp → Val → Val → R Val) (name : String) (rule : QvRule) (wrap : Bool) (x y : Num) (dx : List Int)
    (hf : f rec (.qty x dx) (.qty y zeroDim) = bQtyQty name rule wrap rec [.qty x dx, .qty y zeroDim]) :
    register_quantities_op__right_is_number f rec (.qty x dx) (.num y) = bQtyNum name rule wrap rec [.qty x dx, .num y] := by
  simp only [register_quantities_op__right_is_number, mkQuantity, ok_bind, hf, bQtyQty, bQtyNum]

end Quantities

/-! ### closures over Python builtins: `intify(operator.lt)` …, `quantity_function` of `register_numeric_function` -/

section Builtins
variable (rec : Disp)
open Gen.Bodies

/-- `intify(f)`: `1 if f(x, y) else 0` over a comparison builtin -/
theorem intify_agree (nm : String) (x y : Num) :
    (do let n ← intify__f_new (pyOperatorCmp nm) rec (.num x) (.num y); pure (PyRt.pyInt n)) = bCmp nm rec [.num x, .num y] := by
  simp only [intify__f_new, pyOperatorCmp, bCmp, ok_bind, pure_def, b2v, PyRt.pyInt]
  cases cmpByName nm x y <;> rfl

/-- `quantity_function` over a builtin: `Quantity(f(q.mag), q.qv)` -/
theorem quantity_function_builtin_agree (fn : Elementary.Fn) (m : Num) (d : List Int) :
    register_numeric_function__quantity_function (pyBuiltin1 fn) rec (.qty m d) = bQtyFn fn rec [.qty m d] := by
  simp only [register_numeric_function__quantity_function, pyBuiltin1, bQtyFn, pyAttr, pyQv, ok_bind, map_def, bind_assoc, mkQuantity]

end Builtins

/-! ### bodies whose hand-written model does not go through the dispatcher: `ka_sqrt`, `strict_pow`

  The Python code asks `dispatch("<", (x, 0))`; the hand-written model compares directly.  They agree for a dispatcher
  that computes `<`, `==` and `int` on plain numbers as Ka does (`NumSem`) — proved for `Eval.dispatchV (n + 1)` below. -/

/-- the dispatcher computes `<`, `==` and `int` on plain numbers as Ka's registered implementations do -/
def NumSem (rec : Disp) : Prop :=
  (∀ x y, rec "<" [.num x, .num y] = .ok (b2v (cmpLt x y))) ∧
  (∀ x y, rec "==" [.num x, .num y] = .ok (b2v (cmpEq x y))) ∧
  (∀ x, rec "int" [.num x] = liftN (Elementary.applyNum .toInt x)) ∧
  (∀ x y, rec "<=" [.num x, .num y] = .ok (b2v (cmpLe x y)))

theorem numSem_dispatchV (n : Nat) : NumSem (fun nm as => dispatchV (n + 1) nm as []) := by
  refine ⟨fun x y => ?_, fun x y => ?_, fun x => ?_, fun x y => ?_⟩
  · have t := (num_table2 _ (numClass_mem x) _ (numClass_mem y)).2.2.2.2.2.2.1
    exact dispatch_cmp n "<" _ x y t
  · have t := (num_table2 _ (numClass_mem x) _ (numClass_mem y)).2.2.2.2.2.2.2.2.1
    exact dispatch_cmp n "==" _ x y t
  · have t := (num_table1 _ (numClass_mem x)).2.2.2.2.2.2.1
    exact dispatch_fn1 n "int" _ .toInt x t
  · have t := (num_table2 _ (numClass_mem x) _ (numClass_mem y)).2.2.2.2.2.2.2.1
    exact dispatch_cmp n "<=" _ x y t

section Sem
variable {rec : Disp}
open Gen.Bodies

theorem truthy_b2v (b : Bool) : pyTruthy (b2v b) = .ok b := by
  cases b <;> rfl

theorem is_true_b2v (b : Bool) : is_true rec (b2v b) = .ok b := by
  cases b <;> rfl

theorem ka_sqrt_agree (h : NumSem rec) (x : Num) :
    ka_sqrt rec (.num x) = bNum1 (Elementary.body .sqrt) rec [.num x] := by
  simp only [ka_sqrt, PyRt.pyInt, h.1, ok_bind, truthy_b2v, bNum1, Elementary.body, Elementary.kaSqrt, mathSqrt, pyRaise_def]
  cases cmpLt x (.int 0) <;> rfl

/-- `quantity_function` over a translated one-argument function that agrees with the model's `Elementary.body fn` -/
theorem quantity_function_agree (f : Disp → Val → R Val) (fn : Elementary.Fn) (m : Num) (d : List Int)
    (hf : f rec (.num m) = bNum1 (Elementary.body fn) rec [.num m]) :
    register_numeric_function__quantity_function f rec (.qty m d) = bQtyFn fn rec [.qty m d] := by
  simp only [register_numeric_function__quantity_function, hf, bNum1, bQtyFn, pyAttr, pyQv, ok_bind, map_def, bind_assoc, mkQuantity]

theorem quantity_function_sqrt_agree (h : NumSem rec) (m : Num) (d : List Int) :
    register_numeric_function__quantity_function ka_sqrt rec (.qty m d) = bQtyFn .sqrt rec [.qty m d] :=
  quantity_function_agree ka_sqrt .sqrt m d (ka_sqrt_agree h m)

/-- `math.log`'s helper never fails with a host exception other than the `ValueError` it is documented to raise -/
theorem toFloat_error {x : Num} {e : Err} (h : x.toFloat = .error e) : e = .overflow := by
  cases x <;> simp only [Num.toFloat] at h <;> first | (split at h <;> cases h; rfl) | cases h

theorem pyLog_error {x : Num} {e : Err} (h : Elementary.pyLog x = .error e) : e = .runtime ∨ e = .overflow := by
  cases x with
  | int n =>
    simp only [Elementary.pyLog] at h
    split at h <;> cases h
  | frac q =>
    simp only [Elementary.pyLog] at h
    cases ht : (Num.frac q).toFloat with
    | error e' =>
      simp only [ht, bind, Except.bind] at h
      cases h
      exact Or.inr (toFloat_error ht)
    | ok f =>
      simp only [ht, bind, Except.bind] at h
      split at h <;> cases h
      exact Or.inl rfl
  | flt f =>
    simp only [Elementary.pyLog, Num.toFloat, bind, Except.bind] at h
    split at h <;> cases h
    exact Or.inl rfl

/-- `try: math.log(x, base) except ValueError: raise KaRuntimeError` behind `ka_log`'s guards is the model's
    `log x / log base`, the `ZeroDivisionError` of a base that is `1.0` as a float included (it is not a `ValueError`: it passes
    the `try` and `execute` reports it as "divide by zero"; the model's `Elementary.kaLog` has the same branch) -/
theorem tryLog_agree (x base : Num) (hx : cmpLe x (.int 0) = false) (hb : cmpLe base (.int 0) = false) :
    pyTry (mathLog2 (.num x) (.num base)) "ValueError" (pyRaise .runtime)
      = Except.map Val.num (liftE (do
          let lx ← Elementary.pyLog x; let lb ← Elementary.pyLog base
          if lb == 0 then (Except.error Err.divZero : Except Err Num) else fin (lx / lb))) := by
  simp only [mathLog2, mathLogArg, hx, hb, Bool.false_eq_true, if_false]
  cases hlx : Elementary.pyLog x with
  | error e =>
    rcases pyLog_error hlx with rfl | rfl <;> rfl
  | ok lx =>
    cases hlb : Elementary.pyLog base with
    | error e =>
      rcases pyLog_error hlb with rfl | rfl <;> rfl
    | ok lb =>
      cases hz : lb == 0 with
      | true => simp only [bind, Except.bind, hz, if_true]; rfl
      | false =>
        simp only [bind, Except.bind, hz, Bool.false_eq_true, if_false]
        cases hf : fin (lx / lb) with
        | error e =>
          have : e = .overflow := by
            simp only [fin] at hf
            split at hf <;> cases hf
            rfl
          subst this
          rfl
        | ok v => rfl

theorem ka_log_agree (h : NumSem rec) (x base : Num) :
    ka_log rec (.num x) (.num base) = bNum2 Elementary.kaLog rec [.num x, .num base] := by
  simp only [ka_log, PyRt.pyInt, h.2.2.2, h.2.1, ok_bind, truthy_b2v, bNum2, Elementary.kaLog, pyRaise_def]
  cases hx : cmpLe x (.int 0) with
  | true => rfl
  | false =>
    cases hb : cmpLe base (.int 0) with
    | true => rfl
    | false =>
      cases h1 : cmpEq base (.int 1) with
      | true => rfl
      | false =>
        have := tryLog_agree x base hx hb
        simp only [pyRaise_def] at this
        simp only [Bool.false_eq_true, if_false, pure_def, ok_bind, truthy_b2v, h1, Bool.or_false, this]

theorem ka_ln_agree (h : NumSem rec) (x : Num) :
    ka_ln rec (.num x) = bNum1 (Elementary.body .ln) rec [.num x] := by
  simpa only [ka_ln, mathE, bNum1, bNum2, Elementary.body, LogBase.num] using ka_log_agree h x (.flt Elementary.eFloat)

theorem ka_log10_agree (h : NumSem rec) (x : Num) :
    ka_log10 rec (.num x) = bNum1 (Elementary.body .log10) rec [.num x] := by
  simpa only [ka_log10, PyRt.pyInt, bNum1, bNum2, Elementary.body, LogBase.num] using ka_log_agree h x (.int 10)

theorem ka_log2_agree (h : NumSem rec) (x : Num) :
    ka_log2 rec (.num x) = bNum1 (Elementary.body .log2) rec [.num x] := by
  simpa only [ka_log2, PyRt.pyInt, bNum1, bNum2, Elementary.body, LogBase.num] using ka_log_agree h x (.int 2)

/-- `is_fractional(y)` through a dispatcher that computes `int` and `==` as Ka does is `Num.isFractional` -/
theorem is_fractional_sem (h : NumSem rec) (y : Num) : is_fractional rec (.num y) = liftE (Num.isFractional y) := by
  simp only [is_fractional, h.2.2.1, Elementary.applyNum, Elementary.body, unop, Num.isFractional]
  cases hy : Num.pyInt y with
  | error e => rfl
  | ok t =>
    simp only [bind, Except.bind, simplify, liftN, h.2.1, is_true_b2v, liftE, pure, Except.pure]

theorem pyPow_of_fractional_error {x y : Num} {e : Err} (hy : Num.isFractional y = .error e) : pyPow x y = .error e := by
  simp only [pyPow, hy, bind, Except.bind]

theorem pyPow_of_guard {x y : Num} (hy : Num.isFractional y = .ok true) (hc : cmpLt x (.int 0) = true) :
    pyPow x y = .error .runtime := by
  simp only [pyPow, hy, hc, bind, Except.bind, Bool.and_self, if_true]

theorem strict_pow_agree (h : NumSem rec) (x y : Num) (hp : hugePow x y = false) :
    strict_pow rec (.num x) (.num y) = bPow rec [.num x, .num y] := by
  simp only [strict_pow, is_fractional_sem h, PyRt.pyInt, h.1, is_true_b2v, bPow, hp, Bool.false_eq_true, if_false, pyPowOp,
    pyRaise_def]
  cases hy : Num.isFractional y with
  | error e => simp only [pyPow_of_fractional_error hy, liftE, error_bind, Except.map]
  | ok fr =>
    cases fr with
    | false => simp only [liftE, ok_bind, pure_def, Bool.false_eq_true, if_false]
    | true =>
      cases hc : cmpLt x (.int 0) with
      | false => simp only [is_true_b2v, liftE, ok_bind, pure_def, Bool.false_eq_true, if_false, if_true]
      | true => simp only [is_true_b2v, pyPow_of_guard hy hc, liftE, ok_bind, pure_def, if_true, Except.map]

end Sem

/-! ### arrays, ranges, variadic max / min (no hypothesis on the dispatcher is needed) -/

section Arrays
variable (rec : Disp)
open Gen.Bodies

theorem pyIndex_append (pre t : List Val) (e : Val) : pyIndex (pre ++ e :: t) (pre.length : Int) = .ok e := by
  have h1 : ¬ ((pre.length : Int) < 0) := by omega
  simp [pyIndex, h1]

theorem rtruth_eq (name : String) (args : List Val) : rtruth rec name args = rec name args >>= pyTruthy := by
  unfold rtruth
  apply bind_congr'
  intro v
  cases v <;> rfl

theorem array_prod_agree (xs : List Val) : array_prod rec (.arr xs) = bArrProd rec [.arr xs] := by
  simp only [array_prod, bArrProd, pyContents, pyForM, ok_bind, PyRt.pyInt, bind_pure]

theorem array_size_agree (xs : List Val) :
    (do let n ← array_size rec (.arr xs); pure (PyRt.pyInt n)) = bArrSize rec [.arr xs] := rfl

theorem array_mean_agree (xs : List Val) : array_mean rec (.arr xs) = bArrMean rec [.arr xs] := by
  cases xs <;> rfl

theorem minmax_fold_min (xs : List Val) (r : Val) :
    pyForM xs r (fun (result : Val) (e : Val) => do
        let t5 ← rec "<" [e, result]
        let t6 ← pyTruthy t5
        if t6 then do
          let result : Val := e
          pure result
        else do
          pure result)
    = xs.foldlM (fun r e => do if ← rtruth rec "<" [e, r] then pure e else pure r) r := by
  simp only [pyForM, rtruth_eq, bind_assoc]

theorem minmax_fold_max (xs : List Val) (r : Val) :
    pyForM xs r (fun (result : Val) (e : Val) => do
        let t5 ← rec "<" [result, e]
        let t6 ← pyTruthy t5
        if t6 then do
          let result : Val := e
          pure result
        else do
          pure result)
    = xs.foldlM (fun r e => do if ← rtruth rec "<" [r, e] then pure e else pure r) r := by
  simp only [pyForM, rtruth_eq, bind_assoc]

theorem array_min_agree (xs : List Val) : array_min rec (.arr xs) = bArrMin rec [.arr xs] := by
  cases xs with
  | nil => rfl
  | cons h t =>
    have := minmax_fold_min rec (h :: t) h
    have h0 : ((↑(h :: t).length : Int) == 0) = false := by simp; omega
    have hi : pyIndex (h :: t) 0 = .ok h := pyIndex_append [] t h
    simp only [array_min, bArrMin, pyContents, ok_bind, bind_pure, pyLen, h0, hi, Bool.false_eq_true, if_false]
    exact this

theorem array_max_agree (xs : List Val) : array_max rec (.arr xs) = bArrMax rec [.arr xs] := by
  cases xs with
  | nil => rfl
  | cons h t =>
    have := minmax_fold_max rec (h :: t) h
    have h0 : ((↑(h :: t).length : Int) == 0) = false := by simp; omega
    have hi : pyIndex (h :: t) 0 = .ok h := pyIndex_append [] t h
    simp only [array_max, bArrMax, pyContents, ok_bind, bind_pure, pyLen, h0, hi, Bool.false_eq_true, if_false]
    exact this

/-- the index loop of `array_sum` over `range(k, k + len(t))` reads the elements of `t` in order -/
theorem index_fold (f : Val → Val → R Val) (t pre : List Val) (acc : Val) :
    ((List.range t.length).map (fun (j : Nat) => (pre.length : Int) + Int.ofNat j)).foldlM
        (fun r i => do let e ← pyIndex (pre ++ t) i; f r e) acc
      = t.foldlM f acc := by
  induction t generalizing pre acc with
  | nil => rfl
  | cons e t ih =>
    have hi := pyIndex_append pre t e
    have h0 : (pre.length : Int) + Int.ofNat 0 = pre.length := by simp
    simp only [List.length_cons, List.range_succ_eq_map, List.map_cons, List.map_map, List.foldlM_cons, h0, hi, ok_bind]
    apply bind_congr'
    intro r
    have := ih (pre ++ [e]) r
    simp only [List.append_assoc, List.cons_append, List.nil_append, List.length_append, List.length_cons, List.length_nil] at this
    rw [← this]
    congr 1
    apply List.map_congr_left
    intro j _
    simp only [Function.comp, Int.ofNat_eq_natCast]
    omega

theorem array_sum_agree (xs : List Val) : array_sum rec (.arr xs) = bArrSum rec [.arr xs] := by
  cases xs with
  | nil => rfl
  | cons h t =>
    have := index_fold (fun r e => rec "+" [r, e]) t [h] h
    simp only [array_sum, bArrSum, pyContents, ok_bind, bind_pure, pyLen, pyForM, pyRange]
    have hl : ((↑(h :: t).length : Int) - 1).toNat = t.length := by simp
    have h0 : ((↑(h :: t).length : Int) == 0) = false := by simp; omega
    have hi : pyIndex (h :: t) 0 = .ok h := pyIndex_append [] t h
    simp only [h0, hi, ok_bind, hl, Bool.false_eq_true, if_false]
    simpa using this

theorem anyM_loop (x : Val) (xs : List Val) :
    pyAnyM (fun (e : Val) => do
        let t2 ← rec "==" [x, e]
        let t3 ← pyTruthy t2
        pure t3) xs = inArrayLoop rec x xs := by
  induction xs with
  | nil => rfl
  | cons e es ih => simp only [pyAnyM, inArrayLoop, rtruth_eq, bind_pure, ih]

theorem in_array_agree (x : Val) (xs : List Val) :
    (do let n ← in_array rec x (.arr xs); pure (PyRt.pyInt n)) = bInArray rec [x, .arr xs] := by
  simp only [in_array, bInArray, pyIter, ok_bind, anyM_loop, bind_assoc, map_def, pure_def, b2v, PyRt.pyInt]
  apply bind_congr'
  intro b
  cases b <;> rfl

theorem max_vararg_agree (args : List Val) : max_vararg rec args = bVarMax rec args := by
  cases args with
  | nil => rfl
  | cons a as =>
    have h0 : ((↑(a :: as).length : Int) == 0) = false := by simp; omega
    simp only [max_vararg, bVarMax, pyMaxOf, pyLen, h0, Bool.false_eq_true, if_false]
    cases hn : nums? (a :: as) with
    | none => rfl
    | some ns =>
      cases ns with
      | nil => cases a <;> simp [nums?, Option.map] at hn <;> (cases h' : nums? as <;> simp [h'] at hn)
      | cons _ _ => rfl

theorem min_vararg_agree (args : List Val) : min_vararg rec args = bVarMin rec args := by
  cases args with
  | nil => rfl
  | cons a as =>
    have h0 : ((↑(a :: as).length : Int) == 0) = false := by simp; omega
    simp only [min_vararg, bVarMin, pyMinOf, pyLen, h0, Bool.false_eq_true, if_false]
    cases hn : nums? (a :: as) with
    | none => rfl
    | some ns =>
      cases ns with
      | nil => cases a <;> simp [nums?, Option.map] at hn <;> (cases h' : nums? as <;> simp [h'] at hn)
      | cons _ _ => rfl

/-- `lo..hi` on two ints, within the model's size bound -/
theorem lambda_range_agree (lo hi : Int) (hb : (hi + 1 - lo).toNat ≤ maxRange) :
    lambda_range_Integral_Integral rec (.num (.int lo)) (.num (.int hi)) = bRange rec [.num (.int lo), .num (.int hi)] := by
  have : ¬ ((hi + 1 - lo).toNat > maxRange) := by omega
  simp only [lambda_range_Integral_Integral, bRange, pyAdd, pyArith, PyRt.pyInt, pyLin, liftE, Except.map, ok_bind, pyRangeVals,
    pure_def, this, if_false, pyRange, Arr.range, List.map_map]
  rfl

end Arrays

/-! #### `ka_range` (a `while` loop: `PyRt.pyWhile` with a round bound on the translated side, `kaRangeLoop` with the
   model's own bound on the hand-written side) -/

section KaRange
variable {rec : Disp}
open Gen.Bodies

/-- the loop condition and the loop body of the translated `ka_range`, as `gen_bodies.py` emits them -/
def krCond (rec : Disp) (hi : Val) : List Val × Val → R Bool := fun (st : List Val × Val) => do
  let (_result, curr) := st
  let t5 ← rec "<=" [curr, hi]
  let t6 ← pyTruthy t5
  pure t6

def krBody (rec : Disp) (step : Val) : List Val × Val → R (List Val × Val) := fun (st : List Val × Val) => do
  let (result, curr) := st
  let result := (result ++ [curr])
  let nxt ← rec "+" [curr, step]
  let t8 ← rec "<" [curr, nxt]
  let t9 ← pyTruthy t8
  if (!t9) then do
    pyRaise .funArg
  else do
    let curr : Val := nxt
    pure (result, curr)

theorem ka_range_unfold (fuel : Nat) (lo hi step : Val) :
    ka_range fuel rec lo hi step = (do
      let t1 ← rec "<" [(PyRt.pyInt 0), step]
      let t2 ← pyTruthy t1
      if (!t2) then pyRaise .funArg else do
        let t3 ← rec "<=" [lo, hi]
        let t4 ← pyTruthy t3
        if (!t4) then pyRaise .funArg else do
          let st ← pyWhile fuel (([] : List Val), lo) (krCond rec hi) (krBody rec step)
          pure (Val.arr st.1)) := rfl

theorem ka_range_loop (h : NumDisp rec) (hi step : Num) (f1 f2 : Nat) (c : Num) (racc : List Val)
    (h1 : (pyWhile f1 (racc.reverse, Val.num c) (krCond rec (.num hi)) (krBody rec (.num step)) >>= fun st => pure (Val.arr st.1))
        ≠ .error .fuel)
    (h2 : kaRangeLoop rec hi step f2 c racc ≠ .error (.unmodelled "huge range")) :
    (pyWhile f1 (racc.reverse, Val.num c) (krCond rec (.num hi)) (krBody rec (.num step)) >>= fun st => pure (Val.arr st.1))
      = kaRangeLoop rec hi step f2 c racc := by
  induction f1 generalizing f2 c racc with
  | zero => exact absurd rfl h1
  | succ f1 ih =>
    cases f2 with
    | zero => exact absurd rfl h2
    | succ f2 =>
      simp only [pyWhile, kaRangeLoop, krCond, krBody, h.c2 "<=" _ _ (by decide), h.c2 "<" _ _ (by decide), h.c2 "+" _ _ (by decide),
        bind_assoc, ok_bind, pure_bind, pyTruthy, pure_def] at h1 h2 ⊢
      cases hle : rnum rec "<=" [c, hi] with
      | error e => simp only [hle, error_bind]
      | ok r =>
        simp only [hle, ok_bind] at h1 h2 ⊢
        cases ht : truthy r with
        | false => simp only [ht, Bool.false_eq_true, if_false, ok_bind, pure_def]
        | true =>
          simp only [ht, if_true] at h1 h2 ⊢
          cases hadd : rnum rec "+" [c, step] with
          | error e => simp only [hadd, error_bind]
          | ok nx =>
            simp only [hadd, ok_bind] at h1 h2 ⊢
            cases hg : rnum rec "<" [c, nx] with
            | error e => simp only [hg, error_bind]
            | ok g =>
              simp only [hg, ok_bind] at h1 h2 ⊢
              cases htg : truthy g with
              | false => simp only [htg, Bool.not_false, if_true, pyRaise_def, raise_def, error_bind]
              | true =>
                simp only [htg, Bool.not_true, Bool.false_eq_true, if_false, ok_bind] at h1 h2 ⊢
                have hrev : racc.reverse ++ [Val.num c] = (Val.num c :: racc).reverse := by simp
                rw [hrev] at h1 ⊢
                exact ih f2 nx (Val.num c :: racc) h1 h2


/-- **`range(lo, hi, step)`**: the body translated from the source (with any round bound `fuel` for its `while`) and the
    hand-written `bKaRange` give the same answer — the two guards, the list, FunctionArgError for a round without
    progress, an error of `dispatch` — unless one of them stops at its OWN bound (the translated loop after `fuel`
    rounds: `.fuel`; the hand-written one: `unmodelled "huge range"`, before the loop for a nominal length beyond
    `maxRange` or after `kaRangeFuel` rounds) -/
theorem ka_range_agree (h : NumDisp rec) (fuel : Nat) (lo hi step : Num)
    (h1 : ka_range fuel rec (.num lo) (.num hi) (.num step) ≠ .error .fuel)
    (h2 : bKaRange rec [.num lo, .num hi, .num step] ≠ .error (.unmodelled "huge range")) :
    ka_range fuel rec (.num lo) (.num hi) (.num step) = bKaRange rec [.num lo, .num hi, .num step] := by
  rw [ka_range_unfold] at h1 ⊢
  simp only [bKaRange, PyRt.pyInt, h.c2 "<=" _ _ (by decide), h.c2 "<" _ _ (by decide), bind_assoc, ok_bind, pyTruthy,
    pyRaise_def, raise_def] at h1 h2 ⊢
  cases h0 : rnum rec "<" [.int 0, step] with
  | error e => simp only [h0, error_bind]
  | ok r0 =>
    simp only [h0, ok_bind] at h1 h2 ⊢
    cases ht0 : truthy r0 with
    | false => simp only [ht0, Bool.not_false, if_true]
    | true =>
      simp only [ht0, Bool.not_true, Bool.false_eq_true, if_false] at h1 h2 ⊢
      cases hl : rnum rec "<=" [lo, hi] with
      | error e => simp only [hl, error_bind]
      | ok r1 =>
        simp only [hl, ok_bind] at h1 h2 ⊢
        cases ht1 : truthy r1 with
        | false => simp only [ht1, Bool.not_false, if_true]
        | true =>
          simp only [ht1, Bool.not_true, Bool.false_eq_true, if_false] at h1 h2 ⊢
          by_cases hng : ((hi.toRat - lo.toRat) / step.toRat).floor.toNat + 3 > maxRange
          · simp only [hng, if_true] at h2; exact absurd rfl h2
          · simp only [hng, if_false] at h2 ⊢
            exact ka_range_loop h hi step fuel _ lo [] h1 h2

end KaRange


/-! ### `NumDisp` holds for the real dispatcher -/

/-- the answer is a number whenever there is one -/
def NumResult (r : R Val) : Prop := ∀ v, r = .ok v → ∃ n, v = .num n

theorem numResult_error (e : EvalErr) : NumResult (.error e) := by
  intro v hv; cases hv
theorem numResult_bad : NumResult bad := numResult_error _
theorem numResult_num (n : Num) : NumResult (.ok (.num n)) := by
  intro v hv; cases hv; exact ⟨n, rfl⟩
theorem numResult_map (x : R Num) : NumResult (Except.map .num x) := by
  intro v hv
  cases x with
  | error e => cases hv
  | ok n => cases hv; exact ⟨n, rfl⟩

/-- the bodies Ka registers on plain numbers -/
def isNumCode : BodyCode → Bool
  | .lin _ | .trueDiv | .fracDiv | .mod | .pow | .cmp _ | .fn1 _ | .log2args | .varMax | .varMin => true
  | _ => false

theorem numCode_run (c : BodyCode) (hc : isNumCode c = true) (rec : Disp) (args : List Val) : NumResult (c.run rec args) := by
  cases c <;> simp only [isNumCode, Bool.false_eq_true] at hc <;>
    simp only [BodyCode.run, bNum2, bNum1, bFracDiv, bPow, bCmp, bVarMax, bVarMin, b2v] <;>
    (repeat' split) <;>
    first
      | exact numResult_bad
      | exact numResult_map _
      | exact numResult_num _
      | exact numResult_error _

/-- all tuples of the three numeric classes -/
def classTuples : Nat → List (List Nat)
  | 0 => [[]]
  | n + 1 => kinds3.flatMap (fun c => (classTuples n).map (fun t => c :: t))

theorem classTuples_mem (xs : List Num) : (xs.map Val.num).map classOf ∈ classTuples xs.length := by
  induction xs with
  | nil => simp [classTuples]
  | cons x xs ih =>
    simp only [List.map_cons, List.length_cons, classTuples, List.mem_flatMap, List.mem_map]
    exact ⟨numClass x, numClass_mem x, _, ih, rfl⟩

/-- **Table fact.**  For every call of `numCalls` and every tuple of numeric classes the generated registry resolves to
    an implementation whose model body is one of the number bodies (or to no modelled body / no signature at all). -/
theorem numCalls_table : ∀ c ∈ numCalls, ∀ t ∈ classTuples c.2,
    (match resolveDesc c.1 t [] with
     | .ok ch => (match ch.code with | some code => isNumCode code | Option.none => true)
     | .error _ => true) = true := by
  decide +kernel

theorem simplifyVal_num (r : Num) : NumResult (simplifyVal (.num r)) := numResult_map _

/-- Ka's dispatcher answers calls on plain numbers with a number (or raises), at every nesting depth -/
theorem numDisp_dispatchV (n : Nat) : NumDisp (fun nm as => dispatchV n nm as []) := by
  intro nm xs hc v hv
  cases n with
  | zero => simp [dispatchV] at hv
  | succ n =>
    have ht := numCalls_table (nm, xs.length) hc _ (classTuples_mem xs)
    simp only [dispatchV, kwIds_nil] at hv
    generalize resolveDesc nm ((xs.map Val.num).map classOf) [] = rd at ht hv
    cases rd with
    | error e => simp [raise] at hv
    | ok ch =>
      obtain ⟨pos, va, desc, code⟩ := ch
      cases code with
      | none => simp at hv
      | some code =>
        simp only at ht hv
        cases hca : coerceArgs pos va (xs.map Val.num) with
        | error e => simp [hca, bind, Except.bind] at hv
        | ok cargs =>
          cases hr : code.run (fun nm as => dispatchV n nm as []) cargs with
          | error e => simp [hca, hr, bind, Except.bind] at hv
          | ok r =>
            obtain ⟨m, rfl⟩ := numCode_run code ht _ _ r hr
            simp only [hca, hr, bind, Except.bind] at hv
            exact simplifyVal_num m v hv

section EvalGInstance
open Parser EvalG

/-! ### `Model/EvalG.lean`'s parameterised evaluator at the hand-written dispatcher IS `Model/Eval.lean`'s -/

/-- unfold both definitions, rewrite the sub-terms by the induction hypotheses; what remains differs only in the names of the
    auxiliary `match` functions the two definitions were compiled to (closed by `rfl`) -/
syntax "inst_tac" "[" Lean.Parser.Tactic.simpLemma,* "]" : tactic
macro_rules
  | `(tactic| inst_tac [$ls,*]) => `(tactic| ((try simp only [$ls,*]); (try rfl)))

mutual
theorem evalEW_top : (t : Ast) → ∀ env : Env, evalEW dispatchTop env t = evalE env t
  | .num _ => fun _ => by inst_tac [evalEW, evalE]
  | .str _ => fun _ => by inst_tac [evalEW, evalE]
  | .inst _ => fun _ => by inst_tac [evalEW, evalE]
  | .var _ => fun _ => by inst_tac [evalEW, evalE]
  | .bin o l r => fun env => by inst_tac [evalEW, evalE, evalEW_top l, evalEW_top r]
  | .sign neg x => fun env => by inst_tac [evalEW, evalE, evalEW_top x]
  | .fact x => fun env => by inst_tac [evalEW, evalE, evalEW_top x]
  | .range lo hi => fun env => by inst_tac [evalEW, evalE, evalEW_top lo, evalEW_top hi]
  | .interval lo hi => fun env => by inst_tac [evalEW, evalE, evalEW_top lo, evalEW_top hi]
  | .cmp1 o x y => fun env => by inst_tac [evalEW, evalE, evalEW_top x, evalEW_top y]
  | .cmp2 o1 o2 x y z => fun env => by inst_tac [evalEW, evalE, evalEW_top x, evalEW_top y, evalEW_top z]
  | .call name args kws => fun env => by inst_tac [evalEW, evalE, evalEsW_top args, evalKsW_top kws]
  | .quantity t sig => fun env => by inst_tac [evalEW, evalE, evalEW_top t]
  | .convert t sig => fun env => by inst_tac [evalEW, evalE, evalEW_top t]
  | .array xs => fun env => by inst_tac [evalEW, evalE, evalEsW_top xs]
  | .compr body gens conds => fun env => by
    have hb : (fun env' => evalEW dispatchTop env' body) = (fun env' => evalE env' body) := funext (evalEW_top body)
    inst_tac [evalEW, evalE, evalKsW_top gens, evalCondsW_top conds, hb]
  | .assign _ _ => fun _ => by inst_tac [evalEW, evalE]
  | .stmts _ => fun _ => by inst_tac [evalEW, evalE]
theorem evalEsW_top : (ts : List Ast) → ∀ env : Env, evalEsW dispatchTop env ts = evalEs env ts
  | [] => fun _ => by inst_tac [evalEsW, evalEs]
  | t :: ts => fun env => by inst_tac [evalEsW, evalEs, evalEW_top t, evalEsW_top ts]
theorem evalKsW_top : (ts : List (String × Ast)) → ∀ env : Env, evalKsW dispatchTop env ts = evalKs env ts
  | [] => fun _ => by inst_tac [evalKsW, evalKs]
  | (k, t) :: ts => fun env => by inst_tac [evalKsW, evalKs, evalEW_top t, evalKsW_top ts]
theorem evalCondsW_top : (cs : List Ast) → evalCondsW dispatchTop cs = evalConds cs
  | [] => by inst_tac [evalCondsW, evalConds]
  | c :: cs => by
    have hc : (fun env' => evalEW dispatchTop env' c) = (fun env' => evalE env' c) := funext (evalEW_top c)
    inst_tac [evalCondsW, evalConds, hc, evalCondsW_top cs]
end

theorem evalStmtW_top (env : Env) (t : Ast) : evalStmtW dispatchTop env t = evalStmt env t := by
  cases t <;> inst_tac [evalStmtW, evalStmt, evalEW_top]

theorem runStmtsW_top (env : Env) (last : Val) (ss : List Ast) : runStmtsW dispatchTop env last ss = runStmts env last ss := by
  induction ss generalizing env last with
  | nil => rfl
  | cons s rest ih =>
    simp only [runStmtsW, runStmts, evalStmtW_top]
    cases h : evalStmt env s with
    | mk env' r =>
      cases r with
      | ok v => exact ih env' v
      | error e => rfl

theorem runProgramW_top (env : Env) (t : Ast) : runProgramW dispatchTop env t = runProgram env t := by
  cases t <;> inst_tac [runProgramW, runProgram, runStmtsW_top, evalStmtW_top]

theorem evalAstW_top (env : Env) (t : Ast) : evalAstW dispatchTop env t = evalAst env t := by
  inst_tac [evalAstW, evalAst, runProgramW_top]

theorem runTreeW_top (env : Env) (t : Ast) : runTreeW dispatchTop env t = runTree env t := by
  inst_tac [runTreeW, runTree, runProgramW_top]

theorem runTokensW_top (env : Env) (toks : List Token) : runTokensW dispatchTop env toks = runTokens env toks := by
  inst_tac [runTokensW, runTokens, runTreeW_top]

theorem runInW_top (env : Env) (s : List Char) : runInW dispatchTop env s = runIn env s := by
  inst_tac [runInW, runIn, runTokensW_top]

theorem runTextW_top (s : String) : runTextW dispatchTop s = runText s := by
  inst_tac [runTextW, runText, runInW_top]

theorem runSessionW_top (env : Env) (lost : Bool) (ss : List String) :
    runSessionW dispatchTop env lost ss = runSession env lost ss := by
  induction ss generalizing env lost with
  | nil => inst_tac [runSessionW, runSession]
  | cons s rest ih =>
    inst_tac [runSessionW, runSession, runInW_top, ih]

end EvalGInstance

end KaVerif.Bodies
