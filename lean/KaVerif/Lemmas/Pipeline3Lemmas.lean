import KaVerif.Lemmas.Pipeline2Lemmas
import KaVerif.Lemmas.NumLemmas
import KaVerif.Model.Instant
import KaVerif.Model.Prob
import KaVerif.Gen.ProbTable
/-
  Helper lemmas for Props/Pipeline3.lean: instants and probability inside the unified pipeline model
  (`Model/Eval.lean`).  Table facts are kernel `decide`s over the generated registry; the `dispatch_*`
  lemmas show that `dispatch` on instants / random variables / events runs the bodies of
  `Model/Instant.lean` / `Model/Prob.lean`.
-/
set_option linter.unusedSimpArgs false
set_option linter.ambiguousOpen false

namespace KaVerif.Pipe3
open KaVerif Num Parser Eval Pipe2

/-! ### declared types and value classes of the registry -/

def tInst : Nat := Gen.Registry.typeNames.idxOf "Instant"
def tRV : Nat := Gen.Registry.typeNames.idxOf "RandomVariable"
def tDRV : Nat := Gen.Registry.typeNames.idxOf "DiscreteRandomVariable"
def tEvent : Nat := Gen.Registry.typeNames.idxOf "Event"
def tDEvent : Nat := Gen.Registry.typeNames.idxOf "DoubleEvent"

def cBinomial : Nat := Gen.Registry.classNames.idxOf "Binomial"
def cPoisson : Nat := Gen.Registry.classNames.idxOf "Poisson"
def cGeometric : Nat := Gen.Registry.classNames.idxOf "Geometric"
def cBernoulli : Nat := Gen.Registry.classNames.idxOf "Bernoulli"
def cUniformInt : Nat := Gen.Registry.classNames.idxOf "UniformInt"
def cExponential : Nat := Gen.Registry.classNames.idxOf "Exponential"
def cUniform : Nat := Gen.Registry.classNames.idxOf "Uniform"
def cGaussian : Nat := Gen.Registry.classNames.idxOf "Gaussian"

/-- the classes of the discrete / of all random variables -/
def discClasses : List Nat := [cBinomial, cPoisson, cGeometric, cBernoulli, cUniformInt]
def rvClasses : List Nat := discClasses ++ [cExponential, cUniform, cGaussian]

/-! ### instants: the registry -/

/-- **Table fact (instants, one argument).** `floor`, `ceil` and the six field accessors on an Instant. -/
theorem inst_table1 :
    (resolveDesc "floor" [cInst] []).toOption = some (chP [tInst] "floor|(Instant)|ka.types.floor_instant" .instFloor) ∧
    (resolveDesc "ceil" [cInst] []).toOption = some (chP [tInst] "ceil|(Instant)|ka.types.ceil_instant" .instCeil) ∧
    (resolveDesc "year" [cInst] []).toOption = some (chP [tInst] "year|(Instant)|ka.types.get_year" (.instField .year)) ∧
    (resolveDesc "month" [cInst] []).toOption = some (chP [tInst] "month|(Instant)|ka.types.get_month" (.instField .month)) ∧
    (resolveDesc "day" [cInst] []).toOption = some (chP [tInst] "day|(Instant)|ka.types.get_day" (.instField .day)) ∧
    (resolveDesc "hour" [cInst] []).toOption = some (chP [tInst] "hour|(Instant)|ka.types.get_hour" (.instField .hour)) ∧
    (resolveDesc "minute" [cInst] []).toOption = some (chP [tInst] "minute|(Instant)|ka.types.get_minute" (.instField .minute)) ∧
    (resolveDesc "second" [cInst] []).toOption = some (chP [tInst] "second|(Instant)|ka.types.get_second" (.instField .second)) := by
  decide +kernel

/-- **Table fact (instants, arithmetic).** `I - J`, `I ± q`, `q + I`, `I ± n`, `n + I`. -/
theorem inst_table2 :
    (resolveDesc "-" [cInst, cInst] []).toOption = some (chP [tInst, tInst] "-|(Instant, Instant)|ka.types.instant_minus_instant" .instSub) ∧
    (resolveDesc "+" [cInst, cQty] []).toOption = some (chP [tInst, tQty] "+|(Instant, Quantity)|ka.types.instant_plus_quantity" (.instQty true)) ∧
    (resolveDesc "+" [cQty, cInst] []).toOption = some (chP [tQty, tInst]
      "+|(Quantity, Instant)|ka.functions.register_commutative_op.<locals>.reverse_f[ka.types.instant_plus_quantity]" (.rev (.instQty true))) ∧
    (resolveDesc "-" [cInst, cQty] []).toOption = some (chP [tInst, tQty] "-|(Instant, Quantity)|ka.types.instant_minus_quantity" (.instQty false)) ∧
    (resolveDesc "+" [cInst, cInt] []).toOption = some (chP [tInst, tInt] "+|(Instant, Integral)|ka.types.instant_plus_int" (.instInt true)) ∧
    (resolveDesc "+" [cInt, cInst] []).toOption = some (chP [tInt, tInst]
      "+|(Integral, Instant)|ka.functions.register_commutative_op.<locals>.reverse_f[ka.types.instant_plus_int]" (.rev (.instInt true))) ∧
    (resolveDesc "-" [cInst, cInt] []).toOption = some (chP [tInst, tInt] "-|(Instant, Integral)|ka.types.instant_minus_int" (.instInt false)) := by
  decide +kernel

/-- **Table fact (instants, comparisons).** The six comparisons on two Instants reach the `intify`
    wrappers of `instant_lt` … and of `operator.eq / ne` (not the `(Any, Any)` catch-alls). -/
theorem inst_table_cmp :
    (resolveDesc "<" [cInst, cInst] []).toOption = some (chP [tInst, tInst] "<|(Instant, Instant)|ka.functions.intify.<locals>.f_new[ka.types.instant_lt]" (.instCmp .lt)) ∧
    (resolveDesc "<=" [cInst, cInst] []).toOption = some (chP [tInst, tInst] "<=|(Instant, Instant)|ka.functions.intify.<locals>.f_new[ka.types.instant_leq]" (.instCmp .le)) ∧
    (resolveDesc ">" [cInst, cInst] []).toOption = some (chP [tInst, tInst] ">|(Instant, Instant)|ka.functions.intify.<locals>.f_new[ka.types.instant_gt]" (.instCmp .gt)) ∧
    (resolveDesc ">=" [cInst, cInst] []).toOption = some (chP [tInst, tInst] ">=|(Instant, Instant)|ka.functions.intify.<locals>.f_new[ka.types.instant_geq]" (.instCmp .ge)) ∧
    (resolveDesc "==" [cInst, cInst] []).toOption = some (chP [tInst, tInst] "==|(Instant, Instant)|ka.functions.intify.<locals>.f_new[_operator.eq]" (.instCmp .eq)) ∧
    (resolveDesc "!=" [cInst, cInst] []).toOption = some (chP [tInst, tInst] "!=|(Instant, Instant)|ka.functions.intify.<locals>.f_new[_operator.ne]" (.instCmp .ne)) := by
  decide +kernel

/-! ### instants: `dispatch` runs the `Instant` fragment -/

/-- an instant-valued result of the `Instant` fragment, as a value of the unified evaluator -/
def liftI (r : Except Err Instant.Inst) : R Val := (liftE r).map .inst

theorem bind_simplify_inst (r : Except Err Instant.Inst) :
    ((liftE r |>.map Val.inst) >>= simplifyVal) = liftI r := by
  cases r <;> rfl

theorem dispatch_floor (n : Nat) (i : Instant.Inst) :
    dispatchV (n + 1) "floor" [.inst i] [] = liftI (Instant.floorInstant i) := by
  rw [step1 (a := .inst i) inst_table1.1 rfl]
  exact bind_simplify_inst _

theorem dispatch_ceil (n : Nat) (i : Instant.Inst) :
    dispatchV (n + 1) "ceil" [.inst i] [] = liftI (Instant.ceilInstant i) := by
  rw [step1 (a := .inst i) inst_table1.2.1 rfl]
  exact bind_simplify_inst _

/-- registered name of a field accessor -/
def fieldName : InstField → String
  | .year => "year" | .month => "month" | .day => "day" | .hour => "hour" | .minute => "minute" | .second => "second"

theorem dispatch_field (n : Nat) (f : InstField) (i : Instant.Inst) :
    dispatchV (n + 1) (fieldName f) [.inst i] [] = .ok (.num (.int (f.get i))) := by
  obtain ⟨_, _, h3, h4, h5, h6, h7, h8⟩ := inst_table1
  cases f
  · rw [fieldName, step1 (a := .inst i) h3 rfl]; rfl
  · rw [fieldName, step1 (a := .inst i) h4 rfl]; rfl
  · rw [fieldName, step1 (a := .inst i) h5 rfl]; rfl
  · rw [fieldName, step1 (a := .inst i) h6 rfl]; rfl
  · rw [fieldName, step1 (a := .inst i) h7 rfl]; rfl
  · rw [fieldName, step1 (a := .inst i) h8 rfl]; rfl

/-- the elapsed time as the unified evaluator delivers it: `Quantity(seconds, SECONDS)` -/
def liftSecs (r : Except Err Num) : R Val := (liftE r).map (fun m => .qty m secondsDim)

theorem instantMinusInstant_idem (a b : Instant.Inst) (m : Num) (h : Instant.instantMinusInstant a b = .ok m) :
    simplify m = .ok m := simplify_idem h

theorem dispatch_inst_sub (n : Nat) (a b : Instant.Inst) :
    dispatchV (n + 1) "-" [.inst a, .inst b] [] = liftSecs (Instant.instantMinusInstant a b) := by
  rw [step2 (a := .inst a) (b := .inst b) inst_table2.1 rfl rfl]
  simp only [BodyCode.run, bInstSub, liftSecs]
  cases h : Instant.instantMinusInstant a b with
  | error e => rfl
  | ok m =>
    simp only [liftE, Except.map, bind, Except.bind, simplifyVal, instantMinusInstant_idem a b m h]

theorem dispatch_inst_plus_qty (n : Nat) (i : Instant.Inst) (m : Num) (d : List Int) :
    dispatchV (n + 1) "+" [.inst i, .qty m d] [] = liftI (Instant.instantPlusQuantity i m (dimRat d)) := by
  rw [step2 (a := .inst i) (b := .qty m d) inst_table2.2.1 rfl rfl]
  exact bind_simplify_inst _

theorem dispatch_qty_plus_inst (n : Nat) (i : Instant.Inst) (m : Num) (d : List Int) :
    dispatchV (n + 1) "+" [.qty m d, .inst i] [] = liftI (Instant.instantPlusQuantity i m (dimRat d)) := by
  rw [step2 (a := .qty m d) (b := .inst i) inst_table2.2.2.1 rfl rfl]
  exact bind_simplify_inst _

theorem dispatch_inst_minus_qty (n : Nat) (i : Instant.Inst) (m : Num) (d : List Int) :
    dispatchV (n + 1) "-" [.inst i, .qty m d] [] = liftI (Instant.instantMinusQuantity i m (dimRat d)) := by
  rw [step2 (a := .inst i) (b := .qty m d) inst_table2.2.2.2.1 rfl rfl]
  exact bind_simplify_inst _

theorem dispatch_inst_plus_int (n : Nat) (i : Instant.Inst) (k : Int) :
    dispatchV (n + 1) "+" [.inst i, .num (.int k)] [] = liftI (Instant.instantPlusInt i k) := by
  rw [step2 (a := .inst i) (b := .num (.int k)) inst_table2.2.2.2.2.1 rfl rfl]
  exact bind_simplify_inst _

theorem dispatch_int_plus_inst (n : Nat) (i : Instant.Inst) (k : Int) :
    dispatchV (n + 1) "+" [.num (.int k), .inst i] [] = liftI (Instant.instantPlusInt i k) := by
  rw [step2 (a := .num (.int k)) (b := .inst i) inst_table2.2.2.2.2.2.1 rfl rfl]
  exact bind_simplify_inst _

theorem dispatch_inst_minus_int (n : Nat) (i : Instant.Inst) (k : Int) :
    dispatchV (n + 1) "-" [.inst i, .num (.int k)] [] = liftI (Instant.instantMinusInt i k) := by
  rw [step2 (a := .inst i) (b := .num (.int k)) inst_table2.2.2.2.2.2.2 rfl rfl]
  exact bind_simplify_inst _

/-- registered name of an instant comparison -/
def instCmpName : Instant.Cmp → String
  | .lt => "<" | .le => "<=" | .gt => ">" | .ge => ">=" | .eq => "==" | .ne => "!="

/-- the parser's token of an instant comparison -/
def pcmpOfI : Instant.Cmp → PCmp
  | .lt => .lt | .le => .leq | .gt => .gt | .ge => .geq | .eq => .eq | .ne => .neq

theorem spelling_pcmpOfI (op : Instant.Cmp) : (pcmpOfI op).spelling = instCmpName op := by
  cases op <;> rfl

theorem simplify_cmpReg (op : Instant.Cmp) (a b : Instant.Inst) :
    simplify (Instant.cmpReg op a b) = .ok (Instant.cmpReg op a b) := rfl

theorem dispatch_inst_cmp (n : Nat) (op : Instant.Cmp) (a b : Instant.Inst) :
    dispatchV (n + 1) (instCmpName op) [.inst a, .inst b] [] = .ok (.num (Instant.cmpReg op a b)) := by
  obtain ⟨h1, h2, h3, h4, h5, h6⟩ := inst_table_cmp
  cases op
  · rw [instCmpName, step2 (a := .inst a) (b := .inst b) h1 rfl rfl]; rfl
  · rw [instCmpName, step2 (a := .inst a) (b := .inst b) h2 rfl rfl]; rfl
  · rw [instCmpName, step2 (a := .inst a) (b := .inst b) h3 rfl rfl]; rfl
  · rw [instCmpName, step2 (a := .inst a) (b := .inst b) h4 rfl rfl]; rfl
  · rw [instCmpName, step2 (a := .inst a) (b := .inst b) h5 rfl rfl]; rfl
  · rw [instCmpName, step2 (a := .inst a) (b := .inst b) h6 rfl rfl]; rfl

/-- `a > b` is `b < a`, `a >= b` is `b <= a` (what the parser's flipping relies on) -/
theorem cmpReg_flip (a b : Instant.Inst) :
    Instant.cmpReg .gt a b = Instant.cmpReg .lt b a ∧ Instant.cmpReg .ge a b = Instant.cmpReg .le b a := ⟨rfl, rfl⟩

/-- a comparison of two instants as the parser builds it (`make_comparison_node`) -/
theorem evalE_mkCmp1_inst (env : Env) (op : Instant.Cmp) (A B : Ast) (a b : Instant.Inst)
    (hA : evalE env A = .ok (.inst a)) (hB : evalE env B = .ok (.inst b)) :
    evalE env (mkCmp1 (pcmpOfI op) A B) = .ok (.num (Instant.cmpReg op a b)) := by
  cases op
  case gt =>
    simp only [mkCmp1, pcmpOfI, PCmp.backward, PCmp.forward, PCmp.flip, Bool.not_false, Bool.and_true, if_true,
      evalE, hA, hB, bind, Except.bind, cmpName]
    exact dispatch_inst_cmp _ .lt b a
  case ge =>
    simp only [mkCmp1, pcmpOfI, PCmp.backward, PCmp.forward, PCmp.flip, Bool.not_false, Bool.and_true, if_true,
      evalE, hA, hB, bind, Except.bind, cmpName]
    exact dispatch_inst_cmp _ .le b a
  case lt =>
    simp only [mkCmp1, pcmpOfI, PCmp.backward, PCmp.forward, Bool.false_and, Bool.false_eq_true, if_false,
      Bool.not_true, Bool.and_false, evalE, hA, hB, bind, Except.bind, cmpName]
    exact dispatch_inst_cmp _ .lt a b
  case le =>
    simp only [mkCmp1, pcmpOfI, PCmp.backward, PCmp.forward, Bool.false_and, Bool.false_eq_true, if_false,
      Bool.not_true, Bool.and_false, evalE, hA, hB, bind, Except.bind, cmpName]
    exact dispatch_inst_cmp _ .le a b
  case eq =>
    simp only [mkCmp1, pcmpOfI, PCmp.backward, PCmp.forward, Bool.false_and, Bool.false_eq_true, if_false,
      Bool.not_true, Bool.and_false, evalE, hA, hB, bind, Except.bind, cmpName]
    exact dispatch_inst_cmp _ .eq a b
  case ne =>
    simp only [mkCmp1, pcmpOfI, PCmp.backward, PCmp.forward, Bool.false_and, Bool.false_eq_true, if_false,
      Bool.not_true, Bool.and_false, evalE, hA, hB, bind, Except.bind, cmpName]
    exact dispatch_inst_cmp _ .ne a b


/-! ### probability: the registry -/

/-- **Table fact (distribution constructors).**  Each constructor name resolves, on every numeric kind
    its signature admits, to the constructor of `ka.probability` under which `implTable` holds the
    model body; a count that is not an int (`Binomial`'s `n`, `Poisson`'s `mu`, `UniformInt`'s bounds)
    is refused by the signature: NoMatchingFunctionSignatureError. -/
theorem rv_table_ctor : ∀ a ∈ kinds3, ∀ b ∈ kinds3,
    (resolveDesc "Binomial" [cInt, a] []).toOption = some (chP [tInt, tNum] "Binomial|(Integral, Number)|ka.probability.Binomial" (.mkRv .binomial)) ∧
    (resolveDesc "Poisson" [cInt] []).toOption = some (chP [tInt] "Poisson|(Integral)|ka.probability.Poisson" (.mkRv .poisson)) ∧
    (resolveDesc "Geometric" [a] []).toOption = some (chP [tNum] "Geometric|(Number)|ka.probability.Geometric" (.mkRv .geometric)) ∧
    (resolveDesc "Bernoulli" [a] []).toOption = some (chP [tNum] "Bernoulli|(Number)|ka.probability.Bernoulli" (.mkRv .bernoulli)) ∧
    (resolveDesc "UniformInt" [cInt, cInt] []).toOption = some (chP [tInt, tInt] "UniformInt|(Integral, Integral)|ka.probability.UniformInt" (.mkRv .uniformInt)) ∧
    (resolveDesc "Exponential" [a] []).toOption = some (chP [tNum] "Exponential|(Number)|ka.probability.Exponential" (.mkRv .exponential)) ∧
    (resolveDesc "Uniform" [a, b] []).toOption = some (chP [tNum, tNum] "Uniform|(Number, Number)|ka.probability.Uniform" (.mkRv .uniform)) ∧
    (resolveDesc "Gaussian" [a, b] []).toOption = some (chP [tNum, tNum] "Gaussian|(Number, Number)|ka.probability.Gaussian" (.mkRv .gaussian)) ∧
    (a ≠ cInt → errOf (resolveDesc "Binomial" [a, b] []) = some .noMatch ∧ errOf (resolveDesc "Poisson" [a] []) = some .noMatch ∧
      errOf (resolveDesc "UniformInt" [a, b] []) = some .noMatch ∧ errOf (resolveDesc "UniformInt" [b, a] []) = some .noMatch) := by
  decide +kernel

/-- **Table fact (`E`, `mean`, `P`).** -/
theorem rv_table_mean : ∀ c ∈ rvClasses,
    (resolveDesc "E" [c] []).toOption = some (chP [tRV]
      "E|(RandomVariable)|ka.functions.<lambda:register_function(lambda rv: rv.mean(), \"E\", (RandomVariable,), \"Expectation of a random variable.\")>" .rvMean) ∧
    (resolveDesc "mean" [c] []).toOption = some (chP [tRV]
      "mean|(RandomVariable)|ka.functions.<lambda:register_function(lambda rv: rv.mean(), \"mean\", (RandomVariable,), \"Get the mean of a random variable.\")>" .rvMean) := by
  decide +kernel

theorem prob_table :
    (resolveDesc "P" [cEvent] []).toOption = some (chP [tEvent]
      "P|(Event)|ka.functions.<lambda:register_function(lambda event: event.probability(), \"P\", (etype,), \"Evaluate the probability of an event.\")>" .prob) ∧
    (resolveDesc "P" [cDEvent] []).toOption = some (chP [tDEvent]
      "P|(DoubleEvent)|ka.functions.<lambda:register_function(lambda event: event.probability(), \"P\", (etype,), \"Evaluate the probability of an event.\")>" .prob) := by
  decide +kernel

/-- **Table fact (single events).**  `<` and `<=` between a number of any kind and a random variable
    of any of the eight classes, in both orders, reach `make_event_fun(op)`. -/
theorem event_table1 : ∀ a ∈ kinds3, ∀ c ∈ rvClasses,
    (resolveDesc "<" [c, a] []).toOption = some (chP [tRV, tNum] "<|(RandomVariable, Number)|ka.functions.make_event_fun.<locals>.event_fun['<']" (.event1 .lt)) ∧
    (resolveDesc "<" [a, c] []).toOption = some (chP [tNum, tRV] "<|(Number, RandomVariable)|ka.functions.make_event_fun.<locals>.event_fun['<']" (.event1 .lt)) ∧
    (resolveDesc "<=" [c, a] []).toOption = some (chP [tRV, tNum] "<=|(RandomVariable, Number)|ka.functions.make_event_fun.<locals>.event_fun['<=']" (.event1 .le)) ∧
    (resolveDesc "<=" [a, c] []).toOption = some (chP [tNum, tRV] "<=|(Number, RandomVariable)|ka.functions.make_event_fun.<locals>.event_fun['<=']" (.event1 .le)) := by
  decide +kernel

/-- **Table fact (`X = k`).**  Registered for a discrete variable and an int only; a continuous variable,
    a non-integral threshold or the variable on the right have no signature. -/
theorem event_table_eq :
    (∀ c ∈ discClasses, (resolveDesc "=" [c, cInt] []).toOption = some (chP [tDRV, tInt]
      "=|(DiscreteRandomVariable, Integral)|ka.functions.<lambda:register_function(lambda x, y: Event(ComparisonOp.EQ, x, y), ComparisonOp.EQ, (DiscreteRandomVariable, Integral), \"Compa>" (.event1 .eq))) ∧
    (∀ c ∈ rvClasses, ∀ a ∈ kinds3, errOf (resolveDesc "=" [a, c] []) = some .noMatch ∧
      (a ≠ cInt → errOf (resolveDesc "=" [c, a] []) = some .noMatch)) ∧
    (∀ c ∈ [cExponential, cUniform, cGaussian], errOf (resolveDesc "=" [c, cInt] []) = some .noMatch) := by
  decide +kernel

/-- **Table fact (double events).**  The four forward chains on (number, random variable, number). -/
theorem event_table2 : ∀ a ∈ kinds3, ∀ c ∈ rvClasses, ∀ b ∈ kinds3,
    (resolveDesc "<_<" [a, c, b] []).toOption = some (chP [tNum, tRV, tNum] "<_<|(Number, RandomVariable, Number)|ka.functions.make_double_event_fun.<locals>.event_fun['<','<']" (.event2 .lt .lt)) ∧
    (resolveDesc "<_<=" [a, c, b] []).toOption = some (chP [tNum, tRV, tNum] "<_<=|(Number, RandomVariable, Number)|ka.functions.make_double_event_fun.<locals>.event_fun['<','<=']" (.event2 .lt .le)) ∧
    (resolveDesc "<=_<" [a, c, b] []).toOption = some (chP [tNum, tRV, tNum] "<=_<|(Number, RandomVariable, Number)|ka.functions.make_double_event_fun.<locals>.event_fun['<=','<']" (.event2 .le .lt)) ∧
    (resolveDesc "<=_<=" [a, c, b] []).toOption = some (chP [tNum, tRV, tNum] "<=_<=|(Number, RandomVariable, Number)|ka.functions.make_double_event_fun.<locals>.event_fun['<=','<=']" (.event2 .le .le)) := by
  decide +kernel

/-- the mixed chains (`a < X > b` …) are not registered names at all -/
theorem event_table_mixed :
    ∀ nm ∈ ["<_>", "<_>=", "<=_>", "<=_>=", ">_<", ">_<=", ">=_<", ">=_<="], ∀ a ∈ kinds3, ∀ c ∈ rvClasses, ∀ b ∈ kinds3,
      errOf (resolveDesc nm [a, c, b] []) = some .unknownFunction := by
  decide +kernel

theorem classOf_rv_mem (x : RV) : classOf (.rv x) ∈ rvClasses := by
  obtain ⟨law, ps⟩ := x
  cases law with
  | disc d => cases d <;> simp [classOf, RV.className, rvClasses, discClasses, cBinomial, cPoisson, cGeometric, cBernoulli, cUniformInt]
  | cont d => cases d <;> simp [classOf, RV.className, rvClasses, discClasses, cExponential, cUniform, cGaussian]

theorem classOf_disc_mem (d : Prob.Dist) (ps : List Num) : classOf (.rv ⟨.disc d, ps⟩) ∈ discClasses := by
  cases d <;> simp [classOf, RV.className, discClasses, cBinomial, cPoisson, cGeometric, cBernoulli, cUniformInt]


/-! ### probability: `dispatch` runs the `Prob` fragment -/

theorem step3 {n : Nat} {name : String} {a b c : Val} {t1 t2 t3 : Nat} {desc : String} {code : BodyCode}
    (h : (resolveDesc name [classOf a, classOf b, classOf c] []).toOption = some (chP [t1, t2, t3] desc code))
    (ha : notComb a = true) (hb : notComb b = true) (hc : notComb c = true) :
    dispatchV (n + 1) name [a, b, c] [] = (code.run (fun nm as => dispatchV n nm as []) [a, b, c] >>= simplifyVal) := by
  rw [dispatchV_step (c := chP [t1, t2, t3] desc code) (code := code) (by simpa using h) rfl]
  simp only [chP, coerceArgs_3 t1 t2 t3 a b c ha hb hc, bind, Except.bind]

theorem nums?_map (ps : List Num) : nums? (ps.map Val.num) = some ps := by
  induction ps with
  | nil => rfl
  | cons p ps ih => simp [nums?, ih]

/-- what a distribution constructor answers on numeric arguments: the random variable whose law
    (`mkLaw`: the `Prob` fragment's `Dist` / `CDist`) passes the fragment's parameter check, or
    InvalidParameterException — before any object exists -/
def mkRvResult (k : RvKind) (ps : List Num) : R Val :=
  match mkLaw k ps with
  | some law => if law.valid then .ok (.rv ⟨law, ps⟩) else .error (.err .invalidParam)
  | none => bad

theorem bMkRv_nums (k : RvKind) (rec : Disp) (ps : List Num) (hf : ps.all Num.finite = true) :
    (bMkRv k rec (ps.map Val.num) >>= simplifyVal) = mkRvResult k ps := by
  simp only [bMkRv, nums?_map, hf, Bool.not_true, Bool.false_eq_true, if_false, mkRvResult]
  cases mkLaw k ps with
  | none => rfl
  | some law => by_cases h : law.valid = true <;> simp [h, raise, bind, Except.bind, simplifyVal]

theorem dispatch_ctor1 (n : Nat) (k : RvKind) (name desc : String) (t1 : Nat) (p : Num) (hp : p.finite = true)
    (h : (resolveDesc name [numClass p] []).toOption = some (chP [t1] desc (.mkRv k))) :
    dispatchV (n + 1) name [.num p] [] = mkRvResult k [p] := by
  rw [step1 (a := .num p) h rfl]
  exact bMkRv_nums k _ [p] (by simp [hp])

theorem dispatch_ctor2 (n : Nat) (k : RvKind) (name desc : String) (t1 t2 : Nat) (p q : Num)
    (hp : p.finite = true) (hq : q.finite = true)
    (h : (resolveDesc name [numClass p, numClass q] []).toOption = some (chP [t1, t2] desc (.mkRv k))) :
    dispatchV (n + 1) name [.num p, .num q] [] = mkRvResult k [p, q] := by
  rw [step2 (a := .num p) (b := .num q) h rfl rfl]
  exact bMkRv_nums k _ [p, q] (by simp [hp, hq])

/-- `E(X)` / `mean(X)`: the `Prob` fragment's mean, delivered in Python's kind, after `simplify_type` -/
def meanResult (x : RV) : R Val := liftN (simplify (deliver x.meanFloat x.mean))

theorem dispatch_mean_rv (n : Nat) (x : RV) :
    dispatchV (n + 1) "E" [.rv x] [] = meanResult x ∧ dispatchV (n + 1) "mean" [.rv x] [] = meanResult x := by
  obtain ⟨h1, h2⟩ := rv_table_mean _ (classOf_rv_mem x)
  constructor
  · rw [step1 (a := .rv x) h1 rfl]
    simp only [BodyCode.run, bMean, bind, Except.bind, simplifyVal, meanResult]
    cases simplify (deliver x.meanFloat x.mean) <;> rfl
  · rw [step1 (a := .rv x) h2 rfl]
    simp only [BodyCode.run, bMean, bind, Except.bind, simplifyVal, meanResult]
    cases simplify (deliver x.meanFloat x.mean) <;> rfl

/-- registered name of a forward comparison of the `Prob` fragment -/
def opName : Prob.Op → String
  | .le => "<=" | .lt => "<" | .gt => ">" | .ge => ">=" | .eq => "="

/-- the parser's token of a comparison of the `Prob` fragment -/
def pcmpOfP : Prob.Op → PCmp
  | .le => .leq | .lt => .lt | .gt => .gt | .ge => .geq | .eq => .asg

theorem spelling_pcmpOfP (op : Prob.Op) : (pcmpOfP op).spelling = opName op := by cases op <;> rfl

theorem dispatch_event_left (n : Nat) (op : Prob.Op) (hop : op = .lt ∨ op = .le) (x : RV) (t : Num) :
    dispatchV (n + 1) (opName op) [.rv x, .num t] [] = .ok (.event [op] 0 x [t]) := by
  obtain ⟨h1, _, h3, _⟩ := event_table1 _ (numClass_mem t) _ (classOf_rv_mem x)
  rcases hop with rfl | rfl
  · rw [opName, step2 (a := .rv x) (b := .num t) h1 rfl rfl]; rfl
  · rw [opName, step2 (a := .rv x) (b := .num t) h3 rfl rfl]; rfl

theorem dispatch_event_right (n : Nat) (op : Prob.Op) (hop : op = .lt ∨ op = .le) (x : RV) (t : Num) :
    dispatchV (n + 1) (opName op) [.num t, .rv x] [] = .ok (.event [op] 1 x [t]) := by
  obtain ⟨_, h2, _, h4⟩ := event_table1 _ (numClass_mem t) _ (classOf_rv_mem x)
  rcases hop with rfl | rfl
  · rw [opName, step2 (a := .num t) (b := .rv x) h2 rfl rfl]; rfl
  · rw [opName, step2 (a := .num t) (b := .rv x) h4 rfl rfl]; rfl

theorem dispatch_event_eq (n : Nat) (d : Prob.Dist) (ps : List Num) (k : Int) :
    dispatchV (n + 1) "=" [.rv ⟨.disc d, ps⟩, .num (.int k)] [] = .ok (.event [.eq] 0 ⟨.disc d, ps⟩ [.int k]) := by
  rw [step2 (a := .rv ⟨.disc d, ps⟩) (b := .num (.int k)) (event_table_eq.1 _ (classOf_disc_mem d ps)) rfl rfl]; rfl

/-- registered name of a double comparison -/
def opName2 (o1 o2 : Prob.Op) : String := opName o1 ++ "_" ++ opName o2

theorem dispatch_event2 (n : Nat) (o1 o2 : Prob.Op) (h1 : o1 = .lt ∨ o1 = .le) (h2 : o2 = .lt ∨ o2 = .le)
    (a b : Num) (x : RV) :
    dispatchV (n + 1) (opName2 o1 o2) [.num a, .rv x, .num b] [] = .ok (.event [o1, o2] 1 x [a, b]) := by
  obtain ⟨t1, t2, t3, t4⟩ := event_table2 _ (numClass_mem a) _ (classOf_rv_mem x) _ (numClass_mem b)
  rcases h1 with rfl | rfl <;> rcases h2 with rfl | rfl
  · rw [show opName2 .lt .lt = "<_<" from rfl, step3 (a := .num a) (b := .rv x) (c := .num b) t1 rfl rfl rfl]; rfl
  · rw [show opName2 .lt .le = "<_<=" from rfl, step3 (a := .num a) (b := .rv x) (c := .num b) t2 rfl rfl rfl]; rfl
  · rw [show opName2 .le .lt = "<=_<" from rfl, step3 (a := .num a) (b := .rv x) (c := .num b) t3 rfl rfl rfl]; rfl
  · rw [show opName2 .le .le = "<=_<=" from rfl, step3 (a := .num a) (b := .rv x) (c := .num b) t4 rfl rfl rfl]; rfl

/-- `P(event)` runs `probOfEvent` (then `simplify_type`) -/
theorem dispatch_P (n : Nat) (ops : List Prob.Op) (pos : Nat) (x : RV) (args : List Num)
    (hl : ops.length = 1 ∨ ops.length = 2) :
    dispatchV (n + 1) "P" [.event ops pos x args] [] = (probOfEvent ops pos x args >>= simplifyVal) := by
  rcases hl with hl | hl
  · have hc : classOf (.event ops pos x args) = cEvent := by simp [classOf, hl]
    rw [step1 (a := .event ops pos x args) (by rw [hc]; exact prob_table.1) rfl]; rfl
  · have hc : classOf (.event ops pos x args) = cDEvent := by simp [classOf, hl]
    rw [step1 (a := .event ops pos x args) (by rw [hc]; exact prob_table.2) rfl]; rfl

/-! ### the decision-table entry in Python's numeric tower vs. in the `Prob` fragment -/

/-- the `Prob` fragment's evaluation of a decision-table entry for this variable -/
def evalFrag (x : RV) (terms : List Prob.Term) (e : Prob.PExpr) : Option Rat :=
  match x.law with
  | .disc d => e.evalD d.pmf d.cdf (Prob.envOf terms)
  | .cont d => e.evalC (d.cdf floatFns) (Prob.envOf terms)

theorem evalRow_eq_frag (x : RV) (row : Prob.Row) (terms : List Prob.Term) :
    Prob.evalRow x.probLaw row terms =
      match evalFrag x terms row.expr with
      | some v => .ok v
      | none => .error .typeErr := by
  obtain ⟨law, ps⟩ := x
  cases law <;> rfl

theorem isExact_canon (q : Rat) : (canon q).isExact = true := by
  unfold canon; split <;> rfl

theorem toRat_deliver_false (q : Rat) : (deliver false q).toRat = q := by
  simp [deliver, toRat_canon]

/-- Python's `a - b` on two exact numbers is exact -/
theorem pySub_exact (a b : Num) (ha : a.isExact = true) (hb : b.isExact = true) :
    ∃ r, pySubNum a b = some r ∧ r.toRat = a.toRat - b.toRat ∧ r.isExact = true := by
  cases a with
  | flt x => simp [isExact] at ha
  | int x =>
    cases b with
    | flt y => simp [isExact] at hb
    | int y => exact ⟨.int (x - y), rfl, by simp [toRat], rfl⟩
    | frac y => exact ⟨.frac ((x : Rat) - y), rfl, rfl, rfl⟩
  | frac x =>
    cases b with
    | flt y => simp [isExact] at hb
    | int y => exact ⟨.frac (x - (y : Rat)), rfl, rfl, rfl⟩
    | frac y => exact ⟨.frac (x - y), rfl, rfl, rfl⟩

/-- **Exactness bridge.**  When no `cdf` / `pmf` value of the entry is a float in Python (`leafFloat`
    false: exact parameters and, for `Uniform`, exact thresholds), evaluating the decision-table entry
    in Python's numeric tower gives an exact number whose value is the `Prob` fragment's rational. -/
theorem evalPN_exact (x : RV) (slots : List (Option Num)) (hex : ∀ a, leafFloat x slots a = false) (e : Prob.PExpr) :
    (evalPN x slots e).map Num.toRat = evalFrag x (slotTerms slots) e ∧
    (∀ v, evalPN x slots e = some v → v.isExact = true) := by
  induction e with
  | cdf a =>
    obtain ⟨law, ps⟩ := x
    cases law with
    | disc d =>
      simp only [evalPN, leafNum, hex a, evalFrag, Prob.PExpr.evalD]
      cases a.evalZ (Prob.envOf (slotTerms slots)) with
      | none => exact ⟨rfl, fun v h => by cases h⟩
      | some k =>
        refine ⟨by simp [toRat_deliver_false], fun v h => ?_⟩
        simp only [Option.map_some, Option.some.injEq] at h
        rw [← h]; exact isExact_canon _
    | cont d =>
      simp only [evalPN, leafNum, hex a, evalFrag, Prob.PExpr.evalC, Bool.false_eq_true, if_false]
      refine ⟨by simp [toRat_deliver_false], fun v h => ?_⟩
      simp only [Option.some.injEq] at h
      rw [← h]; exact isExact_canon _
  | pmf a =>
    obtain ⟨law, ps⟩ := x
    cases law with
    | disc d =>
      simp only [evalPN, leafNum, hex a, evalFrag, Prob.PExpr.evalD]
      cases a.evalZ (Prob.envOf (slotTerms slots)) with
      | none => exact ⟨rfl, fun v h => by cases h⟩
      | some k =>
        refine ⟨by simp [toRat_deliver_false], fun v h => ?_⟩
        simp only [Option.map_some, Option.some.injEq] at h
        rw [← h]; exact isExact_canon _
    | cont d =>
      simp only [evalPN, leafNum, evalFrag, Prob.PExpr.evalC, if_true]
      exact ⟨rfl, fun v h => by cases h⟩
  | oneSub e ih =>
    obtain ⟨ih1, ih2⟩ := ih
    have hf : evalFrag x (slotTerms slots) (.oneSub e) = (evalFrag x (slotTerms slots) e).map (fun q => 1 - q) := by
      obtain ⟨law, ps⟩ := x; cases law <;> rfl
    rw [hf, ← ih1]
    simp only [evalPN]
    cases h : evalPN x slots e with
    | none => exact ⟨rfl, fun v hv => by cases hv⟩
    | some v =>
      obtain ⟨r, hr, hr2, hr3⟩ := pySub_exact (.int 1) v rfl (ih2 v h)
      simp only [Option.bind_some, hr, Option.map_some]
      refine ⟨by rw [hr2]; simp [toRat], fun w hw => ?_⟩
      simp only [Option.some.injEq] at hw
      rw [← hw]; exact hr3
  | sub e f ihe ihf =>
    obtain ⟨e1, e2⟩ := ihe
    obtain ⟨f1, f2⟩ := ihf
    have hf : evalFrag x (slotTerms slots) (.sub e f) =
        (match evalFrag x (slotTerms slots) e, evalFrag x (slotTerms slots) f with
         | some a, some b => some (a - b)
         | _, _ => none) := by
      obtain ⟨law, ps⟩ := x; cases law <;> rfl
    rw [hf, ← e1, ← f1]
    simp only [evalPN]
    cases he : evalPN x slots e with
    | none => exact ⟨rfl, fun v hv => by cases hv⟩
    | some u =>
      cases hf' : evalPN x slots f with
      | none => exact ⟨rfl, fun v hv => by cases hv⟩
      | some v =>
        obtain ⟨r, hr, hr2, hr3⟩ := pySub_exact u v (e2 u he) (f2 v hf')
        simp only [hr, Option.map_some]
        refine ⟨by rw [hr2], fun w hw => ?_⟩
        simp only [Option.some.injEq] at hw
        rw [← hw]; exact hr3
  | max0 e ih =>
    obtain ⟨ih1, ih2⟩ := ih
    have hf : evalFrag x (slotTerms slots) (.max0 e) = (evalFrag x (slotTerms slots) e).map Prob.pyMax0 := by
      obtain ⟨law, ps⟩ := x; cases law <;> rfl
    rw [hf, ← ih1]
    simp only [evalPN]
    cases h : evalPN x slots e with
    | none => exact ⟨rfl, fun v hv => by cases hv⟩
    | some v =>
      simp only [Option.map_some, Option.some.injEq]
      have hz : (Num.int 0).toRat = 0 := by simp [toRat]
      by_cases hlt : v.toRat < 0
      · have : cmpLt v (.int 0) = true := by simp [cmpLt, hz, hlt]
        simp only [this, if_true, Prob.pyMax0, hlt, hz]
        exact ⟨trivial, fun w hw => by rw [← hw]; rfl⟩
      · have : cmpLt v (.int 0) = false := by simp [cmpLt, hz, hlt]
        simp only [this, Bool.false_eq_true, if_false, Prob.pyMax0, hlt]
        exact ⟨trivial, fun w hw => by rw [← hw]; exact ih2 v h⟩

/-- `simplify_type` of an exact number is the canonical delivery of its value -/
theorem simplify_exact (v : Num) (h : v.isExact = true) : simplify v = .ok (canon v.toRat) := by
  cases v with
  | int n => rw [simplify_int, toRat_int, canon_intCast]
  | frac q => rw [simplify_frac, toRat_frac]
  | flt x => simp [isExact] at h

/-- what `P(event)` answers when Python's arithmetic on the event is exact: the `Prob` fragment's
    probability of the decision-table row, delivered canonically -/
theorem probOfEvent_exact (ops : List Prob.Op) (pos : Nat) (x : RV) (args : List Num) (row : Prob.Row)
    (hg : probRefused x args = false)
    (hrow : Prob.findRow Gen.ProbTable.rows ops pos x.probLaw.isDisc = some row)
    (hex : ∀ a, leafFloat x (eventSlots pos args) a = false) :
    (probOfEvent ops pos x args >>= simplifyVal) =
      match Prob.evalRow x.probLaw row (slotTerms (eventSlots pos args)) with
      | .ok q => .ok (.num (canon q))
      | .error _ => .error (.err (.py "TypeError")) := by
  obtain ⟨h1, h2⟩ := evalPN_exact x (eventSlots pos args) hex row.expr
  simp only [probOfEvent, hg, Bool.false_eq_true, if_false, hrow, evalRow_eq_frag, ← h1]
  cases h : evalPN x (eventSlots pos args) row.expr with
  | none => rfl
  | some v =>
    simp only [Option.map_some, bind, Except.bind, simplifyVal, simplify_exact v (h2 v h)]
    rfl


/-! ### written comparison chains: the parser's tree, the registry, and the fragment's `resolveRow` -/

/-- what the parser and the registry make of a written single comparison `X op t` (`rvLeft`) / `t op X`:
    the registered operator and the argument position of the variable -/
def singleShape (op : Prob.Op) (rvLeft : Bool) : Prob.Op × Nat :=
  match op, rvLeft with
  | .gt, true => (.lt, 1) | .gt, false => (.lt, 0)
  | .ge, true => (.le, 1) | .ge, false => (.le, 0)
  | o, true => (o, 0) | o, false => (o, 1)

/-- the tree `make_comparison_node` builds for the written single comparison -/
def singleAst (op : Prob.Op) (rvLeft : Bool) (XA TA : Ast) : Ast :=
  if rvLeft then mkCmp1 (pcmpOfP op) XA TA else mkCmp1 (pcmpOfP op) TA XA

theorem evalE_cmp1 (env : Env) (o : PCmp) (a b : Ast) :
    evalE env (.cmp1 o a b) = (do
      let x ← evalE env a
      let y ← evalE env b
      dispatchTop (cmpName o) [x, y] []) := by
  simp only [evalE]

theorem evalE_cmp2 (env : Env) (o1 o2 : PCmp) (a b c : Ast) :
    evalE env (.cmp2 o1 o2 a b c) = (do
      let x ← evalE env a
      let y ← evalE env b
      let z ← evalE env c
      dispatchTop (cmpName o1 ++ "_" ++ cmpName o2) [x, y, z] []) := by
  simp only [evalE]

/-- the written single comparison, evaluated: the event the registered constructor builds, with the
    parser's flipping of `>` / `>=` -/
theorem evalE_singleAst (env : Env) (op : Prob.Op) (hop : op ≠ .eq) (rvLeft : Bool) (XA TA : Ast) (x : RV) (t : Num)
    (hX : evalE env XA = .ok (.rv x)) (hT : evalE env TA = .ok (.num t)) :
    evalE env (singleAst op rvLeft XA TA) = .ok (.event [(singleShape op rvLeft).1] (singleShape op rvLeft).2 x [t]) := by
  cases op <;> cases rvLeft <;> simp only [ne_eq, not_true_eq_false, reduceCtorEq, not_false_eq_true] at hop <;>
    simp only [singleAst, mkCmp1, pcmpOfP, PCmp.backward, PCmp.forward, PCmp.flip, Bool.false_eq_true, if_false, if_true,
      Bool.not_false, Bool.not_true, Bool.and_true, Bool.and_false, Bool.false_and, evalE_cmp1, hX, hT, bind, Except.bind,
      singleShape]
  · exact dispatch_event_right _ .le (Or.inr rfl) x t
  · exact dispatch_event_left _ .le (Or.inr rfl) x t
  · exact dispatch_event_right _ .lt (Or.inl rfl) x t
  · exact dispatch_event_left _ .lt (Or.inl rfl) x t
  · exact dispatch_event_left _ .lt (Or.inl rfl) x t
  · exact dispatch_event_right _ .lt (Or.inl rfl) x t
  · exact dispatch_event_left _ .le (Or.inr rfl) x t
  · exact dispatch_event_right _ .le (Or.inr rfl) x t

open Gen.ProbTable in
/-- the `Prob` fragment's pipeline (parser rewriting `flips`, registered `labels`, decision table `rows`)
    reaches, for the written single comparison, the row and the argument list the evaluator's event carries -/
theorem resolveRow_single (op : Prob.Op) (hop : op ≠ .eq) (rvLeft : Bool) (disc : Bool) (t : Num) :
    ∃ row, Prob.findRow rows [(singleShape op rvLeft).1] (singleShape op rvLeft).2 disc = some row ∧
      Prob.resolveRow flips labels rows disc (Prob.single op rvLeft t.toRat) =
        .ok (row, slotTerms (eventSlots (singleShape op rvLeft).2 [t])) := by
  cases op <;> cases rvLeft <;> simp only [ne_eq, not_true_eq_false, reduceCtorEq, not_false_eq_true] at hop <;>
    cases disc <;> exact ⟨_, rfl, rfl⟩

open Gen.ProbTable in
theorem resolveRow_eq (k : Int) :
    ∃ row, Prob.findRow rows [.eq] 0 true = some row ∧
      Prob.resolveRow flips labels rows true (Prob.single .eq true (Num.int k).toRat) =
        .ok (row, slotTerms (eventSlots 0 [.int k])) :=
  ⟨_, rfl, rfl⟩

/-- the operators and the numeric arguments the registered constructor receives for the written double
    comparison `a o1 X o2 b`: both forward — as written; both backward — flipped, reversed -/
def doubleShape (o1 o2 : Prob.Op) (a b : Num) : List Prob.Op × List Num :=
  match o1, o2 with
  | .gt, .gt => ([.lt, .lt], [b, a]) | .gt, .ge => ([.le, .lt], [b, a])
  | .ge, .gt => ([.lt, .le], [b, a]) | .ge, .ge => ([.le, .le], [b, a])
  | _, _ => ([o1, o2], [a, b])

theorem evalE_doubleAst (env : Env) (o1 o2 : Prob.Op)
    (hdir : ((o1.forward && o2.forward) || (o1.backward && o2.backward)) = true)
    (AA XA BA : Ast) (x : RV) (a b : Num)
    (hA : evalE env AA = .ok (.num a)) (hX : evalE env XA = .ok (.rv x)) (hB : evalE env BA = .ok (.num b)) :
    evalE env (mkCmp2 (pcmpOfP o1) (pcmpOfP o2) AA XA BA) =
      .ok (.event (doubleShape o1 o2 a b).1 1 x (doubleShape o1 o2 a b).2) := by
  cases o1 <;> cases o2 <;> simp only [Prob.Op.forward, Prob.Op.backward, Bool.and_self, Bool.and_false, Bool.false_and,
      Bool.or_self, Bool.or_false, Bool.false_or, Bool.false_eq_true] at hdir <;>
    simp only [mkCmp2, pcmpOfP, PCmp.backward, PCmp.forward, PCmp.flip, Bool.false_eq_true, if_false, if_true,
      Bool.not_false, Bool.not_true, Bool.and_true, Bool.and_false, Bool.false_and, Bool.or_self, Bool.or_false,
      Bool.or_true, Bool.true_or, Bool.false_or, evalE_cmp2, hA, hX, hB, bind, Except.bind, doubleShape]
  · exact dispatch_event2 _ .le .le (Or.inr rfl) (Or.inr rfl) a b x
  · exact dispatch_event2 _ .le .lt (Or.inr rfl) (Or.inl rfl) a b x
  · exact dispatch_event2 _ .lt .le (Or.inl rfl) (Or.inr rfl) a b x
  · exact dispatch_event2 _ .lt .lt (Or.inl rfl) (Or.inl rfl) a b x
  · exact dispatch_event2 _ .lt .lt (Or.inl rfl) (Or.inl rfl) b a x
  · exact dispatch_event2 _ .le .lt (Or.inr rfl) (Or.inl rfl) b a x
  · exact dispatch_event2 _ .lt .le (Or.inl rfl) (Or.inr rfl) b a x
  · exact dispatch_event2 _ .le .le (Or.inr rfl) (Or.inr rfl) b a x

open Gen.ProbTable in
theorem resolveRow_double (o1 o2 : Prob.Op)
    (hdir : ((o1.forward && o2.forward) || (o1.backward && o2.backward)) = true) (disc : Bool) (a b : Num) :
    ∃ row, Prob.findRow rows (doubleShape o1 o2 a b).1 1 disc = some row ∧
      Prob.resolveRow flips labels rows disc (Prob.double o1 o2 a.toRat b.toRat) =
        .ok (row, slotTerms (eventSlots 1 (doubleShape o1 o2 a b).2)) := by
  cases o1 <;> cases o2 <;> simp only [Prob.Op.forward, Prob.Op.backward, Bool.and_self, Bool.and_false, Bool.false_and,
      Bool.or_self, Bool.or_false, Bool.false_or, Bool.false_eq_true] at hdir <;>
    cases disc <;> exact ⟨_, rfl, rfl⟩

/-- `P( … )` around an event-valued argument -/
theorem evalE_P (env : Env) (E : Ast) (ops : List Prob.Op) (pos : Nat) (x : RV) (args : List Num)
    (hl : ops.length = 1 ∨ ops.length = 2) (hE : evalE env E = .ok (.event ops pos x args)) :
    evalE env (.call "P" [E] []) = (probOfEvent ops pos x args >>= simplifyVal) := by
  rw [evalE_call1, hE]
  simp only [bind, Except.bind]
  exact dispatch_P _ ops pos x args hl

/-- `P(event)` in general (float parameters included): the decision-table row read in Python's tower -/
theorem probOfEvent_row (ops : List Prob.Op) (pos : Nat) (x : RV) (args : List Num) (row : Prob.Row)
    (hg : probRefused x args = false)
    (hrow : Prob.findRow Gen.ProbTable.rows ops pos x.probLaw.isDisc = some row) :
    (probOfEvent ops pos x args >>= simplifyVal) =
      match evalPN x (eventSlots pos args) row.expr with
      | some v => liftN (simplify v)
      | none => .error (.err (.py "TypeError")) := by
  simp only [probOfEvent, hg, Bool.false_eq_true, if_false, hrow]
  cases evalPN x (eventSlots pos args) row.expr with
  | none => rfl
  | some v =>
    simp only [bind, Except.bind, simplifyVal, liftN]
    cases simplify v <;> rfl

/-- `eval_node` on a binary FUNCALL node: children left to right, then `dispatch` -/
theorem evalE_bin (env : Env) (o : PBin) (l r : Ast) :
    evalE env (.bin o l r) = (do
      let x ← evalE env l
      let y ← evalE env r
      dispatchTop o.spelling [x, y] []) := by
  simp only [evalE]

theorem liftI_ok {r : Except Err Instant.Inst} {R : Instant.Inst} (h : liftI r = .ok (.inst R)) : r = .ok R := by
  cases r with
  | error e => cases h
  | ok R' =>
    simp only [liftI, liftE, Except.map, Except.ok.injEq, Val.inst.injEq] at h
    rw [h]

end KaVerif.Pipe3
