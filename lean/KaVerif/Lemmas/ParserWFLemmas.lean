import KaVerif.Model.Render
set_option linter.unusedSimpArgs false
/-
  The parser only returns well-formed trees: `parse toks = .ok t → t.WF`.
  Together with the round trip (Lemmas/ParserLemmas.lean) this says `Ast.WF` is exactly the set
  of trees the grammar produces.  No Mathlib.
-/
namespace KaVerif.Parser

/-- every tree `p` returns is a well-formed expression -/
def Sound (p : List PTok → Res Ast) : Prop := ∀ toks t r, p toks = .ok (t, r) → wfE t = true

theorem pUnits_nonempty {toks r : List PTok} {us : List (String × Int)} (h : pUnits toks = .ok (us, r)) :
    us.isEmpty = false := by
  unfold pUnits at h
  split at h <;> simp at h
  obtain ⟨rfl, _⟩ := h; rfl

theorem pUnitSig_ok_sig {toks r : List PTok} {s : UnitSig} (h : pUnitSig toks = .ok (s, r)) : sigOK s = true := by
  unfold pUnitSig at h
  split at h
  · simp at h
  · rename_i us r1 hu
    have hne := pUnits_nonempty hu
    split at h
    · split at h <;> simp at h
      obtain ⟨rfl, _⟩ := h; simp [sigOK, hne]
    · simp at h; obtain ⟨rfl, _⟩ := h; simp [sigOK, hne]

theorem sound_positional {rec : List PTok → Res Ast} (hr : Sound rec) :
    ∀ (F : Nat) (st : Bool) (toks : List PTok) (as : List Ast) (r : List PTok),
      pPositional rec F st toks = .ok (as, r) → wfEs as = true := by
  intro F
  induction F with
  | zero =>
    intro st toks as r h
    rw [pPositional] at h
    split at h <;> simp at h
    obtain ⟨rfl, _⟩ := h; rfl
  | succ k ih =>
    intro st toks as r h
    rw [pPositional] at h
    split at h
    · simp at h; obtain ⟨rfl, _⟩ := h; rfl
    · split at h
      · simp at h
      · split at h
        · simp at h; obtain ⟨rfl, _⟩ := h; rfl
        · split at h
          · simp at h
          · rename_i a t2 ha
            split at h
            · simp at h
            · rename_i as' t3 hrec
              simp at h; obtain ⟨rfl, _⟩ := h
              simp [wfEs, hr _ _ _ ha, ih _ _ _ _ hrec]

theorem sound_keyword {rec : List PTok → Res Ast} (hr : Sound rec) :
    ∀ (F : Nat) (st : Bool) (toks : List PTok) (ks : List (String × Ast)) (r : List PTok),
      pKeyword rec F st toks = .ok (ks, r) → wfKs ks = true := by
  intro F
  induction F with
  | zero =>
    intro st toks ks r h
    rw [pKeyword] at h
    split at h <;> simp at h
    obtain ⟨rfl, _⟩ := h; rfl
  | succ k ih =>
    intro st toks ks r h
    rw [pKeyword] at h
    split at h
    · simp at h; obtain ⟨rfl, _⟩ := h; rfl
    · split at h
      · simp at h
      · split at h
        · split at h
          · simp at h
          · split at h
            · simp at h
            · rename_i a t4 ha
              split at h
              · simp at h
              · rename_i ks' t5 hrec
                simp at h; obtain ⟨rfl, _⟩ := h
                simp [wfKs, hr _ _ _ ha, ih _ _ _ _ hrec]
        · simp at h

theorem sound_pCall {rec : List PTok → Res Ast} (hr : Sound rec) (name : String) : Sound (pCall rec name) := by
  intro toks t r h
  unfold pCall at h
  split at h
  · simp at h
  · rename_i args t1 hp
    split at h
    · simp at h
    · rename_i kws t2 hk
      split at h <;> simp at h
      obtain ⟨rfl, _⟩ := h
      simp [wfE, sound_positional hr _ _ _ _ _ hp, sound_keyword hr _ _ _ _ _ hk]

theorem sound_pUwf {rec : List PTok → Res Ast} (hr : Sound rec) : Sound (pUwf rec) := by
  intro toks t r h
  unfold pUwf at h
  split at h
  · split at h
    · simp at h
    · rename_i e r2 he
      split at h <;> simp at h
      obtain ⟨rfl, _⟩ := h; exact hr _ _ _ he
  · split at h
    · rename_i w hw
      simp at h; obtain ⟨rfl, _⟩ := h
      simp [wfE, numOK, hw]
    · simp at h
  · split at h
    · exact sound_pCall hr _ _ _ _ h
    · simp at h; obtain ⟨rfl, _⟩ := h; rfl
  · simp at h

theorem sound_pUnsigned {rec : List PTok → Res Ast} (hr : Sound rec) : Sound (pUnsigned rec) := by
  intro toks t r h
  unfold pUnsigned at h
  split at h
  · simp at h
  · rename_i x r1 hx
    have := sound_pUwf hr _ _ _ hx
    split at h <;> (simp at h; obtain ⟨rfl, _⟩ := h; simp [wfE, this])

theorem sound_pUnitless {rec : List PTok → Res Ast} (hr : Sound rec) : Sound (pUnitless rec) := by
  intro toks t r h
  unfold pUnitless at h
  split at h
  · split at h
    · simp at h
    · rename_i x r1 hx
      simp at h; obtain ⟨rfl, _⟩ := h; simp [wfE, sound_pUnsigned hr _ _ _ hx]
  · split at h
    · simp at h
    · rename_i x r1 hx
      simp at h; obtain ⟨rfl, _⟩ := h; simp [wfE, sound_pUnsigned hr _ _ _ hx]
  · exact sound_pUnsigned hr _ _ _ h

theorem sound_pQuantity {rec : List PTok → Res Ast} (hr : Sound rec) : Sound (pQuantity rec) := by
  intro toks t r h
  unfold pQuantity at h
  split at h
  · simp at h
  · rename_i x r1 hx
    have hxw := sound_pUnitless hr _ _ _ hx
    split at h
    · split at h
      · simp at h
      · rename_i sg r2 hsg
        simp at h; obtain ⟨rfl, _⟩ := h
        simp [wfE, hxw, pUnitSig_ok_sig hsg]
    · simp at h; obtain ⟨rfl, _⟩ := h; exact hxw

theorem sound_pRange {rec : List PTok → Res Ast} (hr : Sound rec) : Sound (pRange rec) := by
  intro toks t r h
  unfold pRange at h
  split at h
  · simp at h
  · rename_i lo r1 hlo
    have hl := sound_pQuantity hr _ _ _ hlo
    split at h
    · split at h
      · simp at h
      · rename_i hi r2 hhi
        simp at h; obtain ⟨rfl, _⟩ := h
        simp [wfE, hl, sound_pQuantity hr _ _ _ hhi]
    · simp at h; obtain ⟨rfl, _⟩ := h; exact hl

theorem sound_pElems {rec : List PTok → Res Ast} (hr : Sound rec) :
    ∀ (F : Nat) (toks : List PTok) (xs : List Ast) (r : List PTok),
      pElems rec F toks = .ok (xs, r) → wfEs xs = true := by
  intro F
  induction F with
  | zero =>
    intro toks xs r h
    rw [pElems] at h
    split at h <;> simp at h
    obtain ⟨rfl, _⟩ := h; rfl
  | succ k ih =>
    intro toks xs r h
    rw [pElems] at h
    split at h
    · split at h
      · simp at h
      · rename_i x r1 hx
        split at h
        · simp at h
        · rename_i xs' r2 hrec
          simp at h; obtain ⟨rfl, _⟩ := h
          simp [wfEs, hr _ _ _ hx, ih _ _ _ hrec]
    · simp at h; obtain ⟨rfl, _⟩ := h; rfl

/-- a clause carries a well-formed expression -/
def clauseWF : Clause → Bool
  | .gen _ e => wfE e
  | .cond e => wfE e

def clausesWF : List Clause → Bool
  | [] => true
  | c :: cs => clauseWF c && clausesWF cs

theorem sound_pClause {rec : List PTok → Res Ast} (hr : Sound rec) {toks r : List PTok} {c : Clause}
    (h : pClause rec toks = .ok (c, r)) : clauseWF c = true := by
  unfold pClause at h
  split at h
  · split at h
    · simp at h
    · rename_i a r2 ha
      simp at h; obtain ⟨rfl, _⟩ := h; exact hr _ _ _ ha
  · split at h
    · simp at h
    · rename_i a r2 ha
      simp at h; obtain ⟨rfl, _⟩ := h; exact hr _ _ _ ha

theorem sound_pClauses {rec : List PTok → Res Ast} (hr : Sound rec) :
    ∀ (F : Nat) (toks : List PTok) (cs : List Clause) (r : List PTok),
      pClauses rec F toks = .ok (cs, r) → clausesWF cs = true := by
  intro F
  induction F with
  | zero =>
    intro toks cs r h
    rw [pClauses] at h
    split at h <;> simp at h
    obtain ⟨rfl, _⟩ := h; rfl
  | succ k ih =>
    intro toks cs r h
    rw [pClauses] at h
    split at h
    · split at h
      · simp at h
      · rename_i x r1 hx
        split at h
        · simp at h
        · rename_i xs' r2 hrec
          simp at h; obtain ⟨rfl, _⟩ := h
          simp [clausesWF, sound_pClause hr hx, ih _ _ _ hrec]
    · simp at h; obtain ⟨rfl, _⟩ := h; rfl

theorem wf_clauseGens {cs : List Clause} (h : clausesWF cs = true) : wfKs (clauseGens cs) = true := by
  induction cs with
  | nil => rfl
  | cons c cs ih =>
    simp only [clausesWF, Bool.and_eq_true] at h
    cases c <;> simp_all [clauseGens, wfKs, clauseWF]

theorem wf_clauseConds {cs : List Clause} (h : clausesWF cs = true) : wfEs (clauseConds cs) = true := by
  induction cs with
  | nil => rfl
  | cons c cs ih =>
    simp only [clausesWF, Bool.and_eq_true] at h
    cases c <;> simp_all [clauseConds, wfEs, clauseWF]

theorem clauses_nonempty (c : Clause) (cs : List Clause) :
    ((clauseGens (c :: cs)).isEmpty && (clauseConds (c :: cs)).isEmpty) = false := by
  cases c <;> simp [clauseGens, clauseConds]

theorem sound_pArray {rec : List PTok → Res Ast} (hr : Sound rec) : Sound (pArray rec) := by
  intro toks t r h
  unfold pArray at h
  split at h
  · simp at h; obtain ⟨rfl, _⟩ := h; rfl
  · split at h
    · simp at h
    · rename_i x r1 hx
      have hxw := hr _ _ _ hx
      split at h
      · split at h
        · simp at h
        · rename_i c r2 hc
          split at h
          · simp at h
          · rename_i cs r3 hcs
            split at h <;> simp at h
            obtain ⟨rfl, _⟩ := h
            have hall : clausesWF (c :: cs) = true := by
              simp [clausesWF, sound_pClause hr hc, sound_pClauses hr _ _ _ _ hcs]
            simp only [mkCompr, wfE, hxw, wf_clauseGens hall, wf_clauseConds hall, clauses_nonempty]
            rfl
      · split at h
        · simp at h
        · rename_i xs r2 hxs
          split at h <;> simp at h
          obtain ⟨rfl, _⟩ := h
          simp [wfE, wfEs, hxw, sound_pElems hr _ _ _ _ hxs]

theorem sound_pInterval {rec : List PTok → Res Ast} (hr : Sound rec) : Sound (pInterval rec) := by
  intro toks t r h
  unfold pInterval at h
  split at h
  · simp at h
  · rename_i lo r1 hlo
    split at h
    · simp at h
    · split at h
      · simp at h
      · rename_i hi r3 hhi
        split at h <;> simp at h
        obtain ⟨rfl, _⟩ := h
        simp [wfE, hr _ _ _ hlo, hr _ _ _ hhi]

theorem sound_pTerm {rec : List PTok → Res Ast} (hr : Sound rec) : Sound (pTerm rec) := by
  intro toks t r h
  unfold pTerm at h
  split at h
  · simp at h; obtain ⟨rfl, _⟩ := h; rfl
  · simp at h; obtain ⟨rfl, _⟩ := h; rfl
  · exact sound_pArray hr _ _ _ h
  · exact sound_pInterval hr _ _ _ h
  · exact sound_pRange hr _ _ _ h

theorem sound_binLoop {operand : List PTok → Res Ast} (ho : Sound operand) (f : PBin → Bool) :
    ∀ (F : Nat) (left : Ast) (toks : List PTok) (t : Ast) (r : List PTok), wfE left = true →
      binLoop operand f F left toks = .ok (t, r) → wfE t = true := by
  intro F
  induction F with
  | zero =>
    intro left toks t r hl h
    rw [binLoop] at h
    split at h <;> simp at h
    obtain ⟨rfl, _⟩ := h; exact hl
  | succ k ih =>
    intro left toks t r hl h
    rw [binLoop] at h
    split at h
    · simp at h; obtain ⟨rfl, _⟩ := h; exact hl
    · split at h
      · rename_i heq; simp at heq
      · rename_i k' heq
        have hk : k = k' := by omega
        subst hk
        split at h
        · simp at h
        · rename_i x r1 hx
          exact ih _ _ _ _ (by simp [wfE, hl, ho _ _ _ hx]) h

theorem sound_binLevel {operand : List PTok → Res Ast} (ho : Sound operand) (f : PBin → Bool) :
    Sound (binLevel operand f) := by
  intro toks t r h
  unfold binLevel at h
  split at h
  · simp at h
  · rename_i l r1 hl
    exact sound_binLoop ho f _ _ _ _ _ (ho _ _ _ hl) h

theorem mkCmp1_wf (o : PCmp) {a b : Ast} (ha : wfE a = true) (hb : wfE b = true) : wfE (mkCmp1 o a b) = true := by
  cases o <;> simp [mkCmp1, PCmp.backward, PCmp.forward, PCmp.flip, wfE, cmp1OK, ha, hb]

theorem mkCmp2_wf (o1 o2 : PCmp) {a b c : Ast} (ha : wfE a = true) (hb : wfE b = true) (hc : wfE c = true) :
    wfE (mkCmp2 o1 o2 a b c) = true := by
  cases o1 <;> cases o2 <;> simp [mkCmp2, PCmp.backward, PCmp.forward, PCmp.flip, wfE, cmp2OK, ha, hb, hc]

theorem sound_pComparison {rec : List PTok → Res Ast} (hr : Sound rec) : Sound (pComparison rec) := by
  have hs : Sound (pSum rec) := sound_binLevel (sound_binLevel (sound_binLevel (sound_pTerm hr) _) _) _
  intro toks t r h
  unfold pComparison at h
  split at h
  · simp at h
  · rename_i a r1 ha
    have haw := hs _ _ _ ha
    split at h
    · simp at h; obtain ⟨rfl, _⟩ := h; exact haw
    · split at h
      · simp at h
      · rename_i b r2 hb
        have hbw := hs _ _ _ hb
        split at h
        · simp at h; obtain ⟨rfl, _⟩ := h; exact mkCmp1_wf _ haw hbw
        · split at h
          · simp at h
          · rename_i c r3 hc
            simp at h; obtain ⟨rfl, _⟩ := h; exact mkCmp2_wf _ _ haw hbw (hs _ _ _ hc)

theorem sound_pExprBody {rec : List PTok → Res Ast} (hr : Sound rec) : Sound (pExprBody rec) := by
  intro toks t r h
  unfold pExprBody at h
  split at h
  · simp at h
  · rename_i e r1 he
    have hew := sound_pComparison hr _ _ _ he
    split at h
    · split at h
      · simp at h
      · rename_i sg r2 hsg
        simp at h; obtain ⟨rfl, _⟩ := h
        simp [wfE, hew, pUnitSig_ok_sig hsg]
    · simp at h; obtain ⟨rfl, _⟩ := h; exact hew

theorem sound_pExpr : ∀ n, Sound (pExpr n) := by
  intro n
  induction n with
  | zero => intro toks t r h; simp [pExpr] at h
  | succ k ih => exact sound_pExprBody ih

theorem sound_pStatement {rec : List PTok → Res Ast} (hr : Sound rec) {toks r : List PTok} {s : Ast}
    (h : pStatement rec toks = .ok (s, r)) : wfS s = true := by
  unfold pStatement at h
  split at h
  · split at h
    · simp at h
    · rename_i e r2 he
      simp at h; obtain ⟨rfl, _⟩ := h
      simpa [wfS] using hr _ _ _ he
  · have := hr _ _ _ h
    cases s <;> simp_all [wfS, wfE]

theorem sound_pStatements {rec : List PTok → Res Ast} (hr : Sound rec) :
    ∀ (F : Nat) (toks : List PTok) (ss : List Ast), pStatements rec F toks = .ok ss →
      ∀ s ∈ ss, wfS s = true := by
  intro F
  induction F with
  | zero =>
    intro toks ss h
    cases toks with
    | nil => simp [pStatements] at h; subst h; intro s hs; cases hs
    | cons a as => simp [pStatements] at h
  | succ k ih =>
    intro toks ss h
    cases toks with
    | nil => simp [pStatements] at h; subst h; intro s hs; cases hs
    | cons a as =>
      simp only [pStatements] at h
      split at h
      · simp at h
      · rename_i s r hs
        have hsw := sound_pStatement hr hs
        split at h
        · simp at h; subst h; intro y hy; simp at hy; subst hy; exact hsw
        · split at h
          · simp at h
          · rename_i r2 _
            split at h
            · simp at h
            · rename_i ss' hrec
              simp at h; subst h
              intro y hy
              rcases List.mem_cons.mp hy with rfl | hy'
              · exact hsw
              · exact ih _ _ hrec y hy'

/-- every tree `parse` returns is well-formed -/
theorem parse_wf {tokens : List Token} {t : Ast} (h : parse tokens = .ok t) : t.WF := by
  unfold parse at h
  split at h <;> simp at h
  rename_i t' ht
  subst h
  unfold parseToks at ht
  split at ht
  · simp at ht
  · rename_i ss hss
    simp at ht; subst ht
    exact sound_pStatements (sound_pExpr _) _ _ _ hss

end KaVerif.Parser
