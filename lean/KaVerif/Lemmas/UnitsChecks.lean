import KaVerif.Model.Units
import KaVerif.Lemmas.UnitRef
/-
  Boolean checks over a unit table that the kernel decides on the generated table
  (`Props/C13Table.lean`).  Import-free apart from the model; their meaning in terms of
  `lookupUnit` and rational numbers is proved in `Lemmas/UnitsLemmas.lean`.
-/
namespace KaVerif.Units

/-- the string matching found unit `i` itself, no prefix -/
def hitIs (h : Option Hit) (i : Nat) : Bool :=
  match h with
  | some ⟨j, none⟩ => Nat.beq j i
  | _ => false

/-- unit `u` (= `UNITS[i]`) is found under its symbol, its singular name and (if it has one) its plural name -/
def reachableAt (t : UnitTable) (i : Nat) (u : UnitRec) : Bool :=
  hitIs (lookupHit t u.symbol) i && hitIs (lookupHit t u.singular) i &&
  (!u.hasPlural || hitIs (lookupHit t u.plural) i)

def reachableFrom (t : UnitTable) : Nat → List UnitRec → Bool
  | _, [] => true
  | i, u :: us => reachableAt t i u && reachableFrom t (i + 1) us

theorem reachableFrom_append (t : UnitTable) (i : Nat) (a b : List UnitRec) (n : Nat)
    (h1 : reachableFrom t i a = true) (hlen : a.length = n) (h2 : reachableFrom t (i + n) b = true) :
    reachableFrom t i (a ++ b) = true := by
  induction a generalizing i n with
  | nil => simp at hlen; subst hlen; simpa using h2
  | cons u us ih =>
    simp only [reachableFrom, Bool.and_eq_true, List.cons_append] at h1 ⊢
    refine ⟨h1.1, ih (i + 1) (n - 1) h1.2 ?_ ?_⟩
    · simp at hlen; omega
    · have : i + 1 + (n - 1) = i + n := by simp at hlen; omega
      rw [this]; exact h2

/-- the maps only contain spellings of the unit they point to, and every index is in range -/
def namesWellFormed (t : UnitTable) : Bool :=
  t.names.all (fun e => match t.units[e.2]? with
    | some _ => true          -- the key may be an ALIAS (`meter` for the metre): any spelling may point at a unit of the table
    | none => false)

def symbolsWellFormed (t : UnitTable) : Bool :=
  t.symbols.all (fun e => match t.units[e.2]? with
    | some _ => true
    | none => false)

/-- the stricter fact that holds while no alias is registered: every key is one of the three spellings of the unit it points at -/
def namesOwn (t : UnitTable) : Bool :=
  t.names.all (fun e => match t.units[e.2]? with
    | some u => eqCp u.singular e.1 || (u.hasPlural && eqCp u.plural e.1)
    | none => false)

def symbolsOwn (t : UnitTable) : Bool :=
  t.symbols.all (fun e => match t.units[e.2]? with
    | some u => eqCp u.symbol e.1
    | none => false)

/-- cross-multiplied closeness test on integers: `|a/b − c/d| ≤ (c/d)/N` -/
def closeQ (a : Int) (b : Nat) (c : Nat) (d : Nat) (N : Nat) : Bool :=
  decide (0 < b) && decide (0 < d) && decide (0 < N) &&
    decide ((a * (d : Int) - (c : Int) * (b : Int)).natAbs * N ≤ c * b)

def findRef (rs : List RefUnit) (sym : List Nat) : Option RefUnit :=
  rs.find? (fun r => eqCp r.symbol sym)

def RefUnit.size (r : RefUnit) : Rat := mkRat r.num r.den
def RefUnit.offset (r : RefUnit) : Rat := mkRat r.offNum r.offDen

/-- the first seven exponents are the SI dimension, every further base unit (currency) has exponent 0 -/
def dimOk (d : List Int) (r : List Int) : Bool :=
  (d.take 7 == r) && (d.drop 7).all (· == 0)

def sizeOk (u : UnitRec) (r : RefUnit) : Bool := closeQ u.mulNum u.mulDen r.num r.den 100

/-- offsets (degC, degF): zero exactly where the reference has none, otherwise within 1e-9 relative -/
def offOk (u : UnitRec) (r : RefUnit) : Bool :=
  if r.offNum = 0 then u.offNum == 0 else closeQ u.offNum u.offDen r.offNum r.offDen 1000000000

/-- a physical unit agrees with its reference entry (a unit without an entry is not judged) -/
def physOk (rs : List RefUnit) (u : UnitRec) : Bool :=
  u.cash || match findRef rs u.symbol with
    | some r => dimOk u.dim r.dim && sizeOk u r && offOk u r
    | none => true

/-- every reference entry is a registered, non-currency unit symbol -/
def refCovered (t : UnitTable) (r : RefUnit) : Bool :=
  match assoc t.symbols r.symbol with
  | some i => match t.units[i]? with
    | some u => !u.cash && eqCp u.symbol r.symbol
    | none => false
  | none => false

/-- `1 a = k b` between two resolved spellings: same dimension, no offsets, multiples within `1/N` relative,
    and exactly equal when neither side is a Python float -/
def ratioOk (t : UnitTable) (N : Nat) (r : RefRatio) : Bool :=
  match lookupUnit t r.a, lookupUnit t r.b with
  | .ok (some x), .ok (some y) =>
    (x.unit.dim == y.unit.dim) && x.unit.offNum == 0 && y.unit.offNum == 0 && decide (0 < y.mulNum) &&
    closeQ x.mulNum x.mulDen (r.k * y.mulNum.toNat) y.mulDen N &&
    (x.mulKind == .float || y.mulKind == .float ||
      decide (x.mulNum * (y.mulDen : Int) = (r.k : Int) * y.mulNum * (x.mulDen : Int)))
  | _, _ => false

/-- `multiplier = base**exp if exp>0 else Fraction(1, base**-exp)`, recomputed -/
def prefixMultOk (p : PrefixRec) : Bool :=
  if 0 < p.exp then Nat.beq p.mulNum (p.base ^ p.exp.toNat) && Nat.beq p.mulDen 1 && p.mulKind == .int
  else Nat.beq p.mulNum 1 && Nat.beq p.mulDen (p.base ^ (-p.exp).toNat) && p.mulKind == .frac

/-- the prefix table against the reference: every prefix of the code is a reference prefix (same name, symbol,
    base and exponent) and every reference prefix is in the code's table -/
def prefixIsRef (rs : List RefPrefix) (p : PrefixRec) : Bool :=
  rs.any (fun r => eqCp r.name p.name && eqCp r.sym p.sym && Nat.beq r.base p.base && decide (r.exp = p.exp))

def prefixesMatchRef (ps : List PrefixRec) (rs : List RefPrefix) : Bool :=
  ps.all (prefixIsRef rs) &&
  rs.all (fun r => ps.any (fun p => eqCp r.name p.name && eqCp r.sym p.sym && Nat.beq r.base p.base && decide (r.exp = p.exp)))

/-- no empty prefix spelling; two prefixes sharing a name or a symbol have the same multiplier -/
def prefixesDistinct (ps : List PrefixRec) : Bool :=
  ps.all (fun p => !p.name.isEmpty && !p.sym.isEmpty &&
    ps.all (fun q => (!eqCp p.name q.name && !eqCp p.sym q.sym) || sameMultB p q))

/-- `lookup_unit(w)` is the unit with symbol `sym` and multiple `n/d` -/
def resolvesTo (t : UnitTable) (w sym : List Nat) (n : Int) (d : Nat) : Bool :=
  match lookupUnit t w with
  | .ok (some r) => eqCp r.unit.symbol sym && decide (r.mulNum * (d : Int) = n * (r.mulDen : Int))
  | _ => false

/-- `lookup_unit(w)` is (a possibly prefixed) unit with symbol `sym` -/
def resolvesSym (t : UnitTable) (w sym : List Nat) (pre : Bool) : Bool :=
  match lookupUnit t w with
  | .ok (some r) => eqCp r.unit.symbol sym && r.prefixed == pre
  | _ => false

def resolvesNone (t : UnitTable) (w : List Nat) : Bool :=
  match lookupUnit t w with
  | .ok none => true
  | _ => false

def refusesPrefix (t : UnitTable) (w : List Nat) : Bool :=
  match lookupUnit t w with
  | .error .invalidPrefix => true
  | _ => false

end KaVerif.Units
