import KaVerif.Model.Lexer
import Mathlib.Data.Nat.Digits.Defs
set_option linter.unusedSimpArgs false

namespace KaVerif.Lexer
open KaVerif

def shiftTok (k : Nat) (t : Token) : Token := { t with b := t.b + k, e := t.e + k }

def shiftErr (k : Nat) : LexErr → LexErr
  | .unknownToken i => .unknownToken (i + k)
  | .badNumber i => .badNumber (i + k)
  | .unclosedString i => .unclosedString (i + k)
  | .unclosedInstant i => .unclosedInstant (i + k)
  | .outOfFuel => .outOfFuel

def shiftRes (k : Nat) : Except LexErr (Option Token) → Except LexErr (Option Token)
  | .ok none => .ok none
  | .ok (some t) => .ok (some (shiftTok k t))
  | .error e => .error (shiftErr k e)

theorem drop_succ_drop (i : Nat) (s : List Char) : (s.drop i).drop (0 + 1) = s.drop (i + 1) := by
  simp [List.drop_drop]

theorem readString_suffix (i : Nat) (s : List Char) :
    readString i s = shiftRes i (readString 0 (s.drop i)) := by
  unfold readString
  simp only [drop_succ_drop]
  cases scanString (s.drop (i + 1)) with
  | none => simp [shiftRes, shiftErr]
  | some k => simp [shiftRes, shiftTok]; omega

theorem readInstant_suffix (i : Nat) (s : List Char) :
    readInstant i s = shiftRes i (readInstant 0 (s.drop i)) := by
  unfold readInstant
  simp only [drop_succ_drop]
  cases scanInstant (s.drop (i + 1)) with
  | none => simp [shiftRes, shiftErr]
  | some k => simp [shiftRes, shiftTok]; omega

theorem alphaAt_suffix (i k : Nat) (s : List Char) : alphaAt s (i + k) = alphaAt (s.drop i) (0 + k) := by
  unfold alphaAt; simp [List.getElem?_drop]

theorem constAccepts_suffix (alpha : List String) (i : Nat) (s : List Char) (t : String) :
    constAccepts alpha i s t = constAccepts alpha 0 (s.drop i) t := by
  unfold constAccepts; rw [alphaAt_suffix]; simp

theorem scanConst_suffix (alpha : List String) (i : Nat) (s : List Char) (ts : List String) :
    scanConst alpha i s ts = (scanConst alpha 0 (s.drop i) ts).map (shiftTok i) := by
  induction ts with
  | nil => simp [scanConst]
  | cons t ts ih =>
    unfold scanConst
    rw [constAccepts_suffix]
    split
    · simp [shiftTok]; omega
    · exact ih

theorem tw_dw_length (p : Char → Bool) (r : List Char) :
    (r.takeWhile p).length + (r.dropWhile p).length = r.length := by
  have := congrArg List.length (List.takeWhile_append_dropWhile (p := p) (l := r))
  rw [List.length_append] at this; exact this

theorem tw_length_le (p : Char → Bool) (r : List Char) : (r.takeWhile p).length ≤ r.length := by
  have := tw_dw_length p r; omega

/-- position `k` of a string body holds a double quote that is not preceded by a backslash -/
def Unescaped (body : List Char) : Nat → Prop
  | 0 => body[0]? = some '"'
  | k + 1 => body[k + 1]? = some '"' ∧ body[k]? ≠ some '\\'

theorem unescaped_skip (r : List Char) (j : Nat) :
    Unescaped ('\\' :: '"' :: r) (j + 2) ↔ Unescaped r j := by
  cases j with
  | zero => simp [Unescaped]
  | succ j => simp [Unescaped]

theorem unescaped_other (c : Char) (r : List Char) (h : ∀ r', c = '\\' → r = '"' :: r' → False) (j : Nat) :
    Unescaped (c :: r) (j + 1) ↔ Unescaped r j := by
  cases j with
  | zero =>
    simp only [Unescaped, List.getElem?_cons_succ, List.getElem?_cons_zero]
    constructor
    · exact fun h' => h'.1
    · intro h'
      refine ⟨h', ?_⟩
      intro hc
      cases r with
      | nil => simp at h'
      | cons d r' =>
        simp at h' hc
        exact h r' hc (by rw [h'])
  | succ j => simp [Unescaped]

/-- `scanString` finds exactly the first unescaped quote. -/
theorem scanString_some (r : List Char) : ∀ k, scanString r = some k →
    Unescaped r k ∧ ∀ j, j < k → ¬ Unescaped r j := by
  induction r using scanString.induct with
  | case1 => intro k h; simp [scanString] at h
  | case2 r ih =>
    intro k h
    rw [scanString.eq_2] at h
    simp at h
    obtain ⟨k', hk', rfl⟩ := h
    have ⟨h1, h2⟩ := ih k' hk'
    refine ⟨(unescaped_skip r k').2 h1, ?_⟩
    intro j hj
    match j with
    | 0 => simp [Unescaped]
    | 1 => simp [Unescaped]
    | j + 2 => rw [unescaped_skip]; exact h2 j (by omega)
  | case3 tail =>
    intro k h
    rw [scanString.eq_3] at h
    simp at h; subst h
    exact ⟨by simp [Unescaped], fun j hj => by omega⟩
  | case4 c r h1 h2 ih =>
    intro k h
    rw [scanString.eq_4 _ _ h1 h2] at h
    simp at h
    obtain ⟨k', hk', rfl⟩ := h
    have ⟨h3, h4⟩ := ih k' hk'
    refine ⟨(unescaped_other c r h1 k').2 h3, ?_⟩
    intro j hj
    match j with
    | 0 => simp [Unescaped]; exact fun hc => h2 hc
    | j + 1 => rw [unescaped_other c r h1]; exact h4 j (by omega)

theorem scanString_none (r : List Char) : scanString r = none → ∀ j, ¬ Unescaped r j := by
  induction r using scanString.induct with
  | case1 => intro _ j; cases j <;> simp [Unescaped]
  | case2 r ih =>
    intro h j
    rw [scanString.eq_2] at h
    simp at h
    match j with
    | 0 => simp [Unescaped]
    | 1 => simp [Unescaped]
    | j + 2 => rw [unescaped_skip]; exact ih h j
  | case3 tail => intro h; rw [scanString.eq_3] at h; simp at h
  | case4 c r h1 h2 ih =>
    intro h j
    rw [scanString.eq_4 _ _ h1 h2] at h
    simp at h
    match j with
    | 0 => simp [Unescaped]; exact fun hc => h2 hc
    | j + 1 => rw [unescaped_other c r h1]; exact ih h j

theorem unescaped_lt {r : List Char} {k : Nat} (h : Unescaped r k) : k < r.length := by
  cases k with
  | zero => simp [Unescaped] at h; cases r <;> simp_all
  | succ k =>
    have := h.1
    rcases Nat.lt_or_ge (k + 1) r.length with hl | hl
    · exact hl
    · rw [List.getElem?_eq_none hl] at this; simp at this

/-- the list does not start with a character of class `p` (it is empty or its head is outside `p`) -/
def NoStart (p : Char → Bool) (r : List Char) : Prop := ∀ c, r.head? = some c → p c = false

theorem noStart_nil (p : Char → Bool) : NoStart p [] := by intro c h; simp at h

theorem noStart_cons {p : Char → Bool} {c : Char} {r : List Char} : NoStart p (c :: r) ↔ p c = false := by
  simp [NoStart]

theorem dw_noStart (p : Char → Bool) (r : List Char) : NoStart p (r.dropWhile p) := by
  induction r with
  | nil => exact noStart_nil p
  | cons c r ih =>
    rw [List.dropWhile_cons]
    split
    · exact ih
    · rename_i h; rw [noStart_cons]; simpa using h

theorem tw_all (p : Char → Bool) (r : List Char) : ∀ c ∈ r.takeWhile p, p c = true := by
  induction r with
  | nil => simp
  | cons c r ih =>
    rw [List.takeWhile_cons]
    split
    · rename_i h; intro d hd; simp at hd; rcases hd with rfl | hd; exact h; exact ih d hd
    · simp

theorem tw_append_stop {p : Char → Bool} {a b : List Char} (ha : ∀ c ∈ a, p c = true) (hb : NoStart p b) :
    (a ++ b).takeWhile p = a ∧ (a ++ b).dropWhile p = b := by
  induction a with
  | nil =>
    cases b with
    | nil => simp
    | cons c b => have := noStart_cons.1 hb; simp [List.takeWhile_cons, List.dropWhile_cons, this]
  | cons c a ih =>
    have hc := ha c (by simp)
    have := ih (fun d hd => ha d (by simp [hd]))
    simp [List.takeWhile_cons, List.dropWhile_cons, hc, this]

theorem tw_eq_nil_of_noStart {p : Char → Bool} {r : List Char} (h : NoStart p r) : r.takeWhile p = [] ∧ r.dropWhile p = r := by
  simpa using tw_append_stop (a := []) (p := p) (by simp) h

theorem noStart_of_tw_nil {p : Char → Bool} {r : List Char} (h : r.takeWhile p = []) : NoStart p r := by
  cases r with
  | nil => exact noStart_nil p
  | cons c r =>
    rw [noStart_cons]
    rw [List.takeWhile_cons] at h
    split at h
    · simp at h
    · rename_i hc; simpa using hc

theorem isEmpty_eq_false_iff {α} {l : List α} : l.isEmpty = false ↔ l ≠ [] := by
  cases l <;> simp

theorem afterChar_some {c : Char} {r r' : List Char} : afterChar c r = some r' ↔ r = c :: r' := by
  cases r with
  | nil => simp [afterChar]
  | cons d r =>
    simp only [afterChar]
    by_cases h : d = c
    · subst h; simp
    · simp [h]

theorem afterChar_none {c : Char} {r : List Char} : afterChar c r = none ↔ r.head? ≠ some c := by
  cases r with
  | nil => simp [afterChar]
  | cons d r =>
    simp only [afterChar]
    by_cases h : d = c
    · subst h; simp
    · simp [h]

/-- what group 1 of `NUM_REGEX` is, as a statement about the text -/
structure MantSpec (r ip : List Char) (dot : Bool) (fp rest : List Char) : Prop where
  eq : r = ip ++ ((if dot then ['.'] else []) ++ (fp ++ rest))
  ipd : ∀ c ∈ ip, isDigit c = true
  fpd : ∀ c ∈ fp, isDigit c = true
  stop : NoStart isDigit rest
  nodot : dot = false → ip ≠ [] ∧ fp = [] ∧ rest.head? ≠ some '.'
  withdot : dot = true → ip ≠ [] ∨ fp ≠ []

theorem matchMant_inv {r ip : List Char} {dot : Bool} {fp : List Char} (h : matchMant r = some (ip, dot, fp)) :
    ∃ rest, MantSpec r ip dot fp rest := by
  have hsplit := (List.takeWhile_append_dropWhile (p := isDigit) (l := r)).symm
  have hall := tw_all isDigit r
  have hstop := dw_noStart isDigit r
  unfold matchMant matchAlt1 matchAlt2 at h
  simp only at h
  by_cases hds : r.takeWhile isDigit = []
  · -- no leading digit: only the second alternative can match
    rw [hds] at hsplit
    simp only [hds, List.isEmpty_nil, if_true, Option.orElse] at h
    cases hdw : afterChar '.' (r.dropWhile isDigit) with
    | none => rw [hdw] at h; simp at h
    | some r2 =>
      rw [hdw] at h
      rw [afterChar_some] at hdw
      simp only at h
      by_cases hfs : r2.takeWhile isDigit = []
      · simp [hfs] at h
      · simp [hfs] at h
        obtain ⟨rfl, rfl, rfl⟩ := h
        refine ⟨r2.dropWhile isDigit, ⟨?_, by simp, tw_all isDigit r2, dw_noStart isDigit r2, by simp, ?_⟩⟩
        · simp [List.takeWhile_append_dropWhile]; rw [hsplit]; simpa using hdw
        · intro _; right; exact hfs
  · -- leading digits: the first alternative matches
    have hds' : (r.takeWhile isDigit).isEmpty = false := isEmpty_eq_false_iff.2 hds
    simp only [hds', if_false] at h
    cases hdw : afterChar '.' (r.dropWhile isDigit) with
    | none =>
      rw [hdw] at h; simp [Option.orElse] at h
      obtain ⟨rfl, rfl, rfl⟩ := h
      rw [afterChar_none] at hdw
      exact ⟨r.dropWhile isDigit, ⟨by simp [← hsplit], hall, by simp, hstop, by simp [hds]; exact hdw, by simp⟩⟩
    | some r2 =>
      rw [hdw] at h; simp [Option.orElse] at h
      obtain ⟨rfl, rfl, rfl⟩ := h
      rw [afterChar_some] at hdw
      refine ⟨r2.dropWhile isDigit, ⟨?_, hall, tw_all isDigit r2, dw_noStart isDigit r2, by simp, by simp [hds]⟩⟩
      simp [List.takeWhile_append_dropWhile]; rw [← hdw]; exact hsplit

theorem matchMant_comp {r ip : List Char} {dot : Bool} {fp rest : List Char} (h : MantSpec r ip dot fp rest) :
    matchMant r = some (ip, dot, fp) := by
  obtain ⟨heq, hip, hfp, hstop, hnd, hwd⟩ := h
  subst heq
  unfold matchMant matchAlt1 matchAlt2
  simp only
  cases dot with
  | false =>
    obtain ⟨h1, h2, h3⟩ := hnd rfl
    subst h2
    have ⟨e1, e2⟩ := tw_append_stop (p := isDigit) (a := ip) (b := rest) hip hstop
    simp only [Bool.false_eq_true, if_false, List.nil_append]
    rw [e1, e2]
    have : afterChar '.' rest = none := afterChar_none.2 h3
    simp [isEmpty_eq_false_iff.2 h1, this, Option.orElse]
  | true =>
    simp only [if_true]
    have ⟨e1, e2⟩ := tw_append_stop (p := isDigit) (a := ip) (b := ['.'] ++ (fp ++ rest)) hip (by
      rw [List.singleton_append, noStart_cons]; decide)
    have ⟨e3, e4⟩ := tw_append_stop (p := isDigit) (a := fp) (b := rest) hfp hstop
    rw [e1, e2]
    have : afterChar '.' (['.'] ++ (fp ++ rest)) = some (fp ++ rest) := by rw [afterChar_some]; rfl
    rw [this]; simp only [e3]
    by_cases hipn : ip = []
    · subst hipn
      have hfn : fp ≠ [] := by rcases hwd rfl with h | h; exact absurd rfl h; exact h
      simp [Option.orElse, isEmpty_eq_false_iff.2 hfn]
    · simp [Option.orElse, isEmpty_eq_false_iff.2 hipn]

theorem signTail_some {r r' : List Char} {c : Char} :
    signTail r = some (c, r') ↔ r = c :: r' ∧ (c = '-' ∨ c = '+') := by
  cases r with
  | nil => simp [signTail]
  | cons d r =>
    simp only [signTail]
    by_cases h : (d == '-' || d == '+') = true
    · simp only [h, if_true]
      simp at h
      constructor
      · intro h'; simp at h'; obtain ⟨rfl, rfl⟩ := h'; exact ⟨rfl, h⟩
      · intro ⟨h1, _⟩; simp at h1; simp [h1]
    · simp only [h, if_false]
      simp at h
      constructor
      · intro h'; simp at h'
      · intro ⟨h1, h2⟩; simp at h1; obtain ⟨rfl, rfl⟩ := h1; rcases h2 with h2 | h2 <;> simp [h2] at h

theorem signTail_none {r : List Char} :
    signTail r = none ↔ ∀ c, r.head? = some c → c ≠ '-' ∧ c ≠ '+' := by
  cases r with
  | nil => simp [signTail]
  | cons d r =>
    simp only [signTail]
    by_cases h : (d == '-' || d == '+') = true
    · simp only [h, if_true]; simp at h; simp; intro h1; rcases h with h | h; exact absurd h h1; exact h
    · simp only [h, if_false]; simp at h; simpa using h

/-- group 4 of `NUM_REGEX` as a statement about the text: `e`, an optional sign, at least one digit,
    and no further digit after them -/
structure ExpSpec (r : List Char) (sg : Option Char) (ds rest : List Char) : Prop where
  eq : r = 'e' :: (sg.toList ++ (ds ++ rest))
  sign : sg = none ∨ sg = some '-' ∨ sg = some '+'
  dsd : ∀ c ∈ ds, isDigit c = true
  ne : ds ≠ []
  stop : NoStart isDigit rest

/-- an exponent can be read at `r`: `e`, optional sign, a digit -/
def expStarts (r : List Char) : Bool :=
  match afterChar 'e' r with
  | none => false
  | some r1 =>
    match signTail r1 with
    | some (_, r2) => r2.head?.any isDigit
    | none => r1.head?.any isDigit

theorem tw_nil_iff_head {p : Char → Bool} {r : List Char} : r.takeWhile p = [] ↔ r.head?.any p = false := by
  cases r with
  | nil => simp
  | cons c r => by_cases h : p c = true <;> simp [List.takeWhile_cons, h]

theorem matchExp_none {r : List Char} : matchExp r = none ↔ expStarts r = false := by
  unfold matchExp expStarts
  cases afterChar 'e' r with
  | none => simp
  | some r1 =>
    simp only
    cases signTail r1 with
    | none =>
      simp only
      by_cases h : r1.takeWhile isDigit = []
      · simp [h, tw_nil_iff_head.1 h]
      · have : ¬ (r1.head?.any isDigit = false) := fun hc => h (tw_nil_iff_head.2 hc)
        simp [h]; simpa using this
    | some p =>
      obtain ⟨c, r2⟩ := p
      simp only
      by_cases h : r2.takeWhile isDigit = []
      · simp [h, tw_nil_iff_head.1 h]
      · have : ¬ (r2.head?.any isDigit = false) := fun hc => h (tw_nil_iff_head.2 hc)
        simp [h]; simpa using this

theorem matchExp_inv {r : List Char} {sg : Option Char} {ds : List Char} (h : matchExp r = some (sg, ds)) :
    ∃ rest, ExpSpec r sg ds rest := by
  unfold matchExp at h
  cases h1 : afterChar 'e' r with
  | none => simp [h1] at h
  | some r1 =>
    rw [afterChar_some] at h1
    simp only [h1, afterChar, beq_self_eq_true, if_true] at h
    cases h2 : signTail r1 with
    | none =>
      rw [h2] at h; simp only at h
      by_cases hd : r1.takeWhile isDigit = []
      · simp [hd] at h
      · simp [hd] at h
        obtain ⟨rfl, rfl⟩ := h
        exact ⟨r1.dropWhile isDigit, ⟨by simp [h1, List.takeWhile_append_dropWhile], Or.inl rfl, tw_all _ _, hd, dw_noStart _ _⟩⟩
    | some p =>
      obtain ⟨c, r2⟩ := p
      rw [h2] at h; simp only at h
      rw [signTail_some] at h2
      by_cases hd : r2.takeWhile isDigit = []
      · simp [hd] at h
      · simp [hd] at h
        obtain ⟨rfl, rfl⟩ := h
        refine ⟨r2.dropWhile isDigit, ⟨by simp [h1, h2.1, List.takeWhile_append_dropWhile], ?_, tw_all _ _, hd, dw_noStart _ _⟩⟩
        rcases h2.2 with h | h <;> simp [h]

theorem matchExp_comp {r : List Char} {sg : Option Char} {ds rest : List Char} (h : ExpSpec r sg ds rest) :
    matchExp r = some (sg, ds) := by
  obtain ⟨heq, hsg, hd, hne, hstop⟩ := h
  subst heq
  have ⟨e1, _⟩ := tw_append_stop (p := isDigit) (a := ds) (b := rest) hd hstop
  unfold matchExp
  simp only [afterChar, beq_self_eq_true, if_true]
  rcases hsg with rfl | rfl | rfl
  · have : signTail (ds ++ rest) = none := by
      rw [signTail_none]
      intro c hc
      cases ds with
      | nil => exact absurd rfl hne
      | cons d ds =>
        simp at hc; subst hc
        have := hd d (by simp)
        constructor <;> (intro hc; subst hc; revert this; decide)
    simp [this, e1, hne]
  · have : signTail ('-' :: (ds ++ rest)) = some ('-', ds ++ rest) := by rw [signTail_some]; simp
    simp [this, e1, hne]
  · have : signTail ('+' :: (ds ++ rest)) = some ('+', ds ++ rest) := by rw [signTail_some]; simp
    simp [this, e1, hne]

theorem drop_mant (ip : List Char) (dot : Bool) (fp rest : List Char) :
    (ip ++ ((if dot then ['.'] else []) ++ (fp ++ rest))).drop (mantLen (ip, dot, fp)) = rest := by
  unfold mantLen
  cases dot with
  | false =>
    simp only [Bool.false_eq_true, if_false, List.nil_append, Nat.add_zero]
    rw [← List.append_assoc, ← List.length_append, List.drop_left]
  | true =>
    simp only [if_true]
    have : ip ++ (['.'] ++ (fp ++ rest)) = (ip ++ ['.'] ++ fp) ++ rest := by simp
    rw [this]
    have : ip.length + 1 + fp.length = (ip ++ ['.'] ++ fp).length := by simp; omega
    rw [this, List.drop_left]

theorem mantSpec_length {r ip : List Char} {dot : Bool} {fp rest : List Char} (h : MantSpec r ip dot fp rest) :
    r.length = mantLen (ip, dot, fp) + rest.length := by
  rw [h.eq]; unfold mantLen; cases dot <;> simp <;> omega

/-- `NUM_REGEX.match` as a statement about the text -/
theorem numRegex_some_iff {r : List Char} {m : NumMatch} :
    numRegex r = some m ↔ ∃ rest, MantSpec r m.ip m.dot m.fp rest ∧ m.exp = matchExp rest := by
  constructor
  · intro h
    unfold numRegex at h
    cases hm : matchMant r with
    | none => simp [hm] at h
    | some p =>
      obtain ⟨ip, dot, fp⟩ := p
      obtain ⟨rest, hs⟩ := matchMant_inv hm
      simp only [hm, Option.some.injEq] at h
      subst h
      refine ⟨rest, hs, ?_⟩
      simp only
      conv => rhs; rw [← drop_mant ip dot fp rest, ← hs.eq]
  · intro ⟨rest, hs, he⟩
    unfold numRegex
    rw [matchMant_comp hs]
    simp only
    have : r.drop (mantLen (m.ip, m.dot, m.fp)) = rest := by
      conv => lhs; rw [hs.eq]
      exact drop_mant _ _ _ _
    rw [this, ← he]

theorem numRegex_none_iff {r : List Char} : numRegex r = none ↔ matchMant r = none := by
  unfold numRegex
  cases matchMant r <;> simp

theorem expLen_le {rest : List Char} : expLen (matchExp rest) ≤ rest.length := by
  cases h : matchExp rest with
  | none => simp [expLen]
  | some p =>
    obtain ⟨sg, ds⟩ := p
    obtain ⟨rest', hs⟩ := matchExp_inv h
    rw [hs.eq]
    rcases hs.sign with rfl | rfl | rfl <;> simp [expLen] <;> omega

theorem mantLen_pos {r ip : List Char} {dot : Bool} {fp rest : List Char} (h : MantSpec r ip dot fp rest) :
    1 ≤ mantLen (ip, dot, fp) := by
  unfold mantLen
  cases dot with
  | true => simp; omega
  | false =>
    have := (h.nodot rfl).1
    have : 1 ≤ ip.length := by cases ip; exact absurd rfl this; simp
    simp; omega

/-- the match is non-empty and inside the text -/
theorem numRegex_len {r : List Char} {m : NumMatch} (h : numRegex r = some m) :
    1 ≤ mantLen (m.ip, m.dot, m.fp) ∧ m.len ≤ r.length := by
  obtain ⟨rest, hs, he⟩ := numRegex_some_iff.1 h
  refine ⟨mantLen_pos hs, ?_⟩
  unfold NumMatch.len
  rw [mantSpec_length hs, he]
  have := expLen_le (rest := rest)
  omega

theorem readNumToken_suffix (i : Nat) (s : List Char) :
    readNumToken i s = shiftRes i (readNumToken 0 (s.drop i)) := by
  unfold readNumToken
  simp only [List.drop_zero, List.getElem?_drop, Nat.zero_add]
  cases matchBased (s.drop i) with
  | some p =>
    obtain ⟨m, hs⟩ := p
    simp only
    cases basedValue m hs with
    | none => simp [shiftRes, shiftErr]
    | some v => simp [shiftRes, shiftTok]; omega
  | none =>
    simp only
    cases hn : numRegex (s.drop i) with
    | none => simp [shiftRes, shiftErr]
    | some m =>
      have hpos := (numRegex_len hn).1
      have hlen : 1 ≤ m.len := by unfold NumMatch.len; omega
      simp only
      by_cases hr : rangeCase m s[i + m.len]? = true
      · simp only [hr, if_true]; simp [shiftRes, shiftTok]; omega
      · simp only [hr, if_false]
        cases numValue m with
        | none => simp [shiftRes, shiftErr]
        | some v => simp [shiftRes, shiftTok]; omega

theorem numericAt_suffix (i k : Nat) (s : List Char) : numericAt s (i + k) = numericAt (s.drop i) (0 + k) := by
  unfold numericAt; simp [List.getElem?_drop]

/-- `read_token(i, s)` is `read_token(0, s[i:])` with every index moved by `i`. -/
theorem readToken_suffix (i : Nat) (s : List Char) :
    readToken i s = shiftRes i (readToken 0 (s.drop i)) := by
  unfold readToken
  rw [numericAt_suffix]
  simp only [List.getElem?_drop, Nat.add_zero, List.drop_zero]
  cases hc : s[i]? with
  | none => simp [shiftRes]
  | some c =>
    simp only
    by_cases h1 : (c == '"') = true
    · simp only [h1, if_true]; exact readString_suffix i s
    · simp only [h1, if_false]
      by_cases h2 : (c == '#') = true
      · simp only [h2, if_true]; exact readInstant_suffix i s
      · simp only [h2, if_false]
        by_cases h3 : (isNumeric c || (c == '.' && numericAt (s.drop i) (0 + 1))) = true
        · simp only [h3, if_true]; exact readNumToken_suffix i s
        · simp only [h3, if_false]
          rw [scanConst_suffix]
          cases scanConst Gen.Tokens.alphaTokens 0 (s.drop i) Gen.Tokens.constTokens with
          | some t => simp [shiftRes]
          | none =>
            simp only [Option.map_none]
            cases matchVar (s.drop i) with
            | none => simp [shiftRes]
            | some name => simp [shiftRes, shiftTok]; omega

theorem scanInstant_some (r : List Char) : ∀ k, scanInstant r = some k →
    r[k]? = some '#' ∧ ∀ j : Nat, j < k → r[j]? ≠ some '#' := by
  induction r with
  | nil => intro k h; simp [scanInstant] at h
  | cons c r ih =>
    intro k h
    rw [scanInstant.eq_2] at h
    by_cases hc : c = '#'
    · subst hc; simp at h; subst h; simp
    · simp [hc] at h
      obtain ⟨k', hk', rfl⟩ := h
      have ⟨h1, h2⟩ := ih k' hk'
      refine ⟨by simpa using h1, ?_⟩
      intro j hj
      cases j with
      | zero => simpa using hc
      | succ j => simpa using h2 j (by omega)

theorem scanInstant_none (r : List Char) : scanInstant r = none → ∀ j : Nat, r[j]? ≠ some '#' := by
  induction r with
  | nil => intro _ j; simp
  | cons c r ih =>
    intro h j
    rw [scanInstant.eq_2] at h
    by_cases hc : c = '#'
    · subst hc; simp at h
    · simp [hc] at h
      cases j with
      | zero => simpa using hc
      | succ j => simpa using ih h j

theorem getElem?_some_lt {r : List Char} {k : Nat} {c : Char} (h : r[k]? = some c) : k < r.length := by
  rcases Nat.lt_or_ge k r.length with hl | hl
  · exact hl
  · rw [List.getElem?_eq_none hl] at h; simp at h

/-- `BASED_INT_REGEX.match` as a statement about the text -/
structure BasedSpec (r : List Char) (m : Char) (hs rest : List Char) : Prop where
  eq : r = '0' :: m :: (hs ++ rest)
  letter : m = 'x' ∨ m = 'o' ∨ m = 'b' ∨ m = 'd'
  hex : ∀ c ∈ hs, isHex c = true
  ne : hs ≠ []
  stop : NoStart isHex rest

theorem matchBased_inv {r : List Char} {m : Char} {hs : List Char} (h : matchBased r = some (m, hs)) :
    ∃ rest, BasedSpec r m hs rest := by
  have key : ∀ m' r', r = '0' :: m' :: r' → ∃ rest, BasedSpec r m hs rest := by
    intro m' r' hr
    subst hr
    rw [matchBased.eq_1] at h
    by_cases hm : (m' == 'x' || m' == 'o' || m' == 'b' || m' == 'd') = true
    · simp only [hm, if_true] at h
      by_cases hh : r'.takeWhile isHex = []
      · simp [hh] at h
      · simp [hh] at h
        obtain ⟨rfl, rfl⟩ := h
        refine ⟨r'.dropWhile isHex, ⟨by simp [List.takeWhile_append_dropWhile], ?_, tw_all _ _, hh, dw_noStart _ _⟩⟩
        simpa [or_assoc] using hm
    · simp [hm] at h
  match r with
  | [] => rw [matchBased.eq_2 _ (by intro m r h; cases h)] at h; simp at h
  | [c] => rw [matchBased.eq_2 _ (by intro m r h; cases h)] at h; simp at h
  | c :: m' :: r' =>
    by_cases hc : c = '0'
    · subst hc; exact key m' r' rfl
    · rw [matchBased.eq_2 _ (by intro m r h; simp at h; exact hc h.1)] at h; simp at h

theorem matchBased_comp {r : List Char} {m : Char} {hs rest : List Char} (h : BasedSpec r m hs rest) :
    matchBased r = some (m, hs) := by
  obtain ⟨heq, hm, hhex, hne, hstop⟩ := h
  subst heq
  rw [matchBased.eq_1]
  have ⟨e1, _⟩ := tw_append_stop (p := isHex) (a := hs) (b := rest) hhex hstop
  have : (m == 'x' || m == 'o' || m == 'b' || m == 'd') = true := by
    rcases hm with rfl | rfl | rfl | rfl <;> decide
  simp [this, e1, hne]

/-- table fact (re-checked whenever `Gen/Tokens` changes): no constant token is the empty string -/
theorem constTokens_nonempty : ∀ t ∈ Gen.Tokens.constTokens, t.toList ≠ [] := by decide

theorem scanConst_some {alpha : List String} {i : Nat} {s : List Char} {ts : List String} {t : Token}
    (h : scanConst alpha i s ts = some t) :
    ∃ sp, sp ∈ ts ∧ constAccepts alpha i s sp = true ∧ t = ⟨.const sp, i, i + sp.toList.length, .none⟩ := by
  induction ts with
  | nil => simp [scanConst] at h
  | cons a ts ih =>
    unfold scanConst at h
    by_cases ha : constAccepts alpha i s a = true
    · simp only [ha, if_true, Option.some.injEq] at h
      exact ⟨a, by simp, ha, h.symm⟩
    · simp only [ha, if_false] at h
      obtain ⟨sp, h1, h2⟩ := ih h
      exact ⟨sp, by simp [h1], h2⟩

theorem constAccepts_prefix {alpha : List String} {i : Nat} {s : List Char} {sp : String}
    (h : constAccepts alpha i s sp = true) : sp.toList <+: s.drop i := by
  unfold constAccepts at h
  simp only [Bool.and_eq_true] at h
  exact List.isPrefixOf_iff_prefix.1 h.1

theorem matchVar_some {r name : List Char} (h : matchVar r = some name) :
    ∃ c r', r = c :: r' ∧ isVarStart c = true ∧ name = c :: r'.takeWhile isVarChar := by
  cases r with
  | nil => simp [matchVar] at h
  | cons c r' =>
    simp only [matchVar] at h
    by_cases hc : isVarStart c = true
    · simp [hc] at h; exact ⟨c, r', rfl, hc, h.symm⟩
    · simp [hc] at h

theorem length_drop_of_getElem? {s : List Char} {i : Nat} {c : Char} (h : s[i]? = some c) :
    i < s.length ∧ (s.drop i).length = s.length - i := by
  exact ⟨getElem?_some_lt h, by simp⟩

/-- a token returned by `read_token(i, s)` starts at `i`, is non-empty and lies inside `s` -/
theorem readToken_span {i : Nat} {s : List Char} {t : Token} (h : readToken i s = .ok (some t)) :
    t.b = i ∧ i < t.e ∧ t.e ≤ s.length := by
  unfold readToken at h
  cases hc : s[i]? with
  | none => simp [hc] at h
  | some c =>
    have hi := getElem?_some_lt hc
    simp only [hc] at h
    by_cases h1 : (c == '"') = true
    · simp only [h1, if_true] at h
      unfold readString at h
      cases hk : scanString (s.drop (i + 1)) with
      | none => simp [hk] at h
      | some k =>
        simp [hk] at h; subst h
        have := unescaped_lt (scanString_some _ k hk).1
        simp at this
        simp; omega
    · simp only [h1, if_false] at h
      by_cases h2 : (c == '#') = true
      · simp only [h2, if_true] at h
        unfold readInstant at h
        cases hk : scanInstant (s.drop (i + 1)) with
        | none => simp [hk] at h
        | some k =>
          simp [hk] at h; subst h
          have := getElem?_some_lt (scanInstant_some _ k hk).1
          simp at this
          simp; omega
      · simp only [h2, if_false] at h
        by_cases h3 : (isNumeric c || (c == '.' && numericAt s (i + 1))) = true
        · simp only [h3, if_true] at h
          unfold readNumToken at h
          simp only at h
          cases hb : matchBased (s.drop i) with
          | some p =>
            obtain ⟨m, hs⟩ := p
            obtain ⟨rest, hspec⟩ := matchBased_inv hb
            have hl := congrArg List.length hspec.eq
            simp at hl
            simp only [hb] at h
            cases hv : basedValue m hs with
            | none => simp [hv] at h
            | some v =>
              simp [hv] at h; subst h
              simp; omega
          | none =>
            simp only [hb] at h
            cases hn : numRegex (s.drop i) with
            | none => simp [hn] at h
            | some m =>
              have ⟨hpos, hle⟩ := numRegex_len hn
              simp at hle
              have hlen : mantLen (m.ip, m.dot, m.fp) ≤ m.len := by unfold NumMatch.len; omega
              simp only [hn] at h
              by_cases hsp : rangeCase m s[i + m.len]? = true
              · simp only [hsp, if_true] at h
                simp at h; subst h
                unfold rangeCase at hsp
                simp only [Bool.and_eq_true] at hsp
                obtain ⟨⟨⟨_, hdot⟩, hfp⟩, _⟩ := hsp
                obtain ⟨rest, hs, _⟩ := numRegex_some_iff.1 hn
                have hfp' : m.fp = [] := by simpa using hfp
                have hip : m.ip ≠ [] := by
                  rcases hs.withdot hdot with h | h
                  · exact h
                  · exact absurd hfp' h
                have : 1 ≤ m.ip.length := by cases hm : m.ip; exact absurd hm hip; simp
                have : 2 ≤ mantLen (m.ip, m.dot, m.fp) := by simp [mantLen, hdot]; omega
                simp; omega
              · simp only [hsp, if_false] at h
                cases hv : numValue m with
                | none => simp [hv] at h
                | some v => simp [hv] at h; subst h; simp; omega
        · simp only [h3, if_false] at h
          cases hsc : scanConst Gen.Tokens.alphaTokens i s Gen.Tokens.constTokens with
          | some t' =>
            simp [hsc] at h; subst h
            obtain ⟨sp, hmem, hacc, rfl⟩ := scanConst_some hsc
            have hp := (constAccepts_prefix hacc).length_le
            have hne := constTokens_nonempty sp hmem
            have : 1 ≤ sp.toList.length := by cases hm : sp.toList; exact absurd hm hne; simp
            simp at hp
            simp; omega
          | none =>
            simp only [hsc] at h
            cases hv : matchVar (s.drop i) with
            | none => simp [hv] at h
            | some name =>
              simp [hv] at h; subst h
              obtain ⟨c', r', hr, _, rfl⟩ := matchVar_some hv
              have hl := congrArg List.length hr
              have := tw_length_le isVarChar r'
              simp at hl
              simp; omega

def shiftToks (k : Nat) : Except LexErr (List Token) → Except LexErr (List Token)
  | .ok ts => .ok (ts.map (shiftTok k))
  | .error e => .error (shiftErr k e)

theorem shiftTok_add (a b : Nat) (t : Token) : shiftTok a (shiftTok b t) = shiftTok (b + a) t := by
  simp [shiftTok]; omega

theorem shiftErr_add (a b : Nat) (e : LexErr) : shiftErr a (shiftErr b e) = shiftErr (b + a) e := by
  cases e <;> simp [shiftErr] <;> omega

theorem shiftTok_zero (t : Token) : shiftTok 0 t = t := by simp [shiftTok]
theorem shiftErr_zero (e : LexErr) : shiftErr 0 e = e := by cases e <;> simp [shiftErr]

theorem skipWs_suffix (i j : Nat) (s : List Char) : skipWs (j + i) s = skipWs j (s.drop i) + i := by
  unfold skipWs
  rw [List.drop_drop, Nat.add_comm i j]; omega

theorem skipWs_ge (i : Nat) (s : List Char) : i ≤ skipWs i s := by unfold skipWs; omega

theorem tw_getElem (p : Char → Bool) (r : List Char) (k : Nat) (h : k < (r.takeWhile p).length) :
    ∃ c, r[k]? = some c ∧ p c = true := by
  induction r generalizing k with
  | nil => simp at h
  | cons d r ih =>
    rw [List.takeWhile_cons] at h
    by_cases hd : p d = true
    · simp only [hd, if_true] at h
      cases k with
      | zero => exact ⟨d, by simp, hd⟩
      | succ k =>
        simp at h
        obtain ⟨c, h1, h2⟩ := ih k h
        exact ⟨c, by simpa using h1, h2⟩
    · simp [hd] at h

theorem tw_stop (p : Char → Bool) (r : List Char) (c : Char) (h : r[(r.takeWhile p).length]? = some c) :
    p c = false := by
  induction r with
  | nil => simp at h
  | cons d r ih =>
    rw [List.takeWhile_cons] at h
    by_cases hd : p d = true
    · simp only [hd, if_true] at h
      simp at h; exact ih h
    · simp [hd] at h; subst h; simpa using hd

theorem skipWs_space (i : Nat) (s : List Char) (k : Nat) (h1 : i ≤ k) (h2 : k < skipWs i s) :
    ∃ c, s[k]? = some c ∧ isSpace c = true := by
  unfold skipWs at h2
  obtain ⟨c, hc, hs⟩ := tw_getElem isSpace (s.drop i) (k - i) (by omega)
  rw [List.getElem?_drop] at hc
  exact ⟨c, by rw [← hc]; congr 1; omega, hs⟩

theorem skipWs_stop (i : Nat) (s : List Char) (c : Char) (h : s[skipWs i s]? = some c) : isSpace c = false := by
  unfold skipWs at h
  rw [← List.getElem?_drop] at h
  exact tw_stop isSpace _ c h

theorem readToken_error {i : Nat} {s : List Char} {e : LexErr} (h : readToken i s = .error e) :
    e = .badNumber i ∨ e = .unclosedString i ∨ e = .unclosedInstant i := by
  unfold readToken at h
  cases hc : s[i]? with
  | none => simp [hc] at h
  | some c =>
    simp only [hc] at h
    by_cases h1 : (c == '"') = true
    · simp only [h1, if_true] at h
      unfold readString at h
      cases hk : scanString (s.drop (i + 1)) <;> simp [hk] at h
      exact Or.inr (Or.inl h.symm)
    · simp only [h1, if_false] at h
      by_cases h2 : (c == '#') = true
      · simp only [h2, if_true] at h
        unfold readInstant at h
        cases hk : scanInstant (s.drop (i + 1)) <;> simp [hk] at h
        exact Or.inr (Or.inr h.symm)
      · simp only [h2, if_false] at h
        by_cases h3 : (isNumeric c || (c == '.' && numericAt s (i + 1))) = true
        · simp only [h3, if_true] at h
          unfold readNumToken at h
          simp only at h
          cases hb : matchBased (s.drop i) with
          | some p =>
            simp only [hb] at h
            cases hv : basedValue p.1 p.2 <;> simp [hv] at h
            exact Or.inl h.symm
          | none =>
            simp only [hb] at h
            cases hn : numRegex (s.drop i) with
            | none => simp [hn] at h; exact Or.inl h.symm
            | some m =>
              simp only [hn] at h
              by_cases hsp : rangeCase m s[i + m.len]? = true
              · simp [hsp] at h
              · simp only [hsp, if_false] at h
                cases hv : numValue m <;> simp [hv] at h
                exact Or.inl h.symm
        · simp only [h3, if_false] at h
          cases hsc : scanConst Gen.Tokens.alphaTokens i s Gen.Tokens.constTokens with
          | some t' => simp [hsc] at h
          | none =>
            simp only [hsc] at h
            cases hv : matchVar (s.drop i) <;> simp [hv] at h

theorem tokLoop_eq (fuel i : Nat) (s : List Char) :
    tokLoop fuel i s =
      if i < s.length then
        match fuel with
        | 0 => .error .outOfFuel
        | fuel + 1 =>
          match readToken i s with
          | .error e => .error e
          | .ok none => .error (.unknownToken i)
          | .ok (some t) =>
            match tokLoop fuel (skipWs t.e s) s with
            | .error e => .error e
            | .ok ts => .ok (t :: ts)
      else .ok [] := by
  cases fuel <;> (rw [tokLoop]; try rfl)

/-- the whole loop depends only on the suffix -/
theorem tokLoop_suffix (fuel : Nat) : ∀ (i : Nat) (s : List Char),
    tokLoop fuel i s = shiftToks i (tokLoop fuel 0 (s.drop i)) := by
  induction fuel with
  | zero =>
    intro i s
    rw [tokLoop_eq, tokLoop_eq 0 0]
    by_cases hi : i < s.length
    · have : 0 < (s.drop i).length := by rw [List.length_drop]; omega
      rw [if_pos hi, if_pos this]; simp [shiftToks, shiftErr]
    · have : ¬ 0 < (s.drop i).length := by rw [List.length_drop]; omega
      rw [if_neg hi, if_neg this]; simp [shiftToks]
  | succ fuel ih =>
    intro i s
    rw [tokLoop_eq, tokLoop_eq (fuel + 1) 0]
    by_cases hi : i < s.length
    · have : 0 < (s.drop i).length := by rw [List.length_drop]; omega
      rw [if_pos hi, if_pos this]
      simp only
      rw [readToken_suffix i s]
      cases hr : readToken 0 (s.drop i) with
      | error e => simp [shiftRes, shiftToks]
      | ok o =>
        cases o with
        | none => simp [shiftRes, shiftToks, shiftErr]
        | some t0 =>
          simp only [shiftRes]
          have hsk : skipWs (shiftTok i t0).e s = skipWs t0.e (s.drop i) + i := by
            simp only [shiftTok]; exact skipWs_suffix i t0.e s
          rw [hsk, ih (skipWs t0.e (s.drop i) + i) s, ih (skipWs t0.e (s.drop i)) (s.drop i), List.drop_drop,
            Nat.add_comm i]
          cases tokLoop fuel 0 (s.drop (skipWs t0.e (s.drop i) + i)) with
          | error e => simp [shiftToks, shiftErr_add]
          | ok ts => simp [shiftToks, shiftTok_add]
    · have : ¬ 0 < (s.drop i).length := by rw [List.length_drop]; omega
      rw [if_neg hi, if_neg this]; simp [shiftToks]

/-- enough fuel is as good as any other amount of enough fuel, and the loop never runs out of it -/
theorem tokLoop_fuel (fuel : Nat) : ∀ (fuel' i : Nat) (s : List Char),
    s.length - i ≤ fuel → s.length - i ≤ fuel' →
    tokLoop fuel i s = tokLoop fuel' i s ∧ tokLoop fuel i s ≠ .error .outOfFuel := by
  induction fuel with
  | zero =>
    intro fuel' i s h1 h2
    have hi : ¬ i < s.length := by omega
    rw [tokLoop_eq, tokLoop_eq fuel']
    simp [hi]
  | succ fuel ih =>
    intro fuel' i s h1 h2
    rw [tokLoop_eq, tokLoop_eq fuel']
    by_cases hi : i < s.length
    · cases fuel' with
      | zero => omega
      | succ fuel' =>
        simp only [hi, if_true]
        cases hr : readToken i s with
        | error e =>
          simp only
          refine ⟨trivial, ?_⟩
          rcases readToken_error hr with rfl | rfl | rfl <;> simp
        | ok o =>
          cases o with
          | none => simp
          | some t =>
            have ⟨_, hlt, _⟩ := readToken_span hr
            have hge := skipWs_ge t.e s
            have ⟨e1, e2⟩ := ih fuel' (skipWs t.e s) s (by omega) (by omega)
            simp only
            rw [← e1]
            refine ⟨rfl, ?_⟩
            cases hl : tokLoop fuel (skipWs t.e s) s with
            | error e => simp; intro h; exact e2 (by rw [hl, h])
            | ok ts => simp
    · simp [hi]

/-- `toks` segment `s` from position `p` on: every token is a non-empty span inside `s`, spans come in
    order, and every position from `p` on that is not inside a span holds a whitespace character -/
def Covers (s : List Char) : Nat → List Token → Prop
  | p, [] => ∀ k, p ≤ k → k < s.length → ∃ c, s[k]? = some c ∧ isSpace c = true
  | p, t :: ts => p ≤ t.b ∧ t.b < t.e ∧ t.e ≤ s.length
      ∧ (∀ k, p ≤ k → k < t.b → ∃ c, s[k]? = some c ∧ isSpace c = true) ∧ Covers s t.e ts

theorem tokLoop_covers (fuel : Nat) : ∀ (p : Nat) (s : List Char) (toks : List Token),
    tokLoop fuel (skipWs p s) s = .ok toks → Covers s p toks := by
  induction fuel with
  | zero =>
    intro p s toks h
    rw [tokLoop_eq] at h
    by_cases hi : skipWs p s < s.length
    · simp [hi] at h
    · simp [hi] at h; subst h
      intro k h1 h2
      exact skipWs_space p s k h1 (by omega)
  | succ fuel ih =>
    intro p s toks h
    rw [tokLoop_eq] at h
    by_cases hi : skipWs p s < s.length
    · simp only [hi, if_true] at h
      cases hr : readToken (skipWs p s) s with
      | error e => simp [hr] at h
      | ok o =>
        cases o with
        | none => simp [hr] at h
        | some t =>
          simp only [hr] at h
          cases hl : tokLoop fuel (skipWs t.e s) s with
          | error e => simp [hl] at h
          | ok ts =>
            simp [hl] at h; subst h
            have ⟨hb, hlt, hle⟩ := readToken_span hr
            have := skipWs_ge p s
            exact ⟨by omega, by omega, hle, fun k h1 h2 => skipWs_space p s k h1 (by omega), ih t.e s ts hl⟩
    · simp [hi] at h; subst h
      intro k h1 h2
      exact skipWs_space p s k h1 (by omega)

theorem tokenise_covers {s : List Char} {toks : List Token} (h : tokenise s = .ok toks) : Covers s 0 toks :=
  tokLoop_covers s.length 0 s toks h

theorem tokenise_fuel (s : List Char) : tokenise s ≠ .error .outOfFuel :=
  (tokLoop_fuel s.length s.length (skipWs 0 s) s (by omega) (by omega)).2

/-- lexing of a text that starts at a token (the state of the `while` loop after whitespace was skipped) -/
def lexFrom (r : List Char) : Except LexErr (List Token) := tokLoop r.length 0 r

theorem shiftToks_add (a b : Nat) (x : Except LexErr (List Token)) :
    shiftToks a (shiftToks b x) = shiftToks (b + a) x := by
  cases x with
  | error e => simp [shiftToks, shiftErr_add]
  | ok ts => simp [shiftToks, shiftTok_add]

theorem shiftToks_zero (x : Except LexErr (List Token)) : shiftToks 0 x = x := by
  cases x with
  | error e => simp [shiftToks, shiftErr_zero]
  | ok ts => simp [shiftToks]; exact List.map_id'' shiftTok_zero ts

theorem tokLoop_lexFrom {fuel i : Nat} {s : List Char} (h : s.length - i ≤ fuel) :
    tokLoop fuel i s = shiftToks i (lexFrom (s.drop i)) := by
  rw [tokLoop_suffix]
  unfold lexFrom
  rw [(tokLoop_fuel fuel (s.drop i).length 0 (s.drop i) (by simp; omega) (by omega)).1]

theorem tokenise_lexFrom (s : List Char) :
    tokenise s = shiftToks (skipWs 0 s) (lexFrom (s.drop (skipWs 0 s))) :=
  tokLoop_lexFrom (by omega)

/-- one iteration of the loop, on the suffix -/
theorem lexFrom_step (r : List Char) :
    lexFrom r =
      if 0 < r.length then
        match readToken 0 r with
        | .error e => .error e
        | .ok none => .error (.unknownToken 0)
        | .ok (some t) =>
          match shiftToks (skipWs t.e r) (lexFrom (r.drop (skipWs t.e r))) with
          | .error e => .error e
          | .ok ts => .ok (t :: ts)
      else .ok [] := by
  unfold lexFrom
  rw [tokLoop_eq]
  by_cases h : 0 < r.length
  · rw [if_pos h, if_pos h]
    cases hl : r.length with
    | zero => omega
    | succ n =>
      simp only
      cases hr : readToken 0 r with
      | error e => rfl
      | ok o =>
        cases o with
        | none => rfl
        | some t =>
          simp only
          have ⟨_, hlt, _⟩ := readToken_span hr
          have := skipWs_ge t.e r
          rw [tokLoop_lexFrom (by omega)]
          rfl
  · rw [if_neg h, if_neg h]

/-- leading whitespace only moves the spans -/
theorem tokenise_ws (ws r : List Char) (h : ∀ c ∈ ws, isSpace c = true) :
    tokenise (ws ++ r) = shiftToks ws.length (tokenise r) := by
  rw [tokenise_lexFrom, tokenise_lexFrom r, shiftToks_add]
  have hsk : skipWs 0 (ws ++ r) = skipWs 0 r + ws.length := by
    unfold skipWs
    simp only [List.drop_zero, Nat.zero_add]
    have h1 := (List.takeWhile_append_dropWhile (p := isSpace) (l := r)).symm
    have : (ws ++ r).takeWhile isSpace = ws ++ r.takeWhile isSpace := by
      conv => lhs; rw [h1, ← List.append_assoc]
      exact (tw_append_stop (p := isSpace) (a := ws ++ r.takeWhile isSpace) (b := r.dropWhile isSpace)
        (by intro c hc; simp at hc; rcases hc with hc | hc; exact h c hc; exact tw_all isSpace r c hc)
        (dw_noStart isSpace r)).1
    rw [this]; simp; omega
  rw [hsk]
  congr 2
  rw [Nat.add_comm, ← List.drop_drop, List.drop_left]

/-- `a` is a proper prefix of `b` -/
def properPrefix (a b : String) : Bool := a.toList.isPrefixOf b.toList && a.toList.length < b.toList.length

/-- the comment in tokens.py: "if token A is a prefix of token B, then it comes after token B in the list":
    no entry is followed, anywhere later in the list, by a proper extension of itself -/
def prefixOrdered : List String → Bool
  | [] => true
  | t :: ts => ts.all (fun u => !(properPrefix t u)) && prefixOrdered ts

/-- table fact, re-checked by the kernel whenever `Gen/Tokens` changes -/
theorem constTokens_prefixOrdered : prefixOrdered Gen.Tokens.constTokens = true := by decide

/-- table fact: an alphabetic keyword has no proper prefix in the table -/
theorem alphaTokens_noPrefix :
    Gen.Tokens.constTokens.all (fun a => Gen.Tokens.constTokens.all (fun b =>
      !(properPrefix a b && Gen.Tokens.alphaTokens.contains b))) = true := by decide

/-- table fact: no constant token contains a whitespace character -/
theorem constTokens_noSpace : ∀ t ∈ Gen.Tokens.constTokens, ∀ c ∈ t.toList, isSpace c = false := by decide

/-- table fact: the alphabetic keywords are exactly `to` and `in`, both constant tokens made of letters -/
theorem alphaTokens_eq : Gen.Tokens.alphaTokens = ["to", "in"] := by decide

theorem alphaTokens_sub : ∀ t ∈ Gen.Tokens.alphaTokens, t ∈ Gen.Tokens.constTokens ∧ ∀ c ∈ t.toList, isAlpha c = true := by decide

theorem scanConst_none {alpha : List String} {i : Nat} {s : List Char} {ts : List String} :
    scanConst alpha i s ts = none ↔ ∀ t ∈ ts, constAccepts alpha i s t = false := by
  induction ts with
  | nil => simp [scanConst]
  | cons a ts ih =>
    unfold scanConst
    by_cases ha : constAccepts alpha i s a = true
    · simp [ha]
    · simp only [ha, if_false, ih]
      simp at ha; simp [ha]; exact ih

/-- the scan returns the first accepted entry -/
theorem scanConst_first {alpha : List String} {i : Nat} {s : List Char} {ts : List String} {t : Token}
    (h : scanConst alpha i s ts = some t) :
    ∃ pre x post, ts = pre ++ x :: post ∧ (∀ u ∈ pre, constAccepts alpha i s u = false)
      ∧ constAccepts alpha i s x = true ∧ t = ⟨.const x, i, i + x.toList.length, .none⟩ := by
  induction ts with
  | nil => simp [scanConst] at h
  | cons a ts ih =>
    unfold scanConst at h
    by_cases ha : constAccepts alpha i s a = true
    · simp only [ha, if_true, Option.some.injEq] at h
      exact ⟨[], a, ts, rfl, by simp, ha, h.symm⟩
    · simp only [ha, if_false] at h
      obtain ⟨pre, x, post, h1, h2, h3, h4⟩ := ih h
      refine ⟨a :: pre, x, post, by simp [h1], ?_, h3, h4⟩
      intro u hu
      simp at hu
      rcases hu with rfl | hu
      · simpa using ha
      · exact h2 u hu

theorem prefixOrdered_append {pre : List String} {x : String} {post : List String}
    (h : prefixOrdered (pre ++ x :: post) = true) : ∀ u ∈ post, properPrefix x u = false := by
  induction pre with
  | nil =>
    simp only [List.nil_append, prefixOrdered, Bool.and_eq_true, List.all_eq_true] at h
    intro u hu
    simpa using h.1 u hu
  | cons a pre ih =>
    simp only [List.cons_append, prefixOrdered, Bool.and_eq_true] at h
    exact ih h.2

/-- two prefixes of the same text: the shorter is a prefix of the longer -/
theorem prefix_of_prefix {a b r : List Char} (ha : a <+: r) (hb : b <+: r) (hl : a.length ≤ b.length) : a <+: b :=
  List.prefix_of_prefix_length_le ha hb hl

/-- **longest match for constant tokens** on an arbitrary table with the two table facts -/
theorem scanConst_longest {alpha ts : List String} (hord : prefixOrdered ts = true)
    (halpha : ts.all (fun a => ts.all (fun b => !(properPrefix a b && alpha.contains b))) = true)
    {i : Nat} {s : List Char} {t : Token} (h : scanConst alpha i s ts = some t)
    {a : String} (ha : t.tag = .const a) :
    ∀ b ∈ ts, a.toList.length < b.toList.length → ¬ (b.toList <+: s.drop i) := by
  obtain ⟨pre, x, post, hts, hpre, hx, rfl⟩ := scanConst_first h
  simp at ha; subst ha
  intro b hb hlen hbp
  have hxp := constAccepts_prefix hx
  have hxb : properPrefix x b = true := by
    unfold properPrefix
    simp only [Bool.and_eq_true, decide_eq_true_eq]
    exact ⟨List.isPrefixOf_iff_prefix.2 (prefix_of_prefix hxp hbp (by omega)), hlen⟩
  have hxmem : x ∈ ts := by rw [hts]; simp
  -- `b` is not an alphabetic keyword
  have hbalpha : alpha.contains b = false := by
    simp only [List.all_eq_true] at halpha
    have := halpha x hxmem b hb
    simpa [hxb] using this
  -- so `b` is accepted wherever it is a prefix
  have hbacc : constAccepts alpha i s b = true := by
    unfold constAccepts
    rw [hbalpha, List.isPrefixOf_iff_prefix.2 hbp]; rfl
  -- where is `b` in the table?
  rw [hts] at hb
  simp only [List.mem_append, List.mem_cons] at hb
  rcases hb with hb | rfl | hb
  · rw [hpre b hb] at hbacc; simp at hbacc
  · simp at hlen
  · rw [hts] at hord
    rw [prefixOrdered_append hord b hb] at hxb; simp at hxb

theorem string_eq_of_toList {a b : String} (h : a.toList = b.toList) : a = b := by
  have := congrArg String.ofList h
  simpa using this

theorem prefix_eq_of_length {a b r : List Char} (ha : a <+: r) (hb : b <+: r) (hl : a.length = b.length) : a = b := by
  have h1 := prefix_of_prefix ha hb (by omega)
  exact h1.eq_of_length hl

/-- an accepted entry none of whose proper extensions (in the table) matches is the entry the scan returns -/
theorem scanConst_complete {alpha ts : List String} (hord : prefixOrdered ts = true)
    {i : Nat} {s : List Char} {x : String} (hx : x ∈ ts) (hacc : constAccepts alpha i s x = true)
    (hnoext : ∀ b ∈ ts, properPrefix x b = true → ¬ (b.toList <+: s.drop i)) :
    scanConst alpha i s ts = some ⟨.const x, i, i + x.toList.length, .none⟩ := by
  cases hsc : scanConst alpha i s ts with
  | none => rw [scanConst_none.1 hsc x hx] at hacc; simp at hacc
  | some t =>
    obtain ⟨pre, y, post, hts, hpre, hy, rfl⟩ := scanConst_first hsc
    have hxp := constAccepts_prefix hacc
    have hyp := constAccepts_prefix hy
    have hymem : y ∈ ts := by rw [hts]; simp
    rcases Nat.lt_trichotomy y.toList.length x.toList.length with hl | hl | hl
    · -- y is a proper prefix of x: then x may not come later, and it is not earlier (it is accepted)
      have hyx : properPrefix y x = true := by
        unfold properPrefix
        simp only [Bool.and_eq_true, decide_eq_true_eq]
        exact ⟨List.isPrefixOf_iff_prefix.2 (prefix_of_prefix hyp hxp (by omega)), hl⟩
      rw [hts] at hx
      simp only [List.mem_append, List.mem_cons] at hx
      rcases hx with hx | rfl | hx
      · rw [hpre x hx] at hacc; simp at hacc
      · omega
      · rw [hts] at hord
        rw [prefixOrdered_append hord x hx] at hyx; simp at hyx
    · have := string_eq_of_toList (prefix_eq_of_length hyp hxp hl)
      subst this; rfl
    · have hxy : properPrefix x y = true := by
        unfold properPrefix
        simp only [Bool.and_eq_true, decide_eq_true_eq]
        exact ⟨List.isPrefixOf_iff_prefix.2 (prefix_of_prefix hxp hyp (by omega)), hl⟩
      exact absurd hyp (hnoext y hymem hxy)

/-- the dispatch of `read_token` reaches the constant-token scan -/
def reachesConst (r : List Char) : Prop :=
  ∃ c, r.head? = some c ∧ c ≠ '"' ∧ c ≠ '#' ∧ isNumeric c = false ∧ (c = '.' → numericAt r 1 = false)

theorem readToken_of_reachesConst {r : List Char} (h : reachesConst r) :
    readToken 0 r =
      match scanConst Gen.Tokens.alphaTokens 0 r Gen.Tokens.constTokens with
      | some t => .ok (some t)
      | none =>
        match matchVar r with
        | some name => .ok (some ⟨.var, 0, 0 + name.length, .name (String.ofList name)⟩)
        | none => .ok none := by
  obtain ⟨c, hc, h1, h2, h3, h4⟩ := h
  unfold readToken
  have : r[0]? = some c := by cases r <;> simp_all
  simp only [this, List.drop_zero]
  have e1 : (c == '"') = false := by simpa using h1
  have e2 : (c == '#') = false := by simpa using h2
  have e3 : (isNumeric c || (c == '.' && numericAt r (0 + 1))) = false := by
    by_cases hd : c = '.'
    · simp [h3, h4 hd]
    · simp [h3, hd]
  simp only [e1, e2, e3, Bool.false_eq_true, if_false]
  rfl

/-- complete characterisation of when a constant token is read -/
theorem readToken_const {r : List Char} {x : String} (hr : reachesConst r) (hx : x ∈ Gen.Tokens.constTokens)
    (hacc : constAccepts Gen.Tokens.alphaTokens 0 r x = true)
    (hnoext : ∀ b ∈ Gen.Tokens.constTokens, properPrefix x b = true → ¬ (b.toList <+: r)) :
    readToken 0 r = .ok (some ⟨.const x, 0, x.toList.length, .none⟩) := by
  rw [readToken_of_reachesConst hr,
    scanConst_complete constTokens_prefixOrdered hx hacc (by simpa using hnoext)]
  simp

theorem digit_ne_special {c : Char} (h : isDigit c = true) :
    c ≠ '"' ∧ c ≠ '#' ∧ c ≠ 'x' ∧ c ≠ 'o' ∧ c ≠ 'b' ∧ c ≠ 'd' ∧ c ≠ 'e' ∧ c ≠ '.' ∧ c ≠ '-' ∧ c ≠ '+' := by
  refine ⟨?_, ?_, ?_, ?_, ?_, ?_, ?_, ?_, ?_, ?_⟩ <;> (intro hc; subst hc; revert h; decide)

theorem readToken_digit {c : Char} {r' : List Char} (hc : isDigit c = true) :
    readToken 0 (c :: r') = readNumToken 0 (c :: r') := by
  have h := digit_ne_special hc
  unfold readToken
  have e1 : (c == '"') = false := by simpa using h.1
  have e2 : (c == '#') = false := by simpa using h.2.1
  simp [e1, e2, isNumeric, hc]

theorem matchBased_none {r : List Char}
    (h : ∀ m, r[1]? = some m → m ≠ 'x' ∧ m ≠ 'o' ∧ m ≠ 'b' ∧ m ≠ 'd') : matchBased r = none := by
  cases hb : matchBased r with
  | none => rfl
  | some p =>
    obtain ⟨m, hs⟩ := p
    obtain ⟨rest, hspec⟩ := matchBased_inv hb
    have := h m (by rw [hspec.eq]; simp)
    rcases hspec.letter with rfl | rfl | rfl | rfl <;> simp at this

theorem readNumToken_regular {r : List Char} {m : NumMatch} (hb : matchBased r = none)
    (hn : numRegex r = some m) (hr : rangeCase m r[m.len]? = false) :
    readNumToken 0 r =
      match numValue m with
      | some v => .ok (some ⟨.num, 0, m.len, .num v⟩)
      | none => .error (.badNumber 0) := by
  unfold readNumToken
  simp only [List.drop_zero, hb, hn, Nat.zero_add, hr, Bool.false_eq_true, if_false]
  rfl

theorem readNumToken_range {r : List Char} {m : NumMatch} (hb : matchBased r = none)
    (hn : numRegex r = some m) (hr : rangeCase m r[m.len]? = true) :
    readNumToken 0 r = .ok (some ⟨.num, 0, m.len - 1, .num (.int ((digitsVal 10 m.ip : Nat) : Int))⟩) := by
  unfold readNumToken
  simp only [List.drop_zero, hb, hn, Nat.zero_add, hr, if_true]

/-- what may follow a numeral for it to be read as spelled: not a digit, not a letter, not a point -/
def NumEnd (rest : List Char) : Prop :=
  ∀ c, rest.head? = some c → isDigit c = false ∧ isLetter c = false ∧ c ≠ '.'

theorem numEnd_nil : NumEnd [] := by intro c h; simp at h

theorem second_digits {ds rest : List Char} (hne : ds ≠ []) (hd : ∀ c ∈ ds, isDigit c = true) {m : Char}
    (h : (ds ++ rest)[1]? = some m) : isDigit m = true ∨ rest.head? = some m := by
  match ds, hne with
  | [d], _ => right; cases rest <;> simp_all
  | d :: d2 :: ds', _ => left; simp at h; subst h; exact hd d2 (by simp)

theorem letters_xobde : isLetter 'x' = true ∧ isLetter 'o' = true ∧ isLetter 'b' = true ∧ isLetter 'd' = true
    ∧ isLetter 'e' = true := by decide

/-- decimal integer literal -/
theorem readNumToken_int {ds rest : List Char} (hne : ds ≠ []) (hd : ∀ c ∈ ds, isDigit c = true)
    (hend : NumEnd rest) :
    readNumToken 0 (ds ++ rest) =
      .ok (some ⟨.num, 0, ds.length, .num (.int ((digitsVal 10 ds : Nat) : Int))⟩) := by
  have hb : matchBased (ds ++ rest) = none := by
    apply matchBased_none
    intro m hm
    rcases second_digits hne hd hm with h | h
    · have := digit_ne_special h; exact ⟨this.2.2.1, this.2.2.2.1, this.2.2.2.2.1, this.2.2.2.2.2.1⟩
    · have := (hend m h).2.1
      refine ⟨?_, ?_, ?_, ?_⟩ <;> (intro hc; subst hc; revert this; decide)
  have hstop : NoStart isDigit rest := fun c hc => (hend c hc).1
  have hexp : matchExp rest = none := by
    rw [matchExp_none]
    unfold expStarts
    cases ha : afterChar 'e' rest with
    | none => rfl
    | some r1 =>
      rw [afterChar_some] at ha
      have := (hend 'e' (by rw [ha]; rfl)).2.1
      exact absurd this (by decide)
  let m : NumMatch := ⟨ds, false, [], none⟩
  have hn : numRegex (ds ++ rest) = some m := by
    rw [numRegex_some_iff]
    refine ⟨rest, ⟨by simp [m], hd, by simp [m], hstop, ?_, by simp [m]⟩, by simp [m, hexp]⟩
    intro _
    refine ⟨hne, rfl, ?_⟩
    intro hc
    exact (hend '.' hc).2.2 rfl
  rw [readNumToken_regular hb hn (by simp [rangeCase, m])]
  simp [numValue, m, NumMatch.len, mantLen, expLen]

theorem isSpace_cases {c : Char} (h : isSpace c = true) :
    c = ' ' ∨ c = '\t' ∨ c = '\n' ∨ c = '\x0b' ∨ c = '\x0c' ∨ c = '\r' := by
  unfold isSpace at h
  simpa [or_assoc] using h

theorem space_props {c : Char} (h : isSpace c = true) :
    c ≠ '"' ∧ c ≠ '#' ∧ c ≠ '.' ∧ isDigit c = false ∧ isVarStart c = false ∧ isAlpha c = false
      ∧ isHex c = false ∧ isVarChar c = false ∧ c ≠ 'e' ∧ c ≠ '-' ∧ c ≠ '+' ∧ c ≠ '\\' := by
  rcases isSpace_cases h with rfl | rfl | rfl | rfl | rfl | rfl <;> decide

theorem readToken_space {c : Char} (r : List Char) (h : isSpace c = true) : readToken 0 (c :: r) = .ok none := by
  have hp := space_props h
  have hr : reachesConst (c :: r) :=
    ⟨c, rfl, hp.1, hp.2.1, by simpa [isNumeric] using hp.2.2.2.1, fun hc => absurd hc hp.2.2.1⟩
  rw [readToken_of_reachesConst hr]
  have : scanConst Gen.Tokens.alphaTokens 0 (c :: r) Gen.Tokens.constTokens = none := by
    rw [scanConst_none]
    intro t ht
    cases hacc : constAccepts Gen.Tokens.alphaTokens 0 (c :: r) t with
    | false => rfl
    | true =>
      have hpre := constAccepts_prefix hacc
      have hne := constTokens_nonempty t ht
      cases htl : t.toList with
      | nil => exact absurd htl hne
      | cons d tl =>
        rw [htl] at hpre
        simp at hpre
        have := constTokens_noSpace t ht d (by rw [htl]; simp)
        rw [hpre.1] at this
        rw [this] at h; simp at h
  rw [this]
  simp [matchVar, hp.2.2.2.2.1]

theorem head_not_space_of_readToken {r : List Char} {t : Token} (h : readToken 0 r = .ok (some t)) :
    NoStart isSpace r := by
  cases r with
  | nil => exact noStart_nil _
  | cons c r =>
    rw [noStart_cons]
    cases hc : isSpace c with
    | false => rfl
    | true => rw [readToken_space r hc] at h; simp at h

theorem skipWs_zero_of_noStart {r : List Char} (h : NoStart isSpace r) : skipWs 0 r = 0 := by
  unfold skipWs
  simp [(tw_eq_nil_of_noStart h).1]

/-- a token read at the head of `l ++ rest` that is exactly `l`: the lexing of the whole is that token followed by
    the lexing of `rest`, moved by the length of `l` -/
theorem tokenise_tok {l rest : List Char} {t : Token} (hr : readToken 0 (l ++ rest) = .ok (some t))
    (he : t.e = l.length) :
    tokenise (l ++ rest) =
      match shiftToks l.length (tokenise rest) with
      | .error e => .error e
      | .ok ts => .ok (t :: ts) := by
  have hns := head_not_space_of_readToken hr
  rw [tokenise_lexFrom, skipWs_zero_of_noStart hns, shiftToks_zero, List.drop_zero, lexFrom_step]
  have ⟨_, hlt, hle⟩ := readToken_span hr
  rw [if_pos (by omega), hr]
  simp only
  have hsk : skipWs t.e (l ++ rest) = skipWs 0 rest + l.length := by
    rw [he]
    have := skipWs_suffix l.length 0 (l ++ rest)
    rw [Nat.zero_add, List.drop_left] at this
    exact this
  rw [hsk, tokenise_lexFrom rest, shiftToks_add]
  have : (l ++ rest).drop (skipWs 0 rest + l.length) = rest.drop (skipWs 0 rest) := by
    rw [Nat.add_comm, ← List.drop_drop, List.drop_left]
  rw [this]

theorem noStart_digit_e (r : List Char) : NoStart isDigit ('e' :: r) := by rw [noStart_cons]; decide
theorem noStart_digit_dot (r : List Char) : NoStart isDigit ('.' :: r) := by rw [noStart_cons]; decide

/-- scientific literal with an integer mantissa -/
theorem readNumToken_sci {ds es rest : List Char} {sg : Option Char} (hne : ds ≠ [])
    (hd : ∀ c ∈ ds, isDigit c = true) (hsg : sg = none ∨ sg = some '-' ∨ sg = some '+')
    (hene : es ≠ []) (hed : ∀ c ∈ es, isDigit c = true) (hstop : NoStart isDigit rest) :
    readNumToken 0 (ds ++ 'e' :: (sg.toList ++ (es ++ rest))) =
      .ok (some ⟨.num, 0, ds.length + (1 + sg.toList.length + es.length),
        .num (if expValue sg es < 0
              then .frac (((digitsVal 10 ds : Nat) : Int) / ((10 ^ (-(expValue sg es)).toNat : Nat) : Rat))
              else .int (((digitsVal 10 ds : Nat) : Int) * ((10 ^ (expValue sg es).toNat : Nat) : Int)))⟩) := by
  have hb : matchBased (ds ++ 'e' :: (sg.toList ++ (es ++ rest))) = none := by
    apply matchBased_none
    intro m hm
    rcases second_digits hne hd hm with h | h
    · have := digit_ne_special h; exact ⟨this.2.2.1, this.2.2.2.1, this.2.2.2.2.1, this.2.2.2.2.2.1⟩
    · simp at h; subst h; decide
  let m : NumMatch := ⟨ds, false, [], some (sg, es)⟩
  have hexp : matchExp ('e' :: (sg.toList ++ (es ++ rest))) = some (sg, es) :=
    matchExp_comp ⟨rfl, hsg, hed, hene, hstop⟩
  have hn : numRegex (ds ++ 'e' :: (sg.toList ++ (es ++ rest))) = some m := by
    rw [numRegex_some_iff]
    refine ⟨'e' :: (sg.toList ++ (es ++ rest)), ⟨by simp [m], hd, by simp [m], noStart_digit_e _, ?_, by simp [m]⟩,
      by simp [m, hexp]⟩
    intro _
    exact ⟨hne, rfl, by simp⟩
  rw [readNumToken_regular hb hn (by simp [rangeCase, m])]
  have hlen : m.len = ds.length + (1 + sg.toList.length + es.length) := by
    rcases hsg with rfl | rfl | rfl <;> simp [m, NumMatch.len, mantLen, expLen]
  rw [hlen]
  simp only [numValue, m, Bool.false_eq_true, if_false, scaleInt]

/-- group 2 starts with a second binary prefix `0b` / `0B` (which `int(…, base=2)` would swallow) -/
def DoublePrefix (m : Char) (hs : List Char) : Prop :=
  m = 'b' ∧ ∃ p tl, hs = '0' :: p :: tl ∧ (p = 'b' ∨ p = 'B')

theorem stripBinPrefix_of_not {hs : List Char} (h : ¬ ∃ p tl, hs = '0' :: p :: tl ∧ (p = 'b' ∨ p = 'B')) :
    stripBinPrefix hs = hs := by
  match hs with
  | [] => rfl
  | [c] => simp [stripBinPrefix]
  | c :: p :: tl =>
    by_cases hc : c = '0'
    · subst hc
      have hp : ¬ (p = 'b' ∨ p = 'B') := fun hp => h ⟨p, tl, rfl, hp⟩
      have : (p == 'b' || p == 'B') = false := by
        simp only [not_or] at hp; simp [hp.1, hp.2]
      simp [stripBinPrefix, this]
    · rw [stripBinPrefix.eq_2]
      intro p' rest heq; simp at heq; exact hc heq.1

/-- away from the double-prefix leniency `int(group2, base)` is the plain positional value or ValueError -/
theorem basedValue_plain {m : Char} {hs : List Char} (hne : hs ≠ [])
    (h : Gen.Tokens.intAcceptsBinPrefix = false ∨ ¬ DoublePrefix m hs) :
    basedValue m hs =
      if hs.all (fun c => digitVal c < baseOf m) then some (digitsVal (baseOf m) hs) else none := by
  unfold basedValue
  have hds : (if (m == 'b' && Gen.Tokens.intAcceptsBinPrefix) = true then stripBinPrefix hs else hs) = hs := by
    rcases h with h | h
    · simp [h]
    · by_cases hm : m = 'b'
      · have : ¬ ∃ p tl, hs = '0' :: p :: tl ∧ (p = 'b' ∨ p = 'B') := fun hc => h ⟨hm, hc⟩
        rw [stripBinPrefix_of_not this]; simp
      · have : (m == 'b') = false := by simpa using hm
        simp [this]
  simp only [hds]
  have : hs.isEmpty = false := isEmpty_eq_false_iff.2 hne
  simp [this]

/-- based integer literal `0b…`, `0o…`, `0x…`, `0d…` -/
theorem readNumToken_based {m : Char} {hs rest : List Char} (hm : m = 'x' ∨ m = 'o' ∨ m = 'b' ∨ m = 'd')
    (hne : hs ≠ []) (hh : ∀ c ∈ hs, isHex c = true) (hstop : NoStart isHex rest) :
    readNumToken 0 ('0' :: m :: (hs ++ rest)) =
      match basedValue m hs with
      | some v => .ok (some ⟨.num, 0, 2 + hs.length, .num (.int (v : Int))⟩)
      | none => .error (.badNumber 0) := by
  have hb := matchBased_comp (r := '0' :: m :: (hs ++ rest)) ⟨rfl, hm, hh, hne, hstop⟩
  unfold readNumToken
  simp only [List.drop_zero, hb, Nat.zero_add]
  cases basedValue m hs <;> rfl

/-- an integer followed by `..`: the `1..5` special case -/
theorem readNumToken_dotdot {ds rest : List Char} (hne : ds ≠ []) (hd : ∀ c ∈ ds, isDigit c = true) :
    readNumToken 0 (ds ++ '.' :: '.' :: rest) =
      .ok (some ⟨.num, 0, ds.length, .num (.int ((digitsVal 10 ds : Nat) : Int))⟩) := by
  have hb : matchBased (ds ++ '.' :: '.' :: rest) = none := by
    apply matchBased_none
    intro m hm
    rcases second_digits hne hd hm with h | h
    · have := digit_ne_special h; exact ⟨this.2.2.1, this.2.2.2.1, this.2.2.2.2.1, this.2.2.2.2.2.1⟩
    · simp at h; subst h; decide
  let m : NumMatch := ⟨ds, true, [], none⟩
  have hexp : matchExp ('.' :: rest) = none := by
    unfold matchExp; simp [afterChar]
  have hn : numRegex (ds ++ '.' :: '.' :: rest) = some m := by
    rw [numRegex_some_iff]
    exact ⟨'.' :: rest, ⟨by simp [m], hd, by simp [m], noStart_digit_dot _, by simp [m], by simp [m, hne]⟩,
      by simp [m, hexp]⟩
  have hlen : m.len = ds.length + 1 := by simp [m, NumMatch.len, mantLen, expLen]
  have hnext : (ds ++ '.' :: '.' :: rest)[m.len]? = some '.' := by
    rw [hlen, List.getElem?_append_right (by omega)]; simp
  rw [readNumToken_range hb hn (by rw [hnext]; simp [rangeCase, m])]
  simp [hlen, m]

theorem dotdot_facts : ".." ∈ Gen.Tokens.constTokens ∧ Gen.Tokens.alphaTokens.contains ".." = false
    ∧ ∀ b ∈ Gen.Tokens.constTokens, properPrefix ".." b = false := by decide

/-- `..` followed by anything is the range token -/
theorem readToken_dotdot (rest : List Char) :
    readToken 0 ('.' :: '.' :: rest) = .ok (some ⟨.const "..", 0, 2, .none⟩) := by
  have hr : reachesConst ('.' :: '.' :: rest) :=
    ⟨'.', rfl, by decide, by decide, by decide, fun _ => by simp [numericAt]; decide⟩
  have := readToken_const hr dotdot_facts.1
    (by unfold constAccepts; rw [dotdot_facts.2.1]; simp)
    (by intro b hb hp; rw [dotdot_facts.2.2 b hb] at hp; simp at hp)
  simpa using this

/-- table facts about the alphabetic keywords: no constant token extends one, and no other constant token
    starts with the same character -/
theorem alphaTokens_facts : ∀ w ∈ Gen.Tokens.alphaTokens,
    (∀ b ∈ Gen.Tokens.constTokens, properPrefix w b = false)
    ∧ (∀ t ∈ Gen.Tokens.constTokens, t.toList.head? = w.toList.head? → t = w)
    ∧ (w.toList.head?.any isLetter = true) := by decide

theorem alphaAt_append_len (l rest : List Char) : alphaAt (l ++ rest) (0 + l.length) = (rest.head?.any isAlpha) := by
  unfold alphaAt
  rw [Nat.zero_add, List.getElem?_append_right (by omega)]
  cases rest <;> simp

theorem letter_reaches {c : Char} (h : isLetter c = true) (r : List Char) : reachesConst (c :: r) := by
  refine ⟨c, rfl, ?_, ?_, ?_, ?_⟩
  · intro hc; subst hc; revert h; decide
  · intro hc; subst hc; revert h; decide
  · unfold isNumeric isDigit; unfold isLetter at h
    simp at h ⊢; omega
  · intro hc; subst hc; exact absurd h (by decide)

/-- an alphabetic keyword not followed by a letter is read as the keyword -/
theorem readToken_keyword {w : String} (hw : w ∈ Gen.Tokens.alphaTokens) {rest : List Char}
    (hnext : rest.head?.any isAlpha = false) :
    readToken 0 (w.toList ++ rest) = .ok (some ⟨.const w, 0, w.toList.length, .none⟩) := by
  obtain ⟨hext, _, hhead⟩ := alphaTokens_facts w hw
  obtain ⟨c, tl, hwl, hc⟩ : ∃ c tl, w.toList = c :: tl ∧ isLetter c = true := by
    cases hl : w.toList with
    | nil => rw [hl] at hhead; simp at hhead
    | cons c tl => rw [hl] at hhead; exact ⟨c, tl, rfl, by simpa using hhead⟩
  have hr : reachesConst (w.toList ++ rest) := by rw [hwl]; exact letter_reaches hc _
  refine readToken_const hr (alphaTokens_sub w hw).1 ?_ ?_
  · unfold constAccepts
    rw [alphaAt_append_len, hnext]
    simp
  · intro b hb hp; rw [hext b hb] at hp; simp at hp

theorem isAlpha_varChar {c : Char} (h : isAlpha c = true) : isVarChar c = true := by
  unfold isAlpha at h; unfold isVarChar isVarStart
  simp at h ⊢
  rcases h with h | h <;> simp [h]

theorem isLetter_varStart {c : Char} (h : isLetter c = true) : isVarStart c = true := by
  unfold isVarStart; simp [h]

theorem tw_append_all {p : Char → Bool} {a b : List Char} (ha : ∀ c ∈ a, p c = true) :
    (a ++ b).takeWhile p = a ++ b.takeWhile p := by
  induction a with
  | nil => rfl
  | cons c a ih =>
    have hc := ha c (by simp)
    simp [List.takeWhile_cons, hc, ih (fun d hd => ha d (by simp [hd]))]

/-- an alphabetic keyword followed by a letter is the beginning of an identifier -/
theorem readToken_keyword_ident {w : String} (hw : w ∈ Gen.Tokens.alphaTokens) {c : Char} {rest : List Char}
    (hc : isAlpha c = true) :
    readToken 0 (w.toList ++ c :: rest) =
      .ok (some ⟨.var, 0, w.toList.length + 1 + (rest.takeWhile isVarChar).length,
        .name (String.ofList (w.toList ++ c :: rest.takeWhile isVarChar))⟩) := by
  obtain ⟨_, huniq, hhead⟩ := alphaTokens_facts w hw
  obtain ⟨d, tl, hwl, hd⟩ : ∃ c tl, w.toList = c :: tl ∧ isLetter c = true := by
    cases hl : w.toList with
    | nil => rw [hl] at hhead; simp at hhead
    | cons c tl => rw [hl] at hhead; exact ⟨c, tl, rfl, by simpa using hhead⟩
  have halpha := (alphaTokens_sub w hw).2
  have hr : reachesConst (w.toList ++ c :: rest) := by rw [hwl]; exact letter_reaches hd _
  rw [readToken_of_reachesConst hr]
  have hsc : scanConst Gen.Tokens.alphaTokens 0 (w.toList ++ c :: rest) Gen.Tokens.constTokens = none := by
    rw [scanConst_none]
    intro t ht
    cases hacc : constAccepts Gen.Tokens.alphaTokens 0 (w.toList ++ c :: rest) t with
    | false => rfl
    | true =>
      have hpre := constAccepts_prefix hacc
      have hne := constTokens_nonempty t ht
      have : t = w := by
        apply huniq t ht
        cases htl : t.toList with
        | nil => exact absurd htl hne
        | cons e tl' =>
          rw [htl, hwl] at hpre
          simp at hpre
          rw [hwl]; simp [hpre.1]
      subst this
      unfold constAccepts at hacc
      rw [alphaAt_append_len] at hacc
      have : Gen.Tokens.alphaTokens.contains t = true := by simpa using hw
      simp [this, hc] at hacc
      exact absurd hw hacc
  rw [hsc]
  simp only
  rw [hwl]
  simp only [List.cons_append, matchVar, isLetter_varStart hd, if_true]
  have htl : ∀ x ∈ tl, isVarChar x = true := by
    intro x hx
    exact isAlpha_varChar (halpha x (by rw [hwl]; simp [hx]))
  have : (tl ++ c :: rest).takeWhile isVarChar = tl ++ c :: rest.takeWhile isVarChar := by
    rw [tw_append_all htl]
    simp [List.takeWhile_cons, isAlpha_varChar hc]
  rw [this]
  simp
  omega

/-- the string reader in terms of the first unescaped quote -/
theorem readToken_string (i : Nat) (s : List Char) (h : s[i]? = some '"') :
    (∀ k, Unescaped (s.drop (i + 1)) k → (∀ j, j < k → ¬ Unescaped (s.drop (i + 1)) j) →
        readToken i s = .ok (some ⟨.str, i, i + 1 + k + 1, .text (String.ofList ((s.drop (i + 1)).take k))⟩))
    ∧ ((∀ k, ¬ Unescaped (s.drop (i + 1)) k) → readToken i s = .error (.unclosedString i)) := by
  have hrt : readToken i s = readString i s := by unfold readToken; simp [h]
  rw [hrt]
  unfold readString
  cases hk : scanString (s.drop (i + 1)) with
  | none =>
    simp only [hk]
    have hn := scanString_none _ hk
    exact ⟨fun k hu _ => absurd hu (hn k), fun _ => trivial⟩
  | some k' =>
    simp only [hk]
    have ⟨h1, h2⟩ := scanString_some _ k' hk
    refine ⟨?_, fun hn => absurd h1 (hn k')⟩
    intro k hu hmin
    have : k = k' := by
      rcases Nat.lt_trichotomy k k' with hl | hl | hl
      · exact absurd hu (h2 k hl)
      · exact hl
      · exact absurd h1 (hmin k' hl)
    subst this; rfl

/-- the instant reader in terms of the first following `#` -/
theorem readToken_instant (i : Nat) (s : List Char) (h : s[i]? = some '#') :
    (∀ k : Nat, (s.drop (i + 1))[k]? = some '#' → (∀ j : Nat, j < k → (s.drop (i + 1))[j]? ≠ some '#') →
        readToken i s = .ok (some ⟨.inst, i, i + 1 + k + 1, .text (String.ofList ((s.drop (i + 1)).take k))⟩))
    ∧ ((∀ k : Nat, (s.drop (i + 1))[k]? ≠ some '#') → readToken i s = .error (.unclosedInstant i)) := by
  have hrt : readToken i s = readInstant i s := by unfold readToken; simp [h]
  rw [hrt]
  unfold readInstant
  cases hk : scanInstant (s.drop (i + 1)) with
  | none =>
    simp only [hk]
    have hn := scanInstant_none _ hk
    exact ⟨fun k hu _ => absurd hu (hn k), fun _ => trivial⟩
  | some k' =>
    simp only [hk]
    have ⟨h1, h2⟩ := scanInstant_some _ k' hk
    refine ⟨?_, fun hn => absurd h1 (hn k')⟩
    intro k hu hmin
    have : k = k' := by
      rcases Nat.lt_trichotomy k k' with hl | hl | hl
      · exact absurd hu (h2 k hl)
      · exact hl
      · exact absurd h1 (hmin k' hl)
    subst this; rfl

/-- a token whose tag is a constant spelling was produced by the constant-token scan -/
theorem readToken_const_inv {i : Nat} {s : List Char} {t : Token} {a : String}
    (h : readToken i s = .ok (some t)) (ha : t.tag = .const a) :
    scanConst Gen.Tokens.alphaTokens i s Gen.Tokens.constTokens = some t := by
  unfold readToken at h
  cases hc : s[i]? with
  | none => simp [hc] at h
  | some c =>
    simp only [hc] at h
    by_cases h1 : (c == '"') = true
    · simp only [h1, if_true] at h
      unfold readString at h
      cases hk : scanString (s.drop (i + 1)) <;> simp [hk] at h
      subst h; simp at ha
    · simp only [h1, if_false] at h
      by_cases h2 : (c == '#') = true
      · simp only [h2, if_true] at h
        unfold readInstant at h
        cases hk : scanInstant (s.drop (i + 1)) <;> simp [hk] at h
        subst h; simp at ha
      · simp only [h2, if_false] at h
        by_cases h3 : (isNumeric c || (c == '.' && numericAt s (i + 1))) = true
        · simp only [h3, if_true] at h
          unfold readNumToken at h
          simp only at h
          cases hb : matchBased (s.drop i) with
          | some p =>
            simp only [hb] at h
            cases hv : basedValue p.1 p.2 <;> simp [hv] at h
            subst h; simp at ha
          | none =>
            simp only [hb] at h
            cases hn : numRegex (s.drop i) with
            | none => simp [hn] at h
            | some m =>
              simp only [hn] at h
              by_cases hsp : rangeCase m s[i + m.len]? = true
              · simp [hsp] at h; subst h; simp at ha
              · simp only [hsp, if_false] at h
                cases hv : numValue m <;> simp [hv] at h
                subst h; simp at ha
        · simp only [h3, if_false] at h
          cases hsc : scanConst Gen.Tokens.alphaTokens i s Gen.Tokens.constTokens with
          | some t' => simp [hsc] at h; rw [h]
          | none =>
            simp only [hsc] at h
            cases hv : matchVar (s.drop i) <;> simp [hv] at h
            subst h; simp at ha

theorem digitsVal_acc (b : Nat) (ds : List Char) : ∀ acc : Nat,
    ds.foldl (fun acc c => acc * b + digitVal c) acc
      = acc * b ^ ds.length + Nat.ofDigits b (ds.reverse.map digitVal) := by
  induction ds with
  | nil => intro acc; simp
  | cons c ds ih =>
    intro acc
    rw [List.foldl_cons, ih, List.reverse_cons, List.map_append, Nat.ofDigits_append]
    simp [Nat.ofDigits_singleton]
    ring

/-- `int(ds, base)` as the textbook positional value (Mathlib's `Nat.ofDigits`, least significant digit first) -/
theorem digitsVal_eq_ofDigits (b : Nat) (ds : List Char) :
    digitsVal b ds = Nat.ofDigits b (ds.reverse.map digitVal) := by
  unfold digitsVal
  rw [digitsVal_acc]; simp

/-- `r` with the text `ws` inserted at position `j` (at the end when `j` is beyond it) -/
def ins (j : Nat) (ws r : List Char) : List Char := r.take j ++ (ws ++ r.drop j)

theorem ins_nil (j : Nat) (r : List Char) : ins j [] r = r := by simp [ins]

theorem ins_zero (ws r : List Char) : ins 0 ws r = ws ++ r := by simp [ins]

theorem ins_cons_succ (j : Nat) (ws : List Char) (c : Char) (r : List Char) :
    ins (j + 1) ws (c :: r) = c :: ins j ws r := by simp [ins]

theorem ins_of_nil (j : Nat) (ws : List Char) : ins j ws [] = ws := by simp [ins]

theorem ins_append_ge {a : List Char} (b ws : List Char) {j : Nat} (h : a.length ≤ j) :
    ins j ws (a ++ b) = a ++ ins (j - a.length) ws b := by
  induction a generalizing j with
  | nil => simp
  | cons c a ih =>
    cases j with
    | zero => simp at h
    | succ j =>
      simp only [List.cons_append, ins_cons_succ, List.length_cons]
      rw [ih (by simpa using h)]
      simp

theorem drop_ins_ge (ws : List Char) : ∀ (k j : Nat) (r : List Char), k ≤ j → k ≤ r.length →
    (ins j ws r).drop k = ins (j - k) ws (r.drop k)
  | 0, j, r, _, _ => by simp
  | k + 1, 0, r, h, _ => by omega
  | k + 1, j + 1, [], _, h => by simp at h
  | k + 1, j + 1, c :: r, h, h2 => by
    rw [ins_cons_succ]
    simp only [List.drop_succ_cons]
    rw [drop_ins_ge ws k j r (by omega) (by simpa using h2)]
    simp

theorem getElem?_ins_lt {p j : Nat} (ws r : List Char) (h1 : p < j) (h2 : p < r.length) :
    (ins j ws r)[p]? = r[p]? := by
  unfold ins
  rw [List.getElem?_append_left (by simp; omega)]
  rw [List.getElem?_take_of_lt h1]

theorem head?_ins {j : Nat} (ws : List Char) {r : List Char} (h1 : 0 < j) (h2 : r ≠ []) :
    (ins j ws r).head? = r.head? := by
  cases r with
  | nil => exact absurd rfl h2
  | cons c r =>
    cases j with
    | zero => omega
    | succ j => simp [ins_cons_succ]

theorem noStart_ins {p : Char → Bool} {ws : List Char} (hws : ∀ c ∈ ws, p c = false) (hne : ws ≠ [])
    {r : List Char} (h : NoStart p r) (j : Nat) : NoStart p (ins j ws r) := by
  cases r with
  | nil =>
    rw [ins_of_nil]
    cases ws with
    | nil => exact absurd rfl hne
    | cons w ws => rw [noStart_cons]; exact hws w (by simp)
  | cons c r =>
    cases j with
    | zero =>
      rw [ins_zero]
      cases ws with
      | nil => exact absurd rfl hne
      | cons w ws => rw [List.cons_append, noStart_cons]; exact hws w (by simp)
    | succ j => rw [ins_cons_succ, noStart_cons]; exact noStart_cons.1 h

/-- a prefix of the text with whitespace inserted that itself contains no whitespace is a prefix of the original -/
theorem prefix_ins {a ws r : List Char} {j : Nat} (hws : ∀ c ∈ ws, isSpace c = true) (hne : ws ≠ [])
    (ha : ∀ c ∈ a, isSpace c = false) (h : a <+: ins j ws r) : a <+: r := by
  induction a generalizing j r with
  | nil => exact List.nil_prefix
  | cons c a ih =>
    cases r with
    | nil =>
      rw [ins_of_nil] at h
      cases ws with
      | nil => exact absurd rfl hne
      | cons w ws =>
        have := List.cons_prefix_cons.1 h
        have h1 := ha c (by simp)
        rw [this.1, hws w (by simp)] at h1; simp at h1
    | cons d r =>
      cases j with
      | zero =>
        rw [ins_zero] at h
        cases ws with
        | nil => exact absurd rfl hne
        | cons w ws =>
          have := List.cons_prefix_cons.1 h
          have h1 := ha c (by simp)
          rw [this.1, hws w (by simp)] at h1; simp at h1
      | succ j =>
        rw [ins_cons_succ] at h
        have := List.cons_prefix_cons.1 h
        rw [this.1]
        exact List.cons_prefix_cons.2 ⟨rfl, ih (fun x hx => ha x (by simp [hx])) this.2⟩

theorem prefix_ins_of_le {a r : List Char} (ws : List Char) {j : Nat} (h : a <+: r) (hl : a.length ≤ j) :
    a <+: ins j ws r := by
  obtain ⟨b, rfl⟩ := h
  rw [ins_append_ge b ws hl]
  exact List.prefix_append _ _

theorem tw_ins {p : Char → Bool} {ws : List Char} (hws : ∀ c ∈ ws, p c = false) (hne : ws ≠ [])
    (r : List Char) {j : Nat} (h : (r.takeWhile p).length ≤ j) :
    (ins j ws r).takeWhile p = r.takeWhile p
      ∧ (ins j ws r).dropWhile p = ins (j - (r.takeWhile p).length) ws (r.dropWhile p) := by
  have hs := (List.takeWhile_append_dropWhile (p := p) (l := r)).symm
  have : ins j ws r = r.takeWhile p ++ ins (j - (r.takeWhile p).length) ws (r.dropWhile p) := by
    conv => lhs; rw [hs]
    exact ins_append_ge _ ws h
  rw [this]
  exact tw_append_stop (tw_all p r) (noStart_ins hws hne (dw_noStart p r) _)

theorem unescaped_congr {b b' : List Char} {k : Nat} (h : ∀ p : Nat, p ≤ k → b'[p]? = b[p]?) :
    Unescaped b' k ↔ Unescaped b k := by
  cases k with
  | zero => simp [Unescaped, h 0 (by omega)]
  | succ k => simp [Unescaped, h (k + 1) (by omega), h k (by omega)]

theorem take_ins_le {k j : Nat} (ws r : List Char) (h1 : k ≤ j) (h2 : k ≤ r.length) :
    (ins j ws r).take k = r.take k := by
  unfold ins
  rw [List.take_append_of_le_length (by simp; omega), List.take_take]
  congr 1; omega

theorem scanString_ins {ws b : List Char} {k j : Nat} (h : scanString b = some k) (hj : k < j) :
    scanString (ins j ws b) = some k := by
  have ⟨hu, hmin⟩ := scanString_some b k h
  have hlt := unescaped_lt hu
  have hcongr : ∀ q, q ≤ k → (Unescaped (ins j ws b) q ↔ Unescaped b q) := by
    intro q hq
    apply unescaped_congr
    intro p hp
    exact getElem?_ins_lt ws b (by omega) (by omega)
  cases hk : scanString (ins j ws b) with
  | none => exact absurd ((hcongr k (by omega)).2 hu) (scanString_none _ hk k)
  | some k' =>
    have ⟨hu', hmin'⟩ := scanString_some _ k' hk
    rcases Nat.lt_trichotomy k' k with hl | hl | hl
    · exact absurd ((hcongr k' (by omega)).1 hu') (hmin k' hl)
    · rw [hl]
    · exact absurd ((hcongr k (by omega)).2 hu) (hmin' k hl)

theorem scanInstant_ins {ws b : List Char} {k j : Nat} (h : scanInstant b = some k) (hj : k < j) :
    scanInstant (ins j ws b) = some k := by
  have ⟨hu, hmin⟩ := scanInstant_some b k h
  have hlt := getElem?_some_lt hu
  have hcongr : ∀ q : Nat, q ≤ k → (ins j ws b)[q]? = b[q]? :=
    fun q hq => getElem?_ins_lt ws b (by omega) (by omega)
  cases hk : scanInstant (ins j ws b) with
  | none => exact absurd (by rw [hcongr k (by omega)]; exact hu) (scanInstant_none _ hk k)
  | some k' =>
    have ⟨hu', hmin'⟩ := scanInstant_some _ k' hk
    rcases Nat.lt_trichotomy k' k with hl | hl | hl
    · exact absurd (by rw [← hcongr k' (by omega)]; exact hu') (hmin k' hl)
    · rw [hl]
    · exact absurd (by rw [hcongr k (by omega)]; exact hu) (hmin' k hl)

theorem readString_ins {ws r : List Char} {t : Token} {j : Nat} (hr : 1 ≤ r.length)
    (h : readString 0 r = .ok (some t)) (hj : t.e ≤ j) : readString 0 (ins j ws r) = .ok (some t) := by
  unfold readString at h ⊢
  simp only [Nat.zero_add] at h ⊢
  cases hk : scanString (r.drop 1) with
  | none => rw [hk] at h; simp at h
  | some k =>
    rw [hk] at h
    simp only [Except.ok.injEq, Option.some.injEq] at h
    subst h
    simp only at hj
    have hlt := unescaped_lt (scanString_some _ k hk).1
    rw [drop_ins_ge ws 1 j r (by omega) hr, scanString_ins hk (by omega)]
    simp only
    rw [take_ins_le ws _ (by omega) (by omega)]

theorem readInstant_ins {ws r : List Char} {t : Token} {j : Nat} (hr : 1 ≤ r.length)
    (h : readInstant 0 r = .ok (some t)) (hj : t.e ≤ j) : readInstant 0 (ins j ws r) = .ok (some t) := by
  unfold readInstant at h ⊢
  simp only [Nat.zero_add] at h ⊢
  cases hk : scanInstant (r.drop 1) with
  | none => rw [hk] at h; simp at h
  | some k =>
    rw [hk] at h
    simp only [Except.ok.injEq, Option.some.injEq] at h
    subst h
    simp only at hj
    have hlt := getElem?_some_lt (scanInstant_some _ k hk).1
    rw [drop_ins_ge ws 1 j r (by omega) hr, scanInstant_ins hk (by omega)]
    simp only
    rw [take_ins_le ws _ (by omega) (by omega)]

theorem digit_not_space {c : Char} (h : isDigit c = true) : isSpace c = false := by
  cases hs : isSpace c with
  | false => rfl
  | true => rw [(space_props hs).2.2.2.1] at h; simp at h

theorem hex_not_space {c : Char} (h : isHex c = true) : isSpace c = false := by
  cases hs : isSpace c with
  | false => rfl
  | true => rw [(space_props hs).2.2.2.2.2.2.1] at h; simp at h

theorem headAny_iff_noStart {p : Char → Bool} {x : List Char} : x.head?.any p = false ↔ NoStart p x := by
  cases x with
  | nil => simp [NoStart]
  | cons c x => simp [noStart_cons]

theorem expStarts_e (y : List Char) :
    expStarts ('e' :: y) =
      match signTail y with
      | some (_, r2) => r2.head?.any isDigit
      | none => y.head?.any isDigit := by
  simp only [expStarts, afterChar, beq_self_eq_true, if_true]

theorem expStarts_space {w : Char} (y : List Char) (hw : isSpace w = true) : expStarts (w :: y) = false := by
  have := (space_props hw).2.2.2.2.2.2.2.2.1
  simp [expStarts, afterChar, this]

theorem expStarts_e_space {w : Char} (y : List Char) (hw : isSpace w = true) : expStarts ('e' :: w :: y) = false := by
  have hp := space_props hw
  rw [expStarts_e]
  have : signTail (w :: y) = none := by
    rw [signTail_none]; intro c hc; simp at hc; subst hc; exact ⟨hp.2.2.2.2.2.2.2.2.2.1, hp.2.2.2.2.2.2.2.2.2.2.1⟩
  rw [this]; simp [hp.2.2.2.1]

theorem expStarts_ins {ws x : List Char} (hws : ∀ c ∈ ws, isSpace c = true) (hne : ws ≠ []) (j : Nat)
    (h : expStarts x = false) : expStarts (ins j ws x) = false := by
  obtain ⟨w, ws', rfl⟩ : ∃ w ws', ws = w :: ws' := by
    cases ws with
    | nil => exact absurd rfl hne
    | cons w ws' => exact ⟨w, ws', rfl⟩
  have hw := hws w (by simp)
  have hnd : ∀ c ∈ w :: ws', isDigit c = false := fun c hc => (space_props (hws c hc)).2.2.2.1
  cases x with
  | nil => rw [ins_of_nil]; exact expStarts_space _ hw
  | cons c x1 =>
    cases j with
    | zero => rw [ins_zero]; exact expStarts_space _ hw
    | succ j1 =>
      rw [ins_cons_succ]
      by_cases hc : c = 'e'
      · subst hc
        rw [expStarts_e] at h
        cases x1 with
        | nil => rw [ins_of_nil]; exact expStarts_e_space _ hw
        | cons s x2 =>
          cases j1 with
          | zero => rw [ins_zero]; exact expStarts_e_space _ hw
          | succ j2 =>
            rw [ins_cons_succ, expStarts_e]
            by_cases hs : (s == '-' || s == '+') = true
            · simp only [signTail, hs, if_true] at h ⊢
              rw [headAny_iff_noStart] at h ⊢
              exact noStart_ins hnd (by simp) h j2
            · simp only [signTail, hs, if_false] at h ⊢
              simpa using h
      · have : (c == 'e') = false := by simpa using hc
        simp [expStarts, afterChar, this]

theorem space_not_digit {ws : List Char} (hws : ∀ c ∈ ws, isSpace c = true) : ∀ c ∈ ws, isDigit c = false :=
  fun c hc => (space_props (hws c hc)).2.2.2.1

theorem matchExp_ins {ws x : List Char} (hws : ∀ c ∈ ws, isSpace c = true) (hne : ws ≠ []) {j : Nat}
    (hj : expLen (matchExp x) ≤ j) : matchExp (ins j ws x) = matchExp x := by
  cases h : matchExp x with
  | none =>
    rw [matchExp_none] at h ⊢
    exact expStarts_ins hws hne j h
  | some p =>
    obtain ⟨sg, es⟩ := p
    obtain ⟨rest2, hs⟩ := matchExp_inv h
    rw [h] at hj
    apply matchExp_comp (rest := ins (j - (1 + sg.toList.length + es.length)) ws rest2)
    refine ⟨?_, hs.sign, hs.dsd, hs.ne, noStart_ins (space_not_digit hws) hne hs.stop _⟩
    have hl : ('e' :: (sg.toList ++ es)).length ≤ j := by
      rcases hs.sign with rfl | rfl | rfl <;> simp [expLen] at hj ⊢ <;> omega
    have := ins_append_ge rest2 ws hl
    rw [hs.eq]
    simp only [List.cons_append, List.append_assoc] at this
    rw [this]
    simp
    congr 2
    omega

theorem noStart_eq_iff {x : List Char} {d : Char} : NoStart (fun c => c == d) x ↔ x.head? ≠ some d := by
  cases x with
  | nil => simp [NoStart]
  | cons c x => simp [noStart_cons]

theorem space_ne_dot {ws : List Char} (hws : ∀ c ∈ ws, isSpace c = true) : ∀ c ∈ ws, (c == '.') = false :=
  fun c hc => by simpa using (space_props (hws c hc)).2.2.1

theorem getElem?_ins_ne_dot {ws r : List Char} (hws : ∀ c ∈ ws, isSpace c = true) (hne : ws ≠ []) {p j : Nat}
    (h1 : p ≤ j) (h2 : p ≤ r.length) (h : r[p]? ≠ some '.') : (ins j ws r)[p]? ≠ some '.' := by
  rw [← List.head?_drop, drop_ins_ge ws p j r h1 h2, ← noStart_eq_iff]
  apply noStart_ins (space_ne_dot hws) hne
  rw [noStart_eq_iff, List.head?_drop]; exact h

theorem matchBased_none_ins {ws r : List Char} (hws : ∀ c ∈ ws, isSpace c = true) (hne : ws ≠ []) (j : Nat)
    (h : matchBased r = none) : matchBased (ins j ws r) = none := by
  cases hb : matchBased (ins j ws r) with
  | none => rfl
  | some p =>
    obtain ⟨m, hs⟩ := p
    obtain ⟨rest, hspec⟩ := matchBased_inv hb
    obtain ⟨hd, tl, rfl⟩ : ∃ hd tl, hs = hd :: tl := by
      cases hs with
      | nil => exact absurd rfl hspec.ne
      | cons hd tl => exact ⟨hd, tl, rfl⟩
    have hpre : ['0', m, hd] <+: ins j ws r := by rw [hspec.eq]; simp
    have hfree : ∀ c ∈ ['0', m, hd], isSpace c = false := by
      intro c hc
      simp at hc
      rcases hc with rfl | rfl | rfl
      · decide
      · rcases hspec.letter with rfl | rfl | rfl | rfl <;> decide
      · exact hex_not_space (hspec.hex _ (by simp))
    obtain ⟨tail, rfl⟩ := prefix_ins hws hne hfree hpre
    rw [show ['0', m, hd] ++ tail = '0' :: m :: (hd :: tail) from rfl, matchBased.eq_1] at h
    have hm : (m == 'x' || m == 'o' || m == 'b' || m == 'd') = true := by
      rcases hspec.letter with rfl | rfl | rfl | rfl <;> decide
    have hhd := hspec.hex hd (by simp)
    simp [hm, List.takeWhile_cons, hhd] at h

theorem space_not_hex {ws : List Char} (hws : ∀ c ∈ ws, isSpace c = true) : ∀ c ∈ ws, isHex c = false :=
  fun c hc => (space_props (hws c hc)).2.2.2.2.2.2.1

theorem numMatch_len_eq (m : NumMatch) : m.len = mantLen (m.ip, m.dot, m.fp) + expLen m.exp := rfl

theorem readNumToken_ins {ws r : List Char} {t : Token} {j : Nat} (hws : ∀ c ∈ ws, isSpace c = true)
    (hne : ws ≠ []) (h : readNumToken 0 r = .ok (some t)) (hj : t.e ≤ j)
    (hrange : j = t.e + 1 → ¬ (r[t.e]? = some '.' ∧ r[t.e + 1]? = some '.')) :
    readNumToken 0 (ins j ws r) = .ok (some t) := by
  have h0 := h
  unfold readNumToken at h
  simp only [List.drop_zero, Nat.zero_add] at h
  cases hb : matchBased r with
  | some p =>
    obtain ⟨m, hs⟩ := p
    obtain ⟨rest, hspec⟩ := matchBased_inv hb
    simp only [hb] at h
    cases hv : basedValue m hs with
    | none => simp [hv] at h
    | some v =>
      simp only [hv, Except.ok.injEq, Option.some.injEq] at h
      subst h
      simp only at hj
      have heq : ins j ws r = '0' :: m :: (hs ++ ins (j - (2 + hs.length)) ws rest) := by
        rw [hspec.eq]
        have := ins_append_ge (a := '0' :: m :: hs) rest ws (j := j) (by simp; omega)
        simp only [List.cons_append] at this
        rw [this]
        simp
        congr 1; omega
      have hb' := matchBased_comp (r := ins j ws r)
        ⟨heq, hspec.letter, hspec.hex, hspec.ne, noStart_ins (space_not_hex hws) hne hspec.stop _⟩
      unfold readNumToken
      simp only [List.drop_zero, Nat.zero_add, hb', hv]
  | none =>
    simp only [hb] at h
    have hb' := matchBased_none_ins hws hne j hb
    cases hn : numRegex r with
    | none => simp [hn] at h
    | some m =>
      simp only [hn] at h
      obtain ⟨rest, hs, he⟩ := numRegex_some_iff.1 hn
      have ⟨_, hlen⟩ := numRegex_len hn
      by_cases hrc : rangeCase m r[m.len]? = true
      · -- the `1..` case
        simp only [hrc, if_true, Except.ok.injEq, Option.some.injEq] at h
        subst h
        simp only at hj hrange
        unfold rangeCase at hrc
        simp only [Bool.and_eq_true, beq_iff_eq] at hrc
        obtain ⟨⟨⟨hexp, hdot⟩, hfp⟩, hnext⟩ := hrc
        have hexp' : m.exp = none := by simpa using hexp
        have hfp' : m.fp = [] := by simpa using hfp
        have hip : m.ip ≠ [] := by
          rcases hs.withdot hdot with h | h
          · exact h
          · exact absurd hfp' h
        have hmlen : m.len = m.ip.length + 1 := by
          rw [numMatch_len_eq, hexp']; simp [mantLen, hdot, hfp', expLen]
        have hreq : r = m.ip ++ ('.' :: rest) := by
          have := hs.eq; rw [hdot, hfp'] at this; simpa using this
        have hdot1 : r[m.ip.length]? = some '.' := by
          rw [hreq, List.getElem?_append_right (by omega)]; simp
        rw [hmlen] at hj hrange hnext
        have hjne : j ≠ m.ip.length + 1 := by
          intro hc
          exact hrange (by omega) ⟨by simpa using hdot1, by simpa using hnext⟩
        rcases Nat.lt_or_ge j (m.ip.length + 1) with hlt | hge
        · -- whitespace between the digits and the points: the digits alone are an integer
          have hjeq : j = m.ip.length := by omega
          obtain ⟨w, ws', rfl⟩ : ∃ w ws', ws = w :: ws' := by
            cases ws with
            | nil => exact absurd rfl hne
            | cons w ws' => exact ⟨w, ws', rfl⟩
          have hw := hws w (by simp)
          have hins : ins j (w :: ws') r = m.ip ++ (w :: (ws' ++ '.' :: rest)) := by
            rw [hreq, ins_append_ge _ _ (by omega), hjeq]; simp [ins_zero]
          let m' : NumMatch := ⟨m.ip, false, [], none⟩
          have hn' : numRegex (ins j (w :: ws') r) = some m' := by
            rw [numRegex_some_iff]
            refine ⟨w :: (ws' ++ '.' :: rest), ⟨by simp [m', hins], hs.ipd, by simp [m'], ?_, ?_, by simp [m']⟩, ?_⟩
            · rw [noStart_cons]; exact (space_props hw).2.2.2.1
            · intro _; refine ⟨hip, rfl, ?_⟩; simp; exact (space_props hw).2.2.1
            · simp only [m']; symm; rw [matchExp_none]; exact expStarts_space _ hw
          rw [readNumToken_regular hb' hn' (by simp [rangeCase, m'])]
          have hl' : m'.len = m.len - 1 := by rw [hmlen]; simp [m', NumMatch.len, mantLen, expLen]
          rw [hl']; simp [numValue, m']
        · -- whitespace after the points: same match, same special case
          have hgt : m.ip.length + 1 < j := by omega
          have hml : mantLen (m.ip, m.dot, m.fp) = m.ip.length + 1 := by simp [mantLen, hdot, hfp']
          have hins : ins j ws r = m.ip ++ ((if m.dot then ['.'] else []) ++ (m.fp ++ ins (j - (m.ip.length + 1)) ws rest)) := by
            rw [hdot, hfp']
            have := ins_append_ge (a := m.ip ++ ['.']) rest ws (j := j) (by simp; omega)
            rw [hreq]
            simp only [List.append_assoc, List.singleton_append, List.length_append, List.length_cons,
              List.length_nil] at this
            rw [this]; simp
          have hn' : numRegex (ins j ws r) = some m := by
            rw [numRegex_some_iff]
            refine ⟨_, ⟨hins, hs.ipd, hs.fpd, noStart_ins (space_not_digit hws) hne hs.stop _, ?_, hs.withdot⟩, ?_⟩
            · intro hc; rw [hdot] at hc; simp at hc
            · rw [matchExp_ins hws hne (by rw [← he, hexp']; simp [expLen])]; exact he
          have hlt2 : m.ip.length + 1 < r.length := getElem?_some_lt hnext
          have hnext' : (ins j ws r)[m.len]? = some '.' := by
            rw [hmlen, getElem?_ins_lt ws r hgt hlt2]; exact hnext
          rw [readNumToken_range hb' hn' (by rw [hnext']; simp [rangeCase, hexp', hdot, hfp'])]
      · -- regular numeral
        simp only [hrc, Bool.false_eq_true, if_false] at h
        cases hv : numValue m with
        | none => simp [hv] at h
        | some v =>
          simp only [hv, Except.ok.injEq, Option.some.injEq] at h
          subst h
          simp only at hj
          have hml : mantLen (m.ip, m.dot, m.fp) + expLen m.exp ≤ j := by rw [← numMatch_len_eq]; exact hj
          have hins : ins j ws r = m.ip ++ ((if m.dot then ['.'] else []) ++
              (m.fp ++ ins (j - mantLen (m.ip, m.dot, m.fp)) ws rest)) := by
            have hal : (m.ip ++ ((if m.dot then ['.'] else []) ++ m.fp)).length = mantLen (m.ip, m.dot, m.fp) := by
              cases hd : m.dot <;> (simp [mantLen, hd]; try omega)
            have := ins_append_ge (a := m.ip ++ ((if m.dot then ['.'] else []) ++ m.fp)) rest ws (j := j)
              (by rw [hal]; omega)
            rw [hal] at this
            conv => lhs; rw [hs.eq]
            simp only [List.append_assoc] at this ⊢
            exact this
          have hn' : numRegex (ins j ws r) = some m := by
            rw [numRegex_some_iff]
            refine ⟨_, ⟨hins, hs.ipd, hs.fpd, noStart_ins (space_not_digit hws) hne hs.stop _, ?_, hs.withdot⟩, ?_⟩
            · intro hd
              obtain ⟨h1, h2, h3⟩ := hs.nodot hd
              refine ⟨h1, h2, ?_⟩
              rw [← noStart_eq_iff] at h3 ⊢
              exact noStart_ins (space_ne_dot hws) hne h3 _
            · rw [matchExp_ins hws hne (by rw [← he]; omega)]; exact he
          have hrc' : rangeCase m (ins j ws r)[m.len]? = false := by
            have hrcf : rangeCase m r[m.len]? = false := by simpa using hrc
            unfold rangeCase at hrcf ⊢
            by_cases hpre : (m.exp.isNone && m.dot && m.fp.isEmpty) = true
            · rw [hpre] at hrcf ⊢
              simp only [Bool.true_and, beq_eq_false_iff_ne] at hrcf ⊢
              exact getElem?_ins_ne_dot hws hne hj hlen hrcf
            · have : (m.exp.isNone && m.dot && m.fp.isEmpty) = false := by simpa using hpre
              rw [this]; rfl
          rw [readNumToken_regular hb' hn' hrc', hv]

theorem scanConst_intro {alpha : List String} {i : Nat} {s : List Char} {pre : List String} {x : String}
    {post : List String} (hpre : ∀ u ∈ pre, constAccepts alpha i s u = false) (hx : constAccepts alpha i s x = true) :
    scanConst alpha i s (pre ++ x :: post) = some ⟨.const x, i, i + x.toList.length, .none⟩ := by
  induction pre with
  | nil => simp [scanConst, hx]
  | cons a pre ih =>
    have ha := hpre a (by simp)
    simp only [List.cons_append, scanConst, ha, Bool.false_eq_true, if_false]
    exact ih (fun u hu => hpre u (by simp [hu]))

theorem alphaAt_eq_headAny (r : List Char) (p : Nat) : alphaAt r p = (r.drop p).head?.any isAlpha := by
  unfold alphaAt
  rw [List.head?_drop]
  cases r[p]? <;> rfl

theorem numericAt_eq_headAny (r : List Char) (p : Nat) : numericAt r p = (r.drop p).head?.any isNumeric := by
  unfold numericAt
  rw [List.head?_drop]
  cases r[p]? <;> rfl

theorem space_not_alpha {ws : List Char} (hws : ∀ c ∈ ws, isSpace c = true) : ∀ c ∈ ws, isAlpha c = false :=
  fun c hc => (space_props (hws c hc)).2.2.2.2.2.1

theorem alphaAt_ins_false {ws r : List Char} (hws : ∀ c ∈ ws, isSpace c = true) (hne : ws ≠ []) {p j : Nat}
    (h1 : p ≤ j) (h2 : p ≤ r.length) (h : alphaAt r p = false) : alphaAt (ins j ws r) p = false := by
  rw [alphaAt_eq_headAny] at h ⊢
  rw [drop_ins_ge ws p j r h1 h2, headAny_iff_noStart]
  exact noStart_ins (space_not_alpha hws) hne (headAny_iff_noStart.1 h) _

theorem numericAt_ins_false {ws r : List Char} (hws : ∀ c ∈ ws, isSpace c = true) (hne : ws ≠ []) {p j : Nat}
    (h1 : p ≤ j) (h2 : p ≤ r.length) (h : numericAt r p = false) : numericAt (ins j ws r) p = false := by
  rw [numericAt_eq_headAny] at h ⊢
  rw [drop_ins_ge ws p j r h1 h2, headAny_iff_noStart]
  exact noStart_ins (p := isNumeric) (fun c hc => by simpa [isNumeric] using space_not_digit hws c hc) hne
    (headAny_iff_noStart.1 h) _

theorem alphaAt_true_lt {r : List Char} {p : Nat} (h : alphaAt r p = true) : p < r.length := by
  unfold alphaAt at h
  cases hp : r[p]? with
  | none => simp [hp] at h
  | some c => exact getElem?_some_lt hp

theorem alphaAt_ins_lt {r : List Char} (ws : List Char) {p j : Nat} (h1 : p < j) (h : alphaAt r p = true) :
    alphaAt (ins j ws r) p = true := by
  have := alphaAt_true_lt h
  unfold alphaAt at h ⊢
  rw [getElem?_ins_lt ws r h1 this]; exact h

theorem constAccepts_iff {alpha : List String} {r : List Char} {u : String} :
    constAccepts alpha 0 r u = true ↔
      u.toList <+: r ∧ (alpha.contains u = true → alphaAt r u.toList.length = false) := by
  unfold constAccepts
  simp only [List.drop_zero, Nat.zero_add, Bool.and_eq_true, Bool.or_eq_true, Bool.not_eq_true',
    List.isPrefixOf_iff_prefix]
  constructor
  · intro ⟨h1, h2⟩
    refine ⟨h1, fun hc => ?_⟩
    rcases h2 with h2 | h2
    · rw [hc] at h2; simp at h2
    · exact h2
  · intro ⟨h1, h2⟩
    refine ⟨h1, ?_⟩
    cases hc : alpha.contains u with
    | false => exact Or.inl rfl
    | true => exact Or.inr (h2 hc)

/-- an entry rejected although it is a prefix is an alphabetic keyword followed by a letter -/
theorem rejected_prefix {alpha : List String} {r : List Char} {u : String}
    (h : constAccepts alpha 0 r u = false) (hp : u.toList <+: r) :
    alpha.contains u = true ∧ alphaAt r u.toList.length = true := by
  cases hc : alpha.contains u with
  | false =>
    have : constAccepts alpha 0 r u = true := constAccepts_iff.2 ⟨hp, fun h' => by rw [hc] at h'; simp at h'⟩
    rw [this] at h; simp at h
  | true =>
    refine ⟨rfl, ?_⟩
    cases ha : alphaAt r u.toList.length with
    | true => rfl
    | false =>
      have : constAccepts alpha 0 r u = true := constAccepts_iff.2 ⟨hp, fun _ => ha⟩
      rw [this] at h; simp at h

theorem const_ws_free {u : String} (hu : u ∈ Gen.Tokens.constTokens) : ∀ c ∈ u.toList, isSpace c = false :=
  constTokens_noSpace u hu

theorem scanConst_ins_some {ws r : List Char} {t : Token} {j : Nat} (hws : ∀ c ∈ ws, isSpace c = true)
    (hne : ws ≠ []) (h : scanConst Gen.Tokens.alphaTokens 0 r Gen.Tokens.constTokens = some t) (hj : t.e ≤ j) :
    scanConst Gen.Tokens.alphaTokens 0 (ins j ws r) Gen.Tokens.constTokens = some t := by
  obtain ⟨pre, x, post, hts, hpre, hx, rfl⟩ := scanConst_first h
  simp only [Nat.zero_add] at hj
  have ⟨hxp, hxa⟩ := constAccepts_iff.1 hx
  have hxmem : x ∈ Gen.Tokens.constTokens := by rw [hts]; simp
  rw [hts]
  apply scanConst_intro
  · intro u hu
    have humem : u ∈ Gen.Tokens.constTokens := by rw [hts]; simp [hu]
    have hrej := hpre u hu
    cases hacc : constAccepts Gen.Tokens.alphaTokens 0 (ins j ws r) u with
    | false => rfl
    | true =>
      have ⟨hup', hua'⟩ := constAccepts_iff.1 hacc
      have hup := prefix_ins hws hne (const_ws_free humem) hup'
      have ⟨hualpha, hunext⟩ := rejected_prefix hrej hup
      have hlt : u.toList.length < x.toList.length := by
        rcases Nat.lt_or_ge u.toList.length x.toList.length with hl | hl
        · exact hl
        · rcases Nat.eq_or_lt_of_le hl with he | hl'
          · have := string_eq_of_toList (prefix_eq_of_length hxp hup he)
            subst this
            rw [hx] at hrej; simp at hrej
          · have hpp : properPrefix x u = true := by
              unfold properPrefix
              simp only [Bool.and_eq_true, decide_eq_true_eq]
              exact ⟨List.isPrefixOf_iff_prefix.2 (prefix_of_prefix hxp hup (by omega)), hl'⟩
            have := alphaTokens_noPrefix
            simp only [List.all_eq_true] at this
            have := this x hxmem u humem
            simp [hpp] at this
            exact absurd (by simpa using hualpha) this
      have := alphaAt_ins_lt ws (j := j) (by omega) hunext
      rw [hua' hualpha] at this; simp at this
  · rw [constAccepts_iff]
    refine ⟨prefix_ins_of_le ws hxp hj, fun hc => ?_⟩
    exact alphaAt_ins_false hws hne hj hxp.length_le (hxa hc)

theorem tw_length_ge {q : Char → Bool} {l : List Char} {n : Nat}
    (h : ∀ p : Nat, p < n → ∃ c, l[p]? = some c ∧ q c = true) : n ≤ (l.takeWhile q).length := by
  induction l generalizing n with
  | nil =>
    cases n with
    | zero => simp
    | succ n => obtain ⟨c, hc, _⟩ := h 0 (by omega); simp at hc
  | cons d l ih =>
    cases n with
    | zero => simp
    | succ n =>
      obtain ⟨c, hc, hq⟩ := h 0 (by omega)
      simp at hc; subst hc
      rw [List.takeWhile_cons, hq]
      simp only [if_true, List.length_cons]
      have := ih (n := n) (fun p hp => by
        obtain ⟨c, hc, hq⟩ := h (p + 1) (by omega)
        exact ⟨c, by simpa using hc, hq⟩)
      omega

theorem scanConst_ins_none {ws r name : List Char} {j : Nat} (hws : ∀ c ∈ ws, isSpace c = true)
    (hne : ws ≠ []) (h : scanConst Gen.Tokens.alphaTokens 0 r Gen.Tokens.constTokens = none)
    (hv : matchVar r = some name) (hj : name.length ≤ j) :
    scanConst Gen.Tokens.alphaTokens 0 (ins j ws r) Gen.Tokens.constTokens = none := by
  rw [scanConst_none] at h ⊢
  intro u humem
  have hrej := h u humem
  cases hacc : constAccepts Gen.Tokens.alphaTokens 0 (ins j ws r) u with
  | false => rfl
  | true =>
    have ⟨hup', hua'⟩ := constAccepts_iff.1 hacc
    have hup := prefix_ins hws hne (const_ws_free humem) hup'
    have ⟨hualpha, hunext⟩ := rejected_prefix hrej hup
    obtain ⟨c, tail, hr, _, rfl⟩ := matchVar_some hv
    subst hr
    have hualpha' : u ∈ Gen.Tokens.alphaTokens := by simpa using hualpha
    have hchars := (alphaTokens_sub u hualpha').2
    have hune := constTokens_nonempty u humem
    -- every position 1 .. |u| of the text holds an identifier character
    have hlen : u.toList.length ≤ (tail.takeWhile isVarChar).length := by
      apply tw_length_ge
      intro p hp
      rcases Nat.lt_or_ge (p + 1) u.toList.length with hlt | hge
      · obtain ⟨rest, hrest⟩ := hup
        have hget : u.toList[p + 1]? = (c :: tail)[p + 1]? := by
          rw [← hrest, List.getElem?_append_left hlt]
        have hsome : ∃ d, u.toList[p + 1]? = some d := ⟨u.toList[p + 1], by simp [hlt]⟩
        obtain ⟨d, hd⟩ := hsome
        refine ⟨d, by rw [← hd, hget]; simp, isAlpha_varChar (hchars d (List.mem_of_getElem? hd))⟩
      · have hpe : p + 1 = u.toList.length := by omega
        unfold alphaAt at hunext
        rw [← hpe] at hunext
        cases hq : (c :: tail)[p + 1]? with
        | none => simp [hq] at hunext
        | some d =>
          simp [hq] at hunext
          exact ⟨d, by simpa using hq, isAlpha_varChar hunext⟩
    simp only [List.length_cons] at hj
    have := alphaAt_ins_lt ws (j := j) (by omega) hunext
    rw [hua' hualpha] at this; simp at this

theorem matchVar_ins {ws r name : List Char} {j : Nat} (hws : ∀ c ∈ ws, isSpace c = true) (hne : ws ≠ [])
    (hv : matchVar r = some name) (hj : name.length ≤ j) : matchVar (ins j ws r) = some name := by
  obtain ⟨c, tail, hr, hc, rfl⟩ := matchVar_some hv
  subst hr
  simp only [List.length_cons] at hj
  cases j with
  | zero => omega
  | succ j =>
    rw [ins_cons_succ]
    simp only [matchVar, hc, if_true]
    rw [(tw_ins (p := isVarChar) (fun w hw => (space_props (hws w hw)).2.2.2.2.2.2.2.1) hne tail (by omega)).1]

/-- a numeral that starts with the point is at least two characters long -/
theorem readNumToken_dot_len {r1 : List Char} {t : Token} (h : readNumToken 0 ('.' :: r1) = .ok (some t)) :
    2 ≤ t.e := by
  unfold readNumToken at h
  simp only [List.drop_zero, Nat.zero_add] at h
  have hb : matchBased ('.' :: r1) = none := matchBased.eq_2 _ (by intro m r h; simp at h)
  simp only [hb] at h
  cases hn : numRegex ('.' :: r1) with
  | none => simp [hn] at h
  | some m =>
    simp only [hn] at h
    obtain ⟨rest, hs, he⟩ := numRegex_some_iff.1 hn
    have hip : m.ip = [] := by
      cases hip : m.ip with
      | nil => rfl
      | cons d ds =>
        have := hs.eq
        rw [hip] at this
        simp at this
        have hd := hs.ipd d (by rw [hip]; simp)
        rw [← this.1] at hd
        exact absurd hd (by decide)
    have hdot : m.dot = true := by
      cases hd : m.dot with
      | true => rfl
      | false => exact absurd hip (hs.nodot hd).1
    have hfp : m.fp ≠ [] := by
      rcases hs.withdot hdot with h | h
      · exact absurd hip h
      · exact h
    have hfl : 1 ≤ m.fp.length := by cases hf : m.fp; exact absurd hf hfp; simp
    have hml : 2 ≤ m.len := by rw [numMatch_len_eq]; simp [mantLen, hdot]; omega
    by_cases hrc : rangeCase m ('.' :: r1)[m.len]? = true
    · unfold rangeCase at hrc
      simp only [Bool.and_eq_true] at hrc
      have : m.fp = [] := by simpa using hrc.1.2
      exact absurd this hfp
    · simp only [hrc, Bool.false_eq_true, if_false] at h
      cases hv : numValue m with
      | none => simp [hv] at h
      | some v =>
        simp only [hv, Except.ok.injEq, Option.some.injEq] at h
        subst h; exact hml

/-- **locality of `read_token`**: whitespace inserted at or after the end of the token read at the head of `r`
    does not change that token — except between the two points of `d..`, which is inside the following `..`
    token and excluded by `hrange`. -/
theorem readToken_ins {ws r : List Char} {t : Token} {j : Nat} (hws : ∀ c ∈ ws, isSpace c = true)
    (hne : ws ≠ []) (h : readToken 0 r = .ok (some t)) (hj : t.e ≤ j)
    (hrange : j = t.e + 1 → ¬ (r[t.e]? = some '.' ∧ r[t.e + 1]? = some '.')) :
    readToken 0 (ins j ws r) = .ok (some t) := by
  have ⟨_, hpos, hle⟩ := readToken_span h
  cases r with
  | nil => simp [readToken] at h
  | cons c r1 =>
    cases j with
    | zero => omega
    | succ j1 =>
      have hins : ins (j1 + 1) ws (c :: r1) = c :: ins j1 ws r1 := ins_cons_succ j1 ws c r1
      unfold readToken at h ⊢
      rw [hins]
      simp only [List.getElem?_cons_zero, List.drop_zero, Nat.zero_add] at h ⊢
      rw [← hins]
      by_cases h1 : (c == '"') = true
      · simp only [h1, if_true] at h ⊢
        exact readString_ins (by simp) h hj
      · have h1' : (c == '"') = false := by simpa using h1
        simp only [h1', Bool.false_eq_true, if_false] at h ⊢
        by_cases h2 : (c == '#') = true
        · simp only [h2, if_true] at h ⊢
          exact readInstant_ins (by simp) h hj
        · have h2' : (c == '#') = false := by simpa using h2
          simp only [h2', Bool.false_eq_true, if_false] at h ⊢
          by_cases h3 : (isNumeric c || (c == '.' && numericAt (c :: r1) 1)) = true
          · simp only [h3, if_true] at h
            have h3' : (isNumeric c || (c == '.' && numericAt (ins (j1 + 1) ws (c :: r1)) 1)) = true := by
              by_cases hn : isNumeric c = true
              · simp [hn]
              · simp only [hn, Bool.false_or, Bool.and_eq_true, beq_iff_eq] at h3
                obtain ⟨rfl, hnum⟩ := h3
                have h2e := readNumToken_dot_len h
                have : numericAt (ins (j1 + 1) ws ('.' :: r1)) 1 = true := by
                  unfold numericAt at hnum ⊢
                  cases hq : ('.' :: r1)[1]? with
                  | none => simp [hq] at hnum
                  | some d =>
                    rw [getElem?_ins_lt ws _ (by omega) (getElem?_some_lt hq), hq]
                    simpa [hq] using hnum
                simp [this]
            simp only [h3', if_true]
            exact readNumToken_ins hws hne h hj hrange
          · have h3f : (isNumeric c || (c == '.' && numericAt (c :: r1) 1)) = false := by simpa using h3
            simp only [h3f, Bool.false_eq_true, if_false] at h
            have h3' : (isNumeric c || (c == '.' && numericAt (ins (j1 + 1) ws (c :: r1)) 1)) = false := by
              simp only [Bool.or_eq_false_iff, Bool.and_eq_false_iff] at h3f
              obtain ⟨hn, hd⟩ := h3f
              simp only [hn, Bool.false_or]
              rcases hd with hd | hd
              · simp [hd]
              · have := numericAt_ins_false hws hne (p := 1) (j := j1 + 1) (r := c :: r1) (by omega) (by simp) hd
                simp [this]
            simp only [h3', Bool.false_eq_true, if_false]
            cases hsc : scanConst Gen.Tokens.alphaTokens 0 (c :: r1) Gen.Tokens.constTokens with
            | some t' =>
              simp only [hsc, Except.ok.injEq, Option.some.injEq] at h
              subst h
              rw [scanConst_ins_some hws hne hsc hj]
            | none =>
              simp only [hsc] at h
              cases hv : matchVar (c :: r1) with
              | none => simp [hv] at h
              | some name =>
                simp only [hv, Except.ok.injEq, Option.some.injEq] at h
                subst h
                simp only at hj
                rw [scanConst_ins_none hws hne hsc hv hj, matchVar_ins hws hne hv hj]

/-- position `j` is not strictly inside any of the tokens -/
def NotInside (toks : List Token) (j : Nat) : Prop := ∀ t ∈ toks, ¬ (t.b < j ∧ j < t.e)

/-- what inserting `k` characters at `j` does to a span that `j` is not inside of -/
def moveAfter (j k : Nat) (t : Token) : Token := if t.e ≤ j then t else shiftTok k t

theorem moveAfter_shift (j k a : Nat) (t : Token) :
    shiftTok a (moveAfter j k t) = moveAfter (j + a) k (shiftTok a t) := by
  unfold moveAfter
  by_cases h : t.e ≤ j
  · have : (shiftTok a t).e ≤ j + a := by simp [shiftTok]; omega
    rw [if_pos h, if_pos this]
  · have : ¬ (shiftTok a t).e ≤ j + a := by simp [shiftTok]; omega
    rw [if_neg h, if_neg this, shiftTok_add, shiftTok_add, Nat.add_comm]

theorem covers_pos {s : List Char} : ∀ {p : Nat} {toks : List Token}, Covers s p toks →
    ∀ t ∈ toks, t.b < t.e ∧ p ≤ t.b
  | _, [], _ => by simp
  | p, t :: ts, h => by
    obtain ⟨h1, h2, h3, _, h5⟩ := h
    intro u hu
    simp at hu
    rcases hu with rfl | hu
    · exact ⟨h2, h1⟩
    · have := covers_pos h5 u hu
      exact ⟨this.1, by omega⟩

theorem tokenise_nil : tokenise [] = .ok [] := by rfl

theorem tokenise_all_space (ws : List Char) (h : ∀ c ∈ ws, isSpace c = true) : tokenise ws = .ok [] := by
  have := tokenise_ws ws [] h
  rw [List.append_nil, tokenise_nil] at this
  rw [this]; rfl

theorem ins_space_prefix {sp ws : List Char} (r : List Char) {j : Nat} (h : j ≤ sp.length) :
    ins j ws (sp ++ r) = (sp.take j ++ ws ++ sp.drop j) ++ r := by
  unfold ins
  rw [List.take_append_of_le_length h, List.drop_append_of_le_length h]
  simp

theorem drop_two_dots {r : List Char} {k : Nat} (h1 : r[k]? = some '.') (h2 : r[k + 1]? = some '.') :
    ∃ rest, r.drop k = '.' :: '.' :: rest := by
  have hk : k + 1 < r.length := getElem?_some_lt h2
  refine ⟨r.drop (k + 2), ?_⟩
  rw [List.drop_eq_getElem_cons (i := k) (by omega), List.drop_eq_getElem_cons (i := k + 1) hk]
  have e1 : r[k] = '.' := by
    have := List.getElem?_eq_getElem (l := r) (i := k) (by omega); rw [this] at h1; simpa using h1
  have e2 : r[k + 1] = '.' := by
    have := List.getElem?_eq_getElem (l := r) (i := k + 1) hk; rw [this] at h2; simpa using h2
  rw [e1, e2]

theorem tokenise_ins_aux (ws : List Char) (hws : ∀ c ∈ ws, isSpace c = true) (hne : ws ≠ []) :
    ∀ (n : Nat) (s : List Char), s.length ≤ n → ∀ (j : Nat) (toks : List Token),
      tokenise s = .ok toks → NotInside toks j →
      tokenise (ins j ws s) = .ok (toks.map (moveAfter j ws.length)) := by
  intro n
  induction n with
  | zero =>
    intro s hs j toks h _
    have : s = [] := by cases s; rfl; simp at hs
    subst this
    rw [tokenise_nil] at h
    simp only [Except.ok.injEq] at h
    subst h
    rw [ins_of_nil, tokenise_all_space ws hws]; rfl
  | succ n ih =>
    intro s hs j toks h hni
    -- split off the leading whitespace
    have hsplit := (List.takeWhile_append_dropWhile (p := isSpace) (l := s)).symm
    generalize hspd : s.takeWhile isSpace = sp at hsplit
    generalize hrd : s.dropWhile isSpace = r at hsplit
    have hsp : ∀ c ∈ sp, isSpace c = true := by rw [← hspd]; exact tw_all isSpace s
    have hr : NoStart isSpace r := by rw [← hrd]; exact dw_noStart isSpace s
    have hlen : s.length = sp.length + r.length := by rw [hsplit]; simp
    rw [hsplit, tokenise_ws sp r hsp] at h
    cases htr : tokenise r with
    | error e => rw [htr] at h; simp [shiftToks] at h
    | ok tr =>
      rw [htr] at h
      simp only [shiftToks, Except.ok.injEq] at h
      subst h
      have hpos := covers_pos (tokenise_covers htr)
      by_cases hj : j ≤ sp.length
      · -- insertion inside (or at the ends of) the leading whitespace
        rw [hsplit, ins_space_prefix r hj]
        have hall : ∀ c ∈ sp.take j ++ ws ++ sp.drop j, isSpace c = true := by
          intro c hc
          simp only [List.mem_append] at hc
          rcases hc with (hc | hc) | hc
          · exact hsp c (List.mem_of_mem_take hc)
          · exact hws c hc
          · exact hsp c (List.mem_of_mem_drop hc)
        rw [tokenise_ws _ r hall, htr]
        simp only [shiftToks, Except.ok.injEq, List.map_map]
        apply List.map_congr_left
        intro t0 ht0
        have := (hpos t0 ht0).1
        simp only [Function.comp, moveAfter]
        rw [if_neg (by simp [shiftTok]; omega), shiftTok_add]
        congr 1
        simp
        omega
      · -- insertion after the first token
        have hj' : sp.length < j := by omega
        rw [hsplit, ins_append_ge r ws (by omega), tokenise_ws sp _ hsp]
        cases r with
        | nil =>
          rw [tokenise_nil] at htr
          simp only [Except.ok.injEq] at htr
          subst htr
          rw [ins_of_nil, tokenise_all_space ws hws]; rfl
        | cons c r1 =>
          have hlf : tokenise (c :: r1) = lexFrom (c :: r1) := by
            rw [tokenise_lexFrom, skipWs_zero_of_noStart hr, shiftToks_zero, List.drop_zero]
          have htr0 := htr
          rw [hlf, lexFrom_step, if_pos (by simp)] at htr
          cases hrt : readToken 0 (c :: r1) with
          | error e => rw [hrt] at htr; simp at htr
          | ok o =>
            cases o with
            | none => rw [hrt] at htr; simp at htr
            | some t0 =>
              clear htr
              have ⟨hb0, hlt0, hle0⟩ := readToken_span hrt
              have htl : (List.take t0.e (c :: r1)).length = t0.e := by rw [List.length_take]; omega
              have htd : List.take t0.e (c :: r1) ++ List.drop t0.e (c :: r1) = c :: r1 := List.take_append_drop _ _
              have htok := tokenise_tok (l := List.take t0.e (c :: r1)) (rest := List.drop t0.e (c :: r1))
                (t := t0) (by rw [htd]; exact hrt) htl.symm
              rw [htd, htl] at htok
              have htr2 : tokenise (c :: r1) = .ok tr := htr0
              rw [htok] at htr2
              cases hts : tokenise (List.drop t0.e (c :: r1)) with
              | error e => rw [hts] at htr2; simp [shiftToks] at htr2
              | ok ts0 =>
                rw [hts] at htr2
                simp only [shiftToks, Except.ok.injEq] at htr2
                subst htr2
                -- the insertion point is at or after the end of the first token
                have hge : t0.e ≤ j - sp.length := by
                  have := hni (shiftTok sp.length t0) (by simp)
                  simp only [shiftTok] at this
                  omega
                -- it is not between the two points of `d..`
                have hrange : j - sp.length = t0.e + 1 →
                    ¬ ((c :: r1)[t0.e]? = some '.' ∧ (c :: r1)[t0.e + 1]? = some '.') := by
                  intro hje ⟨hd1, hd2⟩
                  obtain ⟨rest', hrest'⟩ := drop_two_dots hd1 hd2
                  have hdd := tokenise_tok (l := ['.', '.']) (rest := rest') (readToken_dotdot rest') rfl
                  rw [show ['.', '.'] ++ rest' = '.' :: '.' :: rest' from rfl, ← hrest', hts] at hdd
                  cases hts' : tokenise rest' with
                  | error e => rw [hts'] at hdd; simp [shiftToks] at hdd
                  | ok ts' =>
                    rw [hts'] at hdd
                    simp only [shiftToks, Except.ok.injEq] at hdd
                    have := hni (shiftTok sp.length (shiftTok t0.e ⟨.const "..", 0, 2, .none⟩)) (by
                      rw [hdd]; simp)
                    simp only [shiftTok] at this
                    omega
                have hloc := readToken_ins hws hne hrt hge hrange
                have hins2 : ins (j - sp.length) ws (c :: r1) =
                    List.take t0.e (c :: r1) ++ ins (j - sp.length - t0.e) ws (List.drop t0.e (c :: r1)) := by
                  conv => lhs; rw [← htd]
                  rw [ins_append_ge _ ws (by rw [htl]; exact hge), htl]
                have htok2 := tokenise_tok (l := List.take t0.e (c :: r1))
                  (rest := ins (j - sp.length - t0.e) ws (List.drop t0.e (c :: r1))) (t := t0)
                  (by rw [← hins2]; exact hloc) htl.symm
                rw [← hins2, htl] at htok2
                have hni0 : NotInside ts0 (j - sp.length - t0.e) := by
                  intro u hu
                  have := hni (shiftTok sp.length (shiftTok t0.e u)) (by simp; right; exact ⟨u, hu, rfl⟩)
                  simp only [shiftTok] at this
                  omega
                have hih := ih (List.drop t0.e (c :: r1)) (by simp at hs hlen ⊢; omega) (j - sp.length - t0.e) ts0
                  hts hni0
                rw [htok2, hih]
                simp only [shiftToks, List.map_cons, List.map_map, Except.ok.injEq]
                congr 1
                · simp only [moveAfter]
                  rw [if_pos (by simp [shiftTok]; omega)]
                · apply List.map_congr_left
                  intro u _
                  simp only [Function.comp]
                  rw [moveAfter_shift, moveAfter_shift]
                  congr 1
                  omega

/-- **whitespace insertion.**  If `s` lexes to `toks` and position `j` is not strictly inside a token, then `s`
    with the whitespace `ws` inserted at `j` lexes to the same tokens, those after `j` moved by the length of `ws`. -/
theorem tokenise_ins (s ws : List Char) (j : Nat) (toks : List Token) (hws : ∀ c ∈ ws, isSpace c = true)
    (h : tokenise s = .ok toks) (hni : NotInside toks j) :
    tokenise (ins j ws s) = .ok (toks.map (moveAfter j ws.length)) := by
  cases ws with
  | nil =>
    rw [ins_nil, h]
    congr 1
    have : ∀ t : Token, moveAfter j ([] : List Char).length t = t := by
      intro t; unfold moveAfter; split; rfl; exact shiftTok_zero t
    rw [List.map_congr_left (g := id) (fun t _ => this t)]; simp
  | cons w ws' => exact tokenise_ins_aux (w :: ws') hws (by simp) s.length s (Nat.le_refl _) j toks h hni

end KaVerif.Lexer
