import KaVerif.Lemmas.BodiesLemmas
/-
  Lemmas for Props/BodiesDispatch.lean: ONE LEVEL of `dispatch` over the table of translated bodies
  (`EvalG.dispatchVG Gen.Bodies.bodiesTable`) against one level over the hand-written table (`Eval.dispatchV`).

  * `stepH` / `stepG`: the two dispatchers with the callback dispatcher (Python's global `dispatch`, as the bodies see it)
    as a parameter; `dispatchV (n+1) = stepH (dispatchV n)`, `dispatchVG tbl (n+1) = stepG tbl (dispatchVG tbl n)` by `rfl`.
  * resolution is shared (`Eval.resolveDesc` over the generated registry); what the per-descriptor agreement theorems need
    on top of it is that the COERCED argument list has the shapes the theorem was proved for (`PyRt.wellTyped` over
    `Gen.Bodies.bodiesShapes`).  That is derived here from the resolution itself: the chosen signature is a member of the
    registry that `matches` the argument classes (`resolve_ok`), and for every signature of the registry the declared types
    admit only classes of the shape the translator recorded (`registry_fits`, kernel `decide` over the generated tables;
    a lazy combinatoric under a parameter declared `Number` arrives resolved — `coerce_to`).

  No Mathlib.
-/
namespace KaVerif.Bodies
open KaVerif Num Eval PyRt EvalG

/-! ### the two dispatchers, one level, callback as a parameter -/

/-- `Eval.dispatchV` at depth `n+1` with the dispatcher the bodies call back into as a parameter -/
def stepH (rec : Disp) (name : String) (args : List Val) (kw : List (String × Val)) : R Val :=
  match resolveDesc name (args.map classOf) (kwIds kw) with
  | .error e => raise (derr e)
  | .ok ⟨_, _, desc, Option.none⟩ => .error (.unmodelled ("function " ++ shortName desc))
  | .ok ⟨pos, va, _, some code⟩ => do
    let cargs ← coerceArgs pos va args
    let r ← code.run rec cargs
    simplifyVal r

/-- `EvalG.dispatchVG tbl` at depth `n+1` with the dispatcher the bodies call back into as a parameter -/
def stepG (tbl : List (String × Body)) (rec : Disp) (name : String) (args : List Val) (kw : List (String × Val)) : R Val :=
  match resolveDesc name (args.map classOf) (kwIds kw) with
  | .error e => raise (derr e)
  | .ok ⟨pos, va, desc, code?⟩ =>
    match tbl.lookup desc, code? with
    | some g, _ => do
      let cargs ← coerceArgs pos va args
      match refusesSize code? cargs with
      | some why => .error (.unmodelled why)
      | Option.none =>
        let r ← g rec cargs
        simplifyVal r
    | Option.none, some code => do
      let cargs ← coerceArgs pos va args
      let r ← code.run rec cargs
      simplifyVal r
    | Option.none, Option.none => .error (.unmodelled ("function " ++ shortName desc))

theorem dispatchV_succ (n : Nat) (nm : String) (as : List Val) (kw : List (String × Val)) :
    dispatchV (n + 1) nm as kw = stepH (fun nm as => dispatchV n nm as []) nm as kw := rfl

theorem dispatchVG_succ (tbl : List (String × Body)) (n : Nat) (nm : String) (as : List Val) (kw : List (String × Val)) :
    dispatchVG tbl (n + 1) nm as kw = stepG tbl (fun nm as => dispatchVG tbl n nm as []) nm as kw := rfl

/-! ### what a successful resolution says about the chosen signature -/

theorem scan_mem (sub : Nat → Nat → Bool) : ∀ (t : List Sig) (c : Sig),
    t.foldl (fun c x => if Dispatch.typesBelow sub x c then x else c) c = c ∨
    t.foldl (fun c x => if Dispatch.typesBelow sub x c then x else c) c ∈ t
  | [], c => Or.inl rfl
  | x :: t, c => by
    simp only [List.foldl_cons, List.mem_cons]
    by_cases hb : Dispatch.typesBelow sub x c = true
    · simp only [hb, if_true]
      rcases scan_mem sub t x with h | h
      · exact Or.inr (Or.inl h)
      · exact Or.inr (Or.inr h)
    · simp only [hb, if_false, Bool.false_eq_true]
      rcases scan_mem sub t c with h | h
      · exact Or.inl h
      · exact Or.inr (Or.inr h)

theorem closest_mem (sub : Nat → Nat → Bool) (l : List Sig) (h : Sig) (hc : Dispatch.closest sub l = some h) : h ∈ l := by
  cases l with
  | nil => cases hc
  | cons a t =>
    simp only [Dispatch.closest, Option.some.injEq] at hc
    subst hc
    rcases scan_mem sub t a with e | e
    · rw [e]; exact List.mem_cons_self
    · exact List.mem_cons_of_mem _ e

theorem mem_of_lookup {α : Type} : ∀ (l : List (String × α)) (k : String) (v : α), l.lookup k = some v → (k, v) ∈ l
  | [], _, _, h => by cases h
  | (k', v') :: l, k, v, h => by
    by_cases e : (k == k') = true
    · simp only [List.lookup, e, Option.some.injEq] at h
      subst h
      have : k = k' := by simpa using e
      subst this
      exact List.mem_cons_self
    · have e' : (k == k') = false := by simpa using e
      simp only [List.lookup, e'] at h
      exact List.mem_cons_of_mem _ (mem_of_lookup l k v h)

/-- `dispatch` calls a signature registered under the name that `matches` the argument classes -/
theorem resolve_ok {inst sub : Nat → Nat → Bool} {reg : List (String × List Sig)} {name : String} {args : List Nat}
    {kw : List (Nat × Nat)} {h : Sig} (hr : Dispatch.resolve inst sub reg name args kw = .ok h) :
    ∃ sigs, (name, sigs) ∈ reg ∧ h ∈ sigs ∧ Dispatch.sigMatches inst h args = true := by
  unfold Dispatch.resolve at hr
  split at hr
  · cases hr
  · rename_i sigs hl
    split at hr
    · cases hr
    · rename_i h' hc
      split at hr
      · cases hr
      · cases hr
        have hm := closest_mem sub _ _ hc
        simp only [Dispatch.applicable, List.mem_filter] at hm
        exact ⟨sigs, mem_of_lookup _ _ _ hl, hm.1, hm.2⟩

theorem matchPos_sub (inst : Nat → Nat → Bool) : ∀ (pos args rest : List Nat),
    Dispatch.matchPos inst pos args = some rest → ∀ x ∈ rest, x ∈ args
  | [], args, rest, h => by
    simp only [Dispatch.matchPos, Option.some.injEq] at h
    subst h; exact fun _ hx => hx
  | _ :: _, [], rest, h => by simp [Dispatch.matchPos] at h
  | t :: ts, a :: as, rest, h => by
    simp only [Dispatch.matchPos] at h
    split at h
    · exact fun x hx => List.mem_cons_of_mem _ (matchPos_sub inst ts as rest h x hx)
    · cases h

/-! ### declared types and argument shapes -/

/-- every value of class `c` has shape `s` -/
def classShape (c : Nat) : Shape → Bool
  | .any => true
  | .num => c == cInt || c == cFrac || c == cFloat
  | .int => c == cInt
  | .intv => c == cIntv
  | .arr => c == cArr
  | .qty => c == cQty

/-- the classes `classOf` produces -/
def valClasses : List Nat :=
  [cInt, cFrac, cFloat, cComb, cQty, cArr, cIntv, cStr, cInst, cEvent, cDEvent, cNone] ++
  ["Binomial", "Poisson", "Geometric", "Bernoulli", "UniformInt", "Exponential", "Uniform", "Gaussian"].map
    Gen.Registry.classNames.idxOf

/-- close a goal from a hypothesis about the class of a value of known constructor that is false by evaluation -/
syntax "class_false" ident : tactic
macro_rules
  | `(tactic| class_false $h:ident) =>
    `(tactic| (simp only [classOf, numClass, RV.className] at $h:ident; exact absurd $h (by decide)))

theorem classOf_mem (v : Val) : classOf v ∈ valClasses := by
  cases v with
  | num n => cases n <;> (simp only [classOf, numClass]; decide)
  | rv x =>
    obtain ⟨law, ps⟩ := x
    cases law with
    | disc d => cases d <;> (simp only [classOf, RV.className]; decide)
    | cont c => cases c <;> (simp only [classOf, RV.className]; decide)
  | event ops _ _ _ =>
    simp only [classOf]
    split <;> decide
  | _ => simp only [classOf]; decide

theorem classShape_holds (v : Val) (s : Shape) (h : classShape (classOf v) s = true) : s.holds v = true := by
  cases v with
  | num n => cases n <;> cases s <;> first | rfl | class_false h
  | rv x =>
    obtain ⟨law, ps⟩ := x
    cases law with
    | disc d => cases d <;> cases s <;> first | rfl | class_false h
    | cont c => cases c <;> cases s <;> first | rfl | class_false h
  | event ops _ _ _ =>
    cases s <;> first | rfl | (simp only [classOf] at h; split at h <;> exact absurd h (by decide))
  | _ => cases s <;> first | rfl | class_false h

theorem classOf_comb (v : Val) (h : classOf v = cComb) : ∃ c, v = .comb c := by
  cases v with
  | comb c => exact ⟨c, rfl⟩
  | num n => cases n <;> class_false h
  | rv x =>
    obtain ⟨law, ps⟩ := x
    cases law with
    | disc d => cases d <;> class_false h
    | cont c => cases c <;> class_false h
  | event ops _ _ _ => simp only [classOf] at h; split at h <;> exact absurd h (by decide)
  | _ => class_false h

/-- the declared type `t` admits (after `coerce_to`) only values of shape `s` -/
def typeFits (t : Nat) (s : Shape) : Bool :=
  valClasses.all fun c =>
    !Gen.Registry.inst c t || (if c == cComb && t == tNumber then (s == .num || s == .any) else classShape c s)

theorem coerceTo_holds {a c : Val} {t : Nat} {s : Shape} (hf : typeFits t s = true)
    (hi : Gen.Registry.inst (classOf a) t = true) (hc : coerceTo a t = .ok c) : s.holds c = true := by
  have h := List.all_eq_true.mp hf (classOf a) (classOf_mem a)
  simp only [hi, Bool.not_true, Bool.false_or] at h
  by_cases hcomb : classOf a = cComb
  · obtain ⟨cb, rfl⟩ := classOf_comb a hcomb
    simp only [coerceTo] at hc
    by_cases ht : (t == tNumber) = true
    · simp only [ht, if_true] at hc
      have hs : (s == Shape.num || s == Shape.any) = true := by simpa [classOf, ht] using h
      cases hr : liftE cb.resolve with
      | error e => simp [hr, Except.map] at hc
      | ok r =>
        simp only [hr, Except.map, Except.ok.injEq] at hc
        subst hc
        cases s <;> first | rfl | (simp at hs)
    · have ht' : (t == tNumber) = false := by simpa using ht
      simp only [ht', Bool.false_eq_true, if_false, Except.ok.injEq] at hc
      subst hc
      have : classShape (classOf (Val.comb cb)) s = true := by simpa [ht'] using h
      exact classShape_holds _ _ this
  · have hne : (classOf a == cComb) = false := by simpa using hcomb
    simp only [hne, Bool.false_and, Bool.false_eq_true, if_false] at h
    have : c = a := by
      cases a <;> first | (simp only [coerceTo, Except.ok.injEq] at hc; exact hc.symm) | (exact absurd rfl hcomb)
    subst this
    exact classShape_holds _ _ h

/-- the registered signature `(pos…, *va)` admits only argument lists of the shapes `(sh…, *va')` -/
def fitsSig : List Nat → Option Nat → List Shape → Option Shape → Bool
  | [], Option.none, [], _ => true
  | [], some v, [], some s => typeFits v s
  | t :: ts, va, s :: ss, va' => typeFits t s && fitsSig ts va ss va'
  | _, _, _, _ => false

theorem vararg_holds {v : Nat} {s : Shape} (hf : typeFits v s = true) : ∀ (args cargs : List Val),
    (args.map classOf).all (fun a => Gen.Registry.inst a v) = true → coerceArgs [] (some v) args = .ok cargs →
    cargs.all s.holds = true
  | [], cargs, _, hc => by
    simp only [coerceArgs, Except.ok.injEq] at hc
    subst hc; rfl
  | a :: as, cargs, hall, hc => by
    simp only [List.map_cons, List.all_cons, Bool.and_eq_true] at hall
    simp only [coerceArgs] at hc
    cases h1 : coerceTo a v with
    | error e => simp [h1, bind, Except.bind] at hc
    | ok c =>
      cases h2 : coerceArgs [] (some v) as with
      | error e => simp [h1, h2, bind, Except.bind] at hc
      | ok cs =>
        simp only [h1, h2, bind, Except.bind, Except.ok.injEq] at hc
        subst hc
        simp only [List.all_cons, Bool.and_eq_true]
        exact ⟨coerceTo_holds hf hall.1 h1, vararg_holds hf as cs hall.2 h2⟩

theorem fits_wellTyped : ∀ (pos : List Nat) (sh : List Shape) (va : Option Nat) (va' : Option Shape)
    (args cargs : List Val) (rest : List Nat),
    fitsSig pos va sh va' = true →
    Dispatch.matchPos Gen.Registry.inst pos (args.map classOf) = some rest →
    (rest = [] ∨ ∃ v, va = some v ∧ rest.all (fun a => Gen.Registry.inst a v) = true) →
    coerceArgs pos va args = .ok cargs → wellTyped sh va' cargs = true
  | [], sh, va, va', args, cargs, rest, hf, hm, hr, hc => by
    simp only [Dispatch.matchPos, Option.some.injEq] at hm
    subst hm
    cases sh with
    | cons s ss => cases va <;> simp [fitsSig] at hf
    | nil =>
      cases va with
      | none =>
        have hnil : args = [] := by
          rcases hr with h | ⟨v, h, _⟩
          · simpa using h
          · cases h
        subst hnil
        simp only [coerceArgs, Except.ok.injEq] at hc
        subst hc
        cases va' <;> rfl
      | some v =>
        cases va' with
        | none => simp [fitsSig] at hf
        | some s =>
          simp only [fitsSig] at hf
          have hall : (args.map classOf).all (fun a => Gen.Registry.inst a v) = true := by
            rcases hr with h | ⟨v', h, h'⟩
            · rw [h]; rfl
            · cases h; exact h'
          have := vararg_holds hf args cargs hall hc
          cases cargs with
          | nil => rfl
          | cons c cs => simpa [wellTyped] using this
  | t :: ts, sh, va, va', [], cargs, rest, hf, hm, hr, hc => by simp [Dispatch.matchPos] at hm
  | t :: ts, sh, va, va', a :: as, cargs, rest, hf, hm, hr, hc => by
    cases sh with
    | nil => simp [fitsSig] at hf
    | cons s ss =>
      simp only [fitsSig, Bool.and_eq_true] at hf
      simp only [List.map_cons, Dispatch.matchPos] at hm
      by_cases hi : Gen.Registry.inst (classOf a) t = true
      · simp only [hi, if_true] at hm
        simp only [coerceArgs] at hc
        cases h1 : coerceTo a t with
        | error e => simp [h1, bind, Except.bind] at hc
        | ok c =>
          cases h2 : coerceArgs ts va as with
          | error e => simp [h1, h2, bind, Except.bind] at hc
          | ok cs =>
            simp only [h1, h2, bind, Except.bind, Except.ok.injEq] at hc
            subst hc
            simp only [wellTyped, Bool.and_eq_true]
            exact ⟨coerceTo_holds hf.1 hi h1, fits_wellTyped ts ss va va' as cs rest hf.2 hm hr h2⟩
      · simp [hi] at hm

/-- the shapes recorded by the translator for the implementation of a registered signature fit the signature -/
def sigFits (s : Sig) : Bool :=
  match Gen.Bodies.bodiesShapes.lookup ((Gen.Registry.implNames[s.impl]?).getD "?") with
  | Option.none => true
  | some (sh, va') => fitsSig s.pos s.vararg sh va'

/-- **Table fact.**  Every signature of the generated registry whose implementation was translated admits only argument
    lists of the shapes the translator recorded for that implementation (kernel `decide` over Gen/Registry × Gen/Bodies). -/
theorem registry_fits : Gen.Registry.registry.all (fun p => p.2.all sigFits) = true := by
  decide +kernel

/-- **Resolution implies well-typedness.**  When `dispatch` has chosen a signature for the argument classes and
    `coerce_args` has succeeded, the coerced arguments have the shapes the agreement theorem of the chosen descriptor asks for. -/
theorem resolved_wellTyped {name : String} {args cargs : List Val} {kw : List (Nat × Nat)} {pos : List Nat} {va : Option Nat}
    {desc : String} {code? : Option BodyCode} {sh : List Shape} {va' : Option Shape}
    (hr : resolveDesc name (args.map classOf) kw = .ok ⟨pos, va, desc, code?⟩)
    (hs : Gen.Bodies.bodiesShapes.lookup desc = some (sh, va'))
    (hc : coerceArgs pos va args = .ok cargs) : wellTyped sh va' cargs = true := by
  unfold resolveDesc at hr
  split at hr
  · cases hr
  · rename_i s hres
    simp only [Except.ok.injEq, Chosen.mk.injEq] at hr
    obtain ⟨rfl, rfl, rfl, _⟩ := hr
    obtain ⟨sigs, hreg, hmem, hmatch⟩ := resolve_ok hres
    have hfit : sigFits s = true := by
      have h1 := List.all_eq_true.mp registry_fits _ hreg
      exact List.all_eq_true.mp h1 _ hmem
    simp only [sigFits, hs] at hfit
    simp only [Dispatch.sigMatches] at hmatch
    split at hmatch
    · cases hmatch
    · rename_i rest hmp
      refine fits_wellTyped s.pos sh s.vararg va' args cargs rest hfit hmp ?_ hc
      by_cases he : rest = []
      · exact Or.inl he
      · have he' : rest.isEmpty = false := by cases rest <;> simp_all
        simp only [he', Bool.false_or] at hmatch
        split at hmatch
        · rename_i v hv
          refine Or.inr ⟨v, hv, List.all_eq_true.mpr fun x hx => ?_⟩
          exact List.all_eq_true.mp hmatch x (matchPos_sub _ _ _ _ hmp x hx)
        · cases hmatch

end KaVerif.Bodies
