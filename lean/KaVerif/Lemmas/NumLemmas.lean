import KaVerif.Model.Arith
import Mathlib.Data.Rat.Floor
import Mathlib.Tactic.Ring
import Mathlib.Tactic.Linarith
import Mathlib.Tactic.FieldSimp
import Mathlib.Tactic.Positivity

set_option linter.unusedSimpArgs false

namespace KaVerif
open Num

theorem simplify_frac (q : Rat) : simplify (.frac q) = .ok (canon q) := by
  unfold simplify canon
  by_cases h : q.den = 1
  · simp [h]
  · have hne : ¬ (q.num % (q.den : Int) = 0) := by
      intro hm
      have hd : (q.den : Int) ∣ q.num := Int.dvd_of_emod_eq_zero hm
      have hc := q.reduced
      have : q.den ∣ q.num.natAbs := by
        have := Int.natAbs_dvd_natAbs.mpr hd
        simpa using this
      have h1 : q.den ∣ Nat.gcd q.num.natAbs q.den := Nat.dvd_gcd this (dvd_refl _)
      rw [hc] at h1
      exact h (Nat.dvd_one.mp h1)
    simp [h, hne]

theorem simplify_int (n : Int) : simplify (.int n) = .ok (.int n) := rfl

theorem canon_intCast (n : Int) : canon (n : Rat) = .int n := by
  simp [canon]

theorem toRat_canon (q : Rat) : (canon q).toRat = q := by
  unfold canon
  split
  · rename_i h
    simp only [toRat]
    exact (Rat.den_eq_one_iff q |>.mp h)
  · rfl

theorem canon_cases (q : Rat) :
    (q.den = 1 ∧ canon q = .int q.num ∧ (q.num : Rat) = q) ∨ (q.den ≠ 1 ∧ canon q = .frac q) := by
  by_cases h : q.den = 1
  · left; refine ⟨h, by simp [canon, h], (Rat.den_eq_one_iff q).mp h⟩
  · right; exact ⟨h, by simp [canon, h]⟩

end KaVerif

namespace KaVerif
open Num

/-- floor of an integer quotient is floored integer division -/
theorem floor_intCast_div (x y : Int) (hy : y ≠ 0) :
    ((x : Rat) / (y : Rat)).floor = Int.fdiv x y := by
  have hfl : ((x : Rat) / (y : Rat)).floor = ⌊(x : Rat) / (y : Rat)⌋ := rfl
  rw [hfl, Int.floor_eq_iff]
  have hdef := Int.fmod_def x y
  have hyq : (y : Rat) ≠ 0 := by exact_mod_cast hy
  have hx : (x : Rat) = (y : Rat) * (Int.fdiv x y : Rat) + (Int.fmod x y : Rat) := by
    have : x = y * Int.fdiv x y + Int.fmod x y := by rw [hdef]; ring
    exact_mod_cast this
  rcases lt_or_gt_of_ne hy with hneg | hpos
  · have hem := Int.fmod_eq_emod (a := x) (b := y)
    have hnn : 0 ≤ x % y := Int.emod_nonneg x hy
    have hlt : x % y < -y := by
      have := Int.emod_lt_of_pos x (b := -y) (by omega)
      simpa using this
    have hz : (y ∣ x) → x % y = 0 := fun h => Int.emod_eq_zero_of_dvd h
    have h1 : Int.fmod x y ≤ 0 := by
      rw [hem]; split
      · rename_i h; rcases h with h | h
        · omega
        · rw [hz h]; omega
      · omega
    have h2 : y < Int.fmod x y := by
      rw [hem]; split
      · omega
      · rename_i h
        have : x % y ≠ 0 := fun h0 => h (Or.inr (Int.dvd_of_emod_eq_zero h0))
        omega
    have hyq' : (y : Rat) < 0 := by exact_mod_cast hneg
    have h1q : (Int.fmod x y : Rat) ≤ 0 := by exact_mod_cast h1
    have h2q : (y : Rat) < (Int.fmod x y : Rat) := by exact_mod_cast h2
    constructor
    · rw [le_div_iff_of_neg hyq']; nlinarith
    · rw [div_lt_iff_of_neg hyq']; nlinarith
  · have h1 : 0 ≤ Int.fmod x y := Int.fmod_nonneg_of_pos x hpos
    have h2 : Int.fmod x y < y := Int.fmod_lt_of_pos x hpos
    have hyq' : (0 : Rat) < y := by exact_mod_cast hpos
    have h1q : (0 : Rat) ≤ (Int.fmod x y : Rat) := by exact_mod_cast h1
    have h2q : (Int.fmod x y : Rat) < (y : Rat) := by exact_mod_cast h2
    constructor
    · rw [le_div_iff₀ hyq']; nlinarith
    · rw [div_lt_iff₀ hyq']; nlinarith

theorem fmodRat_intCast (x y : Int) (hy : y ≠ 0) :
    fmodRat (x : Rat) (y : Rat) = ((Int.fmod x y : Int) : Rat) := by
  unfold fmodRat
  rw [floor_intCast_div x y hy, Int.fmod_def]
  push_cast; ring

end KaVerif

namespace KaVerif
open Num

theorem canon_int_iff (q : Rat) (h : q.den = 1) : canon q = .int q.num := by simp [canon, h]

theorem canon_of_intCast_eq (q : Rat) (n : Int) (h : (n : Rat) = q) : canon q = .int n := by
  subst h; exact canon_intCast n

theorem toRat_int (n : Int) : (Num.int n).toRat = (n : Rat) := rfl
theorem toRat_frac (q : Rat) : (Num.frac q).toRat = q := rfl

theorem binop_lin_canon (op : BinOp) (hop : op = .add ∨ op = .sub ∨ op = .mul) (x y : Rat) :
    binop op (canon x) (canon y) = .ok (canon (match op with
      | .add => x + y | .sub => x - y | _ => x * y)) := by
  rcases canon_cases x with ⟨hxd, hxc, hxe⟩ | ⟨hxd, hxc⟩ <;>
  rcases canon_cases y with ⟨hyd, hyc, hye⟩ | ⟨hyd, hyc⟩ <;>
  rw [hxc, hyc] <;> rcases hop with rfl | rfl | rfl <;>
  simp only [binop, pyLin, bind, Except.bind, toRat_int, toRat_frac, simplify_frac, simplify_int]
  · rw [canon_of_intCast_eq]; push_cast; rw [hxe, hye]
  · rw [canon_of_intCast_eq]; push_cast; rw [hxe, hye]
  · rw [canon_of_intCast_eq]; push_cast; rw [hxe, hye]
  all_goals (first | rw [hxe] | rw [hye])

end KaVerif

namespace KaVerif
open Num

theorem binop_div_canon (x y : Rat) :
    binop .div (canon x) (canon y) = if y = 0 then .error .divZero else .ok (canon (x / y)) := by
  rcases canon_cases x with ⟨hxd, hxc, hxe⟩ | ⟨hxd, hxc⟩ <;>
  rcases canon_cases y with ⟨hyd, hyc, hye⟩ | ⟨hyd, hyc⟩ <;>
  rw [hxc, hyc] <;>
  simp only [binop, pyTrueDiv, fractionDivide, bind, Except.bind, toRat_int, toRat_frac]
  · by_cases h0 : y = 0
    · have : y.num = 0 := by rw [h0]; rfl
      simp [h0, this]
    · have : y.num ≠ 0 := by intro h; apply h0; rw [← hye, h]; simp
      simp only [this, h0, if_false, simplify_frac, hxe, hye]
  · by_cases h0 : y = 0 <;> simp only [h0, if_true, if_false, simplify_frac, hxe]
  · by_cases h0 : y = 0
    · have : y.num = 0 := by rw [h0]; rfl
      simp [h0, this]
    · have : ((y.num : Int) : Rat) ≠ 0 := by rw [hye]; exact h0
      simp only [this, h0, if_false, simplify_frac, hye]
  · by_cases h0 : y = 0 <;> simp only [h0, if_true, if_false, simplify_frac]

theorem binop_mod_canon (x y : Rat) :
    binop .mod (canon x) (canon y) = if y = 0 then .error .divZero else .ok (canon (fmodRat x y)) := by
  rcases canon_cases x with ⟨hxd, hxc, hxe⟩ | ⟨hxd, hxc⟩ <;>
  rcases canon_cases y with ⟨hyd, hyc, hye⟩ | ⟨hyd, hyc⟩ <;>
  rw [hxc, hyc] <;>
  simp only [binop, pyMod, bind, Except.bind, toRat_int, toRat_frac]
  · by_cases h0 : y = 0
    · have : y.num = 0 := by rw [h0]; rfl
      simp [h0, this]
    · have hn : y.num ≠ 0 := by intro h; apply h0; rw [← hye, h]; simp
      simp only [hn, h0, if_false, simplify_int]
      rw [canon_of_intCast_eq]
      rw [← fmodRat_intCast _ _ hn, hxe, hye]
  · by_cases h0 : y = 0 <;> simp only [h0, if_true, if_false, simplify_frac, hxe]
  · by_cases h0 : y = 0
    · have : y.num = 0 := by rw [h0]; rfl
      simp [h0, this]
    · have : ((y.num : Int) : Rat) ≠ 0 := by rw [hye]; exact h0
      simp only [this, h0, if_false, simplify_frac, hye]
  · by_cases h0 : y = 0 <;> simp only [h0, if_true, if_false, simplify_frac]

end KaVerif

namespace KaVerif
open Num

theorem ratPowNat_eq (q : Rat) (n : Nat) : ratPowNat q n = q ^ n := by
  unfold ratPowNat
  rw [← Rat.num_pow, ← Rat.den_pow]
  exact Rat.mkRat_self (q ^ n)

theorem isFractional_int (k : Int) : isFractional (.int k) = .ok false := by
  simp [isFractional, pyInt, cmpEq, bind, Except.bind]

theorem binop_pow_canon (x y : Rat) (hd : y.den = 1) (hn : 0 ≤ y.num) :
    binop .pow (canon x) (canon y) = .ok (canon (x ^ y.num.toNat)) := by
  rw [canon_int_iff y hd]
  rcases canon_cases x with ⟨hxd, hxc, hxe⟩ | ⟨hxd, hxc⟩ <;> rw [hxc] <;>
  simp only [binop, pyPow, isFractional_int, bind, Except.bind, Bool.false_and, Bool.false_eq_true,
    if_false, hn, ge_iff_le, if_true, simplify_int, simplify_frac, ratPowNat_eq]
  rw [canon_of_intCast_eq]; push_cast; rw [hxe]

theorem floor_eq_self_of_den_one (x : Rat) (h : x.den = 1) : x.floor = x.num := by
  rw [Rat.floor_def]; simp [h]

theorem ceil_eq_self_of_den_one (x : Rat) (h : x.den = 1) : x.ceil = x.num := by
  have hx : (x.num : Rat) = x := (Rat.den_eq_one_iff x).mp h
  rw [← hx, Rat.ceil_intCast]; simp

theorem roundHalfEven_of_den_one (x : Rat) (h : x.den = 1) : roundHalfEven x = x.num := by
  have hx : (x.num : Rat) = x := (Rat.den_eq_one_iff x).mp h
  unfold roundHalfEven
  rw [floor_eq_self_of_den_one x h]
  simp [hx]

theorem pyInt_frac (q : Rat) : pyInt (.frac q) = .ok (truncRat q) := by
  unfold pyInt truncRat
  by_cases hneg : q.num < 0
  · have hq : q < 0 := Rat.num_neg.mp hneg
    simp only [hneg, hq, if_true]
    rw [Rat.ceil_eq_neg_floor_neg, Rat.floor_def]
    simp
  · have hq : ¬ q < 0 := by rw [← Rat.num_neg]; exact hneg
    simp only [hneg, hq, if_false, Rat.floor_def]

theorem truncRat_of_den_one (x : Rat) (h : x.den = 1) : truncRat x = x.num := by
  unfold truncRat
  split
  · exact ceil_eq_self_of_den_one x h
  · exact floor_eq_self_of_den_one x h

theorem unop_canon (op : UnOp) (x r : Rat) (h : denUn op x = .val r) :
    unop op (canon x) = .ok (canon r) := by
  rcases canon_cases x with ⟨hxd, hxc, hxe⟩ | ⟨hxd, hxc⟩ <;> rw [hxc] <;> cases op <;>
  simp only [denUn, Den.val.injEq, reduceCtorEq] at h <;> subst h <;>
  simp only [unop, bind, Except.bind, simplify_int, simplify_frac, pyInt, pyInt_frac]
  all_goals congr 1
  all_goals first
    | exact (canon_intCast _).symm
    | (have hxe : (x.num : Rat) = x := (Rat.den_eq_one_iff x).mp hxd
       first
       | exact (canon_int_iff x hxd).symm
       | (rw [floor_eq_self_of_den_one x hxd]; exact (canon_intCast _).symm)
       | (rw [ceil_eq_self_of_den_one x hxd]; exact (canon_intCast _).symm)
       | (rw [roundHalfEven_of_den_one x hxd]; exact (canon_intCast _).symm)
       | (rw [truncRat_of_den_one x hxd]; exact (canon_intCast _).symm)
       | (symm; apply canon_of_intCast_eq
          have hlt : x.num < 0 ↔ x < 0 := Rat.num_neg
          by_cases hc : x < 0
          · simp only [hc, hlt.mpr hc, if_true]; push_cast; rw [hxe]
          · have : ¬ x.num < 0 := fun h => hc (hlt.mp h)
            simp only [hc, this, if_false]; exact hxe)
       | (symm; apply canon_of_intCast_eq; push_cast; rw [hxe]))
    | (have := pyInt_frac x; simp only [pyInt, Except.ok.injEq] at this; rw [this]; exact (canon_intCast _).symm)

end KaVerif
