import KaVerif.Model.Eval
import KaVerif.Model.Session
import KaVerif.Model.Render
import KaVerif.Model.Interval
/-
  Helper lemmas for Props/Pipeline.lean: how the unified evaluator (`Model/Eval.lean`) reduces on
  plain numbers, the kernel-checked table facts about the generated registry it goes through, and
  the embeddings of the fragment languages (C01 `AExp`, C14 `Session.Exp`) into `Parser.Ast`.
  No Mathlib.
-/
namespace KaVerif.Eval
open KaVerif Num Parser

/-! ### small facts -/

theorem cInt_eq : cInt = 0 := by decide
theorem cFrac_eq : cFrac = 1 := by decide
theorem cFloat_eq : cFloat = 2 := by decide

/-- the three numeric value classes -/
def kinds3 : List Nat := [cInt, cFrac, cFloat]

theorem numClass_mem (x : Num) : numClass x ∈ kinds3 := by
  cases x <;> simp [numClass, kinds3]

/-- `simplify_number` is idempotent -/
theorem simplify_idem {a r : Num} (h : simplify a = .ok r) : simplify r = .ok r := by
  cases a with
  | int n => simp [simplify] at h; subst h; rfl
  | frac q =>
    simp only [simplify] at h
    split at h
    · injection h with h; subst h; rfl
    · injection h with h; subst h; simp [simplify, *]
  | flt x =>
    simp only [simplify] at h
    split at h
    · split at h
      · injection h with h; subst h; rfl
      · injection h with h; subst h; simp [simplify, *]
    · split at h
      · injection h with h; subst h; simp [simplify, *]
      · cases h

/-- a number-valued outcome of a fragment model inside the unified evaluator -/
def liftN : Except Err Num → R Val
  | .ok v => .ok (.num v)
  | .error e => .error (.err e)

theorem toOption_eq_some {ε α : Type} {x : Except ε α} {a : α} (h : x.toOption = some a) : x = .ok a := by
  cases x with
  | ok v => simp [Except.toOption] at h; subst h; rfl
  | error e => simp [Except.toOption] at h

/-! ### the registry on numbers (kernel-checked; re-checked whenever Gen/Registry changes) -/

def tIntegral : Nat := Gen.Registry.typeNames.idxOf "Integral"

/-- what `dispatch` must choose for a binary operator on two numbers -/
def ch2 (desc : String) (code : BodyCode) : Chosen := ⟨[tNumber, tNumber], none, desc, some code⟩
def ch1 (desc : String) (code : BodyCode) : Chosen := ⟨[tNumber], none, desc, some code⟩

/-- **Table fact (binary).**  On every pair of numeric kinds `dispatch` resolves `+ - * % ^` to
    Python's operators / `strict_pow`, `/` to `fraction_divide` on two ints and to `truediv`
    otherwise, the six comparisons to the `intify` wrappers — and `implTable` has exactly the
    corresponding model body under each of those descriptors. -/
theorem num_table2 : ∀ a ∈ kinds3, ∀ b ∈ kinds3,
    (resolveDesc "+" [a, b] []).toOption = some (ch2 "+|(Number, Number)|_operator.add" (.lin .add)) ∧
    (resolveDesc "-" [a, b] []).toOption = some (ch2 "-|(Number, Number)|_operator.sub" (.lin .sub)) ∧
    (resolveDesc "*" [a, b] []).toOption = some (ch2 "*|(Number, Number)|_operator.mul" (.lin .mul)) ∧
    (resolveDesc "%" [a, b] []).toOption = some (ch2 "%|(Number, Number)|_operator.mod" .mod) ∧
    (resolveDesc "^" [a, b] []).toOption = some (ch2 "^|(Number, Number)|ka.functions.strict_pow" .pow) ∧
    (resolveDesc "/" [a, b] []).toOption = some
      (if a = cInt ∧ b = cInt then ⟨[tIntegral, tIntegral], none, "/|(Integral, Integral)|ka.types.fraction_divide", some .fracDiv⟩
       else ch2 "/|(Number, Number)|_operator.truediv" .trueDiv) ∧
    (resolveDesc "<" [a, b] []).toOption = some (ch2 "<|(Number, Number)|ka.functions.intify.<locals>.f_new[_operator.lt]" (.cmp "<")) ∧
    (resolveDesc "<=" [a, b] []).toOption = some (ch2 "<=|(Number, Number)|ka.functions.intify.<locals>.f_new[_operator.le]" (.cmp "<=")) ∧
    (resolveDesc "==" [a, b] []).toOption = some (ch2 "==|(Number, Number)|ka.functions.intify.<locals>.f_new[_operator.eq]" (.cmp "==")) ∧
    (resolveDesc "!=" [a, b] []).toOption = some (ch2 "!=|(Number, Number)|ka.functions.intify.<locals>.f_new[_operator.ne]" (.cmp "!=")) := by
  decide +kernel

/-- **Table fact (unary).**  Sign, `abs floor ceil round int float` on every numeric kind. -/
theorem num_table1 : ∀ a ∈ kinds3,
    (resolveDesc "+" [a] []).toOption = some (ch1 "+|(Number)|_operator.pos" (.fn1 .pos)) ∧
    (resolveDesc "-" [a] []).toOption = some (ch1 "-|(Number)|_operator.neg" (.fn1 .neg)) ∧
    (resolveDesc "abs" [a] []).toOption = some (ch1 "abs|(Number)|builtins.abs" (.fn1 .abs)) ∧
    (resolveDesc "floor" [a] []).toOption = some (ch1 "floor|(Number)|math.floor" (.fn1 .floor)) ∧
    (resolveDesc "ceil" [a] []).toOption = some (ch1 "ceil|(Number)|math.ceil" (.fn1 .ceil)) ∧
    (resolveDesc "round" [a] []).toOption = some (ch1 "round|(Number)|builtins.round" (.fn1 .round)) ∧
    (resolveDesc "int" [a] []).toOption = some (ch1 "int|(Number)|builtins.int" (.fn1 .toInt)) ∧
    (resolveDesc "float" [a] []).toOption = some (ch1 "float|(Number)|builtins.float" (.fn1 .toFloat)) := by
  decide +kernel

/-! ### `dispatch` on plain numbers -/

theorem kwIds_nil : kwIds [] = [] := rfl

/-- one step of `dispatchV` once the registry's choice is known -/
theorem dispatchV_step {n : Nat} {name : String} {args : List Val} {c : Chosen} {code : BodyCode}
    (h : (resolveDesc name (args.map classOf) []).toOption = some c) (hc : c.code = some code) :
    dispatchV (n + 1) name args [] = (do
      let cargs ← coerceArgs c.pos c.vararg args
      let r ← code.run (fun nm as => dispatchV n nm as []) cargs
      simplifyVal r) := by
  have h' := toOption_eq_some h
  obtain ⟨pos, va, desc, co⟩ := c
  simp only at hc
  subst hc
  simp only [dispatchV, kwIds_nil, h']

theorem coerceTo_num (x : Num) (t : Nat) : coerceTo (.num x) t = .ok (.num x) := rfl

theorem coerceArgs_num2 (t1 t2 : Nat) (va : Option Nat) (x y : Num) :
    coerceArgs [t1, t2] va [.num x, .num y] = .ok [.num x, .num y] := by
  cases va <;> simp [coerceArgs, coerceTo, bind, Except.bind]

theorem coerceArgs_num1 (t1 : Nat) (va : Option Nat) (x : Num) :
    coerceArgs [t1] va [.num x] = .ok [.num x] := by
  cases va <;> simp [coerceArgs, coerceTo, bind, Except.bind]

/-- a body that is a Python operator on two numbers, followed by `simplify_type` -/
theorem run_num2 (f : Num → Num → Except Err Num) (rec : Disp) (x y : Num) :
    (do let r ← bNum2 f rec [.num x, .num y]; simplifyVal r) = liftN (f x y >>= simplify) := by
  simp only [bNum2]
  cases f x y with
  | error e => rfl
  | ok r =>
    simp only [liftE, Except.map, bind, Except.bind, simplifyVal]
    cases simplify r <;> rfl

/-- `+ - *` on two numbers is `Num.binop` -/
theorem dispatch_lin (n : Nat) (op : BinOp) (nm : String) (desc : String) (x y : Num)
    (h : (resolveDesc nm [numClass x, numClass y] []).toOption = some (ch2 desc (.lin op)))
    (hop : op = .add ∨ op = .sub ∨ op = .mul) :
    dispatchV (n + 1) nm [.num x, .num y] [] = liftN (binop op x y) := by
  rw [dispatchV_step (c := ch2 desc (.lin op)) (code := .lin op) (by simpa [classOf] using h) rfl]
  simp only [ch2, coerceArgs_num2, bind, Except.bind, BodyCode.run]
  have := run_num2 (pyLin op) (fun nm as => dispatchV n nm as []) x y
  simp only [bind, Except.bind] at this
  rw [this]
  rcases hop with rfl | rfl | rfl <;> rfl

theorem dispatch_add (n : Nat) (x y : Num) : dispatchV (n + 1) "+" [.num x, .num y] [] = liftN (binop .add x y) :=
  dispatch_lin n .add "+" _ x y (num_table2 _ (numClass_mem x) _ (numClass_mem y)).1 (Or.inl rfl)

theorem dispatch_sub (n : Nat) (x y : Num) : dispatchV (n + 1) "-" [.num x, .num y] [] = liftN (binop .sub x y) :=
  dispatch_lin n .sub "-" _ x y (num_table2 _ (numClass_mem x) _ (numClass_mem y)).2.1 (Or.inr (Or.inl rfl))

theorem dispatch_mul (n : Nat) (x y : Num) : dispatchV (n + 1) "*" [.num x, .num y] [] = liftN (binop .mul x y) :=
  dispatch_lin n .mul "*" _ x y (num_table2 _ (numClass_mem x) _ (numClass_mem y)).2.2.1 (Or.inr (Or.inr rfl))

theorem dispatch_mod (n : Nat) (x y : Num) : dispatchV (n + 1) "%" [.num x, .num y] [] = liftN (binop .mod x y) := by
  have h := (num_table2 _ (numClass_mem x) _ (numClass_mem y)).2.2.2.1
  rw [dispatchV_step (c := ch2 _ .mod) (code := .mod) (by simpa [classOf] using h) rfl]
  simp only [ch2, coerceArgs_num2, bind, Except.bind, BodyCode.run]
  have := run_num2 pyMod (fun nm as => dispatchV n nm as []) x y
  simp only [bind, Except.bind] at this
  rw [this]; rfl

/-- `^` on two numbers is `Num.binop .pow` — unless the exact result would have millions of digits,
    which the model refuses to compute (`hugePow`) -/
theorem dispatch_pow (n : Nat) (x y : Num) (hp : hugePow x y = false) :
    dispatchV (n + 1) "^" [.num x, .num y] [] = liftN (binop .pow x y) := by
  have h := (num_table2 _ (numClass_mem x) _ (numClass_mem y)).2.2.2.2.1
  rw [dispatchV_step (c := ch2 _ .pow) (code := .pow) (by simpa [classOf] using h) rfl]
  simp only [ch2, coerceArgs_num2, bind, Except.bind, BodyCode.run, bPow, hp, Bool.false_eq_true, if_false]
  have := run_num2 pyPow (fun nm as => dispatchV n nm as []) x y
  simp only [bind, Except.bind, bNum2] at this
  rw [this]; rfl

theorem dispatch_pow_huge (n : Nat) (x y : Num) (hp : hugePow x y = true) :
    dispatchV (n + 1) "^" [.num x, .num y] [] = .error (.unmodelled "huge power") := by
  have h := (num_table2 _ (numClass_mem x) _ (numClass_mem y)).2.2.2.2.1
  rw [dispatchV_step (c := ch2 _ .pow) (code := .pow) (by simpa [classOf] using h) rfl]
  simp only [ch2, coerceArgs_num2, bind, Except.bind, BodyCode.run, bPow, hp, if_true]

theorem dispatch_div (n : Nat) (x y : Num) : dispatchV (n + 1) "/" [.num x, .num y] [] = liftN (binop .div x y) := by
  have h := (num_table2 _ (numClass_mem x) _ (numClass_mem y)).2.2.2.2.2.1
  by_cases hxy : numClass x = cInt ∧ numClass y = cInt
  · rw [if_pos hxy] at h
    rw [dispatchV_step (c := ⟨[tIntegral, tIntegral], none, _, some .fracDiv⟩) (code := .fracDiv) (by simpa [classOf] using h) rfl]
    cases x <;> cases y <;> simp [numClass, cInt_eq, cFrac_eq, cFloat_eq] at hxy
    rename_i a b
    simp only [coerceArgs_num2, bind, Except.bind, BodyCode.run, bFracDiv, binop]
    cases fractionDivide a b with
    | error e => rfl
    | ok r =>
      simp only [liftE, Except.map, simplifyVal, liftN]
      cases simplify r <;> rfl
  · rw [if_neg hxy] at h
    rw [dispatchV_step (c := ch2 _ .trueDiv) (code := .trueDiv) (by simpa [classOf] using h) rfl]
    simp only [ch2, coerceArgs_num2, bind, Except.bind, BodyCode.run]
    have := run_num2 pyTrueDiv (fun nm as => dispatchV n nm as []) x y
    simp only [bind, Except.bind] at this
    rw [this]
    cases x <;> cases y <;> first
      | rfl
      | (exfalso; exact hxy ⟨rfl, rfl⟩)

/-- the registered name of a binary arithmetic operator -/
def binName : BinOp → String
  | .add => "+" | .sub => "-" | .mul => "*" | .div => "/" | .mod => "%" | .pow => "^"

/-- every binary arithmetic operator on two numbers is `Num.binop` -/
theorem dispatch_binop (n : Nat) (op : BinOp) (x y : Num) (hp : op = .pow → hugePow x y = false) :
    dispatchV (n + 1) (binName op) [.num x, .num y] [] = liftN (binop op x y) := by
  cases op
  · exact dispatch_add n x y
  · exact dispatch_sub n x y
  · exact dispatch_mul n x y
  · exact dispatch_div n x y
  · exact dispatch_mod n x y
  · exact dispatch_pow n x y (hp rfl)

/-- comparisons on two numbers -/
theorem dispatch_cmp (n : Nat) (nm desc : String) (x y : Num)
    (h : (resolveDesc nm [numClass x, numClass y] []).toOption = some (ch2 desc (.cmp nm))) :
    dispatchV (n + 1) nm [.num x, .num y] [] = .ok (b2v (cmpByName nm x y)) := by
  rw [dispatchV_step (c := ch2 desc (.cmp nm)) (code := .cmp nm) (by simpa [classOf] using h) rfl]
  rfl

/-- the one-argument numeric functions: `Elementary.body`, then `simplify_type` -/
theorem dispatch_fn1 (n : Nat) (nm desc : String) (f : Elementary.Fn) (x : Num)
    (h : (resolveDesc nm [numClass x] []).toOption = some (ch1 desc (.fn1 f))) :
    dispatchV (n + 1) nm [.num x] [] = liftN (Elementary.applyNum f x) := by
  rw [dispatchV_step (c := ch1 desc (.fn1 f)) (code := .fn1 f) (by simpa [classOf] using h) rfl]
  simp only [ch1, coerceArgs_num1, bind, Except.bind, BodyCode.run, bNum1, Elementary.applyNum]
  cases Elementary.body f x with
  | error e => rfl
  | ok r =>
    simp only [liftE, Except.map, simplifyVal, liftN]
    cases simplify r <;> rfl

theorem bind_simplify_idem {m : Except Err Num} {r : Num} (h : (m >>= simplify) = .ok r) : simplify r = .ok r := by
  cases m with
  | error e => cases h
  | ok a => exact simplify_idem h

/-- the result of `Num.unop` is already simplified -/
theorem unop_idem {op : UnOp} {x r : Num} (h : unop op x = .ok r) : simplify r = .ok r := by
  unfold unop at h
  simp only [] at h
  split at h <;> first
    | exact bind_simplify_idem h
    | (split at h <;> exact bind_simplify_idem h)
    | (simp only [bind, Except.bind] at h
       split at h
       · cases h
       · exact simplify_idem h)

/-- for the exact unary operators `Elementary.applyNum` is `Num.unop` (whose result is already simplified) -/
theorem applyNum_unop (f : Elementary.Fn) (op : UnOp) (x : Num) (h : Elementary.body f x = unop op x) :
    Elementary.applyNum f x = unop op x := by
  simp only [Elementary.applyNum, h, bind, Except.bind]
  cases hu : unop op x with
  | error e => rfl
  | ok r => exact unop_idem hu

/-! ### the C01 fragment inside `Parser.Ast` -/

def embedBin : BinOp → PBin
  | .add => .add | .sub => .sub | .mul => .mul | .div => .div | .mod => .mod | .pow => .pow

/-- the registered name of the functions C01's unary operators are written with -/
def unFun : UnOp → String
  | .abs => "abs" | .floor => "floor" | .ceil => "ceil" | .round => "round" | .toInt => "int"
  | .toFloat => "float" | .pos => "+" | .neg => "-"

/-- a C01 expression as the parse tree of its text: literals, binary operators, sign, and
    `abs( ) floor( ) ceil( ) round( ) int( ) float( )` calls -/
def embed : AExp → Ast
  | .lit n => .num (.int n)
  | .sci m e => .num (litValue m e)
  | .bin op a b => .bin (embedBin op) (embed a) (embed b)
  | .un .pos a => .sign false (embed a)
  | .un .neg a => .sign true (embed a)
  | .un op a => .call (unFun op) [embed a] []

theorem spelling_embedBin (op : BinOp) : (embedBin op).spelling = binName op := by
  cases op <;> rfl

theorem evalE_call1 (env : Env) (name : String) (a : Ast) :
    evalE env (.call name [a] []) = (do let x ← evalE env a; dispatchTop name [x] []) := by
  simp only [evalE, evalEs, evalKs]
  cases evalE env a <;> rfl

theorem dispatch_unop (op : UnOp) (x : Num) :
    dispatchTop (unFun op) [.num x] [] = liftN (unop op x) := by
  have t := num_table1 _ (numClass_mem x)
  obtain ⟨t1, t2, t3, t4, t5, t6, t7, t8⟩ := t
  cases op
  · rw [dispatchTop, dispatchFuel, unFun, dispatch_fn1 _ _ _ .pos x t1, applyNum_unop _ .pos x rfl]
  · rw [dispatchTop, dispatchFuel, unFun, dispatch_fn1 _ _ _ .neg x t2, applyNum_unop _ .neg x rfl]
  · rw [dispatchTop, dispatchFuel, unFun, dispatch_fn1 _ _ _ .abs x t3, applyNum_unop _ .abs x rfl]
  · rw [dispatchTop, dispatchFuel, unFun, dispatch_fn1 _ _ _ .floor x t4, applyNum_unop _ .floor x rfl]
  · rw [dispatchTop, dispatchFuel, unFun, dispatch_fn1 _ _ _ .ceil x t5, applyNum_unop _ .ceil x rfl]
  · rw [dispatchTop, dispatchFuel, unFun, dispatch_fn1 _ _ _ .round x t6, applyNum_unop _ .round x rfl]
  · rw [dispatchTop, dispatchFuel, unFun, dispatch_fn1 _ _ _ .toInt x t7, applyNum_unop _ .toInt x rfl]
  · rw [dispatchTop, dispatchFuel, unFun, dispatch_fn1 _ _ _ .toFloat x t8, applyNum_unop _ .toFloat x rfl]

/-- every power in the expression is one the model computes: no `x ^ k` whose exact result would
    have more than 8 million bits (`hugePow`; Python itself computes or hangs on those, and the
    unified evaluator answers `unmodelled "huge power"`) -/
def powersModelled : AExp → Bool
  | .lit _ | .sci _ _ => true
  | .un _ a => powersModelled a
  | .bin op a b =>
    powersModelled a && powersModelled b &&
      (match op, evalA a, evalA b with
       | .pow, .ok x, .ok y => !hugePow x y
       | _, _, _ => true)

/-- **the unified evaluator on the C01 fragment is `evalA`** -/
theorem evalE_embed (t : AExp) (env : Env) (hpm : powersModelled t = true) : evalE env (embed t) = liftN (evalA t) := by
  induction t with
  | lit n => rfl
  | sci m e =>
    simp only [embed, evalE, evalA]
    cases simplify (litValue m e) <;> rfl
  | bin op a b iha ihb =>
    simp only [powersModelled, Bool.and_eq_true] at hpm
    obtain ⟨⟨ha, hb⟩, hop⟩ := hpm
    simp only [embed, evalE, evalA, iha ha, ihb hb]
    cases hxa : evalA a with
    | error e => rfl
    | ok x =>
      cases hyb : evalA b with
      | error e => rfl
      | ok y =>
        simp only [liftN, bind, Except.bind, spelling_embedBin]
        refine dispatch_binop _ op x y ?_
        intro hpow
        subst hpow
        simpa [hxa, hyb] using hop
  | un op a ih =>
    simp only [powersModelled] at hpm
    have key : (do let x ← evalE env (embed a); dispatchTop (unFun op) [x] []) = liftN (evalA (.un op a)) := by
      simp only [ih hpm, evalA]
      cases evalA a with
      | error e => rfl
      | ok x =>
        simp only [liftN, bind, Except.bind]
        exact dispatch_unop op x
    cases op
    case pos => simpa [embed, evalE, unFun] using key
    case neg => simpa [embed, evalE, unFun] using key
    all_goals (simp only [embed]; rw [evalE_call1]; exact key)

/-- without the hypothesis: the unified evaluator agrees with `evalA` or refuses (never a different answer) -/
theorem evalE_embed_or (t : AExp) (env : Env) :
    evalE env (embed t) = liftN (evalA t) ∨ evalE env (embed t) = .error (.unmodelled "huge power") := by
  induction t with
  | lit n => exact Or.inl rfl
  | sci m e => exact Or.inl (evalE_embed (.sci m e) env rfl)
  | bin op a b iha ihb =>
    simp only [embed, evalE, evalA]
    rcases iha with ha | ha
    · rw [ha]
      cases hxa : evalA a with
      | error e => exact Or.inl rfl
      | ok x =>
        rcases ihb with hb | hb
        · rw [hb]
          cases hyb : evalA b with
          | error e => exact Or.inl rfl
          | ok y =>
            simp only [liftN, bind, Except.bind, spelling_embedBin]
            by_cases hh : op = .pow ∧ hugePow x y = true
            · obtain ⟨rfl, hh⟩ := hh
              exact Or.inr (dispatch_pow_huge _ x y hh)
            · refine Or.inl (dispatch_binop _ op x y ?_)
              intro hpow
              cases hq : hugePow x y with
              | false => rfl
              | true => exact absurd ⟨hpow, hq⟩ hh
        · rw [hb]; exact Or.inr rfl
    · rw [ha]; exact Or.inr rfl
  | un op a ih =>
    have key : (do let x ← evalE env (embed a); dispatchTop (unFun op) [x] []) = liftN (evalA (.un op a))
        ∨ (do let x ← evalE env (embed a); dispatchTop (unFun op) [x] []) = .error (.unmodelled "huge power") := by
      rcases ih with h | h
      · rw [h]
        simp only [evalA]
        cases evalA a with
        | error e => exact Or.inl rfl
        | ok x =>
          simp only [liftN, bind, Except.bind]
          exact Or.inl (dispatch_unop op x)
      · rw [h]; exact Or.inr rfl
    cases op
    case pos => simpa [embed, evalE, unFun] using key
    case neg => simpa [embed, evalE, unFun] using key
    all_goals (simp only [embed]; rw [evalE_call1]; exact key)

/-! ### whole programs over the C01 fragment -/

/-- what `execute` shows for a number-valued evaluation: the displayed text, or the diagnosed class -/
def numOutcome : Except Err Num → Outcome
  | .ok v =>
    match Display.displayResult unitNames Display.defaultPrecision false (.num v) with
    | .ok t => .ok (String.ofList t)
    | .error e => .evalErr e
  | .error e => .evalErr e

mutual
/-- a tree without instant literals has no instant texts to check -/
theorem instTexts_of_noInstant : (t : Ast) → hasInstant t = false → instTexts t = []
  | .inst _, h => by simp [hasInstant] at h
  | .num _, _ | .str _, _ | .var _, _ => rfl
  | .bin _ l r, h => by
    simp only [hasInstant, Bool.or_eq_false_iff] at h
    simp [instTexts, instTexts_of_noInstant l h.1, instTexts_of_noInstant r h.2]
  | .sign _ x, h => by simp only [hasInstant] at h; simp [instTexts, instTexts_of_noInstant x h]
  | .fact x, h => by simp only [hasInstant] at h; simp [instTexts, instTexts_of_noInstant x h]
  | .range a b, h => by
    simp only [hasInstant, Bool.or_eq_false_iff] at h
    simp [instTexts, instTexts_of_noInstant a h.1, instTexts_of_noInstant b h.2]
  | .interval a b, h => by
    simp only [hasInstant, Bool.or_eq_false_iff] at h
    simp [instTexts, instTexts_of_noInstant a h.1, instTexts_of_noInstant b h.2]
  | .cmp1 _ a b, h => by
    simp only [hasInstant, Bool.or_eq_false_iff] at h
    simp [instTexts, instTexts_of_noInstant a h.1, instTexts_of_noInstant b h.2]
  | .cmp2 _ _ a b c, h => by
    simp only [hasInstant, Bool.or_eq_false_iff] at h
    simp [instTexts, instTexts_of_noInstant a h.1.1, instTexts_of_noInstant b h.1.2, instTexts_of_noInstant c h.2]
  | .call _ args kws, h => by
    simp only [hasInstant, Bool.or_eq_false_iff] at h
    simp [instTexts, instTextsL_of_noInstant args h.1, instTextsK_of_noInstant kws h.2]
  | .quantity t _, h => by simp only [hasInstant] at h; simp [instTexts, instTexts_of_noInstant t h]
  | .convert e _, h => by simp only [hasInstant] at h; simp [instTexts, instTexts_of_noInstant e h]
  | .array xs, h => by simp only [hasInstant] at h; simp [instTexts, instTextsL_of_noInstant xs h]
  | .compr b gens conds, h => by
    simp only [hasInstant, Bool.or_eq_false_iff] at h
    simp [instTexts, instTexts_of_noInstant b h.1.1, instTextsK_of_noInstant gens h.1.2, instTextsL_of_noInstant conds h.2]
  | .assign _ e, h => by simp only [hasInstant] at h; simp [instTexts, instTexts_of_noInstant e h]
  | .stmts ss, h => by simp only [hasInstant] at h; simp [instTexts, instTextsL_of_noInstant ss h]
theorem instTextsL_of_noInstant : (ts : List Ast) → hasInstantL ts = false → instTextsL ts = []
  | [], _ => rfl
  | x :: xs, h => by
    simp only [hasInstantL, Bool.or_eq_false_iff] at h
    simp [instTextsL, instTexts_of_noInstant x h.1, instTextsL_of_noInstant xs h.2]
theorem instTextsK_of_noInstant : (ts : List (String × Ast)) → hasInstantK ts = false → instTextsK ts = []
  | [], _ => rfl
  | (_, x) :: xs, h => by
    simp only [hasInstantK, Bool.or_eq_false_iff] at h
    simp [instTextsK, instTexts_of_noInstant x h.1, instTextsK_of_noInstant xs h.2]
end

theorem checkInstants_nil : checkInstants [] = none := rfl

/-- the parse-stage instant check passes on a tree without instant literals -/
theorem checkInstants_of_noInstant (t : Ast) (h : hasInstant t = false) : checkInstants (instTexts t) = none := by
  rw [instTexts_of_noInstant t h]; rfl

theorem hasInstant_embed (t : AExp) : hasInstant (embed t) = false := by
  induction t with
  | lit n => rfl
  | sci m e => rfl
  | bin op a b iha ihb => simp [embed, hasInstant, iha, ihb]
  | un op a ih => cases op <;> simp [embed, hasInstant, hasInstantL, hasInstantK, ih]

theorem evalStmt_embed (t : AExp) (env : Env) (hpm : powersModelled t = true) :
    evalStmt env (embed t) = (env, liftN (evalA t)) := by
  rw [← evalE_embed t env hpm]
  cases t with
  | lit n => rfl
  | sci m e => rfl
  | bin op a b => rfl
  | un op a => cases op <;> rfl

/-- a one-statement program over the C01 fragment: `execute` shows `evalA`'s value or its error -/
theorem runTree_embed (t : AExp) (env : Env) (hpm : powersModelled t = true) :
    runTree env (.stmts [embed t]) = (env, numOutcome (evalA t)) := by
  have hi : hasInstant (.stmts [embed t]) = false := by simp [hasInstant, hasInstantL, hasInstant_embed]
  simp only [runTree, checkInstants_of_noInstant _ hi, runProgram, runStmts, evalStmt_embed t env hpm]
  cases evalA t with
  | error e => rfl
  | ok v =>
    simp only [liftN, numOutcome, reduceResult, resolveLazy, bind, Except.bind, displayText, toDVal]
    cases Display.displayResult unitNames Display.defaultPrecision false (.num v) <;> rfl

theorem simplify_exact_ok (v : Num) (h : v.isExact = true) : ∃ r, simplify v = .ok r := by
  cases v with
  | int n => exact ⟨_, rfl⟩
  | frac q => simp only [simplify]; split <;> exact ⟨_, rfl⟩
  | flt x => simp [isExact] at h

theorem numOK_litValue (m : Nat) (e : Int) : numOK (litValue m e) = true := by
  have hx : (litValue m e).isExact = true := by unfold litValue; split <;> rfl
  obtain ⟨r, hr⟩ := simplify_exact_ok _ hx
  simp [numOK, hr]

theorem wfE_embed (t : AExp) : wfE (embed t) = true := by
  induction t with
  | lit n => rfl
  | sci m e => simpa [embed, wfE] using numOK_litValue m e
  | bin op a b iha ihb => simp [embed, wfE, iha, ihb]
  | un op a ih => cases op <;> simp [embed, wfE, wfEs, wfKs, ih]

theorem wfS_embed (t : AExp) : wfS (embed t) = true := by
  have h := wfE_embed t
  cases t with
  | lit n => exact h
  | sci m e => exact h
  | bin op a b => exact h
  | un op a => cases op <;> exact h

theorem wf_program_embed (t : AExp) : (Ast.stmts [embed t]).WF := by
  intro s hs
  simp at hs
  subst hs
  exact wfS_embed t

/-! ### the C14 fragment inside `Parser.Ast` -/

/-- the expressions of the session model whose meaning does not depend on its abstract function
    and unit namespaces: literals, variables, + and * -/
def coreExp : Session.Exp → Bool
  | .lit _ | .var _ => true
  | .add a b | .mul a b => coreExp a && coreExp b
  | .call _ _ | .unit _ _ => false

def coreStmt : Session.Stmt → Bool
  | .assign _ e => coreExp e
  | .expr e => coreExp e

def embedS : Session.Exp → Ast
  | .lit n => .num (.int n)
  | .var x => .var x
  | .add a b => .bin .add (embedS a) (embedS b)
  | .mul a b => .bin .mul (embedS a) (embedS b)
  | .call f a => .call f [embedS a] []
  | .unit a u => .quantity (embedS a) ⟨[(u, 1)], []⟩

def embedStmt : Session.Stmt → Ast
  | .assign x e => .assign x (embedS e)
  | .expr e => embedS e

def valOf (v : Int) : Val := .num (.int v)

/-- a session of the C14 model as bindings of the unified evaluator -/
def envOf (env : Session.Env) : Env := env.map (fun p => (p.1, valOf p.2))

def lastOf : Option Int → Val
  | Option.none => .none
  | some v => valOf v

def resOf : Except Session.SErr Int → R Val
  | .ok v => .ok (valOf v)
  | .error _ => .error (.err .eval)

theorem envOf_get (env : Session.Env) (x : String) : (envOf env).get x = (env.get x).map valOf := by
  induction env with
  | nil => rfl
  | cons p t ih =>
    obtain ⟨a, b⟩ := p
    simp only [envOf, Env.get, Session.Env.get, List.map_cons, List.lookup_cons] at ih ⊢
    cases hx : (x == a) with
    | true => rfl
    | false => exact ih

theorem envOf_filter (env : Session.Env) (x : String) :
    (envOf env).filter (fun p => p.1 != x) = envOf (env.filter (fun p => p.1 != x)) := by
  induction env with
  | nil => rfl
  | cons p t ih =>
    obtain ⟨a, b⟩ := p
    simp only [envOf, List.map_cons, List.filter_cons] at ih ⊢
    cases (a != x) with
    | true => simp only [if_true, List.map_cons, ih]
    | false => simpa using ih

theorem envOf_set (env : Session.Env) (x : String) (v : Int) :
    (envOf env).set x (valOf v) = envOf (env.set x v) := by
  simp only [Env.set, Session.Env.set, envOf_filter]
  rfl

theorem binop_add_int (x y : Int) : binop .add (.int x) (.int y) = .ok (.int (x + y)) := rfl
theorem binop_mul_int (x y : Int) : binop .mul (.int x) (.int y) = .ok (.int (x * y)) := rfl

theorem evalE_embedS (w : Session.World) (env : Session.Env) (e : Session.Exp) (h : coreExp e = true) :
    evalE (envOf env) (embedS e) = resOf (Session.evalE w env e) := by
  induction e with
  | lit n => rfl
  | var x =>
    simp only [embedS, evalE, envOf_get, Session.evalE]
    cases env.get x <;> rfl
  | add a b iha ihb =>
    simp only [coreExp, Bool.and_eq_true] at h
    simp only [embedS, evalE, Session.evalE, iha h.1, ihb h.2]
    cases Session.evalE w env a with
    | error e => rfl
    | ok x =>
      cases Session.evalE w env b with
      | error e => rfl
      | ok y =>
        simp only [resOf, bind, Except.bind, valOf]
        exact (dispatch_add _ (.int x) (.int y)).trans (by rw [binop_add_int]; rfl)
  | mul a b iha ihb =>
    simp only [coreExp, Bool.and_eq_true] at h
    simp only [embedS, evalE, Session.evalE, iha h.1, ihb h.2]
    cases Session.evalE w env a with
    | error e => rfl
    | ok x =>
      cases Session.evalE w env b with
      | error e => rfl
      | ok y =>
        simp only [resOf, bind, Except.bind, valOf]
        exact (dispatch_mul _ (.int x) (.int y)).trans (by rw [binop_mul_int]; rfl)
  | call f a _ => simp [coreExp] at h
  | unit a u _ => simp [coreExp] at h

theorem evalStmt_embedS (env : Env) (e : Session.Exp) (h : coreExp e = true) :
    evalStmt env (embedS e) = (env, evalE env (embedS e)) := by
  cases e with
  | call f a => simp [coreExp] at h
  | unit a u => simp [coreExp] at h
  | _ => rfl

/-- one statement: the unified evaluator steps exactly like `Session.step` -/
theorem evalStmt_session (w : Session.World) (env : Session.Env) (s : Session.Stmt) (h : coreStmt s = true) :
    evalStmt (envOf env) (embedStmt s) =
      match Session.step w env s with
      | .ok (env', v) => (envOf env', .ok (valOf v))
      | .error _ => (envOf env, .error (.err .eval)) := by
  cases s with
  | assign x e =>
    simp only [coreStmt] at h
    simp only [embedStmt, evalStmt, evalE_embedS w env e h, Session.step]
    cases Session.evalE w env e with
    | error er => rfl
    | ok v => simp only [resOf, bind, Except.bind, envOf_set]
  | expr e =>
    simp only [coreStmt] at h
    simp only [embedStmt, evalStmt_embedS _ e h, evalE_embedS w env e h, Session.step]
    cases Session.evalE w env e <;> rfl

/-- the value / failure of one input, in the unified evaluator's terms -/
def outOf : Except Session.SErr (Option Int) → R Val
  | .ok r => .ok (lastOf r)
  | .error _ => .error (.err .eval)

theorem runStmts_session (w : Session.World) (ss : List Session.Stmt) (h : ∀ s ∈ ss, coreStmt s = true)
    (env : Session.Env) (last : Option Int) :
    runStmts (envOf env) (lastOf last) (ss.map embedStmt) =
      (envOf (Session.runInput w env last ss).env, outOf (Session.runInput w env last ss).result) := by
  induction ss generalizing env last with
  | nil => rfl
  | cons s rest ih =>
    have hs : coreStmt s = true := h s (by simp)
    have hr : ∀ t ∈ rest, coreStmt t = true := fun t ht => h t (by simp [ht])
    simp only [List.map_cons, runStmts, evalStmt_session w env s hs, Session.runInput]
    cases hstep : Session.step w env s with
    | error e => rfl
    | ok p =>
      obtain ⟨env', v⟩ := p
      simp only
      exact ih hr env' (some v)

/-! ### fragments: quantity operators (C03/C04) and array sum (C12) inside the unified evaluator -/

/-- the result of `Num.binop` is already simplified -/
theorem binop_idem {op : BinOp} {x y r : Num} (h : binop op x y = .ok r) : simplify r = .ok r := by
  unfold binop at h
  simp only [] at h
  split at h <;> exact bind_simplify_idem h

def tQuantity : Nat := Gen.Registry.typeNames.idxOf "Quantity"
def tArray : Nat := Gen.Registry.typeNames.idxOf "Array"

def chQ (desc : String) (code : BodyCode) : Chosen := ⟨[tQuantity, tQuantity], none, desc, some code⟩

/-- **Table fact (quantities).**  On two quantities `dispatch` reaches `register_quantities_op`'s `f`
    with the closure cells (operator name, vector combiner, wrap flag) the model body is built from. -/
theorem qty_table :
    (resolveDesc "+" [cQty, cQty] []).toOption = some (chQ "+|(Quantity, Quantity)|ka.functions.register_quantities_op.<locals>.f['+',None,True]" (.qtyQty "+" .same true)) ∧
    (resolveDesc "-" [cQty, cQty] []).toOption = some (chQ "-|(Quantity, Quantity)|ka.functions.register_quantities_op.<locals>.f['-',None,True]" (.qtyQty "-" .same true)) ∧
    (resolveDesc "*" [cQty, cQty] []).toOption = some (chQ "*|(Quantity, Quantity)|ka.functions.register_quantities_op.<locals>.f['*',ka.functions.<lambda:register_quantities_op(\"*\", lambda qv1, qv2: qv1*qv2)>,True]" (.qtyQty "*" .mul true)) ∧
    (resolveDesc "/" [cQty, cQty] []).toOption = some (chQ "/|(Quantity, Quantity)|ka.functions.register_quantities_op.<locals>.f['/',ka.functions.<lambda:register_quantities_op(\"/\", lambda qv1, qv2: qv1/qv2)>,True]" (.qtyQty "/" .div true)) ∧
    (resolveDesc "<" [cQty, cQty] []).toOption = some (chQ "<|(Quantity, Quantity)|ka.functions.register_quantities_op.<locals>.f['<',None,False]" (.qtyQty "<" .same false)) ∧
    (resolveDesc "<=" [cQty, cQty] []).toOption = some (chQ "<=|(Quantity, Quantity)|ka.functions.register_quantities_op.<locals>.f['<=',None,False]" (.qtyQty "<=" .same false)) ∧
    (resolveDesc "==" [cQty, cQty] []).toOption = some (chQ "==|(Quantity, Quantity)|ka.functions.register_quantities_op.<locals>.f['==',None,False]" (.qtyQty "==" .same false)) ∧
    (resolveDesc "!=" [cQty, cQty] []).toOption = some (chQ "!=|(Quantity, Quantity)|ka.functions.register_quantities_op.<locals>.f['!=',None,False]" (.qtyQty "!=" .same false)) ∧
    (resolveDesc "sum" [cArr] []).toOption = some ⟨[tArray], none, "sum|(Array)|ka.functions.array_sum", some .arrSum⟩ := by
  decide +kernel

/-- the registered name of an operator of the quantity fragment -/
def qopName : Qty.QOp → String
  | .add => "+" | .sub => "-" | .mul => "*" | .div => "/" | .lt => "<" | .le => "<=" | .eq => "==" | .ne => "!="

/-- `dispatch(name, (x, y))` on two plain numbers is the fragment's `numOp` -/
theorem dispatch_numOp (n : Nat) (op : Qty.QOp) (x y : Num) :
    dispatchV (n + 1) (qopName op) [.num x, .num y] [] = liftN (Qty.numOp op x y) := by
  have t := num_table2 _ (numClass_mem x) _ (numClass_mem y)
  cases op
  · exact dispatch_add n x y
  · exact dispatch_sub n x y
  · exact dispatch_mul n x y
  · exact dispatch_div n x y
  · rw [qopName, dispatch_cmp n "<" _ x y t.2.2.2.2.2.2.1]; simp only [cmpByName, b2v, Qty.numOp, liftN]
  · rw [qopName, dispatch_cmp n "<=" _ x y t.2.2.2.2.2.2.2.1]; simp only [cmpByName, b2v, Qty.numOp, liftN]
  · rw [qopName, dispatch_cmp n "==" _ x y t.2.2.2.2.2.2.2.2.1]; simp only [cmpByName, b2v, Qty.numOp, liftN]
  · rw [qopName, dispatch_cmp n "!=" _ x y t.2.2.2.2.2.2.2.2.2]
    simp only [cmpByName, b2v, Qty.numOp, liftN]
    cases cmpEq x y <;> rfl

/-- results of `numOp` are simplified -/
theorem numOp_idem {op : Qty.QOp} {x y r : Num} (h : Qty.numOp op x y = .ok r) : simplify r = .ok r := by
  cases op <;> simp only [Qty.numOp] at h
  · exact binop_idem h
  · exact binop_idem h
  · exact binop_idem h
  · exact binop_idem h
  all_goals (injection h with h; subst h; rfl)

theorem coerceArgs_qty2 (t1 t2 : Nat) (va : Option Nat) (x y : Num) (dx dy : List Int) :
    coerceArgs [t1, t2] va [.qty x dx, .qty y dy] = .ok [.qty x dx, .qty y dy] := by
  cases va <;> simp [coerceArgs, coerceTo, bind, Except.bind]

/-- the rule / wrap flag of the body registered for an operator of the quantity fragment -/
def qopRule : Qty.QOp → QvRule
  | .mul => .mul | .div => .div | _ => .same
def qopWrap : Qty.QOp → Bool
  | .add | .sub | .mul | .div => true | _ => false

theorem qtyF_eq (n : Nat) (op : Qty.QOp) (x : Num) (dx : List Int) (y : Num) (dy : List Int) :
    (do let r ← qtyF (fun nm as => dispatchV (n + 1) nm as []) (qopName op) (qopRule op) (qopWrap op) x dx y dy
        simplifyVal r)
      = (liftE (Qty.qtyOp op x dx y dy)).map ofQVal := by
  have key : rnum (fun nm as => dispatchV (n + 1) nm as []) (qopName op) [x, y] = liftE (Qty.numOp op x y) := by
    simp only [rnum, List.map, dispatch_numOp n op x y, bind, Except.bind]
    cases Qty.numOp op x y <;> rfl
  cases op <;> simp only [qtyF, qopRule, qopWrap, Qty.qtyOp, key]
  case mul | div =>
    simp only [pure, Except.pure, bind, Except.bind]
    cases hm : Qty.numOp _ x y with
    | error e => rfl
    | ok m => simp [liftE, simplifyVal, numOp_idem hm, Except.map, ofQVal]
  all_goals
    by_cases hd : (dx != dy) = true
    · simp only [hd, if_true, raise, bind, Except.bind, liftE, Except.map]
    · simp only [hd, if_false, pure, Except.pure, bind, Except.bind, Bool.false_eq_true]
      cases hm : Qty.numOp _ x y with
      | error e => rfl
      | ok m => simp [liftE, simplifyVal, numOp_idem hm, Except.map, ofQVal]

/-- **quantity operators**: `dispatch` of `+ - * / < <= == !=` on two quantities is `Qty.qtyOp` -/
theorem dispatch_qtyOp (n : Nat) (op : Qty.QOp) (x : Num) (dx : List Int) (y : Num) (dy : List Int) :
    dispatchV (n + 2) (qopName op) [.qty x dx, .qty y dy] [] = (liftE (Qty.qtyOp op x dx y dy)).map ofQVal := by
  obtain ⟨t1, t2, t3, t4, t5, t6, t7, t8, _⟩ := qty_table
  have step : ∀ desc, (resolveDesc (qopName op) [cQty, cQty] []).toOption
        = some (chQ desc (.qtyQty (qopName op) (qopRule op) (qopWrap op))) →
      dispatchV (n + 2) (qopName op) [.qty x dx, .qty y dy] [] = (liftE (Qty.qtyOp op x dx y dy)).map ofQVal := by
    intro desc h
    rw [dispatchV_step (c := chQ desc _) (code := .qtyQty (qopName op) (qopRule op) (qopWrap op)) (by simpa [classOf] using h) rfl]
    simp only [chQ, coerceArgs_qty2, BodyCode.run, bQtyQty]
    exact qtyF_eq n op x dx y dy
  cases op
  · exact step _ t1
  · exact step _ t2
  · exact step _ t3
  · exact step _ t4
  · exact step _ t5
  · exact step _ t6
  · exact step _ t7
  · exact step _ t8

/-- a number that `simplify_number` leaves alone (every value the evaluator stores is one) -/
def Canon (x : Num) : Prop := simplify x = .ok x

theorem foldl_add (n : Nat) (t : List Num) (a : Num) :
    (t.map Val.num).foldlM (fun acc e => dispatchV (n + 1) "+" [acc, e] []) (.num a)
      = liftN (t.foldlM (fun acc e => binop .add acc e) a) := by
  induction t generalizing a with
  | nil => rfl
  | cons h t ih =>
    simp only [List.map_cons, List.foldlM_cons, dispatch_add n a h]
    cases binop .add a h with
    | error e => rfl
    | ok r => simp only [liftN, bind, Except.bind]; exact ih r

theorem foldlM_add_canon (t : List Num) (a r : Num) (ha : Canon a)
    (h : t.foldlM (fun acc e => binop .add acc e) a = .ok r) : Canon r := by
  induction t generalizing a with
  | nil => simp only [List.foldlM_nil, pure, Except.pure] at h; injection h with h; subst h; exact ha
  | cons x t ih =>
    simp only [List.foldlM_cons, bind, Except.bind] at h
    cases hb : binop .add a x with
    | error e => simp [hb] at h
    | ok b => simp only [hb] at h; exact ih b (binop_idem hb) h

/-- **array sum**: `sum` of an array of (stored, hence simplified) numbers is `Arr.arraySum` -/
theorem dispatch_sum (n : Nat) (xs : List Num) (hc : ∀ x ∈ xs, Canon x) :
    dispatchV (n + 2) "sum" [.arr (xs.map .num)] [] = liftN (Arr.arraySum xs) := by
  have t := qty_table.2.2.2.2.2.2.2.2
  rw [dispatchV_step (c := ⟨[tArray], none, _, some .arrSum⟩) (code := .arrSum) (by simpa [classOf] using t) rfl]
  have hco : coerceArgs [tArray] none [Val.arr (xs.map .num)] = .ok [Val.arr (xs.map .num)] := by
    simp [coerceArgs, coerceTo, bind, Except.bind]
  simp only [hco, BodyCode.run, bind, Except.bind]
  cases xs with
  | nil => rfl
  | cons h t =>
    simp only [List.map_cons, bArrSum, Arr.arraySum]
    have hf := foldl_add n t h
    simp only [hf]
    cases hr : t.foldlM (fun acc e => binop .add acc e) h with
    | error e => rfl
    | ok r =>
      have hcr : simplify r = .ok r := foldlM_add_canon t h r (hc h (by simp)) hr
      simp only [liftN, simplifyVal, hcr, liftE, Except.map]

/-! ### fragment: interval construction and membership (C07) inside the unified evaluator -/

def tInterval : Nat := Gen.Registry.typeNames.idxOf "Interval"

/-- **Table fact (intervals).** -/
theorem intv_table : ∀ a ∈ kinds3,
    (∀ b ∈ kinds3, (resolveDesc "interval" [a, b] []).toOption = some (ch2 "interval|(Number, Number)|ka.functions.make_interval" .makeInterval)) ∧
    (resolveDesc "contains" [cIntv, a] []).toOption =
      some ⟨[tInterval, tNumber], none, "contains|(Interval, Number)|ka.functions.interval_contains", some .ivContains⟩ ∧
    (resolveDesc "in" [a, cIntv] []).toOption =
      some ⟨[tNumber, tInterval], none, "in|(Number, Interval)|ka.functions.in_interval", some .inInterval⟩ := by
  decide +kernel

/-- an interval value with exact bounds as the interval model's `Intv Rat` -/
def toIntv (a b : Num) : Interval.Intv Rat := ⟨a.toRat, b.toRat⟩

theorem rnum_le (n : Nat) (x y : Num) :
    rnum (fun nm as => dispatchV (n + 1) nm as []) "<=" [x, y] = .ok (.int (if cmpLe x y then 1 else 0)) := by
  have t := (num_table2 _ (numClass_mem x) _ (numClass_mem y)).2.2.2.2.2.2.2.1
  simp only [rnum, List.map, dispatch_cmp n "<=" _ x y t, bind, Except.bind, cmpByName, b2v]

theorem truthy_ite (c : Bool) : truthy (.int (if c then 1 else 0)) = c := by
  cases c <;> decide

/-- **`[a, b]`**: the interval literal builds the interval `Intv.make` describes (`a > b` collapses to `[0, 0]`);
    comparisons are exact on every numeric kind. -/
theorem dispatch_interval (n : Nat) (a b : Num) :
    ∃ lo hi, dispatchV (n + 2) "interval" [.num a, .num b] [] = .ok (.intv lo hi)
      ∧ toIntv lo hi = Interval.Intv.make a.toRat b.toRat := by
  have t := (intv_table _ (numClass_mem a)).1 _ (numClass_mem b)
  rw [dispatchV_step (c := ch2 _ .makeInterval) (code := .makeInterval) (by simpa [classOf] using t) rfl]
  simp only [ch2, coerceArgs_num2, BodyCode.run, bMakeInterval, bind, Except.bind, rnum_le, truthy_ite]
  by_cases h : cmpLe a b = true
  · refine ⟨a, b, ?_, ?_⟩
    · simp [h, simplifyVal]
    · have : a.toRat ≤ b.toRat := by simpa [cmpLe] using h
      simp [toIntv, Interval.Intv.make, this]
  · refine ⟨.int 0, .int 0, ?_, ?_⟩
    · simp [h, simplifyVal]
    · have : ¬ a.toRat ≤ b.toRat := by simpa [cmpLe] using h
      have h0 : (Num.int 0).toRat = 0 := by simp [toRat]
      simp only [toIntv, Interval.Intv.make, this, if_false, h0]

theorem ivContains_eq (n : Nat) (a b x : Num) :
    ivContains (fun nm as => dispatchV (n + 1) nm as []) a b x
      = .ok (.int (Interval.Intv.contains (toIntv a b) x.toRat)) := by
  simp only [ivContains, rnum_le, bind, Except.bind, pyLin, liftE, Interval.Intv.contains, Interval.Intv.b2i, toIntv, cmpLe]
  by_cases h1 : a.toRat ≤ x.toRat <;> by_cases h2 : x.toRat ≤ b.toRat <;> simp [h1, h2]

theorem coerceArgs_in (t1 t2 : Nat) (va : Option Nat) (x a b : Num) :
    coerceArgs [t1, t2] va [.num x, .intv a b] = .ok [.num x, .intv a b] := by
  cases va <;> simp [coerceArgs, coerceTo, bind, Except.bind]

theorem coerceArgs_contains (t1 t2 : Nat) (va : Option Nat) (x a b : Num) :
    coerceArgs [t1, t2] va [.intv a b, .num x] = .ok [.intv a b, .num x] := by
  cases va <;> simp [coerceArgs, coerceTo, bind, Except.bind]

/-- **`x in I`** and **`contains(I, x)`** are the interval model's membership test, exactly, on every numeric kind -/
theorem dispatch_in_interval (n : Nat) (x a b : Num) :
    dispatchV (n + 2) "in" [.num x, .intv a b] [] = .ok (.num (.int (Interval.Intv.inI x.toRat (toIntv a b))))
    ∧ dispatchV (n + 2) "contains" [.intv a b, .num x] [] = .ok (.num (.int (Interval.Intv.contains (toIntv a b) x.toRat))) := by
  obtain ⟨_, t2, t3⟩ := intv_table _ (numClass_mem x)
  constructor
  · rw [dispatchV_step (c := ⟨[tNumber, tInterval], none, _, some .inInterval⟩) (code := .inInterval) (by simpa [classOf] using t3) rfl]
    simp only [coerceArgs_in, BodyCode.run, bInInterval, ivContains_eq, bind, Except.bind, Except.map, simplifyVal, liftE, simplify]
    rfl
  · rw [dispatchV_step (c := ⟨[tInterval, tNumber], none, _, some .ivContains⟩) (code := .ivContains) (by simpa [classOf] using t2) rfl]
    simp only [coerceArgs_contains, BodyCode.run, bIvContains, ivContains_eq, bind, Except.bind, Except.map, simplifyVal, liftE, simplify]

end KaVerif.Eval
