import Mathlib.Tactic.Ring
import KaVerif.Model.Currency
import KaVerif.Lemmas.UserFilesLemmas
/-
  Lemmas for C20: the export writer's text is parsed back row by row; registration only creates units from
  rows of the table with a positive rate.  No Mathlib needed here (the field algebra is in Props/C20.lean).
-/
namespace KaVerif.Currency
open KaVerif.UserFiles

/-! ## arithmetic helpers -/

theorem compose_eq (m : Rat) : compose m = m := by
  unfold compose
  split
  · ring
  · rename_i h; simp only [ne_eq, not_not] at h; exact h.symm

theorem rateQ_ne_zero (c : Cur) (hfin : ∃ q, c.rate = .fin q) (hpos : c.rate.pos = true) : rateQ c ≠ 0 := by
  obtain ⟨q, hq⟩ := hfin
  simp only [rateQ, hq]
  simp only [hq, Rate.pos, decide_eq_true_eq] at hpos
  exact ne_of_gt hpos

/-! ## `str.split(sep)` on text built with that separator -/

theorem splitAll_cons_sep (sep : Nat) (a rest : Str) (h : sep ∉ a) :
    splitAll sep (a ++ sep :: rest) = a :: splitAll sep rest := by
  induction a with
  | nil => simp [splitAll]
  | cons c cs ih =>
    have hc : c ≠ sep := fun e => h (by simp [e])
    have hcs : sep ∉ cs := fun m => h (List.mem_cons_of_mem _ m)
    simp [splitAll, hc, ih hcs]

theorem splitAll_no_sep (sep : Nat) (a : Str) (h : sep ∉ a) : splitAll sep a = [a] := by
  induction a with
  | nil => simp [splitAll]
  | cons c cs ih =>
    have hc : c ≠ sep := fun e => h (by simp [e])
    have hcs : sep ∉ cs := fun m => h (List.mem_cons_of_mem _ m)
    simp [splitAll, hc, ih hcs]

/-! ## `strip` keeps every non-space character -/

theorem mem_lstrip (s : Str) (c : Nat) (hc : c ∈ s) (hs : isSpace c = false) : c ∈ lstrip s := by
  induction s with
  | nil => cases hc
  | cons d ds ih =>
    unfold lstrip
    by_cases hd : isSpace d = true
    · simp only [hd, if_true]
      rcases List.mem_cons.mp hc with rfl | h
      · rw [hs] at hd; cases hd
      · exact ih h
    · simp only [hd]
      exact hc

theorem mem_strip (s : Str) (c : Nat) (hc : c ∈ s) (hs : isSpace c = false) : c ∈ strip s := by
  unfold strip rstrip
  have h1 := mem_lstrip s c hc hs
  have h2 := mem_lstrip (lstrip s).reverse c (List.mem_reverse.mpr h1) hs
  exact List.mem_reverse.mpr h2

theorem strip_ne_nil (s : Str) (c : Nat) (hc : c ∈ s) (hs : isSpace c = false) : strip s ≠ [] := by
  intro h
  have := mem_strip s c hc hs
  rw [h] at this
  cases this

/-! ## universal newlines leave a text without `\r` alone -/

theorem translateNewlinesAux_id (s : Str) (h : cCR ∉ s) : translateNewlinesAux false s = s := by
  induction s with
  | nil => rfl
  | cons c cs ih =>
    have hc : c ≠ cCR := fun e => h (by simp [e])
    have hcs : cCR ∉ cs := fun m => h (List.mem_cons_of_mem _ m)
    unfold translateNewlinesAux
    by_cases hn : c = cNL
    · subst hn
      have : cNL ≠ cCR := by decide
      simp [this, ih hcs]
    · simp [hc, hn, ih hcs]

theorem translateNewlines_id (s : Str) (h : cCR ∉ s) : translateNewlines s = s :=
  translateNewlinesAux_id s h

/-! ## the export is parsed back -/

/-- a field the writer can emit without breaking its own format: no `,`, no `\n`, no `\r` -/
def Clean (s : Str) : Prop := cComma ∉ s ∧ cNL ∉ s ∧ cCR ∉ s

/-- a row of the table the writer's format can carry, with `str(rate)` read back by `float()` -/
def RowOk (readRate : Str → Option Rate) (showRate : Rate → Str) (c : Cur) : Prop :=
  Clean c.symbol ∧ Clean c.name ∧ Clean (showRate c.rate) ∧ readRate (showRate c.rate) = some c.rate

theorem rowText_no (showRate : Rate → Str) (c : Cur) (x : Nat) (hx : x ≠ cComma)
    (h1 : x ∉ c.symbol) (h2 : x ∉ c.name) (h3 : x ∉ showRate c.rate) : x ∉ rowText showRate c := by
  unfold rowText
  simp only [List.mem_append, List.mem_cons, not_or]
  exact ⟨h1, hx, h2, hx, h3⟩

theorem splitAll_rowText (showRate : Rate → Str) (c : Cur)
    (h1 : cComma ∉ c.symbol) (h2 : cComma ∉ c.name) (h3 : cComma ∉ showRate c.rate) :
    splitAll cComma (rowText showRate c) = [c.symbol, c.name, showRate c.rate] := by
  unfold rowText
  rw [splitAll_cons_sep _ _ _ h1, splitAll_cons_sep _ _ _ h2, splitAll_no_sep _ _ h3]

theorem splitAll_export (showRate : Rate → Str) (t : Table)
    (h : ∀ c ∈ t, cNL ∉ rowText showRate c) :
    splitAll cNL (exportTable showRate t) = t.map (rowText showRate) ++ [[]] := by
  induction t with
  | nil => simp [exportTable, splitAll]
  | cons c cs ih =>
    have := ih (fun d hd => h d (List.mem_cons_of_mem _ hd))
    simp only [exportTable, List.map_cons, List.cons_append]
    rw [splitAll_cons_sep _ _ _ (h c List.mem_cons_self), this]

theorem parseRows_export (readRate : Str → Option Rate) (showRate : Rate → Str) (t : Table)
    (h : ∀ c ∈ t, RowOk readRate showRate c) :
    parseRows readRate (t.map (rowText showRate)) = .ok (some t) := by
  induction t with
  | nil => rfl
  | cons c cs ih =>
    obtain ⟨⟨a1, _, _⟩, ⟨b1, _, _⟩, ⟨c1, _, _⟩, hr⟩ := h c List.mem_cons_self
    have := ih (fun d hd => h d (List.mem_cons_of_mem _ hd))
    simp only [List.map_cons, parseRows, splitAll_rowText showRate c a1 b1 c1, hr, this]

theorem isSpace_comma : isSpace cComma = false := by decide

theorem filter_rows (showRate : Rate → Str) (t : Table) :
    (t.map (rowText showRate) ++ [[]]).filter (fun line => strip line != []) = t.map (rowText showRate) := by
  rw [List.filter_append]
  have h1 : ([[]] : List Str).filter (fun line => strip line != []) = [] := by decide
  rw [h1, List.append_nil, List.filter_eq_self]
  intro l hl
  obtain ⟨c, _, rfl⟩ := List.mem_map.mp hl
  have : strip (rowText showRate c) ≠ [] :=
    strip_ne_nil _ cComma (by simp [rowText]) isSpace_comma
  simpa using this

theorem parse_export (readRate : Str → Option Rate) (showRate : Rate → Str) (t : Table) (hne : t ≠ [])
    (h : ∀ c ∈ t, RowOk readRate showRate c) :
    parseCurrencyData readRate (exportTable showRate t) = .ok (some t) := by
  have hnl : ∀ c ∈ t, cNL ∉ rowText showRate c := by
    intro c hc
    obtain ⟨⟨_, a2, _⟩, ⟨_, b2, _⟩, ⟨_, c2, _⟩, _⟩ := h c hc
    exact rowText_no showRate c cNL (by decide) a2 b2 c2
  unfold parseCurrencyData
  simp only [splitAll_export showRate t hnl, filter_rows, parseRows_export readRate showRate t h]
  cases t with
  | nil => exact absurd rfl hne
  | cons c cs => rfl

theorem export_no_cr (showRate : Rate → Str) (t : Table)
    (h : ∀ c ∈ t, cCR ∉ rowText showRate c) : cCR ∉ exportTable showRate t := by
  induction t with
  | nil => simp [exportTable]
  | cons c cs ih =>
    simp only [exportTable, List.mem_append, List.mem_cons, not_or]
    exact ⟨h c List.mem_cons_self, by decide, ih (fun d hd => h d (List.mem_cons_of_mem _ hd))⟩

/-! ## registration creates units only from table rows with a positive rate -/

/-- every registered unit beyond those of `r0` comes from a row of `t` with a positive rate -/
def UnitsFrom (r0 : Reg) (t : Table) (r : Reg) : Prop :=
  ∀ e ∈ r.units, e ∈ r0.units ∨ (e.2.2 ∈ t ∧ e.2.2.rate.pos = true)

theorem registerUnit_units (r r' : Reg) (sym name : Str) (row : Cur) (h : registerUnit r sym name row = .ok r') :
    r'.units = r.units ++ [(sym, name, row)] := by
  unfold registerUnit at h
  split at h
  · cases h
  · split at h
    · cases h
    · simp only [] at h
      split at h
      · cases h; rfl
      · split at h
        · cases h
        · cases h; rfl

theorem registerGuarded_units (ss : List (Str × Str)) (r r' : Reg) (sym name : Str) (c : Cur)
    (h : registerGuarded ss r sym name c = .ok r') :
    ∀ e ∈ r'.units, e ∈ r.units ∨ e.2.2 = c := by
  unfold registerGuarded at h
  split at h
  · cases h; intro e he; exact Or.inl he
  · cases h1 : registerUnit r sym name c with
    | error e => simp [h1] at h
    | ok r1 =>
      have u1 := registerUnit_units _ _ _ _ _ h1
      simp only [h1] at h
      split at h
      · cases h
        intro e he
        rw [u1] at he
        rcases List.mem_append.mp he with h' | h'
        · exact Or.inl h'
        · rcases List.mem_singleton.mp h' with rfl; exact Or.inr rfl
      · split at h
        · cases h
          intro e he
          rw [u1] at he
          rcases List.mem_append.mp he with h' | h'
          · exact Or.inl h'
          · rcases List.mem_singleton.mp h' with rfl; exact Or.inr rfl
        · have u2 := registerUnit_units _ _ _ _ _ h
          intro e he
          rw [u2, u1] at he
          rcases List.mem_append.mp he with h' | h'
          · rcases List.mem_append.mp h' with h'' | h''
            · exact Or.inl h''
            · rcases List.mem_singleton.mp h'' with rfl; exact Or.inr rfl
          · rcases List.mem_singleton.mp h' with rfl; exact Or.inr rfl

theorem registerRow_units (nfkd : Str → Str) (sn ss : List (Str × Str)) (r r' : Reg) (c : Cur)
    (h : registerRow nfkd sn ss r c = .ok r') :
    ∀ e ∈ r'.units, e ∈ r.units ∨ (e.2.2 = c ∧ c.rate.pos = true) := by
  unfold registerRow at h
  split at h
  · cases h; intro e he; exact Or.inl he
  · rename_i hpos
    have hp : c.rate.pos = true := by simpa using hpos
    simp only [] at h
    split at h
    · cases h; intro e he; exact Or.inl he
    · intro e he
      rcases registerGuarded_units ss r r' _ _ c h e he with h' | h'
      · exact Or.inl h'
      · exact Or.inr ⟨h', hp⟩

theorem registerAll_units (nfkd : Str → Str) (sn ss : List (Str × Str)) : ∀ (t : Table) (r r' : Reg),
    registerAll nfkd sn ss r t = .ok r' → ∀ e ∈ r'.units, e ∈ r.units ∨ (e.2.2 ∈ t ∧ e.2.2.rate.pos = true) := by
  intro t
  induction t with
  | nil => intro r r' h; cases h; intro e he; exact Or.inl he
  | cons c cs ih =>
    intro r r' h e he
    unfold registerAll at h
    cases h1 : registerRow nfkd sn ss r c with
    | error x => simp [h1] at h
    | ok r1 =>
      simp only [h1] at h
      rcases ih r1 r' h e he with h' | ⟨h', hp⟩
      · rcases registerRow_units nfkd sn ss r r1 c h1 e h' with h'' | ⟨h'', hp⟩
        · exact Or.inl h''
        · exact Or.inr ⟨h'' ▸ List.mem_cons_self, h'' ▸ hp⟩
      · exact Or.inr ⟨List.mem_cons_of_mem _ h', hp⟩

theorem lookupCash_mem (reg : Reg) (u : Str) (row : Cur) (h : lookupCash reg u = some row) :
    ∃ e ∈ reg.units, e.2.2 = row := by
  unfold lookupCash at h
  split at h
  · rename_i e he
    cases h
    exact ⟨e, List.mem_of_find?_eq_some he, rfl⟩
  · split at h
    · rename_i e he
      cases h
      exact ⟨e, List.mem_of_find?_eq_some he, rfl⟩
    · cases h

end KaVerif.Currency
