import KaVerif.Model.Instant
import Mathlib.Data.Rat.Floor
import Mathlib.Tactic.Ring
import Mathlib.Tactic.Linarith

/-
  Helper lemmas for C17 (instants).  The calendar part is a direct arithmetic proof:
  write y-1 = 400a + 100b + 4c + e (b<4, c<25, e<4); then
  days_before_year(y) = 146097a + 36524b + 1461c + 365e, which is exactly the mixed-radix
  decomposition `ord_to_ymd` undoes.  The month/day part is a complete table (2 × 366 rows).
-/
set_option linter.unusedSimpArgs false
set_option linter.unusedVariables false

namespace KaVerif.Instant
open KaVerif

/-! ## year part -/

theorem digits_exist (p : Nat) : ∃ a b c e, b < 4 ∧ c < 25 ∧ e < 4 ∧ p = 400*a + 100*b + 4*c + e :=
  ⟨p/400, p%400/100, p%400%100/4, p%400%100%4, by omega, by omega, by omega, by omega⟩

theorem dby_digits (p a b c e : Nat) (hb : b < 4) (hc : c < 25) (he : e < 4)
    (hp : p = 400*a + 100*b + 4*c + e) :
    p*365 + p/4 - p/100 + p/400 = 146097*a + 36524*b + 1461*c + 365*e := by omega

theorem leap_digits (p a b c e : Nat) (hb : b < 4) (hc : c < 25) (he : e < 4)
    (hp : p = 400*a + 100*b + 4*c + e) :
    ((p+1) % 4 = 0 ∧ ((p+1) % 100 ≠ 0 ∨ (p+1) % 400 = 0)) ↔ (e = 3 ∧ (c ≠ 24 ∨ b = 3)) := by omega

/-- the mixed-radix split for a day that is not the 366th of its year -/
theorem era_digits (a b c e k n : Nat) (hb : b < 4) (hc : c < 25) (he : e < 4) (hk : k < 365)
    (hn : n = 146097*a + 36524*b + 1461*c + 365*e + k) :
    n / 146097 = a ∧ n % 146097 / 36524 = b ∧ n % 146097 % 36524 / 1461 = c
    ∧ n % 146097 % 36524 % 1461 / 365 = e ∧ n % 146097 % 36524 % 1461 % 365 = k := by
  have h1 : n / 146097 = a := by omega
  have h1' : n % 146097 = 36524*b + 1461*c + 365*e + k := by omega
  have h2 : n % 146097 / 36524 = b := by omega
  have h2' : n % 146097 % 36524 = 1461*c + 365*e + k := by omega
  have h3 : n % 146097 % 36524 / 1461 = c := by omega
  have h3' : n % 146097 % 36524 % 1461 = 365*e + k := by omega
  refine ⟨h1, h2, h3, ?_, ?_⟩ <;> omega

/-- the 366th day of a leap year: `ord_to_ymd` takes its early exit (n1 = 4 or n100 = 4) -/
theorem era_digits_last (a b c e n : Nat) (hb : b < 4) (hc : c < 25) (he : e = 3) (hl : c ≠ 24 ∨ b = 3)
    (hn : n = 146097*a + 36524*b + 1461*c + 365*e + 365) :
    (n % 146097 % 36524 % 1461 / 365 = 4 ∨ n % 146097 / 36524 = 4)
    ∧ (n / 146097) * 400 + 1 + (n % 146097 / 36524) * 100 + (n % 146097 % 36524 / 1461) * 4
        + n % 146097 % 36524 % 1461 / 365 - 1 = 400*a + 100*b + 4*c + e + 1 := by
  subst he
  have h1 : n / 146097 = a := by omega
  have h1' : n % 146097 = 36524*b + 1461*c + 1460 := by omega
  by_cases hc24 : c = 24
  · have hb3 : b = 3 := by omega
    subst hc24; subst hb3
    have h2 : n % 146097 / 36524 = 4 := by omega
    have h2' : n % 146097 % 36524 = 0 := by omega
    refine ⟨Or.inr h2, ?_⟩
    rw [h1, h2, h2']; omega
  · have h2 : n % 146097 / 36524 = b := by omega
    have h2' : n % 146097 % 36524 = 1461*c + 1460 := by omega
    have h3 : n % 146097 % 36524 / 1461 = c := by omega
    have h3' : n % 146097 % 36524 % 1461 = 1460 := by omega
    refine ⟨Or.inl (by omega), ?_⟩
    rw [h1, h2, h3, h3']; omega

theorem isLeap_iff (y : Nat) : isLeap y = true ↔ (y % 4 = 0 ∧ (y % 100 ≠ 0 ∨ y % 400 = 0)) := by
  simp [isLeap]

/-! ## month/day part: complete tables -/

/-- `monthDayOf` with the leap flag also deciding February's length (what it is when the flag is
    the year's leapness) -/
def monthDayL (leap : Bool) (r : Nat) : Nat × Nat :=
  let month := (r + 50) / 32
  let preceding := dbmL leap month
  if r < preceding then
    let month' := month - 1
    let preceding' := preceding - dimL leap month'
    (month', r - preceding' + 1)
  else (month, r - preceding + 1)

theorem monthDayOf_eq (y : Nat) (leap : Bool) (h : isLeap y = leap) (r : Nat) :
    monthDayOf y leap r = monthDayL leap r := by
  simp [monthDayOf, monthDayL, daysInMonth, h]

/-- day of year ↦ (month, day) is valid and inverts `dbmL + day - 1` (all 365 + 366 days) -/
def FwdRow (leap : Bool) (r : Nat) : Prop :=
    1 ≤ (monthDayL leap r).1 ∧ (monthDayL leap r).1 ≤ 12 ∧ 1 ≤ (monthDayL leap r).2
    ∧ (monthDayL leap r).2 ≤ dimL leap (monthDayL leap r).1
    ∧ dbmL leap (monthDayL leap r).1 + ((monthDayL leap r).2 - 1) = r

instance (leap : Bool) (r : Nat) : Decidable (FwdRow leap r) := by unfold FwdRow; exact inferInstance

theorem monthDay_table_fwd_false : ∀ r, r < 365 → FwdRow false r := by decide +kernel
theorem monthDay_table_fwd_true : ∀ r, r < 366 → FwdRow true r := by decide +kernel

theorem monthDay_table_fwd (leap : Bool) (r : Nat) (h366 : r < 366) (h : r < 365 ∨ leap = true) :
    FwdRow leap r := by
  cases leap
  · exact monthDay_table_fwd_false r (by simpa using h)
  · exact monthDay_table_fwd_true r h366

/-- (month, day) ↦ day of year ↦ (month, day) (all 365 + 366 dates) -/
def BwdRow (leap : Bool) (m d : Nat) : Prop :=
    1 ≤ m → 1 ≤ d → d ≤ dimL leap m →
    monthDayL leap (dbmL leap m + (d - 1)) = (m, d) ∧ dbmL leap m + (d - 1) < 365 + (if leap = true then 1 else 0)
    ∧ (dbmL leap m + (d - 1) = 365 → m = 12 ∧ d = 31)

instance (leap : Bool) (m d : Nat) : Decidable (BwdRow leap m d) := by unfold BwdRow; exact inferInstance

theorem monthDay_table_bwd_false : ∀ m, m < 13 → ∀ d, d < 32 → BwdRow false m d := by decide +kernel
theorem monthDay_table_bwd_true : ∀ m, m < 13 → ∀ d, d < 32 → BwdRow true m d := by decide +kernel

theorem monthDay_table_bwd (leap : Bool) (m : Nat) (hm : m < 13) (d : Nat) (hd : d < 32) : BwdRow leap m d := by
  cases leap
  · exact monthDay_table_bwd_false m hm d hd
  · exact monthDay_table_bwd_true m hm d hd

theorem validDate_iff (y m d : Nat) : validDate y m d = true ↔
    (1 ≤ y ∧ y ≤ 9999 ∧ 1 ≤ m ∧ m ≤ 12 ∧ 1 ≤ d ∧ d ≤ dimL (isLeap y) m) := by
  unfold validDate daysInMonth; exact decide_eq_true_iff

theorem dimL_le (leap : Bool) (m : Nat) : dimL leap m ≤ 31 := by
  unfold dimL; split <;> (try split) <;> omega

/-! ## the round trip -/

theorem toCivil_fromCivil (y m d : Nat) (h : validDate y m d = true) :
    toCivil (fromCivil y m d) = (y, m, d) := by
  obtain ⟨hy1, hy2, hm1, hm2, hd1, hd2⟩ := (validDate_iff y m d).mp h
  have hd31 := dimL_le (isLeap y) m
  obtain ⟨hmd, hk, hlast⟩ := monthDay_table_bwd (isLeap y) m (by omega) d (by omega) hm1 hd1 hd2
  obtain ⟨a, b, c, e, hb, hc, he, hp⟩ := digits_exist (y - 1)
  have hdby := dby_digits (y - 1) a b c e hb hc he hp
  have hleap := leap_digits (y - 1) a b c e hb hc he hp
  have hy : y - 1 + 1 = y := by omega
  rw [hy] at hleap
  generalize hk' : dbmL (isLeap y) m + (d - 1) = k at hmd hk hlast
  have hn : fromCivil y m d = 146097*a + 36524*b + 1461*c + 365*e + k := by
    unfold fromCivil daysBeforeYear; simp only []; rw [hdby]; omega
  by_cases hk365 : k < 365
  · obtain ⟨h1, h2, h3, h4, h5⟩ := era_digits a b c e k _ hb hc he hk365 hn
    unfold toCivil
    simp only [h1, h2, h3, h4, h5]
    have hne : ¬ (e = 4 ∨ b = 4) := by omega
    have hyear : a * 400 + 1 + b * 100 + c * 4 + e = y := by omega
    rw [if_neg hne, hyear]
    have hfl : decide (e = 3 ∧ (c ≠ 24 ∨ b = 3)) = isLeap y := by
      rw [Bool.eq_iff_iff, decide_eq_true_eq, isLeap_iff]; exact hleap.symm
    rw [hfl, monthDayOf_eq y (isLeap y) rfl, hmd]
  · -- last day of a leap year
    have hL : isLeap y = true := by
      by_cases hl : isLeap y = true
      · exact hl
      · simp [hl] at hk; omega
    simp only [hL, if_true] at hk
    have hk' : k = 365 := by omega
    obtain ⟨hm12, hd31'⟩ := hlast hk'
    have hle := (isLeap_iff y).mp hL
    have hde := hleap.mp hle
    subst hk'
    obtain ⟨hbr, hyr⟩ := era_digits_last a b c e _ hb hc hde.1 hde.2 hn
    unfold toCivil
    simp only []
    rw [if_pos hbr, hyr, hm12, hd31']
    congr 1; omega

set_option maxRecDepth 4000 in
/-- every day number is the number of the valid date `toCivil` returns -/
theorem fromCivil_toCivil (n : Nat) :
    (1 ≤ (toCivil n).1 ∧ 1 ≤ (toCivil n).2.1 ∧ (toCivil n).2.1 ≤ 12 ∧ 1 ≤ (toCivil n).2.2
      ∧ (toCivil n).2.2 ≤ daysInMonth (toCivil n).1 (toCivil n).2.1)
    ∧ fromCivil (toCivil n).1 (toCivil n).2.1 (toCivil n).2.2 = n := by
  -- digits of n itself
  have hA : n / 146097 * 146097 + n % 146097 = n := Nat.div_add_mod' n 146097
  generalize ha : n / 146097 = a at hA
  generalize hb0 : n % 146097 / 36524 = b
  generalize hc0 : n % 146097 % 36524 / 1461 = c
  generalize he0 : n % 146097 % 36524 % 1461 / 365 = e
  generalize hr0 : n % 146097 % 36524 % 1461 % 365 = r
  have hn : n = 146097*a + 36524*b + 1461*c + 365*e + r := by omega
  have hb : b ≤ 4 := by omega
  have hc : c ≤ 24 := by omega
  have he : e ≤ 4 := by omega
  have hr : r < 365 := by omega
  have hb4 : b = 4 → c = 0 ∧ e = 0 ∧ r = 0 := by omega
  have he4 : e = 4 → r = 0 := by omega
  unfold toCivil
  simp only [ha, hb0, hc0, he0, hr0]
  by_cases hbr : e = 4 ∨ b = 4
  · rw [if_pos hbr]
    simp only []
    -- the year a*400 + b*100 + c*4 + e is a leap year and this is its Dec 31
    have hy : a * 400 + 1 + b * 100 + c * 4 + e - 1 = a*400 + b*100 + c*4 + e := by omega
    rw [hy]
    have hleap : isLeap (a*400 + b*100 + c*4 + e) = true := by
      rw [isLeap_iff]; omega
    have hy1 : 1 ≤ a*400 + b*100 + c*4 + e := by omega
    refine ⟨⟨hy1, by simp, by simp, by simp, ?_⟩, ?_⟩
    · simp [daysInMonth, hleap, dimL]
    · unfold fromCivil daysBeforeYear
      simp only [hleap]
      -- digits of (year - 1): year - 1 = 400a' + 100b' + 4c' + 3
      rcases hbr with he4' | hb4'
      · obtain hr0' := he4 he4'
        subst he4'
        have hb3 : b < 4 := by omega
        have hp : a*400 + b*100 + c*4 + 4 - 1 = 400*a + 100*b + 4*c + 3 := by omega
        have h34 : (3:Nat) < 4 := by decide
        have := dby_digits (a*400 + b*100 + c*4 + 4 - 1) a b c 3 hb3 (by omega) h34 hp
        rw [this]; simp [dbmL]; omega
      · obtain ⟨hc0', he0', hr0'⟩ := hb4 hb4'
        subst hb4' hc0' he0' hr0'
        have hp : a*400 + 4*100 + 0*4 + 0 - 1 = 400*a + 100*3 + 4*24 + 3 := by omega
        have h34 : (3:Nat) < 4 := by decide
        have h2425 : (24:Nat) < 25 := by decide
        have := dby_digits (a*400 + 4*100 + 0*4 + 0 - 1) a 3 24 3 h34 h2425 h34 hp
        rw [this]; simp [dbmL]; omega
  · rw [if_neg hbr]
    have hb3 : b < 4 := by omega
    have he3 : e < 4 := by omega
    have hc25 : c < 25 := by omega
    have hp : a * 400 + 1 + b * 100 + c * 4 + e - 1 = 400*a + 100*b + 4*c + e := by omega
    have hleap := leap_digits _ a b c e hb3 hc25 he3 hp
    have hy : a * 400 + 1 + b * 100 + c * 4 + e - 1 + 1 = a * 400 + 1 + b * 100 + c * 4 + e := by omega
    rw [hy] at hleap
    generalize hyr : a * 400 + 1 + b * 100 + c * 4 + e = y at hp hleap
    have hfl : decide (e = 3 ∧ (c ≠ 24 ∨ b = 3)) = isLeap y := by
      rw [Bool.eq_iff_iff, decide_eq_true_eq, isLeap_iff]; exact hleap.symm
    simp only []
    rw [hfl, monthDayOf_eq y (isLeap y) rfl]
    obtain ⟨t1, t2, t3, t4, t5⟩ := monthDay_table_fwd (isLeap y) r (by omega) (Or.inl hr)
    refine ⟨⟨by omega, t1, t2, t3, ?_⟩, ?_⟩
    · simpa [daysInMonth] using t4
    · unfold fromCivil daysBeforeYear
      simp only []
      rw [dby_digits _ a b c e hb3 hc25 he3 hp]
      omega

theorem toCivil_valid (n : Nat) (h : n < maxDay) :
    validDate (toCivil n).1 (toCivil n).2.1 (toCivil n).2.2 = true := by
  obtain ⟨⟨h1, h2, h3, h4, h5⟩, _⟩ := fromCivil_toCivil n
  rw [validDate_iff]
  refine ⟨h1, ?_, h2, h3, h4, by simpa [daysInMonth] using h5⟩
  -- the year: n < maxDay forces year ≤ 9999
  unfold toCivil
  simp only []
  unfold maxDay at h
  split
  · simp only []; omega
  · simp only []; omega

/-- a valid date's day number is inside the calendar -/
theorem fromCivil_lt_maxDay (y m d : Nat) (h : validDate y m d = true) : fromCivil y m d < maxDay := by
  have hrt := toCivil_fromCivil y m d h
  obtain ⟨hy1, hy2, hm1, hm2, hd1, hd2⟩ := (validDate_iff y m d).mp h
  have hd31 := dimL_le (isLeap y) m
  obtain ⟨_, hk, _⟩ := monthDay_table_bwd (isLeap y) m (by omega) d (by omega) hm1 hd1 hd2
  obtain ⟨a, b, c, e, hb, hc, he, hp⟩ := digits_exist (y - 1)
  have hdby := dby_digits (y - 1) a b c e hb hc he hp
  have hleap := leap_digits (y - 1) a b c e hb hc he hp
  have hy : y - 1 + 1 = y := by omega
  rw [hy] at hleap
  unfold fromCivil daysBeforeYear maxDay
  simp only []
  rw [hdby]
  generalize dbmL (isLeap y) m = k1 at hk ⊢
  by_cases hL : isLeap y = true
  · simp only [hL, if_true] at hk
    have := hleap.mp ((isLeap_iff y).mp hL)
    omega
  · simp only [hL] at hk
    simp at hk
    omega

/-! ## datetime ± timedelta -/

theorem Inst.ext' {a b : Inst} (h1 : a.day = b.day) (h2 : a.us = b.us) : a = b := by
  cases a; cases b; simp_all

theorem addUs_ok {i R : Inst} {k : Int} (h : addUs i k = .ok R) :
    R.total = i.total + k ∧ R.valid := by
  unfold addUs at h
  simp only [] at h
  split at h
  · rename_i hc
    injection h with h
    subst h
    simp only [Inst.total, Inst.valid, usPerDay, maxDay] at *
    omega
  · cases h

theorem addUs_of_total {i R : Inst} {k : Int} (hR : R.valid) (h : R.total = i.total + k) :
    addUs i k = .ok R := by
  unfold addUs
  simp only []
  have hd : (i.total + k) / (usPerDay : Int) = R.day := by
    simp only [Inst.total, Inst.valid, usPerDay, maxDay] at *
    omega
  have hu : ((i.total + k) % (usPerDay : Int)).toNat = R.us := by
    simp only [Inst.total, Inst.valid, usPerDay, maxDay] at *
    omega
  rw [hd, hu, if_pos ⟨hR.1, hR.2.1⟩]

theorem addUs_overflow {i : Inst} {k : Int}
    (h : ¬ (0 ≤ i.total + k ∧ i.total + k < (maxDay : Int) * (usPerDay : Int))) :
    addUs i k = .error .overflow := by
  unfold addUs
  simp only []
  rw [if_neg]
  simp only [Inst.total, usPerDay, maxDay] at *
  omega

theorem addUs_cases (i : Inst) (k : Int) : (∃ R, addUs i k = .ok R) ∨ addUs i k = .error .overflow := by
  unfold addUs; simp only []; split
  · exact Or.inl ⟨_, rfl⟩
  · exact Or.inr rfl

theorem total_inj {a b : Inst} (ha : a.valid) (hb : b.valid) (h : a.total = b.total) : a = b := by
  apply Inst.ext' <;> (simp only [Inst.total, Inst.valid, usPerDay, maxDay] at *; omega)

theorem tdNorm_ok {k r : Int} (h : tdNorm k = .ok r) : r = k := by
  unfold tdNorm at h; split at h
  · injection h with h; exact h.symm
  · cases h

theorem tdNorm_small {k : Int} (h : -(maxDay : Int) * usPerDay ≤ k ∧ k ≤ (maxDay : Int) * usPerDay) :
    tdNorm k = .ok k := by
  unfold tdNorm; rw [if_pos]
  simp only [usPerDay, maxDay] at *; omega

theorem tdNorm_cases (k : Int) : tdNorm k = .ok k ∨ tdNorm k = .error .overflow := by
  unfold tdNorm; split
  · exact Or.inl rfl
  · exact Or.inr rfl

/-- a timedelta that the constructor rejects is far beyond the calendar -/
theorem tdNorm_err {k : Int} (h : tdNorm k = .error .overflow) :
    k < -(maxDay : Int) * usPerDay ∨ (maxDay : Int) * usPerDay < k := by
  by_cases h1 : k < -(maxDay : Int) * usPerDay
  · exact Or.inl h1
  · by_cases h2 : (maxDay : Int) * usPerDay < k
    · exact Or.inr h2
    · rw [tdNorm_small ⟨by omega, by omega⟩] at h; cases h

theorem instantPlusInt_eq (I : Inst) (n : Int) (hI : I.valid) :
    instantPlusInt I n = if 0 ≤ I.day + n ∧ I.day + n < (maxDay : Int) then .ok ⟨I.day + n, I.us⟩ else .error .overflow := by
  unfold instantPlusInt tdDays
  split
  · rename_i hc
    rw [tdNorm_small]
    · show addUs I _ = _
      apply addUs_of_total
      · exact ⟨hc.1, hc.2, hI.2.2⟩
      · simp only [Inst.total]; ring
    · simp only [Inst.valid, usPerDay, maxDay] at *; omega
  · rename_i hc
    rcases tdNorm_cases (n * (usPerDay : Int)) with h | h
    · rw [h]; show addUs I _ = _
      apply addUs_overflow
      simp only [Inst.total, Inst.valid, usPerDay, maxDay] at *; omega
    · rw [h]; rfl

theorem instantMinusInt_eq (I : Inst) (n : Int) (hI : I.valid) :
    instantMinusInt I n = if 0 ≤ I.day - n ∧ I.day - n < (maxDay : Int) then .ok ⟨I.day - n, I.us⟩ else .error .overflow := by
  unfold instantMinusInt tdDays
  split
  · rename_i hc
    rw [tdNorm_small]
    · show addUs I _ = _
      apply addUs_of_total
      · exact ⟨hc.1, hc.2, hI.2.2⟩
      · simp only [Inst.total]; ring
    · simp only [Inst.valid, usPerDay, maxDay] at *; omega
  · rename_i hc
    rcases tdNorm_cases (n * (usPerDay : Int)) with h | h
    · rw [h]; show addUs I _ = _
      apply addUs_overflow
      simp only [Inst.total, Inst.valid, usPerDay, maxDay] at *; omega
    · rw [h]; rfl

/-! ## add / subtract a span -/

theorem addUs_then_back {I R : Inst} {k : Int} (hI : I.valid) (h : addUs I k = .ok R) :
    diffUs R I = k ∧ R.valid ∧ addUs R (-k) = .ok I := by
  obtain ⟨ht, hv⟩ := addUs_ok h
  refine ⟨by unfold diffUs; omega, hv, addUs_of_total hI (by omega)⟩

theorem instantPlusQuantity_ok {I R : Inst} {mag : Num} {dim : List Rat}
    (h : instantPlusQuantity I mag dim = .ok R) :
    isTimeDim dim = true ∧ ∃ k, spanUs mag = .ok k ∧ addUs I k = .ok R := by
  unfold instantPlusQuantity validateTime plusSeconds at h
  unfold spanUs
  by_cases hd : isTimeDim dim = true
  · simp only [hd, if_true, bind, Except.bind] at h ⊢
    refine ⟨trivial, ?_⟩
    cases hs : secondsOf mag with
    | error e => rw [hs] at h; cases h
    | ok r =>
      rw [hs] at h; simp only [] at h ⊢
      cases ht : tdSecondsRat r with
      | error e => rw [ht] at h; cases h
      | ok k => rw [ht] at h; exact ⟨k, rfl, h⟩
  · simp only [hd, bind, Except.bind] at h; cases h

theorem instantMinusQuantity_ok {I R : Inst} {mag : Num} {dim : List Rat}
    (h : instantMinusQuantity I mag dim = .ok R) :
    isTimeDim dim = true ∧ ∃ k, spanUs mag = .ok k ∧ addUs I (-k) = .ok R := by
  unfold instantMinusQuantity validateTime minusSeconds at h
  unfold spanUs
  by_cases hd : isTimeDim dim = true
  · simp only [hd, if_true, bind, Except.bind] at h ⊢
    refine ⟨trivial, ?_⟩
    cases hs : secondsOf mag with
    | error e => rw [hs] at h; cases h
    | ok r =>
      rw [hs] at h; simp only [] at h ⊢
      cases ht : tdSecondsRat r with
      | error e => rw [ht] at h; cases h
      | ok k => rw [ht] at h; exact ⟨k, rfl, h⟩
  · simp only [hd, bind, Except.bind] at h; cases h

theorem instantPlusQuantity_of {I : Inst} {mag : Num} {dim : List Rat} {k : Int}
    (hd : isTimeDim dim = true) (hs : spanUs mag = .ok k) :
    instantPlusQuantity I mag dim = addUs I k := by
  unfold instantPlusQuantity validateTime plusSeconds
  unfold spanUs at hs
  simp only [hd, if_true, bind, Except.bind] at hs ⊢
  cases hs' : secondsOf mag with
  | error e => rw [hs'] at hs; cases hs
  | ok r => rw [hs'] at hs; simp only [] at hs ⊢; rw [hs]

theorem instantMinusQuantity_of {I : Inst} {mag : Num} {dim : List Rat} {k : Int}
    (hd : isTimeDim dim = true) (hs : spanUs mag = .ok k) :
    instantMinusQuantity I mag dim = addUs I (-k) := by
  unfold instantMinusQuantity validateTime minusSeconds
  unfold spanUs at hs
  simp only [hd, if_true, bind, Except.bind] at hs ⊢
  cases hs' : secondsOf mag with
  | error e => rw [hs'] at hs; cases hs
  | ok r => rw [hs'] at hs; simp only [] at hs ⊢; rw [hs]

theorem non_time_plus (I : Inst) (mag : Num) (dim : List Rat) (h : isTimeDim dim = false) :
    instantPlusQuantity I mag dim = .error .runtime := by
  unfold instantPlusQuantity validateTime; simp [h, bind, Except.bind]

theorem non_time_minus (I : Inst) (mag : Num) (dim : List Rat) (h : isTimeDim dim = false) :
    instantMinusQuantity I mag dim = .error .runtime := by
  unfold instantMinusQuantity validateTime; simp [h, bind, Except.bind]

/-- the exponent vectors `validate_time` accepts: exactly (0, 0, 1, 0, …, 0) -/
theorem isTimeDim_iff (dim : List Rat) :
    isTimeDim dim = true ↔ ∃ n, dim = 0 :: 0 :: 1 :: List.replicate n 0 := by
  constructor
  · intro h
    match dim, h with
    | a :: b :: c :: rest, h =>
      simp only [isTimeDim, Bool.and_eq_true, decide_eq_true_eq, List.all_eq_true] at h
      obtain ⟨⟨⟨ha, hb⟩, hc⟩, hr⟩ := h
      refine ⟨rest.length, ?_⟩
      subst ha hb hc
      congr 3
      exact List.eq_replicate_iff.mpr ⟨rfl, fun x hx => hr x hx⟩
  · rintro ⟨n, rfl⟩
    simp [isTimeDim]

/-! ## comparisons -/

def signHolds (op : Cmp) (d : Int) : Prop :=
  match op with
  | .lt => d < 0 | .le => d ≤ 0 | .gt => 0 < d | .ge => 0 ≤ d | .eq => d = 0 | .ne => d ≠ 0

instance (op : Cmp) (d : Int) : Decidable (signHolds op d) := by
  unfold signHolds; cases op <;> exact inferInstance

theorem cmpBool_sign (op : Cmp) (I J : Inst) (hI : I.valid) (hJ : J.valid) :
    cmpBool op I J = true ↔ signHolds op (diffUs I J) := by
  cases op <;>
    simp only [cmpBool, lt, le, eq, signHolds, diffUs, Inst.total, Inst.valid, usPerDay, maxDay,
      decide_eq_true_eq, Bool.not_eq_true', decide_eq_false_iff_not] at * <;> omega

/-! ## floor / ceil -/

theorem floorInstant_eq (I : Inst) (hI : I.valid) : floorInstant I = .ok ⟨I.day, 0⟩ := by
  have hn : I.day.toNat < maxDay := by simp only [Inst.valid, maxDay] at *; omega
  have hv := toCivil_valid I.day.toNat hn
  have hrt := (fromCivil_toCivil I.day.toNat).2
  unfold floorInstant mkDateTime Inst.year Inst.month Inst.dayOfMonth
  rw [if_pos ⟨hv, by decide, by decide, by decide, by decide⟩, hrt]
  have : ((I.day.toNat : Nat) : Int) = I.day := by have := hI.1; omega
  simp [this]

theorem ceilInstant_eq (I : Inst) (hI : I.valid) :
    ceilInstant I = if I.day + 1 < (maxDay : Int) then .ok ⟨I.day + 1, 0⟩ else .error .overflow := by
  unfold ceilInstant
  rw [floorInstant_eq I hI]
  have hF : (⟨I.day, 0⟩ : Inst).valid := ⟨hI.1, hI.2.1, by show (0:Nat) < usPerDay; decide⟩
  have := instantPlusInt_eq ⟨I.day, 0⟩ 1 hF
  unfold instantPlusInt at this
  simp only [bind, Except.bind] at this ⊢
  rw [this]
  have h0 := hI.1
  by_cases h : I.day + 1 < (maxDay : Int)
  · rw [if_pos ⟨by omega, h⟩, if_pos h]
  · rw [if_neg (fun hc => h hc.2), if_neg h]

/-- decidable equality of results, for the concrete examples next to the theorems -/
instance instDecEqExcept {ε α : Type} [DecidableEq ε] [DecidableEq α] : DecidableEq (Except ε α)
  | .ok a, .ok b => if h : a = b then isTrue (h ▸ rfl) else isFalse (fun h' => h (Except.ok.inj h'))
  | .error a, .error b => if h : a = b then isTrue (h ▸ rfl) else isFalse (fun h' => h (Except.error.inj h'))
  | .ok _, .error _ => isFalse (fun h => nomatch h)
  | .error _, .ok _ => isFalse (fun h => nomatch h)

end KaVerif.Instant
