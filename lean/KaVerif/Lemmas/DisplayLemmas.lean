import KaVerif.Model.Display
import KaVerif.Lemmas.NumLemmas
import KaVerif.Props.C01
import Mathlib.Data.Rat.Floor
import Mathlib.Data.Nat.Cast.Order.Field
import Mathlib.Tactic.Ring
import Mathlib.Tactic.Linarith
import Mathlib.Tactic.FieldSimp
import Mathlib.Tactic.Positivity

/-
  Helper lemmas for C15 (display / re-entry text).
-/
namespace KaVerif.Display
open KaVerif

/-! ### digit runs -/

/-- every character is a decimal digit -/
def AllDigits (ds : Text) : Prop := ∀ c ∈ ds, c.isDigit = true

theorem allDigits_natText (n : Nat) : AllDigits (natText n) := by
  intro c hc
  exact Nat.isDigit_of_mem_toDigits (by decide) (by decide) hc

theorem allDigits_append {a b : Text} (ha : AllDigits a) (hb : AllDigits b) : AllDigits (a ++ b) := by
  intro c hc
  rcases List.mem_append.mp hc with h | h
  · exact ha c h
  · exact hb c h

theorem allDigits_replicate_zero (n : Nat) : AllDigits (List.replicate n '0') := by
  intro c hc
  rw [List.mem_replicate] at hc
  rw [hc.2]; decide

theorem allDigits_cons {c : Char} {ds : Text} : AllDigits (c :: ds) ↔ c.isDigit = true ∧ AllDigits ds := by
  constructor
  · intro h; exact ⟨h c (List.mem_cons_self ..), fun d hd => h d (List.mem_cons_of_mem _ hd)⟩
  · rintro ⟨h1, h2⟩ d hd
    rcases List.mem_cons.mp hd with rfl | h
    · exact h1
    · exact h2 d h

/-- a rest that does not continue the digit run -/
def Stops (rest : Text) : Prop := ∀ c r, rest = c :: r → c.isDigit = false

theorem stops_nil : Stops [] := by intro c r h; cases h

theorem stops_cons {c : Char} {r : Text} (h : c.isDigit = false) : Stops (c :: r) := by
  intro c' r' e; cases e; exact h

theorem readDigits_append (ds rest : Text) (h : AllDigits ds) (acc k : Nat) :
    readDigits (ds ++ rest) acc k = readDigits rest (Nat.ofDigitChars 10 ds acc) (k + ds.length) := by
  induction ds generalizing acc k with
  | nil => simp
  | cons c cs ih =>
    have hc := (allDigits_cons.mp h).1
    have hcs := (allDigits_cons.mp h).2
    simp only [List.cons_append, readDigits, hc, if_true]
    rw [ih hcs, Nat.ofDigitChars_cons]
    simp only [List.length_cons]
    congr 1; omega

theorem readDigits_stops (rest : Text) (h : Stops rest) (acc k : Nat) :
    readDigits rest acc k = (acc, k, rest) := by
  cases rest with
  | nil => rfl
  | cons c r => simp [readDigits, h c r rfl]

/-- reading a digit run that is followed by something else -/
theorem readDigits_run (ds rest : Text) (h : AllDigits ds) (hr : Stops rest) :
    readDigits (ds ++ rest) 0 0 = (Nat.ofDigitChars 10 ds 0, ds.length, rest) := by
  rw [readDigits_append ds rest h, readDigits_stops rest hr]; simp

theorem readDigits_natText (n : Nat) (rest : Text) (hr : Stops rest) :
    readDigits (natText n ++ rest) 0 0 = (n, (natText n).length, rest) := by
  rw [readDigits_run _ _ (allDigits_natText n) hr]
  simp [natText]

theorem natText_length_pos (n : Nat) : 0 < (natText n).length := Nat.length_toDigits_pos

theorem natText_length_ne_zero (n : Nat) : (natText n).length ≠ 0 := Nat.pos_iff_ne_zero.mp (natText_length_pos n)

theorem natText_ne_nil (n : Nat) : natText n ≠ [] := by
  intro h; have := natText_length_pos n; rw [h] at this; simp at this

theorem natText_eq_cons (n : Nat) : ∃ c r, natText n = c :: r ∧ c.isDigit = true := by
  have h := natText_length_pos n
  match hm : natText n with
  | [] => rw [hm] at h; simp at h
  | c :: r =>
    refine ⟨c, r, rfl, ?_⟩
    exact allDigits_natText n c (by rw [hm]; exact List.mem_cons_self ..)

theorem splitSign_of_digit {c : Char} {r : Text} (h : c.isDigit = true) : splitSign (c :: r) = (false, c :: r) := by
  have : c ≠ '-' := by rintro rfl; revert h; decide
  unfold splitSign
  split
  · rename_i heq; cases heq; exact absurd rfl this
  · rfl

theorem splitSign_natText (n : Nat) (rest : Text) : splitSign (natText n ++ rest) = (false, natText n ++ rest) := by
  obtain ⟨c, r, h, hc⟩ := natText_eq_cons n
  rw [h]; exact splitSign_of_digit hc

theorem splitSign_minus (r : Text) : splitSign ('-' :: r) = (true, r) := rfl

/-! ### integers -/

theorem readInt_intText (n : Int) : readInt (intText n) = some n := by
  unfold readInt intText
  by_cases hn : n < 0
  · simp only [hn, if_true, splitSign_minus]
    have := readDigits_natText n.natAbs [] stops_nil
    rw [List.append_nil] at this
    simp only [this, natText_length_ne_zero, if_false]
    have e : -(n.natAbs : Int) = n := by omega
    simpa using e
  · simp only [hn, if_false]
    have hs := splitSign_natText n.natAbs []
    rw [List.append_nil] at hs
    have := readDigits_natText n.natAbs [] stops_nil
    rw [List.append_nil] at this
    simp only [hs, this, natText_length_ne_zero, if_false]
    have e : (n.natAbs : Int) = n := by omega
    simpa using e

theorem intText_eq_toString (n : Int) : String.ofList (intText n) = toString n := by
  unfold intText natText
  cases n with
  | ofNat m =>
    have : ¬ ((Int.ofNat m) < 0) := by simp
    simp only [this, if_false]
    show String.ofList (Nat.toDigits 10 m) = toString (Int.ofNat m)
    simp [toString, Int.repr, Nat.repr_eq_ofList_toDigits]
  | negSucc m =>
    have : (Int.negSucc m) < 0 := Int.negSucc_lt_zero m
    simp only [this, if_true]
    simp [toString, Int.repr, Nat.repr_eq_ofList_toDigits]

/-! ### fractions -/

theorem intText_nonneg {n : Int} (h : 0 ≤ n) : intText n = natText n.natAbs := by
  unfold intText; simp [not_lt.mpr h]

theorem intText_neg {n : Int} (h : n < 0) : intText n = '-' :: natText n.natAbs := by
  unfold intText; simp [h]

theorem rat_eq_natAbs_div_den {r : Rat} (h : 0 ≤ r) : ((r.num.natAbs : ℕ) : ℚ) / (r.den : ℚ) = r := by
  have hn : 0 ≤ r.num := Rat.num_nonneg.mpr h
  have : ((r.num.natAbs : ℕ) : ℚ) = ((r.num : ℤ) : ℚ) := by
    rw [← Int.cast_natCast]; congr 1; omega
  rw [this]; exact Rat.num_div_den r

theorem readPosFrac_fracText {r : Rat} (h : 0 ≤ r) : readPosFrac (fracText r) = some r := by
  have hn : 0 ≤ r.num := Rat.num_nonneg.mpr h
  unfold fracText readPosFrac
  by_cases hd : r.den = 1
  · simp only [hd, if_true, intText_nonneg hn]
    have := readDigits_natText r.num.natAbs [] stops_nil
    rw [List.append_nil] at this
    simp only [this, natText_length_ne_zero, if_false]
    have e := rat_eq_natAbs_div_den h
    rw [hd] at e; simp at e; simpa using e
  · simp only [hd, if_false, intText_nonneg hn]
    have h1 := readDigits_natText r.num.natAbs ('/' :: natText r.den) (stops_cons (by decide))
    have h2 := readDigits_natText r.den [] stops_nil
    rw [List.append_nil] at h2
    simp only [h1, h2, natText_length_ne_zero, if_false]
    exact congrArg some (rat_eq_natAbs_div_den h)

theorem readMixed_fracText_nonneg {r : Rat} (h : 0 ≤ r) : readMixed (fracText r) = some r := by
  have hn : 0 ≤ r.num := Rat.num_nonneg.mpr h
  have hp := readPosFrac_fracText h
  unfold readMixed
  unfold fracText at hp ⊢
  by_cases hd : r.den = 1
  · simp only [hd, if_true, intText_nonneg hn] at hp ⊢
    have hs := splitSign_natText r.num.natAbs []
    have := readDigits_natText r.num.natAbs [] stops_nil
    rw [List.append_nil] at this hs
    simp only [hs, this, natText_length_ne_zero, if_false, hp]
    simp [applySign]
  · simp only [hd, if_false, intText_nonneg hn] at hp ⊢
    have hs := splitSign_natText r.num.natAbs ('/' :: natText r.den)
    have h1 := readDigits_natText r.num.natAbs ('/' :: natText r.den) (stops_cons (by decide))
    simp only [hs, h1, natText_length_ne_zero, if_false, hp]
    simp [applySign]

theorem fracText_neg {q : Rat} (h : q < 0) : fracText q = '-' :: fracText (-q) := by
  have hn : q.num < 0 := Rat.num_neg.mpr h
  have hn' : 0 ≤ (-q).num := by rw [Rat.num_neg_eq_neg_num]; omega
  unfold fracText
  have hden : (-q).den = q.den := Rat.den_neg_eq_den q
  have habs : (-q).num.natAbs = q.num.natAbs := by rw [Rat.num_neg_eq_neg_num]; omega
  rw [hden, intText_neg hn, intText_nonneg hn', habs]
  by_cases hd : q.den = 1 <;> simp [hd]

theorem readMixed_minus (t : Text) : readMixed ('-' :: t) =
    (let (w, k, rest) := readDigits t 0 0
     let v : Option Rat :=
       if k = 0 then none
       else match rest with
         | ' ' :: r => (readPosFrac r).map fun f => (w : Rat) + f
         | _ => readPosFrac t
     v.map (applySign true)) := rfl

theorem readMixed_of_digit_head (t : Text) (hs : splitSign t = (false, t)) : readMixed t =
    (let (w, k, rest) := readDigits t 0 0
     let v : Option Rat :=
       if k = 0 then none
       else match rest with
         | ' ' :: r => (readPosFrac r).map fun f => (w : Rat) + f
         | _ => readPosFrac t
     v.map (applySign false)) := by
  unfold readMixed; rw [hs]; rfl

theorem readMixed_neg_of_nonneg {t : Text} {r : Rat} (hs : splitSign t = (false, t))
    (h : readMixed t = some r) : readMixed ('-' :: t) = some (-r) := by
  rw [readMixed_minus]
  rw [readMixed_of_digit_head t hs] at h
  revert h
  generalize (readDigits t 0 0) = p
  obtain ⟨w, k, rest⟩ := p
  simp only
  intro h
  cases hv : (if k = 0 then none else match rest with
         | ' ' :: r => (readPosFrac r).map fun f => (w : Rat) + f
         | _ => readPosFrac t) with
  | none => rw [hv] at h; simp at h
  | some x =>
    rw [hv] at h; simp [applySign] at h ⊢; exact h

theorem whole_le_abs (q : Rat) : ((q.num.natAbs / q.den : ℕ) : ℚ) ≤ absRat q := by
  have h1 : ((q.num.natAbs / q.den : ℕ) : ℚ) ≤ (q.num.natAbs : ℚ) / (q.den : ℚ) := Nat.cast_div_le
  have h2 : (q.num.natAbs : ℚ) / (q.den : ℚ) = absRat q := by
    unfold absRat
    by_cases hq : q < 0
    · simp only [hq, if_true]
      have := rat_eq_natAbs_div_den (r := -q) (by linarith)
      rw [Rat.den_neg_eq_den, Rat.num_neg_eq_neg_num, Int.natAbs_neg] at this; exact this
    · simp only [hq, if_false]
      exact rat_eq_natAbs_div_den (not_lt.mp hq)
  linarith

theorem splitSign_fracText_nonneg {r : Rat} (h : 0 ≤ r) : splitSign (fracText r) = (false, fracText r) := by
  have hn : 0 ≤ r.num := Rat.num_nonneg.mpr h
  unfold fracText
  by_cases hd : r.den = 1
  · simp only [hd, if_true, intText_nonneg hn]
    have := splitSign_natText r.num.natAbs []; rwa [List.append_nil] at this
  · simp only [hd, if_false, intText_nonneg hn]
    exact splitSign_natText _ _

/-- reading the mixed text of a non-negative rational with whole part `w > 0` -/
theorem readMixed_mixed (w : Nat) {r : Rat} (h : 0 ≤ r) :
    readMixed (natText w ++ ' ' :: fracText r) = some ((w : ℚ) + r) := by
  rw [readMixed_of_digit_head _ (splitSign_natText w _)]
  have h1 := readDigits_natText w (' ' :: fracText r) (stops_cons (by decide))
  simp only [h1, natText_length_ne_zero, if_false, readPosFrac_fracText h]
  simp [applySign]

theorem readMixed_prettifyFrac (q : Rat) : readMixed (prettifyFrac q false) = some q := by
  unfold prettifyFrac
  simp only [Bool.false_eq_true, if_false]
  by_cases hw : q.num.natAbs / q.den > 0
  · simp only [hw, if_true]
    have hr : 0 ≤ absRat q - ((q.num.natAbs / q.den : ℕ) : ℚ) := by linarith [whole_le_abs q]
    by_cases hq : q ≥ 0
    · simp only [hq, if_true, one_mul]
      rw [intText_nonneg (by positivity), Int.natAbs_natCast, readMixed_mixed _ hr]
      congr 1
      unfold absRat; simp only [not_lt.mpr hq, if_false]; ring
    · simp only [hq, if_false]
      have hneg : (-1 : ℤ) * ((q.num.natAbs / q.den : ℕ) : ℤ) < 0 := by
        have : (0:ℤ) < ((q.num.natAbs / q.den : ℕ) : ℤ) := by exact_mod_cast hw
        linarith
      rw [intText_neg hneg]
      have e : ((-1 : ℤ) * ((q.num.natAbs / q.den : ℕ) : ℤ)).natAbs = q.num.natAbs / q.den := by
        rw [Int.natAbs_mul, Int.natAbs_natCast]; show 1 * _ = _; rw [Nat.one_mul]
      rw [e]
      have := readMixed_neg_of_nonneg (splitSign_natText (q.num.natAbs / q.den) _) (readMixed_mixed (q.num.natAbs / q.den) hr)
      rw [List.cons_append, this]
      congr 1
      unfold absRat; simp only [not_le.mp hq, if_true]; ring
  · simp only [hw, if_false]
    by_cases hq : q < 0
    · rw [fracText_neg hq]
      have h0 : 0 ≤ -q := by linarith
      rw [readMixed_neg_of_nonneg (splitSign_fracText_nonneg h0) (readMixed_fracText_nonneg h0)]
      simp
    · exact readMixed_fracText_nonneg (not_lt.mp hq)

/-! ### powers of ten, ⌊log10⌋ -/

theorem pow10_eq (k : Int) : pow10 k = (10:ℚ) ^ k := by
  unfold pow10
  by_cases hk : k ≥ 0
  · simp only [hk, if_true]
    obtain ⟨n, rfl⟩ := Int.eq_ofNat_of_zero_le hk
    simp
  · simp only [hk, if_false]
    set n := (-k).toNat with hn
    have hk' : k = -(n : ℤ) := by omega
    rw [hk', zpow_neg, zpow_natCast]; push_cast; rw [one_div]

theorem tenpow_pos (k : ℤ) : (0:ℚ) < (10:ℚ) ^ k := zpow_pos (by norm_num) k

theorem pow10_pos (k : Int) : 0 < pow10 k := by rw [pow10_eq]; exact tenpow_pos k

theorem natText_lt_pow (n : Nat) : n < 10 ^ (natText n).length :=
  (Nat.length_toDigits_le_iff (b := 10) (by decide) (natText_length_pos n)).mp (le_refl _)

theorem pow_le_natText {n : Nat} (hn : 0 < n) : 10 ^ ((natText n).length - 1) ≤ n := by
  by_cases h1 : (natText n).length - 1 = 0
  · rw [h1]; exact hn
  · have hpos : 0 < (natText n).length - 1 := Nat.pos_of_ne_zero h1
    by_contra hlt
    have := (Nat.length_toDigits_le_iff (b := 10) (n := n) (by decide) hpos).mpr (not_le.mp hlt)
    have h2 : (natText n).length = (Nat.toDigits 10 n).length := rfl
    omega

theorem natText_length_eq {n P : Nat} (hP : 1 ≤ P) (h1 : 10 ^ (P - 1) ≤ n) (h2 : n < 10 ^ P) :
    (natText n).length = P := by
  have hle : (natText n).length ≤ P := (Nat.length_toDigits_le_iff (b := 10) (by decide) (by omega)).mpr h2
  by_contra hne
  have hlt : (natText n).length ≤ P - 1 := by omega
  have hpos : 0 < P - 1 := by have := natText_length_pos n; omega
  have := (Nat.length_toDigits_le_iff (b := 10) (n := n) (by decide) hpos).mp hlt
  omega

theorem floorLog10_spec {a : ℚ} (ha : 0 < a) :
    (10:ℚ) ^ (floorLog10 a) ≤ a ∧ a < (10:ℚ) ^ (floorLog10 a + 1) := by
  have hnum : 0 < a.num := Rat.num_pos.mpr ha
  set n := a.num.natAbs with hn
  set d := a.den with hd
  have hnpos : 0 < n := by omega
  have hdpos : 0 < d := a.den_pos
  have hadiv : a = (n : ℚ) / (d : ℚ) := by
    have := rat_eq_natAbs_div_den (le_of_lt ha); rw [← this]
  set la := (natText n).length with hla
  set lb := (natText d).length with hlb
  have hla1 : 1 ≤ la := natText_length_pos n
  have hlb1 : 1 ≤ lb := natText_length_pos d
  have A : (n : ℚ) < (10:ℚ) ^ (la : ℤ) := by
    have := natText_lt_pow n; rw [zpow_natCast]; exact_mod_cast this
  have B : (10:ℚ) ^ ((la : ℤ) - 1) ≤ (n : ℚ) := by
    have := pow_le_natText hnpos
    have e : ((la : ℤ) - 1) = ((la - 1 : ℕ) : ℤ) := by omega
    rw [e, zpow_natCast]; exact_mod_cast this
  have C : (d : ℚ) < (10:ℚ) ^ (lb : ℤ) := by
    have := natText_lt_pow d; rw [zpow_natCast]; exact_mod_cast this
  have D : (10:ℚ) ^ ((lb : ℤ) - 1) ≤ (d : ℚ) := by
    have := pow_le_natText hdpos
    have e : ((lb : ℤ) - 1) = ((lb - 1 : ℕ) : ℤ) := by omega
    rw [e, zpow_natCast]; exact_mod_cast this
  have hdq : (0:ℚ) < (d : ℚ) := by exact_mod_cast hdpos
  have h10 : (10:ℚ) ≠ 0 := by norm_num
  set e : ℤ := (la : ℤ) - (lb : ℤ) with he
  -- a < 10^(e+1)
  have up : a < (10:ℚ) ^ (e + 1) := by
    rw [hadiv, div_lt_iff₀ hdq]
    have : (10:ℚ) ^ (la : ℤ) = (10:ℚ) ^ (e + 1) * (10:ℚ) ^ ((lb : ℤ) - 1) := by
      rw [← zpow_add₀ h10]; congr 1; omega
    have hp : (0:ℚ) < (10:ℚ) ^ (e + 1) := tenpow_pos _
    calc (n : ℚ) < (10:ℚ) ^ (la : ℤ) := A
      _ = (10:ℚ) ^ (e + 1) * (10:ℚ) ^ ((lb : ℤ) - 1) := this
      _ ≤ (10:ℚ) ^ (e + 1) * (d : ℚ) := by exact mul_le_mul_of_nonneg_left D (le_of_lt hp)
  -- 10^(e-1) ≤ a
  have lo : (10:ℚ) ^ (e - 1) ≤ a := by
    rw [hadiv, le_div_iff₀ hdq]
    have : (10:ℚ) ^ ((la : ℤ) - 1) = (10:ℚ) ^ (e - 1) * (10:ℚ) ^ (lb : ℤ) := by
      rw [← zpow_add₀ h10]; congr 1; omega
    have hp : (0:ℚ) < (10:ℚ) ^ (e - 1) := tenpow_pos _
    calc (10:ℚ) ^ (e - 1) * (d : ℚ) ≤ (10:ℚ) ^ (e - 1) * (10:ℚ) ^ (lb : ℤ) :=
          mul_le_mul_of_nonneg_left (le_of_lt C) (le_of_lt hp)
      _ = (10:ℚ) ^ ((la : ℤ) - 1) := this.symm
      _ ≤ (n : ℚ) := B
  have hfl : floorLog10 a = if pow10 e ≤ a then e else e - 1 := rfl
  rw [hfl]
  by_cases hc : pow10 e ≤ a
  · simp only [hc, if_true]; rw [pow10_eq] at hc; exact ⟨hc, up⟩
  · simp only [hc, if_false]; rw [pow10_eq] at hc
    refine ⟨lo, ?_⟩
    have : e - 1 + 1 = e := by omega
    rw [this]; exact not_le.mp hc

/-! ### half-even rounding -/

theorem roundHalfEven_eq (q : ℚ) : Num.roundHalfEven q =
    if q - (⌊q⌋ : ℚ) < 1 / 2 then ⌊q⌋ else if q - (⌊q⌋ : ℚ) > 1 / 2 then ⌊q⌋ + 1
    else if ⌊q⌋ % 2 = 0 then ⌊q⌋ else ⌊q⌋ + 1 := rfl

theorem roundHalfEven_spec (q : ℚ) :
    |q - (Num.roundHalfEven q : ℚ)| ≤ 1 / 2 ∧
      (Num.roundHalfEven q = ⌊q⌋ ∨ Num.roundHalfEven q = ⌊q⌋ + 1) := by
  have h1 : ((⌊q⌋ : ℤ) : ℚ) ≤ q := Int.floor_le _
  have h2 : q < (⌊q⌋ : ℚ) + 1 := Int.lt_floor_add_one _
  rw [roundHalfEven_eq]
  by_cases c1 : q - (⌊q⌋ : ℚ) < 1 / 2
  · rw [if_pos c1]
    refine ⟨?_, Or.inl rfl⟩
    rw [abs_le]; constructor <;> linarith
  · rw [if_neg c1]
    by_cases c2 : q - (⌊q⌋ : ℚ) > 1 / 2
    · rw [if_pos c2]
      refine ⟨?_, Or.inr rfl⟩
      rw [abs_le]; push_cast; constructor <;> linarith
    · rw [if_neg c2]
      have heq : q - (⌊q⌋ : ℚ) = 1 / 2 := le_antisymm (not_lt.mp c2) (not_lt.mp c1)
      by_cases c3 : ⌊q⌋ % 2 = 0
      · rw [if_pos c3]
        refine ⟨?_, Or.inl rfl⟩
        rw [abs_le]; constructor <;> linarith
      · rw [if_neg c3]
        refine ⟨?_, Or.inr rfl⟩
        rw [abs_le]; push_cast; constructor <;> linarith

/-- **rounding core**: the `P`-digit mantissa and exponent chosen for `a > 0`. -/
theorem sigDigits_spec {P : Nat} (hP : 1 ≤ P) {a : ℚ} (ha : 0 < a) :
    10 ^ (P - 1) ≤ (sigDigits P a).1 ∧ (sigDigits P a).1 < 10 ^ P ∧
    |((sigDigits P a).1 : ℚ) * (10:ℚ) ^ ((sigDigits P a).2 - (P : ℤ) + 1) - a|
        ≤ 1 / 2 * (10:ℚ) ^ (floorLog10 a - (P : ℤ) + 1) ∧
    ((sigDigits P a).2 = floorLog10 a ∨
      ((sigDigits P a).2 = floorLog10 a + 1 ∧ (sigDigits P a).1 = 10 ^ (P - 1))) := by
  obtain ⟨hlo, hhi⟩ := floorLog10_spec ha
  set e0 := floorLog10 a with he0
  have h10 : (10:ℚ) ≠ 0 := by norm_num
  set s : ℚ := a * (10:ℚ) ^ ((P : ℤ) - 1 - e0) with hs
  have hsc : (0:ℚ) < (10:ℚ) ^ ((P : ℤ) - 1 - e0) := tenpow_pos _
  -- 10^(P-1) ≤ s < 10^P
  have s_lo : ((10 ^ (P - 1) : ℕ) : ℚ) ≤ s := by
    have : ((10 ^ (P - 1) : ℕ) : ℚ) = (10:ℚ) ^ e0 * (10:ℚ) ^ ((P : ℤ) - 1 - e0) := by
      rw [← zpow_add₀ h10]; push_cast
      rw [← zpow_natCast]; congr 1; omega
    rw [this, hs]; exact mul_le_mul_of_nonneg_right hlo (le_of_lt hsc)
  have s_hi : s < ((10 ^ P : ℕ) : ℚ) := by
    have : ((10 ^ P : ℕ) : ℚ) = (10:ℚ) ^ (e0 + 1) * (10:ℚ) ^ ((P : ℤ) - 1 - e0) := by
      rw [← zpow_add₀ h10]; push_cast
      rw [← zpow_natCast]; congr 1; omega
    rw [this, hs]; exact mul_lt_mul_of_pos_right hhi hsc
  obtain ⟨hr, hcase⟩ := roundHalfEven_spec s
  set R : ℤ := Num.roundHalfEven s with hR
  have f_lo : ((10 ^ (P - 1) : ℕ) : ℤ) ≤ ⌊s⌋ := by
    apply Int.le_floor.mpr; exact_mod_cast s_lo
  have f_hi : ⌊s⌋ < ((10 ^ P : ℕ) : ℤ) := by
    apply Int.floor_lt.mpr; exact_mod_cast s_hi
  have R_lo : ((10 ^ (P - 1) : ℕ) : ℤ) ≤ R := by rcases hcase with h | h <;> omega
  have R_hi : R ≤ ((10 ^ P : ℕ) : ℤ) := by rcases hcase with h | h <;> omega
  have R_nonneg : 0 ≤ R := le_trans (by positivity) R_lo
  have hm : ((R.toNat : ℕ) : ℤ) = R := Int.toNat_of_nonneg R_nonneg
  -- value of R in absolute terms
  have key : |(R : ℚ) * (10:ℚ) ^ (e0 - (P : ℤ) + 1) - a| ≤ 1 / 2 * (10:ℚ) ^ (e0 - (P : ℤ) + 1) := by
    have hu : (0:ℚ) < (10:ℚ) ^ (e0 - (P : ℤ) + 1) := tenpow_pos _
    have ha' : a = s * (10:ℚ) ^ (e0 - (P : ℤ) + 1) := by
      rw [hs, mul_assoc, ← zpow_add₀ h10]
      have : (P : ℤ) - 1 - e0 + (e0 - (P : ℤ) + 1) = 0 := by ring
      rw [this]; simp
    have : (R : ℚ) * (10:ℚ) ^ (e0 - (P : ℤ) + 1) - a = -(s - (R : ℚ)) * (10:ℚ) ^ (e0 - (P : ℤ) + 1) := by
      rw [ha']; ring
    rw [this, abs_mul, abs_neg, abs_of_pos hu]
    exact mul_le_mul_of_nonneg_right hr (le_of_lt hu)
  have hsd : sigDigits P a = if R.toNat = 10 ^ P then (10 ^ (P - 1), e0 + 1) else (R.toNat, e0) := by
    unfold sigDigits
    simp only [pow10_eq]
    rfl
  rw [hsd]
  by_cases hc : R.toNat = 10 ^ P
  · rw [if_pos hc]
    refine ⟨le_refl _, Nat.pow_lt_pow_right (by norm_num) (by omega), ?_, Or.inr ⟨rfl, rfl⟩⟩
    have hRq : (R : ℚ) = (10:ℚ) ^ (P : ℤ) := by
      have : R = ((10 ^ P : ℕ) : ℤ) := by rw [← hm, hc]
      rw [this]; push_cast; rw [zpow_natCast]
    have : (((10 ^ (P - 1) : ℕ) : ℕ) : ℚ) * (10:ℚ) ^ (e0 + 1 - (P : ℤ) + 1)
        = (R : ℚ) * (10:ℚ) ^ (e0 - (P : ℤ) + 1) := by
      rw [hRq, ← zpow_add₀ h10]; push_cast
      rw [← zpow_natCast, ← zpow_add₀ h10]; congr 1; omega
    rw [this]; exact key
  · rw [if_neg hc]
    have R_lo' : 10 ^ (P - 1) ≤ R.toNat := by
      have : ((10 ^ (P - 1) : ℕ) : ℤ) ≤ (R.toNat : ℤ) := by rw [hm]; exact R_lo
      exact_mod_cast this
    refine ⟨R_lo', ?_, ?_, Or.inl rfl⟩
    · have : (R.toNat : ℤ) ≤ ((10 ^ P : ℕ) : ℤ) := by rw [hm]; exact R_hi
      have : R.toNat ≤ 10 ^ P := by exact_mod_cast this
      omega
    · have : ((R.toNat : ℕ) : ℚ) = (R : ℚ) := by rw [← Int.cast_natCast, hm]
      rw [this]; exact key

/-! ### digit strings as numbers -/

/-- the number a digit string denotes -/
def D (ds : Text) : Nat := Nat.ofDigitChars 10 ds 0

theorem D_nil : D [] = 0 := rfl

theorem D_natText (n : Nat) : D (natText n) = n := by simp [D, natText]

theorem D_append (a b : Text) : D (a ++ b) = D a * 10 ^ b.length + D b := by
  unfold D
  rw [Nat.ofDigitChars_append, Nat.ofDigitChars_eq_ofDigitChars_zero]; ring

theorem D_cons (c : Char) (cs : Text) : D (c :: cs) = (c.toNat - 48) * 10 ^ cs.length + D cs := by
  have := D_append [c] cs
  rw [List.singleton_append] at this
  rw [this]; congr 1
  simp [D, Nat.ofDigitChars_cons]

theorem D_replicate_zero (n : Nat) : D (List.replicate n '0') = 0 := by simp [D]

theorem stripZeros_spec (ds : Text) :
    (stripZeros ds).length ≤ ds.length ∧
    D ds = D (stripZeros ds) * 10 ^ (ds.length - (stripZeros ds).length) ∧
    (AllDigits ds → AllDigits (stripZeros ds)) := by
  induction ds with
  | nil => simp [stripZeros, D_nil, AllDigits]
  | cons d ds ih =>
    obtain ⟨ih1, ih2, ih3⟩ := ih
    cases hs : stripZeros ds with
    | nil =>
      rw [hs] at ih1 ih2 ih3
      have hD : D ds = 0 := by rw [ih2, D_nil]; simp
      by_cases hd : d = '0'
      · have : stripZeros (d :: ds) = [] := by simp [stripZeros, hs, hd]
        rw [this]
        refine ⟨by simp, ?_, fun _ => by intro c hc; cases hc⟩
        rw [D_cons, hD, hd, D_nil]; simp
      · have : stripZeros (d :: ds) = [d] := by simp [stripZeros, hs, hd]
        rw [this]
        refine ⟨by simp, ?_, fun h => ?_⟩
        · rw [D_cons, D_cons, hD, D_nil]; simp
        · intro c hc; exact h c (by rw [List.mem_singleton.mp hc]; exact List.mem_cons_self ..)
    | cons r rs =>
      rw [hs] at ih1 ih2 ih3
      have : stripZeros (d :: ds) = d :: r :: rs := by simp [stripZeros, hs]
      rw [this]
      refine ⟨by simp at ih1 ⊢; omega, ?_, fun h => ?_⟩
      · rw [D_cons, D_cons d (r :: rs), ih2]
        have e1 : (d :: ds).length - (d :: r :: rs).length = ds.length - (r :: rs).length := by simp
        rw [e1, Nat.add_mul, Nat.mul_assoc, ← Nat.pow_add]
        congr 3
        omega
      · have h' := allDigits_cons.mp h
        exact allDigits_cons.mpr ⟨h'.1, ih3 h'.2⟩

theorem stripZeros_ne_nil {ds : Text} (h : D ds ≠ 0) : stripZeros ds ≠ [] := by
  intro hs
  have := (stripZeros_spec ds).2.1
  rw [hs, D_nil] at this
  simp at this; exact h this

/-! ### reading a decimal numeral back -/

theorem readExp_nil : readExp [] = some 0 := rfl

theorem D_zero_cons (t : Text) : D ('0' :: t) = D t := by rw [D_cons]; simp

theorem readExp_cons (sg : Char) (digs : Text) (hAll : AllDigits digs) (hne : digs.length ≠ 0) :
    readExp ('e' :: sg :: digs) =
      (if sg = '+' then some ((D digs : ℕ) : ℤ) else if sg = '-' then some (-((D digs : ℕ) : ℤ)) else none) := by
  have hr := readDigits_run digs [] hAll stops_nil
  rw [List.append_nil] at hr
  simp only [readExp, hr, hne, if_false]
  rfl

theorem readExp_expText (e : Int) : readExp (expText e) = some e := by
  have hAll : AllDigits (if (natText e.natAbs).length < 2 then '0' :: natText e.natAbs else natText e.natAbs) := by
    split
    · exact allDigits_cons.mpr ⟨by decide, allDigits_natText _⟩
    · exact allDigits_natText _
  have hD : D (if (natText e.natAbs).length < 2 then '0' :: natText e.natAbs else natText e.natAbs) = e.natAbs := by
    split
    · rw [D_zero_cons, D_natText]
    · rw [D_natText]
  have hlen : (if (natText e.natAbs).length < 2 then '0' :: natText e.natAbs else natText e.natAbs).length ≠ 0 := by
    split
    · simp
    · exact natText_length_ne_zero _
  show readExp ('e' :: (if e < 0 then '-' else '+') ::
    (if (natText e.natAbs).length < 2 then '0' :: natText e.natAbs else natText e.natAbs)) = some e
  rw [readExp_cons _ _ hAll hlen, hD]
  by_cases he : e < 0
  · simp only [he, if_true]
    have : ('-' : Char) ≠ '+' := by decide
    simp only [this, if_false]
    congr 1; omega
  · simp only [he, if_false, if_true]
    congr 1; omega

theorem stops_expText (e : Int) : Stops (expText e) := by
  unfold expText; exact stops_cons (by decide)

theorem expText_ne_dot (e : Int) : ∀ r, expText e ≠ '.' :: r := by
  intro r h; unfold expText at h; injection h with h1 _; revert h1; decide

theorem splitSign_of_allDigits {ip : Text} (hne : ip ≠ []) (h : AllDigits ip) (tail : Text) :
    splitSign (ip ++ tail) = (false, ip ++ tail) := by
  cases ip with
  | nil => exact absurd rfl hne
  | cons c r => exact splitSign_of_digit ((allDigits_cons.mp h).1)

/-- integer part only: `ddd` followed by an exponent part (or nothing) -/
theorem readDecimal_int {ip tail : Text} (hne : ip ≠ []) (h : AllDigits ip)
    (hst : Stops tail) (hdot : ∀ r, tail ≠ '.' :: r) :
    readDecimal (ip ++ tail) = (readExp tail).map fun ex => (D ip : ℚ) * pow10 ex := by
  unfold readDecimal
  rw [splitSign_of_allDigits hne h tail]
  simp only
  rw [readDigits_run ip tail h hst]
  have hl : ip.length ≠ 0 := by intro h0; exact hne (List.length_eq_zero_iff.mp h0)
  simp only [hl, if_false]
  simp [applySign, D]

/-- integer part, point, fraction digits, then an exponent part (or nothing) -/
theorem readDecimal_frac {ip fp tail : Text} (hne : ip ≠ []) (h : AllDigits ip) (hf : AllDigits fp)
    (hst : Stops tail) :
    readDecimal (ip ++ '.' :: (fp ++ tail)) =
      (readExp tail).map fun ex => ((D ip : ℚ) + (D fp : ℚ) * pow10 (-(fp.length : ℤ))) * pow10 ex := by
  unfold readDecimal
  rw [splitSign_of_allDigits hne h _]
  simp only
  rw [readDigits_run ip _ h (stops_cons (by decide))]
  have hl : ip.length ≠ 0 := by intro h0; exact hne (List.length_eq_zero_iff.mp h0)
  simp only [hl, if_false]
  rw [readDigits_run fp tail hf hst]
  simp [applySign, D]

/-! ### the three layouts read back to `digits · 10^(e - len + 1)` -/

theorem dec_alg (A B : ℚ) (L : ℕ) (e : ℤ) :
    (A + B * (10:ℚ) ^ (-(L : ℤ))) * (10:ℚ) ^ e = (A * (10:ℚ) ^ L + B) * (10:ℚ) ^ (e - (L : ℤ)) := by
  have h10 : (10:ℚ) ≠ 0 := by norm_num
  rw [zpow_sub₀ h10, zpow_neg, zpow_natCast]
  field_simp

theorem D_singleton_append (d : Char) (rest : Text) : D (d :: rest) = D [d] * 10 ^ rest.length + D rest := by
  have := D_append [d] rest
  rwa [List.singleton_append] at this

theorem readDecimal_layoutExp {ds : Text} (hne : ds ≠ []) (h : AllDigits ds) (e : ℤ) :
    readDecimal (layoutExp ds e) = some ((D ds : ℚ) * (10:ℚ) ^ (e - (ds.length : ℤ) + 1)) := by
  match ds, hne, h with
  | [d], _, h =>
    have : layoutExp [d] e = [d] ++ expText e := rfl
    rw [this, readDecimal_int (by simp) h (stops_expText e) (expText_ne_dot e), readExp_expText]
    simp [pow10_eq]
  | d :: r :: rs, _, h =>
    have : layoutExp (d :: r :: rs) e = [d] ++ '.' :: ((r :: rs) ++ expText e) := rfl
    have h' := allDigits_cons.mp h
    have hd : AllDigits [d] := allDigits_cons.mpr ⟨h'.1, by intro c hc; cases hc⟩
    rw [this, readDecimal_frac (by simp) hd h'.2 (stops_expText e), readExp_expText]
    simp only [Option.map_some, pow10_eq]
    congr 1
    rw [dec_alg, D_singleton_append d (r :: rs)]
    push_cast
    congr 2
    simp only [List.length_cons]; push_cast; ring

theorem readDecimal_layoutFixed {ds : Text} (hne : ds ≠ []) (h : AllDigits ds) (e : ℤ) :
    readDecimal (layoutFixed ds e) = some ((D ds : ℚ) * (10:ℚ) ^ (e - (ds.length : ℤ) + 1)) := by
  unfold layoutFixed
  by_cases he : e ≥ 0
  · simp only [he, if_true]
    by_cases hl : ds.length ≤ e.toNat + 1
    · simp only [hl, if_true]
      have hAll : AllDigits (ds ++ List.replicate (e.toNat + 1 - ds.length) '0') :=
        allDigits_append h (allDigits_replicate_zero _)
      have := readDecimal_int (ip := ds ++ List.replicate (e.toNat + 1 - ds.length) '0') (tail := [])
        (by simp [hne]) hAll stops_nil (by intro r hr; cases hr)
      rw [List.append_nil] at this
      rw [this, readExp_nil]
      simp only [Option.map_some, pow10_eq, zpow_zero, mul_one]
      congr 1
      rw [D_append, D_replicate_zero, List.length_replicate]
      push_cast
      have : e - (ds.length : ℤ) + 1 = ((e.toNat + 1 - ds.length : ℕ) : ℤ) := by omega
      rw [this, zpow_natCast]; ring
    · simp only [hl, if_false]
      have hlt : e.toNat + 1 < ds.length := by omega
      have htake : ds.take (e.toNat + 1) ≠ [] := by
        intro h0
        have := congrArg List.length h0
        rw [List.length_take, List.length_nil] at this; omega
      have hAt : AllDigits (ds.take (e.toNat + 1)) := fun c hc => h c (List.mem_of_mem_take hc)
      have hAd : AllDigits (ds.drop (e.toNat + 1)) := fun c hc => h c (List.mem_of_mem_drop hc)
      have := readDecimal_frac (ip := ds.take (e.toNat + 1)) (fp := ds.drop (e.toNat + 1)) (tail := [])
        htake hAt hAd stops_nil
      rw [List.append_nil] at this
      rw [this, readExp_nil]
      simp only [Option.map_some, pow10_eq]
      congr 1
      rw [dec_alg]
      have hsplit : D ds = D (ds.take (e.toNat + 1)) * 10 ^ (ds.drop (e.toNat + 1)).length + D (ds.drop (e.toNat + 1)) := by
        rw [← D_append, List.take_append_drop]
      rw [hsplit]
      push_cast
      congr 2
      rw [List.length_drop]
      omega
  · simp only [he, if_false]
    have hAll : AllDigits (List.replicate ((-e).toNat - 1) '0' ++ ds) :=
      allDigits_append (allDigits_replicate_zero _) h
    have hz : AllDigits ['0'] := allDigits_cons.mpr ⟨by decide, by intro c hc; cases hc⟩
    have := readDecimal_frac (ip := ['0']) (fp := List.replicate ((-e).toNat - 1) '0' ++ ds) (tail := [])
      (by simp) hz hAll stops_nil
    rw [List.append_nil] at this
    have e1 : '0' :: '.' :: (List.replicate ((-e).toNat - 1) '0' ++ ds)
        = ['0'] ++ '.' :: (List.replicate ((-e).toNat - 1) '0' ++ ds) := rfl
    rw [e1, this, readExp_nil]
    simp only [Option.map_some, pow10_eq]
    congr 1
    rw [dec_alg, D_append, D_replicate_zero]
    have : D ['0'] = 0 := by decide
    rw [this]
    push_cast
    simp only [zero_mul, zero_add]
    congr 2
    rw [List.length_append, List.length_replicate]
    omega

theorem readDecimal_layoutG (P : ℕ) {ds : Text} (hne : ds ≠ []) (h : AllDigits ds) (e : ℤ) :
    readDecimal (layoutG P ds e) = some ((D ds : ℚ) * (10:ℚ) ^ (e - (ds.length : ℤ) + 1)) := by
  unfold layoutG
  split
  · exact readDecimal_layoutExp hne h e
  · exact readDecimal_layoutFixed hne h e

/-! ### `fmtPos`, `fmtRat` -/

theorem fmtPos_eq (P : ℕ) (a : ℚ) :
    fmtPos P a = layoutG P (stripZeros (natText (sigDigits P a).1)) (sigDigits P a).2 := rfl

/-- the digits shown for `a > 0`: non-empty, at most `P`, and worth the mantissa -/
theorem shown_digits {P : ℕ} (hP : 1 ≤ P) {a : ℚ} (ha : 0 < a) :
    let ds := stripZeros (natText (sigDigits P a).1)
    ds ≠ [] ∧ AllDigits ds ∧ ds.length ≤ P ∧ (sigDigits P a).1 = D ds * 10 ^ (P - ds.length) := by
  obtain ⟨h1, h2, _, _⟩ := sigDigits_spec hP ha
  set m := (sigDigits P a).1 with hm
  have hlen : (natText m).length = P := natText_length_eq hP h1 h2
  obtain ⟨s1, s2, s3⟩ := stripZeros_spec (natText m)
  have mpos : 0 < m := lt_of_lt_of_le (by positivity) h1
  refine ⟨stripZeros_ne_nil (by rw [D_natText]; omega), s3 (allDigits_natText m), by omega, ?_⟩
  rw [D_natText, hlen] at s2; exact s2

theorem fmtPos_reads {P : ℕ} (hP : 1 ≤ P) {a : ℚ} (ha : 0 < a) :
    readDecimal (fmtPos P a) =
      some (((sigDigits P a).1 : ℚ) * (10:ℚ) ^ ((sigDigits P a).2 - (P : ℤ) + 1)) := by
  obtain ⟨hne, hall, hlen, hval⟩ := shown_digits hP ha
  rw [fmtPos_eq, readDecimal_layoutG P hne hall]
  congr 1
  set ds := stripZeros (natText (sigDigits P a).1) with hds
  rw [hval]
  push_cast
  have h10 : (10:ℚ) ≠ 0 := by norm_num
  rw [mul_assoc, ← zpow_natCast, ← zpow_add₀ h10]
  congr 2
  omega

theorem layoutG_head (P : ℕ) {ds : Text} (hne : ds ≠ []) (h : AllDigits ds) (e : ℤ) :
    ∃ c r, layoutG P ds e = c :: r ∧ c.isDigit = true := by
  obtain ⟨d, rest, rfl⟩ := List.exists_cons_of_ne_nil hne
  have hd := (allDigits_cons.mp h).1
  unfold layoutG
  split
  · cases rest with
    | nil => exact ⟨d, _, rfl, hd⟩
    | cons r rs => exact ⟨d, _, rfl, hd⟩
  · unfold layoutFixed
    split
    · simp only []
      by_cases hl : (d :: rest).length ≤ e.toNat + 1
      · rw [if_pos hl]; exact ⟨d, _, rfl, hd⟩
      · rw [if_neg hl]
        refine ⟨d, List.take e.toNat rest ++ '.' :: List.drop (e.toNat + 1) (d :: rest), ?_, hd⟩
        rw [List.take_succ_cons]; rfl
    · exact ⟨'0', _, rfl, by decide⟩

theorem readDecimal_minus {t : Text} (hs : splitSign t = (false, t)) :
    readDecimal ('-' :: t) = (readDecimal t).map fun x => -x := by
  unfold readDecimal
  rw [splitSign_minus, hs]
  simp only
  generalize readDigits t 0 0 = p
  obtain ⟨ip, k, r1⟩ := p
  simp only
  by_cases hk : k = 0
  · simp [hk]
  · rw [if_neg hk, if_neg hk]
    simp [applySign, Option.map_map, Function.comp_def]

theorem fmtRat_reads {P : ℕ} (hP : 1 ≤ P) {q : ℚ} (hq : q ≠ 0) :
    readDecimal (fmtRat P q) =
      some ((if q < 0 then -1 else 1) *
        (((sigDigits P |q|).1 : ℚ) * (10:ℚ) ^ ((sigDigits P |q|).2 - (P : ℤ) + 1))) := by
  unfold fmtRat
  simp only [hq, if_false]
  by_cases hn : q < 0
  · simp only [hn, if_true]
    have hpos : 0 < -q := by linarith
    obtain ⟨hne, hall, _, _⟩ := shown_digits hP hpos
    obtain ⟨c, r, hc, hdig⟩ := layoutG_head P hne hall (sigDigits P (-q)).2
    have hs : splitSign (fmtPos P (-q)) = (false, fmtPos P (-q)) := by
      rw [fmtPos_eq, hc]; exact splitSign_of_digit hdig
    rw [readDecimal_minus hs, fmtPos_reads hP hpos, abs_of_neg hn]
    simp
  · simp only [hn, if_false]
    have hpos : 0 < q := lt_of_le_of_ne (not_lt.mp hn) (Ne.symm hq)
    rw [fmtPos_reads hP hpos, abs_of_pos hpos]
    simp

/-! ### reading exact numbers back (intervals, quantity magnitudes), re-entry of exact numbers -/

theorem readMixed_fracText (q : ℚ) : readMixed (fracText q) = some q := by
  by_cases hq : q < 0
  · rw [fracText_neg hq]
    have h0 : 0 ≤ -q := by linarith
    rw [readMixed_neg_of_nonneg (splitSign_fracText_nonneg h0) (readMixed_fracText_nonneg h0)]
    simp
  · exact readMixed_fracText_nonneg (not_lt.mp hq)

theorem fracText_intCast (n : ℤ) : fracText (n : ℚ) = intText n := by
  unfold fracText; simp

theorem readMixed_intText (n : ℤ) : readMixed (intText n) = some (n : ℚ) := by
  rw [← fracText_intCast]; exact readMixed_fracText _

theorem readSigned_nat (v : ℕ) (rest : Text) (hr : Stops rest) :
    readSigned (natText v ++ rest) = some (.lit v, rest) := by
  unfold readSigned
  rw [splitSign_natText]
  simp only
  rw [readDigits_natText v rest hr]
  simp [natText_ne_nil]

theorem readSigned_neg (v : ℕ) (rest : Text) (hr : Stops rest) :
    readSigned ('-' :: (natText v ++ rest)) = some (.un .neg (.lit v), rest) := by
  unfold readSigned
  rw [splitSign_minus]
  simp only
  rw [readDigits_natText v rest hr]
  simp [natText_ne_nil]

theorem readSigned_intText (n : ℤ) (rest : Text) (hr : Stops rest) :
    readSigned (intText n ++ rest) =
      some (if n < 0 then .un .neg (.lit n.natAbs) else .lit n.natAbs, rest) := by
  by_cases hn : n < 0
  · rw [intText_neg hn, List.cons_append, readSigned_neg _ _ hr]; simp [hn]
  · rw [intText_nonneg (not_lt.mp hn), readSigned_nat _ _ hr]; simp [hn]

theorem natText_ne_paren (v : ℕ) (rest : Text) : ∀ r, natText v ++ rest ≠ '(' :: r := by
  intro r h
  obtain ⟨c, cs, hc, hd⟩ := natText_eq_cons v
  rw [hc] at h; injection h with h1 _; rw [h1] at hd; revert hd; decide

theorem intText_ne_paren (n : ℤ) : ∀ r, intText n ≠ '(' :: r := by
  intro r h
  by_cases hn : n < 0
  · rw [intText_neg hn] at h; injection h with h1 _; revert h1; decide
  · rw [intText_nonneg (not_lt.mp hn)] at h
    exact natText_ne_paren n.natAbs [] r (by rwa [List.append_nil])

theorem readEntryNum_intText (n : ℤ) :
    readEntryNum (intText n) = some (if n < 0 then .un .neg (.lit n.natAbs) else .lit n.natAbs) := by
  have hs := readSigned_intText n [] stops_nil
  rw [List.append_nil] at hs
  unfold readEntryNum
  split
  · rename_i r heq; exact absurd heq (intText_ne_paren n r)
  · rw [hs]

theorem readEntryNum_bracketed (q : ℚ) (hd : q.den ≠ 1) :
    readEntryNum ('(' :: fracText q ++ [')']) =
      some (.bin .div (if q.num < 0 then .un .neg (.lit q.num.natAbs) else .lit q.num.natAbs) (.lit q.den)) := by
  have hf : fracText q ++ [')'] = intText q.num ++ ('/' :: (natText q.den ++ [')'])) := by
    unfold fracText; simp [hd]
  have hs := readSigned_intText q.num ('/' :: (natText q.den ++ [')'])) (stops_cons (by decide))
  have hdg := readDigits_natText q.den [')'] (stops_cons (by decide))
  show (match readSigned (fracText q ++ [')']) with
     | some (n, '/' :: r2) =>
       let (d, k, rest) := readDigits r2 0 0
       if k = 0 then none
       else (match rest with
         | [')'] => some (AExp.bin .div n (.lit d))
         | _ => none)
     | _ => none) = _
  rw [hf, hs]
  simp only [hdg, natText_length_ne_zero, if_false]

theorem evalA_entry_int (n : ℤ) :
    evalA (if n < 0 then .un .neg (.lit n.natAbs) else .lit n.natAbs) = .ok (.int n) := by
  have : den (if n < 0 then .un .neg (.lit n.natAbs) else .lit n.natAbs) = .val (n : ℚ) := by
    by_cases hn : n < 0
    · simp only [hn, if_true, den, denUn]
      congr 1
      have : ((n.natAbs : ℕ) : ℚ) = -(n : ℚ) := by
        have : ((n.natAbs : ℕ) : ℤ) = -n := by omega
        rw [← Int.cast_natCast, this]; simp
      rw [this]; ring
    · simp only [hn, if_false, den]
      congr 1
      have : ((n.natAbs : ℕ) : ℤ) = n := by omega
      rw [← Int.cast_natCast, this]
  rw [C01_exact _ _ this, canon_intCast]

theorem evalA_entry_frac (q : ℚ) (hd : q.den ≠ 1) :
    evalA (.bin .div (if q.num < 0 then .un .neg (.lit q.num.natAbs) else .lit q.num.natAbs) (.lit q.den))
      = .ok (.frac q) := by
  have hnum : den (if q.num < 0 then AExp.un .neg (.lit q.num.natAbs) else .lit q.num.natAbs) = .val (q.num : ℚ) := by
    by_cases hn : q.num < 0
    · simp only [hn, if_true, den, denUn]
      congr 1
      have : ((q.num.natAbs : ℕ) : ℤ) = -q.num := by omega
      rw [← Int.cast_natCast, this]; simp
    · simp only [hn, if_false, den]
      congr 1
      have : ((q.num.natAbs : ℕ) : ℤ) = q.num := by omega
      rw [← Int.cast_natCast, this]
  have hden : den (.bin .div (if q.num < 0 then .un .neg (.lit q.num.natAbs) else .lit q.num.natAbs) (.lit q.den))
      = .val q := by
    simp only [den, hnum, denBin]
    have : ((q.den : ℕ) : ℚ) ≠ 0 := by exact_mod_cast q.den_nz
    simp only [this, if_false]
    congr 1
    exact Rat.num_div_den q
  rw [C01_exact _ _ hden]
  simp [Num.canon, hd]

/-! ### element-wise structure of arrays -/

theorem stringifyList_spec (names : List Text) (N : Int) (b : Bool) (xs : List DVal) (ts : List Text)
    (h : stringifyList names N b xs = .ok ts) :
    ts.length = xs.length ∧ ∀ i (hi : i < xs.length) (hj : i < ts.length), stringify names N b xs[i] = .ok ts[i] := by
  induction xs generalizing ts with
  | nil =>
    simp only [stringifyList, Except.ok.injEq] at h; subst h
    exact ⟨rfl, fun i hi => absurd hi (by simp)⟩
  | cons x xs ih =>
    rw [stringifyList] at h
    cases hx : stringify names N b x with
    | error e => rw [hx] at h; simp [bind, Except.bind] at h
    | ok t =>
      cases hxs : stringifyList names N b xs with
      | error e => rw [hx, hxs] at h; simp [bind, Except.bind] at h
      | ok ts' =>
        rw [hx, hxs] at h
        simp only [bind, Except.bind, Except.ok.injEq] at h
        subst h
        obtain ⟨l, hel⟩ := ih ts' hxs
        refine ⟨by simp [l], ?_⟩
        intro i hi hj
        cases i with
        | zero => simpa using hx
        | succ j => simpa using hel j (by simpa using hi) (by simpa using hj)

/-! ### unit text reads back to the dimension vector -/

/-- base-unit names: non-empty words of letters -/
def GoodNames (names : List Text) : Prop := ∀ nm ∈ names, nm ≠ [] ∧ ∀ c ∈ nm, c.isAlpha = true

/-- a text that is empty or starts with something that is not a letter -/
def StopsAlpha (t : Text) : Prop := ∀ c r, t = c :: r → c.isAlpha = false

theorem takeWhile_word {nm rest : Text} (h : ∀ c ∈ nm, c.isAlpha = true) (hr : StopsAlpha rest) :
    (nm ++ rest).takeWhile Char.isAlpha = nm ∧ (nm ++ rest).dropWhile Char.isAlpha = rest := by
  rw [List.takeWhile_append_of_pos h, List.dropWhile_append_of_pos h]
  cases rest with
  | nil => simp
  | cons c r =>
    have := hr c r rfl
    simp [this]

theorem unitParts_cons (nm : Text) (nms : List Text) (e : ℤ) (es : List ℤ) :
    unitParts (nm :: nms) (e :: es) =
      if e = 0 then unitParts nms es
      else (if e = 1 then nm else nm ++ '^' :: intText e) :: unitParts nms es := by
  unfold unitParts
  simp only [List.zip_cons_cons, List.filterMap_cons]
  by_cases h : e = 0 <;> simp [h]

theorem unitParts_nil_left (dim : List ℤ) : unitParts [] dim = [] := by
  unfold unitParts; simp

theorem unitParts_nil_right (names : List Text) : unitParts names [] = [] := by
  unfold unitParts; simp

/-- every shown part starts with its (non-empty, alphabetic) unit name, which is one of `names` -/
theorem unitParts_head {names : List Text} (hg : GoodNames names) (dim : List ℤ) :
    ∀ p ∈ unitParts names dim, ∃ nm ∈ names, ∃ tail, p = nm ++ tail ∧ StopsAlpha tail := by
  induction names generalizing dim with
  | nil => intro p hp; rw [unitParts_nil_left] at hp; cases hp
  | cons nm nms ih =>
    cases dim with
    | nil => intro p hp; rw [unitParts_nil_right] at hp; cases hp
    | cons e es =>
      have hg' : GoodNames nms := fun n hn => hg n (List.mem_cons_of_mem _ hn)
      intro p hp
      rw [unitParts_cons] at hp
      by_cases he : e = 0
      · rw [if_pos he] at hp
        obtain ⟨n, hn, tl, h1, h2⟩ := ih hg' es p hp
        exact ⟨n, List.mem_cons_of_mem _ hn, tl, h1, h2⟩
      · rw [if_neg he] at hp
        rcases List.mem_cons.mp hp with rfl | hp'
        · refine ⟨nm, List.mem_cons_self .., ?_⟩
          by_cases h1 : e = 1
          · exact ⟨[], by simp [h1], by intro c r h; cases h⟩
          · refine ⟨'^' :: intText e, by simp [h1], ?_⟩
            intro c r h; injection h with hc _; rw [← hc]; decide
        · obtain ⟨n, hn, tl, h1, h2⟩ := ih hg' es p hp'
          exact ⟨n, List.mem_cons_of_mem _ hn, tl, h1, h2⟩

theorem joinWith_cons_cons (sep t u : Text) (ts : List Text) :
    joinWith sep (t :: u :: ts) = t ++ sep ++ joinWith sep (u :: ts) := rfl

/-- the joined unit text is empty, or starts with one of the names as a whole word -/
theorem joined_head {names : List Text} (ps : List Text)
    (hps : ∀ p ∈ ps, ∃ nm ∈ names, ∃ tail, p = nm ++ tail ∧ StopsAlpha tail) :
    (ps = [] ∧ joinWith [' '] ps = []) ∨
    (∃ nm ∈ names, ∃ tail, joinWith [' '] ps = nm ++ tail ∧ StopsAlpha tail ∧ ps ≠ []) := by
  cases ps with
  | nil => exact Or.inl ⟨rfl, rfl⟩
  | cons p ps =>
    right
    obtain ⟨nm, hn, tl, h1, h2⟩ := hps p (List.mem_cons_self ..)
    cases ps with
    | nil => exact ⟨nm, hn, tl, by simpa [joinWith] using h1, h2, by simp⟩
    | cons u us =>
      refine ⟨nm, hn, tl ++ [' '] ++ joinWith [' '] (u :: us), ?_, ?_, by simp⟩
      · rw [joinWith_cons_cons, h1]; simp
      · intro c r h
        cases tl with
        | nil => simp at h; rw [← h.1]; decide
        | cons c' r' => simp at h; rw [← h.1]; exact h2 c' r' rfl

theorem prettified_cons_ne (nm : Text) (nms : List Text) {e : ℤ} (es : List ℤ) (he : e ≠ 0) :
    prettified (nm :: nms) (e :: es) =
      joinWith [' '] ((if e = 1 then nm else nm ++ '^' :: intText e) :: unitParts nms es) := by
  unfold prettified; rw [unitParts_cons, if_neg he]

theorem prettified_def (nms : List Text) (es : List ℤ) :
    prettified nms es = joinWith [' '] (unitParts nms es) := rfl

theorem prettified_head {names : List Text} (hg : GoodNames names) (dim : List ℤ) :
    (unitParts names dim = [] ∧ prettified names dim = []) ∨
    (∃ nm ∈ names, ∃ tail, prettified names dim = nm ++ tail ∧ StopsAlpha tail ∧ unitParts names dim ≠ []) :=
  joined_head _ (unitParts_head hg dim)

theorem readIntPrefix_intText (e : ℤ) (rest : Text) (hr : Stops rest) :
    readIntPrefix (intText e ++ rest) = some (e, rest) := by
  unfold readIntPrefix
  by_cases hn : e < 0
  · rw [intText_neg hn, List.cons_append, splitSign_minus]
    simp only
    rw [readDigits_natText _ rest hr]
    simp only [natText_length_ne_zero, if_false, if_true]
    congr 2; omega
  · rw [intText_nonneg (not_lt.mp hn), splitSign_natText]
    simp only
    rw [readDigits_natText _ rest hr]
    simp only [natText_length_ne_zero, if_false, Bool.false_eq_true]
    congr 2; omega

theorem readDim_prettified (names : List Text) (hg : GoodNames names) (hnd : names.Nodup)
    (dim : List ℤ) (hlen : dim.length = names.length) :
    readDim names (prettified names dim) = some dim := by
  induction names generalizing dim with
  | nil =>
    cases dim with
    | nil => rfl
    | cons e es => simp at hlen
  | cons nm nms ih =>
    cases dim with
    | nil => simp at hlen
    | cons e es =>
      have hg' : GoodNames nms := fun n hn => hg n (List.mem_cons_of_mem _ hn)
      have hnd' : nms.Nodup := (List.nodup_cons.mp hnd).2
      have hnotin : nm ∉ nms := (List.nodup_cons.mp hnd).1
      have hlen' : es.length = nms.length := by simpa using hlen
      have IH := ih hg' hnd' es hlen'
      have hnm := hg nm (List.mem_cons_self ..)
      have hU := prettified_head hg' es
      by_cases he : e = 0
      · -- the unit is absent: the text is the text of the rest
        have hp : prettified (nm :: nms) (e :: es) = prettified nms es := by
          unfold prettified; rw [unitParts_cons, if_pos he]
        rw [hp]
        have hw : ¬ ((prettified nms es).takeWhile Char.isAlpha = nm ∧
            (prettified nms es).takeWhile Char.isAlpha ≠ []) := by
          rintro ⟨h1, h2⟩
          rcases hU with ⟨_, h0⟩ | ⟨n, hn, tl, h3, h4, _⟩
          · rw [h0] at h2; simp at h2
          · rw [h3, (takeWhile_word (hg' n hn).2 h4).1] at h1
            exact hnotin (h1 ▸ hn)
        unfold readDim
        simp only [hw, if_false, IH, Option.map_some, he]
      · -- the unit is shown
        -- the text after the item: nothing, or a space and the (non-empty) rest
        have hsplit : ∃ tail, prettified (nm :: nms) (e :: es) =
              (if e = 1 then nm else nm ++ '^' :: intText e) ++ tail ∧
            ((tail = [] ∧ prettified nms es = []) ∨
             (∃ c cs, tail = ' ' :: c :: cs ∧ prettified nms es = c :: cs)) := by
          rw [prettified_cons_ne nm nms es he]
          rcases hU with ⟨h0, h1⟩ | ⟨n, hn, tl, h3, h4, h5⟩
          · refine ⟨[], ?_, Or.inl ⟨rfl, h1⟩⟩
            rw [h0]; simp [joinWith]
          · obtain ⟨u, us, hus⟩ := List.exists_cons_of_ne_nil h5
            have hne : n ≠ [] := (hg' n hn).1
            obtain ⟨c, cs, hc⟩ := List.exists_cons_of_ne_nil hne
            refine ⟨' ' :: prettified nms es, ?_, Or.inr ⟨c, cs ++ tl, ?_, ?_⟩⟩
            · rw [hus, joinWith_cons_cons, prettified_def, hus]; simp
            · rw [h3, hc]; simp
            · rw [h3, hc]; simp
        obtain ⟨tail, htext, htail⟩ := hsplit
        have hstop : Stops tail := by
          rcases htail with ⟨h, _⟩ | ⟨c, cs, h, _⟩
          · rw [h]; exact stops_nil
          · rw [h]; exact stops_cons (by decide)
        have hstopA : StopsAlpha tail := by
          rcases htail with ⟨h, _⟩ | ⟨c, cs, h, _⟩
          · rw [h]; intro c r hh; cases hh
          · rw [h]; intro c' r hh; injection hh with h1 _; rw [← h1]; decide
        -- what follows the name
        have hword : (prettified (nm :: nms) (e :: es)).takeWhile Char.isAlpha = nm ∧
            (prettified (nm :: nms) (e :: es)).dropWhile Char.isAlpha =
              (if e = 1 then tail else '^' :: (intText e ++ tail)) := by
          rw [htext]
          by_cases h1 : e = 1
          · simp only [h1, if_true]
            exact takeWhile_word hnm.2 hstopA
          · simp only [h1, if_false]
            have : nm ++ '^' :: intText e ++ tail = nm ++ ('^' :: (intText e ++ tail)) := by simp
            rw [this]
            exact takeWhile_word hnm.2 (by intro c r hh; injection hh with h2 _; rw [← h2]; decide)
        have hcont : skipSpace tail = some (prettified nms es) := by
          rcases htail with ⟨h, h0⟩ | ⟨c, cs, h, h0⟩
          · rw [h, h0]; rfl
          · rw [h, h0]; rfl
        unfold readDim
        simp only [hword.1, hword.2, hnm.1, ne_eq, not_false_eq_true, and_self, if_true]
        by_cases h1 : e = 1
        · simp only [h1, if_true]
          have hnc : ∀ r', tail ≠ '^' :: r' := by
            intro r' hh
            rcases htail with ⟨h, _⟩ | ⟨c, cs, h, _⟩
            · rw [h] at hh; cases hh
            · rw [h] at hh; injection hh with h2 _; revert h2; decide
          have : readUnitExp tail = some (1, tail) := by
            unfold readUnitExp
            split
            · exact absurd rfl (hnc _)
            · rfl
          rw [this]
          simp only [one_ne_zero, if_false, hcont, IH, Option.map_some]
        · have : readUnitExp ('^' :: (intText e ++ tail)) = some (e, tail) := by
            show readIntPrefix (intText e ++ tail) = some (e, tail)
            exact readIntPrefix_intText e tail hstop
          simp only [h1, if_false, this, he, hcont, IH, Option.map_some]

/-! ### at most `P` significant digits are shown -/

/-- the digit characters of the mantissa part (before any `e`) -/
def mantissaDigits (t : Text) : Text := (t.takeWhile (· ≠ 'e')).filter Char.isDigit

theorem sigCount_eq (t : Text) : sigCount t = ((mantissaDigits t).dropWhile (· = '0')).length := rfl

theorem mantissaDigits_nil : mantissaDigits [] = [] := rfl

theorem mantissaDigits_e (r : Text) : mantissaDigits ('e' :: r) = [] := by
  simp [mantissaDigits]

theorem mantissaDigits_append {a : Text} (b : Text) (h : ∀ c ∈ a, c ≠ 'e') :
    mantissaDigits (a ++ b) = a.filter Char.isDigit ++ mantissaDigits b := by
  unfold mantissaDigits
  rw [List.takeWhile_append_of_pos (by intro c hc; simpa using h c hc), List.filter_append]

theorem filter_allDigits {ds : Text} (h : AllDigits ds) : ds.filter Char.isDigit = ds :=
  List.filter_eq_self.mpr h

theorem allDigits_ne_e {ds : Text} (h : AllDigits ds) : ∀ c ∈ ds, c ≠ 'e' := by
  intro c hc he; have := h c hc; rw [he] at this; revert this; decide

theorem mantissaDigits_digits {ds : Text} (h : AllDigits ds) (b : Text) :
    mantissaDigits (ds ++ b) = ds ++ mantissaDigits b := by
  rw [mantissaDigits_append b (allDigits_ne_e h), filter_allDigits h]

theorem mantissaDigits_dot (b : Text) : mantissaDigits ('.' :: b) = mantissaDigits b := by
  have := mantissaDigits_append (a := ['.']) b (by intro c hc; rw [List.mem_singleton.mp hc]; decide)
  simpa using this

theorem mantissaDigits_minus (b : Text) : mantissaDigits ('-' :: b) = mantissaDigits b := by
  have := mantissaDigits_append (a := ['-']) b (by intro c hc; rw [List.mem_singleton.mp hc]; decide)
  simpa using this

theorem mantissaDigits_expText (e : ℤ) : mantissaDigits (expText e) = [] := mantissaDigits_e _

theorem dropWhile_length_le (p : Char → Bool) (l : Text) : (l.dropWhile p).length ≤ l.length := by
  induction l with
  | nil => simp
  | cons c cs ih =>
    rw [List.dropWhile_cons]; split
    · simp; omega
    · simp

theorem dropWhile_zero_replicate (n : ℕ) (l : Text) :
    (List.replicate n '0' ++ l).dropWhile (· = '0') = l.dropWhile (· = '0') := by
  induction n with
  | zero => simp
  | succ n ih => simp [List.replicate_succ, ih]

theorem sigCount_layoutG {P : ℕ} {ds : Text} (hne : ds ≠ []) (h : AllDigits ds) (hlen : ds.length ≤ P) (e : ℤ) :
    sigCount (layoutG P ds e) ≤ P := by
  rw [sigCount_eq]
  unfold layoutG
  split
  · -- exponent notation
    refine le_trans (dropWhile_length_le _ _) ?_
    match ds, hne, h, hlen with
    | [d], _, h, hlen =>
      have : layoutExp [d] e = [d] ++ expText e := rfl
      rw [this, mantissaDigits_digits h, mantissaDigits_expText]; simpa using hlen
    | d :: r :: rs, _, h, hlen =>
      have : layoutExp (d :: r :: rs) e = [d] ++ '.' :: ((r :: rs) ++ expText e) := rfl
      have h' := allDigits_cons.mp h
      have hd : AllDigits [d] := allDigits_cons.mpr ⟨h'.1, by intro c hc; cases hc⟩
      rw [this, mantissaDigits_digits hd, mantissaDigits_dot, mantissaDigits_digits h'.2, mantissaDigits_expText]
      simpa using hlen
  · rename_i hcond
    have hcond' : ¬ e < -4 ∧ ¬ e ≥ (P : ℤ) := not_or.mp hcond
    unfold layoutFixed
    by_cases he : e ≥ 0
    · simp only [he, if_true]
      by_cases hl : ds.length ≤ e.toNat + 1
      · simp only [hl, if_true]
        refine le_trans (dropWhile_length_le _ _) ?_
        have hAll : AllDigits (ds ++ List.replicate (e.toNat + 1 - ds.length) '0') :=
          allDigits_append h (allDigits_replicate_zero _)
        have := mantissaDigits_digits hAll []
        rw [List.append_nil, mantissaDigits_nil, List.append_nil] at this
        rw [this, List.length_append, List.length_replicate]
        omega
      · simp only [hl, if_false]
        refine le_trans (dropWhile_length_le _ _) ?_
        have hAt : AllDigits (ds.take (e.toNat + 1)) := fun c hc => h c (List.mem_of_mem_take hc)
        have hAd : AllDigits (ds.drop (e.toNat + 1)) := fun c hc => h c (List.mem_of_mem_drop hc)
        have hd := mantissaDigits_digits hAd []
        rw [List.append_nil, mantissaDigits_nil, List.append_nil] at hd
        rw [mantissaDigits_digits hAt, mantissaDigits_dot, hd, List.take_append_drop]
        exact hlen
    · simp only [he, if_false]
      have hAll : AllDigits (List.replicate ((-e).toNat - 1) '0' ++ ds) :=
        allDigits_append (allDigits_replicate_zero _) h
      have hz : AllDigits ['0'] := allDigits_cons.mpr ⟨by decide, by intro c hc; cases hc⟩
      have hd := mantissaDigits_digits hAll []
      rw [List.append_nil, mantissaDigits_nil, List.append_nil] at hd
      have e1 : '0' :: '.' :: (List.replicate ((-e).toNat - 1) '0' ++ ds)
          = ['0'] ++ '.' :: (List.replicate ((-e).toNat - 1) '0' ++ ds) := rfl
      rw [e1, mantissaDigits_digits hz, mantissaDigits_dot, hd]
      have : (['0'] ++ (List.replicate ((-e).toNat - 1) '0' ++ ds)) =
          List.replicate ((-e).toNat - 1 + 1) '0' ++ ds := by
        rw [List.replicate_succ]; simp
      rw [this, dropWhile_zero_replicate]
      exact le_trans (dropWhile_length_le _ _) hlen

theorem sigCount_fmtRat {P : ℕ} (hP : 1 ≤ P) {q : ℚ} (hq : q ≠ 0) : sigCount (fmtRat P q) ≤ P := by
  unfold fmtRat
  simp only [hq, if_false]
  by_cases hn : q < 0
  · simp only [hn, if_true]
    have hpos : 0 < -q := by linarith
    obtain ⟨hne, hall, hlen, _⟩ := shown_digits hP hpos
    rw [sigCount_eq, mantissaDigits_minus, ← sigCount_eq, fmtPos_eq]
    exact sigCount_layoutG hne hall hlen _
  · simp only [hn, if_false]
    have hpos : 0 < q := lt_of_le_of_ne (not_lt.mp hn) (Ne.symm hq)
    obtain ⟨hne, hall, hlen, _⟩ := shown_digits hP hpos
    rw [fmtPos_eq]
    exact sigCount_layoutG hne hall hlen _

end KaVerif.Display
