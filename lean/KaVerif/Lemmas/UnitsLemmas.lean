import KaVerif.Model.Units
import KaVerif.Lemmas.UnitsChecks
import Mathlib.Tactic.Ring
import Mathlib.Tactic.Linarith
import Mathlib.Tactic.FieldSimp
import Mathlib.Algebra.Order.Field.Basic
import Mathlib.Data.Rat.Defs
/-
  Helper lemmas for C13: the string primitives, the prefix loop of `lookup_unit`
  (soundness and completeness w.r.t. "readings" of a spelling), exactness of `apply_prefix`,
  and the bridge from the integer cross-multiplication checks that the kernel decides over the
  generated table to statements about rational numbers.
-/
namespace KaVerif.Units

/-! ### string primitives -/

theorem eqCp_iff (a b : List Nat) : eqCp a b = true ↔ a = b := by
  induction a generalizing b with
  | nil => cases b <;> simp [eqCp]
  | cons x xs ih =>
    cases b with
    | nil => simp [eqCp]
    | cons y ys => simp [eqCp, ih]

theorem eqCp_refl (a : List Nat) : eqCp a a = true := (eqCp_iff a a).2 rfl

theorem stripPrefix_iff (p n r : List Nat) : stripPrefix p n = some r ↔ n = p ++ r := by
  induction p generalizing n with
  | nil => simp [stripPrefix, eq_comm]
  | cons a p ih =>
    cases n with
    | nil => simp [stripPrefix]
    | cons b n =>
      simp only [stripPrefix, List.cons_append, List.cons.injEq]
      by_cases h : Nat.beq a b = true
      · have hab : a = b := Nat.eq_of_beq_eq_true h
        simp [ih, hab]
      · have hab : ¬ a = b := fun e => h (by subst e; exact Nat.beq_refl a)
        have hba : ¬ b = a := fun e => hab e.symm
        simp [h, hba]

theorem stripPrefix_append (p r : List Nat) : stripPrefix p (p ++ r) = some r :=
  (stripPrefix_iff p (p ++ r) r).2 rfl

theorem assoc_mem {m : List (List Nat × Nat)} {k : List Nat} {v : Nat} (h : assoc m k = some v) : (k, v) ∈ m := by
  induction m with
  | nil => simp [assoc] at h
  | cons e rest ih =>
    obtain ⟨k', v'⟩ := e
    simp only [assoc] at h
    by_cases hk : eqCp k' k = true
    · rw [if_pos hk] at h
      have := (eqCp_iff k' k).1 hk
      simp only [Option.some.injEq] at h
      subst this; subst h
      exact List.mem_cons_self
    · rw [if_neg hk] at h
      exact List.mem_cons_of_mem _ (ih h)

/-- a key that occurs in the association list is found (dict membership) -/
theorem assoc_isSome_of_mem {m : List (List Nat × Nat)} {k : List Nat} {v : Nat} (h : (k, v) ∈ m) : (assoc m k).isSome = true := by
  induction m with
  | nil => simp at h
  | cons e rest ih =>
    obtain ⟨k', v'⟩ := e
    simp only [assoc]
    by_cases hk : eqCp k' k = true
    · simp [hk]
    · rw [if_neg hk]
      rcases List.mem_cons.1 h with h | h
      · exfalso; apply hk; simp only [Prod.mk.injEq] at h; rw [h.1]; exact eqCp_refl _
      · exact ih h

theorem strip_bind_iff (m : List (List Nat × Nat)) (p w : List Nat) (i : Nat) :
    (stripPrefix p w).bind (assoc m) = some i ↔ ∃ n, w = p ++ n ∧ assoc m n = some i := by
  constructor
  · intro h
    cases hs : stripPrefix p w with
    | none => simp [hs] at h
    | some r =>
      rw [hs] at h
      exact ⟨r, (stripPrefix_iff p w r).1 hs, h⟩
  · rintro ⟨n, rfl, hn⟩
    simp [stripPrefix_append, hn]

/-! ### readings of a spelling and the prefix loop -/

/-- `Reading names symbols ps w p i`: the spelling `w` can be read as prefix `p` (one of `ps`) applied to
    the unit with index `i` — by name (`p.name ++ n`, `n` a registered name of `i`) or by symbol
    (`p.sym ++ s`, `s` the registered symbol of `i`). -/
inductive Reading (names symbols : List (List Nat × Nat)) (ps : List PrefixRec) (w : List Nat) (p : PrefixRec) (i : Nat) : Prop
  | byName (n : List Nat) (hp : p ∈ ps) (hw : w = p.name ++ n) (hn : assoc names n = some i)
  | bySymbol (s : List Nat) (hp : p ∈ ps) (hw : w = p.sym ++ s) (hs : assoc symbols s = some i)

theorem Reading.mono {names symbols ps w p i} (q : PrefixRec) (h : Reading names symbols ps w p i) :
    Reading names symbols (q :: ps) w p i := by
  cases h with
  | byName n hp hw hn => exact .byName n (List.mem_cons_of_mem _ hp) hw hn
  | bySymbol s hp hw hs => exact .bySymbol s (List.mem_cons_of_mem _ hp) hw hs

/-- whatever the loop returns is a reading, and it always carries a prefix -/
theorem prefixLoop_sound (names symbols : List (List Nat × Nat)) (w : List Nat) (ps : List PrefixRec) (h : Hit)
    (hl : prefixLoop names symbols w ps = some h) : ∃ p, h.pre = some p ∧ Reading names symbols ps w p h.idx := by
  induction ps with
  | nil => simp [prefixLoop] at hl
  | cons q ps ih =>
    simp only [prefixLoop] at hl
    cases h1 : (stripPrefix q.name w).bind (assoc names) with
    | some i =>
      rw [h1] at hl
      simp only [Option.some.injEq] at hl
      subst hl
      obtain ⟨n, hw, hn⟩ := (strip_bind_iff names q.name w i).1 h1
      exact ⟨q, rfl, .byName n List.mem_cons_self hw hn⟩
    | none =>
      rw [h1] at hl
      cases h2 : (stripPrefix q.sym w).bind (assoc symbols) with
      | some i =>
        rw [h2] at hl
        simp only [Option.some.injEq] at hl
        subst hl
        obtain ⟨s, hw, hs⟩ := (strip_bind_iff symbols q.sym w i).1 h2
        exact ⟨q, rfl, .bySymbol s List.mem_cons_self hw hs⟩
      | none =>
        rw [h2] at hl
        obtain ⟨p, hp, hr⟩ := ih hl
        exact ⟨p, hp, hr.mono q⟩

/-- if the spelling has any reading, the loop finds one -/
theorem prefixLoop_complete (names symbols : List (List Nat × Nat)) (w : List Nat) (ps : List PrefixRec) (p : PrefixRec) (i : Nat)
    (hr : Reading names symbols ps w p i) : (prefixLoop names symbols w ps).isSome = true := by
  induction ps with
  | nil => cases hr with
    | byName n hp _ _ => simp at hp
    | bySymbol s hp _ _ => simp at hp
  | cons q ps ih =>
    simp only [prefixLoop]
    cases h1 : (stripPrefix q.name w).bind (assoc names) with
    | some j => simp
    | none =>
      cases h2 : (stripPrefix q.sym w).bind (assoc symbols) with
      | some j => simp
      | none =>
        simp only
        apply ih
        cases hr with
        | byName n hp hw hn =>
          rcases List.mem_cons.1 hp with rfl | hp
          · exfalso
            have := (strip_bind_iff names p.name w i).2 ⟨n, hw, hn⟩
            rw [h1] at this; cases this
          · exact .byName n hp hw hn
        | bySymbol s hp hw hs =>
          rcases List.mem_cons.1 hp with rfl | hp
          · exfalso
            have := (strip_bind_iff symbols p.sym w i).2 ⟨s, hw, hs⟩
            rw [h2] at this; cases this
          · exact .bySymbol s hp hw hs

/-- two prefixes with the same multiplier (value and Python kind) -/
def PrefixRec.sameMult (p q : PrefixRec) : Prop :=
  p.mulNum = q.mulNum ∧ p.mulDen = q.mulDen ∧ p.mulKind = q.mulKind

theorem applyPrefix_congr (p q : PrefixRec) (h : p.sameMult q) (i : Nat) (u : UnitRec) : applyPrefix p i u = applyPrefix q i u := by
  obtain ⟨h1, h2, h3⟩ := h
  simp [applyPrefix, h1, h2, h3]

/-- the registered unit as `lookup_unit` returns it when no prefix is applied -/
def UnitTable.plain (t : UnitTable) (i : Nat) : Resolved :=
  { idx := i, unit := t.unit i, mulNum := (t.unit i).mulNum, mulDen := (t.unit i).mulDen, mulKind := (t.unit i).mulKind, prefixed := false }

/-! ### rationals -/

theorem mkRat_eq_div' (a : Int) (b : Nat) : mkRat a b = (a : ℚ) / (b : ℚ) := Rat.mkRat_eq_div a b

/-- `prefix.multiplier * unit.multiple`, exactly -/
theorem applyPrefix_multiple (p : PrefixRec) (i : Nat) (u : UnitRec) (r : Resolved) (h : applyPrefix p i u = .ok r) :
    r.multiple = p.mult * u.multiple ∧ r.idx = i ∧ r.unit = u ∧ r.mulKind = mulKindOf p.mulKind u.mulKind := by
  unfold applyPrefix at h
  split at h
  · cases h
  · simp only [Except.ok.injEq] at h
    subst h
    refine ⟨?_, rfl, rfl, rfl⟩
    simp only [Resolved.multiple, PrefixRec.mult, UnitRec.multiple, mkRat_eq_div']
    push_cast
    by_cases hb : (p.mulDen : ℚ) = 0
    · simp [hb]
    by_cases hd : (u.mulDen : ℚ) = 0
    · simp [hd]
    field_simp

theorem closeQ_sound (a : Int) (b c d N : Nat) (h : closeQ a b c d N = true) :
    |mkRat a b - mkRat c d| ≤ mkRat c d / (N : ℚ) := by
  simp only [closeQ, Bool.and_eq_true, decide_eq_true_eq] at h
  obtain ⟨⟨⟨hb, hd⟩, hN⟩, hle⟩ := h
  rw [mkRat_eq_div', mkRat_eq_div']
  have hb' : (0 : ℚ) < b := by exact_mod_cast hb
  have hd' : (0 : ℚ) < d := by exact_mod_cast hd
  have hN' : (0 : ℚ) < N := by exact_mod_cast hN
  have hle' : |(a : ℚ) * d - c * b| * N ≤ c * b := by
    have : (((a * (d : Int) - (c : Int) * (b : Int)).natAbs * N : ℕ) : ℚ) ≤ ((c * b : ℕ) : ℚ) := by exact_mod_cast hle
    push_cast at this
    simpa [Nat.cast_natAbs] using this
  have key : (a : ℚ) / b - ((c : ℤ) : ℚ) / d = ((a : ℚ) * d - c * b) / (b * d) := by
    push_cast
    field_simp
  rw [key, abs_div, abs_of_pos (mul_pos hb' hd'), div_div, div_le_div_iff₀ (mul_pos hb' hd') (mul_pos hd' hN')]
  push_cast
  nlinarith [hle', mul_le_mul_of_nonneg_right hle' hd'.le]

theorem crossEq_sound (a : Int) (b : Nat) (k : Nat) (c : Int) (d : Nat) (hb : 0 < b) (hd : 0 < d)
    (h : a * (d : Int) = (k : Int) * c * (b : Int)) : mkRat a b = (k : ℚ) * mkRat c d := by
  rw [mkRat_eq_div', mkRat_eq_div']
  have hb' : (b : ℚ) ≠ 0 := by exact_mod_cast hb.ne'
  have hd' : (d : ℚ) ≠ 0 := by exact_mod_cast hd.ne'
  have h' : (a : ℚ) * d = k * c * b := by exact_mod_cast h
  field_simp
  linarith

/-! ### all readings of a spelling, computably -/

theorem mem_readings_of_reading {names symbols ps w p i} (h : Reading names symbols ps w p i) :
    (p, i) ∈ readings names symbols w ps := by
  induction ps with
  | nil => cases h with
    | byName n hp _ _ => simp at hp
    | bySymbol s hp _ _ => simp at hp
  | cons q ps ih =>
    simp only [readings, List.mem_append]
    cases h with
    | byName n hp hw hn =>
      rcases List.mem_cons.1 hp with rfl | hp
      · left; left
        have := (strip_bind_iff names p.name w i).2 ⟨n, hw, hn⟩
        simp [this]
      · right; exact ih (.byName n hp hw hn)
    | bySymbol s hp hw hs =>
      rcases List.mem_cons.1 hp with rfl | hp
      · left; right
        have := (strip_bind_iff symbols p.sym w i).2 ⟨s, hw, hs⟩
        simp [this]
      · right; exact ih (.bySymbol s hp hw hs)

theorem reading_of_mem_readings {names symbols ps w p i} (h : (p, i) ∈ readings names symbols w ps) :
    Reading names symbols ps w p i := by
  induction ps with
  | nil => simp [readings] at h
  | cons q ps ih =>
    simp only [readings, List.mem_append, List.mem_map, Option.mem_toList, Prod.mk.injEq] at h
    rcases h with (⟨j, hj, rfl, rfl⟩ | ⟨j, hj, rfl, rfl⟩) | h
    · obtain ⟨n, hw, hn⟩ := (strip_bind_iff names q.name w j).1 hj
      exact .byName n List.mem_cons_self hw hn
    · obtain ⟨s, hw, hs⟩ := (strip_bind_iff symbols q.sym w j).1 hj
      exact .bySymbol s List.mem_cons_self hw hs
    · exact (ih h).mono q

theorem sameMultB_iff (p q : PrefixRec) : sameMultB p q = true ↔ p.sameMult q := by
  simp [sameMultB, PrefixRec.sameMult, and_assoc]

theorem PrefixRec.sameMult_refl (p : PrefixRec) : p.sameMult p := ⟨rfl, rfl, rfl⟩

/-- `uniqueReading` decides the hypotheses of `C13_prefix_unique` -/
theorem uniqueReading_spec (t : UnitTable) (w : List Nat) (p : PrefixRec) (i : Nat) (h : uniqueReading t w = some (p, i)) :
    (assoc t.names w = none ∧ assoc t.symbols w = none) ∧
    Reading t.names t.symbols t.prefixes w p i ∧
    (∀ p' i', Reading t.names t.symbols t.prefixes w p' i' → i' = i ∧ p'.sameMult p) := by
  unfold uniqueReading at h
  split at h
  · cases h
  · rename_i hex
    simp only [Bool.or_eq_true, not_or, Bool.not_eq_true, Option.isSome_eq_false_iff, Option.isNone_iff_eq_none] at hex
    refine ⟨hex, ?_⟩
    split at h
    · cases h
    · rename_i q j rest hrd
      split at h
      · rename_i hall
        simp only [Option.some.injEq, Prod.mk.injEq] at h
        obtain ⟨rfl, rfl⟩ := h
        have hmem : (q, j) ∈ readings t.names t.symbols w t.prefixes := by rw [hrd]; exact List.mem_cons_self
        refine ⟨reading_of_mem_readings hmem, ?_⟩
        intro p' i' hr'
        have hm := mem_readings_of_reading hr'
        rw [hrd] at hm
        rcases List.mem_cons.1 hm with e | hm
        · simp only [Prod.mk.injEq] at e
          obtain ⟨rfl, rfl⟩ := e
          exact ⟨rfl, PrefixRec.sameMult_refl _⟩
        · have := List.all_eq_true.1 hall _ hm
          simp only [Bool.and_eq_true] at this
          exact ⟨Nat.eq_of_beq_eq_true this.1, (sameMultB_iff _ _).1 this.2⟩
      · cases h

theorem closeQ_pos {a : Int} {b c d N : Nat} (h : closeQ a b c d N = true) : 0 < b ∧ 0 < d := by
  simp only [closeQ, Bool.and_eq_true, decide_eq_true_eq] at h
  exact ⟨h.1.1.1, h.1.1.2⟩

theorem mkRat_scale (k : Nat) (c : Int) (d : Nat) (hc : 0 < c) : mkRat ((k * c.toNat : Nat) : Int) d = (k : ℚ) * mkRat c d := by
  rw [mkRat_eq_div', mkRat_eq_div']
  have : ((c.toNat : ℕ) : ℚ) = (c : ℚ) := by exact_mod_cast Int.toNat_of_nonneg hc.le
  push_cast
  rw [this, mul_div_assoc]

/-! ### meaning of the Boolean table checks -/

theorem lookupUnit_of_hitIs (t : UnitTable) (w : List Nat) (i : Nat) (h : hitIs (lookupHit t w) i = true) :
    lookupUnit t w = .ok (some (t.plain i)) := by
  unfold hitIs at h
  split at h
  · rename_i j heq
    have hj : j = i := Nat.eq_of_beq_eq_true h
    subst hj
    simp [lookupUnit, heq, UnitTable.plain]
  · cases h

theorem reachableFrom_spec (t : UnitTable) (k : Nat) (us : List UnitRec) (h : reachableFrom t k us = true)
    (j : Nat) (u : UnitRec) (hu : us[j]? = some u) : reachableAt t (k + j) u = true := by
  induction us generalizing k j with
  | nil => simp at hu
  | cons v vs ih =>
    simp only [reachableFrom, Bool.and_eq_true] at h
    cases j with
    | zero => simp at hu; subst hu; simpa using h.1
    | succ j =>
      simp at hu
      have := ih (k + 1) h.2 j hu
      rwa [show k + (j + 1) = k + 1 + j by omega]

theorem unit_of_getElem? (t : UnitTable) (i : Nat) (u : UnitRec) (h : t.units[i]? = some u) : t.unit i = u := by
  simp [UnitTable.unit, List.getD, h]

/-- `reachableFrom t 0 t.units`: every unit is what `lookup_unit` returns for each of its spellings -/
theorem reachable_sound (t : UnitTable) (h : reachableFrom t 0 t.units = true) (i : Nat) (u : UnitRec) (hu : t.units[i]? = some u) :
    t.unit i = u ∧ lookupUnit t u.symbol = .ok (some (t.plain i)) ∧ lookupUnit t u.singular = .ok (some (t.plain i)) ∧
    (u.hasPlural = true → lookupUnit t u.plural = .ok (some (t.plain i))) := by
  have h1 := reachableFrom_spec t 0 t.units h i u hu
  simp only [Nat.zero_add, reachableAt, Bool.and_eq_true, Bool.or_eq_true, Bool.not_eq_eq_eq_not, Bool.not_true] at h1
  refine ⟨unit_of_getElem? t i u hu, lookupUnit_of_hitIs t _ i h1.1.1, lookupUnit_of_hitIs t _ i h1.1.2, ?_⟩
  intro hp
  rcases h1.2 with h2 | h2
  · rw [hp] at h2; cases h2
  · exact lookupUnit_of_hitIs t _ i h2

theorem sizeOk_sound (u : UnitRec) (r : RefUnit) (h : sizeOk u r = true) : |u.multiple - r.size| ≤ r.size / 100 := by
  have := closeQ_sound _ _ _ _ _ h
  simpa [UnitRec.multiple, RefUnit.size] using this

theorem offOk_sound (u : UnitRec) (r : RefUnit) (h : offOk u r = true) :
    (r.offNum = 0 → u.offNum = 0) ∧ (r.offNum ≠ 0 → |u.offset - r.offset| ≤ r.offset / 1000000000) := by
  unfold offOk at h
  split at h
  · rename_i h0
    refine ⟨fun _ => by simpa using h, fun hne => absurd h0 hne⟩
  · rename_i h0
    refine ⟨fun h1 => absurd h1 h0, fun _ => ?_⟩
    have := closeQ_sound _ _ _ _ _ h
    simpa [UnitRec.offset, RefUnit.offset] using this

theorem dimOk_sound (d r : List Int) (h : dimOk d r = true) : d.take 7 = r ∧ ∀ e ∈ d.drop 7, e = 0 := by
  simp only [dimOk, Bool.and_eq_true, beq_iff_eq, List.all_eq_true] at h
  exact ⟨h.1, h.2⟩

theorem ratioOk_sound (t : UnitTable) (N : Nat) (r : RefRatio) (h : ratioOk t N r = true) :
    ∃ x y, lookupUnit t r.a = .ok (some x) ∧ lookupUnit t r.b = .ok (some y) ∧
      x.unit.dim = y.unit.dim ∧ x.unit.offNum = 0 ∧ y.unit.offNum = 0 ∧
      |x.multiple - r.k * y.multiple| ≤ r.k * y.multiple / N ∧
      (x.mulKind ≠ .float → y.mulKind ≠ .float → x.multiple = r.k * y.multiple) := by
  unfold ratioOk at h
  split at h
  · rename_i x y hx hy
    simp only [Bool.and_eq_true, Bool.or_eq_true, beq_iff_eq, decide_eq_true_eq] at h
    obtain ⟨⟨⟨⟨⟨hdim, hox⟩, hoy⟩, hpos⟩, hclose⟩, hex⟩ := h
    refine ⟨x, y, hx, hy, hdim, hox, hoy, ?_, ?_⟩
    · have := closeQ_sound _ _ _ _ _ hclose
      rw [mkRat_scale _ _ _ hpos] at this
      simpa [Resolved.multiple] using this
    · intro hxf hyf
      rcases hex with (hxf' | hyf') | hcross
      · exact absurd hxf' hxf
      · exact absurd hyf' hyf
      · obtain ⟨hb, hd⟩ := closeQ_pos hclose
        exact crossEq_sound _ _ _ _ _ hb hd hcross
  · cases h

theorem prefixMultOk_sound (p : PrefixRec) (h : prefixMultOk p = true) : p.mult = (p.base : ℚ) ^ p.exp := by
  unfold prefixMultOk at h
  split at h
  · rename_i hpos
    simp only [Bool.and_eq_true, beq_iff_eq] at h
    obtain ⟨⟨h1, h2⟩, _⟩ := h
    have h1 := Nat.eq_of_beq_eq_true h1
    have h2 := Nat.eq_of_beq_eq_true h2
    obtain ⟨n, hn⟩ := Int.eq_ofNat_of_zero_le hpos.le
    rw [PrefixRec.mult, mkRat_eq_div', h1, h2, hn, zpow_natCast]
    simp
  · rename_i hpos
    simp only [Bool.and_eq_true, beq_iff_eq] at h
    obtain ⟨⟨h1, h2⟩, _⟩ := h
    have h1 := Nat.eq_of_beq_eq_true h1
    have h2 := Nat.eq_of_beq_eq_true h2
    obtain ⟨n, hn⟩ := Int.eq_ofNat_of_zero_le (show 0 ≤ -p.exp by omega)
    have he : p.exp = -(n : ℤ) := by omega
    rw [PrefixRec.mult, mkRat_eq_div', h1, h2, he, zpow_neg, zpow_natCast]
    simp

end KaVerif.Units
