import KaVerif.Model.Render
set_option linter.unusedSimpArgs false
/-
  Lemmas for the printer/parser round trip (C02).  No Mathlib needed.

  Plan (DESIGN.md section 11):
  * `stop ℓ rest`: the first token of `rest` cannot extend a phrase of binding level `ℓ`;
  * `lift`: if the parser of a tighter level returns `(t, rest)` and `stop ℓ rest`, so does level `ℓ`;
  * per tree `t` the record `All t`: the text `rNat full t` parses back to `t` at every level
    `ℓ ≤ t.level` (`nat`), and, for the left-associative levels, in "loop continuation" form (`loop`);
  * `all_of_size`: `All t` for every well-formed `t`, by induction on the size of `t`.
-/
namespace KaVerif.Parser

/-! ### token view -/

theorem ofToken_toToken (k : PTok) : PTok.ofToken k.toToken = k := by
  cases k with
  | op o => cases o <;> rfl
  | cmp c => cases c <;> rfl
  | p s => cases s <;> rfl
  | _ => rfl

theorem map_ofToken_toToken (ts : List PTok) : (ts.map PTok.toToken).map PTok.ofToken = ts := by
  induction ts with
  | nil => rfl
  | cons a as ih => simp [ofToken_toToken, ih]

theorem parse_of_parseToks {ts : List PTok} {t : Ast} (h : parseToks ts = .ok t) :
    parse (toTokens ts) = .ok t := by
  unfold parse toTokens; rw [map_ofToken_toToken, h]

/-! ### levels -/

/-- The parser of binding level `ℓ` (0 = expression … 10 = primary). -/
def pL (rec : List PTok → Res Ast) : Nat → List PTok → Res Ast
  | 0 => pExprBody rec
  | 1 => pComparison rec
  | 2 => pSum rec
  | 3 => pProduct rec
  | 4 => pFactor rec
  | 5 => pTerm rec
  | 6 => pRange rec
  | 7 => pQuantity rec
  | 8 => pUnitless rec
  | 9 => pUnsigned rec
  | _ => pUwf rec

/-- The first token of the rest cannot extend a phrase of level `ℓ`. -/
def stop (ℓ : Nat) : List PTok → Bool
  | [] => true
  | .p .rpar :: _ | .p .comma :: _ | .p .semi :: _ | .p .rbrace :: _ | .p .rbrack :: _
  | .p .colon :: _ => true
  | .p .to :: _ => decide (1 ≤ ℓ)
  | .cmp _ :: _ => decide (2 ≤ ℓ)
  | .op o :: _ => decide (o.level + 1 ≤ ℓ)
  | .p .dots :: _ => decide (7 ≤ ℓ)
  | .var _ :: _ => decide (8 ≤ ℓ)
  | .p .bang :: _ => decide (10 ≤ ℓ)
  | _ => false

def headP : List PTok → Bool
  | .num _ :: _ | .var _ :: _ | .p .lpar :: _ => true
  | _ => false

def headU : List PTok → Bool
  | .num _ :: _ | .var _ :: _ | .p .lpar :: _ | .op .add :: _ | .op .sub :: _ => true
  | _ => false

theorem headU_of_headP {ts : List PTok} (h : headP ts = true) : headU ts = true := by
  unfold headP at h
  split at h <;> simp_all [headU]

/-- case analysis on the first token of a list, then `simp_all` with the given lemmas -/
syntax "tok_cases " ident " with " Lean.Parser.Tactic.simpLemma,* : tactic
macro_rules
  | `(tactic| tok_cases $r:ident with $ls,*) =>
    `(tactic| (rcases $r:ident with _ | ⟨tok, tl⟩
               · (try simp_all [$ls,*]) <;> (try omega)
               · cases tok with
                 | op o => cases o <;> (try simp_all [$ls,*]) <;> (try omega)
                 | p s => cases s <;> (try simp_all [$ls,*]) <;> (try omega)
                 | _ => (try simp_all [$ls,*]) <;> (try omega)))

theorem stop_mono {ℓ ℓ' : Nat} {r : List PTok} (h : stop ℓ r = true) (hl : ℓ ≤ ℓ') : stop ℓ' r = true := by
  tok_cases r with stop, PBin.level, isSumOp, isProdOp

theorem stop_bang {ℓ : Nat} {r : List PTok} (h : stop ℓ r = true) (hl : ℓ ≤ 9) : nextIsP .bang r = false := by
  tok_cases r with stop, nextIsP

theorem stop_lpar {ℓ : Nat} {r : List PTok} (h : stop ℓ r = true) : nextIsP .lpar r = false := by
  tok_cases r with stop, nextIsP

theorem stop_var {ℓ : Nat} {r : List PTok} (h : stop ℓ r = true) (hl : ℓ ≤ 7) : nextVar r = false := by
  tok_cases r with stop, nextVar

theorem stop_dots {ℓ : Nat} {r : List PTok} (h : stop ℓ r = true) (hl : ℓ ≤ 6) : nextIsP .dots r = false := by
  tok_cases r with stop, nextIsP

theorem stop_to {r : List PTok} (h : stop 0 r = true) : nextIsP .to r = false := by
  tok_cases r with stop, nextIsP

theorem stop_cmp {ℓ : Nat} {r : List PTok} (h : stop ℓ r = true) (hl : ℓ ≤ 1) : nextCmp r = none := by
  tok_cases r with stop, nextCmp

theorem stop_pow {ℓ : Nat} {r : List PTok} (h : stop ℓ r = true) (hl : ℓ ≤ 4) : nextOp isPowOp r = none := by
  tok_cases r with stop, nextOp, isPowOp, PBin.level, isSumOp, isProdOp

theorem stop_prod {ℓ : Nat} {r : List PTok} (h : stop ℓ r = true) (hl : ℓ ≤ 3) : nextOp isProdOp r = none := by
  tok_cases r with stop, nextOp, isPowOp, PBin.level, isSumOp, isProdOp

theorem stop_sum {ℓ : Nat} {r : List PTok} (h : stop ℓ r = true) (hl : ℓ ≤ 2) : nextOp isSumOp r = none := by
  tok_cases r with stop, nextOp, isPowOp, PBin.level, isSumOp, isProdOp

/-! ### fall-through: a tighter level's result is the looser level's result -/

theorem binLoop_exit (operand : List PTok → Res Ast) (f : PBin → Bool) (F : Nat) (l : Ast) (r : List PTok)
    (h : nextOp f r = none) : binLoop operand f F l r = .ok (l, r) := by
  unfold binLoop
  simp [h]

theorem binLevel_lift {operand : List PTok → Res Ast} {f : PBin → Bool} {toks r : List PTok} {t : Ast}
    (h : operand toks = .ok (t, r)) (hs : nextOp f r = none) : binLevel operand f toks = .ok (t, r) := by
  simp [binLevel, h, binLoop_exit _ _ _ _ _ hs]

theorem pTerm_fall (rec : List PTok → Res Ast) {toks : List PTok} (h : headU toks = true) :
    pTerm rec toks = pRange rec toks := by
  tok_cases toks with headU, pTerm

theorem pUnitless_fall (rec : List PTok → Res Ast) {toks : List PTok} (h : headP toks = true) :
    pUnitless rec toks = pUnsigned rec toks := by
  tok_cases toks with headP, pUnitless

theorem lift1 (rec : List PTok → Res Ast) (ℓ : Nat) {toks r : List PTok} {t : Ast}
    (h : pL rec (ℓ + 1) toks = .ok (t, r)) (hs : stop ℓ r = true)
    (h8 : ℓ = 8 → headP toks = true) (h5 : ℓ = 5 → headU toks = true) :
    pL rec ℓ toks = .ok (t, r) := by
  match ℓ with
  | 0 => simp only [pL] at h ⊢; simp [pExprBody, h, stop_to hs]
  | 1 => simp only [pL] at h ⊢; simp [pComparison, h, stop_cmp hs (Nat.le_refl _)]
  | 2 => simp only [pL] at h ⊢; exact binLevel_lift h (stop_sum hs (Nat.le_refl _))
  | 3 => simp only [pL] at h ⊢; exact binLevel_lift h (stop_prod hs (Nat.le_refl _))
  | 4 => simp only [pL] at h ⊢; exact binLevel_lift h (stop_pow hs (Nat.le_refl _))
  | 5 => simp only [pL] at h ⊢; rw [pTerm_fall rec (h5 rfl)]; exact h
  | 6 => simp only [pL] at h ⊢; simp [pRange, h, stop_dots hs (Nat.le_refl _)]
  | 7 => simp only [pL] at h ⊢; simp [pQuantity, h, stop_var hs (Nat.le_refl _)]
  | 8 => simp only [pL] at h ⊢; rw [pUnitless_fall rec (h8 rfl)]; exact h
  | 9 => simp only [pL] at h ⊢; simp [pUnsigned, h, stop_bang hs (Nat.le_refl _)]
  | k + 10 => simp only [pL] at h ⊢; exact h

/-- From level `L` down to any looser level `ℓ`. -/
theorem lift (rec : List PTok → Res Ast) (L ℓ : Nat) (hl : ℓ ≤ L) {toks r : List PTok} {t : Ast}
    (h : pL rec L toks = .ok (t, r)) (hs : stop ℓ r = true)
    (h8 : ℓ ≤ 8 → 9 ≤ L → headP toks = true) (h5 : ℓ ≤ 5 → 6 ≤ L → headU toks = true) :
    pL rec ℓ toks = .ok (t, r) := by
  induction L with
  | zero => have : ℓ = 0 := by omega
            subst this; exact h
  | succ k ih =>
    by_cases hk : ℓ = k + 1
    · subst hk; exact h
    · have hle : ℓ ≤ k := by omega
      apply ih hle
      · apply lift1 rec k h (stop_mono hs hle)
        · intro e; apply h8 <;> omega
        · intro e; apply h5 <;> omega
      · intro a b; apply h8 a; omega
      · intro a b; apply h5 a; omega

/-! ### the statements proved per tree -/

def caretOK (t : Ast) (rest : List PTok) : Prop := t.endsBare = true → nextOp isPowOp rest = none

/-- the bare text of `t` parses back to `t` at level `ℓ` -/
def NatStmt (full : Ast → Bool) (ℓ : Nat) (t : Ast) : Prop :=
  ∀ n rest, (rNat full t).length ≤ n → stop ℓ rest = true → caretOK t rest →
    pL (pExpr n) ℓ (rNat full t ++ rest) = .ok (t, rest)

/-- `parse_binary_op` with an explicit loop counter -/
def chain (operand : List PTok → Res Ast) (f : PBin → Bool) (F : Nat) (toks : List PTok) : Res Ast :=
  match operand toks with
  | .error e => .error e
  | .ok (l, r) => binLoop operand f F l r

theorem binLevel_eq_chain (operand : List PTok → Res Ast) (f : PBin → Bool) (toks : List PTok) :
    binLevel operand f toks = chain operand f toks.length toks := rfl

def opsOf : Nat → PBin → Bool
  | 2 => isSumOp
  | 3 => isProdOp
  | _ => isPowOp

/-- `t` written as the left operand of an operator of level `ℓ` -/
def rLeft (full : Ast → Bool) (ℓ : Nat) (t : Ast) : List PTok :=
  wrap (!full t && (decide (ℓ ≤ t.level) && !(decide (ℓ = 4) && t.endsBare))) (rNat full t)

/-- loop-continuation form: reading `t` as the left operand and entering the loop is the same as
    being in the loop with `t` already folded -/
def LoopStmt (full : Ast → Bool) (ℓ : Nat) (t : Ast) : Prop :=
  ∀ n rest F, (rLeft full ℓ t).length ≤ n → (rLeft full ℓ t ++ rest).length ≤ F →
    stop (ℓ + 1) rest = true →
    ∃ F', rest.length ≤ F' ∧
      chain (pL (pExpr n) (ℓ + 1)) (opsOf ℓ) F (rLeft full ℓ t ++ rest)
        = binLoop (pL (pExpr n) (ℓ + 1)) (opsOf ℓ) F' t rest

structure All (t : Ast) : Prop where
  nat : ∀ full ℓ, ℓ ≤ t.level → NatStmt full ℓ t
  loop : ∀ full ℓ, 2 ≤ ℓ → ℓ ≤ 4 → LoopStmt full ℓ t
  hd : ∀ full rest, (6 ≤ t.level → headU (rNat full t ++ rest) = true)
        ∧ (9 ≤ t.level → headP (rNat full t ++ rest) = true)

theorem paren_append (ts rest : List PTok) :
    paren ts ++ rest = .p .lpar :: (ts ++ .p .rpar :: rest) := by
  simp [paren]

theorem paren_length (ts : List PTok) : (paren ts).length = ts.length + 2 := by
  simp [paren]

/-- the parenthesised text parses back at every level -/
theorem par_of_nat {full : Ast → Bool} {t : Ast} (h0 : NatStmt full 0 t) (ℓ : Nat) (hℓ : ℓ ≤ 10)
    (n : Nat) (rest : List PTok) (hn : (rNat full t).length + 2 ≤ n) (hs : stop ℓ rest = true) :
    pL (pExpr n) ℓ (paren (rNat full t) ++ rest) = .ok (t, rest) := by
  obtain ⟨m, rfl⟩ : ∃ m, n = m + 1 := ⟨n - 1, by omega⟩
  have h10 : pL (pExpr (m + 1)) 10 (paren (rNat full t) ++ rest) = .ok (t, rest) := by
    have := h0 m (.p .rpar :: rest) (by omega) rfl (fun _ => rfl)
    simp only [pL] at this
    simp only [pL, paren_append, pUwf, pExpr, this, expect]
    rfl
  apply lift _ 10 ℓ hℓ h10 hs
  · intros; simp [paren_append, headP]
  · intros; simp [paren_append, headU]

/-- `rAt`: bare when allowed, parenthesised otherwise -/
theorem good {t : Ast} (a : All t) (full : Ast → Bool) (ℓ : Nat) (hℓ : ℓ ≤ 10) (n : Nat) (rest : List PTok)
    (hn : (rAt full ℓ t).length ≤ n) (hs : stop ℓ rest = true)
    (hc : full t = false → ℓ ≤ t.level → caretOK t rest) :
    pL (pExpr n) ℓ (rAt full ℓ t ++ rest) = .ok (t, rest) := by
  unfold rAt at hn ⊢
  by_cases hb : (!full t && decide (ℓ ≤ t.level)) = true
  · simp only [hb, wrap, if_true] at hn ⊢
    simp at hb
    exact a.nat full ℓ hb.2 n rest hn hs (hc hb.1 hb.2)
  · have hb' := Bool.eq_false_iff.mpr hb
    rw [hb'] at hn ⊢
    simp only [wrap, Bool.false_eq_true, if_false] at hn ⊢
    simp only [paren_length] at hn
    exact par_of_nat (a.nat full 0 (Nat.zero_le _)) ℓ hℓ n rest (by simpa using hn) hs

/-! ### generic consequences -/

/-- from the native level down to every looser level -/
theorem nat_down {t : Ast} {full : Ast → Bool} (h : NatStmt full t.level t)
    (hd : ∀ rest, (6 ≤ t.level → headU (rNat full t ++ rest) = true)
        ∧ (9 ≤ t.level → headP (rNat full t ++ rest) = true)) :
    ∀ ℓ, ℓ ≤ t.level → NatStmt full ℓ t := by
  intro ℓ hl n rest hn hs hc
  apply lift _ t.level ℓ hl (h n rest hn (stop_mono hs hl) hc) hs
  · intro _ h9; exact (hd rest).2 h9
  · intro _ h6; exact (hd rest).1 h6

theorem binLoop_step {operand : List PTok → Res Ast} {f : PBin → Bool} {toks r : List PTok} {o : PBin}
    {x left : Ast} (k : Nat) (h : nextOp f toks = some o) (hx : operand (toks.drop 1) = .ok (x, r)) :
    binLoop operand f (k + 1) left toks = binLoop operand f k (.bin o left x) r := by
  rw [binLoop]; simp only [h, hx]

theorem pL_bin (rec : List PTok → Res Ast) (ℓ : Nat) (h2 : 2 ≤ ℓ) (h4 : ℓ ≤ 4) :
    pL rec ℓ = binLevel (pL rec (ℓ + 1)) (opsOf ℓ) := by
  match ℓ, h2, h4 with
  | 2, _, _ => rfl
  | 3, _, _ => rfl
  | 4, _, _ => rfl

theorem stop_ops {ℓ : Nat} {r : List PTok} (h : stop ℓ r = true) (h2 : 2 ≤ ℓ) (h4 : ℓ ≤ 4) :
    nextOp (opsOf ℓ) r = none := by
  match ℓ, h2, h4 with
  | 2, _, _ => exact stop_sum h (Nat.le_refl _)
  | 3, _, _ => exact stop_prod h (Nat.le_refl _)
  | 4, _, _ => exact stop_pow h (Nat.le_refl _)

theorem level_bin (o : PBin) (l r : Ast) : (Ast.bin o l r).level = o.level := by
  cases o <;> rfl

theorem PBin.level_range (o : PBin) : 2 ≤ o.level ∧ o.level ≤ 4 := by
  cases o <;> simp [PBin.level, isSumOp, isProdOp]

theorem opsOf_level (o : PBin) : opsOf o.level o = true := by
  cases o <;> rfl

theorem pow_iff_level (o : PBin) : (o == PBin.pow) = decide (o.level = 4) := by
  cases o <;> rfl

/-- a tree of another level as left operand: one operand, then the loop -/
theorem loop_base {t : Ast} {full : Ast → Bool} (hn : ∀ ℓ, ℓ ≤ t.level → NatStmt full ℓ t)
    (ℓ : Nat) (h2 : 2 ≤ ℓ) (h4 : ℓ ≤ 4) (hne : t.level ≠ ℓ) : LoopStmt full ℓ t := by
  intro n rest F hlen hF hs
  refine ⟨F, by simp at hF; omega, ?_⟩
  unfold rLeft at hlen hF ⊢
  by_cases hb : (!full t && (decide (ℓ ≤ t.level) && !(decide (ℓ = 4) && t.endsBare))) = true
  · simp only [hb, wrap, if_true] at hlen ⊢
    simp at hb
    have h := hn (ℓ + 1) (by omega) n rest hlen hs (by
      intro he
      by_cases h4' : ℓ = 4
      · rcases hb.2.2 with h' | h'
        · exact absurd h4' h'
        · rw [h'] at he; exact absurd he (by simp)
      · exact stop_pow hs (by omega))
    simp only [chain, h]
  · have hb' := Bool.eq_false_iff.mpr hb
    rw [hb'] at hlen ⊢
    simp only [wrap, Bool.false_eq_true, if_false, paren_length] at hlen ⊢
    have h := par_of_nat (hn 0 (Nat.zero_le _)) (ℓ + 1) (by omega) n rest (by omega) hs
    simp only [chain, h]

/-! ### equations of `level` and `rNat`, stated with `rAt` -/

theorem level_num (v : Num) : (Ast.num v).level = 10 := rfl
theorem level_var (s : String) : (Ast.var s).level = 10 := rfl
theorem level_str (s : String) : (Ast.str s).level = 5 := rfl
theorem level_inst (s : String) : (Ast.inst s).level = 5 := rfl
theorem level_fact (x : Ast) : (Ast.fact x).level = 9 := rfl
theorem level_sign (b : Bool) (x : Ast) : (Ast.sign b x).level = 8 := rfl
theorem level_quantity (x : Ast) (s : UnitSig) : (Ast.quantity x s).level = 7 := rfl
theorem level_range (a b : Ast) : (Ast.range a b).level = 6 := rfl
theorem level_interval (a b : Ast) : (Ast.interval a b).level = 5 := rfl
theorem level_array (xs : List Ast) : (Ast.array xs).level = 5 := rfl
theorem level_compr (b : Ast) (g : List (String × Ast)) (c : List Ast) : (Ast.compr b g c).level = 5 := rfl
theorem level_call (f : String) (a : List Ast) (k : List (String × Ast)) : (Ast.call f a k).level = 10 := rfl
theorem level_cmp1 (o : PCmp) (a b : Ast) : (Ast.cmp1 o a b).level = 1 := rfl
theorem level_cmp2 (o1 o2 : PCmp) (a b c : Ast) : (Ast.cmp2 o1 o2 a b c).level = 1 := rfl
theorem level_convert (e : Ast) (s : UnitSig) : (Ast.convert e s).level = 0 := rfl

theorem rNat_num (full : Ast → Bool) (v : Num) : rNat full (.num v) = [.num v] := rfl
theorem rNat_var (full : Ast → Bool) (s : String) : rNat full (.var s) = [.var s] := rfl
theorem rNat_str (full : Ast → Bool) (s : String) : rNat full (.str s) = [.str s] := rfl
theorem rNat_inst (full : Ast → Bool) (s : String) : rNat full (.inst s) = [.inst s] := rfl
theorem rNat_fact (full : Ast → Bool) (x : Ast) : rNat full (.fact x) = rAt full 10 x ++ [.p .bang] := rfl
theorem rNat_sign (full : Ast → Bool) (neg : Bool) (x : Ast) :
    rNat full (.sign neg x) = .op (if neg then .sub else .add) :: rAt full 9 x := rfl
theorem rNat_cmp1 (full : Ast → Bool) (o : PCmp) (a b : Ast) :
    rNat full (.cmp1 o a b) = rAt full 2 a ++ .cmp o :: rAt full 2 b := rfl
theorem rNat_cmp2 (full : Ast → Bool) (o1 o2 : PCmp) (a b c : Ast) :
    rNat full (.cmp2 o1 o2 a b c) = rAt full 2 a ++ .cmp o1 :: rAt full 2 b ++ .cmp o2 :: rAt full 2 c := rfl
theorem rNat_range (full : Ast → Bool) (a b : Ast) :
    rNat full (.range a b) = rAt full 7 a ++ .p .dots :: rAt full 7 b := rfl
theorem rNat_quantity (full : Ast → Bool) (x : Ast) (s : UnitSig) :
    rNat full (.quantity x s) = rAt full 8 x ++ rSig s := rfl
theorem rNat_convert (full : Ast → Bool) (e : Ast) (s : UnitSig) :
    rNat full (.convert e s) = rAt full 1 e ++ .p .to :: rSig s := rfl

/-- a tree that is not a binary-operator node: the native level and the first token suffice -/
theorem all_of_native {t : Ast} (hnot : t.level < 2 ∨ 4 < t.level)
    (hnat : ∀ full, NatStmt full t.level t)
    (hd : ∀ full rest, (6 ≤ t.level → headU (rNat full t ++ rest) = true)
        ∧ (9 ≤ t.level → headP (rNat full t ++ rest) = true)) : All t where
  nat := fun full => nat_down (hnat full) (hd full)
  loop := fun full ℓ h2 h4 => loop_base (nat_down (hnat full) (hd full)) ℓ h2 h4 (by omega)
  hd := hd

/-! ### one lemma per constructor -/

theorem all_num (v : Num) (h : numOK v = true) : All (.num v) := by
  apply all_of_native (by simp [level_num, level_var, level_fact, level_sign])
  · intro full n rest _ hs _
    simp only [level_num, pL, rNat_num, List.cons_append, List.nil_append, pUwf]
    unfold numOK at h
    split at h <;> simp_all
  · intro full rest; simp [rNat_num, rNat_var, headU, headP]

theorem all_var (name : String) : All (.var name) := by
  apply all_of_native (by simp [level_num, level_var, level_fact, level_sign])
  · intro full n rest _ hs _
    simp only [level_var, pL, rNat_var, List.cons_append, List.nil_append, pUwf, stop_lpar hs]
    rfl
  · intro full rest; simp [rNat_num, rNat_var, headU, headP]

theorem endsBare_false_of_level {t : Ast} (h : 8 ≤ t.level) : t.endsBare = false := by
  cases t <;> simp_all [Ast.level, Ast.endsBare]
  all_goals (rename_i o _ _; cases o <;> simp_all [isSumOp, isProdOp])

theorem caretOK_of_level {t : Ast} (rest : List PTok) (h : 8 ≤ t.level) : caretOK t rest := by
  intro he; rw [endsBare_false_of_level h] at he; exact absurd he (by simp)

theorem rAt_def (full : Ast → Bool) (ℓ : Nat) (t : Ast) :
    wrap (!full t && decide (ℓ ≤ t.level)) (rNat full t) = rAt full ℓ t := rfl

theorem rAt_zero (full : Ast → Bool) (t : Ast) : rAt full 0 t = wrap (!full t) (rNat full t) := by
  simp [rAt]

theorem headP_rAt {t : Ast} (a : All t) (full : Ast → Bool) (ℓ : Nat) (h9 : 9 ≤ ℓ) (rest : List PTok) :
    headP (rAt full ℓ t ++ rest) = true := by
  unfold rAt
  by_cases hb : (!full t && decide (ℓ ≤ t.level)) = true
  · simp only [hb, wrap, if_true]
    simp at hb
    exact (a.hd full rest).2 (by omega)
  · rw [Bool.eq_false_iff.mpr hb]
    simp [wrap, paren_append, headP]

theorem headU_rAt {t : Ast} (a : All t) (full : Ast → Bool) (ℓ : Nat) (h6 : 6 ≤ ℓ) (rest : List PTok) :
    headU (rAt full ℓ t ++ rest) = true := by
  unfold rAt
  by_cases hb : (!full t && decide (ℓ ≤ t.level)) = true
  · simp only [hb, wrap, if_true]
    simp at hb
    exact (a.hd full rest).1 (by omega)
  · rw [Bool.eq_false_iff.mpr hb]
    simp [wrap, paren_append, headU]

theorem all_fact {x : Ast} (ax : All x) : All (.fact x) := by
  apply all_of_native (by simp [level_num, level_var, level_fact, level_sign])
  · intro full n rest hn hs _
    simp only [rNat_fact, List.length_append, List.length_cons, List.length_nil] at hn
    have h := good ax full 10 (Nat.le_refl _) n (.p .bang :: rest) (by omega) rfl
      (fun _ _ _ => rfl)
    simp only [pL] at h
    simp only [level_fact, pL, rNat_fact, List.append_assoc, List.cons_append, List.nil_append,
      pUnsigned, h]
    rfl
  · intro full rest
    simp only [level_fact, rNat_fact, List.append_assoc]
    exact ⟨fun _ => headU_of_headP (headP_rAt ax full 10 (by omega) _),
           fun _ => headP_rAt ax full 10 (by omega) _⟩

theorem all_sign {x : Ast} (neg : Bool) (ax : All x) : All (.sign neg x) := by
  apply all_of_native (by simp [level_num, level_var, level_fact, level_sign])
  · intro full n rest hn hs _
    simp only [rNat_sign, List.length_cons] at hn
    have h := good ax full 9 (by omega) n rest (by omega) (stop_mono hs (by simp [level_sign]))
      (fun _ hl => caretOK_of_level rest (by omega))
    simp only [pL] at h
    cases neg <;>
      simp [level_sign, pL, rNat_sign, pUnitless, h]
  · intro full rest
    cases neg <;> simp [level_sign, rNat_sign, headU]

theorem rNat_bin (full : Ast → Bool) (o : PBin) (l r : Ast) :
    rNat full (.bin o l r) = rLeft full o.level l ++ .op o :: rAt full (o.level + 1) r := by
  simp only [rNat, rLeft, rAt, leftBare, pow_iff_level]

theorem endsBare_pow (l : Ast) {x : Ast} (h : 5 ≤ x.level) : (Ast.bin .pow l x).endsBare = x.endsBare := by
  cases x with
  | range lo hi => cases hi <;> simp [Ast.endsBare]
  | bin o a b => cases o <;> simp_all [Ast.level, isSumOp, isProdOp]
  | _ => simp_all [Ast.endsBare, Ast.level]

theorem endsBare_bin_ne_pow (o : PBin) (l x : Ast) (h : o.level ≠ 4) : (Ast.bin o l x).endsBare = false := by
  cases o <;> simp_all [Ast.endsBare, PBin.level, isSumOp, isProdOp]

/-- spine claim on the bare text of a binary node -/
theorem spine_bin {o : PBin} {l r : Ast} (al : All l) (ar : All r) (full : Ast → Bool) :
    ∀ n rest F, (rNat full (.bin o l r)).length ≤ n → (rNat full (.bin o l r) ++ rest).length ≤ F →
      stop (o.level + 1) rest = true → caretOK (.bin o l r) rest →
      ∃ F', rest.length ≤ F' ∧
        chain (pL (pExpr n) (o.level + 1)) (opsOf o.level) F (rNat full (.bin o l r) ++ rest)
          = binLoop (pL (pExpr n) (o.level + 1)) (opsOf o.level) F' (.bin o l r) rest := by
  intro n rest F hn hF hs hc
  have hr := o.level_range
  rw [rNat_bin] at hn hF ⊢
  simp only [List.length_append, List.length_cons] at hn hF
  have hx : pL (pExpr n) (o.level + 1) (rAt full (o.level + 1) r ++ rest) = .ok (r, rest) := by
    apply good ar full (o.level + 1) (by omega) n rest (by omega) hs
    intro hf hl
    by_cases h4 : o.level = 4
    · have : o = .pow := by cases o <;> simp_all [PBin.level, isSumOp, isProdOp]
      subst this
      intro he
      apply hc
      rw [endsBare_pow l (by simpa [PBin.level, isSumOp, isProdOp] using hl)]
      exact he
    · intro _; exact stop_pow hs (by omega)
  obtain ⟨F1, hF1, h1⟩ := al.loop full o.level hr.1 hr.2 n (.op o :: (rAt full (o.level + 1) r ++ rest)) F
    (by omega) (by simp only [List.length_append, List.length_cons]; omega)
    (by simp [stop])
  simp only [List.length_cons, List.length_append] at hF1
  cases F1 with
  | zero => omega
  | succ k =>
    refine ⟨k, by omega, ?_⟩
    rw [List.append_assoc, List.cons_append, h1]
    exact binLoop_step k (by simp [nextOp, opsOf_level]) (by simpa using hx)

theorem all_bin {o : PBin} {l r : Ast} (al : All l) (ar : All r) : All (.bin o l r) := by
  have hr := o.level_range
  have hlev := level_bin o l r
  have hnatL : ∀ full, NatStmt full (Ast.bin o l r).level (.bin o l r) := by
    intro full n rest hn hs hc
    rw [hlev] at hs ⊢
    obtain ⟨F', _, h⟩ := spine_bin al ar full n rest (rNat full (.bin o l r) ++ rest).length hn (Nat.le_refl _)
      (stop_mono hs (by omega)) hc
    rw [pL_bin _ _ hr.1 hr.2, binLevel_eq_chain, h]
    exact binLoop_exit _ _ _ _ _ (stop_ops hs hr.1 hr.2)
  have hd : ∀ full rest, (6 ≤ (Ast.bin o l r).level → headU (rNat full (.bin o l r) ++ rest) = true)
        ∧ (9 ≤ (Ast.bin o l r).level → headP (rNat full (.bin o l r) ++ rest) = true) := by
    intro full rest; rw [hlev]; constructor <;> intro h <;> omega
  have hnat : ∀ full ℓ, ℓ ≤ (Ast.bin o l r).level → NatStmt full ℓ (.bin o l r) :=
    fun full => nat_down (hnatL full) (hd full)
  refine ⟨hnat, ?_, hd⟩
  intro full ℓ h2 h4
  by_cases hne : (Ast.bin o l r).level = ℓ
  · -- same level: bare text continues the spine, parenthesised text is one operand
    rw [hlev] at hne; subst hne
    intro n rest F hlen hF hs
    unfold rLeft at hlen hF ⊢
    by_cases hb : (!full (Ast.bin o l r) && (decide (o.level ≤ (Ast.bin o l r).level)
        && !(decide (o.level = 4) && (Ast.bin o l r).endsBare))) = true
    · simp only [hb, wrap, if_true] at hlen hF ⊢
      simp at hb
      apply spine_bin al ar full n rest F hlen hF hs
      intro he
      rcases hb.2.2 with h' | h'
      · rw [endsBare_bin_ne_pow o l r h'] at he; exact absurd he (by simp)
      · rw [h'] at he; exact absurd he (by simp)
    · have hb' := Bool.eq_false_iff.mpr hb
      rw [hb'] at hlen hF ⊢
      simp only [wrap, Bool.false_eq_true, if_false, paren_length] at hlen ⊢
      refine ⟨F, by simp at hF; omega, ?_⟩
      have h := par_of_nat (hnat full 0 (Nat.zero_le _)) (o.level + 1) (by omega) n rest (by omega) hs
      simp only [chain, h]
  · exact loop_base (hnat full) ℓ h2 h4 hne

theorem nextCmp_cons (c : PCmp) (r : List PTok) : nextCmp (.cmp c :: r) = some c := rfl

theorem mkCmp1_ok {o : PCmp} (a b : Ast) (h : cmp1OK o = true) : mkCmp1 o a b = .cmp1 o a b := by
  simp only [cmp1OK, Bool.not_eq_true'] at h
  simp only [mkCmp1, h, Bool.false_and, Bool.false_eq_true, if_false]

theorem mkCmp2_ok {o1 o2 : PCmp} (a b c : Ast) (h : cmp2OK o1 o2 = true) :
    mkCmp2 o1 o2 a b c = .cmp2 o1 o2 a b c := by
  simp only [cmp2OK, Bool.not_eq_true'] at h
  simp only [mkCmp2, h, Bool.false_eq_true, if_false]

theorem all_cmp1 {o : PCmp} {a b : Ast} (hok : cmp1OK o = true) (aa : All a) (ab : All b) :
    All (.cmp1 o a b) := by
  apply all_of_native (by simp [level_cmp1])
  · intro full n rest hn hs _
    rw [level_cmp1] at hs
    simp only [rNat_cmp1, List.length_append, List.length_cons] at hn
    have h1 := good aa full 2 (by omega) n (.cmp o :: (rAt full 2 b ++ rest)) (by omega) rfl
      (fun _ _ _ => rfl)
    have h2 := good ab full 2 (by omega) n rest (by omega) (stop_mono hs (by omega))
      (fun _ _ _ => stop_pow hs (by omega))
    simp only [pL] at h1 h2
    simp [level_cmp1, pL, rNat_cmp1, pComparison, h1, nextCmp_cons, h2, stop_cmp hs (Nat.le_refl _), mkCmp1_ok _ _ hok]
  · intro full rest; rw [level_cmp1]; constructor <;> intro h <;> omega

theorem all_cmp2 {o1 o2 : PCmp} {a b c : Ast} (hok : cmp2OK o1 o2 = true)
    (aa : All a) (ab : All b) (ac : All c) : All (.cmp2 o1 o2 a b c) := by
  apply all_of_native (by simp [level_cmp2])
  · intro full n rest hn hs _
    rw [level_cmp2] at hs
    simp only [rNat_cmp2, List.length_append, List.length_cons] at hn
    have h1 := good aa full 2 (by omega) n (.cmp o1 :: (rAt full 2 b ++ .cmp o2 :: (rAt full 2 c ++ rest)))
      (by omega) rfl (fun _ _ _ => rfl)
    have h2 := good ab full 2 (by omega) n (.cmp o2 :: (rAt full 2 c ++ rest)) (by omega) rfl
      (fun _ _ _ => rfl)
    have h3 := good ac full 2 (by omega) n rest (by omega) (stop_mono hs (by omega))
      (fun _ _ _ => stop_pow hs (by omega))
    simp only [pL] at h1 h2 h3
    simp [level_cmp2, pL, rNat_cmp2, pComparison, h1, nextCmp_cons, h2, h3, mkCmp2_ok _ _ _ hok]
  · intro full rest; rw [level_cmp2]; constructor <;> intro h <;> omega

/-! ### unit signatures -/

theorem stop_bar {ℓ : Nat} {r : List PTok} (h : stop ℓ r = true) : nextIsP .bar r = false := by
  tok_cases r with stop, nextIsP

theorem pInteger_rInt (e : Int) (more : List PTok) : pInteger (rInt e ++ more) = .ok (e, more) := by
  unfold rInt
  by_cases h : e < 0
  · simp [h, pInteger, pIntegerU]
  · simp only [h, if_false, List.cons_append, List.nil_append]
    simp [pInteger, pIntegerU]

/-- a `^` directly after a unit name would be read as its exponent -/
def noCaret : List PTok → Bool
  | .op .pow :: _ => false
  | _ => true

theorem noCaret_of_nextOp {r : List PTok} (h : nextOp isPowOp r = none) : noCaret r = true := by
  tok_cases r with nextOp, noCaret, isPowOp

theorem pUnitsLoop_bare (name : String) (k : Nat) (r : List PTok) (h : noCaret r = true) :
    pUnitsLoop (k + 1) (.var name :: r) =
      match pUnitsLoop k r with
      | .error e => .error e
      | .ok (us, r4) => .ok ((name, 1) :: us, r4) := by
  cases r with
  | nil => simp only [pUnitsLoop]
  | cons tok tl =>
    cases tok with
    | op o => cases o <;> first | (simp [noCaret] at h; done) | (simp only [pUnitsLoop])
    | _ => simp only [pUnitsLoop] <;> rfl

theorem pUnitsLoop_exp (name : String) (k : Nat) (r2 : List PTok) :
    pUnitsLoop (k + 1) (.var name :: .op .pow :: r2) =
      match pInteger r2 with
      | .error e => .error e
      | .ok (ex, r3) =>
        match pUnitsLoop k r3 with
        | .error e => .error e
        | .ok (us, r4) => .ok ((name, ex) :: us, r4) := by
  simp only [pUnitsLoop]
  rfl

theorem pUnitsLoop_end (F : Nat) (rest : List PTok) (h : nextVar rest = false) :
    pUnitsLoop F rest = .ok ([], rest) := by
  cases rest with
  | nil => unfold pUnitsLoop; rfl
  | cons tok tl =>
    cases tok <;> first | (simp [nextVar] at h; done) | (unfold pUnitsLoop; rfl)

theorem noCaret_rUnits (us : List (String × Int)) (rest : List PTok)
    (h : us = [] → noCaret rest = true) : noCaret (rUnits us ++ rest) = true := by
  cases us with
  | nil => simpa [rUnits] using h rfl
  | cons u us =>
    simp only [rUnits, rUnit]
    by_cases h1 : u.2 = 1 <;> simp [h1, noCaret]

theorem pUnitsLoop_ok : ∀ (us : List (String × Int)) (F : Nat) (rest : List PTok),
    us.length ≤ F → nextVar rest = false → (lastBareL us = true → noCaret rest = true) →
    pUnitsLoop F (rUnits us ++ rest) = .ok (us, rest) := by
  intro us
  induction us with
  | nil => intro F rest _ hv _; simpa [rUnits] using pUnitsLoop_end F rest hv
  | cons u us ih =>
    intro F rest hF hv hc
    obtain ⟨k, rfl⟩ : ∃ k, F = k + 1 := ⟨F - 1, by simp at hF; omega⟩
    obtain ⟨name, e⟩ := u
    have hrec := ih k rest (by simp at hF; omega) hv (by
      intro hl; apply hc
      cases us with
      | nil => simp [lastBareL] at hl
      | cons v vs => simpa [lastBareL] using hl)
    simp only [rUnits, rUnit]
    by_cases h1 : e = 1
    · subst h1
      simp only [if_true, List.cons_append, List.nil_append]
      rw [pUnitsLoop_bare _ _ _ (noCaret_rUnits us rest (by
        intro hnil; subst hnil; apply hc; simp [lastBareL])), hrec]
    · simp only [h1, if_false, List.cons_append, List.append_assoc]
      rw [pUnitsLoop_exp, pInteger_rInt]
      simp only [hrec]

theorem length_rUnits (us : List (String × Int)) : us.length ≤ (rUnits us).length := by
  induction us with
  | nil => simp [rUnits]
  | cons u us ih =>
    simp only [rUnits, rUnit, List.length_cons, List.length_append]
    by_cases h1 : u.2 = 1 <;> simp [h1] <;> omega

theorem pUnits_ok (u : String × Int) (us : List (String × Int)) (rest : List PTok)
    (hv : nextVar rest = false) (hc : lastBareL (u :: us) = true → noCaret rest = true) :
    pUnits (rUnits (u :: us) ++ rest) = .ok (u :: us, rest) := by
  unfold pUnits
  rw [pUnitsLoop_ok (u :: us) _ rest (by
    have := length_rUnits (u :: us); simp only [List.length_append]; omega) hv hc]

theorem pUnitSig_ok (s : UnitSig) (hs : sigOK s = true) (rest : List PTok)
    (hv : nextVar rest = false) (hb : nextIsP .bar rest = false)
    (hc : s.lastBare = true → noCaret rest = true) :
    pUnitSig (rSig s ++ rest) = .ok (s, rest) := by
  obtain ⟨units, inv⟩ := s
  cases units with
  | nil => simp [sigOK] at hs
  | cons u us =>
    cases inv with
    | nil =>
      simp only [rSig, pUnitSig]
      rw [pUnits_ok u us rest hv (by simpa [UnitSig.lastBare] using hc)]
      simp [hb]
    | cons i is =>
      simp only [rSig, pUnitSig, List.append_assoc, List.cons_append]
      rw [pUnits_ok u us _ rfl (fun _ => rfl)]
      simp only [nextIsP, beq_self_eq_true, if_true, List.drop_succ_cons, List.drop_zero]
      rw [pUnits_ok i is rest hv (by simpa [UnitSig.lastBare] using hc)]

theorem rSig_head (s : UnitSig) (hs : sigOK s = true) : ∃ n tl, rSig s = .var n :: tl := by
  obtain ⟨units, inv⟩ := s
  cases units with
  | nil => simp [sigOK] at hs
  | cons u us =>
    obtain ⟨name, e⟩ := u
    cases inv <;> simp only [rSig, rUnits, rUnit] <;> by_cases h1 : e = 1 <;> simp [h1]

/-! ### quantities, ranges, conversions -/

theorem all_quantity {x : Ast} (s : UnitSig) (hsig : sigOK s = true) (ax : All x) : All (.quantity x s) := by
  apply all_of_native (by simp [level_quantity])
  · intro full n rest hn hs hc
    rw [level_quantity] at hs
    simp only [rNat_quantity, List.length_append] at hn
    obtain ⟨v, tl, hv⟩ := rSig_head s hsig
    have hnv : nextVar (rSig s ++ rest) = true := by rw [hv]; rfl
    have h := good ax full 8 (by omega) n (rSig s ++ rest) (by omega) (by rw [hv]; rfl)
      (fun _ hl => caretOK_of_level _ hl)
    simp only [pL] at h
    have hp := pUnitSig_ok s hsig rest (stop_var hs (Nat.le_refl _)) (stop_bar hs)
      (fun hb => noCaret_of_nextOp (hc hb))
    simp only [level_quantity, pL, rNat_quantity, List.append_assoc, pQuantity, h, hnv, if_true, hp]
  · intro full rest
    simp only [level_quantity, rNat_quantity, List.append_assoc]
    exact ⟨fun _ => headU_rAt ax full 8 (by omega) _, fun h => by omega⟩

theorem endsBare_range (lo : Ast) {hi : Ast} (h : 7 ≤ hi.level) : (Ast.range lo hi).endsBare = hi.endsBare := by
  cases hi <;> simp_all [Ast.endsBare, Ast.level]
  all_goals (rename_i o _ _; cases o <;> simp_all [isSumOp, isProdOp])

theorem all_range {lo hi : Ast} (alo : All lo) (ahi : All hi) : All (.range lo hi) := by
  apply all_of_native (by simp [level_range])
  · intro full n rest hn hs hc
    rw [level_range] at hs
    simp only [rNat_range, List.length_append, List.length_cons] at hn
    have h1 := good alo full 7 (by omega) n (.p .dots :: (rAt full 7 hi ++ rest)) (by omega) rfl
      (fun _ _ _ => rfl)
    have h2 := good ahi full 7 (by omega) n rest (by omega) (stop_mono hs (by omega))
      (fun _ hl he => hc (by rw [endsBare_range lo hl]; exact he))
    simp only [pL] at h1 h2
    simp only [level_range, pL, rNat_range, List.append_assoc, List.cons_append, pRange, h1, nextIsP,
      beq_self_eq_true, if_true, List.drop_succ_cons, List.drop_zero, h2]
  · intro full rest
    simp only [level_range, rNat_range, List.append_assoc]
    exact ⟨fun _ => headU_rAt alo full 7 (by omega) _, fun h => by omega⟩

theorem all_convert {e : Ast} (s : UnitSig) (hsig : sigOK s = true) (ae : All e) : All (.convert e s) := by
  apply all_of_native (by simp [level_convert])
  · intro full n rest hn hs _
    rw [level_convert] at hs
    simp only [rNat_convert, List.length_append, List.length_cons] at hn
    have h := good ae full 1 (by omega) n (.p .to :: (rSig s ++ rest)) (by omega) rfl (fun _ _ _ => rfl)
    simp only [pL] at h
    have hp := pUnitSig_ok s hsig rest (stop_var hs (by omega)) (stop_bar hs)
      (fun _ => noCaret_of_nextOp (stop_pow hs (by omega)))
    simp only [level_convert, pL, rNat_convert, List.append_assoc, List.cons_append, pExprBody, h, nextIsP,
      beq_self_eq_true, if_true, List.drop_succ_cons, List.drop_zero, hp]
  · intro full rest; rw [level_convert]; constructor <;> intro h <;> omega

/-! ### nested expressions: `rec` is `pExpr n` -/

theorem expect_same (s : Punct) (r : List PTok) : expect s (.p s :: r) = .ok r := by
  simp [expect]

theorem pExpr_nil (n : Nat) (t : Ast) (r : List PTok) : pExpr n [] ≠ .ok (t, r) := by
  cases n with
  | zero => simp [pExpr]
  | succ k =>
    simp [pExpr, pExprBody, pComparison, pSum, pProduct, pFactor, binLevel, pTerm, pRange, pQuantity,
      pUnitless, pUnsigned, pUwf]


/-- tokens an expression can begin with -/
def exprStart : List PTok → Bool
  | .p .lpar :: _ | .num _ :: _ | .var _ :: _ | .op .add :: _ | .op .sub :: _ | .str _ :: _ | .inst _ :: _
  | .p .lbrace :: _ | .p .lbrack :: _ => true
  | _ => false

theorem pExpr_head {n : Nat} {toks : List PTok} {res : Ast × List PTok} (h : pExpr n toks = .ok res) :
    exprStart toks = true := by
  cases n with
  | zero => simp [pExpr] at h
  | succ k =>
    rcases toks with _ | ⟨tok, tl⟩
    · exact absurd h (pExpr_nil _ _ _)
    · cases tok with
      | op o =>
        cases o <;> first | rfl | (simp [pExpr, pExprBody, pComparison, pSum, pProduct, pFactor, binLevel, pTerm,
          pRange, pQuantity, pUnitless, pUnsigned, pUwf] at h)
      | p s =>
        cases s <;> first | rfl | (simp [pExpr, pExprBody, pComparison, pSum, pProduct, pFactor, binLevel, pTerm,
          pRange, pQuantity, pUnitless, pUnsigned, pUwf] at h)
      | cmp c => simp [pExpr, pExprBody, pComparison, pSum, pProduct, pFactor, binLevel, pTerm,
          pRange, pQuantity, pUnitless, pUnsigned, pUwf] at h
      | bad => simp [pExpr, pExprBody, pComparison, pSum, pProduct, pFactor, binLevel, pTerm,
          pRange, pQuantity, pUnitless, pUnsigned, pUwf] at h
      | _ => rfl

/-- an expression that begins `name :` is just the name -/
theorem pExpr_kw {n : Nat} {x : String} {r more : List PTok} {a : Ast}
    (h : pExpr n (.var x :: .p .colon :: r) = .ok (a, more)) : more = .p .colon :: r := by
  cases n with
  | zero => simp [pExpr] at h
  | succ k =>
    simp [pExpr, pExprBody, pComparison, pSum, pProduct, pFactor, binLevel, binLoop, pTerm, pRange, pQuantity,
      pUnitless, pUnsigned, pUwf, nextIsP, nextVar, nextOp, nextCmp] at h
    exact h.2.symm

theorem rec_ok {t : Ast} (a : All t) (full : Ast → Bool) (n : Nat) (more : List PTok)
    (hn : (rAt full 0 t).length + 1 ≤ n) (hs : stop 0 more = true) :
    pExpr n (rAt full 0 t ++ more) = .ok (t, more) := by
  obtain ⟨m, rfl⟩ : ∃ m, n = m + 1 := ⟨n - 1, by omega⟩
  have h := good a full 0 (Nat.zero_le _) m more (by omega) hs (fun _ _ _ => stop_pow hs (by omega))
  simpa only [pL, pExpr] using h

theorem not_kwStart_of_rec {n : Nat} {toks more : List PTok} {a : Ast}
    (h : pExpr n toks = .ok (a, more)) (hm : nextIsP .colon more = false) : isKwStart toks = false := by
  match toks, h with
  | .var x :: .p .colon :: r, h => rw [pExpr_kw h] at hm; simp [nextIsP] at hm
  | [], _ => rfl
  | [_], _ => simp [isKwStart]
  | a :: b :: r, h =>
    cases a <;> try (simp [isKwStart]; done)
    cases b <;> try (simp [isKwStart]; done)
    rename_i s; cases s <;> try (simp [isKwStart]; done)
    rw [pExpr_kw h] at hm; simp [nextIsP] at hm

theorem not_rpar_of_start {toks : List PTok} (h : exprStart toks = true) : nextIsP .rpar toks = false := by
  tok_cases toks with exprStart, nextIsP

/-! ### function calls -/

theorem rTail_cons (full : Ast → Bool) (a : Ast) (as : List Ast) :
    rTail full (a :: as) = .p .comma :: (rAt full 0 a ++ rTail full as) := by
  simp [rTail, rAt_zero]

theorem rKwTail_cons (full : Ast → Bool) (k : String) (v : Ast) (ks : List (String × Ast)) :
    rKwTail full ((k, v) :: ks) = .p .comma :: .var k :: .p .colon :: (rAt full 0 v ++ rKwTail full ks) := by
  simp [rKwTail, rAt_zero]

/-- what is left when `parse_positional_args` returns -/
def afterPos (full : Ast → Bool) : List (String × Ast) → List PTok → List PTok
  | [], rest => .p .rpar :: rest
  | (k, v) :: ks, rest => .var k :: .p .colon :: (rAt full 0 v ++ (rKwTail full ks ++ .p .rpar :: rest))

theorem tail_head (full : Ast → Bool) (as : List Ast) (kws : List (String × Ast)) (rest : List PTok) :
    stop 0 (rTail full as ++ (rKwTail full kws ++ .p .rpar :: rest)) = true
    ∧ nextIsP .colon (rTail full as ++ (rKwTail full kws ++ .p .rpar :: rest)) = false := by
  cases as with
  | cons a as => simp [rTail_cons, stop, nextIsP]
  | nil =>
    cases kws with
    | nil => simp [rTail, rKwTail, stop, nextIsP]
    | cons kv ks => obtain ⟨k, v⟩ := kv; simp [rTail, rKwTail_cons, stop, nextIsP]

theorem pPositional_rpar (rec : List PTok → Res Ast) (F : Nat) (st : Bool) (r : List PTok) :
    pPositional rec F st (.p .rpar :: r) = .ok ([], .p .rpar :: r) := by
  rw [pPositional.eq_def]; simp [nextIsP]

theorem pPositional_kw_started (rec : List PTok → Res Ast) (k : Nat) (name : String) (r : List PTok) :
    pPositional rec (k + 1) true (.p .comma :: .var name :: .p .colon :: r)
      = .ok ([], .var name :: .p .colon :: r) := by
  rw [pPositional.eq_def]; simp [nextIsP, expect, isKwStart]

theorem pPositional_kw_first (rec : List PTok → Res Ast) (k : Nat) (name : String) (r : List PTok) :
    pPositional rec (k + 1) false (.var name :: .p .colon :: r)
      = .ok ([], .var name :: .p .colon :: r) := by
  rw [pPositional.eq_def]; simp [nextIsP, isKwStart]

theorem pPositional_step_started {rec : List PTok → Res Ast} {t1 t2 : List PTok} {a : Ast} (k : Nat)
    (h : rec t1 = .ok (a, t2)) (hk : isKwStart t1 = false) :
    pPositional rec (k + 1) true (.p .comma :: t1) =
      match pPositional rec k true t2 with
      | .error e => .error e
      | .ok (as, t3) => .ok (a :: as, t3) := by
  rw [pPositional.eq_def]; simp [nextIsP, expect, hk, h]; try rfl

theorem pPositional_step_first {rec : List PTok → Res Ast} {t1 t2 : List PTok} {a : Ast} (k : Nat)
    (h : rec t1 = .ok (a, t2)) (hr : nextIsP .rpar t1 = false) (hk : isKwStart t1 = false) :
    pPositional rec (k + 1) false t1 =
      match pPositional rec k true t2 with
      | .error e => .error e
      | .ok (as, t3) => .ok (a :: as, t3) := by
  rw [pPositional.eq_def]; simp [hr, hk, h]; try rfl

theorem posTail_ok (full : Ast → Bool) (n : Nat) (kws : List (String × Ast)) (rest : List PTok) :
    ∀ (as : List Ast) (F : Nat), (rTail full as).length + 1 ≤ F → (∀ a ∈ as, All a) →
      (rTail full as).length ≤ n →
      pPositional (pExpr n) F true (rTail full as ++ (rKwTail full kws ++ .p .rpar :: rest))
        = .ok (as, afterPos full kws rest) := by
  intro as
  induction as with
  | nil =>
    intro F hF _ _
    obtain ⟨k, rfl⟩ : ∃ k, F = k + 1 := ⟨F - 1, by omega⟩
    cases kws with
    | nil => simp only [rTail, rKwTail, List.nil_append, afterPos]; exact pPositional_rpar _ _ _ _
    | cons kv ks =>
      obtain ⟨kk, v⟩ := kv
      simp only [rTail, List.nil_append, rKwTail_cons, List.cons_append, List.append_assoc, afterPos]
      exact pPositional_kw_started _ _ _ _
  | cons a as ih =>
    intro F hF hall hn
    rw [rTail_cons] at hF hn ⊢
    simp only [List.length_cons, List.length_append] at hF hn
    obtain ⟨k, rfl⟩ : ∃ k, F = k + 1 := ⟨F - 1, by omega⟩
    have hth := tail_head full as kws rest
    have hrec := rec_ok (hall a (by simp)) full n (rTail full as ++ (rKwTail full kws ++ .p .rpar :: rest))
      (by omega) hth.1
    simp only [List.cons_append, List.append_assoc]
    rw [pPositional_step_started k hrec (not_kwStart_of_rec hrec hth.2)]
    rw [ih k (by omega) (fun b hb => hall b (by simp [hb])) (by omega)]

theorem pKeyword_rpar (rec : List PTok → Res Ast) (F : Nat) (st : Bool) (r : List PTok) :
    pKeyword rec F st (.p .rpar :: r) = .ok ([], .p .rpar :: r) := by
  rw [pKeyword.eq_def]; simp [nextIsP]

theorem pKeyword_step {rec : List PTok → Res Ast} {t3 t4 : List PTok} {a : Ast} (k : Nat) (name : String)
    (h : rec t3 = .ok (a, t4)) :
    pKeyword rec (k + 1) true (.p .comma :: .var name :: .p .colon :: t3) =
      match pKeyword rec k true t4 with
      | .error e => .error e
      | .ok (kws, t5) => .ok ((name, a) :: kws, t5) := by
  rw [pKeyword.eq_def]; simp [nextIsP, expect, h]; try rfl

theorem pKeyword_step_first {rec : List PTok → Res Ast} {t3 t4 : List PTok} {a : Ast} (k : Nat) (name : String)
    (h : rec t3 = .ok (a, t4)) :
    pKeyword rec (k + 1) false (.var name :: .p .colon :: t3) =
      match pKeyword rec k true t4 with
      | .error e => .error e
      | .ok (kws, t5) => .ok ((name, a) :: kws, t5) := by
  rw [pKeyword.eq_def]; simp [nextIsP, expect, h]; try rfl

theorem stop0_kwTail (full : Ast → Bool) (ks : List (String × Ast)) (rest : List PTok) :
    stop 0 (rKwTail full ks ++ .p .rpar :: rest) = true := by
  cases ks with
  | nil => simp [rKwTail, stop]
  | cons kv ks => obtain ⟨k, v⟩ := kv; simp [rKwTail_cons, stop]

theorem kwTail_ok (full : Ast → Bool) (n : Nat) (rest : List PTok) :
    ∀ (ks : List (String × Ast)) (F : Nat), (rKwTail full ks).length + 1 ≤ F → (∀ p ∈ ks, All p.2) →
      (rKwTail full ks).length ≤ n →
      pKeyword (pExpr n) F true (rKwTail full ks ++ .p .rpar :: rest) = .ok (ks, .p .rpar :: rest) := by
  intro ks
  induction ks with
  | nil => intro F _ _ _; simp only [rKwTail, List.nil_append]; exact pKeyword_rpar _ _ _ _
  | cons kv ks ih =>
    intro F hF hall hn
    obtain ⟨kk, v⟩ := kv
    rw [rKwTail_cons] at hF hn ⊢
    simp only [List.length_cons, List.length_append] at hF hn
    obtain ⟨k, rfl⟩ : ∃ k, F = k + 1 := ⟨F - 1, by omega⟩
    have hv : All v := hall (kk, v) (by simp)
    have hrec := rec_ok hv full n (rKwTail full ks ++ .p .rpar :: rest) (by omega)
      (stop0_kwTail full ks rest)
    simp only [List.cons_append, List.append_assoc]
    rw [pKeyword_step k kk hrec, ih k (by omega) (fun b hb => hall b (by simp [hb])) (by omega)]

theorem afterKw_ok (full : Ast → Bool) (n : Nat) (rest : List PTok) (kws : List (String × Ast)) (F : Nat)
    (hF : (afterPos full kws rest).length + 1 ≤ F) (hall : ∀ p ∈ kws, All p.2)
    (hn : (rKwTail full kws).length ≤ n) :
    pKeyword (pExpr n) F false (afterPos full kws rest) = .ok (kws, .p .rpar :: rest) := by
  cases kws with
  | nil => exact pKeyword_rpar _ _ _ _
  | cons kv ks =>
    obtain ⟨kk, v⟩ := kv
    rw [rKwTail_cons] at hn
    simp only [afterPos, List.length_cons, List.length_append] at hF hn
    obtain ⟨k, rfl⟩ : ∃ k, F = k + 1 := ⟨F - 1, by omega⟩
    have hv : All v := hall (kk, v) (by simp)
    have hrec := rec_ok hv full n (rKwTail full ks ++ .p .rpar :: rest) (by omega)
      (stop0_kwTail full ks rest)
    simp only [afterPos]
    rw [pKeyword_step_first k kk hrec, kwTail_ok full n rest ks k (by omega)
      (fun b hb => hall b (by simp [hb])) (by omega)]

theorem pCall_ok (full : Ast → Bool) (n : Nat) (name : String) (args : List Ast) (kws : List (String × Ast))
    (rest : List PTok) (hargs : ∀ a ∈ args, All a) (hkws : ∀ p ∈ kws, All p.2)
    (hn1 : (rTail full args).length ≤ n) (hn2 : (rKwTail full kws).length ≤ n) :
    pCall (pExpr n) name ((rTail full args ++ rKwTail full kws).drop 1 ++ .p .rpar :: rest)
      = .ok (.call name args kws, rest) := by
  have hkw := fun F hF => afterKw_ok full n rest kws F hF hkws hn2
  cases args with
  | nil =>
    have ht : (rTail full [] ++ rKwTail full kws).drop 1 ++ .p .rpar :: rest = afterPos full kws rest := by
      cases kws with
      | nil => simp [rTail, rKwTail, afterPos]
      | cons kv ks => obtain ⟨k, v⟩ := kv; simp [rTail, rKwTail_cons, afterPos]
    rw [ht]
    have hp : pPositional (pExpr n) ((afterPos full kws rest).length + 1) false (afterPos full kws rest)
        = .ok ([], afterPos full kws rest) := by
      cases kws with
      | nil => exact pPositional_rpar _ _ _ _
      | cons kv ks => obtain ⟨k, v⟩ := kv; exact pPositional_kw_first _ _ _ _
    simp only [pCall, hp, hkw _ (Nat.le_refl _), expect_same]
  | cons a as =>
    have ht : (rTail full (a :: as) ++ rKwTail full kws).drop 1 ++ .p .rpar :: rest
        = rAt full 0 a ++ (rTail full as ++ (rKwTail full kws ++ .p .rpar :: rest)) := by
      simp [rTail_cons]
    rw [ht]
    rw [rTail_cons] at hn1
    simp only [List.length_cons, List.length_append] at hn1
    have hth := tail_head full as kws rest
    have hrec := rec_ok (hargs a (by simp)) full n (rTail full as ++ (rKwTail full kws ++ .p .rpar :: rest))
      (by omega) hth.1
    have hp := pPositional_step_first (rAt full 0 a ++ (rTail full as ++ (rKwTail full kws ++ .p .rpar :: rest))).length
      hrec (not_rpar_of_start (pExpr_head hrec)) (not_kwStart_of_rec hrec hth.2)
    rw [posTail_ok full n kws rest as _ (by simp only [List.length_append, List.length_cons]; omega)
      (fun b hb => hargs b (by simp [hb])) (by omega)] at hp
    simp only [pCall, hp, hkw _ (Nat.le_refl _), expect_same]

theorem mem_sizeOf_lt {a : Ast} {as : List Ast} (h : a ∈ as) : sizeOf a < sizeOf as := by
  induction as with
  | nil => cases h
  | cons b bs ih =>
    rcases List.mem_cons.mp h with rfl | h'
    · simp; omega
    · have := ih h'; simp; omega

theorem mem_kw_sizeOf_lt {p : String × Ast} {ps : List (String × Ast)} (h : p ∈ ps) : sizeOf p.2 < sizeOf ps := by
  induction ps with
  | nil => cases h
  | cons b bs ih =>
    rcases List.mem_cons.mp h with rfl | h'
    · obtain ⟨k, v⟩ := p; simp; omega
    · have := ih h'; simp; omega

theorem all_call (name : String) {args : List Ast} {kws : List (String × Ast)}
    (hargs : ∀ a ∈ args, All a) (hkws : ∀ p ∈ kws, All p.2) : All (.call name args kws) := by
  apply all_of_native (by simp [level_call])
  · intro full n rest hn hs _
    have hr : rNat full (.call name args kws)
        = .var name :: .p .lpar :: ((rTail full args ++ rKwTail full kws).drop 1 ++ [.p .rpar]) := by
      simp [rNat]
    rw [hr] at hn ⊢
    simp only [List.length_cons, List.length_append, List.length_drop, List.length_nil] at hn
    simp only [level_call, pL, List.cons_append, List.append_assoc, List.nil_append, pUwf, nextIsP,
      beq_self_eq_true, if_true, List.drop_succ_cons, List.drop_zero]
    exact pCall_ok full n name args kws rest hargs hkws (by omega) (by omega)
  · intro full rest; simp [rNat, headU, headP]

/-! ### strings, instants, intervals, arrays, comprehensions -/

theorem all_str (v : String) : All (.str v) := by
  apply all_of_native (by simp [level_str])
  · intro full n rest _ _ _
    simp [level_str, pL, rNat_str, pTerm]
  · intro full rest; rw [level_str]; constructor <;> intro h <;> omega

theorem all_inst (v : String) : All (.inst v) := by
  apply all_of_native (by simp [level_inst])
  · intro full n rest _ _ _
    simp [level_inst, pL, rNat_inst, pTerm]
  · intro full rest; rw [level_inst]; constructor <;> intro h <;> omega

theorem rNat_interval (full : Ast → Bool) (lo hi : Ast) :
    rNat full (.interval lo hi)
      = .p .lbrack :: (rAt full 0 lo ++ .p .comma :: (rAt full 0 hi ++ [.p .rbrack])) := by
  simp [rNat, rAt_zero]

theorem all_interval {lo hi : Ast} (alo : All lo) (ahi : All hi) : All (.interval lo hi) := by
  apply all_of_native (by simp [level_interval])
  · intro full n rest hn _ _
    rw [rNat_interval] at hn ⊢
    simp only [List.length_cons, List.length_append, List.length_nil] at hn
    have h1 := rec_ok alo full n (.p .comma :: (rAt full 0 hi ++ .p .rbrack :: rest)) (by omega) rfl
    have h2 := rec_ok ahi full n (.p .rbrack :: rest) (by omega) rfl
    simp only [level_interval, pL, List.cons_append, List.append_assoc, List.nil_append, pTerm, pInterval, h1,
      expect_same, h2]
  · intro full rest; rw [level_interval]; constructor <;> intro h <;> omega

/-- what may follow an element / clause inside braces -/
def braceEnd : List PTok → Bool
  | .p .comma :: _ => true
  | .p .rbrace :: _ => true
  | _ => false

theorem stop_of_braceEnd {r : List PTok} (h : braceEnd r = true) : stop 0 r = true := by
  tok_cases r with braceEnd, stop

theorem colon_of_braceEnd {r : List PTok} (h : braceEnd r = true) : nextIsP .colon r = false := by
  tok_cases r with braceEnd, nextIsP

theorem braceEnd_rTail (full : Ast → Bool) (xs : List Ast) (rest : List PTok) :
    braceEnd (rTail full xs ++ .p .rbrace :: rest) = true := by
  cases xs with
  | nil => simp [rTail, braceEnd]
  | cons x xs => simp [rTail_cons, braceEnd]

theorem pElems_end (rec : List PTok → Res Ast) (F : Nat) (r : List PTok) :
    pElems rec F (.p .rbrace :: r) = .ok ([], .p .rbrace :: r) := by
  rw [pElems.eq_def]; simp [nextIsP]

theorem pElems_step {rec : List PTok → Res Ast} {t1 t2 : List PTok} {a : Ast} (k : Nat)
    (h : rec t1 = .ok (a, t2)) :
    pElems rec (k + 1) (.p .comma :: t1) =
      match pElems rec k t2 with
      | .error e => .error e
      | .ok (xs, r2) => .ok (a :: xs, r2) := by
  rw [pElems.eq_def]; simp [nextIsP, h]; try rfl

theorem elems_ok (full : Ast → Bool) (n : Nat) (rest : List PTok) :
    ∀ (xs : List Ast) (F : Nat), (rTail full xs).length ≤ F → (∀ a ∈ xs, All a) →
      (rTail full xs).length ≤ n →
      pElems (pExpr n) F (rTail full xs ++ .p .rbrace :: rest) = .ok (xs, .p .rbrace :: rest) := by
  intro xs
  induction xs with
  | nil => intro F _ _ _; simp only [rTail, List.nil_append]; exact pElems_end _ _ _
  | cons a as ih =>
    intro F hF hall hn
    rw [rTail_cons] at hF hn ⊢
    simp only [List.length_cons, List.length_append] at hF hn
    obtain ⟨k, rfl⟩ : ∃ k, F = k + 1 := ⟨F - 1, by omega⟩
    have hrec := rec_ok (hall a (by simp)) full n (rTail full as ++ .p .rbrace :: rest) (by omega)
      (stop_of_braceEnd (braceEnd_rTail full as rest))
    simp only [List.cons_append, List.append_assoc]
    rw [pElems_step k hrec, ih k (by omega) (fun b hb => hall b (by simp [hb])) (by omega)]

theorem not_rbrace_of_start {toks : List PTok} (h : exprStart toks = true) : nextIsP .rbrace toks = false := by
  tok_cases toks with exprStart, nextIsP

theorem all_array {xs : List Ast} (hall : ∀ a ∈ xs, All a) : All (.array xs) := by
  apply all_of_native (by simp [level_array])
  · intro full n rest hn _ _
    have hr : rNat full (.array xs) = .p .lbrace :: ((rTail full xs).drop 1 ++ [.p .rbrace]) := by simp [rNat]
    rw [hr] at hn ⊢
    simp only [List.length_cons, List.length_append, List.length_drop, List.length_nil] at hn
    simp only [level_array, pL, List.cons_append, List.append_assoc, List.nil_append, pTerm]
    cases xs with
    | nil => simp [rTail, pArray, nextIsP]
    | cons a as =>
      rw [rTail_cons] at hn ⊢
      simp only [List.length_cons, List.length_append] at hn
      simp only [List.drop_succ_cons, List.drop_zero, List.append_assoc]
      have hbe := braceEnd_rTail full as rest
      have hrec := rec_ok (hall a (by simp)) full n (rTail full as ++ .p .rbrace :: rest) (by omega)
        (stop_of_braceEnd hbe)
      simp only [pArray, not_rbrace_of_start (pExpr_head hrec), hrec, colon_of_braceEnd hbe,
        Bool.false_eq_true, if_false]
      rw [elems_ok full n rest as _ (by simp only [List.length_append, List.length_cons]; omega)
        (fun b hb => hall b (by simp [hb])) (by omega)]
      simp only [expect_same]
  · intro full rest; rw [level_array]; constructor <;> intro h <;> omega

/-- text of a condition clause -/
def condText (full : Ast → Bool) (c : Ast) : List PTok :=
  wrap (!full c && !startsGen (rNat full c)) (rNat full c)

/-- `, clause` for every clause -/
def clTail (full : Ast → Bool) : List Clause → List PTok
  | [] => []
  | .gen n e :: cs => .p .comma :: .var n :: .cmp .elem :: (rAt full 0 e ++ clTail full cs)
  | .cond c :: cs => .p .comma :: (condText full c ++ clTail full cs)

def mkClauses (gens : List (String × Ast)) (conds : List Ast) : List Clause :=
  gens.map (fun p => Clause.gen p.1 p.2) ++ conds.map Clause.cond

theorem clTail_conds (full : Ast → Bool) (conds : List Ast) :
    rCondTail full conds = clTail full (conds.map Clause.cond) := by
  induction conds with
  | nil => rfl
  | cons c cs ih => simp [rCondTail, clTail, condText, ih]

theorem clTail_mk (full : Ast → Bool) (gens : List (String × Ast)) (conds : List Ast) :
    rGenTail full gens ++ rCondTail full conds = clTail full (mkClauses gens conds) := by
  induction gens with
  | nil => simpa [rGenTail, mkClauses] using clTail_conds full conds
  | cons g gs ih =>
    obtain ⟨n, e⟩ := g
    simp only [mkClauses] at ih
    simp [rGenTail, mkClauses, clTail, rAt_zero, ih]

theorem clauseGens_mk (gens : List (String × Ast)) (conds : List Ast) :
    clauseGens (mkClauses gens conds) = gens := by
  induction gens with
  | nil =>
    simp only [mkClauses, List.map_nil, List.nil_append]
    induction conds with
    | nil => rfl
    | cons c cs ih => simpa [clauseGens] using ih
  | cons g gs ih => obtain ⟨n, e⟩ := g; simp only [mkClauses] at ih; simp [mkClauses, clauseGens, ih]

theorem clauseConds_mk (gens : List (String × Ast)) (conds : List Ast) :
    clauseConds (mkClauses gens conds) = conds := by
  induction gens with
  | nil =>
    simp only [mkClauses, List.map_nil, List.nil_append]
    induction conds with
    | nil => rfl
    | cons c cs ih => simpa [clauseConds] using ih
  | cons g gs ih => obtain ⟨n, e⟩ := g; simp only [mkClauses] at ih; simp [mkClauses, clauseConds, ih]

def ClAll : Clause → Prop
  | .gen _ e => All e
  | .cond c => All c

theorem startsGen_append {ts rest : List PTok} (h : startsGen ts = false) (hr : braceEnd rest = true) :
    startsGen (ts ++ rest) = false := by
  match ts, h with
  | [], _ => tok_cases rest with braceEnd, startsGen
  | [a], _ =>
    cases a <;> simp [startsGen]
    tok_cases rest with braceEnd, startsGen
  | a :: b :: tl, h =>
    cases a <;> try (simp [startsGen]; done)
    cases b <;> try (simp [startsGen]; done)
    rename_i c; cases c <;> simp_all [startsGen]

theorem pClause_fall (rec : List PTok → Res Ast) {toks : List PTok} (h : startsGen toks = false) :
    pClause rec toks =
      match rec toks with
      | .error e => .error e
      | .ok (a, r2) => .ok (.cond a, r2) := by
  unfold pClause
  split
  · simp [startsGen] at h
  · rfl

theorem braceEnd_clTail (full : Ast → Bool) (cs : List Clause) (rest : List PTok) :
    braceEnd (clTail full cs ++ .p .rbrace :: rest) = true := by
  cases cs with
  | nil => simp [clTail, braceEnd]
  | cons c cs => cases c <;> simp [clTail, braceEnd]

theorem cond_ok {c : Ast} (ac : All c) (full : Ast → Bool) (n : Nat) (more : List PTok)
    (hn : (condText full c).length + 1 ≤ n) (hm : braceEnd more = true) :
    pClause (pExpr n) (condText full c ++ more) = .ok (.cond c, more) := by
  obtain ⟨m, rfl⟩ : ∃ m, n = m + 1 := ⟨n - 1, by omega⟩
  unfold condText at hn ⊢
  by_cases hb : (!full c && !startsGen (rNat full c)) = true
  · simp only [hb, wrap, if_true] at hn ⊢
    simp at hb
    rw [pClause_fall _ (startsGen_append hb.2 hm)]
    have h := ac.nat full 0 (Nat.zero_le _) m more (by omega) (stop_of_braceEnd hm)
      (fun _ => stop_pow (stop_of_braceEnd hm) (by omega))
    simp only [pL] at h
    simp only [pExpr, h]
  · rw [Bool.eq_false_iff.mpr hb] at hn ⊢
    simp only [wrap, Bool.false_eq_true, if_false, paren_length] at hn ⊢
    rw [pClause_fall _ (by simp [paren_append, startsGen])]
    have h := par_of_nat (ac.nat full 0 (Nat.zero_le _)) 0 (by omega) m more (by omega) (stop_of_braceEnd hm)
    simp only [pL] at h
    simp only [pExpr, h]

theorem gen_ok {e : Ast} (ae : All e) (full : Ast → Bool) (n : Nat) (name : String) (more : List PTok)
    (hn : (rAt full 0 e).length + 1 ≤ n) (hm : braceEnd more = true) :
    pClause (pExpr n) (.var name :: .cmp .elem :: (rAt full 0 e ++ more)) = .ok (.gen name e, more) := by
  simp only [pClause, rec_ok ae full n more hn (stop_of_braceEnd hm)]

/-- text of one clause -/
def clText (full : Ast → Bool) : Clause → List PTok
  | .gen n e => .var n :: .cmp .elem :: rAt full 0 e
  | .cond c => condText full c

theorem clTail_cons (full : Ast → Bool) (c : Clause) (cs : List Clause) :
    clTail full (c :: cs) = .p .comma :: (clText full c ++ clTail full cs) := by
  cases c <;> simp [clTail, clText]

theorem clause_ok {c : Clause} (hc : ClAll c) (full : Ast → Bool) (n : Nat) (more : List PTok)
    (hn : (clText full c).length + 1 ≤ n) (hm : braceEnd more = true) :
    pClause (pExpr n) (clText full c ++ more) = .ok (c, more) := by
  cases c with
  | gen name e =>
    simp only [clText, List.length_cons] at hn
    simpa [clText] using gen_ok hc full n name more (by omega) hm
  | cond x => exact cond_ok hc full n more hn hm

theorem pClauses_end (rec : List PTok → Res Ast) (F : Nat) (r : List PTok) :
    pClauses rec F (.p .rbrace :: r) = .ok ([], .p .rbrace :: r) := by
  rw [pClauses.eq_def]; simp [nextIsP]

theorem pClauses_step {rec : List PTok → Res Ast} {t1 t2 : List PTok} {c : Clause} (k : Nat)
    (h : pClause rec t1 = .ok (c, t2)) :
    pClauses rec (k + 1) (.p .comma :: t1) =
      match pClauses rec k t2 with
      | .error e => .error e
      | .ok (xs, r2) => .ok (c :: xs, r2) := by
  rw [pClauses.eq_def]; simp [nextIsP, h]; try rfl

theorem clauses_ok (full : Ast → Bool) (n : Nat) (rest : List PTok) :
    ∀ (cs : List Clause) (F : Nat), (clTail full cs).length ≤ F → (∀ c ∈ cs, ClAll c) →
      (clTail full cs).length ≤ n →
      pClauses (pExpr n) F (clTail full cs ++ .p .rbrace :: rest) = .ok (cs, .p .rbrace :: rest) := by
  intro cs
  induction cs with
  | nil => intro F _ _ _; simp only [clTail, List.nil_append]; exact pClauses_end _ _ _
  | cons c cs ih =>
    intro F hF hall hn
    rw [clTail_cons] at hF hn ⊢
    simp only [List.length_cons, List.length_append] at hF hn
    obtain ⟨k, rfl⟩ : ∃ k, F = k + 1 := ⟨F - 1, by omega⟩
    have hrec := clause_ok (hall c (by simp)) full n (clTail full cs ++ .p .rbrace :: rest) (by omega)
      (braceEnd_clTail full cs rest)
    simp only [List.cons_append, List.append_assoc]
    rw [pClauses_step k hrec, ih k (by omega) (fun b hb => hall b (by simp [hb])) (by omega)]

theorem nextIsP_same (s : Punct) (r : List PTok) : nextIsP s (.p s :: r) = true := by
  simp [nextIsP]

theorem all_compr {body : Ast} {gens : List (String × Ast)} {conds : List Ast} (ab : All body)
    (hg : ∀ p ∈ gens, All p.2) (hc : ∀ c ∈ conds, All c) (hne : (gens.isEmpty && conds.isEmpty) = false) :
    All (.compr body gens conds) := by
  apply all_of_native (by simp [level_compr])
  · intro full n rest hn _ _
    have hr : rNat full (.compr body gens conds)
        = .p .lbrace :: (rAt full 0 body ++ .p .colon :: ((clTail full (mkClauses gens conds)).drop 1 ++ [.p .rbrace])) := by
      simp [rNat, rAt_zero, clTail_mk]
    rw [hr] at hn ⊢
    have hcl : ∀ c ∈ mkClauses gens conds, ClAll c := by
      intro c hc'
      simp only [mkClauses, List.mem_append, List.mem_map] at hc'
      rcases hc' with ⟨p, hp, rfl⟩ | ⟨x, hx, rfl⟩
      · exact hg p hp
      · exact hc x hx
    have hmk1 := clauseGens_mk gens conds
    have hmk2 := clauseConds_mk gens conds
    cases hcs : mkClauses gens conds with
    | nil =>
      cases gens <;> cases conds <;> simp_all [mkClauses]
    | cons c cs =>
      rw [hcs] at hn hcl hmk1 hmk2
      rw [clTail_cons] at hn ⊢
      simp only [List.length_cons, List.length_append, List.drop_succ_cons, List.drop_zero, List.length_nil] at hn
      simp only [level_compr, pL, List.cons_append, List.append_assoc, List.nil_append, pTerm,
        List.drop_succ_cons, List.drop_zero]
      have hrec := rec_ok ab full n (.p .colon :: (clText full c ++ (clTail full cs ++ .p .rbrace :: rest)))
        (by omega) rfl
      have hc1 := clause_ok (hcl c (by simp)) full n (clTail full cs ++ .p .rbrace :: rest) (by omega)
        (braceEnd_clTail full cs rest)
      simp only [pArray, not_rbrace_of_start (pExpr_head hrec), hrec, nextIsP_same, if_true,
        Bool.false_eq_true, if_false, List.drop_succ_cons, List.drop_zero, hc1]
      rw [clauses_ok full n rest cs _ (by simp only [List.length_append, List.length_cons]; omega)
        (fun b hb => hcl b (by simp [hb])) (by omega)]
      simp only [expect_same, mkCompr, hmk1, hmk2]
  · intro full rest; rw [level_compr]; constructor <;> intro h <;> omega

/-! ### statements -/

/-- text of one statement -/
def stmtText (full : Ast → Bool) : Ast → List PTok
  | .assign n e => .var n :: .cmp .asg :: rAt full 0 e
  | x => wrap (!full x && !startsAsg (rNat full x)) (rNat full x)

theorem rStmtTail_cons (full : Ast → Bool) (s : Ast) (xs : List Ast) :
    rStmtTail full (s :: xs) = .p .semi :: (stmtText full s ++ rStmtTail full xs) := by
  cases s <;> simp [rStmtTail, stmtText, rAt_zero]

theorem pStatement_fall (rec : List PTok → Res Ast) {toks : List PTok} (h : startsAsg toks = false) :
    pStatement rec toks = rec toks := by
  unfold pStatement
  split
  · simp [startsAsg] at h
  · rfl

/-- what may follow a statement: nothing, or `;` -/
def stmtEnd : List PTok → Bool
  | [] => true
  | .p .semi :: _ => true
  | _ => false

theorem stop_of_stmtEnd {r : List PTok} (h : stmtEnd r = true) : stop 0 r = true := by
  tok_cases r with stmtEnd, stop

theorem startsAsg_append {ts rest : List PTok} (h : startsAsg ts = false) (hr : stmtEnd rest = true) :
    startsAsg (ts ++ rest) = false := by
  match ts, h with
  | [], _ => tok_cases rest with stmtEnd, startsAsg
  | [a], _ =>
    cases a <;> simp [startsAsg]
    tok_cases rest with stmtEnd, startsAsg
  | a :: b :: tl, h =>
    cases a <;> try (simp [startsAsg]; done)
    cases b <;> try (simp [startsAsg]; done)
    rename_i c; cases c <;> simp_all [startsAsg]

theorem stmt_assign {e : Ast} (ae : All e) (full : Ast → Bool) (name : String) (N : Nat) (rest : List PTok)
    (hN : (stmtText full (.assign name e)).length ≤ N) (hr : stmtEnd rest = true) :
    pStatement (pExpr (N + 1)) (stmtText full (.assign name e) ++ rest) = .ok (.assign name e, rest) := by
  simp only [stmtText, List.length_cons] at hN
  have h := good ae full 0 (Nat.zero_le _) N rest (by omega) (stop_of_stmtEnd hr)
    (fun _ _ _ => stop_pow (stop_of_stmtEnd hr) (by omega))
  simp only [pL] at h
  simp only [stmtText, List.cons_append, pStatement, pExpr, h]

theorem stmt_expr {x : Ast} (ax : All x) (hx : ∀ n e, x ≠ .assign n e) (full : Ast → Bool) (N : Nat)
    (rest : List PTok) (hN : (stmtText full x).length ≤ N) (hr : stmtEnd rest = true) :
    pStatement (pExpr (N + 1)) (stmtText full x ++ rest) = .ok (x, rest) := by
  have hst : stmtText full x = wrap (!full x && !startsAsg (rNat full x)) (rNat full x) := by
    cases x <;> first | rfl | exact absurd rfl (hx _ _)
  rw [hst] at hN ⊢
  by_cases hb : (!full x && !startsAsg (rNat full x)) = true
  · simp only [hb, wrap, if_true] at hN ⊢
    simp at hb
    rw [pStatement_fall _ (startsAsg_append hb.2 hr)]
    have h := ax.nat full 0 (Nat.zero_le _) N rest hN (stop_of_stmtEnd hr)
      (fun _ => stop_pow (stop_of_stmtEnd hr) (by omega))
    simpa only [pL, pExpr] using h
  · rw [Bool.eq_false_iff.mpr hb] at hN ⊢
    simp only [wrap, Bool.false_eq_true, if_false, paren_length] at hN ⊢
    rw [pStatement_fall _ (by simp [paren_append, startsAsg])]
    have h := par_of_nat (ax.nat full 0 (Nat.zero_le _)) 0 (by omega) N rest (by omega)
      (stop_of_stmtEnd hr)
    simpa only [pL, pExpr] using h

/-- one statement's text parses back, whatever follows it -/
def StmtOK (full : Ast → Bool) (y : Ast) : Prop :=
  ∀ N rest, (stmtText full y).length ≤ N → stmtEnd rest = true →
    pStatement (pExpr (N + 1)) (stmtText full y ++ rest) = .ok (y, rest)

theorem stmtEnd_rStmtTail (full : Ast → Bool) (xs : List Ast) : stmtEnd (rStmtTail full xs) = true := by
  cases xs with
  | nil => rfl
  | cons x xs => rw [rStmtTail_cons]; rfl

theorem length_rStmtTail (full : Ast → Bool) (xs : List Ast) : xs.length ≤ (rStmtTail full xs).length := by
  induction xs with
  | nil => simp [rStmtTail]
  | cons x xs ih => rw [rStmtTail_cons]; simp only [List.length_cons, List.length_append]; omega

theorem stmts_ok (full : Ast → Bool) (N : Nat) : ∀ (xs : List Ast) (s : Ast) (k : Nat),
    (∀ y ∈ s :: xs, StmtOK full y) → xs.length + 1 ≤ k →
    (stmtText full s ++ rStmtTail full xs).length ≤ N →
    pStatements (pExpr (N + 1)) k (stmtText full s ++ rStmtTail full xs) = .ok (s :: xs) := by
  intro xs
  induction xs with
  | nil =>
    intro s k hall hk hN
    have hst := hall s (by simp) N [] (by simpa [rStmtTail] using hN) rfl
    obtain ⟨k', rfl⟩ : ∃ k', k = k' + 1 := ⟨k - 1, by omega⟩
    simp only [rStmtTail, List.append_nil] at hst ⊢
    cases htoks : stmtText full s with
    | nil => rw [htoks] at hst; exact absurd hst (by simpa [pStatement] using pExpr_nil _ _ _)
    | cons tok tl => rw [htoks] at hst; simp only [pStatements, hst]
  | cons x xs ih =>
    intro s k hall hk hN
    simp only [List.length_cons] at hk
    obtain ⟨k', rfl⟩ : ∃ k', k = k' + 1 := ⟨k - 1, by omega⟩
    rw [rStmtTail_cons] at hN ⊢
    simp only [List.length_append, List.length_cons] at hN
    have hst := hall s (by simp) N (.p .semi :: (stmtText full x ++ rStmtTail full xs)) (by omega) rfl
    have hrec := ih x k' (fun y hy => hall y (by simp at hy ⊢; exact Or.inr hy)) (by omega)
      (by simp only [List.length_append]; omega)
    cases htoks : stmtText full s ++ .p .semi :: (stmtText full x ++ rStmtTail full xs) with
    | nil => simp at htoks
    | cons tok tl =>
      rw [htoks] at hst
      simp only [pStatements, hst, expect_same, hrec]

/-! ### the induction over trees -/

theorem wfEs_mem {as : List Ast} (h : wfEs as = true) {a : Ast} (ha : a ∈ as) : wfE a = true := by
  induction as with
  | nil => cases ha
  | cons b bs ih =>
    simp only [wfEs, Bool.and_eq_true] at h
    rcases List.mem_cons.mp ha with rfl | h'
    · exact h.1
    · exact ih h.2 h'

theorem wfKs_mem {ps : List (String × Ast)} (h : wfKs ps = true) {p : String × Ast} (hp : p ∈ ps) :
    wfE p.2 = true := by
  induction ps with
  | nil => cases hp
  | cons b bs ih =>
    obtain ⟨k, v⟩ := b
    simp only [wfKs, Bool.and_eq_true] at h
    rcases List.mem_cons.mp hp with rfl | h'
    · exact h.1
    · exact ih h.2 h'

theorem all_of_size : ∀ (k : Nat) (t : Ast), sizeOf t ≤ k → wfE t = true → All t := by
  intro k
  induction k with
  | zero => intro t h; cases t <;> simp at h <;> omega
  | succ k ih =>
    intro t hsz hwf
    cases t with
    | num v => exact all_num v (by simpa [wfE] using hwf)
    | var s => exact all_var s
    | str s => exact all_str s
    | inst s => exact all_inst s
    | bin o l r =>
      simp only [wfE, Bool.and_eq_true] at hwf
      simp only [Ast.bin.sizeOf_spec] at hsz
      exact all_bin (ih l (by omega) hwf.1) (ih r (by omega) hwf.2)
    | sign neg x =>
      simp only [wfE] at hwf
      simp only [Ast.sign.sizeOf_spec] at hsz
      exact all_sign neg (ih x (by omega) hwf)
    | fact x =>
      simp only [wfE] at hwf
      simp only [Ast.fact.sizeOf_spec] at hsz
      exact all_fact (ih x (by omega) hwf)
    | cmp1 o a b =>
      simp only [wfE, Bool.and_eq_true] at hwf
      simp only [Ast.cmp1.sizeOf_spec] at hsz
      exact all_cmp1 hwf.1.1 (ih a (by omega) hwf.1.2) (ih b (by omega) hwf.2)
    | cmp2 o1 o2 a b c =>
      simp only [wfE, Bool.and_eq_true] at hwf
      simp only [Ast.cmp2.sizeOf_spec] at hsz
      exact all_cmp2 hwf.1.1.1 (ih a (by omega) hwf.1.1.2) (ih b (by omega) hwf.1.2) (ih c (by omega) hwf.2)
    | range lo hi =>
      simp only [wfE, Bool.and_eq_true] at hwf
      simp only [Ast.range.sizeOf_spec] at hsz
      exact all_range (ih lo (by omega) hwf.1) (ih hi (by omega) hwf.2)
    | interval lo hi =>
      simp only [wfE, Bool.and_eq_true] at hwf
      simp only [Ast.interval.sizeOf_spec] at hsz
      exact all_interval (ih lo (by omega) hwf.1) (ih hi (by omega) hwf.2)
    | quantity x s =>
      simp only [wfE, Bool.and_eq_true] at hwf
      simp only [Ast.quantity.sizeOf_spec] at hsz
      exact all_quantity s hwf.2 (ih x (by omega) hwf.1)
    | convert e s =>
      simp only [wfE, Bool.and_eq_true] at hwf
      simp only [Ast.convert.sizeOf_spec] at hsz
      exact all_convert s hwf.2 (ih e (by omega) hwf.1)
    | call name args kws =>
      simp only [wfE, Bool.and_eq_true] at hwf
      simp only [Ast.call.sizeOf_spec] at hsz
      apply all_call name
      · intro a ha
        have := mem_sizeOf_lt ha
        exact ih a (by omega) (wfEs_mem hwf.1 ha)
      · intro p hp
        have := mem_kw_sizeOf_lt hp
        exact ih p.2 (by omega) (wfKs_mem hwf.2 hp)
    | array xs =>
      simp only [wfE] at hwf
      simp only [Ast.array.sizeOf_spec] at hsz
      apply all_array
      intro a ha
      have := mem_sizeOf_lt ha
      exact ih a (by omega) (wfEs_mem hwf ha)
    | compr body gens conds =>
      simp only [wfE, Bool.and_eq_true, Bool.not_eq_true'] at hwf
      simp only [Ast.compr.sizeOf_spec] at hsz
      apply all_compr (ih body (by omega) hwf.1.1.1)
      · intro p hp
        have := mem_kw_sizeOf_lt hp
        exact ih p.2 (by omega) (wfKs_mem hwf.1.1.2 hp)
      · intro c hc
        have := mem_sizeOf_lt hc
        exact ih c (by omega) (wfEs_mem hwf.1.2 hc)
      · exact hwf.2
    | assign name e => simp [wfE] at hwf
    | stmts ss => simp [wfE] at hwf

/-- every expression tree the grammar can produce parses back from its text, at every level -/
theorem all_wf {t : Ast} (hwf : wfE t = true) : All t :=
  all_of_size (sizeOf t) t (Nat.le_refl _) hwf

theorem stmtOK_of_wf (full : Ast → Bool) {s : Ast} (hwf : wfS s = true) : StmtOK full s := by
  intro N rest hN hr
  cases s with
  | assign name e => exact stmt_assign (all_wf (by simpa [wfS] using hwf)) full name N rest hN hr
  | stmts ss => simp [wfS, wfE] at hwf
  | _ =>
    exact stmt_expr (all_wf (by simpa [wfS] using hwf)) (by intro n e h; cases h) full N rest hN hr

theorem roundtrip_toks (full : Ast → Bool) (ss : List Ast) (hall : ∀ s ∈ ss, StmtOK full s) :
    parseToks (rNat full (.stmts ss)) = .ok (.stmts ss) := by
  have hr : rNat full (.stmts ss) = (rStmtTail full ss).drop 1 := by simp [rNat]
  rw [hr]
  cases ss with
  | nil => simp [rStmtTail, parseToks, pStatements]
  | cons s xs =>
    rw [rStmtTail_cons]
    simp only [List.drop_succ_cons, List.drop_zero, parseToks]
    have hlen := length_rStmtTail full xs
    rw [stmts_ok full _ xs s _ hall (by simp only [List.length_append]; omega) (Nat.le_refl _)]

/-! ### a keyword argument followed by a positional one is an error -/

theorem err_up (rec : List PTok → Res Ast) {toks : List PTok} {e : PErr}
    (h : pUwf rec toks = .error e) (hh : headP toks = true) : pExprBody rec toks = .error e := by
  have h9 : pUnsigned rec toks = .error e := by simp [pUnsigned, h]
  have h8 : pUnitless rec toks = .error e := by rw [pUnitless_fall rec hh]; exact h9
  have h7 : pQuantity rec toks = .error e := by simp [pQuantity, h8]
  have h6 : pRange rec toks = .error e := by simp [pRange, h7]
  have h5 : pTerm rec toks = .error e := by rw [pTerm_fall rec (headU_of_headP hh)]; exact h6
  have h4 : pFactor rec toks = .error e := by simp [pFactor, binLevel, h5]
  have h3 : pProduct rec toks = .error e := by simp [pProduct, binLevel, h4]
  have h2 : pSum rec toks = .error e := by simp [pSum, binLevel, h3]
  have h1 : pComparison rec toks = .error e := by simp [pComparison, h2]
  simp [pExprBody, h1]

theorem kw_then_pos_err (rec : List PTok → Res Ast) (k : Nat) {t1 : List PTok} (hk : isKwStart t1 = false) :
    ∃ j, pKeyword rec (k + 1) true (.p .comma :: t1) = .error (.at j) := by
  rw [pKeyword]
  simp only [nextIsP, expect_same, if_true]
  match t1, hk with
  | [], _ => exact ⟨_, rfl⟩
  | .var name :: [], _ => exact ⟨_, by simp [expect]; rfl⟩
  | .var name :: b :: tl, hk =>
    cases b with
    | p s => cases s <;> first | (simp [isKwStart] at hk; done) | exact ⟨_, by simp [expect]; rfl⟩
    | _ => exact ⟨_, by simp [expect]; rfl⟩
  | .num _ :: _, _ | .str _ :: _, _ | .inst _ :: _, _ | .op _ :: _, _ | .cmp _ :: _, _ | .p _ :: _, _
  | .bad :: _, _ => exact ⟨_, rfl⟩

/-- tokens `f ( k : v , a )` with a positional argument after a keyword argument: a ParsingError -/
theorem kwarg_before_positional (f k : String) {a v : Ast} (ha : wfE a = true) (hv : wfE v = true) :
    ∃ j, parseToks (.var f :: .p .lpar :: .var k :: .p .colon ::
        (rAt noExtra 0 v ++ .p .comma :: (rAt noExtra 0 a ++ [.p .rpar]))) = .error (.at j) := by
  have av := all_wf hv
  have aa := all_wf ha
  generalize hN : (PTok.var f :: .p .lpar :: .var k :: .p .colon ::
        (rAt noExtra 0 v ++ .p .comma :: (rAt noExtra 0 a ++ [.p .rpar]))).length = N
  simp only [List.length_cons, List.length_append, List.length_nil] at hN
  -- the call itself fails
  have hrv := rec_ok av noExtra N (.p .comma :: (rAt noExtra 0 a ++ [.p .rpar])) (by omega) rfl
  have hra := rec_ok aa noExtra N [.p .rpar] (by omega) rfl
  obtain ⟨j, hj⟩ := kw_then_pos_err (pExpr N)
    ((rAt noExtra 0 v ++ PTok.p .comma :: (rAt noExtra 0 a ++ [PTok.p .rpar])).length + 1)
    (not_kwStart_of_rec hra rfl)
  have hj' : pKeyword (pExpr N)
      ((rAt noExtra 0 v ++ PTok.p .comma :: (rAt noExtra 0 a ++ [PTok.p .rpar])).length + 2) true
      (PTok.p .comma :: (rAt noExtra 0 a ++ [PTok.p .rpar])) = .error (.at j) := hj
  have hcall : pUwf (pExpr N) (.var f :: .p .lpar :: .var k :: .p .colon ::
        (rAt noExtra 0 v ++ .p .comma :: (rAt noExtra 0 a ++ [.p .rpar]))) = .error (.at j) := by
    simp only [pUwf, nextIsP_same, if_true, List.drop_succ_cons, List.drop_zero, pCall, pPositional_kw_first,
      List.length_cons, pKeyword_step_first _ _ hrv, hj']
  have hbody := err_up (pExpr N) hcall rfl
  refine ⟨j, ?_⟩
  simp only [parseToks, List.length_cons, List.length_append, List.length_nil, hN]
  have hst : pStatement (pExpr (N + 1)) (.var f :: .p .lpar :: .var k :: .p .colon ::
        (rAt noExtra 0 v ++ .p .comma :: (rAt noExtra 0 a ++ [.p .rpar]))) = .error (.at j) := by
    rw [pStatement_fall _ (by simp [startsAsg])]
    exact hbody
  simp only [pStatements, hst]

end KaVerif.Parser
