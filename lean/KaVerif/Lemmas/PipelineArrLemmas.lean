import KaVerif.Lemmas.Pipeline2Lemmas
import KaVerif.Lemmas.ArrayLemmas
import KaVerif.Props.C12
/-
  Helper lemmas for Props/PipelineArr.lean: the refinement gaps of the unified pipeline model
  (`Model/Eval.lean`) that Pipeline2 left open — comprehensions (simulation between the two
  environment representations and the two loops), the scoping discipline of `eval_comprehension`
  (save / set in place / restore = the local copy `Eval.comprehension` runs on), `median` (insertion
  by key = the array fragment's stable insertion sort; every sorted permutation has the same values
  position by position), `range(lo, hi, step)` on every numeric kind, and the aggregates on arrays
  of same-dimension quantities.

  Own namespace `KaVerif.PipeArr`; nothing here edits or shadows a definition of `KaVerif.Eval`.
  Proof style as in Pipeline2Lemmas: table fact (kernel `decide` on given keys) + `dispatchV_step` +
  unfolding of the one registered body; no proof enumerates the constructors of `Eval.Val`,
  `Eval.BodyCode` or the rows of `implTable`.
-/
namespace KaVerif.PipeArr
open KaVerif Num KaVerif.Parser Eval Pipe2

/-! ### bindings: `get` after `set`, observational equality -/

theorem lookup_filter_ne {β : Type} (l : List (String × β)) (x y : String) (h : y ≠ x) :
    List.lookup y (l.filter (fun p => p.1 != x)) = List.lookup y l := by
  induction l with
  | nil => rfl
  | cons p t ih =>
    obtain ⟨a, b⟩ := p
    by_cases hp : a = x
    · subst hp
      have h1 : ((a, b).1 != a) = false := by simp
      have h2 : (y == a) = false := by simpa using h
      simp only [List.filter_cons, h1, Bool.false_eq_true, if_false, ih, List.lookup_cons, h2]
    · have h1 : ((a, b).1 != x) = true := by simpa using hp
      simp only [List.filter_cons, h1, if_true, List.lookup_cons, ih]

theorem lookup_filter_self {β : Type} (l : List (String × β)) (x : String) :
    List.lookup x (l.filter (fun p => p.1 != x)) = none := by
  induction l with
  | nil => rfl
  | cons p t ih =>
    obtain ⟨a, b⟩ := p
    by_cases hp : a = x
    · subst hp
      have h1 : ((a, b).1 != a) = false := by simp
      simp only [List.filter_cons, h1, Bool.false_eq_true, if_false, ih]
    · have h1 : ((a, b).1 != x) = true := by simpa using hp
      have h2 : (x == a) = false := by simpa using fun h : x = a => hp h.symm
      simp only [List.filter_cons, h1, if_true, List.lookup_cons, h2, ih]

theorem get_set_same (env : Env) (x : String) (v : Val) : (env.set x v).get x = some v := by
  simp [Env.set, Env.get]

theorem get_set_other (env : Env) (x y : String) (v : Val) (h : y ≠ x) : (env.set x v).get y = env.get y := by
  have hb : (y == x) = false := by simpa using h
  simp only [Env.set, Env.get, List.lookup_cons, hb]
  exact lookup_filter_ne env x y h

theorem get_set (env : Env) (x y : String) (v : Val) :
    (env.set x v).get y = if y = x then some v else env.get y := by
  by_cases h : y = x
  · subst h; simp [get_set_same]
  · simp [h, get_set_other env x y v h]

/-- two binding lists that read the same under every name (the only way the evaluator looks at them) -/
def EnvEq (a b : Env) : Prop := ∀ x, a.get x = b.get x

theorem EnvEq.refl (a : Env) : EnvEq a a := fun _ => rfl
theorem EnvEq.symm {a b : Env} (h : EnvEq a b) : EnvEq b a := fun x => (h x).symm
theorem EnvEq.trans {a b c : Env} (h : EnvEq a b) (h' : EnvEq b c) : EnvEq a c := fun x => (h x).trans (h' x)

theorem EnvEq.set {a b : Env} (h : EnvEq a b) (x : String) (v : Val) : EnvEq (a.set x v) (b.set x v) := by
  intro y
  rw [get_set, get_set, h y]

/-! ### the simulation relation between `Eval.Env` and the array fragment's `Arr.Env V` -/

/-- `emb` embeds the fragment's values; the evaluator's bindings read, under every name, as the
    embedding of what the fragment's association list holds (the evaluator keeps one binding per name —
    `Env.set` filters —, the fragment pushes: related, not equal) -/
def EnvSim {V : Type} (emb : V → Val) (env : Env) (e : Arr.Env V) : Prop :=
  ∀ x, env.get x = (e.lookup x).map emb

theorem EnvSim.set {V : Type} {emb : V → Val} {env : Env} {e : Arr.Env V} (h : EnvSim emb env e) (n : String) (v : V) :
    EnvSim emb (env.set n (emb v)) ((n, v) :: e) := by
  intro x
  rw [get_set]
  by_cases hx : x = n
  · subst hx; simp [List.lookup]
  · have hb : (x == n) = false := by simpa using hx
    simp only [hx, if_false, List.lookup_cons, hb]
    exact h x

theorem EnvSim.of_eq {V : Type} {emb : V → Val} {env env' : Env} {e : Arr.Env V} (h : EnvSim emb env e)
    (h' : EnvEq env' env) : EnvSim emb env' e := fun x => (h' x).trans (h x)

/-- two evaluator environments related to the same fragment environment read the same -/
theorem EnvSim.envEq {V : Type} {emb : V → Val} {env env' : Env} {e : Arr.Env V} (h : EnvSim emb env e)
    (h' : EnvSim emb env' e) : EnvEq env env' := fun x => (h x).trans (h' x).symm

/-- the session model's bindings (C14) under `envOf` -/
theorem envSim_envOf (senv : Session.Env) : EnvSim valOf (envOf senv) senv := by
  intro x
  rw [envOf_get]; rfl

theorem envSim_id (env : Env) : EnvSim (fun v : Val => v) env env := by
  intro x
  simp only [Env.get]
  cases List.lookup x env <;> rfl

/-- generator clauses of the fragment, as the evaluator holds them after evaluating the generator
    expressions -/
def embGens {V : Type} (emb : V → Val) (gens : List (String × List V)) : List (String × List Val) :=
  gens.map (fun g => (g.1, g.2.map emb))

/-- both binding loops at index `i`: exhausted together, or related environments -/
def OptSim {V : Type} (emb : V → Val) : Option Env → Option (Arr.Env V) → Prop
  | some a, some b => EnvSim emb a b
  | none, none => True
  | _, _ => False

theorem bind_sim {V : Type} (emb : V → Val) (i : Nat) (gens : List (String × List V)) (env : Env) (e : Arr.Env V)
    (h : EnvSim emb env e) :
    OptSim emb (bindGens i (embGens emb gens) env) (Arr.comprStep.bind i (gens.map (·.1)) (gens.map (·.2)) e) := by
  induction gens generalizing env e with
  | nil => exact h
  | cons g rest ih =>
    obtain ⟨n, a⟩ := g
    simp only [embGens, List.map_cons, bindGens, Arr.comprStep.bind, List.getElem?_map]
    by_cases hi : i < a.length
    · simp only [hi, dite_true, List.getElem?_eq_getElem hi, Option.map_some]
      exact ih _ _ (h.set n a[i])
    · have : a[i]? = none := List.getElem?_eq_none (Nat.le_of_not_lt hi)
      simp only [hi, dite_false, this, Option.map_none]
      trivial

/-! ### the two loops -/

/-- the fragment's reading of a condition value -/
def condOpt : Arr.Cond → Option Bool
  | .one => some true
  | .zero => some false
  | .notBool => none

/-- a fragment outcome (list of fragment values) inside the unified evaluator -/
def liftArr {V : Type} (emb : V → Val) : Except Err (List V) → R Val
  | .ok xs => .ok (.arr (xs.map emb))
  | .error e => .error (.err e)

/-- an evaluator condition and a fragment condition agree at a pair of environments: the evaluator's
    value, read by `bool_like` / `== 0`, is the fragment's `Cond`; failures have the same class -/
def CondAgree {V : Type} (env : Env) (e : Arr.Env V) (c : Env → R Val) (fc : Arr.Env V → Except Err Arr.Cond) : Prop :=
  (c env >>= boolLike) = liftE ((fc e).map condOpt)

/-- an evaluator body and a fragment body agree at a pair of environments (the evaluator resolves a lazy
    body value before storing it) -/
def BodyAgree {V : Type} (emb : V → Val) (env : Env) (e : Arr.Env V) (b : Env → R Val) (fb : Arr.Env V → Except Err V) : Prop :=
  (b env >>= resolveLazy) = liftE ((fb e).map emb)

theorem condLoop_sim {V : Type} (env : Env) (e : Arr.Env V) (conds : List (Env → R Val))
    (fconds : List (Arr.Env V → Except Err Arr.Cond)) (h : List.Forall₂ (CondAgree env e) conds fconds) (ok : Bool) :
    condLoop env conds ok = liftE (Arr.comprStep.evalConds e fconds ok) := by
  induction h generalizing ok with
  | nil => rfl
  | @cons c fc cs fcs hc _ ih =>
    unfold CondAgree at hc
    simp only [condLoop, Arr.comprStep.evalConds]
    cases hv : c env with
    | error er =>
      rw [hv] at hc
      cases hf : fc e with
      | error er' =>
        rw [hf] at hc; simp only [bind, Except.bind, Except.map, liftE] at hc ⊢
        injection hc with hc; subst hc; rfl
      | ok k => rw [hf] at hc; simp [bind, Except.bind, Except.map, liftE] at hc
    | ok v =>
      rw [hv] at hc
      simp only [bind, Except.bind] at hc ⊢
      cases hf : fc e with
      | error er' => rw [hf] at hc; simp only [Except.map, liftE] at hc; rw [hc]; rfl
      | ok k =>
        rw [hf] at hc
        simp only [Except.map, liftE] at hc
        rw [hc]
        cases k with
        | one => simp only [condOpt, Bool.and_true]; exact ih ok
        | zero => simp only [condOpt, Bool.and_false]; exact ih false
        | notBool => rfl

/-- **the loop simulation**: from related outer environments, with conditions and body agreeing at
    every pair of environments the two binding loops produce, the evaluator's `run_comprehension` loop
    and the fragment's loop return the same list (embedded) or fail with the same class — provided the
    generators are exhausted within the fuel (`k` more iterations), which is what both callers supply. -/
theorem comprLoop_sim {V : Type} (emb : V → Val) (gens : List (String × List V))
    (conds : List (Env → R Val)) (fconds : List (Arr.Env V → Except Err Arr.Cond))
    (body : Env → R Val) (fbody : Arr.Env V → Except Err V) (env : Env) (e : Arr.Env V) (hsim : EnvSim emb env e)
    (hagree : ∀ i env' e', bindGens i (embGens emb gens) env = some env' →
        Arr.comprStep.bind i (gens.map (·.1)) (gens.map (·.2)) e = some e' →
        List.Forall₂ (CondAgree env' e') conds fconds ∧ BodyAgree emb env' e' body fbody)
    (fuel i : Nat) (acc : List V)
    (hfuel : ∃ k, k < fuel ∧ Arr.comprStep.bind (i + k) (gens.map (·.1)) (gens.map (·.2)) e = none) :
    Eval.comprLoop (embGens emb gens) conds body env fuel i (acc.map emb) =
      liftArr emb (Arr.comprLoop (gens.map (·.1)) (gens.map (·.2)) fconds fbody e fuel i acc) := by
  induction fuel generalizing i acc with
  | zero => obtain ⟨k, hk, _⟩ := hfuel; omega
  | succ f ih =>
    obtain ⟨k, hk, hnone⟩ := hfuel
    have hb := bind_sim emb i gens env e hsim
    simp only [Eval.comprLoop, Arr.comprLoop, Arr.comprStep]
    cases h1 : bindGens i (embGens emb gens) env with
    | none =>
      cases h2 : Arr.comprStep.bind i (gens.map (·.1)) (gens.map (·.2)) e with
      | none => simp [bind, Except.bind, liftArr]
      | some e' => rw [h1, h2] at hb; exact hb.elim
    | some env' =>
      cases h2 : Arr.comprStep.bind i (gens.map (·.1)) (gens.map (·.2)) e with
      | none => rw [h1, h2] at hb; exact hb.elim
      | some e' =>
        have hk0 : k ≠ 0 := by
          intro h0; subst h0
          rw [Nat.add_zero, h2] at hnone; cases hnone
        have hnext : ∃ k', k' < f ∧ Arr.comprStep.bind (i + 1 + k') (gens.map (·.1)) (gens.map (·.2)) e = none :=
          ⟨k - 1, by omega, by rw [show i + 1 + (k - 1) = i + k by omega]; exact hnone⟩
        obtain ⟨hc, hbd⟩ := hagree i env' e' h1 h2
        simp only [condLoop_sim env' e' conds fconds hc true]
        cases hk' : Arr.comprStep.evalConds e' fconds true with
        | error er => simp [liftE, bind, Except.bind, liftArr]
        | ok keep =>
          cases keep with
          | false =>
            simp only [liftE, bind, Except.bind, Bool.false_eq_true, if_false]
            exact ih (i + 1) acc hnext
          | true =>
            unfold BodyAgree at hbd
            simp only [liftE, bind, Except.bind, if_true] at hbd ⊢
            cases hv : body env' with
            | error er =>
              rw [hv] at hbd
              cases hf : fbody e' with
              | error er' => rw [hf] at hbd; simp only [Except.map] at hbd; injection hbd with hbd; subst hbd; rfl
              | ok w => rw [hf] at hbd; simp [Except.map] at hbd
            | ok v =>
              rw [hv] at hbd
              dsimp only at hbd ⊢
              cases hf : fbody e' with
              | error er' => rw [hf] at hbd; simp only [Except.map] at hbd; rw [hbd]; rfl
              | ok w =>
                rw [hf] at hbd
                simp only [Except.map] at hbd
                rw [hbd]
                exact ih (i + 1) (w :: acc) hnext

/-! ### `eval_comprehension` -/

theorem foldl_min_mem (l : List Nat) (init : Nat) : l.foldl min init ∈ init :: l := by
  induction l generalizing init with
  | nil => simp
  | cons h t ih =>
    simp only [List.foldl_cons]
    have := ih (min init h)
    simp only [List.mem_cons] at this ⊢
    rcases this with h1 | h1
    · rcases Nat.le_total init h with h2 | h2
      · left; rw [h1, Nat.min_eq_left h2]
      · right; left; rw [h1, Nat.min_eq_right h2]
    · right; right; exact h1

/-- the bound both models give their loop: the length of the shortest generator array -/
def minLen {V : Type} (arrays : List (List V)) : Nat := (arrays.map List.length).foldl min (arrays.headD []).length

/-- at index `minLen` some generator is exhausted -/
theorem bind_none_at_min {V : Type} (gens : List (String × List V)) (hne : gens ≠ []) (e : Arr.Env V) :
    Arr.comprStep.bind (minLen (gens.map (·.2))) (gens.map (·.1)) (gens.map (·.2)) e = none := by
  cases hb : Arr.comprStep.bind (minLen (gens.map (·.2))) (gens.map (·.1)) (gens.map (·.2)) e with
  | none => rfl
  | some e' =>
    exfalso
    have hl := (C12_comprehension_lockstep (gens.map (·.1)) (gens.map (·.2)) e (minLen (gens.map (·.2))) (by simp)).mp
      (by rw [hb]; rfl)
    have hm := foldl_min_mem ((gens.map (·.2)).map List.length) ((gens.map (·.2)).headD []).length
    have hm' : minLen (gens.map (·.2)) ∈ (gens.map (·.2)).map List.length := by
      cases gens with
      | nil => exact absurd rfl hne
      | cons g rest =>
        simp only [List.map_cons, List.headD_cons, List.mem_cons] at hm ⊢
        rcases hm with h | h | h
        · left; exact h
        · left; exact h
        · right; exact h
    obtain ⟨a, ha, hlen⟩ := List.mem_map.mp hm'
    have := hl a ha
    omega

theorem arrays_embGens {V : Type} (emb : V → Val) (gens : List (String × List V)) :
    arrays? (gens.map (fun g => (g.1, Val.arr (g.2.map emb)))) = some (embGens emb gens) := by
  induction gens with
  | nil => rfl
  | cons g rest ih =>
    obtain ⟨n, a⟩ := g
    simp only [List.map_cons, arrays?, ih, embGens, Option.map_some]

theorem minLen_embGens {V : Type} (emb : V → Val) (gens : List (String × List V)) :
    ((embGens emb gens).map (fun g => g.2.length)).foldl min (((embGens emb gens).headD ("", [])).2.length)
      = minLen (gens.map (·.2)) := by
  unfold minLen embGens
  cases gens with
  | nil => rfl
  | cons g rest => simp [List.map_map, Function.comp_def]

/-- **`eval_comprehension` after the generator expressions**: the evaluator's comprehension over the
    embedded generator arrays is the fragment's `Arr.comprehension` -/
theorem comprehension_sim {V : Type} (emb : V → Val) (gens : List (String × List V)) (hne : gens ≠ [])
    (conds : List (Env → R Val)) (fconds : List (Arr.Env V → Except Err Arr.Cond))
    (body : Env → R Val) (fbody : Arr.Env V → Except Err V) (env : Env) (e : Arr.Env V) (hsim : EnvSim emb env e)
    (hagree : ∀ i env' e', bindGens i (embGens emb gens) env = some env' →
        Arr.comprStep.bind i (gens.map (·.1)) (gens.map (·.2)) e = some e' →
        List.Forall₂ (CondAgree env' e') conds fconds ∧ BodyAgree emb env' e' body fbody) :
    Eval.comprehension (gens.map (fun g => (g.1, Val.arr (g.2.map emb)))) conds body env =
      liftArr emb (Arr.comprehension (gens.map (·.1)) (gens.map (·.2)) fconds fbody e) := by
  have hemp : (gens.map (·.1)).isEmpty = false := by cases gens <;> simp_all
  simp only [Eval.comprehension, arrays_embGens, minLen_embGens, Arr.comprehension, hemp, Bool.false_eq_true, if_false]
  have := comprLoop_sim emb gens conds fconds body fbody env e hsim hagree (minLen (gens.map (·.2)) + 1) 0 []
    ⟨minLen (gens.map (·.2)), by omega, by rw [Nat.zero_add]; exact bind_none_at_min gens hne e⟩
  simpa [minLen] using this

theorem evalConds_eq_map (cs : List Ast) : evalConds cs = cs.map (fun c env' => evalE env' c) := by
  induction cs with
  | nil => rfl
  | cons c cs ih => simp only [evalConds, ih, List.map_cons]

/-- `eval_node` on an ARRAY_WITH_CONDITION node -/
theorem evalE_compr (env : Env) (body : Ast) (gens : List (String × Ast)) (conds : List Ast) :
    evalE env (.compr body gens conds) =
      (if gens.isEmpty then raise .eval else
        evalKs env gens >>= fun subs =>
          Eval.comprehension subs (conds.map (fun c env' => evalE env' c)) (fun env' => evalE env' body) env) := by
  simp only [evalE, evalConds_eq_map]

/-- the generator clauses evaluate, left to right, to the embedded arrays -/
theorem evalKs_gens {V : Type} (emb : V → Val) (env : Env) (gens : List (String × Ast)) (arrays : List (List V))
    (h : List.Forall₂ (fun g a => evalE env g.2 = .ok (.arr (a.map emb))) gens arrays) :
    ∃ gl : List (String × List V), gl.map (·.1) = gens.map (·.1) ∧ gl.map (·.2) = arrays ∧
      evalKs env gens = .ok (gl.map (fun g => (g.1, Val.arr (g.2.map emb)))) := by
  induction h with
  | nil => exact ⟨[], rfl, rfl, rfl⟩
  | @cons g a gs as' hg _ ih =>
    obtain ⟨gl, h1, h2, h3⟩ := ih
    obtain ⟨n, t⟩ := g
    refine ⟨(n, a) :: gl, by simp [h1], by simp [h2], ?_⟩
    simp only at hg
    simp only [evalKs, hg, h3, bind, Except.bind, List.map_cons]

/-! ### evaluation reads the bindings through `get` only -/

/-- a function of the environment that cannot tell apart two binding lists that read the same -/
def Respects {α : Type} (f : Env → α) : Prop := ∀ a b, EnvEq a b → f a = f b

theorem bindGens_congr (i : Nat) (gens : List (String × List Val)) (a b : Env) (h : EnvEq a b) :
    match bindGens i gens a, bindGens i gens b with
    | some a', some b' => EnvEq a' b'
    | none, none => True
    | _, _ => False := by
  induction gens generalizing a b with
  | nil => exact h
  | cons g rest ih =>
    obtain ⟨n, xs⟩ := g
    simp only [bindGens]
    cases xs[i]? with
    | none => trivial
    | some v => exact ih _ _ (h.set n v)

theorem condLoop_congr (conds : List (Env → R Val)) (hc : ∀ c ∈ conds, Respects c) (a b : Env) (h : EnvEq a b) (ok : Bool) :
    condLoop a conds ok = condLoop b conds ok := by
  induction conds generalizing ok with
  | nil => rfl
  | cons c cs ih =>
    have hcs : ∀ c' ∈ cs, Respects c' := fun c' hm => hc c' (List.mem_cons_of_mem _ hm)
    simp only [condLoop, hc c List.mem_cons_self a b h]
    cases c b with
    | error er => rfl
    | ok v =>
      simp only [bind, Except.bind]
      cases boolLike v with
      | error er => rfl
      | ok m =>
        cases m with
        | none => rfl
        | some bb => exact ih hcs _

theorem comprLoop_congr (gens : List (String × List Val)) (conds : List (Env → R Val)) (body : Env → R Val)
    (hc : ∀ c ∈ conds, Respects c) (hb : Respects body) (a b : Env) (h : EnvEq a b) (fuel i : Nat) (acc : List Val) :
    Eval.comprLoop gens conds body a fuel i acc = Eval.comprLoop gens conds body b fuel i acc := by
  induction fuel generalizing i acc with
  | zero => rfl
  | succ f ih =>
    have hg := bindGens_congr i gens a b h
    simp only [Eval.comprLoop]
    cases h1 : bindGens i gens a with
    | none =>
      cases h2 : bindGens i gens b with
      | none => rfl
      | some b' => rw [h1, h2] at hg; exact hg.elim
    | some a' =>
      cases h2 : bindGens i gens b with
      | none => rw [h1, h2] at hg; exact hg.elim
      | some b' =>
        rw [h1, h2] at hg
        simp only [condLoop_congr conds hc a' b' hg true, hb a' b' hg]
        cases condLoop b' conds true with
        | error er => rfl
        | ok keep =>
          cases keep with
          | false => simp only [bind, Except.bind, Bool.false_eq_true, if_false]; exact ih _ _
          | true =>
            simp only [bind, Except.bind, if_true]
            cases body b' with
            | error er => rfl
            | ok v =>
              dsimp only
              cases resolveLazy v with
              | error er => rfl
              | ok w => exact ih _ _

theorem comprehension_congr (subs : List (String × Val)) (conds : List (Env → R Val)) (body : Env → R Val)
    (hc : ∀ c ∈ conds, Respects c) (hb : Respects body) (a b : Env) (h : EnvEq a b) :
    Eval.comprehension subs conds body a = Eval.comprehension subs conds body b := by
  simp only [Eval.comprehension]
  cases arrays? subs with
  | none => rfl
  | some gens => exact comprLoop_congr gens conds body hc hb a b h _ _ _

mutual
/-- **evaluation depends on the bindings only through `get`**: two binding lists that read the same
    under every name give every expression tree the same value or failure.  (So the evaluator's
    `Env.set` — one binding per name, newest first — and any other representation of the session's
    dictionary are interchangeable.) -/
theorem evalE_congr : (t : Ast) → ∀ a b : Env, EnvEq a b → evalE a t = evalE b t
  | .var x => fun a b h => by simp only [evalE, h x]
  | .bin o l r => fun a b h => by simp only [evalE, evalE_congr l a b h, evalE_congr r a b h]
  | .sign neg x => fun a b h => by simp only [evalE, evalE_congr x a b h]
  | .fact x => fun a b h => by simp only [evalE, evalE_congr x a b h]
  | .range lo hi => fun a b h => by simp only [evalE, evalE_congr lo a b h, evalE_congr hi a b h]
  | .interval lo hi => fun a b h => by simp only [evalE, evalE_congr lo a b h, evalE_congr hi a b h]
  | .cmp1 o x y => fun a b h => by simp only [evalE, evalE_congr x a b h, evalE_congr y a b h]
  | .cmp2 o1 o2 x y z => fun a b h => by
    simp only [evalE, evalE_congr x a b h, evalE_congr y a b h, evalE_congr z a b h]
  | .call name args kws => fun a b h => by simp only [evalE, evalEs_congr args a b h, evalKs_congr kws a b h]
  | .quantity t sig => fun a b h => by simp only [evalE, evalE_congr t a b h]
  | .convert t sig => fun a b h => by simp only [evalE, evalE_congr t a b h]
  | .array xs => fun a b h => by simp only [evalE, evalEs_congr xs a b h]
  | .compr body gens conds => fun a b h => by
    simp only [evalE, evalKs_congr gens a b h]
    split
    · rfl
    · cases evalKs b gens with
      | error er => rfl
      | ok subs =>
        exact comprehension_congr subs _ _ (evalConds_respects conds) (fun a' b' h' => evalE_congr body a' b' h') a b h
  | .num _ => fun _ _ _ => by simp only [evalE]
  | .str _ => fun _ _ _ => by simp only [evalE]
  | .inst _ => fun _ _ _ => by simp only [evalE]
  | .assign _ _ => fun _ _ _ => by simp only [evalE]
  | .stmts _ => fun _ _ _ => by simp only [evalE]
theorem evalEs_congr : (ts : List Ast) → ∀ a b : Env, EnvEq a b → evalEs a ts = evalEs b ts
  | [] => fun _ _ _ => rfl
  | t :: ts => fun a b h => by simp only [evalEs, evalE_congr t a b h, evalEs_congr ts a b h]
theorem evalKs_congr : (ts : List (String × Ast)) → ∀ a b : Env, EnvEq a b → evalKs a ts = evalKs b ts
  | [] => fun _ _ _ => rfl
  | (k, t) :: ts => fun a b h => by simp only [evalKs, evalE_congr t a b h, evalKs_congr ts a b h]
theorem evalConds_respects : (cs : List Ast) → ∀ c ∈ evalConds cs, Respects c
  | [] => fun c hc => by simp [evalConds] at hc
  | t :: ts => fun c hc => by
    simp only [evalConds, List.mem_cons] at hc
    rcases hc with rfl | hc
    · exact fun a b h => evalE_congr t a b h
    · exact evalConds_respects ts c hc
end

/-! ### the code's scoping discipline: save, set in place, restore

  `Eval.comprehension` runs the loop on a local copy of the bindings (each index binds the generator
  variables on top of the OUTER environment and the result is thrown away).  The code instead mutates
  the session's dictionary in place and puts the saved entries back in a `finally`.  The definitions
  below follow the code (eval.py `EvalEnvironment.save_variables` / `restore_variables`,
  `eval_comprehension`'s try/finally, `run_comprehension`'s in-place `set_variable`); the theorems show
  that this is observationally the local copy: same value or failure, and afterwards every name reads
  as before. -/

/-- `EvalEnvironment.save_variables(names)`: per name, whether it was set and its value -/
def saveVars (env : Env) (names : List String) : List (String × Option Val) := names.map (fun n => (n, env.get n))

/-- `self._variables.pop(name, None)` -/
def envPop (env : Env) (x : String) : Env := env.filter (fun p => p.1 != x)

/-- `EvalEnvironment.restore_variables(saved)` -/
def restoreVars : Env → List (String × Option Val) → Env
  | env, [] => env
  | env, (n, some v) :: r => restoreVars (env.set n v) r
  | env, (n, Option.none) :: r => restoreVars (envPop env n) r

/-- the `for name, subarray in zip(assign_names, subarrays)` loop at index `i`, writing into the session's
    bindings; `true` = some generator was exhausted (the earlier names of this round are already written) -/
def bindInPlace (i : Nat) : List (String × List Val) → Env → Env × Bool
  | [], env => (env, false)
  | (n, a) :: rest, env =>
    match a[i]? with
    | some v => bindInPlace i rest (env.set n v)
    | Option.none => (env, true)

/-- `run_comprehension` on the session's own bindings: returns them as the loop leaves them -/
def comprLoopMut (gens : List (String × List Val)) (conds : List (Env → R Val)) (body : Env → R Val) :
    Nat → Nat → Env → List Val → Env × R Val
  | 0, _, env, _ => (env, .error .fuel)
  | f + 1, i, env, acc =>
    match bindInPlace i gens env with
    | (env', true) => (env', .ok (.arr acc.reverse))
    | (env', false) =>
      match condLoop env' conds true with
      | .error er => (env', .error er)
      | .ok false => comprLoopMut gens conds body f (i + 1) env' acc
      | .ok true =>
        match body env' >>= resolveLazy with
        | .error er => (env', .error er)
        | .ok v => comprLoopMut gens conds body f (i + 1) env' (v :: acc)

/-- `eval_comprehension` from the check of the generator values on: `saved = env.save_variables(names)`,
    `try: run_comprehension(…) finally: env.restore_variables(saved)` — the bindings afterwards and the
    value or failure -/
def comprehensionMut (subs : List (String × Val)) (conds : List (Env → R Val)) (body : Env → R Val) (env : Env) :
    Env × R Val :=
  match arrays? subs with
  | Option.none => (env, raise .eval)
  | some gens =>
    let saved := saveVars env (gens.map (·.1))
    let n := (gens.map (fun g => g.2.length)).foldl min ((gens.headD ("", [])).2.length)
    let r := comprLoopMut gens conds body (n + 1) 0 env []
    (restoreVars r.1 saved, r.2)

/-- two binding lists that read the same outside `names` -/
def AgreeOff (names : List String) (a b : Env) : Prop := ∀ x, x ∉ names → a.get x = b.get x

theorem AgreeOff.set {names : List String} {a b : Env} (h : AgreeOff names a b) (n : String) (hn : n ∈ names) (v : Val) :
    AgreeOff names (a.set n v) b := by
  intro x hx
  have : x ≠ n := fun hh => hx (hh ▸ hn)
  rw [get_set_other a n x v this]
  exact h x hx

theorem bindInPlace_agreeOff (i : Nat) (names : List String) (gens : List (String × List Val))
    (hsub : ∀ g ∈ gens, g.1 ∈ names) (cur env : Env) (h : AgreeOff names cur env) :
    AgreeOff names (bindInPlace i gens cur).1 env := by
  induction gens generalizing cur with
  | nil => exact h
  | cons g rest ih =>
    obtain ⟨n, a⟩ := g
    simp only [bindInPlace]
    cases a[i]? with
    | none => exact h
    | some v =>
      exact ih (fun g hg => hsub g (List.mem_cons_of_mem _ hg)) _ (h.set n (hsub (n, a) List.mem_cons_self) v)

/-- writing the generator variables in place on bindings that agree with the outer ones outside the
    not-yet-written names = binding them on top of the outer ones -/
theorem bindInPlace_rel (i : Nat) (rest : List (String × List Val)) (cur pur : Env)
    (hinv : ∀ x, x ∈ rest.map (·.1) ∨ cur.get x = pur.get x) :
    match bindInPlace i rest cur, bindGens i rest pur with
    | (cur', false), some p' => EnvEq cur' p'
    | (_, true), Option.none => True
    | _, _ => False := by
  induction rest generalizing cur pur with
  | nil =>
    simp only [bindInPlace, bindGens]
    intro x
    rcases hinv x with h | h
    · simp at h
    · exact h
  | cons g rest ih =>
    obtain ⟨n, a⟩ := g
    simp only [bindInPlace, bindGens]
    cases a[i]? with
    | none => trivial
    | some v =>
      apply ih
      intro x
      by_cases hx : x = n
      · right; subst hx; rw [get_set_same, get_set_same]
      · rcases hinv x with h | h
        · left
          simp only [List.map_cons, List.mem_cons] at h
          rcases h with h | h
          · exact absurd h hx
          · exact h
        · right; rw [get_set_other _ _ _ _ hx, get_set_other _ _ _ _ hx]; exact h

theorem agreeOff_inv {names : List String} {cur env : Env} (h : AgreeOff names cur env) :
    ∀ x, x ∈ names ∨ cur.get x = env.get x := by
  intro x
  by_cases hx : x ∈ names
  · exact Or.inl hx
  · exact Or.inr (h x hx)

/-- the in-place loop computes what the local-copy loop computes, and keeps every other name as it was -/
theorem comprLoopMut_spec (gens : List (String × List Val)) (conds : List (Env → R Val)) (body : Env → R Val)
    (hc : ∀ c ∈ conds, Respects c) (hb : Respects body) (env : Env) (fuel i : Nat) (cur : Env) (acc : List Val)
    (h : AgreeOff (gens.map (·.1)) cur env) :
    (comprLoopMut gens conds body fuel i cur acc).2 = Eval.comprLoop gens conds body env fuel i acc ∧
    AgreeOff (gens.map (·.1)) (comprLoopMut gens conds body fuel i cur acc).1 env := by
  induction fuel generalizing i cur acc with
  | zero => exact ⟨rfl, h⟩
  | succ f ih =>
    have hrel := bindInPlace_rel i gens cur env (agreeOff_inv h)
    have hoff := bindInPlace_agreeOff i (gens.map (·.1)) gens (fun g hg => List.mem_map_of_mem hg) cur env h
    simp only [comprLoopMut, Eval.comprLoop]
    cases h1 : bindInPlace i gens cur with
    | mk cur' ex =>
      rw [h1] at hrel hoff
      simp only at hoff
      cases h2 : bindGens i gens env with
      | none =>
        rw [h2] at hrel
        cases ex with
        | true => exact ⟨rfl, hoff⟩
        | false => exact hrel.elim
      | some p' =>
        rw [h2] at hrel
        cases ex with
        | true => exact hrel.elim
        | false =>
          simp only at hrel ⊢
          rw [condLoop_congr conds hc cur' p' hrel true, hb cur' p' hrel]
          cases condLoop p' conds true with
          | error er => exact ⟨rfl, hoff⟩
          | ok keep =>
            cases keep with
            | false =>
              simp only [bind, Except.bind, Bool.false_eq_true, if_false]
              exact ih (i + 1) cur' acc hoff
            | true =>
              simp only [bind, Except.bind, if_true]
              cases body p' with
              | error er => exact ⟨rfl, hoff⟩
              | ok v =>
                dsimp only
                cases resolveLazy v with
                | error er => exact ⟨rfl, hoff⟩
                | ok w => exact ih (i + 1) cur' (w :: acc) hoff

theorem get_envPop_same (env : Env) (x : String) : (envPop env x).get x = none := lookup_filter_self env x
theorem get_envPop_other (env : Env) (x y : String) (h : y ≠ x) : (envPop env x).get y = env.get y :=
  lookup_filter_ne env x y h

/-- `restore_variables(save_variables(names))` undoes every write to `names` -/
theorem restoreVars_spec (env : Env) (l : List String) (cur : Env) (hinv : ∀ x, x ∈ l ∨ cur.get x = env.get x) :
    EnvEq (restoreVars cur (saveVars env l)) env := by
  induction l generalizing cur with
  | nil =>
    intro x
    rcases hinv x with h | h
    · simp at h
    · exact h
  | cons n l ih =>
    simp only [saveVars, List.map_cons]
    cases hv : env.get n with
    | none =>
      simp only [restoreVars]
      apply ih
      intro x
      by_cases hx : x = n
      · right; subst hx; rw [get_envPop_same, hv]
      · rcases hinv x with h | h
        · left
          rcases List.mem_cons.mp h with h | h
          · exact absurd h hx
          · exact h
        · right; rw [get_envPop_other _ _ _ hx]; exact h
    | some v =>
      simp only [restoreVars]
      apply ih
      intro x
      by_cases hx : x = n
      · right; subst hx; rw [get_set_same, hv]
      · rcases hinv x with h | h
        · left
          rcases List.mem_cons.mp h with h | h
          · exact absurd h hx
          · exact h
        · right; rw [get_set_other _ _ _ _ hx]; exact h

/-- **save / set in place / restore is the local copy**: for conditions and a body that read the
    bindings through `get` only (every expression tree does: `evalE_congr`), the code's discipline
    returns what `Eval.comprehension` returns — value or failure —, and afterwards every name, generator
    variable or not, reads exactly as before (also when the loop failed). -/
theorem comprehensionMut_spec (subs : List (String × Val)) (conds : List (Env → R Val)) (body : Env → R Val)
    (hc : ∀ c ∈ conds, Respects c) (hb : Respects body) (env : Env) :
    (comprehensionMut subs conds body env).2 = Eval.comprehension subs conds body env ∧
    EnvEq (comprehensionMut subs conds body env).1 env := by
  simp only [comprehensionMut, Eval.comprehension]
  cases arrays? subs with
  | none => exact ⟨rfl, EnvEq.refl env⟩
  | some gens =>
    simp only
    have h := comprLoopMut_spec gens conds body hc hb env
      ((gens.map (fun g => g.2.length)).foldl min ((gens.headD ("", [])).2.length) + 1) 0 env [] (fun _ _ => rfl)
    exact ⟨h.1, restoreVars_spec env _ _ (agreeOff_inv h.2)⟩

/-- a generator value that is not an array makes `eval_comprehension` raise before the loop -/
theorem arrays_none_of_bad (subs : List (String × Val)) (hbad : ∃ p ∈ subs, ∀ xs, p.2 ≠ Val.arr xs) :
    arrays? subs = none := by
  obtain ⟨p, hp, hpa⟩ := hbad
  induction subs with
  | nil => simp at hp
  | cons q rest ih =>
    obtain ⟨n, v⟩ := q
    rcases List.mem_cons.mp hp with rfl | hp'
    · cases v <;> first | rfl | exact absurd rfl (hpa _)
    · have := ih hp'
      cases v <;> simp [arrays?, this]

/-! ### instances: the session fragment's expressions (C14) and closed arithmetic trees (C01) as bodies and conditions -/

/-- the six comparisons on integers -/
def intCmp : Compare.CmpOp → Int → Int → Bool
  | .lt, x, y => decide (x < y) | .le, x, y => decide (x ≤ y) | .eq, x, y => decide (x = y)
  | .ne, x, y => !decide (x = y) | .gt, x, y => decide (y < x) | .ge, x, y => decide (y ≤ x)

theorem cmpNum_int (op : Compare.CmpOp) (x y : Int) :
    Compare.cmpNum op (.int x) (.int y) = Compare.b2n (intCmp op x y) := by
  cases op <;> simp [Compare.cmpNum, intCmp, cmpLt, cmpLe, cmpEq, toRat]

theorem evalCmp_int (op : Compare.CmpOp) (x y : Int) :
    Compare.evalCmp op (.num (.int x)) (.num (.int y)) = .ok (Compare.b2n (intCmp op x y)) := by
  rw [← cmpNum_int]
  cases op <;> simp [Compare.evalCmp, Compare.dispatchCmp, Compare.cmpNum]

theorem boolLike_b2n (b : Bool) : boolLike (.num (Compare.b2n b)) = .ok (some b) := by
  cases b <;> simp [boolLike, Compare.b2n, cmpEq, toRat]

/-- a failing operand makes the comparison node fail with the same class, whichever operand the
    parser's flip of `>` / `>=` evaluates first -/
theorem evalE_mkCmp1_err (env : Env) (o : PCmp) (A B : Ast) (er : EvalErr)
    (h : (evalE env A = .error er ∧ (evalE env B = .error er ∨ ∃ v, evalE env B = .ok v)) ∨
         ((∃ v, evalE env A = .ok v) ∧ evalE env B = .error er)) :
    evalE env (mkCmp1 o A B) = .error er := by
  unfold mkCmp1
  split <;> simp only [evalE]
  all_goals
    rcases h with ⟨hA, hB | ⟨v, hB⟩⟩ | ⟨⟨v, hA⟩, hB⟩ <;> simp only [hA, hB, bind, Except.bind]

/-- a session expression under ANY evaluator environment related to the session's bindings -/
theorem evalE_embedS_sim (w : Session.World) (env : Env) (senv : Session.Env) (hs : EnvSim valOf env senv)
    (ex : Session.Exp) (h : coreExp ex = true) : evalE env (embedS ex) = resOf (Session.evalE w senv ex) := by
  rw [evalE_congr (embedS ex) env (envOf senv) (hs.envEq (envSim_envOf senv))]
  exact evalE_embedS w senv ex h

/-- the session fragment's expression as a comprehension body of the array fragment -/
def sessBody (w : Session.World) (ex : Session.Exp) : Arr.Env Int → Except Err Int := fun e =>
  match Session.evalE w e ex with
  | .ok v => .ok v
  | .error _ => .error .eval

/-- `a op b` on two session expressions as a condition of the array fragment (always 0 or 1) -/
def sessCond (w : Session.World) (op : Compare.CmpOp) (a b : Session.Exp) : Arr.Env Int → Except Err Arr.Cond := fun e =>
  match Session.evalE w e a, Session.evalE w e b with
  | .ok x, .ok y => .ok (if intCmp op x y then .one else .zero)
  | _, _ => .error .eval

theorem sessBody_agree (w : Session.World) (env : Env) (senv : Session.Env) (hs : EnvSim valOf env senv)
    (ex : Session.Exp) (h : coreExp ex = true) :
    (evalE env (embedS ex) >>= resolveLazy) = liftE ((sessBody w ex senv).map valOf) := by
  rw [evalE_embedS_sim w env senv hs ex h]
  unfold sessBody
  cases Session.evalE w senv ex <;> rfl

theorem sessCond_agree (w : Session.World) (env : Env) (senv : Session.Env) (hs : EnvSim valOf env senv)
    (op : Compare.CmpOp) (a b : Session.Exp) (ha : coreExp a = true) (hb : coreExp b = true) :
    (evalE env (mkCmp1 (pcmpOf op) (embedS a) (embedS b)) >>= boolLike) = liftE ((sessCond w op a b senv).map condOpt) := by
  have hA := evalE_embedS_sim w env senv hs a ha
  have hB := evalE_embedS_sim w env senv hs b hb
  unfold sessCond
  cases hx : Session.evalE w senv a with
  | error er =>
    rw [hx] at hA
    have hB' : evalE env (embedS b) = .error (.err .eval) ∨ ∃ v, evalE env (embedS b) = .ok v := by
      rw [hB]; cases Session.evalE w senv b with
      | error _ => exact Or.inl rfl
      | ok y => exact Or.inr ⟨_, rfl⟩
    rw [evalE_mkCmp1_err env _ _ _ (.err .eval) (Or.inl ⟨hA, hB'⟩)]
    rfl
  | ok x =>
    rw [hx] at hA
    cases hy : Session.evalE w senv b with
    | error er =>
      rw [hy] at hB
      rw [evalE_mkCmp1_err env _ _ _ (.err .eval) (Or.inr ⟨⟨_, hA⟩, hB⟩)]
      rfl
    | ok y =>
      rw [hy] at hB
      rw [evalE_mkCmp1 env op _ _ (.num (.int x)) (.num (.int y)) hA hB rfl rfl, evalCmp_int]
      simp only [liftN, bind, Except.bind, boolLike_b2n, Except.map, liftE]
      cases intCmp op x y <;> rfl

/-- generator sources of the integer sub-language: a literal array of integers, or `lo..hi` -/
inductive IntGen where
  | lit (xs : List Int)
  | range (lo hi : Int)
deriving Repr, Inhabited

def IntGen.toAst : IntGen → Ast
  | .lit xs => .array (xs.map intLit)
  | .range lo hi => .range (intLit lo) (intLit hi)

/-- the integers the generator walks -/
def IntGen.values : IntGen → List Int
  | .lit xs => xs
  | .range lo hi => Arr.range lo hi

/-- ranges stay below the model's size bound `Eval.maxRange` -/
def IntGen.modelled : IntGen → Bool
  | .lit _ => true
  | .range lo hi => decide ((hi + 1 - lo).toNat ≤ maxRange)

theorem evalEs_intLits (env : Env) (xs : List Int) : evalEs env (xs.map intLit) = .ok (xs.map valOf) := by
  induction xs with
  | nil => rfl
  | cons x t ih => simp only [List.map_cons, evalEs, evalE_intLit, ih, bind, Except.bind, valOf]

theorem mapM_resolveLazy_ints (xs : List Int) : (xs.map valOf).mapM resolveLazy = .ok (xs.map valOf) := by
  induction xs with
  | nil => rfl
  | cons x t ih =>
    simp only [List.map_cons, List.mapM_cons, ih, bind, Except.bind, valOf, resolveLazy, pure, Except.pure]

theorem evalE_intGen (env : Env) (g : IntGen) (h : g.modelled = true) :
    evalE env g.toAst = .ok (.arr (g.values.map valOf)) := by
  cases g with
  | lit xs => simp only [IntGen.toAst, evalE, evalEs_intLits, bind, Except.bind, mapM_resolveLazy_ints, IntGen.values]
  | range lo hi =>
    simp only [IntGen.modelled, decide_eq_true_eq] at h
    simp only [IntGen.toAst, evalE, evalE_intLit, bind, Except.bind, IntGen.values]
    exact dispatch_range _ lo hi h

/-- the fragment's reading of a number as a condition value (`bool_like`, `== 0`) -/
def numCond (v : Num) : Arr.Cond := if cmpEq v (.int 1) then .one else if cmpEq v (.int 0) then .zero else .notBool

theorem boolLike_num (v : Num) : boolLike (.num v) = .ok (condOpt (numCond v)) := by
  simp only [boolLike, numCond]
  cases cmpEq v (.int 1) <;> cases cmpEq v (.int 0) <;> rfl

/-! ### `median`: insertion by key = the array fragment's stable insertion sort -/

/-- **Table fact.** `median` on an array reaches `array_median`. -/
theorem median_table :
    (resolveDesc "median" [cArr] []).toOption = some (chP [tArray] "median|(Array)|ka.functions.array_median" .arrMedian) := by
  decide +kernel

/-- the order `ka_cmp` sorts by: exact value (Python compares int / Fraction / float exactly) -/
def leNum (a b : Num) : Prop := a.toRat ≤ b.toRat

theorem insertSorted_perm (x : Num) (ys : List Num) : (Arr.insertSorted x ys).Perm (x :: ys) := by
  induction ys with
  | nil => exact List.Perm.refl _
  | cons y ys ih =>
    simp only [Arr.insertSorted]
    split
    · exact List.Perm.refl _
    · exact (List.Perm.cons y ih).trans (List.Perm.swap x y ys)

theorem insertSorted_sorted (x : Num) (ys : List Num) (h : ys.Pairwise leNum) :
    (Arr.insertSorted x ys).Pairwise leNum := by
  induction ys with
  | nil => simp [Arr.insertSorted]
  | cons y ys ih =>
    simp only [Arr.insertSorted]
    rw [List.pairwise_cons] at h
    split
    · rename_i hlt
      have hlt' : x.toRat < y.toRat := by simpa [cmpLt] using hlt
      rw [List.pairwise_cons]
      refine ⟨?_, List.pairwise_cons.mpr h⟩
      intro z hz
      rcases List.mem_cons.mp hz with rfl | hz'
      · exact le_of_lt hlt'
      · exact le_trans (le_of_lt hlt') (h.1 z hz')
    · rename_i hge
      have hge' : ¬ x.toRat < y.toRat := by simpa [cmpLt] using hge
      rw [List.pairwise_cons]
      refine ⟨?_, ih h.2⟩
      intro z hz
      have := (insertSorted_perm x ys).mem_iff.mp hz
      rcases List.mem_cons.mp this with rfl | hz'
      · exact not_lt.mp hge'
      · exact h.1 z hz'

/-- **insertion sort by key is a sorted permutation**, for every kind of number (floats included:
    the order is the exact value) -/
theorem sortNums_perm_sorted (xs : List Num) : (Arr.sortNums xs).Perm xs ∧ (Arr.sortNums xs).Pairwise leNum := by
  unfold Arr.sortNums
  have : ∀ (acc : List Num), acc.Pairwise leNum →
      (xs.foldl (fun acc x => Arr.insertSorted x acc) acc).Perm (acc ++ xs) ∧
      (xs.foldl (fun acc x => Arr.insertSorted x acc) acc).Pairwise leNum := by
    induction xs with
    | nil => intro acc h; simpa using h
    | cons x t ih =>
      intro acc h
      simp only [List.foldl_cons]
      obtain ⟨hp, hs⟩ := ih (Arr.insertSorted x acc) (insertSorted_sorted x acc h)
      refine ⟨hp.trans ?_, hs⟩
      have h1 : (Arr.insertSorted x acc ++ t).Perm ((x :: acc) ++ t) := List.Perm.append_right t (insertSorted_perm x acc)
      refine h1.trans ?_
      simp only [List.cons_append]
      exact (List.perm_middle (l₁ := acc) (a := x) (l₂ := t)).symm
  simpa using this [] List.Pairwise.nil

/-- **any two sorted permutations agree in value position by position** (the order is a total preorder
    whose equivalence is "same exact value"): whatever correct sort the code uses, the element at each
    index — in particular the middle one(s) — has the same value; only its KIND (1/2 vs 0.5) can depend
    on the algorithm, and only among elements of equal value. -/
theorem sorted_perm_values (s t : List Num) (hp : s.Perm t) (hs : s.Pairwise leNum) (ht : t.Pairwise leNum) :
    s.map toRat = t.map toRat := by
  apply List.Perm.eq_of_pairwise (le := fun a b : Rat => a ≤ b)
  · intro a b _ _ h1 h2; exact le_antisymm h1 h2
  · exact List.pairwise_map.mpr hs
  · exact List.pairwise_map.mpr ht
  · exact hp.map _

/-- … so on arrays of stored EXACT numbers (value determines the stored number) the sorted array is
    the same list whatever the algorithm -/
theorem sorted_perm_unique_exact (s t : List Num) (hp : s.Perm t) (hs : s.Pairwise leNum) (ht : t.Pairwise leNum)
    (hex : ∀ x ∈ t, ∃ q, x = canon q) : s = t := by
  have hv := sorted_perm_values s t hp hs ht
  have hcs : ∀ x ∈ s, canon x.toRat = x := by
    intro x hx
    obtain ⟨q, rfl⟩ := hex x (hp.mem_iff.mp hx)
    rw [toRat_canon]
  have hct : ∀ x ∈ t, canon x.toRat = x := by
    intro x hx
    obtain ⟨q, rfl⟩ := hex x hx
    rw [toRat_canon]
  have hm : ∀ l : List Num, (∀ x ∈ l, canon x.toRat = x) → (l.map toRat).map canon = l := by
    intro l
    induction l with
    | nil => intro _; rfl
    | cons x r ih =>
      intro h
      simp only [List.map_cons, h x List.mem_cons_self, ih (fun y hy => h y (List.mem_cons_of_mem _ hy))]
  rw [← hm s hcs, ← hm t hct, hv]

/-- the evaluator's insertion by key, on elements that wrap a number whose key is the number itself
    (plain numbers; quantities of one dimension), is the fragment's `insertSorted` -/
theorem insertByKey_wrap (wrap : Num → Val) (x : Num) (l : List Num) :
    insertByKey (wrap x, x) (l.map (fun y => (wrap y, y))) = (Arr.insertSorted x l).map (fun y => (wrap y, y)) := by
  induction l with
  | nil => rfl
  | cons y ys ih =>
    simp only [List.map_cons, insertByKey, Arr.insertSorted]
    cases cmpLt x y with
    | true => simp
    | false => simp [ih]

theorem foldl_insertByKey_wrap (wrap : Num → Val) (d : List Int) (xs acc : List Num) :
    (xs.map (fun x => (wrap x, (x, d)))).foldl (fun acc (k : Val × Num × List Int) => insertByKey (k.1, k.2.1) acc)
        (acc.map (fun y => (wrap y, y)))
      = (xs.foldl (fun acc x => Arr.insertSorted x acc) acc).map (fun y => (wrap y, y)) := by
  induction xs generalizing acc with
  | nil => rfl
  | cons x t ih => simp only [List.map_cons, List.foldl_cons, insertByKey_wrap, ih]

theorem mapM_medianKey (wrap : Num → Val) (d : List Int) (hkey : ∀ x, medianKey (wrap x) = some (x, d)) (xs : List Num) :
    (xs.map wrap).mapM (fun v => (medianKey v).map (fun k => (v, k))) = some (xs.map (fun x => (wrap x, (x, d)))) := by
  induction xs with
  | nil => rfl
  | cons x t ih => simp [List.mapM_cons, hkey, ih]

theorem getD_map_wrap (wrap : Num → Val) (l : List Num) (i : Nat) (h : i < l.length) :
    (l.map wrap).getD i Val.none = wrap (l.getD i (.int 0)) := by
  simp [List.getD_eq_getElem?_getD, List.getElem?_eq_getElem h]

theorem sortNums_length (xs : List Num) : (Arr.sortNums xs).length = xs.length := (sortNums_perm_sorted xs).1.length_eq

theorem sortNums_getD_mem (xs : List Num) (i : Nat) (h : i < xs.length) : (Arr.sortNums xs).getD i (.int 0) ∈ xs := by
  have hi : i < (Arr.sortNums xs).length := by rw [sortNums_length]; exact h
  rw [List.getD_eq_getElem?_getD, List.getElem?_eq_getElem hi]
  exact (sortNums_perm_sorted xs).1.mem_iff.mp (List.getElem_mem hi)

/-- a fragment outcome on numbers, wrapped (`wrap = Val.num` for plain numbers, `Val.qty · d` for quantities) -/
def liftW (wrap : Num → Val) : Except Err Num → R Val
  | .ok v => .ok (wrap v)
  | .error e => .error (.err e)

/-- **`median` through the unified evaluator, generically**: for array elements that wrap a number which
    is their sort key, with `+` and `/ 2` on wrapped elements acting on the wrapped numbers, `array_median`
    is the fragment's `Arr.arrayMedian` on the numbers, wrapped. -/
theorem dispatch_median_wrap (n : Nat) (wrap : Num → Val) (d : List Int)
    (hkey : ∀ x, medianKey (wrap x) = some (x, d))
    (hadd : ∀ a b, dispatchV (n + 2) "+" [wrap a, wrap b] [] = liftW wrap (binop .add a b))
    (hdiv : ∀ a, dispatchV (n + 2) "/" [wrap a, .num (.int 2)] [] = liftW wrap (binop .div a (.int 2)))
    (hsimp : ∀ x, Canon x → simplifyVal (wrap x) = .ok (wrap x))
    (xs : List Num) (hc : ∀ x ∈ xs, Canon x) :
    dispatchV (n + 3) "median" [.arr (xs.map wrap)] [] = liftW wrap (Arr.arrayMedian xs) := by
  rw [step1 (a := .arr (xs.map wrap)) median_table rfl]
  simp only [BodyCode.run]
  match xs, hc with
  | [], _ => rfl
  | [x], hc =>
    have : Arr.arrayMedian [x] = .ok x := by
      simp [Arr.arrayMedian, Arr.sortNums, Arr.insertSorted]
    simp only [List.map_cons, List.map_nil, bArrMedian, this, liftW, bind, Except.bind, hsimp x (hc x (by simp))]
  | a :: b :: t, hc =>
    have hlen : (a :: b :: t).length = t.length + 2 := rfl
    have hm := mapM_medianKey wrap d hkey (a :: b :: t)
    have hs := foldl_insertByKey_wrap wrap d (a :: b :: t) []
    simp only [List.map_nil] at hs
    have hsl := sortNums_length (a :: b :: t)
    unfold Arr.sortNums at hsl
    simp only [List.map_cons] at hm hs
    simp only [List.map_cons, bArrMedian, hm, List.headD_cons, List.any_cons, List.any_map, Function.comp_def,
      bne_self_eq_false, Bool.false_or, List.any_eq_true, Bool.false_eq_true, and_false, exists_false, if_false, hs,
      List.map_map, List.length_map, Arr.arrayMedian, List.isEmpty_cons, Arr.sortNums, hsl]
    by_cases hev : (t.length + 2) % 2 = 0
    · have h1 : (t.length + 2) / 2 - 1 < (Arr.sortNums (a :: b :: t)).length := by rw [sortNums_length]; simp only [hlen]; omega
      have h2 : (t.length + 2) / 2 < (Arr.sortNums (a :: b :: t)).length := by rw [sortNums_length]; simp only [hlen]; omega
      unfold Arr.sortNums at h1 h2
      simp only [List.length_cons, hev, if_true, getD_map_wrap wrap _ _ h1, getD_map_wrap wrap _ _ h2, hadd]
      cases hs1 : binop .add _ _ with
      | error er => rfl
      | ok s1 =>
        simp only [liftW, bind, Except.bind, hdiv]
        cases hs2 : binop .div s1 (.int 2) with
        | error er => rfl
        | ok r => simp only [hsimp r (binop_idem hs2)]
    · have h2 : (t.length + 2) / 2 < (Arr.sortNums (a :: b :: t)).length := by rw [sortNums_length]; simp only [hlen]; omega
      have hmem := sortNums_getD_mem (a :: b :: t) ((t.length + 2) / 2) (by simp only [hlen]; omega)
      unfold Arr.sortNums at h2 hmem
      simp only [List.length_cons, hev, if_false, getD_map_wrap wrap _ _ h2, liftW, bind, Except.bind]
      exact hsimp _ (hc _ hmem)

theorem liftN_eq_liftW (r : Except Err Num) : liftN r = liftW Val.num r := by cases r <;> rfl

theorem simplifyVal_num_canon (x : Num) (h : Canon x) : simplifyVal (.num x) = .ok (.num x) := by
  unfold Canon at h
  simp only [simplifyVal, h, liftE, Except.map]

theorem simplifyVal_qty_canon (x : Num) (d : List Int) (h : Canon x) : simplifyVal (.qty x d) = .ok (.qty x d) := by
  unfold Canon at h
  simp only [simplifyVal, h, liftE, Except.map]

/-- **`median`** of an array of stored numbers is `Arr.arrayMedian` -/
theorem dispatch_median (n : Nat) (xs : List Num) (hc : ∀ x ∈ xs, Canon x) :
    dispatchV (n + 3) "median" [.arr (xs.map .num)] [] = liftN (Arr.arrayMedian xs) := by
  rw [liftN_eq_liftW]
  apply dispatch_median_wrap n Val.num zeroDim (fun _ => rfl) _ _ simplifyVal_num_canon xs hc
  · intro a b; rw [← liftN_eq_liftW]; exact dispatch_add (n + 1) a b
  · intro a; rw [← liftN_eq_liftW]; exact dispatch_div (n + 1) a (.int 2)

theorem dimSub_zero (d : List Int) (k : Nat) (h : d.length ≤ k) : Qty.Dim.sub d (Qty.Dim.zero k) = d := by
  unfold Qty.Dim.sub Qty.Dim.zero
  induction d generalizing k with
  | nil => simp
  | cons x t ih =>
    cases k with
    | zero => simp at h
    | succ k =>
      simp only [List.replicate_succ, List.zipWith_cons_cons, Int.sub_zero, List.cons.injEq, true_and]
      exact ih k (by simpa using h)

/-- **`median`** of an array of quantities of one dimension is `Arr.arrayMedian` of the base-unit
    magnitudes, with that dimension: the sort is by magnitude, the even case adds two quantities of the same
    dimension and divides the sum by the plain number 2 (dimension unchanged) -/
theorem dispatch_median_qty (n : Nat) (xs : List Num) (hc : ∀ x ∈ xs, Canon x) (d : List Int) (hd : d.length = nBase) :
    dispatchV (n + 3) "median" [.arr (xs.map (fun m => Val.qty m d))] [] =
      liftW (fun m => Val.qty m d) (Arr.arrayMedian xs) := by
  apply dispatch_median_wrap n (fun m => Val.qty m d) d (fun _ => rfl) _ _ (fun x h => simplifyVal_qty_canon x d h) xs hc
  · intro a b
    have h := dispatch_qtyOp n .add a d b d
    simp only [qopName] at h
    rw [h]
    simp only [Qty.qtyOp, bne_self_eq_false, Bool.false_eq_true, if_false, Qty.numOp]
    cases binop .add a b <;> rfl
  · intro a
    have h := dispatch_applyOp n .div (.qty a d) (.num (.int 2))
    simp only [qopName, ofQVal] at h
    rw [h]
    simp only [liftQ, Qty.applyOp, Qty.qtyOp, Qty.numOp, dimSub_zero d nBase (Nat.le_of_eq hd)]
    cases binop .div a (.int 2) <;> rfl

theorem canon_isCanon (q : Rat) : Canon (canon q) := simplify_idem (simplify_frac q)

/-- a stored exact number is the canonical delivery of its value -/
theorem canon_of_exact (x : Num) (hc : Canon x) (hx : x.isExact = true) : ∃ q, x = canon q := by
  cases x with
  | int k => exact ⟨(k : Rat), (canon_intCast k).symm⟩
  | frac q =>
    unfold Canon at hc
    rw [simplify_frac] at hc
    exact ⟨q, (Except.ok.inj hc).symm⟩
  | flt f => simp [isExact] at hx

/-! ### `range(lo, hi, step)` on every numeric kind -/

/-- **Table fact.** `range` with three numbers of any kinds reaches `ka_range`. -/
theorem kaRange_table_all : ∀ a ∈ kinds3, ∀ b ∈ kinds3, ∀ c ∈ kinds3,
    (resolveDesc "range" [a, b, c] []).toOption =
      some (chP [tNum, tNum, tNum] "range|(Number, Number, Number)|ka.functions.ka_range" .kaRange) := by
  decide +kernel

/-- the `while dispatch("<=", (curr, hi))` loop of `ka_range` on Python numbers of any kind, without
    `dispatch`: exact comparison, `curr + step` as `dispatch("+")` computes it (floating point as soon as a
    float is involved, then `simplify_type`), and the no-progress guard of fix efcc27a — `curr < curr + step`
    compared exactly, FunctionArgError otherwise (`1e16 + 0.5 == 1e16`).  When the round bound is reached the
    loop declines (`unmodelled "huge range"`): with the guard the Python loop always ends, so there is no
    `diverges` answer. -/
def numRangeLoop (hi step : Num) : Nat → Num → List Num → R (List Num)
  | 0, _, _ => .error (.unmodelled "huge range")
  | f + 1, curr, acc =>
    if cmpLe curr hi then do
      let nx ← liftE (binop .add curr step)
      if !cmpLt curr nx then raise .funArg else
      numRangeLoop hi step f nx (curr :: acc)
    else .ok acc.reverse

/-- `ka_range` on Python numbers of any kind, with the model's two size refusals (nominal length beyond
    `maxRange` before the loop; the loop's own round bound `kaRangeFuel`) -/
def numKaRange (lo hi step : Num) : R (List Num) :=
  if !cmpLt (.int 0) step then raise .funArg
  else if !cmpLe lo hi then raise .funArg
  else if ((hi.toRat - lo.toRat) / step.toRat).floor.toNat + 3 > maxRange then .error (.unmodelled "huge range")
  else numRangeLoop hi step (kaRangeFuel lo hi step) lo []

theorem rnum_add (n : Nat) (a b : Num) :
    rnum (fun nm as => dispatchV (n + 1) nm as []) "+" [a, b] = liftE (binop .add a b) := by
  simp only [rnum, List.map, dispatch_add]
  cases binop .add a b <;> rfl

theorem kaRangeLoop_num (n : Nat) (hi step : Num) (f : Nat) (c : Num) (acc : List Num) :
    kaRangeLoop (fun nm as => dispatchV (n + 1) nm as []) hi step f c (acc.map Val.num) =
      (numRangeLoop hi step f c acc).map (fun xs => .arr (xs.map Val.num)) := by
  induction f generalizing c acc with
  | zero => rfl
  | succ f ih =>
    simp only [kaRangeLoop, numRangeLoop, rnum_le, rnum_lt, bind, Except.bind, truthy_ite, rnum_add]
    cases cmpLe c hi with
    | false => simp only [Bool.false_eq_true, if_false, List.map_reverse, Except.map]
    | true =>
      simp only [if_true]
      cases binop .add c step with
      | error e => rfl
      | ok nx =>
        simp only [liftE]
        cases cmpLt c nx with
        | false => rfl
        | true => exact ih nx (c :: acc)

/-- `range(lo, hi, step)` through `dispatch`, for operands of ANY kind, is `numKaRange` (no side condition:
    the size refusals are part of `numKaRange`) -/
theorem dispatch_kaRange_num (n : Nat) (lo hi step : Num) :
    dispatchV (n + 2) "range" [.num lo, .num hi, .num step] [] =
      (numKaRange lo hi step).map (fun xs => .arr (xs.map Val.num)) := by
  have t := kaRange_table_all _ (numClass_mem lo) _ (numClass_mem hi) _ (numClass_mem step)
  rw [dispatchV_step (c := chP [tNum, tNum, tNum] _ .kaRange) (code := .kaRange) (by simpa [classOf] using t) rfl]
  simp only [chP, coerceArgs_3 _ _ _ (.num lo) (.num hi) (.num step) rfl rfl rfl, BodyCode.run, bKaRange, bind, Except.bind,
    rnum_lt, rnum_le, truthy_ite, numKaRange]
  cases cmpLt (.int 0) step with
  | false => rfl
  | true =>
    cases cmpLe lo hi with
    | false => rfl
    | true =>
      simp only [Bool.not_true, Bool.false_eq_true, if_false]
      by_cases hng : ((hi.toRat - lo.toRat) / step.toRat).floor.toNat + 3 > maxRange
      · simp only [hng, if_true]; rfl
      · simp only [hng, if_false]
        have hl := kaRangeLoop_num n hi step (kaRangeFuel lo hi step) lo []
        simp only [List.map_nil] at hl
        rw [hl]
        cases hr : numRangeLoop hi step (kaRangeFuel lo hi step) lo [] with
        | error e => rfl
        | ok xs =>
          simp only [Except.map]
          rfl

/-- **what the loop's result is**, as an inductive description: starting at `c`, while the current
    number does not exceed `hi` (exact comparison) it is listed and the next one is `curr + step` as Ka's
    `+` computes it on the kinds at hand — and is STRICTLY larger (the no-progress guard passed) -/
inductive RangeTail (hi step : Num) : Num → List Num → Prop where
  | stop (c : Num) : cmpLe c hi = false → RangeTail hi step c []
  | next (c nx : Num) (tail : List Num) : cmpLe c hi = true → binop .add c step = .ok nx → cmpLt c nx = true →
      RangeTail hi step nx tail → RangeTail hi step c (c :: tail)

/-- **how the loop can fail with FunctionArgError**: starting at `c`, after zero or more rounds that advanced,
    a current number not exceeding `hi` is reached whose sum with `step` is NOT larger than itself (compared
    exactly) — `1e16 + 0.5 == 1e16` -/
inductive RangeStuck (hi step : Num) : Num → Prop where
  | here (c nx : Num) : cmpLe c hi = true → binop .add c step = .ok nx → cmpLt c nx = false → RangeStuck hi step c
  | later (c nx : Num) : cmpLe c hi = true → binop .add c step = .ok nx → cmpLt c nx = true →
      RangeStuck hi step nx → RangeStuck hi step c

theorem numRangeLoop_spec (hi step : Num) (f : Nat) (c : Num) (acc xs : List Num)
    (h : numRangeLoop hi step f c acc = .ok xs) : ∃ tail, xs = acc.reverse ++ tail ∧ RangeTail hi step c tail := by
  induction f generalizing c acc with
  | zero => simp [numRangeLoop] at h
  | succ f ih =>
    simp only [numRangeLoop] at h
    cases hc : cmpLe c hi with
    | false =>
      simp only [hc, Bool.false_eq_true, if_false, Except.ok.injEq] at h
      exact ⟨[], by simp [h], .stop c hc⟩
    | true =>
      simp only [hc, if_true, bind, Except.bind] at h
      cases hb : binop .add c step with
      | error e => simp [hb, liftE] at h
      | ok nx =>
        simp only [hb, liftE] at h
        cases hg : cmpLt c nx with
        | false => simp [hg, raise] at h
        | true =>
          simp only [hg, Bool.not_true, Bool.false_eq_true, if_false] at h
          obtain ⟨tail, hx, ht⟩ := ih nx (c :: acc) h
          exact ⟨c :: tail, by simp [hx], .next c nx tail hc hb hg ht⟩

/-- `+` on two numbers fails with OverflowError only (a float result, or an operand converted to float, out of range) -/
theorem binop_add_error (a b : Num) (e : Err) (h : binop .add a b = .error e) : e = .overflow := by
  have hs : ∀ r : Num, simplify r = .error e → e = .overflow := by
    intro r hr
    cases r with
    | int k => simp [simplify] at hr
    | frac q => rw [simplify_frac] at hr; cases hr
    | flt x =>
      simp only [simplify] at hr
      split at hr
      · split at hr <;> cases hr
      · split at hr
        · cases hr
        · cases hr; rfl
  have hf : ∀ x : Float, fin x = .error e → e = .overflow := by
    intro x hx
    simp only [fin] at hx
    split at hx
    · cases hx
    · cases hx; rfl
  have ht : ∀ x : Num, x.toFloat = .error e → e = .overflow := by
    intro x hx
    cases x with
    | int k => simp only [Num.toFloat] at hx; split at hx <;> cases hx; rfl
    | frac q => simp only [Num.toFloat] at hx; split at hx <;> cases hx; rfl
    | flt y => cases hx
  have hfl : ∀ x y : Num, (do let x' ← x.toFloat; let y' ← y.toFloat; fin (x' + y') : Except Err Num) >>= simplify = .error e →
      e = .overflow := by
    intro x y hxy
    cases hx : x.toFloat with
    | error e1 => rw [hx] at hxy; cases hxy; exact ht x hx
    | ok x' =>
      cases hy : y.toFloat with
      | error e1 => rw [hx, hy] at hxy; cases hxy; exact ht y hy
      | ok y' =>
        rw [hx, hy] at hxy
        simp only [bind, Except.bind] at hxy
        cases hfx : fin (x' + y') with
        | error e1 => rw [hfx] at hxy; cases hxy; exact hf _ hfx
        | ok r => rw [hfx] at hxy; exact hs r hxy
  cases a with
  | int x =>
    cases b with
    | int y => simp [binop, pyLin, bind, Except.bind, simplify] at h
    | frac y => simp [binop, pyLin, bind, Except.bind, simplify_frac] at h
    | flt y => exact hfl (.int x) (.flt y) (by simpa only [binop, pyLin] using h)
  | frac x =>
    cases b with
    | int y => simp [binop, pyLin, bind, Except.bind, simplify_frac] at h
    | frac y => simp [binop, pyLin, bind, Except.bind, simplify_frac] at h
    | flt y => exact hfl (.frac x) (.flt y) (by simpa only [binop, pyLin] using h)
  | flt x => exact hfl (.flt x) b (by cases b <;> simpa only [binop, pyLin] using h)

/-- the loop's failures, classified: OverflowError out of a `+`, FunctionArgError exactly when a round made no
    progress, or the model's refusal at its round bound — never `diverges` -/
theorem numRangeLoop_error (hi step : Num) (f : Nat) (c : Num) (acc : List Num) (e : EvalErr)
    (h : numRangeLoop hi step f c acc = .error e) :
    e = .err .overflow ∨ (e = .err .funArg ∧ RangeStuck hi step c) ∨ e = .unmodelled "huge range" := by
  induction f generalizing c acc with
  | zero => simp only [numRangeLoop, Except.error.injEq] at h; exact Or.inr (Or.inr h.symm)
  | succ f ih =>
    simp only [numRangeLoop] at h
    cases hc : cmpLe c hi with
    | false => simp [hc] at h
    | true =>
      simp only [hc, if_true, bind, Except.bind] at h
      cases hb : binop .add c step with
      | error e1 =>
        simp only [hb, liftE, Except.error.injEq] at h
        rw [binop_add_error c step e1 hb] at h
        exact Or.inl h.symm
      | ok nx =>
        simp only [hb, liftE] at h
        cases hg : cmpLt c nx with
        | false =>
          simp only [hg, Bool.not_false, if_true, raise, Except.error.injEq] at h
          exact Or.inr (Or.inl ⟨h.symm, .here c nx hc hb hg⟩)
        | true =>
          simp only [hg, Bool.not_true, Bool.false_eq_true, if_false] at h
          rcases ih nx (c :: acc) h with h1 | ⟨h1, h2⟩ | h1
          · exact Or.inl h1
          · exact Or.inr (Or.inl ⟨h1, .later c nx hc hb hg h2⟩)
          · exact Or.inr (Or.inr h1)

/-- the description determines the list -/
theorem RangeTail.unique {hi step c : Num} {t1 t2 : List Num} (h1 : RangeTail hi step c t1) (h2 : RangeTail hi step c t2) :
    t1 = t2 := by
  induction h1 generalizing t2 with
  | stop c hc =>
    cases h2 with
    | stop _ _ => rfl
    | next _ _ _ hc' _ _ _ => rw [hc] at hc'; cases hc'
  | next c nx tail hc hb _ _ ih =>
    cases h2 with
    | stop _ hc' => rw [hc] at hc'; cases hc'
    | next _ nx' tail' _ hb' _ ht' =>
      rw [hb] at hb'
      cases hb'
      rw [ih ht']

theorem rangeLoop_mono_le (hi step : Rat) (f f' : Nat) (hle : f ≤ f') (c : Rat) (acc xs : List Rat)
    (h : Arr.rangeLoop hi step f c acc = some xs) : Arr.rangeLoop hi step f' c acc = some xs := by
  induction f generalizing c acc f' with
  | zero => simp [Arr.rangeLoop] at h
  | succ f ih =>
    cases f' with
    | zero => omega
    | succ f' =>
      rw [Arr.rangeLoop] at h ⊢
      by_cases hc : c ≤ hi
      · simp only [hc, if_true] at h ⊢; exact ih f' (by omega) _ _ h
      · simp only [hc, if_false] at h ⊢; exact h

/-- when every addition along the way is exact in value, the values are the exact fragment's loop -/
theorem RangeTail.rangeLoop {hi step c : Num} {xs : List Num} (h : RangeTail hi step c xs)
    (hex : ∀ a ∈ xs, ∀ r, binop .add a step = .ok r → r.toRat = a.toRat + step.toRat) (acc : List Rat) :
    Arr.rangeLoop hi.toRat step.toRat (xs.length + 1) c.toRat acc = some (acc.reverse ++ xs.map toRat) := by
  induction h generalizing acc with
  | stop c hc =>
    have : ¬ c.toRat ≤ hi.toRat := by simpa [cmpLe] using hc
    simp [Arr.rangeLoop, this]
  | next c nx tail hc hb _ _ ih =>
    have hle : c.toRat ≤ hi.toRat := by simpa [cmpLe] using hc
    have hnx := hex c List.mem_cons_self nx hb
    rw [List.length_cons, Arr.rangeLoop]
    simp only [hle, if_true, ← hnx]
    rw [ih (fun a ha => hex a (List.mem_cons_of_mem _ ha)) (c.toRat :: acc)]
    simp

/-- `+` on two exact numbers (canonical or not) is exact -/
theorem binop_add_exact (a b r : Num) (ha : a.isExact = true) (hb : b.isExact = true) (h : binop .add a b = .ok r) :
    r.toRat = a.toRat + b.toRat := by
  cases a with
  | flt x => simp [isExact] at ha
  | int x =>
    cases b with
    | flt y => simp [isExact] at hb
    | int y =>
      simp only [binop, pyLin, bind, Except.bind, simplify, Except.ok.injEq] at h
      subst h; simp [toRat]
    | frac y =>
      simp only [binop, pyLin, bind, Except.bind, simplify_frac, Except.ok.injEq] at h
      subst h; rw [toRat_canon]
  | frac x =>
    cases b with
    | flt y => simp [isExact] at hb
    | int y =>
      simp only [binop, pyLin, bind, Except.bind, simplify_frac, Except.ok.injEq] at h
      subst h; rw [toRat_canon]
    | frac y =>
      simp only [binop, pyLin, bind, Except.bind, simplify_frac, Except.ok.injEq] at h
      subst h; rw [toRat_canon]

theorem canon_isExact (q : Rat) : (canon q).isExact = true := by unfold canon; split <;> rfl

theorem binop_add_isExact (a b r : Num) (ha : a.isExact = true) (hb : b.isExact = true) (h : binop .add a b = .ok r) :
    r.isExact = true := by
  cases a with
  | flt x => simp [isExact] at ha
  | int x =>
    cases b with
    | flt y => simp [isExact] at hb
    | int y =>
      simp only [binop, pyLin, bind, Except.bind, simplify, Except.ok.injEq] at h
      subst h; rfl
    | frac y =>
      simp only [binop, pyLin, bind, Except.bind, simplify_frac, Except.ok.injEq] at h
      subst h; exact canon_isExact _
  | frac x =>
    cases b with
    | flt y => simp [isExact] at hb
    | int y =>
      simp only [binop, pyLin, bind, Except.bind, simplify_frac, Except.ok.injEq] at h
      subst h; exact canon_isExact _
    | frac y =>
      simp only [binop, pyLin, bind, Except.bind, simplify_frac, Except.ok.injEq] at h
      subst h; exact canon_isExact _

theorem RangeTail.all_exact {hi step c : Num} {xs : List Num} (h : RangeTail hi step c xs)
    (hc : c.isExact = true) (hs : step.isExact = true) : ∀ a ∈ xs, a.isExact = true := by
  induction h with
  | stop c _ => intro a ha; simp at ha
  | next c nx tail _ hb _ _ ih =>
    intro a ha
    rcases List.mem_cons.mp ha with rfl | ha'
    · exact hc
    · exact ih (binop_add_isExact _ _ _ hc hs hb) a ha'

/-- `+` on two exact numbers never fails -/
theorem binop_add_exact_ok (a b : Num) (ha : a.isExact = true) (hb : b.isExact = true) : ∃ r, binop .add a b = .ok r := by
  cases h : binop .add a b with
  | ok r => exact ⟨r, rfl⟩
  | error e =>
    exfalso
    cases a with
    | flt x => simp [isExact] at ha
    | int x =>
      cases b with
      | flt y => simp [isExact] at hb
      | int y => simp [binop, pyLin, bind, Except.bind, simplify] at h
      | frac y => simp [binop, pyLin, bind, Except.bind, simplify_frac] at h
    | frac x =>
      cases b with
      | flt y => simp [isExact] at hb
      | int y => simp [binop, pyLin, bind, Except.bind, simplify_frac] at h
      | frac y => simp [binop, pyLin, bind, Except.bind, simplify_frac] at h

/-- with an exact start and an exact positive step every round advances: the no-progress failure of
    `ka_range` needs a float -/
theorem RangeStuck.not_exact {hi step c : Num} (h : RangeStuck hi step c)
    (hc : c.isExact = true) (hs : step.isExact = true) (hp : cmpLt (.int 0) step = true) : False := by
  have hp' : (0 : Rat) < step.toRat := by simpa [cmpLt, toRat] using hp
  induction h with
  | here c nx _ hb hg =>
    have hv := binop_add_exact c step nx hc hs hb
    have : c.toRat < nx.toRat := by rw [hv]; linarith
    simp [cmpLt, this] at hg
  | later c nx _ hb _ _ ih => exact ih (binop_add_isExact _ _ _ hc hs hb)

/-- on an exact start and an exact positive step, a round bound that suffices for the exact fragment's loop
    suffices for the loop on Python numbers, which then returns a list -/
theorem numRangeLoop_exact_ok (hi step : Num) (hs : step.isExact = true) (hp : (0 : Rat) < step.toRat)
    (f : Nat) (c : Num) (hc : c.isExact = true) (acc : List Num) (racc ys : List Rat)
    (h : Arr.rangeLoop hi.toRat step.toRat f c.toRat racc = some ys) : ∃ xs, numRangeLoop hi step f c acc = .ok xs := by
  induction f generalizing c acc racc with
  | zero => simp [Arr.rangeLoop] at h
  | succ f ih =>
    rw [Arr.rangeLoop] at h
    simp only [numRangeLoop]
    by_cases hle : c.toRat ≤ hi.toRat
    · have hle' : cmpLe c hi = true := by simpa [cmpLe] using hle
      obtain ⟨nx, hb⟩ := binop_add_exact_ok c step hc hs
      have hv := binop_add_exact c step nx hc hs hb
      have hg : cmpLt c nx = true := by
        have : c.toRat < nx.toRat := by rw [hv]; linarith
        simpa [cmpLt] using this
      simp only [hle, if_true, ← hv] at h
      simp only [hle', if_true, hb, liftE, bind, Except.bind, hg, Bool.not_true, Bool.false_eq_true, if_false]
      exact ih nx (binop_add_isExact _ _ _ hc hs hb) _ _ h
    · have hle' : cmpLe c hi = false := by simpa [cmpLe] using hle
      simp only [hle', Bool.false_eq_true, if_false]
      exact ⟨_, rfl⟩

/-- the round bound `bKaRange` supplies is at least the exact fragment's whenever the nominal length is within `maxRange` -/
theorem kaRangeFuel_ge (lo hi step : Num) (hsz : ((hi.toRat - lo.toRat) / step.toRat).floor.toNat + 3 ≤ maxRange) :
    ((hi.toRat - lo.toRat) / step.toRat).floor.toNat + 2 ≤ kaRangeFuel lo hi step := by
  unfold kaRangeFuel
  split <;> omega

/-- **exact start and step, within the size bound: `range` returns a list** (the bound of the model is not reached,
    the no-progress guard does not fire), whatever kind `hi` has -/
theorem numKaRange_exact_ok (lo hi step : Num) (hl : lo.isExact = true) (hs : step.isExact = true)
    (hp : cmpLt (.int 0) step = true) (hle : cmpLe lo hi = true)
    (hsz : ((hi.toRat - lo.toRat) / step.toRat).floor.toNat + 3 ≤ maxRange) : ∃ xs, numKaRange lo hi step = .ok xs := by
  have hp' : (0 : Rat) < step.toRat := by simpa [cmpLt, toRat] using hp
  have hle' : lo.toRat ≤ hi.toRat := by simpa [cmpLe] using hle
  have hng : ¬ ((hi.toRat - lo.toRat) / step.toRat).floor.toNat + 3 > maxRange := Nat.not_lt.mpr hsz
  have hk := C12_range_step lo.toRat hi.toRat step.toRat hp' hle'
  unfold Arr.kaRange at hk
  simp only [hp', hle', not_true_eq_false, if_false] at hk
  simp only [numKaRange, hp, hle, Bool.not_true, Bool.false_eq_true, if_false, hng]
  cases hr : Arr.rangeLoop hi.toRat step.toRat (((hi.toRat - lo.toRat) / step.toRat).floor.toNat + 2) lo.toRat [] with
  | none => rw [hr] at hk; cases hk
  | some L =>
    exact numRangeLoop_exact_ok hi step hs hp' _ lo hl [] [] L
      (rangeLoop_mono_le _ _ _ _ (kaRangeFuel_ge lo hi step hsz) _ _ _ hr)

/-! ### aggregates on arrays of wrapped numbers (plain numbers; quantities of one dimension) -/

/-- what the aggregate bodies need from the element kind: elements wrap a number; `+`, `/ k`, `<`, `==` on
    wrapped elements act on the numbers (at every nesting depth of `dispatch`); a stored number stays as it
    is under `simplify_type`; the wrapped value is not a lazy combinatoric -/
structure Wraps (wrap : Num → Val) : Prop where
  add : ∀ k a b, dispatchV (k + 2) "+" [wrap a, wrap b] [] = liftW wrap (binop .add a b)
  divInt : ∀ k a (m : Int), dispatchV (k + 2) "/" [wrap a, .num (.int m)] [] = liftW wrap (binop .div a (.int m))
  lt : ∀ k a b, rtruth (fun nm as => dispatchV (k + 2) nm as []) "<" [wrap a, wrap b] = .ok (cmpLt a b)
  eq : ∀ k a b, rtruth (fun nm as => dispatchV (k + 2) nm as []) "==" [wrap a, wrap b] = .ok (cmpEq a b)
  simp : ∀ x, Canon x → simplifyVal (wrap x) = .ok (wrap x)
  inTable : ∀ x, (resolveDesc "in" [classOf (wrap x), cArr] []).toOption = some (chP [tAny, tArray] "in|(Any, Array)|ka.functions.in_array" .inArray)
  notComb : ∀ x, notComb (wrap x) = true

theorem foldl_add_wrap {wrap : Num → Val} (W : Wraps wrap) (k : Nat) (t : List Num) (a : Num) :
    (t.map wrap).foldlM (fun acc e => dispatchV (k + 2) "+" [acc, e] []) (wrap a)
      = liftW wrap (t.foldlM (fun acc e => binop .add acc e) a) := by
  induction t generalizing a with
  | nil => rfl
  | cons h t ih =>
    simp only [List.map_cons, List.foldlM_cons, W.add k a h]
    cases binop .add a h with
    | error e => rfl
    | ok r => simp only [liftW, bind, Except.bind]; exact ih r

/-- **`sum`** of a non-empty array of wrapped stored numbers is the fragment's sum, wrapped; of the empty
    array it is the plain number 0 -/
theorem dispatch_sum_wrap {wrap : Num → Val} (W : Wraps wrap) (k : Nat) (xs : List Num) (hc : ∀ x ∈ xs, Canon x) :
    dispatchV (k + 3) "sum" [.arr (xs.map wrap)] [] =
      if xs = [] then .ok (.num (.int 0)) else liftW wrap (Arr.arraySum xs) := by
  have t := qty_table.2.2.2.2.2.2.2.2
  rw [step1 (a := .arr (xs.map wrap)) (t1 := tArray) (desc := "sum|(Array)|ka.functions.array_sum") (code := .arrSum) t rfl]
  simp only [BodyCode.run]
  cases xs with
  | nil => rfl
  | cons h t =>
    simp only [List.map_cons, bArrSum, Arr.arraySum, foldl_add_wrap W k t h, reduceCtorEq, if_false]
    cases hr : t.foldlM (fun acc e => binop .add acc e) h with
    | error e => rfl
    | ok r =>
      simp only [liftW, bind, Except.bind]
      exact W.simp r (foldlM_add_canon t h r (hc h (by simp)) hr)

/-- **`mean`**: the sum divided by the plain number of elements; the empty array is rejected -/
theorem dispatch_mean_wrap {wrap : Num → Val} (W : Wraps wrap) (k : Nat) (xs : List Num) (hc : ∀ x ∈ xs, Canon x) :
    dispatchV (k + 4) "mean" [.arr (xs.map wrap)] [] = liftW wrap (Arr.arrayMean xs) := by
  rw [step1 (a := .arr (xs.map wrap)) arr_table.2.1 rfl]
  simp only [BodyCode.run, bArrMean, Arr.arrayMean, List.isEmpty_map, List.length_map]
  cases xs with
  | nil => rfl
  | cons h t =>
    simp only [List.isEmpty_cons, Bool.false_eq_true, if_false, dispatch_sum_wrap W k (h :: t) hc, reduceCtorEq]
    cases hs : Arr.arraySum (h :: t) with
    | error e => rfl
    | ok s =>
      simp only [liftW, bind, Except.bind, W.divInt (k + 1) s]
      cases hd : binop .div s (.int (h :: t).length) with
      | error e => rfl
      | ok r => exact W.simp r (binop_idem hd)

theorem foldl_min_wrap {wrap : Num → Val} (W : Wraps wrap) (k : Nat) (t : List Num) (a : Num) :
    (t.map wrap).foldlM (fun r e => do
        if ← rtruth (fun nm as => dispatchV (k + 2) nm as []) "<" [e, r] then pure e else pure r) (wrap a)
      = .ok (wrap (t.foldl (fun r e => if cmpLt e r then e else r) a)) := by
  induction t generalizing a with
  | nil => rfl
  | cons h t ih =>
    simp only [List.map_cons, List.foldlM_cons, List.foldl_cons, W.lt, bind, Except.bind]
    cases cmpLt h a with
    | true => exact ih h
    | false => exact ih a

theorem foldl_max_wrap {wrap : Num → Val} (W : Wraps wrap) (k : Nat) (t : List Num) (a : Num) :
    (t.map wrap).foldlM (fun r e => do
        if ← rtruth (fun nm as => dispatchV (k + 2) nm as []) "<" [r, e] then pure e else pure r) (wrap a)
      = .ok (wrap (t.foldl (fun r e => if cmpLt r e then e else r) a)) := by
  induction t generalizing a with
  | nil => rfl
  | cons h t ih =>
    simp only [List.map_cons, List.foldlM_cons, List.foldl_cons, W.lt, bind, Except.bind]
    cases cmpLt a h with
    | true => exact ih h
    | false => exact ih a

/-- **`min`**: the first minimal element; the empty array is rejected -/
theorem dispatch_min_wrap {wrap : Num → Val} (W : Wraps wrap) (k : Nat) (xs : List Num) (hc : ∀ x ∈ xs, Canon x) :
    dispatchV (k + 3) "min" [.arr (xs.map wrap)] [] = liftW wrap (Arr.arrayMin xs) := by
  rw [step1 (a := .arr (xs.map wrap)) arr_table.2.2.2.2.1 rfl]
  cases xs with
  | nil => rfl
  | cons h t =>
    simp only [BodyCode.run, List.map_cons, bArrMin, Arr.arrayMin]
    have := foldl_min_wrap W k (h :: t) h
    simp only [List.map_cons] at this
    rw [this]
    have hm := foldl_pick_mem (fun r e => cmpLt e r) (h :: t) h
    simp only [liftW, bind, Except.bind]
    exact W.simp _ (hc _ (by simpa using hm))

/-- **`max`**: the first maximal element; the empty array is rejected -/
theorem dispatch_max_wrap {wrap : Num → Val} (W : Wraps wrap) (k : Nat) (xs : List Num) (hc : ∀ x ∈ xs, Canon x) :
    dispatchV (k + 3) "max" [.arr (xs.map wrap)] [] = liftW wrap (Arr.arrayMax xs) := by
  rw [step1 (a := .arr (xs.map wrap)) arr_table.2.2.2.1 rfl]
  cases xs with
  | nil => rfl
  | cons h t =>
    simp only [BodyCode.run, List.map_cons, bArrMax, Arr.arrayMax]
    have := foldl_max_wrap W k (h :: t) h
    simp only [List.map_cons] at this
    rw [this]
    have hm := foldl_pick_mem (fun r e => cmpLt r e) (h :: t) h
    simp only [liftW, bind, Except.bind]
    exact W.simp _ (hc _ (by simpa using hm))

theorem inArrayLoop_wrap {wrap : Num → Val} (W : Wraps wrap) (k : Nat) (x : Num) (xs : List Num) :
    inArrayLoop (fun nm as => dispatchV (k + 2) nm as []) (wrap x) (xs.map wrap) = .ok (xs.any (fun e => cmpEq x e)) := by
  induction xs with
  | nil => rfl
  | cons h t ih =>
    simp only [List.map_cons, inArrayLoop, W.eq, bind, Except.bind, List.any_cons]
    cases cmpEq x h with
    | true => rfl
    | false => simpa using ih

/-- **`x in xs`**: 1 when some element is `==` -/
theorem dispatch_in_wrap {wrap : Num → Val} (W : Wraps wrap) (k : Nat) (x : Num) (xs : List Num) :
    dispatchV (k + 3) "in" [wrap x, .arr (xs.map wrap)] [] = .ok (.num (Arr.inArray x xs)) := by
  rw [step2 (a := wrap x) (b := .arr (xs.map wrap)) (W.inTable x) (W.notComb x) rfl]
  simp only [BodyCode.run, bInArray, inArrayLoop_wrap W k, Except.map, b2v, Arr.inArray]
  rfl

/-- plain numbers -/
theorem wraps_num : Wraps Val.num where
  add k a b := by rw [← liftN_eq_liftW]; exact dispatch_add (k + 1) a b
  divInt k a m := by rw [← liftN_eq_liftW]; exact dispatch_div (k + 1) a (.int m)
  lt k a b := rtruth_lt (k + 1) a b
  eq k a b := rtruth_eq (k + 1) a b
  simp := simplifyVal_num_canon
  inTable x := arr_table.2.2.2.2.2.1 _ (numClass_mem x)
  notComb _ := rfl

/-- **Table fact.** membership of a quantity in an array reaches `in_array`. -/
theorem in_table_qty :
    (resolveDesc "in" [cQty, cArr] []).toOption = some (chP [tAny, tArray] "in|(Any, Array)|ka.functions.in_array" .inArray) := by
  decide +kernel

theorem rtruth_qty (k : Nat) (op : Qty.QOp) (hop : op = .lt ∨ op = .eq) (a b : Num) (d : List Int) :
    rtruth (fun nm as => dispatchV (k + 2) nm as []) (qopName op) [.qty a d, .qty b d] =
      .ok (match op with | .lt => cmpLt a b | _ => cmpEq a b) := by
  simp only [rtruth, dispatch_qtyOp k op a d b d]
  rcases hop with rfl | rfl <;>
    simp only [Qty.qtyOp, bne_self_eq_false, Bool.false_eq_true, if_false, Qty.numOp, bind, Except.bind, liftE, Except.map,
      ofQVal, truthy_ite]

/-- quantities of one dimension `d` (a dimension vector of the unit table's length) -/
theorem wraps_qty (d : List Int) (hd : d.length = nBase) : Wraps (fun m => Val.qty m d) where
  add k a b := by
    have h := dispatch_qtyOp k .add a d b d
    simp only [qopName] at h
    rw [h]
    simp only [Qty.qtyOp, bne_self_eq_false, Bool.false_eq_true, if_false, Qty.numOp]
    cases binop .add a b <;> rfl
  divInt k a m := by
    have h := dispatch_applyOp k .div (.qty a d) (.num (.int m))
    simp only [qopName, ofQVal] at h
    rw [h]
    simp only [liftQ, Qty.applyOp, Qty.qtyOp, Qty.numOp, dimSub_zero d nBase (Nat.le_of_eq hd)]
    cases binop .div a (.int m) <;> rfl
  lt k a b := rtruth_qty k .lt (Or.inl rfl) a b d
  eq k a b := rtruth_qty k .eq (Or.inr rfl) a b d
  simp x h := simplifyVal_qty_canon x d h
  inTable _ := in_table_qty
  notComb _ := rfl

/-! #### prod of quantities: the dimension is added once per element -/

/-- dimension of a product of `k` quantities of dimension `d`, as `array_prod` accumulates it
    (`e * result`, from the plain number 1) -/
def prodDim (d : List Int) : Nat → List Int
  | 0 => Qty.Dim.zero nBase
  | k + 1 => Qty.Dim.add d (prodDim d k)

/-- the accumulator of `array_prod` after `j` elements -/
def prodAcc (d : List Int) : Nat → Num → Qty.QVal
  | 0, a => .num a
  | j + 1, a => .qty a (prodDim d (j + 1))

theorem foldl_mul_qty (k : Nat) (d : List Int) (t : List Num) (a : Num) (j : Nat) :
    (t.map (fun m => Val.qty m d)).foldlM (fun acc e => dispatchV (k + 2) "*" [e, acc] []) (ofQVal (prodAcc d j a))
      = (liftE (t.foldlM (fun acc e => binop .mul e acc) a)).map (fun r => ofQVal (prodAcc d (j + t.length) r)) := by
  induction t generalizing a j with
  | nil => rfl
  | cons h t ih =>
    have hd : dispatchV (k + 2) "*" [Val.qty h d, ofQVal (prodAcc d j a)] [] =
        liftQ (Qty.applyOp nBase .mul (.qty h d) (prodAcc d j a)) := dispatch_applyOp k .mul (.qty h d) (prodAcc d j a)
    simp only [List.map_cons, List.foldlM_cons, hd]
    have hstep : Qty.applyOp nBase .mul (.qty h d) (prodAcc d j a) =
        (binop .mul h a).map (fun r => prodAcc d (j + 1) r) := by
      cases j with
      | zero => simp only [prodAcc, Qty.applyOp, Qty.qtyOp, Qty.numOp, prodDim]; cases binop .mul h a <;> rfl
      | succ j => simp only [prodAcc, Qty.applyOp, Qty.qtyOp, Qty.numOp, prodDim]; cases binop .mul h a <;> rfl
    rw [hstep]
    cases binop .mul h a with
    | error e => rfl
    | ok r =>
      simp only [liftQ, liftE, Except.map, bind, Except.bind, List.length_cons]
      rw [ih r (j + 1), show j + 1 + t.length = j + (t.length + 1) by omega]
      cases List.foldlM (fun acc e => binop .mul e acc) r t <;> rfl

/-- **`prod`** of an array of quantities of dimension `d`: the fragment's product of the magnitudes, with
    the dimension added once per element; of the empty array the plain number 1 -/
theorem dispatch_prod_qty (k : Nat) (d : List Int) (xs : List Num) :
    dispatchV (k + 3) "prod" [.arr (xs.map (fun m => Val.qty m d))] [] =
      (liftE (Arr.arrayProd xs)).map (fun r => ofQVal (prodAcc d xs.length r)) := by
  rw [step1 (a := .arr (xs.map (fun m => Val.qty m d))) arr_table.1 rfl]
  have hf := foldl_mul_qty k d xs (.int 1) 0
  simp only [prodAcc, ofQVal, Nat.zero_add] at hf
  simp only [BodyCode.run, bArrProd, Arr.arrayProd, hf]
  cases hr : xs.foldlM (fun acc e => binop .mul e acc) (.int 1) with
  | error e => rfl
  | ok r =>
    have hcr : Canon r := foldlM_mul_canon xs (.int 1) r rfl hr
    simp only [liftE, Except.map, bind, Except.bind]
    cases xs.length with
    | zero => exact simplifyVal_num_canon r hcr
    | succ j => exact simplifyVal_qty_canon r _ hcr

end KaVerif.PipeArr
