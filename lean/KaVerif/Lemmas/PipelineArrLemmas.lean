import KaVerif.Lemmas.Pipeline2Lemmas
import KaVerif.Lemmas.ArrayLemmas
import KaVerif.Props.C12
/-
  Helper lemmas for Props/PipelineArr.lean: the refinement gaps of the unified pipeline model
  (`Model/Eval.lean`) that Pipeline2 left open — comprehensions (simulation between the two
  environment representations and the two loops), the scoping discipline of `eval_comprehension`
  (save / set in place / restore = the local copy `Eval.comprehension` runs on), `median` (insertion
  by key = the array fragment's stable insertion sort; every sorted permutation has the same values
  position by position), `range(lo, hi, step)` on every numeric kind, and the aggregates on arrays
  of same-dimension quantities.

  Own namespace `KaVerif.PipeArr`; nothing here edits or shadows a definition of `KaVerif.Eval`.
  Proof style as in Pipeline2Lemmas: table fact (kernel `decide` on given keys) + `dispatchV_step` +
  unfolding of the one registered body; no proof enumerates the constructors of `Eval.Val`,
  `Eval.BodyCode` or the rows of `implTable`.
-/
namespace KaVerif.PipeArr
open KaVerif Num KaVerif.Parser Eval Pipe2

/-! ### bindings: `get` after `set`, observational equality -/

theorem lookup_filter_ne {β : Type} (l : List (String × β)) (x y : String) (h : y ≠ x) :
    List.lookup y (l.filter (fun p => p.1 != x)) = List.lookup y l := by
  induction l with
  | nil => rfl
  | cons p t ih =>
    obtain ⟨a, b⟩ := p
    by_cases hp : a = x
    · subst hp
      have h1 : ((a, b).1 != a) = false := by simp
      have h2 : (y == a) = false := by simpa using h
      simp only [List.filter_cons, h1, Bool.false_eq_true, if_false, ih, List.lookup_cons, h2]
    · have h1 : ((a, b).1 != x) = true := by simpa using hp
      simp only [List.filter_cons, h1, if_true, List.lookup_cons, ih]

theorem lookup_filter_self {β : Type} (l : List (String × β)) (x : String) :
    List.lookup x (l.filter (fun p => p.1 != x)) = none := by
  induction l with
  | nil => rfl
  | cons p t ih =>
    obtain ⟨a, b⟩ := p
    by_cases hp : a = x
    · subst hp
      have h1 : ((a, b).1 != a) = false := by simp
      simp only [List.filter_cons, h1, Bool.false_eq_true, if_false, ih]
    · have h1 : ((a, b).1 != x) = true := by simpa using hp
      have h2 : (x == a) = false := by simpa using fun h : x = a => hp h.symm
      simp only [List.filter_cons, h1, if_true, List.lookup_cons, h2, ih]

theorem get_set_same (env : Env) (x : String) (v : Val) : (env.set x v).get x = some v := by
  simp [Env.set, Env.get]

theorem get_set_other (env : Env) (x y : String) (v : Val) (h : y ≠ x) : (env.set x v).get y = env.get y := by
  have hb : (y == x) = false := by simpa using h
  simp only [Env.set, Env.get, List.lookup_cons, hb]
  exact lookup_filter_ne env x y h

theorem get_set (env : Env) (x y : String) (v : Val) :
    (env.set x v).get y = if y = x then some v else env.get y := by
  by_cases h : y = x
  · subst h; simp [get_set_same]
  · simp [h, get_set_other env x y v h]

/-- two binding lists that read the same under every name (the only way the evaluator looks at them) -/
def EnvEq (a b : Env) : Prop := ∀ x, a.get x = b.get x

theorem EnvEq.refl (a : Env) : EnvEq a a := fun _ => rfl
theorem EnvEq.symm {a b : Env} (h : EnvEq a b) : EnvEq b a := fun x => (h x).symm
theorem EnvEq.trans {a b c : Env} (h : EnvEq a b) (h' : EnvEq b c) : EnvEq a c := fun x => (h x).trans (h' x)

theorem EnvEq.set {a b : Env} (h : EnvEq a b) (x : String) (v : Val) : EnvEq (a.set x v) (b.set x v) := by
  intro y
  rw [get_set, get_set, h y]

/-! ### the simulation relation between `Eval.Env` and the array fragment's `Arr.Env V` -/

/-- `emb` embeds the fragment's values; the evaluator's bindings read, under every name, as the
    embedding of what the fragment's association list holds (the evaluator keeps one binding per name —
    `Env.set` filters —, the fragment pushes: related, not equal) -/
def EnvSim {V : Type} (emb : V → Val) (env : Env) (e : Arr.Env V) : Prop :=
  ∀ x, env.get x = (e.lookup x).map emb

theorem EnvSim.set {V : Type} {emb : V → Val} {env : Env} {e : Arr.Env V} (h : EnvSim emb env e) (n : String) (v : V) :
    EnvSim emb (env.set n (emb v)) ((n, v) :: e) := by
  intro x
  rw [get_set]
  by_cases hx : x = n
  · subst hx; simp [List.lookup]
  · have hb : (x == n) = false := by simpa using hx
    simp only [hx, if_false, List.lookup_cons, hb]
    exact h x

theorem EnvSim.of_eq {V : Type} {emb : V → Val} {env env' : Env} {e : Arr.Env V} (h : EnvSim emb env e)
    (h' : EnvEq env' env) : EnvSim emb env' e := fun x => (h' x).trans (h x)

/-- two evaluator environments related to the same fragment environment read the same -/
theorem EnvSim.envEq {V : Type} {emb : V → Val} {env env' : Env} {e : Arr.Env V} (h : EnvSim emb env e)
    (h' : EnvSim emb env' e) : EnvEq env env' := fun x => (h x).trans (h' x).symm

/-- the session model's bindings (C14) under `envOf` -/
theorem envSim_envOf (senv : Session.Env) : EnvSim valOf (envOf senv) senv := by
  intro x
  rw [envOf_get]; rfl

theorem envSim_id (env : Env) : EnvSim (fun v : Val => v) env env := by
  intro x
  simp only [Env.get]
  cases List.lookup x env <;> rfl

/-- generator clauses of the fragment, as the evaluator holds them after evaluating the generator
    expressions -/
def embGens {V : Type} (emb : V → Val) (gens : List (String × List V)) : List (String × List Val) :=
  gens.map (fun g => (g.1, g.2.map emb))

/-- both binding loops at index `i`: exhausted together, or related environments -/
def OptSim {V : Type} (emb : V → Val) : Option Env → Option (Arr.Env V) → Prop
  | some a, some b => EnvSim emb a b
  | none, none => True
  | _, _ => False

theorem bind_sim {V : Type} (emb : V → Val) (i : Nat) (gens : List (String × List V)) (env : Env) (e : Arr.Env V)
    (h : EnvSim emb env e) :
    OptSim emb (bindGens i (embGens emb gens) env) (Arr.comprStep.bind i (gens.map (·.1)) (gens.map (·.2)) e) := by
  induction gens generalizing env e with
  | nil => exact h
  | cons g rest ih =>
    obtain ⟨n, a⟩ := g
    simp only [embGens, List.map_cons, bindGens, Arr.comprStep.bind, List.getElem?_map]
    by_cases hi : i < a.length
    · simp only [hi, dite_true, List.getElem?_eq_getElem hi, Option.map_some]
      exact ih _ _ (h.set n a[i])
    · have : a[i]? = none := List.getElem?_eq_none (Nat.le_of_not_lt hi)
      simp only [hi, dite_false, this, Option.map_none]
      trivial

/-! ### the two loops -/

/-- the fragment's reading of a condition value -/
def condOpt : Arr.Cond → Option Bool
  | .one => some true
  | .zero => some false
  | .notBool => none

/-- a fragment outcome (list of fragment values) inside the unified evaluator -/
def liftArr {V : Type} (emb : V → Val) : Except Err (List V) → R Val
  | .ok xs => .ok (.arr (xs.map emb))
  | .error e => .error (.err e)

/-- an evaluator condition and a fragment condition agree at a pair of environments: the evaluator's
    value, read by `bool_like` / `== 0`, is the fragment's `Cond`; failures have the same class -/
def CondAgree {V : Type} (env : Env) (e : Arr.Env V) (c : Env → R Val) (fc : Arr.Env V → Except Err Arr.Cond) : Prop :=
  (c env >>= boolLike) = liftE ((fc e).map condOpt)

/-- an evaluator body and a fragment body agree at a pair of environments (the evaluator resolves a lazy
    body value before storing it) -/
def BodyAgree {V : Type} (emb : V → Val) (env : Env) (e : Arr.Env V) (b : Env → R Val) (fb : Arr.Env V → Except Err V) : Prop :=
  (b env >>= resolveLazy) = liftE ((fb e).map emb)

theorem condLoop_sim {V : Type} (env : Env) (e : Arr.Env V) (conds : List (Env → R Val))
    (fconds : List (Arr.Env V → Except Err Arr.Cond)) (h : List.Forall₂ (CondAgree env e) conds fconds) (ok : Bool) :
    condLoop env conds ok = liftE (Arr.comprStep.evalConds e fconds ok) := by
  induction h generalizing ok with
  | nil => rfl
  | @cons c fc cs fcs hc _ ih =>
    unfold CondAgree at hc
    simp only [condLoop, Arr.comprStep.evalConds]
    cases hv : c env with
    | error er =>
      rw [hv] at hc
      cases hf : fc e with
      | error er' =>
        rw [hf] at hc; simp only [bind, Except.bind, Except.map, liftE] at hc ⊢
        injection hc with hc; subst hc; rfl
      | ok k => rw [hf] at hc; simp [bind, Except.bind, Except.map, liftE] at hc
    | ok v =>
      rw [hv] at hc
      simp only [bind, Except.bind] at hc ⊢
      cases hf : fc e with
      | error er' => rw [hf] at hc; simp only [Except.map, liftE] at hc; rw [hc]; rfl
      | ok k =>
        rw [hf] at hc
        simp only [Except.map, liftE] at hc
        rw [hc]
        cases k with
        | one => simp only [condOpt, Bool.and_true]; exact ih ok
        | zero => simp only [condOpt, Bool.and_false]; exact ih false
        | notBool => rfl

/-- **the loop simulation**: from related outer environments, with conditions and body agreeing at
    every pair of environments the two binding loops produce, the evaluator's `run_comprehension` loop
    and the fragment's loop return the same list (embedded) or fail with the same class — provided the
    generators are exhausted within the fuel (`k` more iterations), which is what both callers supply. -/
theorem comprLoop_sim {V : Type} (emb : V → Val) (gens : List (String × List V))
    (conds : List (Env → R Val)) (fconds : List (Arr.Env V → Except Err Arr.Cond))
    (body : Env → R Val) (fbody : Arr.Env V → Except Err V) (env : Env) (e : Arr.Env V) (hsim : EnvSim emb env e)
    (hagree : ∀ i env' e', bindGens i (embGens emb gens) env = some env' →
        Arr.comprStep.bind i (gens.map (·.1)) (gens.map (·.2)) e = some e' →
        List.Forall₂ (CondAgree env' e') conds fconds ∧ BodyAgree emb env' e' body fbody)
    (fuel i : Nat) (acc : List V)
    (hfuel : ∃ k, k < fuel ∧ Arr.comprStep.bind (i + k) (gens.map (·.1)) (gens.map (·.2)) e = none) :
    Eval.comprLoop (embGens emb gens) conds body env fuel i (acc.map emb) =
      liftArr emb (Arr.comprLoop (gens.map (·.1)) (gens.map (·.2)) fconds fbody e fuel i acc) := by
  induction fuel generalizing i acc with
  | zero => obtain ⟨k, hk, _⟩ := hfuel; omega
  | succ f ih =>
    obtain ⟨k, hk, hnone⟩ := hfuel
    have hb := bind_sim emb i gens env e hsim
    simp only [Eval.comprLoop, Arr.comprLoop, Arr.comprStep]
    cases h1 : bindGens i (embGens emb gens) env with
    | none =>
      cases h2 : Arr.comprStep.bind i (gens.map (·.1)) (gens.map (·.2)) e with
      | none => simp [bind, Except.bind, liftArr]
      | some e' => rw [h1, h2] at hb; exact hb.elim
    | some env' =>
      cases h2 : Arr.comprStep.bind i (gens.map (·.1)) (gens.map (·.2)) e with
      | none => rw [h1, h2] at hb; exact hb.elim
      | some e' =>
        have hk0 : k ≠ 0 := by
          intro h0; subst h0
          rw [Nat.add_zero, h2] at hnone; cases hnone
        have hnext : ∃ k', k' < f ∧ Arr.comprStep.bind (i + 1 + k') (gens.map (·.1)) (gens.map (·.2)) e = none :=
          ⟨k - 1, by omega, by rw [show i + 1 + (k - 1) = i + k by omega]; exact hnone⟩
        obtain ⟨hc, hbd⟩ := hagree i env' e' h1 h2
        simp only [condLoop_sim env' e' conds fconds hc true]
        cases hk' : Arr.comprStep.evalConds e' fconds true with
        | error er => simp [liftE, bind, Except.bind, liftArr]
        | ok keep =>
          cases keep with
          | false =>
            simp only [liftE, bind, Except.bind, Bool.false_eq_true, if_false]
            exact ih (i + 1) acc hnext
          | true =>
            unfold BodyAgree at hbd
            simp only [liftE, bind, Except.bind, if_true] at hbd ⊢
            cases hv : body env' with
            | error er =>
              rw [hv] at hbd
              cases hf : fbody e' with
              | error er' => rw [hf] at hbd; simp only [Except.map] at hbd; injection hbd with hbd; subst hbd; rfl
              | ok w => rw [hf] at hbd; simp [Except.map] at hbd
            | ok v =>
              rw [hv] at hbd
              dsimp only at hbd ⊢
              cases hf : fbody e' with
              | error er' => rw [hf] at hbd; simp only [Except.map] at hbd; rw [hbd]; rfl
              | ok w =>
                rw [hf] at hbd
                simp only [Except.map] at hbd
                rw [hbd]
                exact ih (i + 1) (w :: acc) hnext

end KaVerif.PipeArr
