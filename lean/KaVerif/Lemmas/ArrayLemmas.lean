import KaVerif.Model.Array
import KaVerif.Lemmas.NumLemmas
import Mathlib.Data.List.Sort
import Mathlib.Algebra.BigOperators.Group.List.Basic
import Mathlib.Algebra.Order.Ring.Rat

set_option linter.unusedSimpArgs false

namespace KaVerif.Arr
open KaVerif Num

theorem canon_zero : canon 0 = .int 0 := canon_intCast 0
theorem canon_one : canon 1 = .int 1 := by have := canon_intCast 1; simpa using this
theorem canon_natCast (n : Nat) : canon (n : Rat) = .int (n : Int) := by
  have : ((n : Int) : Rat) = (n : Rat) := by push_cast; rfl
  rw [← this]; exact canon_intCast _

theorem cmpLt_canon (a b : Rat) : cmpLt (canon a) (canon b) = decide (a < b) := by
  simp [cmpLt, toRat_canon]
theorem cmpEq_canon (a b : Rat) : cmpEq (canon a) (canon b) = decide (a = b) := by
  simp [cmpEq, toRat_canon]

theorem binop_add_canon (a b : Rat) : binop .add (canon a) (canon b) = .ok (canon (a + b)) :=
  binop_lin_canon .add (Or.inl rfl) a b
theorem binop_mul_canon (a b : Rat) : binop .mul (canon a) (canon b) = .ok (canon (a * b)) :=
  binop_lin_canon .mul (Or.inr (Or.inr rfl)) a b

theorem foldlM_add (t : List Rat) (acc : Rat) :
    (t.map canon).foldlM (fun acc e => binop .add acc e) (canon acc) = .ok (canon (acc + t.sum)) := by
  induction t generalizing acc with
  | nil => simp [pure, Except.pure]
  | cons h t ih =>
    simp only [List.map_cons, List.foldlM_cons, binop_add_canon, bind, Except.bind, List.sum_cons]
    rw [ih]; congr 2; ring

theorem foldlM_mul (t : List Rat) (acc : Rat) :
    (t.map canon).foldlM (fun acc e => binop .mul e acc) (canon acc) = .ok (canon (acc * t.prod)) := by
  induction t generalizing acc with
  | nil => simp [pure, Except.pure]
  | cons h t ih =>
    simp only [List.map_cons, List.foldlM_cons, binop_mul_canon, bind, Except.bind, List.prod_cons]
    rw [ih]; congr 2; ring

/-- the min scan: the candidate is always an element and ≤ everything seen so far -/
theorem foldl_min (t : List Rat) (r : Rat) :
    ∃ m, (t.map canon).foldl (fun r e => if cmpLt e r then e else r) (canon r) = canon m ∧
      (m = r ∨ m ∈ t) ∧ m ≤ r ∧ ∀ q ∈ t, m ≤ q := by
  induction t generalizing r with
  | nil => exact ⟨r, rfl, Or.inl rfl, le_refl _, by simp⟩
  | cons h t ih =>
    simp only [List.map_cons, List.foldl_cons, cmpLt_canon]
    by_cases hlt : h < r
    · simp only [hlt, decide_true, if_true]
      obtain ⟨m, hm, hmem, hle, hall⟩ := ih h
      refine ⟨m, hm, ?_, le_trans hle (le_of_lt hlt), ?_⟩
      · rcases hmem with rfl | h'
        · right; exact List.mem_cons_self
        · right; exact List.mem_cons_of_mem _ h'
      · intro q hq; rcases List.mem_cons.mp hq with rfl | hq'
        · exact hle
        · exact hall q hq'
    · simp only [hlt, decide_false, Bool.false_eq_true, if_false]
      obtain ⟨m, hm, hmem, hle, hall⟩ := ih r
      refine ⟨m, hm, ?_, hle, ?_⟩
      · rcases hmem with rfl | h'
        · left; rfl
        · right; exact List.mem_cons_of_mem _ h'
      · intro q hq; rcases List.mem_cons.mp hq with rfl | hq'
        · exact le_trans hle (not_lt.mp hlt)
        · exact hall q hq'

theorem foldl_max (t : List Rat) (r : Rat) :
    ∃ m, (t.map canon).foldl (fun r e => if cmpLt r e then e else r) (canon r) = canon m ∧
      (m = r ∨ m ∈ t) ∧ r ≤ m ∧ ∀ q ∈ t, q ≤ m := by
  induction t generalizing r with
  | nil => exact ⟨r, rfl, Or.inl rfl, le_refl _, by simp⟩
  | cons h t ih =>
    simp only [List.map_cons, List.foldl_cons, cmpLt_canon]
    by_cases hlt : r < h
    · simp only [hlt, decide_true, if_true]
      obtain ⟨m, hm, hmem, hle, hall⟩ := ih h
      refine ⟨m, hm, ?_, le_trans (le_of_lt hlt) hle, ?_⟩
      · rcases hmem with rfl | h'
        · right; exact List.mem_cons_self
        · right; exact List.mem_cons_of_mem _ h'
      · intro q hq; rcases List.mem_cons.mp hq with rfl | hq'
        · exact hle
        · exact hall q hq'
    · simp only [hlt, decide_false, Bool.false_eq_true, if_false]
      obtain ⟨m, hm, hmem, hle, hall⟩ := ih r
      refine ⟨m, hm, ?_, hle, ?_⟩
      · rcases hmem with rfl | h'
        · left; rfl
        · right; exact List.mem_cons_of_mem _ h'
      · intro q hq; rcases List.mem_cons.mp hq with rfl | hq'
        · exact le_trans (not_lt.mp hlt) hle
        · exact hall q hq'

/-- insertion sort on the exact values -/
def insertRat (x : Rat) : List Rat → List Rat
  | [] => [x]
  | y :: ys => if x < y then x :: y :: ys else y :: insertRat x ys

def sortRat (xs : List Rat) : List Rat := xs.foldl (fun acc x => insertRat x acc) []

theorem insertSorted_canon (x : Rat) (ys : List Rat) :
    insertSorted (canon x) (ys.map canon) = (insertRat x ys).map canon := by
  induction ys with
  | nil => rfl
  | cons y ys ih =>
    simp only [List.map_cons, insertSorted, insertRat, cmpLt_canon]
    by_cases h : x < y <;> simp [h, ih]

theorem sortNums_canon (xs : List Rat) : sortNums (xs.map canon) = (sortRat xs).map canon := by
  unfold sortNums sortRat
  have : ∀ (acc : List Rat), (xs.map canon).foldl (fun acc x => insertSorted x acc) (acc.map canon)
      = (xs.foldl (fun acc x => insertRat x acc) acc).map canon := by
    induction xs with
    | nil => intro acc; rfl
    | cons x t ih => intro acc; simp only [List.map_cons, List.foldl_cons, insertSorted_canon]; exact ih _
  exact this []

theorem insertRat_perm (x : Rat) (ys : List Rat) : (insertRat x ys).Perm (x :: ys) := by
  induction ys with
  | nil => exact List.Perm.refl _
  | cons y ys ih =>
    simp only [insertRat]
    split
    · exact List.Perm.refl _
    · exact (List.Perm.cons y ih).trans (List.Perm.swap x y ys)

theorem insertRat_sorted (x : Rat) (ys : List Rat) (h : ys.Pairwise (· ≤ ·)) :
    (insertRat x ys).Pairwise (· ≤ ·) := by
  induction ys with
  | nil => simp [insertRat]
  | cons y ys ih =>
    simp only [insertRat]
    rw [List.pairwise_cons] at h
    split
    · rename_i hlt
      rw [List.pairwise_cons]
      refine ⟨?_, List.pairwise_cons.mpr h⟩
      intro z hz
      rcases List.mem_cons.mp hz with rfl | hz'
      · exact le_of_lt hlt
      · exact le_trans (le_of_lt hlt) (h.1 z hz')
    · rename_i hge
      rw [List.pairwise_cons]
      refine ⟨?_, ih h.2⟩
      intro z hz
      have := (insertRat_perm x ys).mem_iff.mp hz
      rcases List.mem_cons.mp this with rfl | hz'
      · exact not_lt.mp hge
      · exact h.1 z hz'

theorem sortRat_perm_sorted (xs : List Rat) : (sortRat xs).Perm xs ∧ (sortRat xs).Pairwise (· ≤ ·) := by
  unfold sortRat
  have : ∀ (acc : List Rat), acc.Pairwise (· ≤ ·) →
      (xs.foldl (fun acc x => insertRat x acc) acc).Perm (acc ++ xs) ∧
      (xs.foldl (fun acc x => insertRat x acc) acc).Pairwise (· ≤ ·) := by
    induction xs with
    | nil => intro acc h; simpa using h
    | cons x t ih =>
      intro acc h
      simp only [List.foldl_cons]
      obtain ⟨hp, hs⟩ := ih (insertRat x acc) (insertRat_sorted x acc h)
      refine ⟨hp.trans ?_, hs⟩
      have h1 : (insertRat x acc ++ t).Perm ((x :: acc) ++ t) := List.Perm.append_right t (insertRat_perm x acc)
      refine h1.trans ?_
      simp only [List.cons_append]
      exact (List.perm_middle (l₁ := acc) (a := x) (l₂ := t)).symm
  simpa using this [] List.Pairwise.nil

end KaVerif.Arr
