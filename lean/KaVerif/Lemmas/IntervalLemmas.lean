import KaVerif.Model.Interval
import Mathlib.Algebra.Order.Field.Basic
import Mathlib.Algebra.Order.Ring.Abs
import Mathlib.Order.Monotone.Defs
import Mathlib.Order.Interval.Set.Defs
import Mathlib.Tactic.Linarith
import Mathlib.Tactic.Positivity
import Mathlib.Tactic.NormNum
import Mathlib.Algebra.Order.Field.Rat
/-
  Helper lemmas for C07: the interval model (Model/Interval.lean) instantiated at an
  arbitrary linearly ordered field.
-/
set_option linter.unusedSectionVars false
set_option linter.unusedSimpArgs false

namespace KaVerif.Interval
namespace Intv
variable {α : Type} [Field α] [LinearOrder α] [IsStrictOrderedRing α]

theorem mem_iff {x : α} {I : Intv α} : x ∈ I ↔ I.a ≤ x ∧ x ≤ I.b := Iff.rfl

theorem wf_of_mem {x : α} {I : Intv α} (h : x ∈ I) : I.WF := le_trans h.1 h.2

theorem a_mem {I : Intv α} (h : I.WF) : I.a ∈ I := ⟨le_refl _, h⟩
theorem b_mem {I : Intv α} (h : I.WF) : I.b ∈ I := ⟨h, le_refl _⟩

/-! ### 0/1 results -/

theorem b2i_eq_one {p : Prop} [Decidable p] : b2i p = 1 ↔ p := by
  unfold b2i; by_cases h : p <;> simp [h]

theorem b2i_eq_zero {p : Prop} [Decidable p] : b2i p = 0 ↔ ¬ p := by
  unfold b2i; by_cases h : p <;> simp [h]

theorem b2i_01 (p : Prop) [Decidable p] : b2i p = 0 ∨ b2i p = 1 := by
  unfold b2i; by_cases h : p <;> simp [h]

theorem b2i_mul_eq_one {p q : Prop} [Decidable p] [Decidable q] : b2i p * b2i q = 1 ↔ p ∧ q := by
  unfold b2i; by_cases hp : p <;> by_cases hq : q <;> simp [hp, hq]

theorem b2i_mul_ne_zero {p q : Prop} [Decidable p] [Decidable q] : b2i p * b2i q ≠ 0 ↔ p ∧ q := by
  unfold b2i; by_cases hp : p <;> by_cases hq : q <;> simp [hp, hq]

theorem b2i_mul_01 (p q : Prop) [Decidable p] [Decidable q] : b2i p * b2i q = 0 ∨ b2i p * b2i q = 1 := by
  unfold b2i; by_cases hp : p <;> by_cases hq : q <;> simp [hp, hq]

theorem contains_ne_zero {I : Intv α} {x : α} : contains I x ≠ 0 ↔ x ∈ I := b2i_mul_ne_zero

/-! ### make_interval_from_bounds -/

theorem fromBounds_wf (x y : α) : (fromBounds x y).WF := min_le_max

/-- anything between the two arguments, in either order, is in `fromBounds` -/
theorem mem_fromBounds {u v t : α} (h : (u ≤ t ∧ t ≤ v) ∨ (v ≤ t ∧ t ≤ u)) : t ∈ fromBounds u v := by
  rcases h with ⟨h1, h2⟩ | ⟨h1, h2⟩
  · exact ⟨le_trans (min_le_left _ _) h1, le_trans h2 (le_max_right _ _)⟩
  · exact ⟨le_trans (min_le_right _ _) h1, le_trans h2 (le_max_left _ _)⟩

theorem mem_fromBounds_iff {u v t : α} : t ∈ fromBounds u v ↔ (u ≤ t ∧ t ≤ v) ∨ (v ≤ t ∧ t ≤ u) := by
  constructor
  · rintro ⟨h1, h2⟩
    simp only [fromBounds] at h1 h2
    rcases le_total u v with h | h
    · left; rw [min_eq_left h] at h1; rw [max_eq_right h] at h2; exact ⟨h1, h2⟩
    · right; rw [min_eq_right h] at h1; rw [max_eq_left h] at h2; exact ⟨h1, h2⟩
  · exact mem_fromBounds

/-! ### division -/

theorem divIN_of_ne (I : Intv α) {n : α} (hn : n ≠ 0) :
    divIN I n = .ok (fromBounds (I.a / n) (I.b / n)) := by
  simp [divIN, divN, hn, bind, Except.bind]

theorem divIN_zero (I : Intv α) : divIN I 0 = .error .divZero := by
  simp [divIN, divN, bind, Except.bind]

/-! ### powers -/

theorem abs_le_of_mem {u v t : α} (h1 : u ≤ t) (h2 : t ≤ v) : |t| ≤ |u| ∨ |t| ≤ |v| := by
  rcases le_total 0 t with ht | ht
  · right; rw [abs_of_nonneg ht, abs_of_nonneg (le_trans ht h2)]; exact h2
  · left; rw [abs_of_nonpos ht, abs_of_nonpos (le_trans h1 ht)]; linarith

/-- upper bound: a power of a point never exceeds the larger endpoint power -/
theorem pow_le_max (m : ℕ) {u v t : α} (h1 : u ≤ t) (h2 : t ≤ v) : t ^ m ≤ max (u ^ m) (v ^ m) := by
  rcases Nat.even_or_odd m with he | ho
  · rcases abs_le_of_mem h1 h2 with h | h
    · have := pow_le_pow_left₀ (abs_nonneg t) h m
      rw [he.pow_abs, he.pow_abs] at this
      exact le_trans this (le_max_left _ _)
    · have := pow_le_pow_left₀ (abs_nonneg t) h m
      rw [he.pow_abs, he.pow_abs] at this
      exact le_trans this (le_max_right _ _)
  · exact le_trans (ho.strictMono_pow.monotone h2) (le_max_right _ _)

/-- lower bound with the zero candidate -/
theorem min0_le_pow (m : ℕ) {u v t : α} (h1 : u ≤ t) (_h2 : t ≤ v) :
    min (min (u ^ m) (v ^ m)) (0 ^ m) ≤ t ^ m := by
  rcases Nat.even_or_odd m with he | ho
  · refine le_trans (min_le_right _ _) ?_
    have := pow_le_pow_left₀ (le_refl (0:α)) (abs_nonneg t) m
    rwa [he.pow_abs] at this
  · exact le_trans (le_trans (min_le_left _ _) (min_le_left _ _)) (ho.strictMono_pow.monotone h1)

/-- lower bound without the zero candidate: needs zero outside the interval -/
theorem min_le_pow (m : ℕ) {u v t : α} (h1 : u ≤ t) (h2 : t ≤ v) (h0 : ¬ (u ≤ 0 ∧ 0 ≤ v)) :
    min (u ^ m) (v ^ m) ≤ t ^ m := by
  rcases Nat.even_or_odd m with he | ho
  · rcases le_or_gt u 0 with hu | hu
    · have hv : v < 0 := by
        by_contra hv; exact h0 ⟨hu, not_lt.mp hv⟩
      -- all non-positive: |v| ≤ |t|
      have : |v| ≤ |t| := by
        rw [abs_of_neg hv, abs_of_nonpos (le_trans h2 hv.le)]; linarith
      have := pow_le_pow_left₀ (abs_nonneg v) this m
      rw [he.pow_abs, he.pow_abs] at this
      exact le_trans (min_le_right _ _) this
    · have := pow_le_pow_left₀ hu.le h1 m
      exact le_trans (min_le_left _ _) this
  · exact le_trans (min_le_left _ _) (ho.strictMono_pow.monotone h1)

theorem powN_int_nat (F : Fns α) (x : α) (m : ℕ) : powN F x (.int (m : ℤ)) = .ok (x ^ m) := by
  simp [powN]

theorem powN_int_negSucc (F : Fns α) {x : α} (hx : x ≠ 0) (m : ℕ) :
    powN F x (.int (Int.negSucc m)) = .ok ((1 / x) ^ (m + 1)) := by
  have h1 : ¬ (Int.negSucc m ≥ 0) := by simp
  have h2 : (-(Int.negSucc m)).toNat = m + 1 := by
    rw [Int.neg_negSucc]; rfl
  simp only [powN, h1, if_false, hx, h2]

theorem isNeg_int_nat (m : ℕ) : (Expo.int (m : ℤ) : Expo α).isNeg = false := by
  simp [Expo.isNeg]

theorem isNeg_int_negSucc (m : ℕ) : (Expo.int (Int.negSucc m) : Expo α).isNeg = true := by
  simp [Expo.isNeg]

/-- the interval the code returns for a non-negative integer exponent -/
theorem powI_int_nat (F : Fns α) (I : Intv α) (m : ℕ) :
    powI F I (.int (m : ℤ)) =
      .ok (if (0:α) ∈ I then ⟨min (min (I.a ^ m) (I.b ^ m)) (0 ^ m), max (max (I.a ^ m) (I.b ^ m)) (0 ^ m)⟩
           else ⟨min (I.a ^ m) (I.b ^ m), max (I.a ^ m) (I.b ^ m)⟩) := by
  unfold powI
  by_cases h0 : (0:α) ∈ I
  · have hc : contains I 0 ≠ 0 := contains_ne_zero.mpr h0
    simp [Expo.isFractional, hc, h0, isNeg_int_nat, powN_int_nat, bind, Except.bind]
  · have hc : ¬ (contains I 0 ≠ 0) := fun h => h0 (contains_ne_zero.mp h)
    simp [Expo.isFractional, hc, h0, powN_int_nat, bind, Except.bind]

/-- the interval the code returns for a negative integer exponent when zero is outside -/
theorem powI_int_negSucc (F : Fns α) {I : Intv α} (hwf : I.WF) (h0 : ¬ (0:α) ∈ I) (m : ℕ) :
    powI F I (.int (Int.negSucc m)) =
      .ok ⟨min ((1 / I.a) ^ (m + 1)) ((1 / I.b) ^ (m + 1)), max ((1 / I.a) ^ (m + 1)) ((1 / I.b) ^ (m + 1))⟩ := by
  have ha : I.a ≠ 0 := fun h => h0 ⟨h.le, h ▸ hwf⟩
  have hb : I.b ≠ 0 := fun h => h0 ⟨h ▸ hwf, h.ge⟩
  have hc : ¬ (contains I 0 ≠ 0) := fun h => h0 (contains_ne_zero.mp h)
  unfold powI
  simp [Expo.isFractional, hc, powN_int_negSucc F ha, powN_int_negSucc F hb, bind, Except.bind]

/-- zero inside and a negative exponent: rejected -/
theorem powI_neg_zero_mem (F : Fns α) {I : Intv α} (h0 : (0:α) ∈ I) {e : Expo α} (he : e.isNeg = true) :
    powI F I e = .error .runtime := by
  have hc : contains I 0 ≠ 0 := contains_ne_zero.mpr h0
  unfold powI
  by_cases h1 : hasNegative I = true ∧ e.isFractional = true
  · simp [h1]
  · simp [h1, hc, he]

/-- reciprocals of the points of an interval that avoids zero -/
theorem inv_mem {I : Intv α} {x : α} (hx : x ∈ I) (h0 : ¬ (0:α) ∈ I) :
    1 / I.b ≤ 1 / x ∧ 1 / x ≤ 1 / I.a ∧ ¬ (1 / I.b ≤ 0 ∧ 0 ≤ 1 / I.a) := by
  obtain ⟨h1, h2⟩ := hx
  rcases lt_or_ge 0 I.a with ha | ha
  · have hxp : 0 < x := lt_of_lt_of_le ha h1
    have hbp : 0 < I.b := lt_of_lt_of_le hxp h2
    refine ⟨one_div_le_one_div_of_le hxp h2, one_div_le_one_div_of_le ha h1, ?_⟩
    rintro ⟨h, _⟩
    have : 0 < 1 / I.b := one_div_pos.mpr hbp
    linarith
  · have hb : I.b < 0 := by
      by_contra hb; exact h0 ⟨ha, not_lt.mp hb⟩
    have hxn : x < 0 := lt_of_le_of_lt h2 hb
    have han : I.a < 0 := lt_of_le_of_lt h1 hxn
    refine ⟨one_div_le_one_div_of_neg_of_le hb h2 |> fun h => ?_, ?_, ?_⟩
    · exact (one_div_le_one_div_of_neg hb hxn).mpr h2
    · exact (one_div_le_one_div_of_neg hxn han).mpr h1
    · rintro ⟨_, h⟩
      have : 1 / I.a < 0 := one_div_neg.mpr han
      linarith

/-! ### abs -/

theorem absN_eq_abs (x : α) : absN x = |x| := by
  unfold absN
  by_cases h : x < 0
  · simp [h, abs_of_neg h]
  · simp [h, abs_of_nonneg (not_lt.mp h)]

/-! ### Except plumbing -/

theorem bind_eq_ok {ε β γ : Type} {x : Except ε β} {f : β → Except ε γ} {c : γ} :
    (x >>= f) = .ok c ↔ ∃ b, x = .ok b ∧ f b = .ok c := by
  cases x <;> simp [bind, Except.bind]

theorem powI_ok_wf (F : Fns α) (I : Intv α) (e : Expo α) (J : Intv α) (h : powI F I e = .ok J) : J.WF := by
  unfold powI at h
  split_ifs at h
  · simp only [bind_eq_ok] at h
    obtain ⟨pa, _, pb, _, p0, _, h⟩ := h
    cases h
    exact le_trans (le_trans (min_le_left _ _) (min_le_left _ _))
      (le_trans (le_max_left _ _) (le_max_left _ _))
  · simp only [bind_eq_ok] at h
    obtain ⟨pa, _, pb, _, h⟩ := h
    cases h
    exact min_le_max

theorem logI_ok_wf (F : Fns α) (I : Intv α) (base : α) (J : Intv α) (h : logI F I base = .ok J) : J.WF := by
  unfold logI at h
  split_ifs at h
  simp only [bind_eq_ok] at h
  obtain ⟨x, _, y, _, h⟩ := h
  cases h
  exact fromBounds_wf _ _

theorem divIN_ok_wf (I : Intv α) (n : α) (J : Intv α) (h : divIN I n = .ok J) : J.WF := by
  unfold divIN at h
  simp only [bind_eq_ok] at h
  obtain ⟨x, _, y, _, h⟩ := h
  cases h
  exact fromBounds_wf _ _

/-- meaning of the four relation names -/
def Rel.holds : Rel → α → α → Prop
  | .lt, x, y => x < y
  | .le, x, y => x ≤ y
  | .gt, x, y => x > y
  | .ge, x, y => x ≥ y

/-- the generic model with every operation taken from the ordered-field structure of `α` -/
def fieldOps (α : Type) [Field α] [LinearOrder α] : Ops α := ops

end Intv
end KaVerif.Interval
