import KaVerif.Model.Prob
import Mathlib.Data.Rat.Floor
import Mathlib.Data.Int.Interval
import Mathlib.Algebra.BigOperators.Intervals
import Mathlib.Algebra.Order.BigOperators.Group.Finset
import Mathlib.Algebra.Order.Floor.Ring
import Mathlib.Data.Nat.Choose.Sum
import Mathlib.Tactic.Ring
import Mathlib.Tactic.Linarith
import Mathlib.Tactic.FieldSimp
import Mathlib.Tactic.Positivity

/-!
  Helper lemmas for C08.

  Part 1  abstract discrete laws (`IsLaw`, `IsFiniteLaw`): cdf at integer points ↦ sums of pmf over the
          integers satisfying a condition; the set identities `{k | k < t} = {k | k ≤ ⌈t⌉-1}` etc.
  Part 2  evaluation of the argument / value expressions that occur in the generated table.
  Part 3  the concrete distributions satisfy `IsLaw` / `IsFiniteLaw`; means; continuous cdfs.
-/

set_option linter.unusedSimpArgs false
set_option linter.unusedVariables false

namespace KaVerif.Prob
open Finset

theorem floor_eq (x : ℚ) : x.floor = ⌊x⌋ := rfl

theorem ceil_eq (x : ℚ) : x.ceil = ⌈x⌉ := by
  rw [Rat.ceil_eq_neg_floor_neg, floor_eq, Int.floor_neg, neg_neg]

/-! ## Part 1: abstract discrete laws -/

/-- `pmf`, `cdf` form a discrete law on the integers `≥ lo`: no mass below `lo`, the cdf is the partial sum
    of the pmf, masses are non-negative. -/
structure IsLaw (pmf cdf : ℤ → ℚ) (lo : ℤ) : Prop where
  below : ∀ k, k < lo → pmf k = 0
  cdf_eq : ∀ x, cdf x = ∑ k ∈ Icc lo x, pmf k
  nonneg : ∀ k, 0 ≤ pmf k

/-- a law with finite support `[lo, hi]` and total mass 1 -/
structure IsFiniteLaw (pmf cdf : ℤ → ℚ) (lo hi : ℤ) : Prop extends IsLaw pmf cdf lo where
  above : ∀ k, hi < k → pmf k = 0
  total : ∑ k ∈ Icc lo hi, pmf k = 1

variable {pmf cdf : ℤ → ℚ} {lo hi : ℤ}

theorem IsLaw.cdf_sum (h : IsLaw pmf cdf lo) (n : ℤ) (S : Finset ℤ)
    (hS : ∀ k, k ∈ S ↔ lo ≤ k ∧ k ≤ n) : cdf n = ∑ k ∈ S, pmf k := by
  rw [h.cdf_eq]
  congr 1
  ext k
  rw [mem_Icc, hS]

theorem IsLaw.cdf_nonneg (h : IsLaw pmf cdf lo) (n : ℤ) : 0 ≤ cdf n := by
  rw [h.cdf_eq]
  exact sum_nonneg (fun k _ => h.nonneg k)

theorem IsLaw.cdf_mono (h : IsLaw pmf cdf lo) {m n : ℤ} (hmn : m ≤ n) : cdf m ≤ cdf n := by
  rw [h.cdf_eq, h.cdf_eq]
  apply sum_le_sum_of_subset_of_nonneg
  · intro k hk
    rw [mem_Icc] at hk ⊢
    exact ⟨hk.1, hk.2.trans hmn⟩
  · intro k _ _
    exact h.nonneg k

theorem pyMax0_of_nonneg {x : ℚ} (hx : 0 ≤ x) : pyMax0 x = x := by
  unfold pyMax0
  rw [if_neg (not_lt.mpr hx)]

theorem pyMax0_of_nonpos {x : ℚ} (hx : x ≤ 0) : pyMax0 x = 0 := by
  unfold pyMax0
  split
  · rfl
  · linarith

theorem pyMax0_eq_max (x : ℚ) : pyMax0 x = max x 0 := by
  rcases le_total 0 x with h | h
  · rw [pyMax0_of_nonneg h, max_eq_left h]
  · rw [pyMax0_of_nonpos h, max_eq_right h]

/-- the mass strictly above `m` and up to `n` -/
theorem IsLaw.cdf_diff (h : IsLaw pmf cdf lo) (m n : ℤ) (S : Finset ℤ)
    (hS : ∀ k, k ∈ S ↔ lo ≤ k ∧ m < k ∧ k ≤ n) : pyMax0 (cdf n - cdf m) = ∑ k ∈ S, pmf k := by
  rcases le_or_gt m n with hmn | hmn
  · have hsub : Icc lo m ⊆ Icc lo n := by
      intro k hk
      rw [mem_Icc] at hk ⊢
      exact ⟨hk.1, hk.2.trans hmn⟩
    have hSd : S = Icc lo n \ Icc lo m := by
      ext k
      rw [hS, mem_sdiff, mem_Icc, mem_Icc]
      constructor
      · rintro ⟨a, b, c⟩
        exact ⟨⟨a, c⟩, fun hh => absurd hh.2 (not_le.mpr b)⟩
      · rintro ⟨⟨a, c⟩, hh⟩
        refine ⟨a, ?_, c⟩
        by_contra hb
        exact hh ⟨a, not_lt.mp hb⟩
    have key := sum_sdiff (f := pmf) hsub
    rw [h.cdf_eq, h.cdf_eq, hSd, ← key, add_sub_cancel_right]
    exact pyMax0_of_nonneg (sum_nonneg (fun k _ => h.nonneg k))
  · have hSe : S = ∅ := by
      ext k
      rw [hS]
      constructor
      · rintro ⟨_, b, c⟩
        omega
      · intro hk
        simp at hk
    rw [hSe, sum_empty]
    apply pyMax0_of_nonpos
    have := h.cdf_mono hmn.le
    linarith

theorem IsLaw.pmf_sum (h : IsLaw pmf cdf lo) (t : ℤ) (S : Finset ℤ)
    (hS : ∀ k, k ∈ S ↔ lo ≤ k ∧ k = t) : pmf t = ∑ k ∈ S, pmf k := by
  by_cases ht : lo ≤ t
  · have : S = {t} := by
      ext k
      rw [hS, mem_singleton]
      constructor
      · exact fun hh => hh.2
      · rintro rfl
        exact ⟨ht, rfl⟩
    rw [this, sum_singleton]
  · have : S = ∅ := by
      ext k
      rw [hS]
      constructor
      · rintro ⟨a, rfl⟩
        exact absurd a ht
      · intro hk
        simp at hk
    rw [this, sum_empty]
    exact h.below t (not_le.mp ht)

/-- mass of a finite-support law outside `[lo, hi]` does not count -/
theorem IsFiniteLaw.sum_restrict (h : IsFiniteLaw pmf cdf lo hi) (P : ℤ → Prop) [DecidablePred P]
    (S : Finset ℤ) (hS : ∀ k, k ∈ S ↔ lo ≤ k ∧ P k) :
    ∑ k ∈ S, pmf k = ∑ k ∈ (Icc lo hi).filter P, pmf k := by
  symm
  apply sum_subset
  · intro k hk
    rw [mem_filter, mem_Icc] at hk
    rw [hS]
    exact ⟨hk.1.1, hk.2⟩
  · intro k hk hnot
    rw [hS] at hk
    rw [mem_filter, mem_Icc] at hnot
    apply h.above
    by_contra hh
    exact hnot ⟨⟨hk.1, not_lt.mp hh⟩, hk.2⟩

/-- with total mass 1: one minus the mass of the complement is the mass of the condition -/
theorem IsFiniteLaw.one_sub (h : IsFiniteLaw pmf cdf lo hi) (P : ℤ → Prop) [DecidablePred P] :
    1 - ∑ k ∈ (Icc lo hi).filter (fun k => ¬ P k), pmf k = ∑ k ∈ (Icc lo hi).filter P, pmf k := by
  have := sum_filter_add_sum_filter_not (Icc lo hi) P pmf
  rw [h.total] at this
  linarith

theorem IsFiniteLaw.cdf_le_one (h : IsFiniteLaw pmf cdf lo hi) (n : ℤ) : cdf n ≤ 1 := by
  have h1 := h.toIsLaw.cdf_sum n (Icc lo n) (fun k => by rw [mem_Icc])
  rw [h1, h.sum_restrict (fun k => k ≤ n) (Icc lo n) (fun k => by rw [mem_Icc]), ← h.total]
  apply sum_le_sum_of_subset_of_nonneg (filter_subset _ _)
  intro k _ _
  exact h.nonneg k

/-! ### the set identities (integer outcomes against a rational threshold) -/

theorem cast_le_iff (k : ℤ) (t : ℚ) : (k : ℚ) ≤ t ↔ k ≤ ⌊t⌋ := Int.le_floor.symm

theorem cast_lt_iff (k : ℤ) (t : ℚ) : (k : ℚ) < t ↔ k ≤ ⌈t⌉ - 1 := by
  rw [Int.le_sub_one_iff, Int.lt_ceil]

theorem lt_cast_iff (k : ℤ) (t : ℚ) : t < (k : ℚ) ↔ ⌊t⌋ < k := Int.floor_lt.symm

theorem le_cast_iff (k : ℤ) (t : ℚ) : t ≤ (k : ℚ) ↔ ⌈t⌉ - 1 < k := by
  rw [Int.sub_one_lt_iff, Int.ceil_le]

/-! ## Part 2: the expressions of the generated table -/

theorem evalZ_of_cast {env : ℕ → ℚ} {a : Arg} {z : ℤ} (h : a.evalQ env = (z : ℚ)) :
    a.evalZ env = some z := by
  unfold Arg.evalZ
  simp [h]

theorem evalZ_var_int {env : ℕ → ℚ} {i : ℕ} (h : (env i).den = 1) :
    (Arg.var i).evalZ env = some (env i).num := by
  unfold Arg.evalZ
  simp [Arg.evalQ, h]

theorem evalZ_var_nonint {env : ℕ → ℚ} {i : ℕ} (h : (env i).den ≠ 1) :
    (Arg.var i).evalZ env = none := by
  unfold Arg.evalZ
  simp [Arg.evalQ, h]

/-- `math.floor(t)` -/
theorem evalZ_floor_var (env : ℕ → ℚ) (i : ℕ) :
    (Arg.floor (.var i)).evalZ env = some ⌊env i⌋ :=
  evalZ_of_cast (by simp [Arg.evalQ, floor_eq])

/-- `math.ceil(t) - 1` -/
theorem evalZ_ceil_pred (env : ℕ → ℚ) (i : ℕ) :
    (Arg.addc (.ceil (.var i)) (-1)).evalZ env = some (⌈env i⌉ - 1) :=
  evalZ_of_cast (by simp [Arg.evalQ, ceil_eq]; ring)

/-- `math.floor(math.ceil(t) - 1)` (DoubleEvent adjusts, then eval_probability floors again) -/
theorem evalZ_floor_ceil_pred (env : ℕ → ℚ) (i : ℕ) :
    (Arg.floor (.addc (.ceil (.var i)) (-1))).evalZ env = some (⌈env i⌉ - 1) := by
  apply evalZ_of_cast
  have : ((⌈env i⌉ : ℤ) : ℚ) + ((-1 : ℤ) : ℚ) = ((⌈env i⌉ - 1 : ℤ) : ℚ) := by push_cast; ring
  simp only [Arg.evalQ, ceil_eq, floor_eq, this, Int.floor_intCast]

theorem evalD_cdf {env : ℕ → ℚ} {a : Arg} {z : ℤ} (h : a.evalZ env = some z) :
    (PExpr.cdf a).evalD pmf cdf env = some (cdf z) := by
  simp [PExpr.evalD, h]

theorem evalD_pmf {env : ℕ → ℚ} {a : Arg} {z : ℤ} (h : a.evalZ env = some z) :
    (PExpr.pmf a).evalD pmf cdf env = some (pmf z) := by
  simp [PExpr.evalD, h]

theorem evalD_oneSub_cdf {env : ℕ → ℚ} {a : Arg} {z : ℤ} (h : a.evalZ env = some z) :
    (PExpr.oneSub (.cdf a)).evalD pmf cdf env = some (1 - cdf z) := by
  simp [PExpr.evalD, h]

theorem evalD_double {env : ℕ → ℚ} {a b : Arg} {m n : ℤ} (ha : a.evalZ env = some m)
    (hb : b.evalZ env = some n) :
    (PExpr.max0 (.sub (.cdf b) (.cdf a))).evalD pmf cdf env = some (pyMax0 (cdf n - cdf m)) := by
  simp [PExpr.evalD, ha, hb]

/-! ### the row shapes of the decision table, discrete variable: value ↦ mass of a set of integers -/

section rows
variable {env : ℕ → ℚ} {i j : ℕ}

/-- `X <= t`: `cdf(floor(t))` -/
theorem IsLaw.row_le_left (h : IsLaw pmf cdf lo) (S : Finset ℤ)
    (hS : ∀ k, k ∈ S ↔ lo ≤ k ∧ (k : ℚ) ≤ env i) :
    (PExpr.cdf (.floor (.var i))).evalD pmf cdf env = some (∑ k ∈ S, pmf k) := by
  rw [evalD_cdf (evalZ_floor_var env i), h.cdf_sum _ S]
  intro k
  rw [hS, cast_le_iff]

/-- `X < t`: `cdf(ceil(t) - 1)` -/
theorem IsLaw.row_lt_left (h : IsLaw pmf cdf lo) (S : Finset ℤ)
    (hS : ∀ k, k ∈ S ↔ lo ≤ k ∧ (k : ℚ) < env i) :
    (PExpr.cdf (.addc (.ceil (.var i)) (-1))).evalD pmf cdf env = some (∑ k ∈ S, pmf k) := by
  rw [evalD_cdf (evalZ_ceil_pred env i), h.cdf_sum _ S]
  intro k
  rw [hS, cast_lt_iff]

/-- `t < X`: `1 - cdf(floor(t))`; `S` = the outcomes that do NOT satisfy it -/
theorem IsLaw.row_lt_right (h : IsLaw pmf cdf lo) (S : Finset ℤ)
    (hS : ∀ k, k ∈ S ↔ lo ≤ k ∧ ¬ (env i < (k : ℚ))) :
    (PExpr.oneSub (.cdf (.floor (.var i)))).evalD pmf cdf env = some (1 - ∑ k ∈ S, pmf k) := by
  rw [evalD_oneSub_cdf (evalZ_floor_var env i), h.cdf_sum _ S]
  intro k
  rw [hS, not_lt, cast_le_iff]

/-- `t <= X`: `1 - cdf(ceil(t) - 1)` -/
theorem IsLaw.row_le_right (h : IsLaw pmf cdf lo) (S : Finset ℤ)
    (hS : ∀ k, k ∈ S ↔ lo ≤ k ∧ ¬ (env i ≤ (k : ℚ))) :
    (PExpr.oneSub (.cdf (.addc (.ceil (.var i)) (-1)))).evalD pmf cdf env
      = some (1 - ∑ k ∈ S, pmf k) := by
  rw [evalD_oneSub_cdf (evalZ_ceil_pred env i), h.cdf_sum _ S]
  intro k
  rw [hS, not_le, cast_lt_iff]

/-- `X = t` for an integral `t`: `pmf(t)` -/
theorem IsLaw.row_eq (h : IsLaw pmf cdf lo) (hint : (env i).den = 1) (S : Finset ℤ)
    (hS : ∀ k, k ∈ S ↔ lo ≤ k ∧ (k : ℚ) = env i) :
    (PExpr.pmf (.var i)).evalD pmf cdf env = some (∑ k ∈ S, pmf k) := by
  rw [evalD_pmf (evalZ_var_int hint), h.pmf_sum _ S]
  intro k
  rw [hS]
  have : env i = ((env i).num : ℚ) := ((Rat.den_eq_one_iff _).mp hint).symm
  constructor
  · rintro ⟨a, b⟩
    refine ⟨a, ?_⟩
    rw [this] at b
    exact_mod_cast b
  · rintro ⟨a, b⟩
    refine ⟨a, ?_⟩
    rw [this, b]

/-- `a <= X <= b`: `max(cdf(floor(b)) - cdf(floor(ceil(a) - 1)), 0)` -/
theorem IsLaw.row_le_le (h : IsLaw pmf cdf lo) (S : Finset ℤ)
    (hS : ∀ k, k ∈ S ↔ lo ≤ k ∧ env i ≤ (k : ℚ) ∧ (k : ℚ) ≤ env j) :
    (PExpr.max0 (.sub (.cdf (.floor (.var j)))
        (.cdf (.floor (.addc (.ceil (.var i)) (-1)))))).evalD pmf cdf env
      = some (∑ k ∈ S, pmf k) := by
  rw [evalD_double (evalZ_floor_ceil_pred env i) (evalZ_floor_var env j), h.cdf_diff _ _ S]
  intro k
  rw [hS, le_cast_iff, cast_le_iff]

/-- `a <= X < b`: `max(cdf(ceil(b) - 1) - cdf(floor(ceil(a) - 1)), 0)` -/
theorem IsLaw.row_le_lt (h : IsLaw pmf cdf lo) (S : Finset ℤ)
    (hS : ∀ k, k ∈ S ↔ lo ≤ k ∧ env i ≤ (k : ℚ) ∧ (k : ℚ) < env j) :
    (PExpr.max0 (.sub (.cdf (.addc (.ceil (.var j)) (-1)))
        (.cdf (.floor (.addc (.ceil (.var i)) (-1)))))).evalD pmf cdf env
      = some (∑ k ∈ S, pmf k) := by
  rw [evalD_double (evalZ_floor_ceil_pred env i) (evalZ_ceil_pred env j), h.cdf_diff _ _ S]
  intro k
  rw [hS, le_cast_iff, cast_lt_iff]

/-- `a < X <= b`: `max(cdf(floor(b)) - cdf(floor(a)), 0)` -/
theorem IsLaw.row_lt_le (h : IsLaw pmf cdf lo) (S : Finset ℤ)
    (hS : ∀ k, k ∈ S ↔ lo ≤ k ∧ env i < (k : ℚ) ∧ (k : ℚ) ≤ env j) :
    (PExpr.max0 (.sub (.cdf (.floor (.var j))) (.cdf (.floor (.var i))))).evalD pmf cdf env
      = some (∑ k ∈ S, pmf k) := by
  rw [evalD_double (evalZ_floor_var env i) (evalZ_floor_var env j), h.cdf_diff _ _ S]
  intro k
  rw [hS, lt_cast_iff, cast_le_iff]

/-- `a < X < b`: `max(cdf(ceil(b) - 1) - cdf(floor(a)), 0)` -/
theorem IsLaw.row_lt_lt (h : IsLaw pmf cdf lo) (S : Finset ℤ)
    (hS : ∀ k, k ∈ S ↔ lo ≤ k ∧ env i < (k : ℚ) ∧ (k : ℚ) < env j) :
    (PExpr.max0 (.sub (.cdf (.addc (.ceil (.var j)) (-1))) (.cdf (.floor (.var i))))).evalD pmf cdf env
      = some (∑ k ∈ S, pmf k) := by
  rw [evalD_double (evalZ_floor_var env i) (evalZ_ceil_pred env j), h.cdf_diff _ _ S]
  intro k
  rw [hS, lt_cast_iff, cast_lt_iff]

end rows


/-! ### written forms: the bounded side, and existence of the finite sets the theorems quantify over -/

theorem exists_finset_of_bounded (lo : ℤ) (Q : ℤ → Prop) [DecidablePred Q] (M : ℤ)
    (hM : ∀ k, Q k → k ≤ M) : ∃ S : Finset ℤ, ∀ k, k ∈ S ↔ lo ≤ k ∧ Q k := by
  refine ⟨(Icc lo M).filter Q, fun k => ?_⟩
  rw [mem_filter, mem_Icc]
  constructor
  · rintro ⟨⟨a, _⟩, c⟩
    exact ⟨a, c⟩
  · rintro ⟨a, c⟩
    exact ⟨⟨a, hM k c⟩, c⟩

theorem single_upper_bound {op : Op} {rvLeft : Bool} (hu : isUpper op rvLeft = true) (t : ℚ) (k : ℤ)
    (hk : (single op rvLeft t).holds k = true) : k ≤ ⌊t⌋ := by
  rw [← cast_le_iff]
  cases op <;> cases rvLeft <;> simp [isUpper] at hu <;>
    simp [single, Written.holds, chain, Op.test, Term.value] at hk <;> linarith

theorem single_lower_bound {op : Op} {rvLeft : Bool} (hl : isLower op rvLeft = true) (t : ℚ) (k : ℤ)
    (hk : ¬ ((single op rvLeft t).holds k = true)) : k ≤ ⌊t⌋ := by
  rw [← cast_le_iff]
  cases op <;> cases rvLeft <;> simp [isLower] at hl <;>
    simp [single, Written.holds, chain, Op.test, Term.value] at hk <;> linarith

theorem double_bound {o1 o2 : Op}
    (hdir : ((o1.forward && o2.forward) || (o1.backward && o2.backward)) = true) (a b : ℚ) (k : ℤ)
    (hk : (double o1 o2 a b).holds k = true) : k ≤ max ⌊a⌋ ⌊b⌋ := by
  rw [le_max_iff, ← cast_le_iff, ← cast_le_iff]
  cases o1 <;> cases o2 <;> simp [Op.forward, Op.backward] at hdir <;>
    simp [double, Written.holds, chain, Op.test, Term.value] at hk
  · exact Or.inr hk.2
  · exact Or.inr hk.2.le
  · exact Or.inr hk.2
  · exact Or.inr hk.2.le
  · exact Or.inl hk.1.le
  · exact Or.inl hk.1.le
  · exact Or.inl hk.1
  · exact Or.inl hk.1

theorem isUpper_or_isLower {op : Op} (hop : op ≠ .eq) (rvLeft : Bool) :
    (isUpper op rvLeft = true ∧ isLower op rvLeft = false)
    ∨ (isLower op rvLeft = true ∧ isUpper op rvLeft = false) := by
  cases op <;> cases rvLeft <;> simp [isUpper, isLower] at hop ⊢

/-! ### the pipeline -/

theorem probWritten_of_resolve {fl : List (List Op × (List Op × Bool))} {lb : List (List Op)} {rw : List Row}
    {law : Law} {w : Written} {row : Row} {terms : List Term}
    (h : resolveRow fl lb rw law.isDisc w = .ok (row, terms)) :
    probWritten fl lb rw law w = evalRow law row terms := by
  unfold probWritten
  rw [h]

theorem probWritten_of_resolve_error {fl : List (List Op × (List Op × Bool))} {lb : List (List Op)}
    {rw : List Row} {law : Law} {w : Written} {e : PErr}
    (h : resolveRow fl lb rw law.isDisc w = .error e) :
    probWritten fl lb rw law w = .error e := by
  unfold probWritten
  rw [h]


/-- the registered signature demands Integral and some numeric argument is not an integer -/
theorem resolveRow_intOnly_reject {fl : List (List Op × (List Op × Bool))} {lb : List (List Op)}
    {rw : List Row} {disc : Bool} {w : Written} {ops : List Op} {rev : Bool} {pos : ℕ} {row : Row}
    (h1 : fl.lookup w.ops = some (ops, rev)) (h2 : lb.contains ops = true)
    (h3 : (if rev then w.terms.reverse else w.terms).length = ops.length + 1)
    (h4 : rvPositions (if rev then w.terms.reverse else w.terms) 0 = [pos])
    (h5 : findRow rw ops pos disc = some row) (h6 : row.intOnly = true)
    (h7 : (if rev then w.terms.reverse else w.terms).all Term.isInt = false) :
    resolveRow fl lb rw disc w = .error .noMatch := by
  unfold resolveRow
  simp only [h1, h2, h3, h4, h5, h6, h7]
  simp


/-- whatever `resolveRow` delivers is a row of the table, of the requested kind -/
theorem resolveRow_mem {fl : List (List Op × (List Op × Bool))} {lb : List (List Op)} {rw : List Row}
    {disc : Bool} {w : Written} {row : Row} {terms : List Term}
    (h : resolveRow fl lb rw disc w = .ok (row, terms)) : row ∈ rw ∧ row.disc = disc := by
  unfold resolveRow at h
  cases hl : fl.lookup w.ops with
  | none => rw [hl] at h; exact absurd h (by simp)
  | some p =>
    obtain ⟨ops, rev⟩ := p
    rw [hl] at h
    dsimp only at h
    generalize (if rev = true then w.terms.reverse else w.terms) = T at h
    by_cases c1 : (!lb.contains ops) = true
    · rw [if_pos c1] at h; exact absurd h (by simp)
    · rw [if_neg c1] at h
      by_cases c2 : T.length ≠ ops.length + 1
      · rw [if_pos c2] at h; exact absurd h (by simp)
      · rw [if_neg c2] at h
        split at h
        · rename_i pos _
          cases hf : findRow rw ops pos disc with
          | none => rw [hf] at h; exact absurd h (by simp)
          | some row' =>
            rw [hf] at h
            dsimp only at h
            by_cases c3 : (row'.intOnly && !T.all Term.isInt) = true
            · rw [if_pos c3] at h; exact absurd h (by simp)
            · rw [if_neg c3] at h
              simp only [Except.ok.injEq, Prod.mk.injEq] at h
              obtain ⟨rfl, _⟩ := h
              refine ⟨List.mem_of_find?_eq_some hf, ?_⟩
              have := List.find?_some hf
              simp only [Bool.and_eq_true, decide_eq_true_eq] at this
              exact this.2
        · exact absurd h (by simp)

theorem probWritten_ok {fl : List (List Op × (List Op × Bool))} {lb : List (List Op)} {rw : List Row}
    {law : Law} {w : Written} {v : ℚ} (h : probWritten fl lb rw law w = .ok v) :
    ∃ row terms, row ∈ rw ∧ row.disc = law.isDisc ∧ evalRow law row terms = .ok v := by
  unfold probWritten at h
  split at h
  · exact absurd h (by simp)
  · rename_i row terms hr
    exact ⟨row, terms, (resolveRow_mem hr).1, (resolveRow_mem hr).2, h⟩

theorem evalRow_disc_ok {row : Row} {terms : List Term} {v : ℚ}
    (h : evalRow (.disc pmf cdf) row terms = .ok v) :
    row.expr.evalD pmf cdf (envOf terms) = some v := by
  unfold evalRow at h
  dsimp only at h
  split at h
  · simp only [Except.ok.injEq] at h
    rw [← h]
    assumption
  · exact absurd h (by simp)

theorem evalRow_cont_ok {F : ℚ → ℚ} {row : Row} {terms : List Term} {v : ℚ}
    (h : evalRow (.cont F) row terms = .ok v) :
    row.expr.evalC F (envOf terms) = some v := by
  unfold evalRow at h
  dsimp only at h
  split at h
  · simp only [Except.ok.injEq] at h
    rw [← h]
    assumption
  · exact absurd h (by simp)

/-! ### ranges of the row shapes -/

theorem IsLaw.pmf_le_cdf (h : IsLaw pmf cdf lo) (z : ℤ) : pmf z ≤ cdf z := by
  by_cases hz : lo ≤ z
  · rw [h.cdf_eq]
    exact single_le_sum (f := pmf) (fun k _ => h.nonneg k) (mem_Icc.mpr ⟨hz, le_refl z⟩)
  · rw [h.below z (not_le.mp hz)]
    exact h.cdf_nonneg z

section range
variable {env : ℕ → ℚ} {a b : Arg} {v : ℚ}

theorem IsLaw.range_cdf (h : IsLaw pmf cdf lo) (h1 : ∀ n, cdf n ≤ 1)
    (hv : (PExpr.cdf a).evalD pmf cdf env = some v) : 0 ≤ v ∧ v ≤ 1 := by
  simp only [PExpr.evalD, Option.map_eq_some_iff] at hv
  obtain ⟨z, _, rfl⟩ := hv
  exact ⟨h.cdf_nonneg z, h1 z⟩

theorem IsLaw.range_oneSub_cdf (h : IsLaw pmf cdf lo) (h1 : ∀ n, cdf n ≤ 1)
    (hv : (PExpr.oneSub (.cdf a)).evalD pmf cdf env = some v) : 0 ≤ v ∧ v ≤ 1 := by
  simp only [PExpr.evalD, Option.map_eq_some_iff] at hv
  obtain ⟨x, ⟨z, _, rfl⟩, rfl⟩ := hv
  have := h.cdf_nonneg z
  have := h1 z
  constructor <;> linarith

theorem IsLaw.range_pmf (h : IsLaw pmf cdf lo) (h1 : ∀ n, cdf n ≤ 1)
    (hv : (PExpr.pmf a).evalD pmf cdf env = some v) : 0 ≤ v ∧ v ≤ 1 := by
  simp only [PExpr.evalD, Option.map_eq_some_iff] at hv
  obtain ⟨z, _, rfl⟩ := hv
  exact ⟨h.nonneg z, (h.pmf_le_cdf z).trans (h1 z)⟩

theorem IsLaw.range_double (h : IsLaw pmf cdf lo) (h1 : ∀ n, cdf n ≤ 1)
    (hv : (PExpr.max0 (.sub (.cdf b) (.cdf a))).evalD pmf cdf env = some v) : 0 ≤ v ∧ v ≤ 1 := by
  simp only [PExpr.evalD, Option.map_eq_some_iff] at hv
  obtain ⟨x, hx, rfl⟩ := hv
  cases hb : b.evalZ env with
  | none => simp [hb] at hx
  | some n =>
    cases ha : a.evalZ env with
    | none => simp [hb, ha] at hx
    | some m =>
      simp only [hb, ha, Option.map_some, Option.some.injEq] at hx
      subst hx
      rw [pyMax0_eq_max]
      have := h.cdf_nonneg m
      have := h1 n
      exact ⟨le_max_right _ _, max_le (by linarith) zero_le_one⟩

end range

theorem evalRow_disc {row : Row} {terms : List Term} {v : ℚ}
    (h : row.expr.evalD pmf cdf (envOf terms) = some v) :
    evalRow (.disc pmf cdf) row terms = .ok v := by
  simp [evalRow, h]

theorem evalRow_cont {F : ℚ → ℚ} {row : Row} {terms : List Term} {v : ℚ}
    (h : row.expr.evalC F (envOf terms) = some v) :
    evalRow (.cont F) row terms = .ok v := by
  simp [evalRow, h]

/-! ## Part 3: the concrete distributions -/

theorem sum_Icc_succ (g : ℤ → ℚ) (a b : ℤ) (h : a ≤ b + 1) :
    ∑ k ∈ Icc a (b + 1), g k = ∑ k ∈ Icc a b, g k + g (b + 1) := by
  have : Icc a (b + 1) = insert (b + 1) (Icc a b) := by
    ext k
    simp only [mem_Icc, mem_insert]
    omega
  rw [this, sum_insert (by simp), add_comm]

/-- a law from its recurrence: nothing below `lo`, and `cdf (x+1) = cdf x + pmf (x+1)` from `lo - 1` on -/
theorem isLaw_of_step {pmf cdf : ℤ → ℚ} {lo : ℤ} (hbelow : ∀ k, k < lo → pmf k = 0)
    (hnn : ∀ k, 0 ≤ pmf k) (h0 : ∀ x, x < lo → cdf x = 0)
    (hstep : ∀ x, lo - 1 ≤ x → cdf (x + 1) = cdf x + pmf (x + 1)) : IsLaw pmf cdf lo := by
  refine ⟨hbelow, ?_, hnn⟩
  intro x
  by_cases hx : x < lo
  · rw [h0 x hx, Icc_eq_empty (by omega), sum_empty]
  · have hx' : lo - 1 ≤ x := by omega
    induction x, hx' using Int.leInduction with
    | base => rw [h0 _ (by omega), Icc_eq_empty (by omega), sum_empty]
    | succ y hy ih =>
      by_cases hy' : y < lo
      · have : y = lo - 1 := by omega
        subst this
        rw [hstep _ le_rfl, h0 _ (by omega), sum_Icc_succ _ _ _ (by omega), Icc_eq_empty (by omega),
          sum_empty]
      · rw [hstep y hy, ih hy', sum_Icc_succ _ _ _ (by omega)]

theorem sumRange_eq (f : ℤ → ℚ) (n : ℕ) : sumRange f n = ∑ j ∈ range n, f (j : ℤ) := by
  induction n with
  | zero => simp [sumRange]
  | succ n ih => rw [sumRange, ih, sum_range_succ]

theorem sum_Icc_zero_eq_range (g : ℤ → ℚ) (n : ℕ) :
    ∑ k ∈ Icc (0 : ℤ) n, g k = ∑ j ∈ range (n + 1), g (j : ℤ) := by
  induction n with
  | zero => simp
  | succ n ih =>
    rw [sum_range_succ, ← ih]
    push_cast
    rw [sum_Icc_succ _ _ _ (by omega)]

/-! ### utils.factorial, utils.choose -/

theorem factLoop_eq (n : ℕ) : factLoop n = n.factorial := by
  induction n with
  | zero => rfl
  | succ n ih => rw [factLoop, ih, Nat.factorial_succ]

theorem factorial_natCast (n : ℕ) : factorial (n : ℤ) = (n.factorial : ℤ) := by
  unfold factorial
  split
  · rename_i h
    have : n = 0 ∨ n = 1 := by omega
    rcases this with rfl | rfl <;> simp
  · simp [factLoop_eq]

theorem factorial_pos' (n : ℕ) : (0 : ℚ) < (factorial (n : ℤ) : ℚ) := by
  rw [factorial_natCast]
  exact_mod_cast n.factorial_pos

theorem chooseLoop_eq (n j : ℕ) (hj : j ≤ n) :
    chooseLoop ((n : ℤ) + 1) j = ((n.descFactorial j : ℤ), (j.factorial : ℤ)) := by
  induction j with
  | zero => simp [chooseLoop]
  | succ j ih =>
    rw [chooseLoop, ih (by omega)]
    simp only [Nat.descFactorial_succ, Nat.factorial_succ, Prod.mk.injEq]
    constructor
    · rw [Nat.cast_mul, Nat.cast_sub (by omega)]
      ring
    · push_cast
      ring

/-- `utils.choose` is the binomial coefficient -/
theorem choose_eq (n k : ℕ) (hk : k ≤ n) : choose (n : ℤ) (k : ℤ) = (n.choose k : ℤ) := by
  unfold choose
  rw [if_neg (by omega)]
  have key : ∀ t : ℕ, t ≤ n →
      (n.descFactorial t : ℤ) / (t.factorial : ℤ) = (n.choose t : ℤ) := by
    intro t ht
    rw [Nat.descFactorial_eq_factorial_mul_choose, Nat.cast_mul,
      Int.mul_ediv_cancel_left _ (by exact_mod_cast t.factorial_ne_zero)]
  rcases le_total k (n - k) with h | h
  · have hm : min (k : ℤ) ((n : ℤ) - k) = (k : ℤ) := by
      apply min_eq_left
      have : (k : ℤ) ≤ ((n - k : ℕ) : ℤ) := by exact_mod_cast h
      rwa [Nat.cast_sub hk] at this
    simp only [hm, Int.toNat_natCast]
    rw [chooseLoop_eq n k hk]
    exact key k hk
  · have hm : min (k : ℤ) ((n : ℤ) - k) = ((n - k : ℕ) : ℤ) := by
      rw [Nat.cast_sub hk]
      apply min_eq_right
      have : ((n - k : ℕ) : ℤ) ≤ (k : ℤ) := by exact_mod_cast h
      rwa [Nat.cast_sub hk] at this
    simp only [hm, Int.toNat_natCast]
    rw [chooseLoop_eq n (n - k) (Nat.sub_le n k)]
    rw [key (n - k) (Nat.sub_le n k), Nat.choose_symm hk]


/-! ### Bernoulli -/

theorem bernoulli_finite (p : ℚ) (hv : (Dist.bernoulli p).valid = true) :
    IsFiniteLaw (Dist.bernoulli p).pmf (Dist.bernoulli p).cdf 0 1 := by
  simp only [Dist.valid, Bool.not_eq_true', Bool.or_eq_false_iff, decide_eq_false_iff_not, not_lt] at hv
  obtain ⟨hp0, hp1⟩ := hv
  refine { toIsLaw := isLaw_of_step ?_ ?_ ?_ ?_, above := ?_, total := ?_ }
  · intro k hk
    simp only [Dist.pmf]
    rw [if_neg (by omega), if_neg (by omega)]
  · intro k
    simp only [Dist.pmf]
    split_ifs <;> linarith
  · intro x hx
    simp only [Dist.cdf]
    rw [if_neg (by omega), if_neg (by omega)]
  · intro x hx
    simp only [Dist.cdf, Dist.pmf]
    rcases (by omega : x = -1 ∨ x = 0 ∨ 1 ≤ x) with rfl | rfl | h1
    · norm_num
    · norm_num
    · rw [if_pos (by omega), if_pos (by omega), if_neg (by omega), if_neg (by omega)]
      ring
  · intro k hk
    simp only [Dist.pmf]
    rw [if_neg (by omega), if_neg (by omega)]
  · have : Icc (0 : ℤ) 1 = {0, 1} := by
      ext k
      simp only [mem_Icc, mem_insert, mem_singleton]
      omega
    rw [this, sum_pair (by norm_num)]
    simp only [Dist.pmf]
    norm_num

/-! ### UniformInt -/

theorem uniformInt_finite (lo hi : ℤ) (hv : (Dist.uniformInt lo hi).valid = true) :
    IsFiniteLaw (Dist.uniformInt lo hi).pmf (Dist.uniformInt lo hi).cdf lo hi := by
  simp only [Dist.valid, Bool.not_eq_true', decide_eq_false_iff_not, not_lt] at hv
  have hN : (0 : ℚ) < ((hi - lo + 1 : ℤ) : ℚ) := by exact_mod_cast (by omega : 0 < hi - lo + 1)
  have hlaw : IsLaw (Dist.uniformInt lo hi).pmf (Dist.uniformInt lo hi).cdf lo := by
    apply isLaw_of_step
    · intro k hk
      simp only [Dist.pmf]
      rw [if_pos (Or.inl hk)]
    · intro k
      simp only [Dist.pmf]
      split_ifs
      · exact le_refl _
      · positivity
    · intro x hx
      simp only [Dist.cdf]
      rw [if_pos hx]
    · intro x hx
      simp only [Dist.cdf, Dist.pmf]
      have c1 : ¬ (x + 1 < lo) := by omega
      simp only [if_neg c1]
      rcases (by omega : x = lo - 1 ∨ (lo ≤ x ∧ x + 1 < hi) ∨ (lo ≤ x ∧ x + 1 = hi) ∨ hi ≤ x)
        with rfl | ⟨h1, h2⟩ | ⟨h1, h2⟩ | h1
      · simp only [if_pos (show lo - 1 < lo by omega),
          if_neg (show ¬ (lo - 1 + 1 < lo ∨ lo - 1 + 1 > hi) by omega)]
        by_cases hh : lo - 1 + 1 ≥ hi
        · simp only [if_pos hh]
          have : hi = lo := by omega
          subst this
          simp
        · simp only [if_neg hh]
          field_simp
          push_cast
          ring
      · simp only [if_neg (show ¬ (x + 1 ≥ hi) by omega), if_neg (show ¬ (x < lo) by omega),
          if_neg (show ¬ (x ≥ hi) by omega), if_neg (show ¬ (x + 1 < lo ∨ x + 1 > hi) by omega)]
        field_simp
        push_cast
        ring
      · simp only [if_pos (show x + 1 ≥ hi by omega), if_neg (show ¬ (x < lo) by omega),
          if_neg (show ¬ (x ≥ hi) by omega), if_neg (show ¬ (x + 1 < lo ∨ x + 1 > hi) by omega)]
        subst h2
        field_simp
        push_cast
        ring
      · simp only [if_pos (show x + 1 ≥ hi by omega), if_neg (show ¬ (x < lo) by omega),
          if_pos (show x ≥ hi by omega), if_pos (show x + 1 < lo ∨ x + 1 > hi by omega)]
        ring
  refine { toIsLaw := hlaw, above := ?_, total := ?_ }
  · intro k hk
    simp only [Dist.pmf]
    rw [if_pos (Or.inr hk)]
  · rw [← hlaw.cdf_eq hi]
    simp only [Dist.cdf]
    rw [if_neg (by omega), if_pos (le_refl _)]

/-! ### Geometric -/

theorem geometric_law (p : ℚ) (hv : (Dist.geometric p).valid = true) :
    IsLaw (Dist.geometric p).pmf (Dist.geometric p).cdf 1 := by
  simp only [Dist.valid, Bool.not_eq_true', Bool.or_eq_false_iff, decide_eq_false_iff_not, not_le,
    not_lt] at hv
  obtain ⟨hp0, hp1⟩ := hv
  have hq : 0 ≤ 1 - p := by linarith
  apply isLaw_of_step
  · intro k hk
    simp only [Dist.pmf]
    rw [if_pos hk]
  · intro k
    simp only [Dist.pmf]
    split_ifs
    · exact le_refl _
    · positivity
  · intro x hx
    simp only [Dist.cdf]
    rw [if_pos hx]
  · intro x hx
    simp only [Dist.cdf, Dist.pmf]
    have hx0 : 0 ≤ x := by omega
    obtain ⟨n, rfl⟩ := Int.eq_ofNat_of_zero_le hx0
    simp only [if_neg (show ¬ ((n : ℤ) + 1 < 1) by omega)]
    have e1 : ((n : ℤ) + 1).toNat = n + 1 := by omega
    have e2 : ((n : ℤ) + 1 - 1).toNat = n := by omega
    rw [e1, e2]
    rcases Nat.eq_zero_or_pos n with rfl | hn
    · simp
    · rw [if_neg (show ¬ ((n : ℤ) < 1) by omega), Int.toNat_natCast]
      ring

theorem geometric_cdf_le_one (p : ℚ) (hv : (Dist.geometric p).valid = true) (x : ℤ) :
    (Dist.geometric p).cdf x ≤ 1 := by
  simp only [Dist.valid, Bool.not_eq_true', Bool.or_eq_false_iff, decide_eq_false_iff_not, not_le,
    not_lt] at hv
  obtain ⟨hp0, hp1⟩ := hv
  simp only [Dist.cdf]
  split_ifs
  · exact zero_le_one
  · have : 0 ≤ (1 - p) ^ x.toNat := pow_nonneg (by linarith) _
    linarith

/-! ### Binomial -/

theorem binomial_pmf_nat (n : ℕ) (p : ℚ) (k : ℕ) (hk : k ≤ n) :
    (Dist.binomial (n : ℤ) p).pmf (k : ℤ) = (n.choose k : ℚ) * p ^ k * (1 - p) ^ (n - k) := by
  simp only [Dist.pmf]
  rw [if_neg (by omega), choose_eq n k hk]
  have e : ((n : ℤ) - (k : ℤ)).toNat = n - k := by omega
  rw [Int.toNat_natCast, e]
  norm_cast

theorem binomial_finite (n : ℤ) (p : ℚ) (hv : (Dist.binomial n p).valid = true) :
    IsFiniteLaw (Dist.binomial n p).pmf (Dist.binomial n p).cdf 0 n := by
  simp only [Dist.valid, Bool.not_eq_true', Bool.or_eq_false_iff, decide_eq_false_iff_not, not_le,
    not_lt, Bool.and_eq_true] at hv
  obtain ⟨hn, hp0, hp1⟩ := hv
  obtain ⟨m, rfl⟩ := Int.eq_ofNat_of_zero_le hn.le
  have hlaw : IsLaw (Dist.binomial (m : ℤ) p).pmf (Dist.binomial (m : ℤ) p).cdf 0 := by
    apply isLaw_of_step
    · intro k hk
      simp only [Dist.pmf]
      rw [if_pos (Or.inl hk)]
    · intro k
      by_cases hk : k < 0 ∨ k > (m : ℤ)
      · simp only [Dist.pmf]
        rw [if_pos hk]
      · have hk0 : 0 ≤ k := by omega
        obtain ⟨j, rfl⟩ := Int.eq_ofNat_of_zero_le hk0
        rw [binomial_pmf_nat m p j (by omega)]
        have : 0 ≤ 1 - p := by linarith
        positivity
    · intro x hx
      simp only [Dist.cdf]
      have : (x + 1).toNat = 0 := by omega
      rw [this, sumRange]
    · intro x hx
      simp only [Dist.cdf]
      have e : (x + 1 + 1).toNat = (x + 1).toNat + 1 := by omega
      rw [e, sumRange]
      have e2 : (((x + 1).toNat : ℕ) : ℤ) = x + 1 := by omega
      rw [e2]
  refine { toIsLaw := hlaw, above := ?_, total := ?_ }
  · intro k hk
    simp only [Dist.pmf]
    rw [if_pos (Or.inr hk)]
  · rw [sum_Icc_zero_eq_range]
    have : ∀ j ∈ range (m + 1), (Dist.binomial (m : ℤ) p).pmf (j : ℤ)
        = p ^ j * (1 - p) ^ (m - j) * (m.choose j : ℚ) := by
      intro j hj
      rw [mem_range] at hj
      rw [binomial_pmf_nat m p j (by omega)]
      ring
    rw [sum_congr rfl this, ← add_pow]
    simp

/-! ### Poisson (with the abstract constant `E` for `exp(-mu)`) -/

theorem poisson_law (mu : ℤ) (E : ℚ) (hv : (Dist.poisson mu E).valid = true) (hE : 0 ≤ E) :
    IsLaw (Dist.poisson mu E).pmf (Dist.poisson mu E).cdf 0 := by
  simp only [Dist.valid, Bool.not_eq_true', decide_eq_false_iff_not, not_le] at hv
  have hmu : (0 : ℚ) < (mu : ℚ) := by exact_mod_cast hv
  apply isLaw_of_step
  · intro k hk
    simp only [Dist.pmf]
    rw [if_pos hk]
  · intro k
    simp only [Dist.pmf]
    split_ifs with hk
    · exact le_refl _
    · obtain ⟨j, rfl⟩ := Int.eq_ofNat_of_zero_le (not_lt.mp hk)
      have := factorial_pos' j
      positivity
  · intro x hx
    simp only [Dist.cdf]
    have : (x + 1).toNat = 0 := by omega
    rw [this, sumRange]
  · intro x hx
    simp only [Dist.cdf]
    have e : (x + 1 + 1).toNat = (x + 1).toNat + 1 := by omega
    rw [e, sumRange]
    have e2 : (((x + 1).toNat : ℕ) : ℤ) = x + 1 := by omega
    rw [e2]


/-! ### means: `mean()` is the expectation `Σ k · pmf k` -/

theorem bernoulli_mean (p : ℚ) :
    ∑ k ∈ Icc (0 : ℤ) 1, (k : ℚ) * (Dist.bernoulli p).pmf k = (Dist.bernoulli p).mean := by
  have : Icc (0 : ℤ) 1 = {0, 1} := by
    ext k
    simp only [mem_Icc, mem_insert, mem_singleton]
    omega
  rw [this, sum_pair (by norm_num)]
  simp [Dist.pmf, Dist.mean]

theorem sum_Icc_id (lo hi : ℤ) (h : lo ≤ hi) :
    ∑ k ∈ Icc lo hi, (k : ℚ) = ((hi - lo + 1 : ℤ) : ℚ) * ((lo : ℚ) + hi) / 2 := by
  induction hi, h using Int.leInduction with
  | base => simp
  | succ y hy ih =>
    rw [sum_Icc_succ _ _ _ (by omega), ih]
    push_cast
    ring

theorem uniformInt_mean (lo hi : ℤ) (hv : (Dist.uniformInt lo hi).valid = true) :
    ∑ k ∈ Icc lo hi, (k : ℚ) * (Dist.uniformInt lo hi).pmf k = (Dist.uniformInt lo hi).mean := by
  simp only [Dist.valid, Bool.not_eq_true', decide_eq_false_iff_not, not_lt] at hv
  have hN : (0 : ℚ) < ((hi - lo + 1 : ℤ) : ℚ) := by exact_mod_cast (by omega : 0 < hi - lo + 1)
  have : ∀ k ∈ Icc lo hi, (k : ℚ) * (Dist.uniformInt lo hi).pmf k
      = (k : ℚ) * (1 / ((hi - lo + 1 : ℤ) : ℚ)) := by
    intro k hk
    rw [mem_Icc] at hk
    simp only [Dist.pmf]
    rw [if_neg (by omega)]
  rw [sum_congr rfl this, ← sum_mul, sum_Icc_id lo hi hv]
  simp only [Dist.mean]
  field_simp
  push_cast
  ring

theorem binomial_mean (n : ℕ) (p : ℚ) :
    ∑ k ∈ Icc (0 : ℤ) n, (k : ℚ) * (Dist.binomial (n : ℤ) p).pmf k = (Dist.binomial (n : ℤ) p).mean := by
  rw [sum_Icc_zero_eq_range (fun k => (k : ℚ) * (Dist.binomial (n : ℤ) p).pmf k)]
  simp only [Dist.mean]
  cases n with
  | zero => simp
  | succ m =>
    rw [sum_range_succ']
    have : ∀ j ∈ range (m + 1),
        (((j + 1 : ℕ) : ℤ) : ℚ) * (Dist.binomial ((m + 1 : ℕ) : ℤ) p).pmf ((j + 1 : ℕ) : ℤ)
          = ((m + 1 : ℕ) : ℚ) * p * (p ^ j * (1 - p) ^ (m - j) * (m.choose j : ℚ)) := by
      intro j hj
      rw [mem_range] at hj
      rw [binomial_pmf_nat (m + 1) p (j + 1) (by omega)]
      have hc : (((m + 1).choose (j + 1) : ℕ) : ℚ) * ((j + 1 : ℕ) : ℚ)
          = ((m + 1 : ℕ) : ℚ) * (m.choose j : ℚ) := by
        exact_mod_cast (Nat.add_one_mul_choose_eq m j).symm
      have e : m + 1 - (j + 1) = m - j := by omega
      rw [e, pow_succ]
      calc ((((j + 1 : ℕ) : ℤ) : ℚ)) * ((((m + 1).choose (j + 1) : ℕ) : ℚ) * (p ^ j * p) * (1 - p) ^ (m - j))
          = ((((m + 1).choose (j + 1) : ℕ) : ℚ) * ((j + 1 : ℕ) : ℚ)) * (p ^ j * p * (1 - p) ^ (m - j)) := by
            push_cast; ring
        _ = _ := by rw [hc]; ring
    rw [sum_congr rfl this, ← mul_sum, ← add_pow]
    simp

/-- Geometric: the expectation over the outcomes `1..x` misses the mean `1/p` by exactly `(1-p)^x (x + 1/p)` -/
theorem geometric_mean_partial (p : ℚ) (hp : p ≠ 0) (x : ℕ) :
    ∑ k ∈ Icc (1 : ℤ) x, (k : ℚ) * (Dist.geometric p).pmf k
      = (Dist.geometric p).mean - (1 - p) ^ x * ((x : ℚ) + 1 / p) := by
  simp only [Dist.mean]
  induction x with
  | zero => simp
  | succ x ih =>
    push_cast
    rw [sum_Icc_succ _ _ _ (by omega), ih]
    simp only [Dist.pmf]
    rw [if_neg (by omega)]
    have e : ((x : ℤ) + 1 - 1).toNat = x := by omega
    rw [e]
    push_cast
    field_simp
    ring

/-! ### parameter validation = the textbook parameter domains -/

theorem valid_iff (d : Dist) : d.valid = true ↔
    (match d with
     | .binomial n p => 0 < n ∧ 0 ≤ p ∧ p ≤ 1
     | .poisson mu _ => 0 < mu
     | .geometric p => 0 < p ∧ p ≤ 1
     | .bernoulli p => 0 ≤ p ∧ p ≤ 1
     | .uniformInt lo hi => lo ≤ hi) := by
  cases d <;> simp [Dist.valid]

theorem cvalid_iff (d : CDist) : d.valid = true ↔
    (match d with
     | .exponential lam => 0 < lam
     | .uniform lo hi => lo ≤ hi
     | .gaussian _ sd => 0 < sd) := by
  cases d <;> simp [CDist.valid]

/-! ### the continuous distribution functions -/

theorem uniform_cdf_props (lo hi : ℚ) (hv : (CDist.uniform lo hi).valid = true) (F : Fns) :
    Monotone ((CDist.uniform lo hi).cdf F)
    ∧ (∀ x, 0 ≤ (CDist.uniform lo hi).cdf F x ∧ (CDist.uniform lo hi).cdf F x ≤ 1) := by
  simp only [CDist.valid, Bool.not_eq_true', decide_eq_false_iff_not, not_lt] at hv
  have range : ∀ x, 0 ≤ (CDist.uniform lo hi).cdf F x ∧ (CDist.uniform lo hi).cdf F x ≤ 1 := by
    intro x
    simp only [CDist.cdf]
    split_ifs with h1 h2
    · exact ⟨le_refl _, zero_le_one⟩
    · exact ⟨zero_le_one, le_refl _⟩
    · have hd : 0 < hi - lo := by linarith
      constructor
      · exact div_nonneg (by linarith) hd.le
      · rw [div_le_one hd]
        linarith
  refine ⟨?_, range⟩
  intro x y hxy
  simp only [CDist.cdf]
  split_ifs <;> first
    | exact le_refl _
    | exact zero_le_one
    | (exfalso; linarith)
    | (have hd : 0 < hi - lo := by linarith
       first
         | exact div_nonneg (by linarith) hd.le
         | (rw [div_le_one hd]; linarith)
         | exact div_le_div_of_nonneg_right (by linarith) hd.le)

theorem exponential_cdf_props (lam : ℚ) (hv : (CDist.exponential lam).valid = true) (F : Fns)
    (hmono : Monotone F.exp) (hpos : ∀ y, 0 ≤ F.exp y) (h0 : F.exp 0 = 1) :
    Monotone ((CDist.exponential lam).cdf F)
    ∧ (∀ x, 0 ≤ (CDist.exponential lam).cdf F x ∧ (CDist.exponential lam).cdf F x ≤ 1) := by
  simp only [CDist.valid, Bool.not_eq_true', decide_eq_false_iff_not, not_le] at hv
  have hle : ∀ x, 0 ≤ x → F.exp (-lam * x) ≤ 1 := by
    intro x hx
    rw [← h0]
    apply hmono
    have := mul_nonneg hv.le hx
    linarith
  have range : ∀ x, 0 ≤ (CDist.exponential lam).cdf F x ∧ (CDist.exponential lam).cdf F x ≤ 1 := by
    intro x
    simp only [CDist.cdf]
    split_ifs with h1
    · exact ⟨le_refl _, zero_le_one⟩
    · have := hle x (not_lt.mp h1)
      have := hpos (-lam * x)
      constructor <;> linarith
  refine ⟨?_, range⟩
  intro x y hxy
  simp only [CDist.cdf]
  split_ifs with h1 h2 h2
  · exact le_refl _
  · have := hle y (not_lt.mp h2)
    linarith
  · linarith
  · have : F.exp (-lam * y) ≤ F.exp (-lam * x) := by
      apply hmono
      have := mul_le_mul_of_nonneg_left hxy hv.le
      linarith
    linarith

theorem gaussian_cdf_props (mu sd : ℚ) (hv : (CDist.gaussian mu sd).valid = true) (F : Fns)
    (hmono : Monotone F.erf) (hlo : ∀ y, -1 ≤ F.erf y) (hhi : ∀ y, F.erf y ≤ 1) (hs : 0 < F.sqrt2) :
    Monotone ((CDist.gaussian mu sd).cdf F)
    ∧ (∀ x, 0 ≤ (CDist.gaussian mu sd).cdf F x ∧ (CDist.gaussian mu sd).cdf F x ≤ 1) := by
  simp only [CDist.valid, Bool.not_eq_true', decide_eq_false_iff_not, not_le] at hv
  constructor
  · intro x y hxy
    simp only [CDist.cdf]
    have hd : 0 < sd * F.sqrt2 := mul_pos hv hs
    have : F.erf ((x - mu) / (sd * F.sqrt2)) ≤ F.erf ((y - mu) / (sd * F.sqrt2)) := by
      apply hmono
      exact div_le_div_of_nonneg_right (by linarith) hd.le
    linarith
  · intro x
    simp only [CDist.cdf]
    have := hlo ((x - mu) / (sd * F.sqrt2))
    have := hhi ((x - mu) / (sd * F.sqrt2))
    constructor <;> linarith


end KaVerif.Prob
