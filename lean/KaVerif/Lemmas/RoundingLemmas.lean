/-
  Rational → double rounding (`Num.posRatToBits`) and double → rational decoding (`Num.floatToRat`)
  proved against a specification of IEEE-754 binary64 round-to-nearest, ties-to-even.

  SPECIFICATION (what a reader has to accept):
    * `bitsToRat b`     the value of the finite non-negative double whose 63 low bits are `b`
                        (the function `floatToRat` computes, sign aside: `floatToRat_eq`);
    * `isFiniteBits b`  `b < 2047 * 2^52` (biased exponent below 2047);
  everything else in this file is proof machinery: `bitsToNat` (the same value counted in units of
  2^-1074), the stages of `posRatToBits` (`stage1/2/3`, `roundStage`, `pack`, proved equal to the
  original by `rfl`), `rne` (round-half-even of a quotient of naturals).
  The theorems a user relies on are in `Props/Rounding.lean`.
-/
import KaVerif.Model.Num
import Mathlib.Tactic.Ring
import Mathlib.Tactic.Linarith
import Mathlib.Tactic.LinearCombination
import Mathlib.Tactic.Positivity
import Mathlib.Tactic.SplitIfs
import Mathlib.Tactic.FieldSimp
import Mathlib.Tactic.NormNum
import Mathlib.Algebra.Order.Field.Basic

set_option linter.unusedSimpArgs false
set_option linter.unusedVariables false

namespace KaVerif.Rounding
open KaVerif.Num

/-! ## Specification -/

def bitsToRat (b : Nat) : Rat :=
  let e : Nat := b / 2^52 % 2^11
  let m : Nat := b % 2^52
  if e = 0 then ((m : Int) : Rat) / ((2:Rat)^(1074:Nat))
  else
    let mant : Int := ((2^52 + m : Nat) : Int)
    if e ≥ 1075 then ((mant * (2:Int)^(e - 1075) : Int) : Rat)
    else ((mant : Int) : Rat) / ((2:Rat)^(1075 - e))

def isFiniteBits (b : Nat) : Prop := b < 2047 * 2^52

def bitsToNat (b : Nat) : Nat :=
  if b / 2^52 % 2^11 = 0 then b % 2^52 else (2^52 + b % 2^52) * 2^(b / 2^52 % 2^11 - 1)

theorem floatToRat_eq (x : Float) :
    floatToRat x = (if x.toBits.toNat / 2^63 % 2 = 1 then -1 else 1) * bitsToRat x.toBits.toNat := by
  unfold floatToRat bitsToRat
  generalize x.toBits.toNat = b
  by_cases hs : b / 2^63 % 2 = 1 <;> simp only [hs, if_true, if_false] <;> split_ifs <;> push_cast <;> ring

theorem bitsToRat_eq (b : Nat) : bitsToRat b = (bitsToNat b : Rat) / (2:Rat)^(1074:Nat) := by
  unfold bitsToRat bitsToNat
  generalize b / 2^52 % 2^11 = e
  generalize b % 2^52 = m
  by_cases he : e = 0
  · simp only [he, if_true]; push_cast; rfl
  · simp only [he, if_false]
    by_cases h2 : e ≥ 1075
    · simp only [h2, if_true]
      have : e - 1 = (e - 1075) + 1074 := by omega
      rw [this, pow_add]
      push_cast
      field_simp
    · simp only [h2, if_false]
      have : (1074:Nat) = (1075 - e) + (e - 1) := by omega
      rw [this, pow_add]
      push_cast
      field_simp

/-! ## Order of patterns = order of values -/

/-- the shape of a double's value in units of 2^-1074 -/
def GridVal (V : Nat) : Prop :=
  ∃ M E : Nat, V = M * 2^E ∧ ((E = 0 ∧ M < 2^52) ∨ (2^52 ≤ M ∧ M < 2^53))

theorem bitsToNat_grid (b : Nat) : GridVal (bitsToNat b) := by
  unfold bitsToNat
  by_cases he : b / 2^52 % 2^11 = 0
  · rw [if_pos he]
    exact ⟨b % 2^52, 0, by simp, Or.inl ⟨rfl, Nat.mod_lt _ (by positivity)⟩⟩
  · rw [if_neg he]
    refine ⟨2^52 + b % 2^52, _, rfl, Or.inr ⟨by omega, ?_⟩⟩
    have : b % 2^52 < 2^52 := Nat.mod_lt _ (by positivity)
    omega

theorem two_pow_pos' (k : Nat) : 0 < 2^k := by positivity

theorem bitsToNat_strictMono {b c : Nat} (hbc : b < c) (hc : c < 2^63) : bitsToNat b < bitsToNat c := by
  unfold bitsToNat
  have hb : b < 2^63 := lt_trans hbc hc
  have e1 : b / 2^52 % 2^11 = b / 2^52 := by omega
  have e2 : c / 2^52 % 2^11 = c / 2^52 := by omega
  rw [e1, e2]
  have hmb : b % 2^52 < 2^52 := Nat.mod_lt _ (by positivity)
  have hmc : c % 2^52 < 2^52 := Nat.mod_lt _ (by positivity)
  have hdb := Nat.div_add_mod b (2^52)
  have hdc := Nat.div_add_mod c (2^52)
  generalize b / 2^52 = eb at *
  generalize c / 2^52 = ec at *
  generalize b % 2^52 = mb at *
  generalize c % 2^52 = mc at *
  have hcase : eb < ec ∨ (eb = ec ∧ mb < mc) := by omega
  rcases hcase with h | ⟨h, h'⟩
  · have hec : ec ≠ 0 := by omega
    rw [if_neg hec]
    have hge : 2^52 * 2^(ec - 1) ≤ (2^52 + mc) * 2^(ec - 1) := Nat.mul_le_mul_right _ (by omega)
    by_cases heb : eb = 0
    · rw [if_pos heb]
      have := two_pow_pos' (ec - 1)
      calc mb < 2^52 * 1 := by omega
        _ ≤ 2^52 * 2^(ec - 1) := Nat.mul_le_mul_left _ this
        _ ≤ _ := hge
    · rw [if_neg heb]
      calc (2^52 + mb) * 2^(eb - 1) < (2^52 * 2) * 2^(eb - 1) :=
            Nat.mul_lt_mul_of_pos_right (by omega) (two_pow_pos' _)
        _ = 2^52 * 2^(eb - 1 + 1) := by rw [pow_succ]; ring
        _ ≤ 2^52 * 2^(ec - 1) := Nat.mul_le_mul_left _ (Nat.pow_le_pow_right (by norm_num) (by omega))
        _ ≤ _ := hge
  · subst h
    by_cases heb : eb = 0
    · rw [if_pos heb, if_pos heb]; exact h'
    · rw [if_neg heb, if_neg heb]
      exact Nat.mul_lt_mul_of_pos_right (by omega) (two_pow_pos' _)

/-- round-half-even of num/T -/
def rne (num T : Nat) : Nat :=
  if 2 * (num % T) > T then num / T + 1
  else if 2 * (num % T) < T then num / T
  else if (num / T) % 2 = 1 then num / T + 1 else num / T

theorem rne_cases (num T : Nat) :
    (rne num T = num / T ∧ 2 * (num % T) ≤ T ∧ (2 * (num % T) = T → (num / T) % 2 = 0)) ∨
    (rne num T = num / T + 1 ∧ T ≤ 2 * (num % T) ∧ (2 * (num % T) = T → (num / T) % 2 = 1)) := by
  unfold rne
  split_ifs with h1 h2 h3
  · right; omega
  · left; omega
  · right; omega
  · left; omega

theorem grid_gap {V m0 k : Nat} (hV : GridVal V) (hk : k = 0 ∨ 2^52 ≤ m0) (hm : m0 < 2^53) :
    V ≤ m0 * 2^k ∨ (m0 + 1) * 2^k ≤ V := by
  obtain ⟨M, E, rfl, hME⟩ := hV
  rcases hk with rfl | hk
  · simp only [pow_zero, mul_one]; omega
  · rcases hME with ⟨rfl, hM⟩ | ⟨hM1, hM2⟩
    · left
      simp only [pow_zero, mul_one]
      calc M ≤ m0 * 1 := by omega
        _ ≤ m0 * 2^k := Nat.mul_le_mul_left _ (two_pow_pos' k)
    · by_cases hkE : k ≤ E
      · obtain ⟨j, rfl⟩ := Nat.exists_eq_add_of_le hkE
        have e : M * 2^(k + j) = (M * 2^j) * 2^k := by rw [pow_add]; ring
        rw [e]
        rcases Nat.lt_or_ge m0 (M * 2^j) with h | h
        · right; exact Nat.mul_le_mul_right _ h
        · left; exact Nat.mul_le_mul_right _ h
      · left
        calc M * 2^E ≤ (2^52 * 2) * 2^E := Nat.mul_le_mul_right _ (by omega)
          _ = 2^52 * 2^(E+1) := by rw [pow_succ]; ring
          _ ≤ 2^52 * 2^k := Nat.mul_le_mul_left _ (Nat.pow_le_pow_right (by norm_num) (by omega))
          _ ≤ m0 * 2^k := Nat.mul_le_mul_right _ hk


/-! ## The stages of `posRatToBits` -/

/-- stage `pack` -/
def pack (m : Nat) (ex : Int) : Option Nat :=
  if m < 2 ^ 52 then some m
  else
    let biased : Int := ex + 1075
    if biased ≥ 2047 then none else some (biased.toNat * 2 ^ 52 + (m - 2 ^ 52))

def roundStage (q r drop : Nat) : Nat :=
  let m0 := q / 2 ^ drop
  let rem := q % 2 ^ drop
  let half := 2 ^ (drop - 1)
  let sticky := r != 0
  let up := if drop = 0 then false
            else if rem > half then true
            else if rem < half then false
            else if sticky then true
            else m0 % 2 = 1
  if up then m0 + 1 else m0

def stage3 (q r drop : Nat) (ex : Int) : Option Nat :=
  let m := roundStage q r drop
  let (m, ex) := if m = 2 ^ 53 then (2 ^ 52, ex + 1) else (m, ex)
  pack m ex

def stage2 (num den : Nat) (shift : Int) : Option Nat :=
  let q := num / den
  let r := num % den
  let bits := q.log2 + 1
  let drop := bits - 53
  let ex : Int := (drop : Int) - shift
  let (drop, ex) := if ex < -1074 then (drop + (-1074 - ex).toNat, (-1074 : Int)) else (drop, ex)
  stage3 q r drop ex

def stage1 (n d : Nat) : Option Nat :=
  if n = 0 then some 0 else
  let e0 : Int := (n.log2 : Int) - (d.log2 : Int)
  let shift : Int := 54 - e0
  let (num, den) := if shift ≥ 0 then (n * 2 ^ shift.toNat, d) else (n, d * 2 ^ (-shift).toNat)
  stage2 num den shift

theorem posRatToBits_eq_stage1 (n d : Nat) : posRatToBits n d = stage1 n d := rfl

theorem match_ite {α β γ : Type} (c : Prop) [Decidable c] (a a' : α) (b b' : β) (f : α → β → γ) :
    (match (if c then (a, b) else (a', b')) with | (x, y) => f x y) = if c then f a b else f a' b' := by
  split_ifs <;> rfl

theorem stage3_eq (q r drop : Nat) (ex : Int) : stage3 q r drop ex =
    if roundStage q r drop = 2 ^ 53 then pack (2 ^ 52) (ex + 1) else pack (roundStage q r drop) ex := by
  unfold stage3
  exact match_ite _ _ _ _ _ (fun m ex => pack m ex)

theorem stage2_eq (num den : Nat) (shift : Int) : stage2 num den shift =
    if (((num / den).log2 + 1 - 53 : Nat) : Int) - shift < -1074 then
      stage3 (num / den) (num % den) ((num / den).log2 + 1 - 53 + (-1074 - ((((num / den).log2 + 1 - 53 : Nat) : Int) - shift)).toNat) (-1074)
    else stage3 (num / den) (num % den) ((num / den).log2 + 1 - 53) ((((num / den).log2 + 1 - 53 : Nat) : Int) - shift) := by
  unfold stage2
  exact match_ite _ _ _ _ _ (fun drop ex => stage3 (num / den) (num % den) drop ex)

theorem stage1_eq (n d : Nat) (hn : n ≠ 0) : stage1 n d =
    if 54 - ((n.log2 : Int) - (d.log2 : Int)) ≥ 0 then
      stage2 (n * 2 ^ (54 - ((n.log2 : Int) - (d.log2 : Int))).toNat) d (54 - ((n.log2 : Int) - (d.log2 : Int)))
    else stage2 n (d * 2 ^ (-(54 - ((n.log2 : Int) - (d.log2 : Int)))).toNat) (54 - ((n.log2 : Int) - (d.log2 : Int))) := by
  unfold stage1
  rw [if_neg hn]
  exact match_ite _ _ _ _ _ (fun num den => stage2 num den (54 - ((n.log2 : Int) - (d.log2 : Int))))


def renorm (m : Nat) (ex : Int) : Option Nat :=
  if m = 2 ^ 53 then pack (2 ^ 52) (ex + 1) else pack m ex

theorem pack_normal {m k : Nat} (h1 : 2^52 ≤ m) (h2 : m < 2^53) :
    (pack m ((k:Int) - 1074) = none ∧ 2^52 * 2^2046 ≤ m * 2^k) ∨
    (∃ b, pack m ((k:Int) - 1074) = some b ∧ b < 2047 * 2^52 ∧ bitsToNat b = m * 2^k ∧ b % 2 = m % 2
        ∧ m * 2^k < 2^52 * 2^2046) := by
  unfold pack
  rw [if_neg (by omega)]
  simp only []
  by_cases hk : 2046 ≤ k
  · left
    rw [if_pos (by omega)]
    exact ⟨rfl, Nat.mul_le_mul h1 (Nat.pow_le_pow_right (by norm_num) hk)⟩
  · right
    rw [if_neg (by omega)]
    have ht : ((k:Int) - 1074 + 1075).toNat = k + 1 := by omega
    rw [ht]
    refine ⟨_, rfl, by omega, ?_, by omega, ?_⟩
    · unfold bitsToNat
      have e1 : ((k + 1) * 2^52 + (m - 2^52)) / 2^52 % 2^11 = k + 1 := by omega
      have e2 : ((k + 1) * 2^52 + (m - 2^52)) % 2^52 = m - 2^52 := by omega
      rw [e1, e2, if_neg (by omega)]
      have : 2^52 + (m - 2^52) = m := by omega
      rw [this, Nat.add_sub_cancel]
    · have a1 : m * 2^k < (2^52 * 2) * 2^k := Nat.mul_lt_mul_of_pos_right (by omega) (two_pow_pos' _)
      have a2 : (2^52 * 2) * 2^k = 2^52 * 2^(k+1) := by rw [pow_succ]; ring
      have a3 : 2^(k+1) ≤ 2^2046 := Nat.pow_le_pow_right (by norm_num) (by omega)
      have a4 : 2^52 * 2^(k+1) ≤ 2^52 * 2^2046 := Nat.mul_le_mul_left _ a3
      omega

theorem renorm_spec {m k : Nat} (h1 : m ≤ 2^53) (h2 : k = 0 ∨ 2^52 ≤ m) :
    (renorm m ((k:Int) - 1074) = none ∧ 2^52 * 2^2046 ≤ m * 2^k) ∨
    (∃ b, renorm m ((k:Int) - 1074) = some b ∧ b < 2047 * 2^52 ∧ bitsToNat b = m * 2^k ∧ b % 2 = m % 2
        ∧ m * 2^k < 2^52 * 2^2046) := by
  unfold renorm
  by_cases hm : m = 2^53
  · rw [if_pos hm]
    have e : (k:Int) - 1074 + 1 = ((k+1 : Nat) : Int) - 1074 := by push_cast; ring
    have e2 : m * 2^k = 2^52 * 2^(k+1) := by rw [hm, pow_succ]; ring
    rw [e, e2]
    have := @pack_normal (2^52) (k+1) (le_refl _) (by norm_num)
    have hpar : 2^52 % 2 = m % 2 := by rw [hm]; norm_num
    rw [← hpar]
    exact this
  · rw [if_neg hm]
    by_cases hlt : m < 2^52
    · right
      have hk : k = 0 := by omega
      subst hk
      refine ⟨m, ?_, by omega, ?_, rfl, ?_⟩
      · unfold pack; rw [if_pos hlt]
      · unfold bitsToNat
        have e1 : m / 2^52 % 2^11 = 0 := by omega
        have e2 : m % 2^52 = m := by omega
        rw [e1, e2]; simp
      · have a1 : 2^52 * 1 ≤ 2^52 * 2^2046 := Nat.mul_le_mul_left _ (two_pow_pos' _)
        omega
    · exact pack_normal (by omega) (by omega)


theorem roundStage_eq_rne (num den dp : Nat) (hden : 0 < den) (hdp : 1 ≤ dp) :
    roundStage (num / den) (num % den) dp = rne num (den * 2^dp) := by
  have hT : num % (den * 2^dp) = num % den + den * (num / den % 2^dp) := Nat.mod_mul
  have hD : num / (den * 2^dp) = num / den / 2^dp := (Nat.div_div_eq_div_mul _ _ _).symm
  have hr : num % den < den := Nat.mod_lt _ hden
  have hp : 2^dp = 2 * 2^(dp - 1) := by
    obtain ⟨j, rfl⟩ := Nat.exists_eq_add_of_le hdp
    rw [Nat.add_sub_cancel_left, pow_add]; ring
  have hTT : den * 2^dp = 2 * (den * 2^(dp-1)) := by rw [hp]; ring
  unfold roundStage rne
  rw [hT, hD, hTT]
  clear hT hD hTT hp
  generalize num / den = q
  generalize num % den = r at *
  simp only []
  have hdp0 : dp ≠ 0 := by omega
  rw [if_neg hdp0]
  generalize q / 2^dp = m0
  generalize q % 2^dp = rem
  generalize 2^(dp-1) = half
  rcases Nat.lt_trichotomy rem half with h | h | h
  · have : den * (rem + 1) ≤ den * half := Nat.mul_le_mul_left _ h
    rw [Nat.mul_add] at this
    have h' : ¬ rem > half := by omega
    have c1 : ¬ (2 * (r + den * rem) > 2 * (den * half)) := by omega
    have c2 : 2 * (r + den * rem) < 2 * (den * half) := by omega
    simp only [h', h, c1, c2, if_true, if_false, Bool.false_eq_true]
  · subst h
    have h' : ¬ rem > rem := by omega
    have h'' : ¬ rem < rem := by omega
    by_cases hr0 : r = 0
    · subst hr0
      have c1 : ¬ (2 * (0 + den * rem) > 2 * (den * rem)) := by omega
      have c2 : ¬ (2 * (0 + den * rem) < 2 * (den * rem)) := by omega
      simp only [h', h'', c1, c2, if_false, bne_self_eq_false, Bool.false_eq_true, decide_eq_true_eq]
    · have hs : (r != 0) = true := by simpa using hr0
      have c1 : (2 * (r + den * rem) > 2 * (den * rem)) := by omega
      simp only [h', h'', c1, hs, if_true, if_false]
  · have : den * (half + 1) ≤ den * rem := Nat.mul_le_mul_left _ h
    rw [Nat.mul_add] at this
    have c1 : (2 * (r + den * rem) > 2 * (den * half)) := by omega
    simp only [h, c1, if_true]

theorem stage3_eq_renorm (q r drop : Nat) (ex : Int) :
    stage3 q r drop ex = renorm (roundStage q r drop) ex := by
  rw [stage3_eq]; rfl

/-- (a) the window of the quotient: the bit-length computation finds `drop ∈ {1, 2}` with
    `2^(52+drop) ≤ q < 2^(53+drop)` -/
theorem log2_window {q : Nat} (h1 : 2^53 ≤ q) (h2 : q < 2^55) :
    (q.log2 + 1 - 53 = 1 ∨ q.log2 + 1 - 53 = 2) ∧ 2^(52 + (q.log2 + 1 - 53)) ≤ q
      ∧ q < 2^(53 + (q.log2 + 1 - 53)) := by
  have hq0 : q ≠ 0 := by omega
  have l1 : q.log2 < 55 := (Nat.log2_lt hq0).2 h2
  have l2 : ¬ q.log2 < 53 := fun h => absurd ((Nat.log2_lt hq0).1 h) (by omega)
  have l3 := Nat.log2_self_le hq0
  have l4 : q < 2^(q.log2+1) := Nat.lt_log2_self
  have e1 : 52 + (q.log2 + 1 - 53) = q.log2 := by omega
  have e2 : 53 + (q.log2 + 1 - 53) = q.log2 + 1 := by omega
  rw [e1, e2]; exact ⟨by omega, l3, l4⟩

/-- (a) after scaling, `2^53 ≤ num/den < 2^55` -/
theorem scale_bounds {n d : Nat} (hn : 0 < n) (hd : 0 < d) (s : Int)
    (hs : s = 54 - ((n.log2 : Int) - (d.log2 : Int))) :
    (0 ≤ s → 2^53 * d ≤ n * 2^s.toNat ∧ n * 2^s.toNat < 2^55 * d) ∧
    (s < 0 → 2^53 * (d * 2^(-s).toNat) ≤ n ∧ n < 2^55 * (d * 2^(-s).toNat)) := by
  have ha1 := Nat.log2_self_le (Nat.pos_iff_ne_zero.1 hn)
  have ha2 : n < 2^(n.log2+1) := Nat.lt_log2_self
  have hb1 := Nat.log2_self_le (Nat.pos_iff_ne_zero.1 hd)
  have hb2 : d < 2^(d.log2+1) := Nat.lt_log2_self
  rw [pow_succ] at ha2 hb2
  constructor
  · intro h0
    have ht : n.log2 + s.toNat = 54 + d.log2 := by omega
    have hAQ : 2^n.log2 * 2^s.toNat = 2^54 * 2^d.log2 := by rw [← pow_add, ← pow_add, ht]
    have hQ := two_pow_pos' s.toNat
    have c1 : 2^n.log2 * 2^s.toNat ≤ n * 2^s.toNat := Nat.mul_le_mul_right _ ha1
    have c2 : n * 2^s.toNat < (2^n.log2 * 2) * 2^s.toNat := Nat.mul_lt_mul_of_pos_right ha2 hQ
    have c3 : (2^n.log2 * 2) * 2^s.toNat = 2 * (2^n.log2 * 2^s.toNat) := by ring
    generalize 2^n.log2 * 2^s.toNat = AQ at *
    generalize n * 2^s.toNat = nQ at *
    generalize 2^d.log2 = P at *
    omega
  · intro h0
    have ht : n.log2 = 54 + d.log2 + (-s).toNat := by omega
    have hA : 2^n.log2 = 2^54 * (2^d.log2 * 2^(-s).toNat) := by rw [ht, pow_add, pow_add]; ring
    have hQ := two_pow_pos' (-s).toNat
    have c1 : 2^d.log2 * 2^(-s).toNat ≤ d * 2^(-s).toNat := Nat.mul_le_mul_right _ hb1
    have c2 : d * 2^(-s).toNat < (2^d.log2 * 2) * 2^(-s).toNat := Nat.mul_lt_mul_of_pos_right hb2 hQ
    have c3 : (2^d.log2 * 2) * 2^(-s).toNat = 2 * (2^d.log2 * 2^(-s).toNat) := by ring
    generalize 2^d.log2 * 2^(-s).toNat = PQ at *
    generalize d * 2^(-s).toNat = dQ at *
    generalize 2^n.log2 = A at *
    omega

theorem bound_hi {num den q dr dp : Nat} (h1 : num < (q + 1) * den) (h2 : q < 2^(53 + dr)) (h3 : dr ≤ dp) :
    num < 2^53 * (den * 2^dp) := by
  have a1 : 2^(53 + dr) ≤ 2^(53 + dp) := Nat.pow_le_pow_right (by norm_num) (by omega)
  have a2 : q + 1 ≤ 2^(53 + dp) := by omega
  have a3 : (q + 1) * den ≤ 2^(53 + dp) * den := Nat.mul_le_mul_right _ a2
  have a4 : 2^(53 + dp) * den = 2^53 * (den * 2^dp) := by rw [pow_add]; ring
  omega

theorem bound_lo {num den q dr : Nat} (h1 : q * den ≤ num) (h2 : 2^(52 + dr) ≤ q) :
    2^52 * (den * 2^dr) ≤ num := by
  have a3 : 2^(52 + dr) * den ≤ q * den := Nat.mul_le_mul_right _ h2
  have a4 : 2^(52 + dr) * den = 2^52 * (den * 2^dr) := by rw [pow_add]; ring
  omega

/-- (b)+(c): the quotient/round stage computes `rne num (den * 2^drop)`, with the exponent bookkeeping
    `k + shift = drop + 1074` where the result is `mantissa * 2^(k-1074)` -/
theorem stage2_spec {num den : Nat} (s : Int) (hden : 0 < den) (h1 : 2^53 * den ≤ num)
    (h2 : num < 2^55 * den) :
    ∃ dp k : Nat, 1 ≤ dp ∧ (k : Int) + s = dp + 1074 ∧ (k = 0 ∨ 2^52 * (den * 2^dp) ≤ num)
      ∧ num < 2^53 * (den * 2^dp)
      ∧ stage2 num den s = renorm (rne num (den * 2^dp)) ((k:Int) - 1074) := by
  have hq1 : 2^53 ≤ num / den := (Nat.le_div_iff_mul_le hden).2 h1
  have hq2 : num / den < 2^55 := (Nat.div_lt_iff_lt_mul hden).2 h2
  obtain ⟨hdr, hw1, hw2⟩ := log2_window hq1 hq2
  have hqd : num / den * den ≤ num := Nat.div_mul_le_self _ _
  have hqd2 : num < (num / den + 1) * den := by
    have := Nat.div_add_mod num den
    have hr := Nat.mod_lt num hden
    rw [Nat.add_mul, Nat.mul_comm (num / den) den]; omega
  rw [stage2_eq]
  generalize hdrv : (num / den).log2 + 1 - 53 = dr at *
  by_cases hex : ((dr : Nat) : Int) - s < -1074
  · rw [if_pos hex, stage3_eq_renorm]
    refine ⟨dr + (-1074 - ((dr : Int) - s)).toNat, 0, by omega, by omega, Or.inl rfl,
      bound_hi hqd2 hw2 (by omega), ?_⟩
    rw [roundStage_eq_rne num den _ hden (by omega)]
    rfl
  · rw [if_neg hex, stage3_eq_renorm]
    refine ⟨dr, ((dr : Int) - s + 1074).toNat, by omega, by omega, Or.inr (bound_lo hqd hw1),
      bound_hi hqd2 hw2 (le_refl _), ?_⟩
    rw [roundStage_eq_rne num den _ hden (by omega)]
    congr 1
    omega

theorem ident_pos (n d X P Q K : Nat) (h : X * P = Q * K) : n * X * (d * P) = n * Q * K * d := by
  have : n * X * (d * P) = n * d * (X * P) := by ring
  rw [this, h]; ring

theorem ident_neg (n d X P Q K : Nat) (h : X * (Q * P) = K) : n * X * (d * Q * P) = n * K * d := by
  have : n * X * (d * Q * P) = n * d * (X * (Q * P)) := by ring
  rw [this, h]; ring

/-- The whole of `posRatToBits` on a positive rational, in one line: with `num/T` a rescaling of `n/d`
    by a power of two (`n/d · 2^1074 = num/T · 2^k`) that lies in `[2^52, 2^53)` (or just below `2^53`
    with `k = 0`: subnormal range), the result is the half-even rounding of `num/T`, packed with
    exponent `k`. -/
theorem core {n d : Nat} (hn : 0 < n) (hd : 0 < d) :
    ∃ num T k : Nat, 0 < T ∧ n * 2^1074 * T = num * 2^k * d ∧ (k = 0 ∨ 2^52 * T ≤ num)
      ∧ num < 2^53 * T ∧ posRatToBits n d = renorm (rne num T) ((k:Int) - 1074) := by
  rw [posRatToBits_eq_stage1, stage1_eq n d (Nat.pos_iff_ne_zero.1 hn)]
  obtain ⟨hp, hm⟩ := scale_bounds hn hd _ rfl
  generalize (54 : Int) - ((n.log2 : Int) - (d.log2 : Int)) = s at *
  by_cases hs : s ≥ 0
  · rw [if_pos hs]
    obtain ⟨b1, b2⟩ := hp hs
    obtain ⟨dp, k, hdp, hk, hlo, hhi, heq⟩ := stage2_spec s hd b1 b2
    refine ⟨n * 2^s.toNat, d * 2^dp, k, Nat.mul_pos hd (two_pow_pos' _), ?_, hlo, hhi, heq⟩
    apply ident_pos
    rw [← pow_add, ← pow_add]; congr 1; omega
  · rw [if_neg hs]
    obtain ⟨b1, b2⟩ := hm (by omega)
    have hden : 0 < d * 2^(-s).toNat := Nat.mul_pos hd (two_pow_pos' _)
    obtain ⟨dp, k, hdp, hk, hlo, hhi, heq⟩ := stage2_spec s hden b1 b2
    refine ⟨n, d * 2^(-s).toNat * 2^dp, k, Nat.mul_pos hden (two_pow_pos' _), ?_, hlo, hhi, heq⟩
    apply ident_neg
    rw [← pow_add, ← pow_add]; congr 1; omega

/-! ## From the one-line form to the specification -/

theorem near_down {base a t W : Int} (h0 : 0 ≤ a) (h1 : 2 * a ≤ t) (hW : W ≤ base ∨ base + t ≤ W) :
    |base + a - base| ≤ |base + a - W| ∧ (|base + a - base| = |base + a - W| → W = base ∨ 2 * a = t) := by
  rcases abs_cases (base + a - base) with ⟨e1, _⟩ | ⟨e1, _⟩ <;>
  rcases abs_cases (base + a - W) with ⟨e2, _⟩ | ⟨e2, _⟩ <;>
  rcases hW with hW | hW <;> rw [e1, e2] <;> refine ⟨by linarith, fun h => ?_⟩ <;>
  first
    | (left; linarith)
    | (right; linarith)

theorem near_up {base a t W : Int} (h0 : a ≤ t) (h1 : t ≤ 2 * a) (hW : W ≤ base ∨ base + t ≤ W) :
    |base + a - (base + t)| ≤ |base + a - W| ∧
    (|base + a - (base + t)| = |base + a - W| → W = base + t ∨ 2 * a = t) := by
  rcases abs_cases (base + a - (base + t)) with ⟨e1, _⟩ | ⟨e1, _⟩ <;>
  rcases abs_cases (base + a - W) with ⟨e2, _⟩ | ⟨e2, _⟩ <;>
  rcases hW with hW | hW <;> rw [e1, e2] <;> refine ⟨by linarith, fun h => ?_⟩ <;>
  first
    | (left; linarith)
    | (right; linarith)

/-- (c) nearest, ties to even, on the scaled quotient: `rne num T · 2^k` is at least as near to
    `num/T · 2^k` as any value `V` of the double grid, and when some other grid value is equally near
    the chosen mantissa is even.  (Cross-multiplied by `T`.) -/
theorem near_nat {num T k V : Nat} (hT : 0 < T) (hV : GridVal V) (hk : k = 0 ∨ 2^52 ≤ num / T)
    (hm : num / T < 2^53) :
    |((num * 2^k : Nat) : Int) - ((rne num T * 2^k * T : Nat) : Int)|
        ≤ |((num * 2^k : Nat) : Int) - ((V * T : Nat) : Int)| ∧
    (|((num * 2^k : Nat) : Int) - ((rne num T * 2^k * T : Nat) : Int)|
        = |((num * 2^k : Nat) : Int) - ((V * T : Nat) : Int)| →
      V ≠ rne num T * 2^k → rne num T % 2 = 0) := by
  have gap := grid_gap hV hk hm
  have hdm : T * (num / T) + num % T = num := Nat.div_add_mod num T
  have hρ : num % T < T := Nat.mod_lt _ hT
  have hg := two_pow_pos' k
  have hcases := rne_cases num T
  generalize rne num T = m at *
  generalize num / T = m0 at *
  generalize num % T = ρ at *
  generalize 2^k = g at *
  have hA : num * g = m0 * g * T + ρ * g := by rw [← hdm]; ring
  have gapT : V * T ≤ m0 * g * T ∨ m0 * g * T + T * g ≤ V * T := by
    rcases gap with h | h
    · left; exact Nat.mul_le_mul_right _ h
    · right
      have := Nat.mul_le_mul_right T h
      have e : (m0 + 1) * g * T = m0 * g * T + T * g := by ring
      omega
  have hat : ρ * g ≤ T * g := Nat.mul_le_mul_right _ (le_of_lt hρ)
  have hgapI : ((V * T : Nat) : Int) ≤ ((m0 * g * T : Nat) : Int) ∨
      ((m0 * g * T : Nat) : Int) + ((T * g : Nat) : Int) ≤ ((V * T : Nat) : Int) := by
    rcases gapT with h | h
    · left; exact_mod_cast h
    · right; exact_mod_cast h
  have cancel : ∀ x y : Nat, x * T = y * T → x = y := fun x y h => Nat.eq_of_mul_eq_mul_right hT h
  rw [hA]
  rcases hcases with ⟨hm', c1, c2⟩ | ⟨hm', c1, c2⟩
  · rw [hm']
    have h2 : 2 * (ρ * g) ≤ T * g := by
      have := Nat.mul_le_mul_right g c1; rw [Nat.mul_assoc] at this; exact this
    have := @near_down ((m0 * g * T : Nat) : Int) ((ρ * g : Nat) : Int) ((T * g : Nat) : Int)
      ((V * T : Nat) : Int) (by positivity) (by exact_mod_cast h2) hgapI
    rw [Nat.cast_add]
    refine ⟨this.1, fun heq hne => ?_⟩
    rcases this.2 heq with h | h
    · exact absurd (cancel _ _ (by exact_mod_cast h)) hne
    · have h' : 2 * (ρ * g) = T * g := by exact_mod_cast h
      have : 2 * ρ = T := Nat.eq_of_mul_eq_mul_right hg (by rw [Nat.mul_assoc]; exact h')
      exact c2 this
  · rw [hm']
    have h2 : T * g ≤ 2 * (ρ * g) := by
      have := Nat.mul_le_mul_right g c1; rw [Nat.mul_assoc] at this; exact this
    have e : (m0 + 1) * g * T = m0 * g * T + T * g := by ring
    have := @near_up ((m0 * g * T : Nat) : Int) ((ρ * g : Nat) : Int) ((T * g : Nat) : Int)
      ((V * T : Nat) : Int) (by exact_mod_cast hat) (by exact_mod_cast h2) hgapI
    rw [e, Nat.cast_add, Nat.cast_add]
    refine ⟨this.1, fun heq hne => ?_⟩
    rcases this.2 heq with h | h
    · have h' : V * T = (m0 + 1) * g * T := by rw [e]; exact_mod_cast h
      exact absurd (cancel _ _ h') hne
    · have h' : 2 * (ρ * g) = T * g := by exact_mod_cast h
      have : 2 * ρ = T := Nat.eq_of_mul_eq_mul_right hg (by rw [Nat.mul_assoc]; exact h')
      have := c2 this
      omega

/-- the distance to a grid value, before and after the rescaling, cross-multiplied -/
theorem transfer {n d num T k X : Nat} (V : Nat) (hid : n * X * T = num * 2^k * d) :
    (((n * X : Nat) : Int) - ((V * d : Nat) : Int)) * (T : Int)
      = (((num * 2^k : Nat) : Int) - ((V * T : Nat) : Int)) * (d : Int) := by
  have := congrArg (Nat.cast : Nat → Int) hid
  generalize 2^k = g at *
  push_cast at this ⊢
  linear_combination this

theorem abs_transfer {P Q : Int} {T d : Nat} (h : P * (T : Int) = Q * (d : Int)) :
    |P| * (T : Int) = |Q| * (d : Int) := by
  have := congrArg abs h
  rwa [abs_mul, abs_mul, Nat.abs_cast, Nat.abs_cast] at this

/-- what `posRatToBits` returns on a positive rational, against the grid of double values counted in
    units of 2^-1074: `none` or the pattern of the rounded value -/
theorem result_spec {n d : Nat} (hn : 0 < n) (hd : 0 < d) :
    ∃ num T k : Nat, 0 < T ∧ n * 2^1074 * T = num * 2^k * d ∧ (k = 0 ∨ 2^52 ≤ num / T)
      ∧ num / T < 2^53 ∧
      ((posRatToBits n d = none ∧ 2^52 * 2^2046 ≤ rne num T * 2^k) ∨
       (∃ b, posRatToBits n d = some b ∧ b < 2047 * 2^52 ∧ bitsToNat b = rne num T * 2^k
          ∧ b % 2 = rne num T % 2 ∧ rne num T * 2^k < 2^52 * 2^2046)) := by
  obtain ⟨num, T, k, hT, hid, hlo, hhi, heq⟩ := core hn hd
  have h1 : num / T < 2^53 := (Nat.div_lt_iff_lt_mul hT).2 hhi
  have h2 : k = 0 ∨ 2^52 ≤ num / T := by
    rcases hlo with h | h
    · exact Or.inl h
    · exact Or.inr ((Nat.le_div_iff_mul_le hT).2 h)
  refine ⟨num, T, k, hT, hid, h2, h1, ?_⟩
  rw [heq]
  apply renorm_spec
  · rcases rne_cases num T with ⟨e, _⟩ | ⟨e, _⟩ <;> omega
  · rcases h2 with h | h
    · exact Or.inl h
    · right; rcases rne_cases num T with ⟨e, _⟩ | ⟨e, _⟩ <;> omega

/-- nearest and ties-to-even, integer form (values in units of 2^-1074, cross-multiplied by `d`) -/
theorem nearest_int {n d b : Nat} (hn : 0 < n) (hd : 0 < d) (h : posRatToBits n d = some b) :
    b < 2047 * 2^52 ∧ ∀ V, GridVal V →
      |((n * 2^1074 : Nat) : Int) - ((bitsToNat b * d : Nat) : Int)|
        ≤ |((n * 2^1074 : Nat) : Int) - ((V * d : Nat) : Int)| ∧
      (|((n * 2^1074 : Nat) : Int) - ((bitsToNat b * d : Nat) : Int)|
        = |((n * 2^1074 : Nat) : Int) - ((V * d : Nat) : Int)| → V ≠ bitsToNat b → b % 2 = 0) := by
  obtain ⟨num, T, k, hT, hid, hk, hm, hres⟩ := result_spec hn hd
  rcases hres with ⟨hnone, _⟩ | ⟨b', hsome, hfin, hval, hpar, _⟩
  · rw [hnone] at h; exact absurd h (by simp)
  · rw [hsome] at h
    obtain rfl : b' = b := Option.some.inj h
    refine ⟨hfin, fun V hV => ?_⟩
    obtain ⟨hle, htie⟩ := near_nat (k := k) hT hV hk hm
    have tb := abs_transfer (transfer (bitsToNat b') hid)
    have tV := abs_transfer (transfer V hid)
    rw [hval] at tb ⊢
    have hTi : (0 : Int) < T := by exact_mod_cast hT
    have hdi : (0 : Int) < d := by exact_mod_cast hd
    constructor
    · have := mul_le_mul_of_nonneg_right hle (le_of_lt hdi)
      rw [← tb, ← tV] at this
      exact le_of_mul_le_mul_right this hTi
    · intro heq hne
      rw [hpar]
      apply htie _ hne
      have : |((n * 2^1074 : Nat) : Int) - ((rne num T * 2^k * d : Nat) : Int)| * (T : Int)
          = |((n * 2^1074 : Nat) : Int) - ((V * d : Nat) : Int)| * (T : Int) := by rw [heq]
      rw [tb, tV] at this
      exact mul_right_cancel₀ (ne_of_gt hdi) this

/-! ## Overflow threshold -/

theorem pow2046 : (2:Nat)^2046 = 4 * 2^2044 := by
  have : (2046:Nat) = 2044 + 2 := rfl
  rw [this, pow_add]; ring
theorem pow2045 : (2:Nat)^2045 = 2 * 2^2044 := by
  have : (2045:Nat) = 2044 + 1 := rfl
  rw [this, pow_add]; ring
theorem ovf_low {m m0 T num g G : Nat} (hT : 0 < T) (hG : 0 < G) (hg : 0 < g) (hmle : m ≤ 2^53)
    (hm : m0 < 2^53) (hhi : num < (m0 + 1) * T) (hp : g ≤ G) :
    ¬ (2^52 * (4 * G) ≤ m * g) ∧ ¬ ((2^54 - 1) * G * T ≤ num * g) := by
  have a1 : m * g ≤ 2^53 * G := Nat.mul_le_mul hmle hp
  have b1 : (m0 + 1) * T ≤ 2^53 * T := Nat.mul_le_mul_right _ (by omega)
  have a2 : num * g < (2^53 * T) * g := Nat.mul_lt_mul_of_pos_right (lt_of_lt_of_le hhi b1) hg
  have a3 : (2^53 * T) * g ≤ (2^53 * T) * G := Nat.mul_le_mul_left _ hp
  have a4 : (2^53 * T) * G = 2^53 * (G * T) := by ring
  have a5 : (2^54 - 1) * G * T = (2^54 - 1) * (G * T) := by ring
  have a6 : 0 < G * T := Nat.mul_pos hG hT
  rw [a5]
  generalize G * T = GT at *
  generalize m * g = mg at *
  generalize num * g = ng at *
  generalize (2^53 * T) * g = x at *
  constructor <;> omega

theorem ovf_high {m m0 T num g G : Nat} (h52 : 2^52 ≤ m0) (hm0m : m0 ≤ m) (hlo : m0 * T ≤ num)
    (hp : 4 * G ≤ g) :
    (2^52 * (4 * G) ≤ m * g) ∧ ((2^54 - 1) * G * T ≤ num * g) := by
  have a1 : 2^52 * (4 * G) ≤ m * g := Nat.mul_le_mul (by omega) hp
  have a2 : (2^52 * T) * (4 * G) ≤ num * g :=
    Nat.mul_le_mul (le_trans (Nat.mul_le_mul_right _ h52) hlo) hp
  have a3 : (2^52 * T) * (4 * G) = 2^54 * (G * T) := by ring
  have a5 : (2^54 - 1) * G * T = (2^54 - 1) * (G * T) := by ring
  rw [a5]
  generalize G * T = GT at *
  generalize m * g = mg at *
  generalize num * g = ng at *
  constructor <;> omega


theorem ovf_mid' {B m m0 ρ T num : Nat} (hB : B % 2 = 1) (hdm : T * m0 + ρ = num) (hρ : ρ < T)
    (hm : m0 ≤ B)
    (hcases : (m = m0 ∧ 2 * ρ ≤ T ∧ (2 * ρ = T → m0 % 2 = 0)) ∨
              (m = m0 + 1 ∧ T ≤ 2 * ρ ∧ (2 * ρ = T → m0 % 2 = 1))) :
    B + 1 ≤ m ↔ (2 * B + 1) * T ≤ 2 * num := by
  have e : (2 * B + 1) * T = 2 * (T * B) + T := by ring
  rw [e]
  by_cases htop : m0 = B
  · subst htop
    generalize T * m0 = Y at *
    rcases hcases with ⟨e, c1, c2⟩ | ⟨e, c1, c2⟩
    · constructor <;> intro h <;> omega
    · constructor <;> intro h <;> omega
  · have h1 : T * (m0 + 1) ≤ T * B := Nat.mul_le_mul_left _ (by omega)
    rw [Nat.mul_add] at h1
    generalize T * m0 = X at *
    generalize T * B = Y at *
    have hmm : m < B + 1 := by rcases hcases with ⟨e, _⟩ | ⟨e, _⟩ <;> omega
    constructor <;> intro h <;> omega

theorem ovf_mid {m m0 ρ T num G : Nat} (hG : 0 < G) (hdm : T * m0 + ρ = num) (hρ : ρ < T)
    (hm : m0 < 2^53)
    (hcases : (m = m0 ∧ 2 * ρ ≤ T ∧ (2 * ρ = T → m0 % 2 = 0)) ∨
              (m = m0 + 1 ∧ T ≤ 2 * ρ ∧ (2 * ρ = T → m0 % 2 = 1))) :
    2^52 * (4 * G) ≤ m * (2 * G) ↔ (2^54 - 1) * G * T ≤ num * (2 * G) := by
  have e1 : 2^52 * (4 * G) = (2^53 - 1 + 1) * (2 * G) := by ring
  have e3 : (2^54 - 1) * G * T = ((2 * (2^53 - 1) + 1) * T) * G := by ring
  have e4 : num * (2 * G) = (2 * num) * G := by ring
  have h2G : 0 < 2 * G := by omega
  rw [e1, e3, e4, Nat.mul_le_mul_right_iff h2G, Nat.mul_le_mul_right_iff hG]
  exact ovf_mid' (by norm_num) hdm hρ (Nat.le_sub_one_of_lt hm) hcases

/-- the rounded value reaches 2^1024 exactly when the scaled quotient reaches the midpoint
    `(2^54 - 1) · 2^2044` (= 2^1024 − 2^970 in units of 2^-1074) -/
theorem ovf_iff {num T k : Nat} (hT : 0 < T) (hk : k = 0 ∨ 2^52 ≤ num / T) (hm : num / T < 2^53) :
    2^52 * 2^2046 ≤ rne num T * 2^k ↔ (2^54 - 1) * 2^2044 * T ≤ num * 2^k := by
  have hdm : T * (num / T) + num % T = num := Nat.div_add_mod num T
  have hρ : num % T < T := Nat.mod_lt _ hT
  have hcases := rne_cases num T
  rw [pow2046]
  have hG := two_pow_pos' 2044
  have hg := two_pow_pos' k
  have hp1 : k < 2045 → 2^k ≤ 2^2044 := fun h => Nat.pow_le_pow_right (by norm_num) (by omega)
  have hp2 : 2045 < k → 4 * 2^2044 ≤ 2^k := fun h => by
    rw [← pow2046]; exact Nat.pow_le_pow_right (by norm_num) (by omega)
  have hp3 : k = 2045 → 2^k = 2 * 2^2044 := fun h => by rw [h, pow2045]
  generalize 2^2044 = G at *
  generalize 2^k = g at *
  generalize rne num T = m at *
  generalize num / T = m0 at *
  generalize num % T = ρ at *
  have hmle : m ≤ 2^53 := by rcases hcases with ⟨e, _⟩ | ⟨e, _⟩ <;> omega
  have hm0m : m0 ≤ m := by rcases hcases with ⟨e, _⟩ | ⟨e, _⟩ <;> omega
  have hlo : m0 * T ≤ num := by rw [← hdm, Nat.mul_comm]; omega
  have hhi : num < (m0 + 1) * T := by rw [← hdm, Nat.add_mul, Nat.mul_comm]; omega
  rcases Nat.lt_trichotomy k 2045 with hlt | heq | hgt
  · obtain ⟨n1, n2⟩ := ovf_low hT hG hg hmle hm hhi (hp1 hlt)
    exact ⟨fun h => absurd h n1, fun h => absurd h n2⟩
  · rw [hp3 heq]
    exact ovf_mid hG hdm hρ hm hcases
  · have h52 : 2^52 ≤ m0 := by omega
    obtain ⟨y1, y2⟩ := ovf_high (T := T) (num := num) h52 hm0m hlo (hp2 hgt)
    exact ⟨fun _ => y2, fun _ => y1⟩

/-- `none` exactly from the midpoint above the largest finite double on (integer form) -/
theorem overflow_int {n d : Nat} (hn : 0 < n) (hd : 0 < d) :
    posRatToBits n d = none ↔ (2^54 - 1) * 2^2044 * d ≤ n * 2^1074 := by
  obtain ⟨num, T, k, hT, hid, hk, hm, hres⟩ := result_spec hn hd
  have key := ovf_iff (k := k) hT hk hm
  have hiff : (2^54 - 1) * 2^2044 * d ≤ n * 2^1074 ↔ (2^54 - 1) * 2^2044 * T ≤ num * 2^k := by
    generalize (2^54 - 1) * 2^2044 = Θ at *
    generalize n * 2^1074 = N at *
    generalize num * 2^k = M at *
    constructor
    · intro h
      have h1 : Θ * d * T ≤ N * T := Nat.mul_le_mul_right _ h
      rw [hid] at h1
      have h2 : Θ * d * T = Θ * T * d := by ring
      rw [h2] at h1
      exact Nat.le_of_mul_le_mul_right h1 hd
    · intro h
      have h1 : Θ * T * d ≤ M * d := Nat.mul_le_mul_right _ h
      rw [← hid] at h1
      have h2 : Θ * T * d = Θ * d * T := by ring
      rw [h2] at h1
      exact Nat.le_of_mul_le_mul_right h1 hT
  rw [hiff, ← key]
  rcases hres with ⟨hnone, hge⟩ | ⟨b, hsome, _, _, _, hlt⟩
  · exact ⟨fun _ => hge, fun _ => hnone⟩
  · rw [hsome]
    constructor
    · intro h; exact absurd h (by simp)
    · intro h; omega

/-! ## Exact values, zero, the bottom of the subnormal range -/

theorem finite_lt {b : Nat} (h : b < 2047 * 2^52) : b < 2^63 := by omega

theorem bitsToNat_zero : bitsToNat 0 = 0 := by decide
theorem bitsToNat_one : bitsToNat 1 = 1 := by decide

theorem bitsToNat_inj {b c : Nat} (hb : b < 2^63) (hc : c < 2^63) (h : bitsToNat b = bitsToNat c) :
    b = c := by
  rcases Nat.lt_trichotomy b c with h1 | h1 | h1
  · have := bitsToNat_strictMono h1 hc; omega
  · exact h1
  · have := bitsToNat_strictMono h1 hb; omega

/-- every finite double is below the overflow midpoint -/
theorem bitsToNat_lt_mid {b : Nat} (hb : b < 2047 * 2^52) : bitsToNat b < (2^54 - 1) * 2^2044 := by
  unfold bitsToNat
  have e1 : b / 2^52 % 2^11 = b / 2^52 := by omega
  rw [e1]
  have hm : b % 2^52 < 2^52 := Nat.mod_lt _ (by positivity)
  have he : b / 2^52 ≤ 2046 := by omega
  have hG := two_pow_pos' 2044
  generalize b / 2^52 = e at *
  generalize b % 2^52 = m at *
  by_cases h0 : e = 0
  · rw [if_pos h0]
    have : (2^54 - 1) * 1 ≤ (2^54 - 1) * 2^2044 := Nat.mul_le_mul_left _ hG
    omega
  · rw [if_neg h0]
    have a1 : 2^(e - 1) ≤ 2^2045 := Nat.pow_le_pow_right (by norm_num) (by omega)
    rw [pow2045] at a1
    have a2 : (2^52 + m) * 2^(e - 1) ≤ (2^53 - 1) * (2 * 2^2044) := Nat.mul_le_mul (by omega) a1
    have a3 : (2^53 - 1) * (2 * 2^2044) = (2^54 - 2) * 2^2044 := by ring
    have a4 : (2^54 - 2) * 2^2044 < (2^54 - 1) * 2^2044 := Nat.mul_lt_mul_of_pos_right (by norm_num) hG
    omega

theorem gridVal_zero : GridVal 0 := ⟨0, 0, by simp, Or.inl ⟨rfl, by norm_num⟩⟩
theorem gridVal_one : GridVal 1 := ⟨1, 0, by simp, Or.inl ⟨rfl, by norm_num⟩⟩

/-- a double's exact value rounds to itself (integer form) -/
theorem exact_int {n d b : Nat} (hb : b < 2047 * 2^52) (hn : 0 < n) (hd : 0 < d)
    (h : n * 2^1074 = bitsToNat b * d) : posRatToBits n d = some b := by
  cases hres : posRatToBits n d with
  | none =>
    have := (overflow_int hn hd).1 hres
    rw [h] at this
    have h1 := Nat.le_of_mul_le_mul_right this hd
    have h2 := bitsToNat_lt_mid hb
    omega
  | some b' =>
    obtain ⟨hfin, hnear⟩ := nearest_int hn hd hres
    have h1 := (hnear _ (bitsToNat_grid b)).1
    rw [h] at h1
    simp only [sub_self, abs_zero] at h1
    have h2 : ((bitsToNat b * d : Nat) : Int) - ((bitsToNat b' * d : Nat) : Int) = 0 :=
      abs_eq_zero.1 (le_antisymm h1 (abs_nonneg _))
    have h3 : bitsToNat b' * d = bitsToNat b * d := by
      have := sub_eq_zero.1 h2; exact_mod_cast this.symm
    have h4 := Nat.eq_of_mul_eq_mul_right hd h3
    rw [bitsToNat_inj (finite_lt hfin) (finite_lt hb) h4]

/-- at or below half the smallest subnormal the answer is +0, and only there (integer form) -/
theorem underflow_int {n d : Nat} (hn : 0 < n) (hd : 0 < d) :
    posRatToBits n d = some 0 ↔ 2 * (n * 2^1074) ≤ d := by
  generalize hN : n * 2^1074 = N
  have hNpos : 0 < N := by rw [← hN]; exact Nat.mul_pos hn (two_pow_pos' _)
  constructor
  · intro h
    obtain ⟨_, hnear⟩ := nearest_int hn hd h
    have h1 := (hnear 1 gridVal_one).1
    rw [bitsToNat_zero, hN] at h1
    simp only [Nat.zero_mul, Nat.one_mul, Nat.cast_zero, sub_zero] at h1
    rcases abs_cases ((N : Int) - (d : Int)) with ⟨e, _⟩ | ⟨e, _⟩ <;> rw [e] at h1 <;>
      rw [abs_of_nonneg (by positivity)] at h1 <;> omega
  · intro h
    cases hres : posRatToBits n d with
    | none =>
      have := (overflow_int hn hd).1 hres
      rw [hN] at this
      have hG := two_pow_pos' 2044
      have : 1 * d ≤ (2^54 - 1) * 2^2044 * d := Nat.mul_le_mul_right _ (Nat.mul_pos (by norm_num) hG)
      omega
    | some b =>
      obtain ⟨hfin, hnear⟩ := nearest_int hn hd hres
      obtain ⟨h1, h2⟩ := hnear 0 gridVal_zero
      rw [hN] at h1 h2
      simp only [Nat.zero_mul, Nat.cast_zero, sub_zero] at h1 h2
      rw [abs_of_nonneg (by positivity : (0:Int) ≤ (N : Int))] at h1 h2
      have hV : bitsToNat b ≤ 1 := by
        by_contra hc
        have h3 : 2 * d ≤ bitsToNat b * d := Nat.mul_le_mul_right _ (by omega)
        rcases abs_cases ((N : Int) - ((bitsToNat b * d : Nat) : Int)) with ⟨e, _⟩ | ⟨e, _⟩ <;>
          rw [e] at h1 <;> omega
      rcases Nat.lt_or_ge (bitsToNat b) 1 with h3 | h3
      · have : bitsToNat b = bitsToNat 0 := by rw [bitsToNat_zero]; omega
        rw [bitsToNat_inj (finite_lt hfin) (by norm_num) this]
      · have hb1 : bitsToNat b = 1 := by omega
        have hb : b = 1 := bitsToNat_inj (finite_lt hfin) (by norm_num) (by rw [hb1, bitsToNat_one])
        rw [hb1] at h1 h2
        simp only [Nat.one_mul] at h1 h2
        have : b % 2 = 0 := by
          apply h2 _ (by omega)
          rcases abs_cases ((N : Int) - (d : Int)) with ⟨e, _⟩ | ⟨e, _⟩ <;> rw [e] at h1 ⊢ <;> omega
        omega
end KaVerif.Rounding
