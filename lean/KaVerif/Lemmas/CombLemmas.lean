import KaVerif.Lemmas.NumLemmas
import KaVerif.Model.Comb
import Mathlib.Algebra.BigOperators.Group.List.Basic
import Mathlib.Algebra.BigOperators.Ring.List
import Mathlib.Data.Nat.Choose.Basic
import Mathlib.Data.Nat.Factorial.Basic
import Mathlib.Data.List.Perm.Basic
import Mathlib.Tactic.LinearCombination
/-
  Helper lemmas for C05 (lazy combinatorics).  Everything is about Model/Comb.lean.
-/
set_option linter.unusedSimpArgs false
set_option linter.unusedVariables false

namespace KaVerif.Comb
open IntRange

/-- every range of the list is non-empty (`lo ≤ hi`): the only ranges the code ever builds -/
def NonEmptyL (l : List IntRange) : Prop := ∀ r ∈ l, r.lo ≤ r.hi
/-- no range of the list contains 0 -/
def NoZeroL (l : List IntRange) : Prop := ∀ r ∈ l, ¬ (r.lo ≤ 0 ∧ 0 ≤ r.hi)

theorem nonEmptyL_nil : NonEmptyL [] := by intro r h; cases h
theorem noZeroL_nil : NoZeroL [] := by intro r h; cases h

theorem nonEmptyL_append {a b : List IntRange} : NonEmptyL (a ++ b) ↔ NonEmptyL a ∧ NonEmptyL b := by
  simp only [NonEmptyL, List.mem_append]
  constructor
  · intro h; exact ⟨fun r hr => h r (Or.inl hr), fun r hr => h r (Or.inr hr)⟩
  · rintro ⟨h1, h2⟩ r (hr | hr); exact h1 r hr; exact h2 r hr

theorem noZeroL_append {a b : List IntRange} : NoZeroL (a ++ b) ↔ NoZeroL a ∧ NoZeroL b := by
  simp only [NoZeroL, List.mem_append]
  constructor
  · intro h; exact ⟨fun r hr => h r (Or.inl hr), fun r hr => h r (Or.inr hr)⟩
  · rintro ⟨h1, h2⟩ r (hr | hr); exact h1 r hr; exact h2 r hr

theorem nonEmptyL_cons {r : IntRange} {l : List IntRange} : NonEmptyL (r :: l) ↔ r.lo ≤ r.hi ∧ NonEmptyL l := by
  simp [NonEmptyL]

theorem noZeroL_cons {r : IntRange} {l : List IntRange} : NoZeroL (r :: l) ↔ ¬ (r.lo ≤ 0 ∧ 0 ≤ r.hi) ∧ NoZeroL l := by
  simp [NoZeroL]

theorem nonEmptyL_reverse {l : List IntRange} : NonEmptyL l.reverse ↔ NonEmptyL l := by
  simp [NonEmptyL]

theorem noZeroL_reverse {l : List IntRange} : NoZeroL l.reverse ↔ NoZeroL l := by
  simp [NoZeroL]

theorem any_hasZero_iff (l : List IntRange) : l.any IntRange.hasZero = true ↔ ¬ NoZeroL l := by
  simp only [List.any_eq_true, NoZeroL, hasZero, Bool.and_eq_true, decide_eq_true_eq]
  constructor
  · rintro ⟨r, hr, h⟩ hall; exact hall r hr h
  · intro h; by_contra hc; apply h; intro r hr hz; exact hc ⟨r, hr, hz⟩

/-! ### the integers of a range -/

theorem upFrom_succ (lo : Int) (k : Nat) : upFrom lo (k + 1) = upFrom lo k ++ [lo + (k : Int)] := by
  simp [upFrom, List.range_succ]

theorem count_upFrom (lo : Int) (k : Nat) (x : Int) :
    (upFrom lo k).count x = if lo ≤ x ∧ x < lo + k then 1 else 0 := by
  induction k with
  | zero => simp [upFrom]
  | succ k ih =>
    rw [upFrom_succ, List.count_append, ih]
    by_cases h : lo + (k : Int) = x
    · subst h; simp
    · simp [h]
      split_ifs <;> omega

theorem count_elems (r : IntRange) (x : Int) :
    (elems r).count x = if r.lo ≤ x ∧ x ≤ r.hi then 1 else 0 := by
  unfold elems size
  rw [count_upFrom]
  split_ifs <;> omega

theorem mem_elems (r : IntRange) (x : Int) : x ∈ elems r ↔ r.lo ≤ x ∧ x ≤ r.hi := by
  rw [← List.count_pos_iff, count_elems]
  split_ifs with h <;> simp [h]

theorem prod_eq_zero_iff (r : IntRange) : r.prod = 0 ↔ r.lo ≤ 0 ∧ 0 ≤ r.hi := by
  unfold IntRange.prod
  rw [List.prod_eq_zero_iff, mem_elems]

theorem prod_of_empty (r : IntRange) (h : r.hi < r.lo) : r.prod = 1 := by
  have : r.size = 0 := by unfold size; omega
  simp [IntRange.prod, elems, this, upFrom]

/-- two lists of integers with the same counts have the same product -/
theorem prod_eq_of_count {l₁ l₂ : List Int} (h : ∀ x, l₁.count x = l₂.count x) : l₁.prod = l₂.prod :=
  (List.perm_iff_count.mpr h).prod_eq

/-! ### lists of ranges -/

@[simp] theorem prodL_nil : prodL [] = 1 := rfl
@[simp] theorem prodL_cons (r : IntRange) (l : List IntRange) : prodL (r :: l) = r.prod * prodL l := by
  simp [prodL]
@[simp] theorem prodL_append (a b : List IntRange) : prodL (a ++ b) = prodL a * prodL b := by
  simp [prodL]
@[simp] theorem prodL_reverse (a : List IntRange) : prodL a.reverse = prodL a := by
  induction a with
  | nil => rfl
  | cons r l ih => simp [ih, mul_comm]
theorem prodL_singleton (r : IntRange) : prodL [r] = r.prod := by simp

@[simp] theorem elemsL_nil : elemsL [] = [] := rfl
@[simp] theorem elemsL_cons (r : IntRange) (l : List IntRange) : elemsL (r :: l) = elems r ++ elemsL l := by
  simp [elemsL]
@[simp] theorem elemsL_append (a b : List IntRange) : elemsL (a ++ b) = elemsL a ++ elemsL b := by
  simp [elemsL]

theorem prodL_eq_prod_elemsL (l : List IntRange) : prodL l = (elemsL l).prod := by
  induction l with
  | nil => rfl
  | cons r l ih => simp [ih, IntRange.prod]

theorem prodL_ne_zero {l : List IntRange} (h : NoZeroL l) : prodL l ≠ 0 := by
  induction l with
  | nil => simp
  | cons r l ih =>
    rw [noZeroL_cons] at h
    rw [prodL_cons]
    exact mul_ne_zero (fun hz => h.1 ((prod_eq_zero_iff r).mp hz)) (ih h.2)

theorem prodL_eq_zero_of_not_noZero {l : List IntRange} (h : ¬ NoZeroL l) : prodL l = 0 := by
  induction l with
  | nil => exact absurd noZeroL_nil h
  | cons r l ih =>
    rw [prodL_cons]
    by_cases hr : r.lo ≤ 0 ∧ 0 ≤ r.hi
    · rw [(prod_eq_zero_iff r).mpr hr, zero_mul]
    · rw [ih (fun hl => h (noZeroL_cons.mpr ⟨hr, hl⟩)), mul_zero]

theorem prodL_eq_zero_iff (l : List IntRange) : prodL l = 0 ↔ ¬ NoZeroL l :=
  ⟨fun h hz => prodL_ne_zero hz h, prodL_eq_zero_of_not_noZero⟩

/-! ### `difference` -/

/-- the factors are only moved: `a ⊎ rem_b = b ⊎ rem_a` as multisets (lists up to permutation) -/
theorem difference_perm (a b : IntRange) (ha : a.lo ≤ a.hi) (hb : b.lo ≤ b.hi) :
    (elems a ++ elemsL (a.difference b).2).Perm (elems b ++ elemsL (a.difference b).1) := by
  rw [List.perm_iff_count]
  intro x
  unfold difference
  split_ifs <;>
    simp only [elemsL_nil, elemsL_cons, elemsL_append, List.append_nil, List.nil_append, List.count_append,
      count_elems, List.count_nil] <;>
    split_ifs <;> omega

theorem difference_prod (a b : IntRange) (ha : a.lo ≤ a.hi) (hb : b.lo ≤ b.hi) :
    a.prod * prodL (a.difference b).2 = b.prod * prodL (a.difference b).1 := by
  have h := (difference_perm a b ha hb).prod_eq
  simpa [List.prod_append, prodL_eq_prod_elemsL, IntRange.prod] using h

/-- remainders of intersecting non-empty ranges: non-empty sub-ranges, and the pending work shrinks -/
theorem difference_facts (a b : IntRange) (ha : a.lo ≤ a.hi) (hb : b.lo ≤ b.hi) (hi : a.intersects b = true) :
    NonEmptyL (a.difference b).1 ∧ NonEmptyL (a.difference b).2 ∧
    (∀ r ∈ (a.difference b).1, a.lo ≤ r.lo ∧ r.hi ≤ a.hi) ∧
    (∀ r ∈ (a.difference b).2, b.lo ≤ r.lo ∧ r.hi ≤ b.hi) ∧
    Combinatoric.measure (a.difference b).2 < 2 * b.size + 1 := by
  simp only [intersects, Bool.not_eq_true', Bool.or_eq_false_iff, decide_eq_false_iff_not] at hi
  unfold difference NonEmptyL Combinatoric.measure size
  split_ifs <;>
    simp only [List.mem_append, List.mem_cons, List.mem_nil_iff, List.not_mem_nil, or_false, false_or,
      forall_eq, List.map_cons, List.map_nil, List.map_append, List.sum_cons, List.sum_nil, List.sum_append,
      List.append_nil, List.nil_append, forall_eq_or_imp, IsEmpty.forall_iff, implies_true, true_and, and_true] <;>
    omega

/-! ### `mul` -/

theorem cancelFirst_some (d : IntRange) (hd : d.lo ≤ d.hi) :
    ∀ (ns ns' rd : List IntRange), NonEmptyL ns → Combinatoric.cancelFirst d ns = some (ns', rd) →
      prodL ns * prodL rd = d.prod * prodL ns' ∧ NonEmptyL ns' ∧ NonEmptyL rd ∧
      (∀ r ∈ rd, d.lo ≤ r.lo ∧ r.hi ≤ d.hi) ∧ Combinatoric.measure rd < 2 * d.size + 1 := by
  intro ns
  induction ns with
  | nil => intro ns' rd _ h; simp [Combinatoric.cancelFirst] at h
  | cons n rest ih =>
    intro ns' rd hne h
    rw [nonEmptyL_cons] at hne
    unfold Combinatoric.cancelFirst at h
    by_cases hi : n.intersects d = true
    · simp only [hi, if_true, Option.some.injEq, Prod.mk.injEq] at h
      obtain ⟨h1, h2⟩ := h
      subst h1; subst h2
      obtain ⟨f1, f2, f3, f4, f5⟩ := difference_facts n d hne.1 hd hi
      refine ⟨?_, nonEmptyL_append.mpr ⟨f1, hne.2⟩, f2, f4, f5⟩
      have hp := difference_prod n d hne.1 hd
      rw [prodL_cons, prodL_append]
      linear_combination (prodL rest) * hp
    · simp only [hi] at h
      cases hc : Combinatoric.cancelFirst d rest with
      | none => simp [hc] at h
      | some p =>
        obtain ⟨ns'', rd'⟩ := p
        simp only [hc, Bool.false_eq_true, if_false, Option.some.injEq, Prod.mk.injEq] at h
        obtain ⟨h1, h2⟩ := h
        subst h1; subst h2
        obtain ⟨g1, g2, g3, g4, g5⟩ := ih ns'' rd' hne.2 hc
        refine ⟨?_, nonEmptyL_cons.mpr ⟨hne.1, g2⟩, g3, g4, g5⟩
        rw [prodL_cons, prodL_cons]
        linear_combination n.prod * g1

theorem noZeroL_of_sub {d : IntRange} (hd : ¬ (d.lo ≤ 0 ∧ 0 ≤ d.hi)) {rd : List IntRange}
    (h : ∀ r ∈ rd, d.lo ≤ r.lo ∧ r.hi ≤ d.hi) : NoZeroL rd := by
  intro r hr hz
  have := h r hr
  omega

theorem measure_cons (d : IntRange) (l : List IntRange) :
    Combinatoric.measure (d :: l) = 2 * d.size + 1 + Combinatoric.measure l := by
  simp [Combinatoric.measure]

theorem measure_append (a b : List IntRange) :
    Combinatoric.measure (a ++ b) = Combinatoric.measure a + Combinatoric.measure b := by
  simp [Combinatoric.measure]

theorem measure_reverse (a : List IntRange) : Combinatoric.measure a.reverse = Combinatoric.measure a := by
  induction a with
  | nil => rfl
  | cons r l ih =>
    rw [List.reverse_cons, measure_append, measure_cons, measure_cons, ih]
    simp [Combinatoric.measure]; omega

/-- The work-list loop: with fuel above the measure it finishes, keeps every range non-empty, never puts a
    zero into the denominator, and keeps `∏ns / (∏stk · ∏res)` (stated without division). -/
theorem mulLoop_spec : ∀ (fuel : Nat) (ns stk res : List IntRange),
    Combinatoric.measure stk < fuel → NonEmptyL ns → NonEmptyL stk → NonEmptyL res → NoZeroL stk → NoZeroL res →
    ∃ r, Combinatoric.mulLoop fuel ns stk res = some r ∧
      prodL r.ns * prodL stk * prodL res = prodL ns * prodL r.ds ∧
      NonEmptyL r.ns ∧ NonEmptyL r.ds ∧ NoZeroL r.ds := by
  intro fuel
  induction fuel with
  | zero => intro ns stk res h; omega
  | succ fuel ih =>
    intro ns stk res hm hns hstk hres zstk zres
    cases stk with
    | nil =>
      refine ⟨⟨ns, res⟩, by simp [Combinatoric.mulLoop], ?_, hns, hres, zres⟩
      simp
    | cons d stk =>
      rw [nonEmptyL_cons] at hstk
      rw [noZeroL_cons] at zstk
      rw [measure_cons] at hm
      unfold Combinatoric.mulLoop
      cases hc : Combinatoric.cancelFirst d ns with
      | none =>
        simp only []
        have hres' : NonEmptyL (res ++ [d]) := nonEmptyL_append.mpr ⟨hres, nonEmptyL_cons.mpr ⟨hstk.1, nonEmptyL_nil⟩⟩
        have zres' : NoZeroL (res ++ [d]) := noZeroL_append.mpr ⟨zres, noZeroL_cons.mpr ⟨zstk.1, noZeroL_nil⟩⟩
        obtain ⟨r, hr, hp, h1, h2, h3⟩ := ih ns stk (res ++ [d]) (by omega) hns hstk.2 hres' zstk.2 zres'
        refine ⟨r, hr, ?_, h1, h2, h3⟩
        rw [prodL_append, prodL_singleton] at hp
        rw [prodL_cons]
        linear_combination hp
      | some p =>
        obtain ⟨ns', rd⟩ := p
        simp only []
        obtain ⟨g1, g2, g3, g4, g5⟩ := cancelFirst_some d hstk.1 ns ns' rd hns hc
        have zrd : NoZeroL rd := noZeroL_of_sub zstk.1 g4
        have hstk' : NonEmptyL (rd.reverse ++ stk) := nonEmptyL_append.mpr ⟨nonEmptyL_reverse.mpr g3, hstk.2⟩
        have zstk' : NoZeroL (rd.reverse ++ stk) := noZeroL_append.mpr ⟨noZeroL_reverse.mpr zrd, zstk.2⟩
        have hm' : Combinatoric.measure (rd.reverse ++ stk) < fuel := by
          rw [measure_append, measure_reverse]; omega
        obtain ⟨r, hr, hp, h1, h2, h3⟩ := ih ns' (rd.reverse ++ stk) res hm' g2 hstk' hres zstk' zres
        refine ⟨r, hr, ?_, h1, h2, h3⟩
        rw [prodL_append, prodL_reverse] at hp
        rw [prodL_cons]
        have hrd : prodL rd ≠ 0 := prodL_ne_zero zrd
        apply mul_right_cancel₀ hrd
        linear_combination d.prod * hp - prodL r.ds * g1

theorem mul_zero_divisor (c : Combinatoric) (ns ds : List IntRange) (h : ¬ NoZeroL (c.ds ++ ds)) :
    c.mul ns ds = .error .divZero := by
  unfold Combinatoric.mul
  have := (any_hasZero_iff (c.ds ++ ds)).mpr h
  simp only [this, if_true]

theorem mul_ok (c : Combinatoric) (ns ds : List IntRange)
    (h1 : NonEmptyL c.ns) (h2 : NonEmptyL c.ds) (h3 : NonEmptyL ns) (h4 : NonEmptyL ds)
    (hz : NoZeroL (c.ds ++ ds)) :
    ∃ r, c.mul ns ds = .ok r ∧ NonEmptyL r.ns ∧ NonEmptyL r.ds ∧ NoZeroL r.ds ∧
      prodL r.ns * prodL (c.ds ++ ds) = prodL (c.ns ++ ns) * prodL r.ds := by
  unfold Combinatoric.mul
  have hany : (c.ds ++ ds).any IntRange.hasZero = false := by
    cases hb : (c.ds ++ ds).any IntRange.hasZero with
    | false => rfl
    | true => exact absurd hz ((any_hasZero_iff _).mp hb)
  simp only [hany, Bool.false_eq_true, if_false]
  obtain ⟨r, hr, hp, g1, g2, g3⟩ := mulLoop_spec (Combinatoric.measure (c.ds ++ ds) + 1) (c.ns ++ ns)
    (c.ds ++ ds).reverse [] (by rw [measure_reverse]; omega)
    (nonEmptyL_append.mpr ⟨h1, h3⟩) (nonEmptyL_reverse.mpr (nonEmptyL_append.mpr ⟨h2, h4⟩)) nonEmptyL_nil
    (noZeroL_reverse.mpr hz) noZeroL_nil
  refine ⟨r, by rw [hr], g1, g2, g3, ?_⟩
  rw [prodL_reverse, prodL_nil, mul_one] at hp
  exact hp

/-- quotient form of the `mul` invariant -/
theorem val_of_mul_eq {r : Combinatoric} {N D : Int} (hD : D ≠ 0) (hr : NoZeroL r.ds)
    (h : prodL r.ns * D = N * prodL r.ds) : r.val = (N : Rat) / (D : Rat) := by
  unfold Combinatoric.val
  have h1 : ((prodL r.ds : Int) : Rat) ≠ 0 := by exact_mod_cast prodL_ne_zero hr
  have h2 : ((D : Int) : Rat) ≠ 0 := by exact_mod_cast hD
  rw [div_eq_div_iff h1 h2]
  exact_mod_cast h

/-! ### `resolve` -/

theorem prod_point (n : Int) : (⟨n, n⟩ : IntRange).prod = n := by
  have : (⟨n, n⟩ : IntRange).size = 1 := by simp [size]
  simp [IntRange.prod, elems, this, upFrom]

theorem prod_split_lo (d : IntRange) (h : d.lo ≤ d.hi) : d.prod = d.lo * (⟨d.lo + 1, d.hi⟩ : IntRange).prod := by
  have : d.prod = (d.lo :: elems ⟨d.lo + 1, d.hi⟩).prod := by
    apply prod_eq_of_count
    intro x
    rw [List.count_cons, count_elems, count_elems]
    by_cases hx : d.lo = x
    · subst hx; simp; omega
    · simp [hx]; split_ifs <;> omega
  rw [this, List.prod_cons]; rfl

theorem upFrom_prod_succ (lo : Int) (k : Nat) : (upFrom lo (k + 1)).prod = (upFrom lo k).prod * (lo + k) := by
  rw [upFrom_succ, List.prod_append]; simp

theorem upFrom_prod_succ' (lo : Int) (k : Nat) : (upFrom lo (k + 1)).prod = lo * (upFrom (lo + 1) k).prod := by
  have : (upFrom lo (k + 1)).prod = (lo :: upFrom (lo + 1) k).prod := by
    apply prod_eq_of_count
    intro x
    rw [List.count_cons, count_upFrom, count_upFrom]
    by_cases hx : lo = x
    · subst hx; simp
    · simp [hx]; split_ifs <;> omega
  rw [this, List.prod_cons]

theorem resolveStep_spec (h res : Int) (dstk : List IntRange) (hne : NonEmptyL dstk) (hz : NoZeroL dstk) :
    ∃ res' dstk', Combinatoric.resolveStep h (res, dstk) = .ok (res', dstk') ∧
      res' * prodL dstk = res * h * prodL dstk' ∧ NonEmptyL dstk' ∧ NoZeroL dstk' := by
  cases dstk with
  | nil => exact ⟨res * h, [], rfl, by simp, nonEmptyL_nil, noZeroL_nil⟩
  | cons d rest =>
    rw [nonEmptyL_cons] at hne
    rw [noZeroL_cons] at hz
    have hlo : d.lo ≠ 0 := by intro h0; apply hz.1; omega
    unfold Combinatoric.resolveStep
    simp only [hlo, if_false]
    by_cases hdiv : res * h % d.lo = 0
    · simp only [hdiv, if_true]
      have hsplit := prod_split_lo d hne.1
      have hcancel : res * h / d.lo * d.lo = res * h := Int.ediv_mul_cancel (Int.dvd_of_emod_eq_zero hdiv)
      by_cases hemp : (⟨d.lo + 1, d.hi⟩ : IntRange).isEmpty = true
      · simp only [hemp, if_true]
        have hlt : d.hi < d.lo + 1 := by simpa [isEmpty] using hemp
        have h1 : (⟨d.lo + 1, d.hi⟩ : IntRange).prod = 1 := prod_of_empty _ hlt
        refine ⟨_, _, rfl, ?_, hne.2, hz.2⟩
        rw [prodL_cons, hsplit, h1]
        linear_combination (prodL rest) * hcancel
      · have hemp' : (⟨d.lo + 1, d.hi⟩ : IntRange).isEmpty = false := by
          cases hb : (⟨d.lo + 1, d.hi⟩ : IntRange).isEmpty with
          | false => rfl
          | true => exact absurd hb hemp
        simp only [hemp', Bool.false_eq_true, if_false]
        have hle : d.lo + 1 ≤ d.hi := by
          have : ¬ (d.lo + 1 > d.hi) := by simpa [isEmpty] using hemp'
          omega
        refine ⟨_, _, rfl, ?_, nonEmptyL_cons.mpr ⟨hle, hne.2⟩, noZeroL_cons.mpr ⟨?_, hz.2⟩⟩
        · rw [prodL_cons, prodL_cons, hsplit]
          linear_combination ((⟨d.lo + 1, d.hi⟩ : IntRange).prod * prodL rest) * hcancel
        · intro hc; apply hz.1; simp only at hc; omega
    · simp only [hdiv, if_false]
      exact ⟨_, _, rfl, rfl, nonEmptyL_cons.mpr hne, noZeroL_cons.mpr hz⟩

theorem resolveRange_spec (lo : Int) : ∀ (k : Nat) (res : Int) (dstk : List IntRange),
    NonEmptyL dstk → NoZeroL dstk →
    ∃ res' dstk', Combinatoric.resolveRange lo k (res, dstk) = .ok (res', dstk') ∧
      res' * prodL dstk = res * (upFrom lo k).prod * prodL dstk' ∧ NonEmptyL dstk' ∧ NoZeroL dstk' := by
  intro k
  induction k with
  | zero => intro res dstk hne hz; exact ⟨res, dstk, rfl, by simp [upFrom], hne, hz⟩
  | succ k ih =>
    intro res dstk hne hz
    obtain ⟨r1, d1, e1, p1, n1, z1⟩ := resolveStep_spec (lo + (k : Int)) res dstk hne hz
    obtain ⟨r2, d2, e2, p2, n2, z2⟩ := ih r1 d1 n1 z1
    refine ⟨r2, d2, ?_, ?_, n2, z2⟩
    · simp only [Combinatoric.resolveRange, e1, e2]
    · rw [upFrom_prod_succ]
      apply mul_right_cancel₀ (prodL_ne_zero z1)
      linear_combination (prodL dstk) * p2 + ((upFrom lo k).prod * prodL d2) * p1

theorem resolveNs_spec : ∀ (ns : List IntRange) (res : Int) (dstk : List IntRange),
    NonEmptyL dstk → NoZeroL dstk →
    ∃ res' dstk', Combinatoric.resolveNs ns (res, dstk) = .ok (res', dstk') ∧
      res' * prodL dstk = res * prodL ns * prodL dstk' ∧ NonEmptyL dstk' ∧ NoZeroL dstk' := by
  intro ns
  induction ns with
  | nil => intro res dstk hne hz; exact ⟨res, dstk, rfl, by simp, hne, hz⟩
  | cons n ns ih =>
    intro res dstk hne hz
    obtain ⟨r1, d1, e1, p1, n1, z1⟩ := resolveRange_spec n.lo n.size res dstk hne hz
    obtain ⟨r2, d2, e2, p2, n2, z2⟩ := ih r1 d1 n1 z1
    refine ⟨r2, d2, ?_, ?_, n2, z2⟩
    · simp only [Combinatoric.resolveNs, e1, e2]
    · rw [prodL_cons]
      have : n.prod = (upFrom n.lo n.size).prod := rfl
      rw [this]
      apply mul_right_cancel₀ (prodL_ne_zero z1)
      linear_combination (prodL dstk) * p2 + (prodL ns * prodL d2) * p1

theorem mulUp_eq : ∀ (k : Nat) (acc lo : Int), Combinatoric.mulUp acc lo k = acc * (upFrom lo k).prod := by
  intro k
  induction k with
  | zero => intro acc lo; simp [Combinatoric.mulUp, upFrom]
  | succ k ih =>
    intro acc lo
    rw [Combinatoric.mulUp, ih, upFrom_prod_succ']; ring

theorem denomLoop_eq : ∀ (l : List IntRange) (acc : Int), Combinatoric.denomLoop acc l = acc * prodL l := by
  intro l
  induction l with
  | nil => intro acc; simp [Combinatoric.denomLoop]
  | cons r l ih =>
    intro acc
    rw [Combinatoric.denomLoop, ih, mulUp_eq, prodL_cons]
    have : r.prod = (upFrom r.lo r.size).prod := rfl
    rw [this]; ring

theorem resolve_spec (c : Combinatoric) (hne : NonEmptyL c.ds) (hz : NoZeroL c.ds) :
    c.resolve = .ok (Num.canon ((prodL c.ns : Rat) / (prodL c.ds : Rat))) := by
  obtain ⟨res, dstk, e, p, n1, z1⟩ := resolveNs_spec c.ns 1 c.ds.reverse
    (nonEmptyL_reverse.mpr hne) (noZeroL_reverse.mpr hz)
  unfold Combinatoric.resolve
  rw [e]
  simp only [denomLoop_eq, one_mul, prodL_reverse]
  have hd : prodL dstk ≠ 0 := prodL_ne_zero z1
  simp only [Num.fractionDivide, hd, if_false, simplify_frac]
  congr 2
  have h1 : ((prodL dstk : Int) : Rat) ≠ 0 := by exact_mod_cast hd
  have h2 : ((prodL c.ds : Int) : Rat) ≠ 0 := by exact_mod_cast prodL_ne_zero hz
  rw [div_eq_div_iff h1 h2]
  rw [prodL_reverse, one_mul] at p
  exact_mod_cast p

/-! ### factorial and binomial coefficient -/

theorem factN_eq (n : Nat) : factN n = n.factorial := by
  induction n with
  | zero => rfl
  | succ n ih => rw [factN, ih, Nat.factorial_succ]

theorem chooseN_eq (n k : Nat) : chooseN n k = n.choose k := by
  unfold chooseN
  by_cases h : k ≤ n
  · simp only [h, if_true, factN_eq]; exact (Nat.choose_eq_factorial_div_factorial h).symm
  · simp only [h, if_false]; exact (Nat.choose_eq_zero_of_lt (by omega)).symm

theorem upFrom_two_prod (k : Nat) : (upFrom 2 k).prod = ((k + 1).factorial : Int) := by
  induction k with
  | zero => simp [upFrom]
  | succ k ih =>
    rw [upFrom_prod_succ, ih, Nat.factorial_succ (k + 1)]
    push_cast; ring

theorem prod_two (m : Int) : (⟨2, m⟩ : IntRange).prod = (m.toNat.factorial : Int) := by
  by_cases h : m < 2
  · rw [prod_of_empty _ (by simpa using h)]
    have : m.toNat = 0 ∨ m.toNat = 1 := by omega
    rcases this with h0 | h0 <;> simp [h0]
  · have hs : (⟨2, m⟩ : IntRange).size = m.toNat - 1 := by simp only [size]; omega
    have h1 : m.toNat - 1 + 1 = m.toNat := by omega
    show (upFrom 2 (⟨2, m⟩ : IntRange).size).prod = _
    rw [hs, upFrom_two_prod, h1]

theorem prodL_filter_nonEmpty (l : List IntRange) : prodL (l.filter (fun r => !r.isEmpty)) = prodL l := by
  induction l with
  | nil => rfl
  | cons r l ih =>
    by_cases he : r.isEmpty = true
    · have : r.prod = 1 := prod_of_empty r (by simpa [isEmpty] using he)
      simp [List.filter, he, ih, this]
    · have he' : r.isEmpty = false := by
        cases hb : r.isEmpty with
        | false => rfl
        | true => exact absurd hb he
      simp [List.filter, he', ih]

/-! ### meaning of values -/

/-- the ranges a reachable Combinatoric has: all non-empty, no zero divisor -/
def Good (c : Combinatoric) : Prop := NonEmptyL c.ns ∧ NonEmptyL c.ds ∧ NoZeroL c.ds

/-- `v` stands for the rational `q`: a plain number is its canonical form, a lazy value is well-formed
    and its quotient of products is `q` -/
def Sem : CVal → Rat → Prop
  | .num v, q => v = Num.canon q
  | .comb c, q => Good c ∧ c.val = q

theorem val_eq_zero_iff {c : Combinatoric} (h : Good c) : c.val = 0 ↔ ¬ NoZeroL c.ns := by
  unfold Combinatoric.val
  have hd : ((prodL c.ds : Int) : Rat) ≠ 0 := by exact_mod_cast prodL_ne_zero h.2.2
  rw [div_eq_zero_iff, ← prodL_eq_zero_iff]
  constructor
  · rintro (h0 | h0)
    · exact_mod_cast h0
    · exact absurd h0 hd
  · intro h0; left; exact_mod_cast h0

theorem lazyFactorial_sem (n : Int) : Sem (lazyFactorial n) ((n.toNat.factorial : Nat) : Rat) := by
  unfold lazyFactorial
  by_cases h : n < 2
  · simp only [h, if_true, Sem]
    have : n.toNat = 0 ∨ n.toNat = 1 := by omega
    rcases this with h0 | h0 <;> rw [h0] <;> exact (canon_of_intCast_eq _ 1 (by simp)).symm
  · simp only [h, if_false, Sem]
    refine ⟨⟨?_, nonEmptyL_nil, noZeroL_nil⟩, ?_⟩
    · intro r hr; simp at hr; subst hr; simp; omega
    · simp only [Combinatoric.val, prodL_cons, prodL_nil, mul_one, prod_two]
      simp

theorem lazyChoose_sem (n k : Int) :
    Sem (lazyChoose n k) (if n < 0 ∨ k < 0 then 0 else ((n.toNat.choose k.toNat : Nat) : Rat)) := by
  unfold lazyChoose
  by_cases h : k > n ∨ n < 0 ∨ k < 0
  · simp only [h, if_true, Sem]
    by_cases h2 : n < 0 ∨ k < 0
    · simp only [h2, if_true]; exact (canon_of_intCast_eq _ 0 (by simp)).symm
    · simp only [h2, if_false]
      have : n.toNat.choose k.toNat = 0 := Nat.choose_eq_zero_of_lt (by omega)
      rw [this]; exact (canon_of_intCast_eq _ 0 (by simp)).symm
  · have h2 : ¬ (n < 0 ∨ k < 0) := by omega
    rw [if_neg h, if_neg h2]
    simp only [Sem]
    have hkn : k.toNat ≤ n.toNat := by omega
    refine ⟨⟨?_, ?_, ?_⟩, ?_⟩
    · intro r hr
      by_cases hn : n < 2
      · simp [hn] at hr
      · simp [hn] at hr; subst hr; simp; omega
    · intro r hr
      simp only [List.mem_filter, Bool.not_eq_true', isEmpty, decide_eq_false_iff_not] at hr
      omega
    · intro r hr
      simp only [List.mem_filter, List.mem_cons, List.mem_nil_iff, or_false] at hr
      rcases hr.1 with rfl | rfl <;> simp
    · simp only [Combinatoric.val, prodL_filter_nonEmpty, prodL_cons, prodL_nil, mul_one, prod_two]
      have hns : prodL (if n < 2 then [] else [(⟨2, n⟩ : IntRange)]) = (n.toNat.factorial : Int) := by
        by_cases hn : n < 2
        · simp only [hn, if_true, prodL_nil]
          have : n.toNat = 0 ∨ n.toNat = 1 := by omega
          rcases this with h0 | h0 <;> simp [h0]
        · simp only [hn, if_false, prodL_cons, prodL_nil, mul_one, prod_two]
      rw [hns]
      have hsub : (n - k).toNat = n.toNat - k.toNat := by omega
      rw [hsub]
      have hc := Nat.choose_mul_factorial_mul_factorial hkn
      have hk0 : ((k.toNat.factorial : Nat) : Rat) ≠ 0 := by exact_mod_cast Nat.factorial_ne_zero _
      have hnk0 : (((n.toNat - k.toNat).factorial : Nat) : Rat) ≠ 0 := by exact_mod_cast Nat.factorial_ne_zero _
      push_cast
      rw [div_eq_iff (mul_ne_zero hk0 hnk0)]
      have : ((n.toNat.choose k.toNat * k.toNat.factorial * (n.toNat - k.toNat).factorial : Nat) : Rat)
          = ((n.toNat.factorial : Nat) : Rat) := by rw [hc]
      push_cast at this
      linear_combination -this

/-- `coerce_to(x, Number)`, `reduce_result`, `resolve_lazy`: a value that stands for `q` is delivered
    as the canonical form of `q` -/
theorem coerceNumber_sem {v : CVal} {q : Rat} (h : Sem v q) : coerceNumber v = .ok (Num.canon q) := by
  cases v with
  | num x => simp only [Sem] at h; simp [coerceNumber, h]
  | comb c =>
    obtain ⟨⟨h1, h2, h3⟩, hv⟩ := h
    simp only [coerceNumber, resolve_spec c h2 h3]
    rw [← hv]; rfl

/-! ### the six overloads -/

theorem getRatio_canon (y : Rat) : getRatio (Num.canon y) = (y.num, (y.den : Int)) := by
  rcases canon_cases y with ⟨hd, hc, _⟩ | ⟨_, hc⟩
  · rw [hc]; simp [getRatio, hd]
  · rw [hc]; rfl

theorem isRational_canon (y : Rat) : isRational (Num.canon y) = true := by
  unfold Num.canon; split <;> rfl

theorem combTimesFrac_spec (c : Combinatoric) (f : Num) (q : Rat)
    (hf : getRatio f = (q.num, (q.den : Int))) (h1 : NonEmptyL c.ns) (h2 : NonEmptyL c.ds) :
    (¬ NoZeroL c.ds → combTimesFrac c f = .error .divZero) ∧
    (NoZeroL c.ds → ∃ r, combTimesFrac c f = .ok r ∧ Good r ∧ r.val = c.val * q) := by
  unfold combTimesFrac
  rw [hf]
  simp only
  have hden : (0 : Int) < (q.den : Int) := by exact_mod_cast q.den_pos
  have n1 : NonEmptyL (if q.num = 1 then [] else [(⟨q.num, q.num⟩ : IntRange)]) := by
    intro r hr; split at hr <;> simp at hr; subst hr; simp
  have n2 : NonEmptyL (if (q.den : Int) = 1 then [] else [(⟨(q.den : Int), (q.den : Int)⟩ : IntRange)]) := by
    intro r hr; split at hr <;> simp at hr; subst hr; simp
  have z2 : NoZeroL (if (q.den : Int) = 1 then [] else [(⟨(q.den : Int), (q.den : Int)⟩ : IntRange)]) := by
    intro r hr; split at hr <;> simp at hr; subst hr; simp only; omega
  have p1 : prodL (if q.num = 1 then [] else [(⟨q.num, q.num⟩ : IntRange)]) = q.num := by
    split
    · rename_i h; simp [h]
    · simp [prod_point]
  have p2 : prodL (if (q.den : Int) = 1 then [] else [(⟨(q.den : Int), (q.den : Int)⟩ : IntRange)]) = (q.den : Int) := by
    split
    · rename_i h; simp [h]
    · simp [prod_point]
  constructor
  · intro hz
    exact mul_zero_divisor c _ _ (fun h => hz (noZeroL_append.mp h).1)
  · intro hz
    have hz' := noZeroL_append.mpr ⟨hz, z2⟩
    obtain ⟨r, hr, g1, g2, g3, hp⟩ := mul_ok c _ _ h1 h2 n1 n2 hz'
    refine ⟨r, hr, ⟨g1, g2, g3⟩, ?_⟩
    rw [val_of_mul_eq (prodL_ne_zero hz') g3 hp]
    simp only [prodL_append, p1, p2, Combinatoric.val]
    push_cast
    rw [mul_div_mul_comm, Rat.num_div_den]

theorem sem_mul_comb_comb {c1 c2 : Combinatoric} {x y : Rat} (h1 : Good c1 ∧ c1.val = x) (h2 : Good c2 ∧ c2.val = y) :
    ∃ r, c1.mul c2.ns c2.ds = .ok r ∧ Good r ∧ r.val = x * y := by
  obtain ⟨⟨a1, a2, a3⟩, hx⟩ := h1
  obtain ⟨⟨b1, b2, b3⟩, hy⟩ := h2
  have hz := noZeroL_append.mpr ⟨a3, b3⟩
  obtain ⟨r, hr, g1, g2, g3, hp⟩ := mul_ok c1 _ _ a1 a2 b1 b2 hz
  refine ⟨r, hr, ⟨g1, g2, g3⟩, ?_⟩
  rw [val_of_mul_eq (prodL_ne_zero hz) g3 hp, ← hx, ← hy]
  simp only [prodL_append, Combinatoric.val]
  push_cast
  rw [mul_div_mul_comm]

theorem sem_div_comb_comb {c1 c2 : Combinatoric} {x y : Rat} (h1 : Good c1 ∧ c1.val = x) (h2 : Good c2 ∧ c2.val = y) :
    (y = 0 → c1.mul c2.ds c2.ns = .error .divZero) ∧
    (y ≠ 0 → ∃ r, c1.mul c2.ds c2.ns = .ok r ∧ Good r ∧ r.val = x / y) := by
  obtain ⟨⟨a1, a2, a3⟩, hx⟩ := h1
  obtain ⟨hg2, hy⟩ := h2
  have hzero := val_eq_zero_iff hg2
  obtain ⟨b1, b2, b3⟩ := hg2
  rw [hy] at hzero
  constructor
  · intro h0
    exact mul_zero_divisor c1 _ _ (fun h => (hzero.mp h0) (noZeroL_append.mp h).2)
  · intro h0
    have zn : NoZeroL c2.ns := by by_contra hc; exact h0 (hzero.mpr hc)
    have hz := noZeroL_append.mpr ⟨a3, zn⟩
    obtain ⟨r, hr, g1, g2, g3, hp⟩ := mul_ok c1 _ _ a1 a2 b2 b1 hz
    refine ⟨r, hr, ⟨g1, g2, g3⟩, ?_⟩
    rw [val_of_mul_eq (prodL_ne_zero hz) g3 hp, ← hx, ← hy]
    simp only [prodL_append, Combinatoric.val]
    push_cast
    rw [div_div_div_eq]

theorem applyMul_sem {a b : CVal} {x y : Rat} (ha : Sem a x) (hb : Sem b y) :
    ∃ v, applyMul a b = .ok v ∧ Sem v (x * y) := by
  cases a with
  | num u =>
    cases b with
    | num w =>
      simp only [Sem] at ha hb; subst ha; subst hb
      refine ⟨.num (Num.canon (x * y)), ?_, rfl⟩
      simp only [applyMul, binop_lin_canon .mul (Or.inr (Or.inr rfl)) x y, liftNum]
    | comb c =>
      simp only [Sem] at ha; subst ha
      obtain ⟨hg, hv⟩ := hb
      obtain ⟨r, hr, gr, vr⟩ := (combTimesFrac_spec c (Num.canon x) x (getRatio_canon x) hg.1 hg.2.1).2 hg.2.2
      refine ⟨.comb r, ?_, gr, ?_⟩
      · simp only [applyMul, isRational_canon, if_true, fracTimesComb, hr, liftComb]
      · rw [vr, hv, mul_comm]
  | comb c =>
    cases b with
    | num w =>
      simp only [Sem] at hb; subst hb
      obtain ⟨hg, hv⟩ := ha
      obtain ⟨r, hr, gr, vr⟩ := (combTimesFrac_spec c (Num.canon y) y (getRatio_canon y) hg.1 hg.2.1).2 hg.2.2
      refine ⟨.comb r, ?_, gr, ?_⟩
      · simp only [applyMul, isRational_canon, if_true, hr, liftComb]
      · rw [vr, hv]
    | comb c2 =>
      obtain ⟨r, hr, gr, vr⟩ := sem_mul_comb_comb ha hb
      exact ⟨.comb r, by simp only [applyMul, combTimesComb, hr, liftComb], gr, vr⟩

theorem applyDiv_sem {a b : CVal} {x y : Rat} (ha : Sem a x) (hb : Sem b y) :
    (y = 0 → applyDiv a b = .error .divZero) ∧
    (y ≠ 0 → ∃ v, applyDiv a b = .ok v ∧ Sem v (x / y)) := by
  cases a with
  | num u =>
    cases b with
    | num w =>
      simp only [Sem] at ha hb; subst ha; subst hb
      constructor
      · intro h0; simp only [applyDiv, binop_div_canon, h0, if_true, liftNum]
      · intro h0
        exact ⟨.num (Num.canon (x / y)), by simp only [applyDiv, binop_div_canon, h0, if_false, liftNum], rfl⟩
    | comb c =>
      simp only [Sem] at ha; subst ha
      obtain ⟨hg, hv⟩ := hb
      have hzero := val_eq_zero_iff hg
      rw [hv] at hzero
      have spec := combTimesFrac_spec ⟨c.ds, c.ns⟩ (Num.canon x) x (getRatio_canon x) hg.2.1 hg.1
      constructor
      · intro h0
        simp only [applyDiv, isRational_canon, if_true, fracDivComb, spec.1 (hzero.mp h0), liftComb]
      · intro h0
        have zn : NoZeroL c.ns := by by_contra hc; exact h0 (hzero.mpr hc)
        obtain ⟨r, hr, gr, vr⟩ := spec.2 zn
        refine ⟨.comb r, by simp only [applyDiv, isRational_canon, if_true, fracDivComb, hr, liftComb], gr, ?_⟩
        rw [vr, ← hv]
        simp only [Combinatoric.val]
        rw [div_div_eq_mul_div, mul_comm, mul_div_assoc]
  | comb c =>
    cases b with
    | num w =>
      simp only [Sem] at hb; subst hb
      obtain ⟨hg, hv⟩ := ha
      constructor
      · intro h0
        simp only [applyDiv, isRational_canon, if_true, combDivFrac, toRat_canon, h0, liftComb]
      · intro h0
        obtain ⟨r, hr, gr, vr⟩ := (combTimesFrac_spec c (.frac (1 / y)) (1 / y) rfl hg.1 hg.2.1).2 hg.2.2
        refine ⟨.comb r, by simp only [applyDiv, isRational_canon, if_true, combDivFrac, toRat_canon, h0, if_false, hr, liftComb], gr, ?_⟩
        rw [vr, hv, mul_one_div]
    | comb c2 =>
      obtain ⟨e0, e1⟩ := sem_div_comb_comb ha hb
      constructor
      · intro h0; simp only [applyDiv, combDivComb, e0 h0, liftComb]
      · intro h0
        obtain ⟨r, hr, gr, vr⟩ := e1 h0
        exact ⟨.comb r, by simp only [applyDiv, combDivComb, hr, liftComb], gr, vr⟩

/-! ### expression trees -/

theorem simplify_litValue (m : Nat) (e : Int) :
    Num.simplify (litValue m e) = .ok (Num.canon (if e < 0 then (m : Rat) / (10 : Rat) ^ (-e).toNat
                                                    else (m : Rat) * (10 : Rat) ^ e.toNat)) := by
  unfold litValue
  by_cases he : e < 0
  · simp only [he, if_true, simplify_frac]; congr 2; field_simp
  · simp only [he, if_false, simplify_int]
    rw [canon_of_intCast_eq]; push_cast; rfl

theorem evalC_sem (e : CExp) :
    (∀ q, eager e = some q → ∃ v, evalC e = .ok v ∧ Sem v q) ∧
    (eager e = none → evalC e = .error .divZero) := by
  induction e with
  | int z =>
    refine ⟨?_, by simp [eager]⟩
    intro q hq; simp only [eager, Option.some.injEq] at hq; subst hq
    exact ⟨.num (.int z), rfl, (canon_intCast z).symm⟩
  | sci m e =>
    refine ⟨?_, by simp [eager]⟩
    intro q hq; simp only [eager, Option.some.injEq] at hq; subst hq
    refine ⟨.num (Num.canon (if e < 0 then (m : Rat) / (10 : Rat) ^ (-e).toNat else (m : Rat) * (10 : Rat) ^ e.toNat)), ?_, rfl⟩
    simp only [evalC, simplify_litValue, liftNum]
  | fact n =>
    refine ⟨?_, by simp [eager]⟩
    intro q hq; simp only [eager, Option.some.injEq] at hq; subst hq
    refine ⟨lazyFactorial n, rfl, ?_⟩
    rw [factN_eq]; exact lazyFactorial_sem n
  | choose n k =>
    refine ⟨?_, by simp [eager]⟩
    intro q hq; simp only [eager, Option.some.injEq] at hq; subst hq
    refine ⟨lazyChoose n k, rfl, ?_⟩
    rw [chooseN_eq]; exact lazyChoose_sem n k
  | mul a b iha ihb =>
    cases hea : eager a with
    | none =>
      refine ⟨by simp [eager, hea], fun _ => ?_⟩
      simp only [evalC, iha.2 hea]
    | some x =>
      obtain ⟨va, eva, sa⟩ := iha.1 x hea
      cases heb : eager b with
      | none =>
        refine ⟨by simp [eager, hea, heb], fun _ => ?_⟩
        simp only [evalC, eva, ihb.2 heb]
      | some y =>
        obtain ⟨vb, evb, sb⟩ := ihb.1 y heb
        refine ⟨?_, by simp [eager, hea, heb]⟩
        intro q hq; simp only [eager, hea, heb, Option.some.injEq] at hq; subst hq
        obtain ⟨v, hv, sv⟩ := applyMul_sem sa sb
        exact ⟨v, by simp only [evalC, eva, evb, hv], sv⟩
  | div a b iha ihb =>
    cases hea : eager a with
    | none =>
      refine ⟨by simp [eager, hea], fun _ => ?_⟩
      simp only [evalC, iha.2 hea]
    | some x =>
      obtain ⟨va, eva, sa⟩ := iha.1 x hea
      cases heb : eager b with
      | none =>
        refine ⟨by simp [eager, hea, heb], fun _ => ?_⟩
        simp only [evalC, eva, ihb.2 heb]
      | some y =>
        obtain ⟨vb, evb, sb⟩ := ihb.1 y heb
        obtain ⟨d0, d1⟩ := applyDiv_sem sa sb
        by_cases hy : y = 0
        · refine ⟨by simp [eager, hea, heb, hy], fun _ => ?_⟩
          simp only [evalC, eva, evb, d0 hy]
        · refine ⟨?_, by simp [eager, hea, heb, hy]⟩
          intro q hq; simp only [eager, hea, heb, hy, if_false, Option.some.injEq] at hq; subst hq
          obtain ⟨v, hv, sv⟩ := d1 hy
          exact ⟨v, by simp only [evalC, eva, evb, hv], sv⟩

end KaVerif.Comb
