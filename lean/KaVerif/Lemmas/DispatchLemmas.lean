import KaVerif.Model.Dispatch
import Mathlib.Data.List.Perm.Basic
import Mathlib.Data.List.Basic

namespace KaVerif.Dispatch

variable (sub : Nat → Nat → Bool)

/-- the left scan of `get_closest_match` -/
def scan (c : Sig) (xs : List Sig) : Sig :=
  xs.foldl (fun c x => if typesBelow sub x c then x else c) c

theorem closest_cons (h : Sig) (t : List Sig) : closest sub (h :: t) = some (scan sub h t) := rfl

theorem scan_stays (m : Sig) (xs : List Sig)
    (huniq : ∀ x ∈ xs, typesBelow sub x m = true → x = m) : scan sub m xs = m := by
  induction xs with
  | nil => rfl
  | cons x t ih =>
    unfold scan; simp only [List.foldl_cons]
    have ht : ∀ y ∈ t, typesBelow sub y m = true → y = m :=
      fun y hy => huniq y (List.mem_cons_of_mem _ hy)
    by_cases hb : typesBelow sub x m = true
    · have := huniq x List.mem_cons_self hb
      subst this; simp only [hb, if_true]; exact ih ht
    · simp only [hb]; exact ih ht

theorem scan_reaches (m c : Sig) (xs : List Sig) (hm : m ∈ xs)
    (hleast : typesBelow sub m c = true ∧ ∀ x ∈ xs, typesBelow sub m x = true)
    (huniq : ∀ x ∈ xs, typesBelow sub x m = true → x = m) : scan sub c xs = m := by
  induction xs generalizing c with
  | nil => cases hm
  | cons x t ih =>
    unfold scan; simp only [List.foldl_cons]
    have ht : ∀ y ∈ t, typesBelow sub y m = true → y = m :=
      fun y hy => huniq y (List.mem_cons_of_mem _ hy)
    have hlt : ∀ y ∈ t, typesBelow sub m y = true := fun y hy => hleast.2 y (List.mem_cons_of_mem _ hy)
    by_cases hxm : x = m
    · subst hxm
      simp only [hleast.1, if_true]
      exact scan_stays sub x t ht
    · have hmt : m ∈ t := by
        rcases List.mem_cons.mp hm with h | h
        · exact absurd h.symm hxm
        · exact h
      by_cases hb : typesBelow sub x c = true
      · simp only [hb, if_true]
        exact ih x hmt ⟨hleast.2 x List.mem_cons_self, hlt⟩ ht
      · simp only [hb]
        exact ih c hmt ⟨hleast.1, hlt⟩ ht

/-- **the scan lemma**: a unique least element is what `get_closest_match` returns,
    wherever it sits in the list. -/
theorem closest_of_uniqueLeast (l : List Sig) (m : Sig) (hm : m ∈ l)
    (hleast : ∀ x ∈ l, typesBelow sub m x = true)
    (huniq : ∀ x ∈ l, typesBelow sub x m = true → x = m) : closest sub l = some m := by
  cases l with
  | nil => cases hm
  | cons h t =>
    rw [closest_cons]; congr 1
    have ht : ∀ y ∈ t, typesBelow sub y m = true → y = m :=
      fun y hy => huniq y (List.mem_cons_of_mem _ hy)
    rcases List.mem_cons.mp hm with heq | hmt
    · subst heq; exact scan_stays sub m t ht
    · exact scan_reaches sub m h t hmt
        ⟨hleast h List.mem_cons_self, fun y hy => hleast y (List.mem_cons_of_mem _ hy)⟩ ht

theorem uniqueLeast_iff (l : List Sig) (m : Sig) :
    uniqueLeast sub l m = true ↔
      m ∈ l ∧ (∀ x ∈ l, typesBelow sub m x = true) ∧ (∀ x ∈ l, typesBelow sub x m = true → x = m) := by
  unfold uniqueLeast
  simp only [Bool.and_eq_true, List.contains_iff_mem, List.all_eq_true, Bool.or_eq_true,
    Bool.not_eq_true', beq_iff_eq]
  constructor
  · rintro ⟨⟨h1, h2⟩, h3⟩
    refine ⟨h1, h2, fun x hx hb => ?_⟩
    rcases h3 x hx with h | h
    · rw [hb] at h; cases h
    · exact h
  · rintro ⟨h1, h2, h3⟩
    refine ⟨⟨h1, h2⟩, fun x hx => ?_⟩
    by_cases hb : typesBelow sub x m = true
    · right; exact h3 x hx hb
    · left; simpa using hb

/-- order-independence: a permutation of the list has the same unique least element -/
theorem closest_perm (l l' : List Sig) (hp : l.Perm l') (m : Sig) (h : uniqueLeast sub l m = true) :
    closest sub l' = some m := by
  rw [uniqueLeast_iff] at h
  obtain ⟨hm, hl, hu⟩ := h
  exact closest_of_uniqueLeast sub l' m (hp.mem_iff.mp hm)
    (fun x hx => hl x (hp.mem_iff.mpr hx)) (fun x hx => hu x (hp.mem_iff.mpr hx))

theorem applicable_perm (inst : Nat → Nat → Bool) (l l' : List Sig) (hp : l.Perm l') (args : List Nat) :
    (applicable inst l args).Perm (applicable inst l' args) := hp.filter _

theorem mem_tuples (k : Nat) (args : List Nat) (h : ∀ a ∈ args, a < k) :
    args ∈ tuples k args.length := by
  induction args with
  | nil => simp [tuples]
  | cons a t ih =>
    simp only [List.length_cons, tuples, List.mem_flatMap, List.mem_range, List.mem_map]
    refine ⟨a, h a List.mem_cons_self, t, ih (fun b hb => h b (List.mem_cons_of_mem _ hb)), rfl⟩

/-- the positional loop consumes exactly `pos.length` arguments -/
theorem matchPos_length (inst : Nat → Nat → Bool) (pos args rest : List Nat)
    (h : matchPos inst pos args = some rest) : args.length = pos.length + rest.length := by
  induction pos generalizing args with
  | nil => simp only [matchPos, Option.some.injEq] at h; subst h; simp
  | cons t ts ih =>
    cases args with
    | nil => simp [matchPos] at h
    | cons a as =>
      simp only [matchPos] at h
      split at h
      · have := ih as h; simp only [List.length_cons]; omega
      · cases h

/-- longer argument lists are accepted by vararg signatures only -/
theorem long_args_need_vararg (inst : Nat → Nat → Bool) (s : Sig) (args : List Nat)
    (hlen : s.pos.length < args.length) (hm : sigMatches inst s args = true) : s.vararg.isSome = true := by
  unfold sigMatches at hm
  split at hm
  · cases hm
  · rename_i rest hr
    have hl := matchPos_length inst _ _ _ hr
    have hne : rest.isEmpty = false := by
      cases rest with
      | nil => simp at hl; omega
      | cons _ _ => rfl
    rw [hne, Bool.false_or] at hm
    split at hm
    · rename_i v hv; simp [hv]
    · cases hm

end KaVerif.Dispatch
