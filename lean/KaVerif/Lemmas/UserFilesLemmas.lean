import KaVerif.Model.UserFilesGen
/-
  Lemmas for C19 (optional per-user files fail soft).  No Mathlib needed.
-/
namespace KaVerif.UserFiles

/-! ## What the proofs need from the generated `try/except` table -/

/-- The protection the soft-fail argument needs: which site must catch what.  `genGuard_soft` shows that the
    table generated from the source provides it; every theorem below holds for any table that does. -/
structure Soft (G : Guards) : Prop where
  cfgInt : caught (G .cfgInt) .valueError = true
  cfgOpen : caught (G .cfgOpen) .permission = true
  cfgRead : caught (G .cfgReadlines) .osOther = true
  curOpen : ∀ e, caught (G .curOpen) e = true
  curRead : ∀ e, caught (G .curRead) e = true
  curParse : ∀ e, caught (G .curParse) e = true
  histOpen : ∀ e, caught (G .histOpen) e = true
  histRead : ∀ e, caught (G .histReadlines) e = true
  addHistory : caught (G .addHistory) .valueError = true
  saveOpenAppend : ∀ e, caught (G .saveOpenAppend) e = true
  saveWriteAppend : ∀ e, caught (G .saveWriteAppend) e = true
  saveMakedirs : ∀ e, caught (G .saveMakedirs) e = true
  saveOpenNew : ∀ e, caught (G .saveOpenNew) e = true
  saveWriteNew : ∀ e, caught (G .saveWriteNew) e = true

theorem genGuard_soft : Soft genGuard := by
  constructor <;> first | decide | (intro e; cases e <;> decide)

/-! ## Config dict -/

theorem Config.get?_set (c : Config) (k' k : Str) (v : CfgVal) :
    (c.set k' v).get? k = if k' = k then some v else c.get? k := by
  induction c with
  | nil => simp [Config.set, Config.get?]
  | cons p r ih =>
    obtain ⟨a, b⟩ := p
    by_cases h : a = k'
    · subst h
      by_cases h2 : a = k <;> simp [Config.set, Config.get?, h2]
    · by_cases h2 : a = k
      · subst h2
        have : ¬ k' = a := fun e => h e.symm
        simp [Config.set, Config.get?, h, this]
      · simp [Config.set, Config.get?, h, h2, ih]

/-! ## read_config -/

/-- the value line `l` assigns to key `k`, if it is a valid setting of `k` -/
def lineSets (G : Guards) (props : List CfgProp) (l : Str) (k : Str) : Option CfgVal :=
  match processLine G props l with
  | .set k' v => if k' = k then some v else none
  | _ => none

/-- the value the LAST valid line for key `k` assigns -/
def lastSet (G : Guards) (props : List CfgProp) : List Str → Str → Option CfgVal
  | [], _ => none
  | l :: ls, k =>
    match lastSet G props ls k with
    | some v => some v
    | none => lineSets G props l k

theorem processLine_no_crash {G : Guards} (h : caught (G .cfgInt) .valueError = true) (props : List CfgProp) (l : Str)
    (e : Exn) : processLine G props l ≠ .crash e := by
  unfold processLine
  simp only [h, if_true]
  cases splitFirst cEq l with
  | none => simp
  | some p =>
    obtain ⟨a, b⟩ := p
    simp only []
    cases lookupProp props (strip a) with
    | none => simp
    | some prop =>
      simp only []
      cases hn : prop.num <;> cases hb : prop.boolean <;> cases pyInt (strip b) <;>
        simp only [Bool.false_eq_true, if_true, if_false] <;> (repeat' split) <;> simp

theorem readConfigLines_spec {G : Guards} (h : caught (G .cfgInt) .valueError = true) (props : List CfgProp) :
    ∀ (lines : List Str) (c : Config), ∃ c' ws, readConfigLines G props lines c = .ok (c', ws) ∧
      ∀ k, c'.get? k = match lastSet G props lines k with
        | some v => some v
        | none => c.get? k := by
  intro lines
  induction lines with
  | nil => intro c; exact ⟨c, [], rfl, fun k => by simp [lastSet]⟩
  | cons l ls ih =>
    intro c
    unfold readConfigLines
    cases hp : processLine G props l with
    | skip =>
      obtain ⟨c', ws, h1, h2⟩ := ih c
      refine ⟨c', ws, by simpa using h1, fun k => ?_⟩
      rw [h2 k]
      simp only [lastSet, lineSets, hp]
      cases lastSet G props ls k <;> rfl
    | set k' v =>
      obtain ⟨c', ws, h1, h2⟩ := ih (c.set k' v)
      refine ⟨c', ws, by simpa using h1, fun k => ?_⟩
      rw [h2 k]
      simp only [lastSet, lineSets, hp]
      cases lastSet G props ls k with
      | some x => rfl
      | none => simp [Config.get?_set]; split <;> rfl
    | warn w =>
      obtain ⟨c', ws, h1, h2⟩ := ih c
      refine ⟨c', w :: ws, by simp [h1], fun k => ?_⟩
      rw [h2 k]
      simp only [lastSet, lineSets, hp]
      cases lastSet G props ls k <;> rfl
    | crash e => exact absurd hp (processLine_no_crash h props l e)

theorem lastSet_append (G : Guards) (props : List CfgProp) (a b : List Str) (k : Str) :
    lastSet G props (a ++ b) k = match lastSet G props b k with
      | some v => some v
      | none => lastSet G props a k := by
  induction a with
  | nil => simp [lastSet]; cases lastSet G props b k <;> rfl
  | cons l ls ih =>
    simp only [List.cons_append, lastSet, ih]
    cases lastSet G props b k <;> rfl

theorem lastSet_none_of_no_line (G : Guards) (props : List CfgProp) (ls : List Str) (k : Str)
    (h : ∀ l ∈ ls, ∀ v, processLine G props l ≠ .set k v) : lastSet G props ls k = none := by
  induction ls with
  | nil => rfl
  | cons l ls ih =>
    have h1 := ih (fun l' hl' => h l' (List.mem_cons_of_mem _ hl'))
    simp only [lastSet, h1, lineSets]
    have h2 := h l List.mem_cons_self
    split
    · rename_i k' v hp
      by_cases hk : k' = k
      · subst hk; exact absurd hp (h2 v)
      · simp [hk]
    · rfl

/-! ## line structure of a text -/

/-- the text whose lines are `ls`, each terminated by a newline -/
def joinLines : List Str → Str
  | [] => []
  | l :: ls => l ++ cNL :: joinLines ls

theorem readlines_line (l rest : Str) (h : cNL ∉ l) :
    readlines (l ++ cNL :: rest) = (l ++ [cNL]) :: readlines rest := by
  induction l with
  | nil => simp [readlines]
  | cons c cs ih =>
    have hc : c ≠ cNL := fun e => h (by simp [e])
    have hcs : cNL ∉ cs := fun m => h (List.mem_cons_of_mem _ m)
    simp [readlines, hc, ih hcs]

theorem readlines_tail (l : Str) (h : cNL ∉ l) : readlines l = if l = [] then [] else [l] := by
  induction l with
  | nil => simp [readlines]
  | cons c cs ih =>
    have hc : c ≠ cNL := fun e => h (by simp [e])
    have hcs : cNL ∉ cs := fun m => h (List.mem_cons_of_mem _ m)
    simp only [readlines, hc, if_false, ih hcs]
    by_cases hn : cs = [] <;> simp [hn]

theorem readlines_joinLines (ls : List Str) (tail : Str) (h : ∀ l ∈ ls, cNL ∉ l) (ht : cNL ∉ tail) :
    readlines (joinLines ls ++ tail) = ls.map (· ++ [cNL]) ++ (if tail = [] then [] else [tail]) := by
  induction ls with
  | nil => simpa [joinLines] using readlines_tail tail ht
  | cons l ls ih =>
    have := ih (fun l' hl' => h l' (List.mem_cons_of_mem _ hl'))
    simp only [joinLines, List.append_assoc, List.cons_append, List.map_cons]
    rw [readlines_line l _ (h l List.mem_cons_self), this]

/-! ## split on the first separator -/

theorem splitFirst_append (sep : Nat) (k v : Str) (h : sep ∉ k) :
    splitFirst sep (k ++ sep :: v) = some (k, v) := by
  induction k with
  | nil => simp [splitFirst]
  | cons c cs ih =>
    have hc : c ≠ sep := fun e => h (by simp [e])
    have hcs : sep ∉ cs := fun m => h (List.mem_cons_of_mem _ m)
    simp [splitFirst, hc, ih hcs]

/-! ## registration -/

theorem append_sPlural_ne (name : Str) : name ++ sPlural ≠ name := by
  intro h
  have := congrArg List.length h
  simp [sPlural] at this

theorem registerUnit_ok (r : Reg) (sym name : Str) (row : Cur)
    (h1 : r.names.contains name = false) (h2 : r.names.contains (name ++ sPlural) = false)
    (h3 : r.syms.contains sym = false) : ∃ r', registerUnit r sym name row = .ok r' := by
  unfold registerUnit
  simp only [h1, h3]
  by_cases hp : name ++ sPlural = noPlural
  · simp [hp]
  · have hne : (name ++ sPlural == name) = false := by
      simpa using append_sPlural_ne name
    have hc : (name :: r.names).contains (name ++ sPlural) = false := by
      rw [List.contains_cons, hne, h2]; rfl
    simp only [hp, if_false, hc]
    exact ⟨_, rfl⟩

theorem registerGuarded_ok (ss : List (Str × Str)) (r : Reg) (sym name : Str) (c : Cur) :
    ∃ r', registerGuarded ss r sym name c = .ok r' := by
  unfold registerGuarded
  split
  · exact ⟨r, rfl⟩
  · rename_i hg
    simp only [Bool.or_eq_true, not_or, Bool.not_eq_true] at hg
    obtain ⟨⟨g1, g2⟩, g3⟩ := hg
    obtain ⟨r1, hr1⟩ := registerUnit_ok r _ _ c g1 g2 g3
    simp only [hr1]
    split
    · exact ⟨r1, rfl⟩
    · split
      · exact ⟨r1, rfl⟩
      · rename_i hg2
        simp only [Bool.or_eq_true, not_or, Bool.not_eq_true] at hg2
        obtain ⟨⟨q1, q2⟩, q3⟩ := hg2
        exact registerUnit_ok r1 _ _ c q1 q2 q3

theorem registerRow_ok (nfkd : Str → Str) (sn ss : List (Str × Str)) (r : Reg) (c : Cur) :
    ∃ r', registerRow nfkd sn ss r c = .ok r' := by
  unfold registerRow
  split
  · exact ⟨r, rfl⟩
  · simp only []
    split
    · exact ⟨r, rfl⟩
    · exact registerGuarded_ok ss r _ _ c

theorem registerAll_ok (nfkd : Str → Str) (sn ss : List (Str × Str)) :
    ∀ (t : Table) (r : Reg), ∃ r', registerAll nfkd sn ss r t = .ok r' := by
  intro t
  induction t with
  | nil => intro r; exact ⟨r, rfl⟩
  | cons c cs ih =>
    intro r
    obtain ⟨r1, h1⟩ := registerRow_ok nfkd sn ss r c
    simp only [registerAll, h1]
    exact ih r1

/-! ## history -/

theorem readlineLoadHistory_spec {G : Guards} (hG : caught (G .addHistory) .valueError = true) (ls : List Str) :
    readlineLoadHistory G ls = .ok ((ls.map strip).filter (fun l => !l.contains 0)) := by
  induction ls with
  | nil => rfl
  | cons l ls ih =>
    unfold readlineLoadHistory
    by_cases h : 0 ∈ strip l
    · simp [h, hG, ih]
    · simp [h, ih]

/-! ## base currency -/

theorem baseCurrency_mem (configured dflt : Str) (t : Table) (b : Str) (h : baseCurrency configured dflt t = some b) :
    hasCurrency b t = true := by
  unfold baseCurrency at h
  split at h
  · rename_i h1; cases h; exact h1
  · split at h
    · rename_i h2; cases h; exact h2
    · cases h

end KaVerif.UserFiles
