import KaVerif.Model.Sample
import Mathlib.Data.Rat.Floor
import Mathlib.Tactic.Ring
import Mathlib.Tactic.Linarith
import Mathlib.Tactic.FieldSimp
import Mathlib.Tactic.Positivity
/-
  Helper lemmas for C18 (sampling as a pure function of the draw stream).
-/
namespace KaVerif.Sample

/-! ### single-draw samplers -/

theorem floor_eq (x : Rat) : x.floor = ⌊x⌋ := rfl
theorem ceil_eq (x : Rat) : x.ceil = ⌈x⌉ := by
  rw [Rat.ceil_eq_neg_floor_neg, floor_eq, Int.floor_neg, neg_neg]

theorem bernoulli_cases (p u : Rat) : bernoulli p u = 0 ∨ bernoulli p u = 1 := by
  unfold bernoulli; split <;> simp

theorem bernoulli_eq_one (p u : Rat) : bernoulli p u = 1 ↔ u < p := by
  unfold bernoulli; split <;> simp [*]

theorem bernoulli_nonneg (p u : Rat) : 0 ≤ bernoulli p u := by
  rcases bernoulli_cases p u with h | h <;> omega

theorem bernoulli_le_one (p u : Rat) : bernoulli p u ≤ 1 := by
  rcases bernoulli_cases p u with h | h <;> omega

/-- the count `hi - lo + 1` as a rational is at least 1 -/
theorem uniformInt_width (lo hi : Int) (h : lo ≤ hi) : (1 : Rat) ≤ ((hi - lo + 1 : Int) : Rat) := by
  have : (1 : Int) ≤ hi - lo + 1 := by omega
  exact_mod_cast this

/-- the unclamped value `lo + ⌊u·(hi-lo+1)⌋ = ⌊lo + u·(hi-lo+1)⌋` already lies in `[lo, hi]` for `u ∈ [0,1)` -/
theorem uniformInt_raw_mem (lo hi : Int) (h : lo ≤ hi) (u : Rat) (h0 : 0 ≤ u) (h1 : u < 1) :
    lo ≤ lo + (u * ((hi - lo + 1 : Int) : Rat)).floor ∧ lo + (u * ((hi - lo + 1 : Int) : Rat)).floor ≤ hi := by
  have hw := uniformInt_width lo hi h
  have hf0 : 0 ≤ (u * ((hi - lo + 1 : Int) : Rat)).floor := by
    rw [floor_eq, Int.le_floor]
    have : 0 ≤ u * ((hi - lo + 1 : Int) : Rat) := mul_nonneg h0 (by linarith)
    simpa using this
  have hf1 : (u * ((hi - lo + 1 : Int) : Rat)).floor < hi - lo + 1 := by
    rw [floor_eq, Int.floor_lt]
    have hlt : u * ((hi - lo + 1 : Int) : Rat) < 1 * ((hi - lo + 1 : Int) : Rat) :=
      mul_lt_mul_of_pos_right h1 (by linarith)
    linarith
  constructor <;> omega

/-- for `u ∈ [0,1)` the clamp is inactive and the sampler is `⌊lo + u·(hi-lo+1)⌋` (the formula of the
    code before fix 2bc01ee, and the textbook inverse transform) -/
theorem uniformInt_eq_floor (lo hi : Int) (h : lo ≤ hi) (u : Rat) (h0 : 0 ≤ u) (h1 : u < 1) :
    uniformInt lo hi u = ((lo : Rat) + u * ((hi - lo + 1 : Int) : Rat)).floor := by
  have hm := uniformInt_raw_mem lo hi h u h0 h1
  unfold uniformInt
  rw [floor_eq, floor_eq, Int.floor_intCast_add, ← floor_eq]
  omega

theorem uniformInt_le_iff (lo hi : Int) (h : lo ≤ hi) (u : Rat) (h0 : 0 ≤ u) (h1 : u < 1) (t : Int) :
    uniformInt lo hi u ≤ t ↔ (lo : Rat) + u * ((hi - lo + 1 : Int) : Rat) < (t : Rat) + 1 := by
  rw [uniformInt_eq_floor lo hi h u h0 h1, floor_eq, ← Int.lt_add_one_iff, Int.floor_lt]
  push_cast; rfl

theorem uniformInt_mem (lo hi : Int) (h : lo ≤ hi) (u : Rat) (h0 : 0 ≤ u) (h1 : u < 1) :
    lo ≤ uniformInt lo hi u ∧ uniformInt lo hi u ≤ hi := by
  have hm := uniformInt_raw_mem lo hi h u h0 h1
  unfold uniformInt
  constructor <;> omega

theorem uniform_mem (lo hi u : Rat) (h : lo ≤ hi) (h0 : 0 ≤ u) (h1 : u < 1) :
    lo ≤ uniform lo hi u ∧ uniform lo hi u ≤ hi := by
  unfold uniform
  have hd : 0 ≤ hi - lo := by linarith
  constructor
  · have := mul_nonneg h0 hd; linarith
  · have : u * (hi - lo) ≤ 1 * (hi - lo) := mul_le_mul_of_nonneg_right (le_of_lt h1) hd
    linarith

theorem uniform_lt_hi (lo hi u : Rat) (h : lo < hi) (h1 : u < 1) : uniform lo hi u < hi := by
  unfold uniform
  have : u * (hi - lo) < 1 * (hi - lo) := mul_lt_mul_of_pos_right h1 (by linarith)
  linarith

theorem exponential_nonneg (ln : Rat → Rat) (hln : ∀ x, 0 < x → x ≤ 1 → ln x ≤ 0)
    (lam u : Rat) (hl : 0 < lam) (h0 : 0 ≤ u) (h1 : u < 1) : 0 ≤ exponential ln lam u := by
  unfold exponential exponentialG
  have := hln (1 - u) (by linarith) (by linarith)
  exact div_nonneg (by linarith) (le_of_lt hl)

theorem geometric_ge_one (ln : Rat → Rat) (hln : ∀ x, 0 < x → x < 1 → ln x < 0)
    (p u : Rat) (hp0 : 0 < p) (hp1 : p < 1) (h0 : 0 < u) (h1 : u < 1) : 1 ≤ geometric ln p u := by
  unfold geometric geometricG
  have ha := hln (1 - u) (by linarith) (by linarith)
  have hb := hln (1 - p) (by linarith) (by linarith)
  have : 0 < ln (1 - u) / ln (1 - p) := div_pos_of_neg_of_neg ha hb
  rw [ceil_eq]
  exact Int.one_le_ceil_iff.mpr this

/-! ### Poisson scan -/

theorem fact_pos (n : Nat) : 0 < fact n := by
  induction n with
  | zero => simp [fact]
  | succ n ih => simp only [fact]; positivity

theorem poissonPmf_nonneg (mu E : Rat) (hmu : 0 ≤ mu) (hE : 0 ≤ E) (k : Nat) : 0 ≤ poissonPmf mu E k := by
  unfold poissonPmf
  have : (0 : Rat) < (fact k : Rat) := by exact_mod_cast fact_pos k
  positivity

theorem poissonCdf_mono (mu E : Rat) (hmu : 0 ≤ mu) (hE : 0 ≤ E) {j k : Nat} (h : j ≤ k) :
    poissonCdf mu E j ≤ poissonCdf mu E k := by
  induction k with
  | zero => have : j = 0 := by omega
            subst this; exact le_refl _
  | succ k ih =>
    rcases Nat.lt_or_ge j (k + 1) with hlt | hge
    · have := ih (by omega)
      have hp := poissonPmf_nonneg mu E hmu hE (k + 1)
      simp only [poissonCdf]; linarith
    · have : j = k + 1 := by omega
      subst this; exact le_refl _

/-- the accumulator the loop holds when it is entered with counter `k` -/
def poissonAcc (mu E : Rat) : Nat → Rat
  | 0 => 0
  | k + 1 => poissonCdf mu E k

theorem poissonAcc_step (mu E : Rat) (k : Nat) :
    poissonAcc mu E k + poissonPmf mu E k = poissonCdf mu E k := by
  cases k with
  | zero => simp [poissonAcc, poissonCdf]
  | succ k => simp [poissonAcc, poissonCdf]

/-- the scan entered at counter `k` with the right accumulator returns the least `m ≥ k` within
    the fuel whose cdf exceeds `u` -/
theorem poissonScan_spec (mu E u : Rat) : ∀ (fuel k : Nat) (m : Nat),
    poissonScan mu E u fuel k (poissonAcc mu E k) = some m ↔
      (k ≤ m ∧ m < k + fuel ∧ u < poissonCdf mu E m ∧ ∀ j, k ≤ j → j < m → poissonCdf mu E j ≤ u) := by
  intro fuel
  induction fuel with
  | zero => intro k m; simp [poissonScan]; intro h1 h2; omega
  | succ fuel ih =>
    intro k m
    simp only [poissonScan, poissonAcc_step]
    by_cases hgt : poissonCdf mu E k > u
    · simp only [hgt, if_true, Option.some.injEq]
      constructor
      · intro h; subst h
        exact ⟨le_refl _, by omega, hgt, fun j h1 h2 => by omega⟩
      · rintro ⟨h1, _, _, h4⟩
        rcases Nat.lt_or_ge k m with hlt | hge
        · have := h4 k (le_refl _) hlt
          exact absurd hgt (not_lt.mpr this)
        · omega
    · simp only [hgt, if_false]
      have hacc : poissonCdf mu E k = poissonAcc mu E (k + 1) := rfl
      rw [hacc, ih (k + 1) m]
      have hle : poissonCdf mu E k ≤ u := not_lt.mp hgt
      constructor
      · rintro ⟨h1, h2, h3, h4⟩
        refine ⟨by omega, by omega, h3, fun j hj1 hj2 => ?_⟩
        rcases Nat.lt_or_ge k j with hlt | hge
        · exact h4 j hlt hj2
        · have : j = k := by omega
          subst this; exact hle
      · rintro ⟨h1, h2, h3, h4⟩
        have hne : k ≠ m := by
          intro h; subst h; exact absurd h3 (not_lt.mpr hle)
        exact ⟨by omega, by omega, h3, fun j hj1 hj2 => h4 j (by omega) hj2⟩

theorem poisson_spec (mu E u : Rat) (fuel m : Nat) :
    poisson mu E fuel u = some m ↔
      (m < fuel ∧ u < poissonCdf mu E m ∧ ∀ j, j < m → poissonCdf mu E j ≤ u) := by
  unfold poisson
  have h := poissonScan_spec mu E u fuel 0 m
  have hacc : poissonAcc mu E 0 = 0 := rfl
  rw [hacc] at h
  rw [h]
  constructor
  · rintro ⟨_, a, b, c⟩; exact ⟨by omega, b, fun j hj => c j (Nat.zero_le j) hj⟩
  · rintro ⟨a, b, c⟩; exact ⟨Nat.zero_le m, by omega, b, fun j _ hj => c j hj⟩

/-! ### how the generator moves -/

theorem binomial_gen (p : Rat) : ∀ (n : Nat) (g : Gen),
    (binomial p n g).2 = { us := g.us, i := g.i + n } := by
  intro n
  induction n with
  | zero => intro g; simp [binomial]
  | succ n ih =>
    intro g
    simp only [binomial, unit]
    rw [ih]
    simp; omega

theorem binomial_range (p : Rat) : ∀ (n : Nat) (g : Gen),
    0 ≤ (binomial p n g).1 ∧ (binomial p n g).1 ≤ n := by
  intro n
  induction n with
  | zero => intro g; simp [binomial]
  | succ n ih =>
    intro g
    simp only [binomial, unit]
    have h := ih { us := g.us, i := g.i + 1 }
    have h0 := bernoulli_nonneg p (g.us g.i)
    have h1 := bernoulli_le_one p (g.us g.i)
    push_cast
    constructor <;> omega

/-- the Binomial count reads only the `n` draws from the current position on -/
theorem binomial_local (p : Rat) : ∀ (n : Nat) (g g' : Gen), g.i = g'.i →
    (∀ j, g.i ≤ j → j < g.i + n → g.us j = g'.us j) → (binomial p n g).1 = (binomial p n g').1 := by
  intro n
  induction n with
  | zero => intro g g' _ _; simp [binomial]
  | succ n ih =>
    intro g g' hi h
    simp only [binomial, unit]
    have h0 : g.us g.i = g'.us g'.i := by rw [← hi]; exact h g.i (le_refl _) (by omega)
    have := ih { us := g.us, i := g.i + 1 } { us := g'.us, i := g'.i + 1 } (by simp [hi])
      (fun j hj1 hj2 => h j (by simp at hj1; omega) (by simp at hj2; omega))
    rw [h0, this]

theorem sample_gen (F : Fns) (d : Dist) (g : Gen) :
    (d.sample F g).2 = { us := g.us, i := g.i + d.cost } := by
  cases d with
  | binomial n p => simp only [Dist.sample, Dist.cost]; rw [binomial_gen]
  | geometric p =>
    simp only [Dist.sample, Dist.cost]
    split <;> simp [unit]
  | _ => simp [Dist.sample, Dist.cost, unit]

theorem sample_local (F : Fns) (d : Dist) (g g' : Gen) (hi : g.i = g'.i)
    (h : ∀ j, g.i ≤ j → j < g.i + d.cost → g.us j = g'.us j) : (d.sample F g).1 = (d.sample F g').1 := by
  have h0 : d.cost ≥ 1 → g.us g.i = g'.us g'.i := fun hc => by
    rw [← hi]; exact h g.i (le_refl _) (by omega)
  cases d with
  | binomial n p =>
    simp only [Dist.sample]
    rw [binomial_local p n.toNat g g' hi (by simpa [Dist.cost] using h)]
  | geometric p =>
    simp only [Dist.sample]
    split
    · rfl
    · rename_i hp
      simp only [unit]; rw [h0 (by simp [Dist.cost, hp])]
  | _ => simp only [Dist.sample, unit]; rw [h0 (by simp [Dist.cost])]

theorem sampleMany_gen (F : Fns) (d : Dist) : ∀ (n : Nat) (g : Gen),
    (sampleMany F d n g).2 = { us := g.us, i := g.i + n * d.cost } := by
  intro n
  induction n with
  | zero => intro g; simp [sampleMany]
  | succ n ih =>
    intro g
    simp only [sampleMany]
    rw [ih, sample_gen]
    simp; ring

theorem sampleMany_length (F : Fns) (d : Dist) : ∀ (n : Nat) (g : Gen),
    (sampleMany F d n g).1.length = n := by
  intro n
  induction n with
  | zero => intro g; simp [sampleMany]
  | succ n ih => intro g; simp only [sampleMany, List.length_cons]; rw [ih]

theorem sampleMany_local (F : Fns) (d : Dist) : ∀ (n : Nat) (g g' : Gen), g.i = g'.i →
    (∀ j, g.i ≤ j → j < g.i + n * d.cost → g.us j = g'.us j) →
    (sampleMany F d n g).1 = (sampleMany F d n g').1 := by
  intro n
  induction n with
  | zero => intro g g' _ _; simp [sampleMany]
  | succ n ih =>
    intro g g' hi h
    simp only [sampleMany]
    have hs := sample_local F d g g' hi (fun j h1 h2 => h j h1 (by
      have : d.cost ≤ (n + 1) * d.cost := Nat.le_mul_of_pos_left _ (by omega)
      omega))
    have hr := ih (d.sample F g).2 (d.sample F g').2 (by simp [sample_gen, hi])
      (fun j h1 h2 => by
        simp only [sample_gen] at h1 h2 ⊢
        exact h j (by omega) (by
          have : (n + 1) * d.cost = n * d.cost + d.cost := by ring
          omega))
    rw [hs, hr]

/-- every sample in `sampleMany` satisfies a predicate that every single sample satisfies -/
theorem sampleMany_forall (F : Fns) (d : Dist) (P : Option Rat → Prop)
    (hP : ∀ g : Gen, P (d.sample F g).1) : ∀ (n : Nat) (g : Gen), ∀ x ∈ (sampleMany F d n g).1, P x := by
  intro n
  induction n with
  | zero => intro g x hx; simp [sampleMany] at hx
  | succ n ih =>
    intro g x hx
    simp only [sampleMany, List.mem_cons] at hx
    rcases hx with rfl | hx
    · exact hP g
    · exact ih _ x hx

/-! ### histories -/

theorem run_nil (seeded : Int → Draws) (F : Fns) (g : Gen) : run seeded F [] g = ([], g) := rfl

theorem run_cons (seeded : Int → Draws) (F : Fns) (op : Op) (ops : List Op) (g : Gen) :
    run seeded F (op :: ops) g =
      ((op.run seeded F g).1 :: (run seeded F ops (op.run seeded F g).2).1,
       (run seeded F ops (op.run seeded F g).2).2) := rfl

theorem run_append (seeded : Int → Draws) (F : Fns) : ∀ (a b : List Op) (g : Gen),
    run seeded F (a ++ b) g =
      ((run seeded F a g).1 ++ (run seeded F b (run seeded F a g).2).1,
       (run seeded F b (run seeded F a g).2).2) := by
  intro a
  induction a with
  | nil => intro b g; simp [run_nil]
  | cons op a ih => intro b g; simp only [List.cons_append, run_cons, ih]

theorem run_length (seeded : Int → Draws) (F : Fns) : ∀ (ops : List Op) (g : Gen),
    (run seeded F ops g).1.length = ops.length := by
  intro ops
  induction ops with
  | nil => intro g; rfl
  | cons op ops ih => intro g; simp only [run_cons, List.length_cons, ih]

def Op.isSeed : Op → Bool
  | .seed _ => true
  | _ => false

/-- total number of draws of a seed-free history -/
def totalCost : List Op → Nat
  | [] => 0
  | op :: ops => op.cost + totalCost ops

theorem totalCost_append (a b : List Op) : totalCost (a ++ b) = totalCost a + totalCost b := by
  induction a with
  | nil => simp [totalCost]
  | cons op a ih => simp only [List.cons_append, totalCost, ih]; ring

theorem op_gen (seeded : Int → Draws) (F : Fns) (op : Op) (h : op.isSeed = false) (g : Gen) :
    (op.run seeded F g).2 = { us := g.us, i := g.i + op.cost } := by
  cases op with
  | rand => simp [Op.run, Op.cost, unit]
  | seed k => simp [Op.isSeed] at h
  | sample d => simp only [Op.run, Op.cost]; exact sample_gen F d g
  | sampleN d n => simp only [Op.run, Op.cost]; exact sampleMany_gen F d n.toNat g

theorem op_local (seeded : Int → Draws) (F : Fns) (op : Op) (g g' : Gen) (hi : g.i = g'.i)
    (h : ∀ j, g.i ≤ j → j < g.i + op.cost → g.us j = g'.us j) :
    (op.run seeded F g).1 = (op.run seeded F g').1 := by
  cases op with
  | rand =>
    simp only [Op.run, unit]
    rw [← hi, h g.i (le_refl _) (by simp [Op.cost])]
  | seed k => rfl
  | sample d => simp only [Op.run]; rw [sample_local F d g g' hi h]
  | sampleN d n => simp only [Op.run]; rw [sampleMany_local F d n.toNat g g' hi h]

theorem run_gen (seeded : Int → Draws) (F : Fns) : ∀ (ops : List Op) (_ : ops.all (fun o => !o.isSeed) = true)
    (g : Gen), (run seeded F ops g).2 = { us := g.us, i := g.i + totalCost ops } := by
  intro ops
  induction ops with
  | nil => intro _ g; simp [run_nil, totalCost]
  | cons op ops ih =>
    intro h g
    simp only [List.all_cons, Bool.and_eq_true, Bool.not_eq_true'] at h
    rw [run_cons]
    simp only
    rw [ih (by simpa using h.2), op_gen seeded F op h.1]
    simp [totalCost]; ring

theorem run_local (seeded : Int → Draws) (F : Fns) : ∀ (ops : List Op) (_ : ops.all (fun o => !o.isSeed) = true)
    (g g' : Gen), g.i = g'.i → (∀ j, g.i ≤ j → j < g.i + totalCost ops → g.us j = g'.us j) →
    (run seeded F ops g).1 = (run seeded F ops g').1 := by
  intro ops
  induction ops with
  | nil => intro _ g g' _ _; rfl
  | cons op ops ih =>
    intro hs g g' hi h
    simp only [List.all_cons, Bool.and_eq_true, Bool.not_eq_true'] at hs
    rw [run_cons, run_cons]
    simp only
    have h1 := op_local seeded F op g g' hi (fun j a b => h j a (by simp only [totalCost]; omega))
    have h2 := ih (by simpa using hs.2) (op.run seeded F g).2 (op.run seeded F g').2
      (by rw [op_gen seeded F op hs.1, op_gen seeded F op hs.1]; simp [hi])
      (fun j a b => by
        rw [op_gen seeded F op hs.1] at a b ⊢
        rw [op_gen seeded F op hs.1]
        simp only at a b ⊢
        exact h j (by omega) (by simp only [totalCost]; omega))
    rw [h1, h2]

/-! ### vocabulary of the property statements (Props/C18.lean) -/

/-- the support of each distribution, as a predicate on the delivered number -/
def Dist.inSupport : Dist → ℚ → Prop
  | .binomial n _, x => ∃ k : ℤ, x = k ∧ 0 ≤ k ∧ k ≤ n
  | .poisson _, x => ∃ k : ℤ, x = k ∧ 0 ≤ k
  | .geometric _, x => ∃ k : ℤ, x = k ∧ 1 ≤ k
  | .bernoulli _, x => x = 0 ∨ x = 1
  | .uniformInt lo hi, x => ∃ k : ℤ, x = k ∧ lo ≤ k ∧ k ≤ hi
  | .exponential _, x => 0 ≤ x
  | .uniform lo hi, x => lo ≤ x ∧ x ≤ hi
  | .gaussian _ _, _ => True

/-- a delivered value is in the support; "no value" only as the Poisson scan's fuel bound -/
def Dist.okVal (d : Dist) : Option ℚ → Prop
  | some x => d.inSupport x
  | none => ∃ mu, d = .poisson mu

/-- the sign laws of the natural logarithm on (0,1] that the samplers rely on -/
structure LnLaws (F : Fns) : Prop where
  nonpos : ∀ x, 0 < x → x ≤ 1 → F.ln x ≤ 0
  neg : ∀ x, 0 < x → x < 1 → F.ln x < 0

/-- every draw of the stream lies in the open interval (0,1) (`u = 0` has probability 2⁻⁵³ and is
    the documented corner where `Geometric.sample` returns 0) -/
def GoodDraws (us : Draws) : Prop := ∀ j, 0 < us j ∧ us j < 1

def Op.validOp : Op → Bool
  | .sample d => d.valid
  | .sampleN d _ => d.valid
  | _ => true

/-- what the property demands of the result of one operation -/
def Op.okRes : Op → Res → Prop
  | .rand, .num (some x) => 0 ≤ x ∧ x < 1
  | .seed _, .none => True
  | .sample d, .num v => d.okVal v
  | .sampleN d n, .arr xs => xs.length = n.toNat ∧ ∀ v ∈ xs, d.okVal v
  | _, _ => False


end KaVerif.Sample
