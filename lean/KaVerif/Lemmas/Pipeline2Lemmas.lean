import KaVerif.Lemmas.EvalLemmas
import KaVerif.Model.Compare
import KaVerif.Model.Execute
import KaVerif.Gen.Exec
/-
  Helper lemmas for Props/Pipeline2.lean: further refinement lemmas between the unified pipeline
  model (`Model/Eval.lean`) and the per-topic fragments (Compare, Comb, Quantity, Elementary, Array,
  Display, Lexer, Parser, Execute).  Own namespace `KaVerif.Pipe2`; nothing here edits or shadows a
  definition of `KaVerif.Eval`.  No Mathlib.

  Proof style: every dispatch fact is "one table fact (kernel `decide` over the generated registry)
  + `dispatchV_step` + unfolding the registered body", so that an extension of `Eval.lean` that
  adds constructors / table rows leaves these proofs alone.
-/
namespace KaVerif.Pipe2
open KaVerif Num Parser Eval

/-! ### generic plumbing -/

def tNum : Nat := tNumber
def tQty : Nat := tQuantity
def tComb : Nat := Gen.Registry.typeNames.idxOf "Combinatoric"
def tRational : Nat := Gen.Registry.typeNames.idxOf "Rational"
def tInt : Nat := tIntegral
def tAny : Nat := Gen.Registry.typeNames.idxOf "Any(=object)"

/-- a `Chosen` with a modelled body -/
def chP (pos : List Nat) (desc : String) (code : BodyCode) : Chosen := ⟨pos, none, desc, some code⟩

/-- the failure of a resolution, if it fails -/
def errOf {ε α : Type} : Except ε α → Option ε
  | .error e => some e
  | .ok _ => none

theorem errOf_eq_some {ε α : Type} {x : Except ε α} {e : ε} (h : errOf x = some e) : x = .error e := by
  cases x with
  | ok v => simp [errOf] at h
  | error e' => simp [errOf] at h; subst h; rfl

/-- `coerce_to` only touches lazy combinatorics -/
def notComb : Val → Bool
  | .comb _ => false
  | _ => true

theorem coerceTo_notComb (v : Val) (t : Nat) (h : notComb v = true) : coerceTo v t = .ok v := by
  cases v <;> first | rfl | simp [notComb] at h

theorem coerceArgs_1 (t1 : Nat) (a : Val) (ha : notComb a = true) :
    coerceArgs [t1] none [a] = .ok [a] := by
  simp [coerceArgs, coerceTo_notComb a t1 ha, bind, Except.bind]

theorem coerceArgs_2 (t1 t2 : Nat) (a b : Val) (ha : notComb a = true) (hb : notComb b = true) :
    coerceArgs [t1, t2] none [a, b] = .ok [a, b] := by
  simp [coerceArgs, coerceTo_notComb a t1 ha, coerceTo_notComb b t2 hb, bind, Except.bind]

theorem coerceArgs_3 (t1 t2 t3 : Nat) (a b c : Val) (ha : notComb a = true) (hb : notComb b = true)
    (hc : notComb c = true) : coerceArgs [t1, t2, t3] none [a, b, c] = .ok [a, b, c] := by
  simp [coerceArgs, coerceTo_notComb a t1 ha, coerceTo_notComb b t2 hb, coerceTo_notComb c t3 hc, bind, Except.bind]

/-- one `dispatch` step for a call without lazy arguments and without vararg: body, then `simplify_type` -/
theorem step1 {n : Nat} {name : String} {a : Val} {t1 : Nat} {desc : String} {code : BodyCode}
    (h : (resolveDesc name [classOf a] []).toOption = some (chP [t1] desc code)) (ha : notComb a = true) :
    dispatchV (n + 1) name [a] [] = (code.run (fun nm as => dispatchV n nm as []) [a] >>= simplifyVal) := by
  rw [dispatchV_step (c := chP [t1] desc code) (code := code) (by simpa using h) rfl]
  simp only [chP, coerceArgs_1 t1 a ha, bind, Except.bind]

theorem step2 {n : Nat} {name : String} {a b : Val} {t1 t2 : Nat} {desc : String} {code : BodyCode}
    (h : (resolveDesc name [classOf a, classOf b] []).toOption = some (chP [t1, t2] desc code))
    (ha : notComb a = true) (hb : notComb b = true) :
    dispatchV (n + 1) name [a, b] [] = (code.run (fun nm as => dispatchV n nm as []) [a, b] >>= simplifyVal) := by
  rw [dispatchV_step (c := chP [t1, t2] desc code) (code := code) (by simpa using h) rfl]
  simp only [chP, coerceArgs_2 t1 t2 a b ha hb, bind, Except.bind]

/-- a resolution failure is the failure of `dispatch` -/
theorem dispatchV_err {n : Nat} {name : String} {args : List Val} {e : Dispatch.DErr}
    (h : errOf (resolveDesc name (args.map classOf) []) = some e) :
    dispatchV (n + 1) name args [] = raise (derr e) := by
  simp only [dispatchV, kwIds_nil, errOf_eq_some h]

/-! ### C09: comparisons -/

/-- registered name of a comparison of the C09 fragment -/
def cmpOpName : Compare.CmpOp → String
  | .lt => "<" | .le => "<=" | .eq => "==" | .ne => "!=" | .gt => ">" | .ge => ">="

/-- the parser's operator for a comparison of the C09 fragment -/
def pcmpOf : Compare.CmpOp → PCmp
  | .lt => .lt | .le => .leq | .eq => .eq | .ne => .neq | .gt => .gt | .ge => .geq

theorem spelling_pcmpOf (op : Compare.CmpOp) : (pcmpOf op).spelling = cmpOpName op := by
  cases op <;> rfl

/-- **Table fact.** `>` and `>=` on every pair of numeric kinds (the other four are in `num_table2`). -/
theorem cmp_table_num : ∀ a ∈ kinds3, ∀ b ∈ kinds3,
    (resolveDesc ">" [a, b] []).toOption = some (ch2 ">|(Number, Number)|ka.functions.intify.<locals>.f_new[_operator.gt]" (.cmp ">")) ∧
    (resolveDesc ">=" [a, b] []).toOption = some (ch2 ">=|(Number, Number)|ka.functions.intify.<locals>.f_new[_operator.ge]" (.cmp ">=")) := by
  decide +kernel

/-- the six comparisons on two numbers, by table -/
theorem cmp_num_resolve (op : Compare.CmpOp) (x y : Num) :
    ∃ desc, (resolveDesc (cmpOpName op) [numClass x, numClass y] []).toOption = some (ch2 desc (.cmp (cmpOpName op))) := by
  have t := num_table2 _ (numClass_mem x) _ (numClass_mem y)
  have u := cmp_table_num _ (numClass_mem x) _ (numClass_mem y)
  cases op
  · exact ⟨_, t.2.2.2.2.2.2.1⟩
  · exact ⟨_, t.2.2.2.2.2.2.2.1⟩
  · exact ⟨_, t.2.2.2.2.2.2.2.2.1⟩
  · exact ⟨_, t.2.2.2.2.2.2.2.2.2⟩
  · exact ⟨_, u.1⟩
  · exact ⟨_, u.2⟩

theorem b2v_cmpByName (op : Compare.CmpOp) (x y : Num) :
    b2v (cmpByName (cmpOpName op) x y) = .num (Compare.cmpNum op x y) := by
  cases op <;> rfl

/-- `dispatch` of a comparison name on two plain numbers is the C09 fragment's `cmpNum` -/
theorem dispatch_cmpNum (n : Nat) (op : Compare.CmpOp) (x y : Num) :
    dispatchV (n + 1) (cmpOpName op) [.num x, .num y] [] = .ok (.num (Compare.cmpNum op x y)) := by
  obtain ⟨desc, h⟩ := cmp_num_resolve op x y
  rw [dispatch_cmp n _ desc x y h, b2v_cmpByName]

theorem rnum_cmp (n : Nat) (op : Compare.CmpOp) (x y : Num) :
    rnum (fun nm as => dispatchV (n + 1) nm as []) (cmpOpName op) [x, y] = .ok (Compare.cmpNum op x y) := by
  simp only [rnum, List.map, dispatch_cmpNum n op x y, bind, Except.bind]

/-- **Table fact.** The six comparisons with a quantity on either or both sides: `register_quantities_op`'s
    `f` / `left_is_number` / `right_is_number` with the closure cells (name, no combiner, plain result). -/
theorem cmp_table_qty :
    (resolveDesc "<" [cQty, cQty] []).toOption = some (chP [tQty, tQty] "<|(Quantity, Quantity)|ka.functions.register_quantities_op.<locals>.f['<',None,False]" (.qtyQty "<" .same false)) ∧
    (resolveDesc "<=" [cQty, cQty] []).toOption = some (chP [tQty, tQty] "<=|(Quantity, Quantity)|ka.functions.register_quantities_op.<locals>.f['<=',None,False]" (.qtyQty "<=" .same false)) ∧
    (resolveDesc "==" [cQty, cQty] []).toOption = some (chP [tQty, tQty] "==|(Quantity, Quantity)|ka.functions.register_quantities_op.<locals>.f['==',None,False]" (.qtyQty "==" .same false)) ∧
    (resolveDesc "!=" [cQty, cQty] []).toOption = some (chP [tQty, tQty] "!=|(Quantity, Quantity)|ka.functions.register_quantities_op.<locals>.f['!=',None,False]" (.qtyQty "!=" .same false)) ∧
    (resolveDesc ">" [cQty, cQty] []).toOption = some (chP [tQty, tQty] ">|(Quantity, Quantity)|ka.functions.register_quantities_op.<locals>.f['>',None,False]" (.qtyQty ">" .same false)) ∧
    (resolveDesc ">=" [cQty, cQty] []).toOption = some (chP [tQty, tQty] ">=|(Quantity, Quantity)|ka.functions.register_quantities_op.<locals>.f['>=',None,False]" (.qtyQty ">=" .same false)) := by
  decide +kernel

theorem cmp_table_numqty : ∀ a ∈ kinds3,
    (resolveDesc "<" [a, cQty] []).toOption = some (chP [tNum, tQty] "<|(Number, Quantity)|ka.functions.register_quantities_op.<locals>.left_is_number[ka.functions.register_quantities_op.<locals>.f['<',None,False]]" (.numQty "<" .same false)) ∧
    (resolveDesc "<=" [a, cQty] []).toOption = some (chP [tNum, tQty] "<=|(Number, Quantity)|ka.functions.register_quantities_op.<locals>.left_is_number[ka.functions.register_quantities_op.<locals>.f['<=',None,False]]" (.numQty "<=" .same false)) ∧
    (resolveDesc "==" [a, cQty] []).toOption = some (chP [tNum, tQty] "==|(Number, Quantity)|ka.functions.register_quantities_op.<locals>.left_is_number[ka.functions.register_quantities_op.<locals>.f['==',None,False]]" (.numQty "==" .same false)) ∧
    (resolveDesc "!=" [a, cQty] []).toOption = some (chP [tNum, tQty] "!=|(Number, Quantity)|ka.functions.register_quantities_op.<locals>.left_is_number[ka.functions.register_quantities_op.<locals>.f['!=',None,False]]" (.numQty "!=" .same false)) ∧
    (resolveDesc ">" [a, cQty] []).toOption = some (chP [tNum, tQty] ">|(Number, Quantity)|ka.functions.register_quantities_op.<locals>.left_is_number[ka.functions.register_quantities_op.<locals>.f['>',None,False]]" (.numQty ">" .same false)) ∧
    (resolveDesc ">=" [a, cQty] []).toOption = some (chP [tNum, tQty] ">=|(Number, Quantity)|ka.functions.register_quantities_op.<locals>.left_is_number[ka.functions.register_quantities_op.<locals>.f['>=',None,False]]" (.numQty ">=" .same false)) := by
  decide +kernel

theorem cmp_table_qtynum : ∀ a ∈ kinds3,
    (resolveDesc "<" [cQty, a] []).toOption = some (chP [tQty, tNum] "<|(Quantity, Number)|ka.functions.register_quantities_op.<locals>.right_is_number[ka.functions.register_quantities_op.<locals>.f['<',None,False]]" (.qtyNum "<" .same false)) ∧
    (resolveDesc "<=" [cQty, a] []).toOption = some (chP [tQty, tNum] "<=|(Quantity, Number)|ka.functions.register_quantities_op.<locals>.right_is_number[ka.functions.register_quantities_op.<locals>.f['<=',None,False]]" (.qtyNum "<=" .same false)) ∧
    (resolveDesc "==" [cQty, a] []).toOption = some (chP [tQty, tNum] "==|(Quantity, Number)|ka.functions.register_quantities_op.<locals>.right_is_number[ka.functions.register_quantities_op.<locals>.f['==',None,False]]" (.qtyNum "==" .same false)) ∧
    (resolveDesc "!=" [cQty, a] []).toOption = some (chP [tQty, tNum] "!=|(Quantity, Number)|ka.functions.register_quantities_op.<locals>.right_is_number[ka.functions.register_quantities_op.<locals>.f['!=',None,False]]" (.qtyNum "!=" .same false)) ∧
    (resolveDesc ">" [cQty, a] []).toOption = some (chP [tQty, tNum] ">|(Quantity, Number)|ka.functions.register_quantities_op.<locals>.right_is_number[ka.functions.register_quantities_op.<locals>.f['>',None,False]]" (.qtyNum ">" .same false)) ∧
    (resolveDesc ">=" [cQty, a] []).toOption = some (chP [tQty, tNum] ">=|(Quantity, Number)|ka.functions.register_quantities_op.<locals>.right_is_number[ka.functions.register_quantities_op.<locals>.f['>=',None,False]]" (.qtyNum ">=" .same false)) := by
  decide +kernel

/-- number of base units of the generated unit table (length of every dimension vector the evaluator builds) -/
def nBase : Nat := Gen.Units.baseUnits.length

theorem zeroDim_eq : zeroDim = List.replicate nBase 0 := rfl

theorem replicate_zero_eq_iff (n : Nat) (d : List Int) :
    List.replicate n (0 : Int) = d ↔ (d.length = n ∧ d.all (· == 0) = true) := by
  induction n generalizing d with
  | zero =>
    cases d with
    | nil => simp
    | cons h t => simp
  | succ k ih =>
    cases d with
    | nil => simp
    | cons h t =>
      simp only [List.replicate_succ, List.cons.injEq, List.length_cons, Nat.add_right_cancel_iff, List.all_cons,
        Bool.and_eq_true, beq_iff_eq, ih t]
      constructor
      · rintro ⟨rfl, h1, h2⟩; exact ⟨h1, rfl, h2⟩
      · rintro ⟨h1, rfl, h2⟩; exact ⟨rfl, h1, h2⟩

/-- operands of the C09 fragment that exist in the unified evaluator: numbers, and quantities whose
    dimension vector has one entry per base unit (all the evaluator ever builds); instants are
    outside the unified model -/
def cmpOperand : Compare.CVal → Bool
  | .num _ => true
  | .qty _ d => d.length == nBase
  | .inst _ _ => false

/-- the unified evaluator's value for an operand of the C09 fragment -/
def cvVal : Compare.CVal → Val
  | .num x => .num x
  | .qty m d => .qty m d
  | .inst _ _ => .none

theorem simplify_cmpNum (op : Compare.CmpOp) (x y : Num) : simplify (Compare.cmpNum op x y) = .ok (Compare.cmpNum op x y) := by
  cases op <;> rfl

/-- `f(q1, q2)` of `register_quantities_op` for a comparison name (same dimension required, plain result) -/
theorem qtyF_cmp (n : Nat) (op : Compare.CmpOp) (x : Num) (dx : List Int) (y : Num) (dy : List Int) :
    (qtyF (fun nm as => dispatchV (n + 1) nm as []) (cmpOpName op) .same false x dx y dy >>= simplifyVal)
      = if dx = dy then .ok (.num (Compare.cmpNum op x y)) else raise .incompatible := by
  simp only [qtyF, rnum_cmp]
  by_cases hd : dx = dy
  · subst hd
    simp [pure, Except.pure, bind, Except.bind, simplifyVal, simplify_cmpNum, liftE, Except.map]
  · have : (dx != dy) = true := by simpa using hd
    simp [this, hd, raise, bind, Except.bind]

/-- **`dispatch` of a comparison name on two values of the C09 fragment is `Compare.dispatchCmp`.** -/
theorem dispatch_cmpVal (n : Nat) (op : Compare.CmpOp) (a b : Compare.CVal)
    (ha : cmpOperand a = true) (hb : cmpOperand b = true) :
    dispatchV (n + 2) (cmpOpName op) [cvVal a, cvVal b] [] = liftN (Compare.dispatchCmp op a b) := by
  cases a with
  | inst d u => simp [cmpOperand] at ha
  | num x =>
    cases b with
    | inst d u => simp [cmpOperand] at hb
    | num y => exact dispatch_cmpNum (n + 1) op x y
    | qty y dy =>
      have hlen : dy.length = nBase := by simpa [cmpOperand] using hb
      have t := cmp_table_numqty _ (numClass_mem x)
      have key : ∀ desc, (resolveDesc (cmpOpName op) [numClass x, cQty] []).toOption
            = some (chP [tNum, tQty] desc (.numQty (cmpOpName op) .same false)) →
          dispatchV (n + 2) (cmpOpName op) [.num x, .qty y dy] [] = liftN (Compare.dispatchCmp op (.num x) (.qty y dy)) := by
        intro desc h
        rw [step2 (a := .num x) (b := .qty y dy) h rfl rfl]
        simp only [BodyCode.run, bNumQty, qtyF_cmp, Compare.dispatchCmp, zeroDim_eq]
        by_cases hz : dy.all (· == 0) = true
        · have : List.replicate nBase (0 : Int) = dy := (replicate_zero_eq_iff _ _).2 ⟨hlen, hz⟩
          simp only [this, hz, if_true]; rfl
        · have : ¬ List.replicate nBase (0 : Int) = dy := fun h => hz ((replicate_zero_eq_iff _ _).1 h).2
          simp only [this, hz, if_false]; rfl
      simp only [cvVal]
      cases op
      · exact key _ t.1
      · exact key _ t.2.1
      · exact key _ t.2.2.1
      · exact key _ t.2.2.2.1
      · exact key _ t.2.2.2.2.1
      · exact key _ t.2.2.2.2.2
  | qty x dx =>
    cases b with
    | inst d u => simp [cmpOperand] at hb
    | num y =>
      have hlen : dx.length = nBase := by simpa [cmpOperand] using ha
      have t := cmp_table_qtynum _ (numClass_mem y)
      have key : ∀ desc, (resolveDesc (cmpOpName op) [cQty, numClass y] []).toOption
            = some (chP [tQty, tNum] desc (.qtyNum (cmpOpName op) .same false)) →
          dispatchV (n + 2) (cmpOpName op) [.qty x dx, .num y] [] = liftN (Compare.dispatchCmp op (.qty x dx) (.num y)) := by
        intro desc h
        rw [step2 (a := .qty x dx) (b := .num y) h rfl rfl]
        simp only [BodyCode.run, bQtyNum, qtyF_cmp, Compare.dispatchCmp, zeroDim_eq]
        by_cases hz : dx.all (· == 0) = true
        · have : dx = List.replicate nBase (0 : Int) := ((replicate_zero_eq_iff _ _).2 ⟨hlen, hz⟩).symm
          simp only [← this, hz, if_true]; rfl
        · have : ¬ dx = List.replicate nBase (0 : Int) := fun h => hz ((replicate_zero_eq_iff _ _).1 h.symm).2
          simp only [this, hz, if_false]; rfl
      simp only [cvVal]
      cases op
      · exact key _ t.1
      · exact key _ t.2.1
      · exact key _ t.2.2.1
      · exact key _ t.2.2.2.1
      · exact key _ t.2.2.2.2.1
      · exact key _ t.2.2.2.2.2
    | qty y dy =>
      have t := cmp_table_qty
      have key : ∀ desc, (resolveDesc (cmpOpName op) [cQty, cQty] []).toOption
            = some (chP [tQty, tQty] desc (.qtyQty (cmpOpName op) .same false)) →
          dispatchV (n + 2) (cmpOpName op) [.qty x dx, .qty y dy] [] = liftN (Compare.dispatchCmp op (.qty x dx) (.qty y dy)) := by
        intro desc h
        rw [step2 (a := .qty x dx) (b := .qty y dy) h rfl rfl]
        simp only [BodyCode.run, bQtyQty, qtyF_cmp, Compare.dispatchCmp]
        by_cases hd : dx = dy
        · simp only [hd, if_true]; rfl
        · simp only [hd, if_false]; rfl
      simp only [cvVal]
      cases op
      · exact key _ t.1
      · exact key _ t.2.1
      · exact key _ t.2.2.1
      · exact key _ t.2.2.2.1
      · exact key _ t.2.2.2.2.1
      · exact key _ t.2.2.2.2.2

/-- a comparison as the parser builds it (`make_comparison_node`: `>`/`>=` flipped, operands reversed),
    evaluated by the unified evaluator, is `Compare.evalCmp` -/
theorem evalE_mkCmp1 (env : Env) (op : Compare.CmpOp) (A B : Ast) (a b : Compare.CVal)
    (hA : evalE env A = .ok (cvVal a)) (hB : evalE env B = .ok (cvVal b))
    (ha : cmpOperand a = true) (hb : cmpOperand b = true) :
    evalE env (mkCmp1 (pcmpOf op) A B) = liftN (Compare.evalCmp op a b) := by
  cases op
  case gt =>
    simp only [mkCmp1, pcmpOf, PCmp.backward, PCmp.forward, PCmp.flip, Bool.not_false, Bool.and_true, if_true,
      evalE, hA, hB, bind, Except.bind, cmpName, Compare.evalCmp]
    exact dispatch_cmpVal _ .lt b a hb ha
  case ge =>
    simp only [mkCmp1, pcmpOf, PCmp.backward, PCmp.forward, PCmp.flip, Bool.not_false, Bool.and_true, if_true,
      evalE, hA, hB, bind, Except.bind, cmpName, Compare.evalCmp]
    exact dispatch_cmpVal _ .le b a hb ha
  all_goals
    simp only [mkCmp1, pcmpOf, PCmp.backward, PCmp.forward, Bool.false_and, Bool.false_eq_true, if_false,
      Bool.not_true, Bool.and_false, evalE, hA, hB, bind, Except.bind, cmpName, Compare.evalCmp]
    first
      | exact dispatch_cmpVal _ .lt a b ha hb
      | exact dispatch_cmpVal _ .le a b ha hb
      | exact dispatch_cmpVal _ .eq a b ha hb
      | exact dispatch_cmpVal _ .ne a b ha hb

/-- the six comparison operators of the parser (not `=` / `in`) -/
def cmp6 : List PCmp := [.eq, .neq, .lt, .gt, .leq, .geq]

example : cmpName .lt ++ "_" ++ cmpName .leq = "<_<=" := by decide

/-- **Table fact.** No double comparison `a op1 b op2 c` has an overload on three plain numbers
    (they exist for `Number op RandomVariable op Number` only): the name is unknown or no signature matches. -/
theorem chain_table : ∀ o1 ∈ cmp6, ∀ o2 ∈ cmp6, ∀ a ∈ kinds3, ∀ b ∈ kinds3, ∀ c ∈ kinds3,
    errOf (resolveDesc (cmpName o1 ++ "_" ++ cmpName o2) [a, b, c] []) = some .noMatch ∨
    errOf (resolveDesc (cmpName o1 ++ "_" ++ cmpName o2) [a, b, c] []) = some .unknownFunction := by
  decide +kernel

/-! ### C05: lazy combinatorics -/

def cExact : List Nat := [cInt, cFrac]

/-- **Table fact.** `*` and `/` with a lazy combinatoric on either or both sides, `!` and `C`:
    the `comb_*` overloads for the exact kinds, `(Number, Number)` (whose `coerce_to` resolves the
    lazy operand) when the other operand is a float. -/
theorem comb_table :
    (resolveDesc "*" [cComb, cComb] []).toOption = some (chP [tComb, tComb] "*|(Combinatoric, Combinatoric)|ka.functions.comb_times_comb" (.combComb true)) ∧
    (resolveDesc "/" [cComb, cComb] []).toOption = some (chP [tComb, tComb] "/|(Combinatoric, Combinatoric)|ka.functions.comb_div_comb" (.combComb false)) ∧
    (∀ a ∈ cExact,
      (resolveDesc "*" [cComb, a] []).toOption = some (chP [tComb, tRational] "*|(Combinatoric, Rational)|ka.functions.comb_times_frac" (.combNum true)) ∧
      (resolveDesc "/" [cComb, a] []).toOption = some (chP [tComb, tRational] "/|(Combinatoric, Rational)|ka.functions.comb_div_frac" (.combNum false)) ∧
      (resolveDesc "*" [a, cComb] []).toOption = some (chP [tRational, tComb] "*|(Rational, Combinatoric)|ka.functions.frac_times_comb" (.numComb true)) ∧
      (resolveDesc "/" [a, cComb] []).toOption = some (chP [tRational, tComb] "/|(Rational, Combinatoric)|ka.functions.frac_div_comb" (.numComb false))) ∧
    (resolveDesc "*" [cComb, cFloat] []).toOption = some (ch2 "*|(Number, Number)|_operator.mul" (.lin .mul)) ∧
    (resolveDesc "/" [cComb, cFloat] []).toOption = some (ch2 "/|(Number, Number)|_operator.truediv" .trueDiv) ∧
    (resolveDesc "*" [cFloat, cComb] []).toOption = some (ch2 "*|(Number, Number)|_operator.mul" (.lin .mul)) ∧
    (resolveDesc "/" [cFloat, cComb] []).toOption = some (ch2 "/|(Number, Number)|_operator.truediv" .trueDiv) ∧
    (resolveDesc "!" [cInt] []).toOption = some (chP [tInt] "!|(Integral)|ka.utils.lazy_factorial" .factorial) ∧
    (resolveDesc "C" [cInt, cInt] []).toOption = some (chP [tInt, tInt] "C|(Integral, Integral)|ka.utils.lazy_choose" .choose) := by
  decide +kernel

theorem tComb_ne : (tComb == tNumber) = false := by decide
theorem tRational_ne : (tRational == tNumber) = false := by decide


/-- a value of the C05 fragment inside the unified evaluator -/
def liftCV : Except Err Comb.CVal → R Val
  | .ok v => .ok (ofCVal v)
  | .error e => .error (.err e)

theorem coerceArgs_cc (c1 c2 : Comb.Combinatoric) :
    coerceArgs [tComb, tComb] none [.comb c1, .comb c2] = .ok [.comb c1, .comb c2] := by
  simp [coerceArgs, coerceTo, tComb_ne, bind, Except.bind]

theorem coerceArgs_cn (c : Comb.Combinatoric) (f : Num) :
    coerceArgs [tComb, tRational] none [.comb c, .num f] = .ok [.comb c, .num f] := by
  simp [coerceArgs, coerceTo, tComb_ne, bind, Except.bind]

theorem coerceArgs_nc (c : Comb.Combinatoric) (f : Num) :
    coerceArgs [tRational, tComb] none [.num f, .comb c] = .ok [.num f, .comb c] := by
  simp [coerceArgs, coerceTo, tComb_ne, bind, Except.bind]

/-- the body result of a `comb_*` overload, then `simplify_type` (which leaves a Combinatoric alone) -/
theorem comb_result (r : Except Err Comb.Combinatoric) :
    ((liftE r |>.map Val.comb) >>= simplifyVal) = liftCV (Comb.liftComb r) := by
  cases r <;> rfl

theorem isRational_class (f : Num) : Comb.isRational f = true → numClass f ∈ cExact := by
  cases f <;> simp [Comb.isRational, numClass, cExact]

theorem not_isRational (f : Num) : Comb.isRational f = false → numClass f = cFloat := by
  cases f <;> simp [Comb.isRational, numClass]

theorem liftN_liftNum (r : Except Err Num) : liftN r = liftCV (Comb.liftNum r) := by
  cases r <;> rfl

/-- `dispatch` with a lazy operand and a `(Number, Number)` signature: `coerce_to` resolves the lazy
    operand first, the rest is the call on the resolved number -/
theorem dispatch_comb_left (n : Nat) (nm desc : String) (code : BodyCode) (c : Comb.Combinatoric) (y : Num)
    (h : (resolveDesc nm [cComb, numClass y] []).toOption = some (ch2 desc code))
    (h' : ∀ x : Num, (resolveDesc nm [numClass x, numClass y] []).toOption = some (ch2 desc code)) :
    dispatchV (n + 1) nm [.comb c, .num y] [] =
      match c.resolve with
      | .ok x => dispatchV (n + 1) nm [.num x, .num y] []
      | .error e => .error (.err e) := by
  rw [dispatchV_step (c := ch2 desc code) (code := code) (by simpa [classOf] using h) rfl]
  cases hr : c.resolve with
  | error e => simp [ch2, coerceArgs, coerceTo, hr, liftE, Except.map, bind, Except.bind]
  | ok x =>
    simp only
    rw [dispatchV_step (c := ch2 desc code) (code := code) (by simpa [classOf] using h' x) rfl]
    simp [ch2, coerceArgs, coerceTo, hr, liftE, Except.map, bind, Except.bind]

theorem dispatch_comb_right (n : Nat) (nm desc : String) (code : BodyCode) (c : Comb.Combinatoric) (x : Num)
    (h : (resolveDesc nm [numClass x, cComb] []).toOption = some (ch2 desc code))
    (h' : ∀ y : Num, (resolveDesc nm [numClass x, numClass y] []).toOption = some (ch2 desc code)) :
    dispatchV (n + 1) nm [.num x, .comb c] [] =
      match c.resolve with
      | .ok y => dispatchV (n + 1) nm [.num x, .num y] []
      | .error e => .error (.err e) := by
  rw [dispatchV_step (c := ch2 desc code) (code := code) (by simpa [classOf] using h) rfl]
  cases hr : c.resolve with
  | error e => simp [ch2, coerceArgs, coerceTo, hr, liftE, Except.map, bind, Except.bind]
  | ok y =>
    simp only
    rw [dispatchV_step (c := ch2 desc code) (code := code) (by simpa [classOf] using h' y) rfl]
    simp [ch2, coerceArgs, coerceTo, hr, liftE, Except.map, bind, Except.bind]

theorem float_not_int (f y : Num) (hf : numClass f = cFloat) : ¬ (numClass y = cInt ∧ numClass f = cInt) := by
  rw [hf]; intro h; exact absurd h.2 (by decide)
theorem float_not_int' (f y : Num) (hf : numClass f = cFloat) : ¬ (numClass f = cInt ∧ numClass y = cInt) := by
  rw [hf]; intro h; exact absurd h.1 (by decide)

/-- **`*` on the C05 fragment's values is `Comb.applyMul`** -/
theorem dispatch_applyMul (n : Nat) (a b : Comb.CVal) :
    dispatchV (n + 1) "*" [ofCVal a, ofCVal b] [] = liftCV (Comb.applyMul a b) := by
  obtain ⟨tcc, _, tx, tlf, _, tfl, _, _, _⟩ := comb_table
  cases a with
  | num x =>
    cases b with
    | num y => simp only [ofCVal, Comb.applyMul, dispatch_mul, liftN_liftNum]
    | comb c =>
      simp only [ofCVal, Comb.applyMul]
      cases hq : Comb.isRational x with
      | true =>
        have t := (tx _ (isRational_class x hq)).2.2.1
        rw [dispatchV_step (c := chP _ _ _) (code := .numComb true) (by simpa [classOf] using t) rfl]
        simp only [chP, coerceArgs_nc, BodyCode.run, bNumComb, if_true, Except.bind, bind]
        exact comb_result _
      | false =>
        have hf := not_isRational x hq
        rw [dispatch_comb_right n "*" _ (.lin .mul) c x (by rw [hf]; exact tfl)
          (fun y => (num_table2 _ (numClass_mem x) _ (numClass_mem y)).2.2.1)]
        cases c.resolve with
        | error e => rfl
        | ok y => simp only [dispatch_mul, liftN_liftNum, Bool.false_eq_true, if_false]
  | comb c =>
    cases b with
    | comb c2 =>
      simp only [ofCVal, Comb.applyMul]
      rw [dispatchV_step (c := chP _ _ _) (code := .combComb true) (by simpa [classOf] using tcc) rfl]
      simp only [chP, coerceArgs_cc, BodyCode.run, bComb2, if_true, Except.bind, bind]
      exact comb_result _
    | num f =>
      simp only [ofCVal, Comb.applyMul]
      cases hq : Comb.isRational f with
      | true =>
        have t := (tx _ (isRational_class f hq)).1
        rw [dispatchV_step (c := chP _ _ _) (code := .combNum true) (by simpa [classOf] using t) rfl]
        simp only [chP, coerceArgs_cn, BodyCode.run, bCombNum, if_true, Except.bind, bind]
        exact comb_result _
      | false =>
        have hf := not_isRational f hq
        rw [dispatch_comb_left n "*" _ (.lin .mul) c f (by rw [hf]; exact tlf)
          (fun x => (num_table2 _ (numClass_mem x) _ (numClass_mem f)).2.2.1)]
        cases c.resolve with
        | error e => rfl
        | ok x => simp only [dispatch_mul, liftN_liftNum, Bool.false_eq_true, if_false]

/-- **`/` on the C05 fragment's values is `Comb.applyDiv`** -/
theorem dispatch_applyDiv (n : Nat) (a b : Comb.CVal) :
    dispatchV (n + 1) "/" [ofCVal a, ofCVal b] [] = liftCV (Comb.applyDiv a b) := by
  obtain ⟨_, tcc, tx, _, tlf, _, tfl, _, _⟩ := comb_table
  cases a with
  | num x =>
    cases b with
    | num y => simp only [ofCVal, Comb.applyDiv, dispatch_div, liftN_liftNum]
    | comb c =>
      simp only [ofCVal, Comb.applyDiv]
      cases hq : Comb.isRational x with
      | true =>
        have t := (tx _ (isRational_class x hq)).2.2.2
        rw [dispatchV_step (c := chP _ _ _) (code := .numComb false) (by simpa [classOf] using t) rfl]
        simp only [chP, coerceArgs_nc, BodyCode.run, bNumComb, Bool.false_eq_true, if_false, Except.bind, bind]
        exact comb_result _
      | false =>
        have hf := not_isRational x hq
        rw [dispatch_comb_right n "/" _ .trueDiv c x (by rw [hf]; exact tfl)
          (fun y => by
            have := (num_table2 _ (numClass_mem x) _ (numClass_mem y)).2.2.2.2.2.1
            rwa [if_neg (float_not_int' x y hf)] at this)]
        cases c.resolve with
        | error e => rfl
        | ok y => simp only [dispatch_div, liftN_liftNum, Bool.false_eq_true, if_false]
  | comb c =>
    cases b with
    | comb c2 =>
      simp only [ofCVal, Comb.applyDiv]
      rw [dispatchV_step (c := chP _ _ _) (code := .combComb false) (by simpa [classOf] using tcc) rfl]
      simp only [chP, coerceArgs_cc, BodyCode.run, bComb2, Bool.false_eq_true, if_false, Except.bind, bind]
      exact comb_result _
    | num f =>
      simp only [ofCVal, Comb.applyDiv]
      cases hq : Comb.isRational f with
      | true =>
        have t := (tx _ (isRational_class f hq)).2.1
        rw [dispatchV_step (c := chP _ _ _) (code := .combNum false) (by simpa [classOf] using t) rfl]
        simp only [chP, coerceArgs_cn, BodyCode.run, bCombNum, Bool.false_eq_true, if_false, Except.bind, bind]
        exact comb_result _
      | false =>
        have hf := not_isRational f hq
        rw [dispatch_comb_left n "/" _ .trueDiv c f (by rw [hf]; exact tlf)
          (fun x => by
            have := (num_table2 _ (numClass_mem x) _ (numClass_mem f)).2.2.2.2.2.1
            rwa [if_neg (float_not_int f x hf)] at this)]
        cases c.resolve with
        | error e => rfl
        | ok x => simp only [dispatch_div, liftN_liftNum, Bool.false_eq_true, if_false]

/-- an integer as the parser reads it: a number token, under a sign node when negative -/
def intLit (z : Int) : Ast := if z < 0 then .sign true (.num (.int (-z))) else .num (.int z)

theorem evalE_intLit (env : Env) (z : Int) : evalE env (intLit z) = .ok (.num (.int z)) := by
  unfold intLit
  split
  · simp only [evalE, simplify, liftE, Except.map, bind, Except.bind, if_true]
    have := dispatch_unop .neg (.int (-z))
    simp only [unFun] at this
    rw [this]
    simp [unop, simplify, liftN, bind, Except.bind]
  · rfl

theorem hasInstant_intLit (z : Int) : hasInstant (intLit z) = false := by
  unfold intLit; split <;> rfl

theorem wfE_intLit (z : Int) : wfE (intLit z) = true := by
  unfold intLit; split <;> rfl

/-- a C05 expression as the parse tree of its text -/
def embedC : Comb.CExp → Ast
  | .int z => intLit z
  | .sci m e => .num (litValue m e)
  | .fact n => .fact (intLit n)
  | .choose n k => .call "C" [intLit n, intLit k] []
  | .mul a b => .bin .mul (embedC a) (embedC b)
  | .div a b => .bin .div (embedC a) (embedC b)

/-- every factorial / binomial argument is one the model resolves (`Eval.maxFactorial` = 200000; the
    code's loops are linear in it, beyond that the unified evaluator answers `unmodelled`) -/
def combModelled : Comb.CExp → Bool
  | .int _ | .sci _ _ => true
  | .fact n => decide (n ≤ maxFactorial)
  | .choose n _ => decide (n ≤ maxFactorial)
  | .mul a b | .div a b => combModelled a && combModelled b

theorem evalE_call2 (env : Env) (name : String) (a b : Ast) :
    evalE env (.call name [a, b] []) = (do let x ← evalE env a; let y ← evalE env b; dispatchTop name [x, y] []) := by
  simp only [evalE, evalEs, evalKs]
  cases evalE env a with
  | error e => rfl
  | ok x => cases evalE env b <;> rfl

theorem simplifyVal_ofCVal_factorial (n : Int) :
    simplifyVal (ofCVal (Comb.lazyFactorial n)) = .ok (ofCVal (Comb.lazyFactorial n)) := by
  unfold Comb.lazyFactorial; split <;> rfl

theorem simplifyVal_ofCVal_choose (n k : Int) :
    simplifyVal (ofCVal (Comb.lazyChoose n k)) = .ok (ofCVal (Comb.lazyChoose n k)) := by
  unfold Comb.lazyChoose; split <;> rfl

/-- `n!` on an integer: `lazy_factorial` -/
theorem dispatch_factorial (n : Nat) (z : Int) (hz : z ≤ maxFactorial) :
    dispatchV (n + 1) "!" [.num (.int z)] [] = .ok (ofCVal (Comb.lazyFactorial z)) := by
  have t := comb_table.2.2.2.2.2.2.2.1
  rw [step1 (a := .num (.int z)) t rfl]
  have : ¬ z > maxFactorial := Int.not_lt.mpr hz
  simp only [BodyCode.run, bFactorial, this, if_false, bind, Except.bind, simplifyVal_ofCVal_factorial]

/-- `C(n, k)` on integers: `lazy_choose` -/
theorem dispatch_choose (n : Nat) (z k : Int) (hz : z ≤ maxFactorial) :
    dispatchV (n + 1) "C" [.num (.int z), .num (.int k)] [] = .ok (ofCVal (Comb.lazyChoose z k)) := by
  have t := comb_table.2.2.2.2.2.2.2.2
  rw [step2 (a := .num (.int z)) (b := .num (.int k)) t rfl rfl]
  have : ¬ z > maxFactorial := Int.not_lt.mpr hz
  simp only [BodyCode.run, bChoose, this, if_false, bind, Except.bind, simplifyVal_ofCVal_choose]

/-- **the unified evaluator on the C05 fragment is `Comb.evalC`** -/
theorem evalE_embedC (e : Comb.CExp) (env : Env) (hm : combModelled e = true) :
    evalE env (embedC e) = liftCV (Comb.evalC e) := by
  induction e with
  | int z => exact evalE_intLit env z
  | sci m e =>
    simp only [embedC, evalE, Comb.evalC]
    cases simplify (litValue m e) <;> rfl
  | fact n =>
    simp only [combModelled, decide_eq_true_eq] at hm
    simp only [embedC, evalE, evalE_intLit, bind, Except.bind, Comb.evalC, liftCV]
    exact dispatch_factorial _ n hm
  | choose n k =>
    simp only [combModelled, decide_eq_true_eq] at hm
    simp only [embedC, evalE_call2, evalE_intLit, bind, Except.bind, Comb.evalC, liftCV]
    exact dispatch_choose _ n k hm
  | mul a b iha ihb =>
    simp only [combModelled, Bool.and_eq_true] at hm
    simp only [embedC, evalE, iha hm.1, ihb hm.2, Comb.evalC]
    cases Comb.evalC a with
    | error e => rfl
    | ok x =>
      cases Comb.evalC b with
      | error e => rfl
      | ok y => exact dispatch_applyMul _ x y
  | div a b iha ihb =>
    simp only [combModelled, Bool.and_eq_true] at hm
    simp only [embedC, evalE, iha hm.1, ihb hm.2, Comb.evalC]
    cases Comb.evalC a with
    | error e => rfl
    | ok x =>
      cases Comb.evalC b with
      | error e => rfl
      | ok y => exact dispatch_applyDiv _ x y

theorem hasInstant_embedC (e : Comb.CExp) : hasInstant (embedC e) = false := by
  induction e with
  | int z => exact hasInstant_intLit z
  | sci m e => rfl
  | fact n => simp [embedC, hasInstant, hasInstant_intLit]
  | choose n k => simp [embedC, hasInstant, hasInstantL, hasInstantK, hasInstant_intLit]
  | mul a b iha ihb => simp [embedC, hasInstant, iha, ihb]
  | div a b iha ihb => simp [embedC, hasInstant, iha, ihb]

theorem wfE_embedC (e : Comb.CExp) : wfE (embedC e) = true := by
  induction e with
  | int z => exact wfE_intLit z
  | sci m e => simpa [embedC, wfE] using numOK_litValue m e
  | fact n => simp [embedC, wfE, wfE_intLit]
  | choose n k => simp [embedC, wfE, wfEs, wfKs, wfE_intLit]
  | mul a b iha ihb => simp [embedC, wfE, iha, ihb]
  | div a b iha ihb => simp [embedC, wfE, iha, ihb]

/-- an expression statement: bindings unchanged, value of the expression -/
theorem evalStmt_expr (env : Env) (t : Ast) (h : ∀ x e, t ≠ .assign x e) : evalStmt env t = (env, evalE env t) := by
  cases t <;> first | rfl | exact absurd rfl (h _ _)

theorem embedC_not_assign (e : Comb.CExp) : ∀ x t, embedC e ≠ .assign x t := by
  intro x t
  cases e <;> simp only [embedC, intLit] <;> first | (split <;> simp) | simp

/-- `reduce_result` on the C05 fragment is `Comb.reduce` -/
theorem reduceResult_ofCVal (v : Comb.CVal) : reduceResult (ofCVal v) = liftN (Comb.reduce v) := by
  cases v with
  | num x => rfl
  | comb c =>
    simp only [ofCVal, reduceResult, resolveLazy, Comb.reduce, Comb.coerceNumber]
    cases c.resolve <;> rfl

/-- a one-statement program over the C05 fragment: `execute` shows `Comb.evalTop`'s value or its error -/
theorem runTree_embedC (e : Comb.CExp) (env : Env) (hm : combModelled e = true) :
    runTree env (.stmts [embedC e]) = (env, numOutcome (Comb.evalTop e)) := by
  have hi : hasInstant (.stmts [embedC e]) = false := by simp [hasInstant, hasInstantL, hasInstant_embedC]
  simp only [runTree, checkInstants_of_noInstant _ hi, runProgram, runStmts, evalStmt_expr env _ (embedC_not_assign e), evalE_embedC e env hm,
    Comb.evalTop]
  cases Comb.evalC e with
  | error er => rfl
  | ok v =>
    simp only [liftCV, Bool.false_eq_true, if_false, reduceResult_ofCVal]
    cases Comb.reduce v with
    | error er => rfl
    | ok x =>
      simp only [liftN, numOutcome, bind, Except.bind, displayText, toDVal]
      cases Display.displayResult unitNames Display.defaultPrecision false (.num x) <;> rfl

theorem wf_program_embedC (e : Comb.CExp) : (Ast.stmts [embedC e]).WF := by
  intro s hs
  simp at hs
  subst hs
  have h := wfE_embedC e
  cases e <;> simp only [embedC, intLit] at h ⊢ <;> first | exact h | (split <;> rfl)

/-! ### C03 / C04: quantity expressions -/

/-- **Table fact.** `+ - * /` with a plain number on one side and a quantity on the other:
    `register_quantities_op`'s `left_is_number` / `right_is_number` wrappers of `f`. -/
theorem arith_table_mixed : ∀ a ∈ kinds3,
    (resolveDesc "+" [a, cQty] []).toOption = some (chP [tNum, tQty] "+|(Number, Quantity)|ka.functions.register_quantities_op.<locals>.left_is_number[ka.functions.register_quantities_op.<locals>.f['+',None,True]]" (.numQty "+" .same true)) ∧
    (resolveDesc "-" [a, cQty] []).toOption = some (chP [tNum, tQty] "-|(Number, Quantity)|ka.functions.register_quantities_op.<locals>.left_is_number[ka.functions.register_quantities_op.<locals>.f['-',None,True]]" (.numQty "-" .same true)) ∧
    (resolveDesc "*" [a, cQty] []).toOption = some (chP [tNum, tQty] "*|(Number, Quantity)|ka.functions.register_quantities_op.<locals>.left_is_number[ka.functions.register_quantities_op.<locals>.f['*',ka.functions.<lambda:register_quantities_op(\"*\", lambda qv1, qv2: qv1*qv2)>,True]]" (.numQty "*" .mul true)) ∧
    (resolveDesc "/" [a, cQty] []).toOption = some (chP [tNum, tQty] "/|(Number, Quantity)|ka.functions.register_quantities_op.<locals>.left_is_number[ka.functions.register_quantities_op.<locals>.f['/',ka.functions.<lambda:register_quantities_op(\"/\", lambda qv1, qv2: qv1/qv2)>,True]]" (.numQty "/" .div true)) ∧
    (resolveDesc "+" [cQty, a] []).toOption = some (chP [tQty, tNum] "+|(Quantity, Number)|ka.functions.register_quantities_op.<locals>.right_is_number[ka.functions.register_quantities_op.<locals>.f['+',None,True]]" (.qtyNum "+" .same true)) ∧
    (resolveDesc "-" [cQty, a] []).toOption = some (chP [tQty, tNum] "-|(Quantity, Number)|ka.functions.register_quantities_op.<locals>.right_is_number[ka.functions.register_quantities_op.<locals>.f['-',None,True]]" (.qtyNum "-" .same true)) ∧
    (resolveDesc "*" [cQty, a] []).toOption = some (chP [tQty, tNum] "*|(Quantity, Number)|ka.functions.register_quantities_op.<locals>.right_is_number[ka.functions.register_quantities_op.<locals>.f['*',ka.functions.<lambda:register_quantities_op(\"*\", lambda qv1, qv2: qv1*qv2)>,True]]" (.qtyNum "*" .mul true)) ∧
    (resolveDesc "/" [cQty, a] []).toOption = some (chP [tQty, tNum] "/|(Quantity, Number)|ka.functions.register_quantities_op.<locals>.right_is_number[ka.functions.register_quantities_op.<locals>.f['/',ka.functions.<lambda:register_quantities_op(\"/\", lambda qv1, qv2: qv1/qv2)>,True]]" (.qtyNum "/" .div true)) := by
  decide +kernel

/-- the quantity fragment's outcome inside the unified evaluator -/
def liftQ (r : Except Err Qty.QVal) : R Val := (liftE r).map ofQVal

theorem nBase_table : Gen.Units.table.baseUnits.length = nBase := rfl

/-- the body registered for (Number, Quantity) of an operator of the quantity fragment -/
theorem numQty_resolve (op : Qty.QOp) (x : Num) :
    ∃ desc, (resolveDesc (qopName op) [numClass x, cQty] []).toOption
      = some (chP [tNum, tQty] desc (.numQty (qopName op) (qopRule op) (qopWrap op))) := by
  have t := arith_table_mixed _ (numClass_mem x)
  have u := cmp_table_numqty _ (numClass_mem x)
  cases op
  · exact ⟨_, t.1⟩
  · exact ⟨_, t.2.1⟩
  · exact ⟨_, t.2.2.1⟩
  · exact ⟨_, t.2.2.2.1⟩
  · exact ⟨_, u.1⟩
  · exact ⟨_, u.2.1⟩
  · exact ⟨_, u.2.2.1⟩
  · exact ⟨_, u.2.2.2.1⟩

theorem qtyNum_resolve (op : Qty.QOp) (y : Num) :
    ∃ desc, (resolveDesc (qopName op) [cQty, numClass y] []).toOption
      = some (chP [tQty, tNum] desc (.qtyNum (qopName op) (qopRule op) (qopWrap op))) := by
  have t := arith_table_mixed _ (numClass_mem y)
  have u := cmp_table_qtynum _ (numClass_mem y)
  cases op
  · exact ⟨_, t.2.2.2.2.1⟩
  · exact ⟨_, t.2.2.2.2.2.1⟩
  · exact ⟨_, t.2.2.2.2.2.2.1⟩
  · exact ⟨_, t.2.2.2.2.2.2.2⟩
  · exact ⟨_, u.1⟩
  · exact ⟨_, u.2.1⟩
  · exact ⟨_, u.2.2.1⟩
  · exact ⟨_, u.2.2.2.1⟩

/-- **`dispatch` of `+ - * / < <= == !=` on the quantity fragment's values is `Qty.applyOp`**
    (a plain number is lifted to the zero vector, on either side) -/
theorem dispatch_applyOp (n : Nat) (op : Qty.QOp) (a b : Qty.QVal) :
    dispatchV (n + 2) (qopName op) [ofQVal a, ofQVal b] [] = liftQ (Qty.applyOp nBase op a b) := by
  cases a with
  | num x =>
    cases b with
    | num y =>
      simp only [ofQVal, Qty.applyOp, dispatch_numOp (n + 1) op x y, liftQ]
      cases Qty.numOp op x y <;> rfl
    | qty y dy =>
      obtain ⟨desc, h⟩ := numQty_resolve op x
      simp only [ofQVal, Qty.applyOp]
      rw [step2 (a := .num x) (b := .qty y dy) h rfl rfl]
      simp only [BodyCode.run, bNumQty]
      exact qtyF_eq n op x zeroDim y dy
  | qty x dx =>
    cases b with
    | num y =>
      obtain ⟨desc, h⟩ := qtyNum_resolve op y
      simp only [ofQVal, Qty.applyOp]
      rw [step2 (a := .qty x dx) (b := .num y) h rfl rfl]
      simp only [BodyCode.run, bQtyNum]
      exact qtyF_eq n op x dx y zeroDim
    | qty y dy => exact dispatch_qtyOp n op x dx y dy

/-- a number that `simplify_number` leaves alone: what the parser's `parse_number` produces and the
    evaluator stores (an int; a Fraction that is not integral; a finite non-integral float or NaN) -/
def storedNum : Num → Bool
  | .int _ => true
  | .frac q => !(q.num % (q.den : Int) == 0)
  | .flt x => if x.isFinite then !(x.floor == x) else x.isNaN

theorem simplify_stored (n : Num) (h : storedNum n = true) : simplify n = .ok n := by
  cases n with
  | int k => rfl
  | frac q =>
    simp only [storedNum, Bool.not_eq_true'] at h
    simp only [simplify, h, Bool.false_eq_true, if_false]
  | flt x =>
    simp only [storedNum] at h
    simp only [simplify]
    split at h
    · rename_i hf
      simp only [Bool.not_eq_true'] at h
      simp only [hf, if_true, h, Bool.false_eq_true, if_false]
    · rename_i hf
      simp only [hf, Bool.false_eq_true, if_false, h, if_true]

/-- quantity expressions as the parser sees them: unit signatures carry the unit names as text -/
inductive PQ where
  | lit (n : Num)
  | tag (e : PQ) (sig : UnitSig)
  | bin (op : Qty.QOp) (a b : PQ)
  | conv (e : PQ) (sig : UnitSig)
deriving Inhabited

/-- the expression of the quantity fragment (C03/C04's `QExp`: names as code points) -/
def PQ.toQExp : PQ → Qty.QExp
  | .lit n => .lit n
  | .tag e s => .tag e.toQExp (toQSig s)
  | .bin op a b => .bin op a.toQExp b.toQExp
  | .conv e s => .conv e.toQExp (toQSig s)

/-- the node the parser builds for a binary operator of the quantity fragment -/
def binAst (op : Qty.QOp) (A B : Ast) : Ast :=
  match op with
  | .add => .bin .add A B | .sub => .bin .sub A B | .mul => .bin .mul A B | .div => .bin .div A B
  | .lt => .cmp1 .lt A B | .le => .cmp1 .leq A B | .eq => .cmp1 .eq A B | .ne => .cmp1 .neq A B

/-- the parse tree: QUANTITY / CONVERT_UNIT / FUNCALL nodes -/
def PQ.toAst : PQ → Ast
  | .lit n => .num n
  | .tag e s => .quantity e.toAst s
  | .bin op a b => binAst op a.toAst b.toAst
  | .conv e s => .convert e.toAst s

/-- side conditions: literals are stored numbers, unit exponents are not astronomically large
    (`Eval.hugeSig`: beyond 10000 the unified evaluator answers `unmodelled`) -/
def PQ.modelled : PQ → Bool
  | .lit n => storedNum n
  | .tag e s => e.modelled && !hugeSig s
  | .bin _ a b => a.modelled && b.modelled
  | .conv e s => e.modelled && !hugeSig s

theorem evalE_binAst (env : Env) (op : Qty.QOp) (A B : Ast) :
    evalE env (binAst op A B) = (do let x ← evalE env A; let y ← evalE env B; dispatchTop (qopName op) [x, y] []) := by
  cases op <;> rfl

theorem makeQuantity_ofQVal (v : Qty.QVal) (sig : UnitSig) (hs : hugeSig sig = false) :
    Eval.makeQuantity (ofQVal v) sig = liftQ (Qty.makeQuantity Gen.Units.table v (toQSig sig)) := by
  cases v with
  | num x => simp only [Eval.makeQuantity, hs, Bool.false_eq_true, if_false, ofQVal, resolveLazy, bind, Except.bind, liftQ]
  | qty m d =>
    simp only [Eval.makeQuantity, hs, Bool.false_eq_true, if_false, ofQVal, resolveLazy, bind, Except.bind, liftQ,
      Qty.makeQuantity]
    rfl

theorem convertQuantity_num (t : Units.UnitTable) (a b : Num) (sig : Qty.Sig) :
    Qty.convertQuantity t (.num a) sig = Qty.convertQuantity t (.num b) sig := by
  simp only [Qty.convertQuantity, bind, Except.bind]

theorem convertQuantity_ofQVal (v : Qty.QVal) (sig : UnitSig) (hs : hugeSig sig = false) :
    Eval.convertQuantity (ofQVal v) sig = liftQ (Qty.convertQuantity Gen.Units.table v (toQSig sig)) := by
  cases v with
  | num x =>
    simp only [Eval.convertQuantity, hs, Bool.false_eq_true, if_false, ofQVal, liftQ]
    rw [convertQuantity_num _ (.int 0) x]
  | qty m d => simp only [Eval.convertQuantity, hs, Bool.false_eq_true, if_false, ofQVal, liftQ]

/-- **the unified evaluator on the quantity fragment is `Qty.evalQ` over the generated unit table** -/
theorem evalE_PQ (e : PQ) (env : Env) (hm : e.modelled = true) :
    evalE env e.toAst = liftQ (Qty.evalQ Gen.Units.table e.toQExp) := by
  induction e with
  | lit n =>
    simp only [PQ.modelled] at hm
    simp only [PQ.toAst, evalE, simplify_stored n hm, PQ.toQExp, Qty.evalQ]
    rfl
  | tag e s ih =>
    simp only [PQ.modelled, Bool.and_eq_true, Bool.not_eq_true'] at hm
    simp only [PQ.toAst, evalE, ih hm.1, PQ.toQExp, Qty.evalQ]
    cases Qty.evalQ Gen.Units.table e.toQExp with
    | error er => rfl
    | ok v => exact makeQuantity_ofQVal v s hm.2
  | conv e s ih =>
    simp only [PQ.modelled, Bool.and_eq_true, Bool.not_eq_true'] at hm
    simp only [PQ.toAst, evalE, ih hm.1, PQ.toQExp, Qty.evalQ]
    cases Qty.evalQ Gen.Units.table e.toQExp with
    | error er => rfl
    | ok v => exact convertQuantity_ofQVal v s hm.2
  | bin op a b iha ihb =>
    simp only [PQ.modelled, Bool.and_eq_true] at hm
    simp only [PQ.toAst, evalE_binAst, iha hm.1, ihb hm.2, PQ.toQExp, Qty.evalQ]
    cases Qty.evalQ Gen.Units.table a.toQExp with
    | error er => rfl
    | ok x =>
      cases Qty.evalQ Gen.Units.table b.toQExp with
      | error er => rfl
      | ok y => exact dispatch_applyOp _ op x y

/-! ### C16: elementary functions -/

/-- **Table fact.** Every one-argument numeric function on every numeric kind. -/
theorem elem_table_num : ∀ a ∈ kinds3,
    (resolveDesc "+" [a] []).toOption = some (ch1 "+|(Number)|_operator.pos" (.fn1 .pos)) ∧
    (resolveDesc "-" [a] []).toOption = some (ch1 "-|(Number)|_operator.neg" (.fn1 .neg)) ∧
    (resolveDesc "abs" [a] []).toOption = some (ch1 "abs|(Number)|builtins.abs" (.fn1 .abs)) ∧
    (resolveDesc "floor" [a] []).toOption = some (ch1 "floor|(Number)|math.floor" (.fn1 .floor)) ∧
    (resolveDesc "ceil" [a] []).toOption = some (ch1 "ceil|(Number)|math.ceil" (.fn1 .ceil)) ∧
    (resolveDesc "round" [a] []).toOption = some (ch1 "round|(Number)|builtins.round" (.fn1 .round)) ∧
    (resolveDesc "int" [a] []).toOption = some (ch1 "int|(Number)|builtins.int" (.fn1 .toInt)) ∧
    (resolveDesc "float" [a] []).toOption = some (ch1 "float|(Number)|builtins.float" (.fn1 .toFloat)) ∧
    (resolveDesc "sin" [a] []).toOption = some (ch1 "sin|(Number)|math.sin" (.fn1 .sin)) ∧
    (resolveDesc "cos" [a] []).toOption = some (ch1 "cos|(Number)|math.cos" (.fn1 .cos)) ∧
    (resolveDesc "tan" [a] []).toOption = some (ch1 "tan|(Number)|math.tan" (.fn1 .tan)) ∧
    (resolveDesc "sqrt" [a] []).toOption = some (ch1 "sqrt|(Number)|ka.functions.ka_sqrt" (.fn1 .sqrt)) ∧
    (resolveDesc "ln" [a] []).toOption = some (ch1 "ln|(Number)|ka.functions.ka_ln" (.fn1 .ln)) ∧
    (resolveDesc "log10" [a] []).toOption = some (ch1 "log10|(Number)|ka.functions.ka_log10" (.fn1 .log10)) ∧
    (resolveDesc "log2" [a] []).toOption = some (ch1 "log2|(Number)|ka.functions.ka_log2" (.fn1 .log2)) := by
  decide +kernel

/-- **Table fact.** … and its `register_numeric_function` version on a quantity. -/
theorem elem_table_qty :
    (resolveDesc "+" [cQty] []).toOption = some (chP [tQty] "+|(Quantity)|ka.functions.register_numeric_function.<locals>.quantity_function[_operator.pos]" (.qfn .pos)) ∧
    (resolveDesc "-" [cQty] []).toOption = some (chP [tQty] "-|(Quantity)|ka.functions.register_numeric_function.<locals>.quantity_function[_operator.neg]" (.qfn .neg)) ∧
    (resolveDesc "abs" [cQty] []).toOption = some (chP [tQty] "abs|(Quantity)|ka.functions.register_numeric_function.<locals>.quantity_function[builtins.abs]" (.qfn .abs)) ∧
    (resolveDesc "floor" [cQty] []).toOption = some (chP [tQty] "floor|(Quantity)|ka.functions.register_numeric_function.<locals>.quantity_function[math.floor]" (.qfn .floor)) ∧
    (resolveDesc "ceil" [cQty] []).toOption = some (chP [tQty] "ceil|(Quantity)|ka.functions.register_numeric_function.<locals>.quantity_function[math.ceil]" (.qfn .ceil)) ∧
    (resolveDesc "round" [cQty] []).toOption = some (chP [tQty] "round|(Quantity)|ka.functions.register_numeric_function.<locals>.quantity_function[builtins.round]" (.qfn .round)) ∧
    (resolveDesc "int" [cQty] []).toOption = some (chP [tQty] "int|(Quantity)|ka.functions.register_numeric_function.<locals>.quantity_function[builtins.int]" (.qfn .toInt)) ∧
    (resolveDesc "float" [cQty] []).toOption = some (chP [tQty] "float|(Quantity)|ka.functions.register_numeric_function.<locals>.quantity_function[builtins.float]" (.qfn .toFloat)) ∧
    (resolveDesc "sin" [cQty] []).toOption = some (chP [tQty] "sin|(Quantity)|ka.functions.register_numeric_function.<locals>.quantity_function[math.sin]" (.qfn .sin)) ∧
    (resolveDesc "cos" [cQty] []).toOption = some (chP [tQty] "cos|(Quantity)|ka.functions.register_numeric_function.<locals>.quantity_function[math.cos]" (.qfn .cos)) ∧
    (resolveDesc "tan" [cQty] []).toOption = some (chP [tQty] "tan|(Quantity)|ka.functions.register_numeric_function.<locals>.quantity_function[math.tan]" (.qfn .tan)) ∧
    (resolveDesc "sqrt" [cQty] []).toOption = some (chP [tQty] "sqrt|(Quantity)|ka.functions.register_numeric_function.<locals>.quantity_function[ka.functions.ka_sqrt]" (.qfn .sqrt)) ∧
    (resolveDesc "ln" [cQty] []).toOption = some (chP [tQty] "ln|(Quantity)|ka.functions.register_numeric_function.<locals>.quantity_function[ka.functions.ka_ln]" (.qfn .ln)) ∧
    (resolveDesc "log10" [cQty] []).toOption = some (chP [tQty] "log10|(Quantity)|ka.functions.register_numeric_function.<locals>.quantity_function[ka.functions.ka_log10]" (.qfn .log10)) ∧
    (resolveDesc "log2" [cQty] []).toOption = some (chP [tQty] "log2|(Quantity)|ka.functions.register_numeric_function.<locals>.quantity_function[ka.functions.ka_log2]" (.qfn .log2)) := by
  decide +kernel

/-- **Table fact.** `log(x, base)` on every pair of numeric kinds. -/
theorem log_table : ∀ a ∈ kinds3, ∀ b ∈ kinds3,
    (resolveDesc "log" [a, b] []).toOption = some (ch2 "log|(Number, Number)|ka.functions.ka_log" .log2args) := by
  decide +kernel


/-- registered name of a one-argument numeric function -/
def fnName : Elementary.Fn → String
  | .sin => "sin" | .cos => "cos" | .tan => "tan" | .sqrt => "sqrt" | .ln => "ln" | .log2 => "log2" | .log10 => "log10"
  | .abs => "abs" | .floor => "floor" | .ceil => "ceil" | .round => "round" | .toInt => "int" | .toFloat => "float"
  | .pos => "+" | .neg => "-"

theorem fn_resolve_num (f : Elementary.Fn) (x : Num) :
    ∃ desc, (resolveDesc (fnName f) [numClass x] []).toOption = some (ch1 desc (.fn1 f)) := by
  obtain ⟨pos, neg, abs, floor, ceil, round, toInt, toFloat, sin, cos, tan, sqrt, ln, log10, log2⟩ :=
    elem_table_num _ (numClass_mem x)
  cases f
  · exact ⟨_, sin⟩
  · exact ⟨_, cos⟩
  · exact ⟨_, tan⟩
  · exact ⟨_, sqrt⟩
  · exact ⟨_, ln⟩
  · exact ⟨_, log2⟩
  · exact ⟨_, log10⟩
  · exact ⟨_, abs⟩
  · exact ⟨_, floor⟩
  · exact ⟨_, ceil⟩
  · exact ⟨_, round⟩
  · exact ⟨_, toInt⟩
  · exact ⟨_, toFloat⟩
  · exact ⟨_, pos⟩
  · exact ⟨_, neg⟩

theorem fn_resolve_qty (f : Elementary.Fn) :
    ∃ desc, (resolveDesc (fnName f) [cQty] []).toOption = some (chP [tQty] desc (.qfn f)) := by
  obtain ⟨pos, neg, abs, floor, ceil, round, toInt, toFloat, sin, cos, tan, sqrt, ln, log10, log2⟩ := elem_table_qty
  cases f
  · exact ⟨_, sin⟩
  · exact ⟨_, cos⟩
  · exact ⟨_, tan⟩
  · exact ⟨_, sqrt⟩
  · exact ⟨_, ln⟩
  · exact ⟨_, log2⟩
  · exact ⟨_, log10⟩
  · exact ⟨_, abs⟩
  · exact ⟨_, floor⟩
  · exact ⟨_, ceil⟩
  · exact ⟨_, round⟩
  · exact ⟨_, toInt⟩
  · exact ⟨_, toFloat⟩
  · exact ⟨_, pos⟩
  · exact ⟨_, neg⟩

/-- **every one-argument numeric function on a number is `Elementary.applyNum`** -/
theorem dispatch_elem (n : Nat) (f : Elementary.Fn) (x : Num) :
    dispatchV (n + 1) (fnName f) [.num x] [] = liftN (Elementary.applyNum f x) := by
  obtain ⟨desc, h⟩ := fn_resolve_num f x
  exact dispatch_fn1 n _ desc f x h

/-- a quantity-valued outcome of the C16 fragment -/
def liftQP : Except Err (Num × List Int) → R Val
  | .ok p => .ok (.qty p.1 p.2)
  | .error e => .error (.err e)

/-- **… and on a quantity it is `Elementary.applyQty`** (acts on the base-unit magnitude, keeps the dimension) -/
theorem dispatch_elem_qty (n : Nat) (f : Elementary.Fn) (m : Num) (d : List Int) :
    dispatchV (n + 1) (fnName f) [.qty m d] [] = liftQP (Elementary.applyQty f m d) := by
  obtain ⟨desc, h⟩ := fn_resolve_qty f
  rw [step1 (a := .qty m d) h rfl]
  simp only [BodyCode.run, bQtyFn, Elementary.applyQty]
  cases Elementary.body f m with
  | error e => rfl
  | ok r =>
    simp only [liftE, Except.map, bind, Except.bind, simplifyVal]
    cases simplify r <;> rfl

/-- **`log(x, base)` is `Elementary.applyLog`** -/
theorem dispatch_log (n : Nat) (x b : Num) :
    dispatchV (n + 1) "log" [.num x, .num b] [] = liftN (Elementary.applyLog x b) := by
  have h := log_table _ (numClass_mem x) _ (numClass_mem b)
  rw [dispatchV_step (c := ch2 _ .log2args) (code := .log2args) (by simpa [classOf] using h) rfl]
  simp only [ch2, coerceArgs_num2, bind, Except.bind, BodyCode.run]
  have := run_num2 Elementary.kaLog (fun nm as => dispatchV n nm as []) x b
  simp only [bind, Except.bind] at this
  rw [this]; rfl

/-! ### C12: array aggregates, membership, integer ranges -/

/-- **Table fact.** The aggregates on an array, membership of a number in an array, `lo..hi`. -/
theorem arr_table :
    (resolveDesc "prod" [cArr] []).toOption = some (chP [tArray] "prod|(Array)|ka.functions.array_prod" .arrProd) ∧
    (resolveDesc "mean" [cArr] []).toOption = some (chP [tArray] "mean|(Array)|ka.functions.array_mean" .arrMean) ∧
    (resolveDesc "size" [cArr] []).toOption = some (chP [tArray] "size|(Array)|ka.functions.array_size" .arrSize) ∧
    (resolveDesc "max" [cArr] []).toOption = some (chP [tArray] "max|(Array)|ka.functions.array_max" .arrMax) ∧
    (resolveDesc "min" [cArr] []).toOption = some (chP [tArray] "min|(Array)|ka.functions.array_min" .arrMin) ∧
    (∀ a ∈ kinds3, (resolveDesc "in" [a, cArr] []).toOption = some (chP [tAny, tArray] "in|(Any, Array)|ka.functions.in_array" .inArray)) ∧
    (resolveDesc "range" [cInt, cInt] []).toOption = some (chP [tInt, tInt] "range|(Integral, Integral)|ka.functions.<lambda:register_function(lambda lo, hi: Array(list(range(lo, hi+1))), \"range\", (Integral, Integral), \"Returns an array of the i>" .range) := by
  decide +kernel

theorem simplify_int (k : Int) : simplify (.int k) = .ok (.int k) := rfl

/-! #### prod -/

theorem foldl_mul (n : Nat) (t : List Num) (a : Num) :
    (t.map Val.num).foldlM (fun acc e => dispatchV (n + 1) "*" [e, acc] []) (.num a)
      = liftN (t.foldlM (fun acc e => binop .mul e acc) a) := by
  induction t generalizing a with
  | nil => rfl
  | cons h t ih =>
    simp only [List.map_cons, List.foldlM_cons, dispatch_mul n h a]
    cases binop .mul h a with
    | error e => rfl
    | ok r => simp only [liftN, bind, Except.bind]; exact ih r

theorem foldlM_mul_canon (t : List Num) (a r : Num) (ha : Canon a)
    (h : t.foldlM (fun acc e => binop .mul e acc) a = .ok r) : Canon r := by
  induction t generalizing a with
  | nil => simp only [List.foldlM_nil, pure, Except.pure] at h; injection h with h; subst h; exact ha
  | cons x t ih =>
    simp only [List.foldlM_cons, bind, Except.bind] at h
    cases hb : binop .mul x a with
    | error e => simp [hb] at h
    | ok b => simp only [hb] at h; exact ih b (binop_idem hb) h

/-- **`prod`** of an array of numbers is `Arr.arrayProd` -/
theorem dispatch_prod (n : Nat) (xs : List Num) :
    dispatchV (n + 2) "prod" [.arr (xs.map .num)] [] = liftN (Arr.arrayProd xs) := by
  rw [step1 (a := .arr (xs.map .num)) arr_table.1 rfl]
  simp only [BodyCode.run, bArrProd, Arr.arrayProd, foldl_mul n xs (.int 1)]
  cases hr : xs.foldlM (fun acc e => binop .mul e acc) (.int 1) with
  | error e => rfl
  | ok r =>
    have hcr : simplify r = .ok r := foldlM_mul_canon xs (.int 1) r rfl hr
    simp only [liftN, bind, Except.bind, simplifyVal, hcr, liftE, Except.map]

/-! #### size -/

def noComb : List Val → Bool
  | [] => true
  | v :: vs => notComb v && noComb vs

/-- **`size`** of any array is its length -/
theorem dispatch_size (n : Nat) (vs : List Val) :
    dispatchV (n + 1) "size" [.arr vs] [] = .ok (.num (.int vs.length)) := by
  rw [step1 (a := .arr vs) arr_table.2.2.1 rfl]
  rfl

/-! #### mean -/

/-- **`mean`** of an array of stored numbers is `Arr.arrayMean` -/
theorem dispatch_mean (n : Nat) (xs : List Num) (hc : ∀ x ∈ xs, Canon x) :
    dispatchV (n + 3) "mean" [.arr (xs.map .num)] [] = liftN (Arr.arrayMean xs) := by
  rw [step1 (a := .arr (xs.map .num)) arr_table.2.1 rfl]
  simp only [BodyCode.run, bArrMean, Arr.arrayMean, List.isEmpty_map, List.length_map]
  cases he : xs.isEmpty with
  | true => rfl
  | false =>
    simp only [Bool.false_eq_true, if_false, dispatch_sum n xs hc]
    cases hs : Arr.arraySum xs with
    | error e => rfl
    | ok s =>
      simp only [liftN, bind, Except.bind, dispatch_div (n + 1) s (.int xs.length)]
      cases hd : binop .div s (.int xs.length) with
      | error e => rfl
      | ok r => simp only [simplifyVal, binop_idem hd, liftE, Except.map]

/-! #### min / max -/

theorem rtruth_lt (n : Nat) (x y : Num) :
    rtruth (fun nm as => dispatchV (n + 1) nm as []) "<" [.num x, .num y] = .ok (cmpLt x y) := by
  have t := (num_table2 _ (numClass_mem x) _ (numClass_mem y)).2.2.2.2.2.2.1
  simp only [rtruth, dispatch_cmp n "<" _ x y t, bind, Except.bind, cmpByName, b2v, truthy_ite]

theorem rtruth_eq (n : Nat) (x y : Num) :
    rtruth (fun nm as => dispatchV (n + 1) nm as []) "==" [.num x, .num y] = .ok (cmpEq x y) := by
  have t := (num_table2 _ (numClass_mem x) _ (numClass_mem y)).2.2.2.2.2.2.2.2.1
  simp only [rtruth, dispatch_cmp n "==" _ x y t, bind, Except.bind, cmpByName, b2v, truthy_ite]

theorem foldl_min (n : Nat) (t : List Num) (a : Num) :
    (t.map Val.num).foldlM (fun r e => do
        if ← rtruth (fun nm as => dispatchV (n + 1) nm as []) "<" [e, r] then pure e else pure r) (.num a)
      = .ok (.num (t.foldl (fun r e => if cmpLt e r then e else r) a)) := by
  induction t generalizing a with
  | nil => rfl
  | cons h t ih =>
    simp only [List.map_cons, List.foldlM_cons, List.foldl_cons, rtruth_lt, bind, Except.bind]
    cases cmpLt h a with
    | true => exact ih h
    | false => exact ih a

theorem foldl_max (n : Nat) (t : List Num) (a : Num) :
    (t.map Val.num).foldlM (fun r e => do
        if ← rtruth (fun nm as => dispatchV (n + 1) nm as []) "<" [r, e] then pure e else pure r) (.num a)
      = .ok (.num (t.foldl (fun r e => if cmpLt r e then e else r) a)) := by
  induction t generalizing a with
  | nil => rfl
  | cons h t ih =>
    simp only [List.map_cons, List.foldlM_cons, List.foldl_cons, rtruth_lt, bind, Except.bind]
    cases cmpLt a h with
    | true => exact ih h
    | false => exact ih a

theorem foldl_pick_mem (p : Num → Num → Bool) (t : List Num) (a : Num) :
    t.foldl (fun r e => if p r e then e else r) a ∈ a :: t := by
  induction t generalizing a with
  | nil => simp
  | cons h t ih =>
    simp only [List.foldl_cons]
    cases p a h with
    | true =>
      have := ih h
      simp only [if_true]
      simp only [List.mem_cons] at this ⊢
      rcases this with h1 | h1
      · exact Or.inr (Or.inl h1)
      · exact Or.inr (Or.inr h1)
    | false =>
      have := ih a
      simp only [Bool.false_eq_true, if_false]
      simp only [List.mem_cons] at this ⊢
      rcases this with h1 | h1
      · exact Or.inl h1
      · exact Or.inr (Or.inr h1)

/-- **`min`** of an array of stored numbers is `Arr.arrayMin` (first minimal element; empty array rejected) -/
theorem dispatch_min (n : Nat) (xs : List Num) (hc : ∀ x ∈ xs, Canon x) :
    dispatchV (n + 2) "min" [.arr (xs.map .num)] [] = liftN (Arr.arrayMin xs) := by
  rw [step1 (a := .arr (xs.map .num)) arr_table.2.2.2.2.1 rfl]
  cases xs with
  | nil => rfl
  | cons h t =>
    simp only [BodyCode.run, List.map_cons, bArrMin, Arr.arrayMin]
    have := foldl_min n (h :: t) h
    simp only [List.map_cons] at this
    rw [this]
    have hm := foldl_pick_mem (fun r e => cmpLt e r) (h :: t) h
    have hcr : Canon (List.foldl (fun r e => if cmpLt e r then e else r) h (h :: t)) := hc _ (by simpa using hm)
    unfold Canon at hcr
    simp only [bind, Except.bind, simplifyVal, hcr, liftE, Except.map, liftN]

/-- **`max`** of an array of stored numbers is `Arr.arrayMax` -/
theorem dispatch_max (n : Nat) (xs : List Num) (hc : ∀ x ∈ xs, Canon x) :
    dispatchV (n + 2) "max" [.arr (xs.map .num)] [] = liftN (Arr.arrayMax xs) := by
  rw [step1 (a := .arr (xs.map .num)) arr_table.2.2.2.1 rfl]
  cases xs with
  | nil => rfl
  | cons h t =>
    simp only [BodyCode.run, List.map_cons, bArrMax, Arr.arrayMax]
    have := foldl_max n (h :: t) h
    simp only [List.map_cons] at this
    rw [this]
    have hm := foldl_pick_mem (fun r e => cmpLt r e) (h :: t) h
    have hcr : Canon (List.foldl (fun r e => if cmpLt r e then e else r) h (h :: t)) := hc _ (by simpa using hm)
    unfold Canon at hcr
    simp only [bind, Except.bind, simplifyVal, hcr, liftE, Except.map, liftN]

/-! #### membership -/

theorem inArrayLoop_nums (n : Nat) (x : Num) (xs : List Num) :
    inArrayLoop (fun nm as => dispatchV (n + 1) nm as []) (.num x) (xs.map .num) = .ok (xs.any (fun e => cmpEq x e)) := by
  induction xs with
  | nil => rfl
  | cons h t ih =>
    simp only [List.map_cons, inArrayLoop, rtruth_eq, bind, Except.bind, List.any_cons]
    cases cmpEq x h with
    | true => rfl
    | false => simpa using ih

/-- **`x in xs`** on an array of numbers is `Arr.inArray` -/
theorem dispatch_inArray (n : Nat) (x : Num) (xs : List Num) :
    dispatchV (n + 2) "in" [.num x, .arr (xs.map .num)] [] = .ok (.num (Arr.inArray x xs)) := by
  rw [step2 (a := .num x) (b := .arr (xs.map .num)) (arr_table.2.2.2.2.2.1 _ (numClass_mem x)) rfl rfl]
  simp only [BodyCode.run, bInArray, inArrayLoop_nums, Except.map, b2v, Arr.inArray]
  rfl

/-! #### lo..hi -/

/-- **`lo..hi`** on two integers is `Arr.range` (unless it would have more than `Eval.maxRange` = 2000000 elements) -/
theorem dispatch_range (n : Nat) (lo hi : Int) (hsz : (hi + 1 - lo).toNat ≤ maxRange) :
    dispatchV (n + 1) "range" [.num (.int lo), .num (.int hi)] [] =
      .ok (.arr ((Arr.range lo hi).map (fun k => .num (.int k)))) := by
  rw [step2 (a := .num (.int lo)) (b := .num (.int hi)) arr_table.2.2.2.2.2.2 rfl rfl]
  have : ¬ (hi + 1 - lo).toNat > maxRange := Nat.not_lt.mpr hsz
  simp only [BodyCode.run, bRange, this, if_false]
  rfl

/-- a program that is one expression (not an assignment, not a STATEMENTS node): bindings unchanged -/
theorem runProgram_expr (env : Env) (t : Ast) (h : ∀ x e, t ≠ .assign x e) (h' : ∀ ss, t ≠ .stmts ss) :
    runProgram env t = (env, evalE env t) := by
  cases t <;> first | rfl | exact absurd rfl (h _ _) | exact absurd rfl (h' _)

theorem embedC_not_stmts (e : Comb.CExp) : ∀ ss, embedC e ≠ .stmts ss := by
  intro ss
  cases e <;> simp only [embedC, intLit] <;> first | (split <;> simp) | simp

/-! ### C06: the stages of one `execute` call, as the unified model runs them -/

/-- the Python exception class behind an error class of the model -/
def errClass : Err → String
  | .divZero => "ZeroDivisionError" | .overflow => "OverflowError" | .runtime => "KaRuntimeError"
  | .noMatch => "NoMatchingFunctionSignatureError" | .unknownFn => "UnknownFunctionError"
  | .unknownKw => "UnknownKeywordError" | .badKw => "BadTypeKeywordError"
  | .incompatible => "IncompatibleQuantitiesError" | .funArg => "FunctionArgError"
  | .invalidParam => "InvalidParameterException" | .eval => "EvalError"
  | .py c => c | .diverges => "(does not return)"

/-- the classes Ka's own code raises on purpose while evaluating a tree, plus the two host classes
    `eval_parse_tree` converts -/
def ownClasses : List String :=
  ["EvalError", "KaRuntimeError", "UnknownFunctionError", "UnknownKeywordError", "BadTypeKeywordError",
   "InvalidParameterException", "NoMatchingFunctionSignatureError", "IncompatibleQuantitiesError",
   "FunctionArgError", "ZeroDivisionError", "OverflowError"]

/-- every error class of the model except a foreign host exception / non-termination is one of those -/
theorem errClass_own (e : Err) (h : (match e with | .py _ | .diverges => false | _ => true) = true) :
    errClass e ∈ ownClasses := by
  cases e <;> first | (simp at h; done) | decide

def lexClass : Lexer.LexErr → String
  | .unknownToken _ => "UnknownTokenError" | .badNumber _ => "BadNumberError"
  | .unclosedString _ => "UnclosedStringError" | .unclosedInstant _ => "UnclosedInstantError"
  | .outOfFuel => "(model bound)"

/-- what `instant_from_iso`, run by the parser on the instant literals it reads, can answer: nothing,
    a form outside the ISO model, or the KaRuntimeError of a malformed literal -/
theorem checkInstants_cases (texts : List String) :
    checkInstants texts = none ∨ checkInstants texts = some (.unmodelled "instant form") ∨
      checkInstants texts = some (.evalErr .runtime) := by
  unfold checkInstants
  split
  · exact Or.inr (Or.inl rfl)
  · split
    · exact Or.inr (Or.inr rfl)
    · exact Or.inl rfl

/-- evaluation and display of a parse tree as stages of `Exec.execute`; a malformed instant literal is
    raised by `parse_tokens` (the parse stage), before anything is evaluated -/
def treeStages (env : Env) (t : Ast) : Exec.Stages :=
  match checkInstants (instTexts t) with
  | some (.evalErr e) => ⟨none, some (errClass e), none, none⟩
  | some _ => ⟨none, none, none, none⟩
  | none =>
  match runProgram env t with
  | (_, .error (.err e)) => ⟨none, none, some (errClass e), none⟩
  | (_, .error _) => ⟨none, none, none, none⟩
  | (_, .ok v) =>
    match reduceResult v >>= displayText with
    | .error (.err e) => ⟨none, none, none, some (errClass e)⟩
    | _ => ⟨none, none, none, none⟩

/-- the four stages of `execute(s, env)` in the unified model: which stage raises which class -/
def stagesOf (env : Env) (s : List Char) : Exec.Stages :=
  match Lexer.tokenise s with
  | .error e => ⟨some (lexClass e), none, none, none⟩
  | .ok toks =>
    match parse toks with
    | .error (.parsing i) =>
      match checkInstants (tokInstTexts (toks.take i)) with
      | some (.evalErr e) => ⟨none, some (errClass e), none, none⟩
      | some _ => ⟨none, none, none, none⟩
      | none => ⟨none, some "ParsingError", none, none⟩
    | .error .overflow => ⟨none, some "OverflowError", none, none⟩
    | .error .fuel => ⟨none, none, none, none⟩
    | .ok t => treeStages env t

/-- what an observer of `execute` sees of a modelled outcome: status, which streams carry text -/
def observe : Outcome → Option Exec.Outcome
  | .ok _ => some (.done 0 true false)
  | .lexErr _ _ | .parseErr _ | .evalErr _ => some (.done 1 false true)
  | .escaped c => some (.escaped c)
  | .unmodelled _ => none

open Gen.Exec in
/-- **Table fact** (handler tables generated from the `ast` of interpret.py): the four lexical classes,
    ParsingError and the KaRuntimeError of a malformed instant literal (raised by `parse_tokens`) are caught
    with status 1, OverflowError out of the parser is not caught, the own classes
    are caught around evaluation (after `eval_parse_tree`'s conversion). -/
theorem handler_table :
    (∀ c ∈ ["UnknownTokenError", "BadNumberError", "UnclosedStringError", "UnclosedInstantError"],
      Exec.handle lexCaught c = .done 1 false true) ∧
    Exec.handle parseCaught "ParsingError" = .done 1 false true ∧
    Exec.handle parseCaught "KaRuntimeError" = .done 1 false true ∧
    Exec.handle parseCaught "OverflowError" = .escaped "OverflowError" ∧
    (∀ c ∈ ownClasses, Exec.handle evalCaught (Exec.convert evalConverted c) = .done 1 false true) := by
  decide +kernel

/-- `dispatch("<", (x, y))` on two plain numbers of any kind: the exact comparison, as 0 / 1 (used by the no-progress
    guard of `ka_range`) -/
theorem rnum_lt (n : Nat) (x y : Num) :
    rnum (fun nm as => dispatchV (n + 1) nm as []) "<" [x, y] = .ok (.int (if cmpLt x y then 1 else 0)) := by
  have h := rnum_cmp n .lt x y
  simpa only [cmpOpName, Compare.cmpNum, Compare.b2n] using h

end KaVerif.Pipe2
