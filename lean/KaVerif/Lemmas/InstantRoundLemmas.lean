import KaVerif.Model.Instant
import Mathlib.Data.Rat.Floor
import Mathlib.Tactic.Ring
import Mathlib.Tactic.Linarith

/-
  Helper lemmas for C17, second part: reading the ISO text the model's own printer writes, and
  CPython's seconds → microseconds rounding (`delta_new`/`accum` for a float argument).
-/
set_option linter.unusedSimpArgs false
set_option linter.unusedVariables false

namespace KaVerif.Instant
open KaVerif

/-! ## ISO text -/

theorem dig_ofNat : ∀ j, j < 10 → dig (Char.ofNat (48 + j)) = some j := by decide

theorem dig_dch (k : Nat) : dig (dch k) = some (k % 10) := by
  unfold dch; exact dig_ofNat (k % 10) (Nat.mod_lt _ (by decide))

theorem toNat_dch (k : Nat) : (dch k).toNat - 48 = k % 10 := by
  have h := dig_dch k
  unfold dig at h
  split at h
  · injection h
  · cases h

theorem num2_pad (n : Nat) (h : n < 100) : num2 (dch (n / 10)) (dch n) = some n := by
  unfold num2; rw [dig_dch, dig_dch]; simp only []; congr 1; omega

theorem num4_pad (n : Nat) (h : n < 10000) :
    num4 (dch (n / 1000)) (dch (n / 100)) (dch (n / 10)) (dch n) = some n := by
  unfold num4 num2; simp only [dig_dch]; congr 1; omega

theorem fracUs_pad6 (n : Nat) (h : n < 1000000) : fracUs (pad6 n) = some n := by
  unfold fracUs pad6
  simp only [List.isEmpty_cons, Bool.false_eq_true, if_false, List.all_cons, List.all_nil, dig_dch,
    Option.isSome_some, Bool.and_self, if_true, List.take, List.foldl, toNat_dch, List.length_cons,
    List.length_nil]
  congr 1; omega

theorem isoBuild_ok (y m d h mi s us : Nat) (hv : validDate y m d = true) (hh : h < 24) (hmi : mi < 60)
    (hs : s < 60) (hus : us < 1000000) :
    isoBuild y m d h mi s us = .ok ⟨(fromCivil y m d : Nat), ((h * 60 + mi) * 60 + s) * 1000000 + us⟩ := by
  unfold isoBuild mkDateTime
  rw [if_pos ⟨hv, hh, hmi, hs, hus⟩]

/-- the six literal forms, after `instant_from_iso`'s completion step, reach `fromisoformat` unchanged -/
theorem parse_date (y m d : Nat) (hy : y < 10000) (hm : m < 100) (hd : d < 100) (rest : List Char) :
    fromIsoFormat (textDate y m d ++ rest) = isoTime y m d rest := by
  simp [fromIsoFormat, textDate, pad4, pad2, num4_pad y hy, num2_pad m hm, num2_pad d hd]

theorem parse_hm (y m d h mi : Nat) (hh : h < 100) (hmi : mi < 100) (sep : Char) (hsep : sep = 'T' ∨ sep = ' ')
    (rest : List Char) :
    isoTime y m d (sep :: (textHM h mi ++ rest)) = isoSec y m d h mi rest := by
  simp [isoTime, textHM, pad2, num2_pad h hh, num2_pad mi hmi, hsep]

theorem parse_s (y m d h mi s : Nat) (hs : s < 100) :
    isoSec y m d h mi (':' :: pad2 s) = isoBuild y m d h mi s 0 := by
  simp [isoSec, pad2, num2_pad s hs]

theorem parse_su (y m d h mi s us : Nat) (hs : s < 100) (hus : us < 1000000) :
    isoSec y m d h mi (':' :: (pad2 s ++ '.' :: pad6 us)) = isoBuild y m d h mi s us := by
  have := fracUs_pad6 us hus
  simp [isoSec, pad2, num2_pad s hs, this]

theorem justYear_long (a b c d e : Char) (r : List Char) : justYear (a :: b :: c :: d :: e :: r) = false := rfl
theorem justYearMonth_long (a b c d e f g h : Char) (r : List Char) :
    justYearMonth (a :: b :: c :: d :: e :: f :: g :: h :: r) = false := rfl

theorem instantFromIso_full (y m d : Nat) (rest : List Char) :
    instantFromIso (textDate y m d ++ rest) = fromIsoFormat (textDate y m d ++ rest) := by
  simp [instantFromIso, textDate, pad4, pad2, justYear_long, justYearMonth_long]

theorem instantFromIso_year (y : Nat) (hy : y < 10000) :
    instantFromIso (pad4 y) = isoBuild y 1 1 0 0 0 0 := by
  have h4 := num4_pad y hy
  have h01 : num2 '0' '1' = some 1 := by decide
  simp [instantFromIso, pad4, justYear, h4, justYearMonth_long, fromIsoFormat, h01, isoTime]

theorem instantFromIso_yearMonth (y m : Nat) (hy : y < 10000) (hm : m < 100) :
    instantFromIso (pad4 y ++ '-' :: pad2 m) = isoBuild y m 1 0 0 0 0 := by
  have h4 := num4_pad y hy
  have h2 := num2_pad m hm
  have h01 : num2 '0' '1' = some 1 := by decide
  simp [instantFromIso, pad4, pad2, justYear, justYearMonth, h4, h2, justYearMonth_long, fromIsoFormat, h01, isoTime]

/-! ## the rounding function seconds ↦ microseconds -/

theorem floor_eq {q : Rat} {z : Int} (h1 : (z : Rat) ≤ q) (h2 : q < (z : Rat) + 1) : q.floor = z := by
  have hfl : q.floor = ⌊q⌋ := rfl
  rw [hfl, Int.floor_eq_iff]; exact ⟨h1, h2⟩

theorem floor_le' (q : Rat) : (q.floor : Rat) ≤ q := by
  have hfl : q.floor = ⌊q⌋ := rfl
  rw [hfl]; exact Int.floor_le q

theorem lt_floor_add_one' (q : Rat) : q < (q.floor : Rat) + 1 := by
  have hfl : q.floor = ⌊q⌋ := rfl
  rw [hfl]; exact Int.lt_floor_add_one q

theorem truncRat_intCast (s : Int) : truncRat (s : Rat) = s := by
  unfold truncRat
  split
  · have : (-(s : Rat)).floor = -s := floor_eq (by push_cast; exact le_refl _) (by push_cast; linarith)
    rw [this]; ring
  · exact floor_eq (le_refl _) (by linarith)

/-- `modf`: the fractional part has the sign of the argument and magnitude below one -/
theorem truncRat_frac (p : Rat) :
    -1 < p - (truncRat p : Rat) ∧ p - (truncRat p : Rat) < 1 := by
  unfold truncRat
  split
  · have h1 := floor_le' (-p); have h2 := lt_floor_add_one' (-p)
    push_cast; constructor <;> linarith
  · have h1 := floor_le' p; have h2 := lt_floor_add_one' p
    constructor <;> linarith

theorem tdSecondsRat_int (s : Int) : tdSecondsRat (s : Rat) = tdNorm (s * 1000000) := by
  unfold tdSecondsRat
  simp only [truncRat_intCast, sub_self, if_true]

theorem roundHalfEven_int (x : Int) : Num.roundHalfEven (x : Rat) = x := by
  unfold Num.roundHalfEven
  have : ((x : Rat)).floor = x := floor_eq (le_refl _) (by linarith)
  simp only [this, sub_self]
  norm_num

/-- the last step of `delta_new` is round-half-even of `x + leftover` -/
theorem roundLeftover_spec (x : Int) (f : Rat) (h1 : -1 < f) (h2 : f < 1) :
    x + roundLeftover x f = Num.roundHalfEven ((x : Rat) + f) := by
  have hodd : x % 2 = 0 ∨ x % 2 = 1 := Int.emod_two_eq_zero_or_one x
  unfold roundLeftover roundHalfAway Num.roundHalfEven
  by_cases hneg : f < 0
  · -- negative leftover
    have hfl : ((x : Rat) + f).floor = x - 1 := floor_eq (by push_cast; linarith) (by push_cast; linarith)
    by_cases hhalf : f = -(1/2)
    · subst hhalf
      have e1 : (-(-(1/2 : Rat)) + 1/2).floor = 1 := floor_eq (by norm_num) (by norm_num)
      simp only [hfl, hneg, if_true, e1]
      rcases hodd with ho | ho
      · have hx1 : (x - 1) % 2 ≠ 0 := by omega
        have e2 : (-((-(1/2 : Rat) + ((0 : Int) : Rat)) * (1/2)) + 1/2).floor = 0 := floor_eq (by norm_num) (by norm_num)
        have hlt : ((-(1/2 : Rat)) + ((0:Int):Rat)) * (1/2) < 0 := by norm_num
        simp only [ho, hlt, if_true, e2]
        norm_num [hx1]
      · have hx1 : (x - 1) % 2 = 0 := by omega
        have e2 : (((-(1/2 : Rat)) + ((1 : Int) : Rat)) * (1/2) + 1/2).floor = 0 := floor_eq (by norm_num) (by norm_num)
        have hlt : ¬ ((-(1/2 : Rat)) + ((1:Int):Rat)) * (1/2) < 0 := by norm_num
        simp only [ho, hlt, if_false, e2]
        norm_num [hx1]
        omega
    · by_cases hlow : f < -(1/2)
      · have e1 : (-f + 1/2).floor = 1 := floor_eq (by push_cast; linarith) (by push_cast; linarith)
        have hd1 : ¬ ((((-(1:Int)) : Int) : Rat) - f = 1/2) := by push_cast; intro h; linarith
        have hd2 : ¬ ((((-(1:Int)) : Int) : Rat) - f = -(1/2)) := by push_cast; intro h; apply hhalf; linarith
        simp only [hneg, if_true, e1, hd1, hd2, or_self, if_false, hfl]
        have hlt : (x : Rat) + f - ((x - 1 : Int) : Rat) < 1/2 := by push_cast; linarith
        simp only [hlt, if_true]; ring
      · have hgt : -(1/2) < f := lt_of_le_of_ne (not_lt.mp hlow) (Ne.symm hhalf)
        have e1 : (-f + 1/2).floor = 0 := floor_eq (by push_cast; linarith) (by push_cast; linarith)
        have hd1 : ¬ ((((-(0:Int)) : Int) : Rat) - f = 1/2) := by push_cast; intro h; linarith
        have hd2 : ¬ ((((-(0:Int)) : Int) : Rat) - f = -(1/2)) := by push_cast; intro h; linarith
        simp only [hneg, if_true, e1, hd1, hd2, or_self, if_false, hfl]
        have hlt : ¬ ((x : Rat) + f - ((x - 1 : Int) : Rat) < 1/2) := by push_cast; intro h; linarith
        have hgt' : (x : Rat) + f - ((x - 1 : Int) : Rat) > 1/2 := by push_cast; linarith
        simp only [hlt, if_false, hgt', if_true]; ring
  · have hnn : 0 ≤ f := not_lt.mp hneg
    have hfl : ((x : Rat) + f).floor = x := floor_eq (by linarith) (by linarith)
    by_cases hhalf : f = 1/2
    · subst hhalf
      have e1 : ((1/2 : Rat) + 1/2).floor = 1 := floor_eq (by norm_num) (by norm_num)
      simp only [hfl, hneg, if_false, e1]
      rcases hodd with ho | ho
      · have e2 : (((1/2 : Rat) + ((0 : Int) : Rat)) * (1/2) + 1/2).floor = 0 := floor_eq (by norm_num) (by norm_num)
        have hlt : ¬ (((1/2 : Rat)) + ((0:Int):Rat)) * (1/2) < 0 := by norm_num
        simp only [ho, hlt, if_false, e2]
        norm_num [ho]
      · have hx1 : x % 2 ≠ 0 := by omega
        have e2 : (((1/2 : Rat) + ((1 : Int) : Rat)) * (1/2) + 1/2).floor = 1 := floor_eq (by norm_num) (by norm_num)
        have hlt : ¬ (((1/2 : Rat)) + ((1:Int):Rat)) * (1/2) < 0 := by norm_num
        simp only [ho, hlt, if_false, e2]
        norm_num [hx1]
    · by_cases hlow : f < 1/2
      · have e1 : (f + 1/2).floor = 0 := floor_eq (by push_cast; linarith) (by push_cast; linarith)
        have hd1 : ¬ ((((0:Int)) : Rat) - f = 1/2) := by push_cast; intro h; linarith
        have hd2 : ¬ ((((0:Int)) : Rat) - f = -(1/2)) := by push_cast; intro h; apply hhalf; linarith
        simp only [hneg, if_false, e1, hd1, hd2, or_self, hfl]
        have hlt : (x : Rat) + f - (x : Rat) < 1/2 := by linarith
        simp only [hlt, if_true]; ring
      · have hgt : 1/2 < f := lt_of_le_of_ne (not_lt.mp hlow) (Ne.symm hhalf)
        have e1 : (f + 1/2).floor = 1 := floor_eq (by push_cast; linarith) (by push_cast; linarith)
        have hd1 : ¬ ((((1:Int)) : Rat) - f = 1/2) := by push_cast; intro h; linarith
        have hd2 : ¬ ((((1:Int)) : Rat) - f = -(1/2)) := by push_cast; intro h; linarith
        simp only [hneg, if_false, e1, hd1, hd2, or_self, hfl]
        have hlt : ¬ ((x : Rat) + f - (x : Rat) < 1/2) := by intro h; linarith
        have hgt' : (x : Rat) + f - (x : Rat) > 1/2 := by linarith
        simp only [hlt, if_false, hgt', if_true]

/-- **seconds ↦ microseconds.**  For a double of exact value `r`, CPython's two-stage computation
    (whole seconds, then the double product `p = fl(1e6·frac)` split again) returns the round-half-even
    of `trunc(r)·10⁶ + p`. -/
theorem tdSecondsRat_spec (r p : Rat) (hp : dbl (1000000 * (r - (truncRat r : Rat))) = some p) :
    tdSecondsRat r = tdNorm (Num.roundHalfEven ((truncRat r * 1000000 : Int) + p)) := by
  unfold tdSecondsRat
  simp only []
  split
  · rename_i h0
    rw [h0] at hp
    have hz : dbl (1000000 * 0) = some 0 := by decide +kernel
    rw [hz] at hp; injection hp with hp; subst hp
    rw [add_zero, roundHalfEven_int]
  · rw [hp]
    simp only []
    obtain ⟨f1, f2⟩ := truncRat_frac p
    split
    · rename_i hf0
      have : ((truncRat r * 1000000 : Int) : Rat) + p = ((truncRat r * 1000000 + truncRat p : Int) : Rat) := by
        push_cast; linarith
      rw [this, roundHalfEven_int]
    · have := roundLeftover_spec (truncRat r * 1000000 + truncRat p) (p - (truncRat p : Rat)) f1 f2
      rw [this]; congr 2; push_cast; ring

/-- half-even rounding is within half a unit -/
theorem roundHalfEven_near (q : Rat) :
    |(Num.roundHalfEven q : Rat) - q| ≤ 1/2 := by
  unfold Num.roundHalfEven
  have h1 := floor_le' q; have h2 := lt_floor_add_one' q
  simp only []
  split
  · rw [abs_le]; constructor <;> linarith
  · split
    · rw [abs_le]; push_cast; constructor <;> linarith
    · rename_i ha hb
      have : q - (q.floor : Rat) = 1/2 := le_antisymm (not_lt.mp hb) (not_lt.mp ha)
      split
      · rw [abs_le]; constructor <;> linarith
      · rw [abs_le]; push_cast; constructor <;> linarith

/-- integer numbers of seconds (up to 2⁵³) are converted exactly -/
theorem spanUs_int (s : Int) (h : s.natAbs ≤ 9007199254740992) : spanUs (.int s) = tdNorm (s * 1000000) := by
  have h1 : secondsOf (.int s) = .ok (s : Rat) := by
    simp only [secondsOf, floatOfInt, if_pos h]
  unfold spanUs
  rw [h1]
  simp only [bind, Except.bind]
  exact tdSecondsRat_int s

theorem instantPlusQuantity_int (I : Inst) (s : Int) (dim : List Rat) (hd : isTimeDim dim = true)
    (h : s.natAbs ≤ 9007199254740992) :
    instantPlusQuantity I (.int s) dim = plusSeconds I (s : Rat) := by
  have h1 : secondsOf (.int s) = .ok (s : Rat) := by
    simp only [secondsOf, floatOfInt, if_pos h]
  unfold instantPlusQuantity validateTime
  rw [h1]
  simp only [hd, if_true, bind, Except.bind]

end KaVerif.Instant
