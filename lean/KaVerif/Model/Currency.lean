import KaVerif.Model.UserFiles
/-
  Model of Ka's currency conversion (property C20), over exact rationals (`Rat`):
    src/ka/units.py     380-420  registration: `mul = base.dollar_rate / c.dollar_rate`, on the cash dimension
                                 (the loop itself, with the name/symbol clash rules, is `UserFiles.registerAll`)
    src/ka/eval.py      make_quantity / convert_quantity / compose_units for a single unit with exponent 1
    src/ka/currency.py  scrape_and_store_rates_to (the export writer); parse_currency_data is `UserFiles.parseCurrencyData`

  No Mathlib.  Float rounding is not modelled: a finite Python float is its exact rational value.
-/
namespace KaVerif.Currency
open KaVerif.UserFiles

/-- the rational value of a rate (`0` for inf/nan: such rows are excluded by the theorems' hypotheses) -/
def rateQ (c : Cur) : Rat :=
  match c.rate with
  | .fin q => q
  | _ => 0

/-- `base = next(c for c in CURRENCY_DATA if c.symbol == BASE_CURRENCY)` -/
def baseRow (t : Table) (b : Str) : Option Cur := t.find? (fun c => c.symbol == b)

/-- `mul = base.dollar_rate / c.dollar_rate` -/
def unitMultiple (base row : Cur) : Rat := rateQ base / rateQ row

/-- `compose_units` for one unit with exponent 1 and no offset:
    `multiple = 1; if unit.multiple != 1: multiple *= unit.multiple ** 1` -/
def compose (m : Rat) : Rat := if m ≠ 1 then 1 * m else 1

/-- `make_quantity(x, unit)`: `Quantity(multiple*magnitude + offset, qv)` -/
def makeQuantity (m x : Rat) : Rat := compose m * x + 0

/-- `convert_quantity(q, unit)`: `(quantity.mag - offset) / multiple` -/
def convertQuantity (m q : Rat) : Rat := (q - 0) / compose m

/-- `x A to B` under base `base`, for the rows `A`, `B` the two units were registered from -/
def convert (base rowA rowB : Cur) (x : Rat) : Rat :=
  convertQuantity (unitMultiple base rowB) (makeQuantity (unitMultiple base rowA) x)

/-- `lookup_unit` restricted to the registered currency units: by name first, then by symbol
    (plural names and prefixes are C13's subject) -/
def lookupCash (reg : Reg) (u : Str) : Option Cur :=
  match reg.units.find? (fun e => e.2.1 == u) with
  | some e => some e.2.2
  | none =>
    match reg.units.find? (fun e => e.1 == u) with
    | some e => some e.2.2
    | none => none

/-- `x A to B` for unit names `A`, `B`, with table `t`, base currency code `b` and the registered units `reg` -/
def convertUnits (t : Table) (reg : Reg) (b A B : Str) (x : Rat) : Option Rat :=
  match baseRow t b, lookupCash reg A, lookupCash reg B with
  | some base, some ra, some rb => some (convert base ra rb x)
  | _, _, _ => none

/-- one row of the export: `",".join([c.symbol, c.name, str(c.dollar_rate)])` -/
def rowText (showRate : Rate → Str) (c : Cur) : Str :=
  c.symbol ++ cComma :: (c.name ++ cComma :: showRate c.rate)

/-- `scrape_and_store_rates_to`: every row followed by `"\n"` -/
def exportTable (showRate : Rate → Str) : Table → Str
  | [] => []
  | c :: cs => rowText showRate c ++ cNL :: exportTable showRate cs

end KaVerif.Currency
