import KaVerif.Model.UserFiles
import KaVerif.Gen.Caught
import KaVerif.Gen.ConfigProps
import KaVerif.Gen.CurrencyData
/-
  The model of the per-user files instantiated with the tables GENERATED from /repo:
  the `try/except` structure, the ConfigProperties table, the currency constants.
-/
namespace KaVerif.UserFiles

/-- `ConfigProperties`, in `read_config`'s scan order -/
def genProps : List CfgProp :=
  Gen.ConfigProps.props.map (fun (n, d, nu, b) => ⟨n, d, nu, b⟩)

/-- the constants of the running code -/
def genConsts : Consts :=
  ⟨genProps, Gen.CurrencyData.defaultText, Gen.CurrencyData.defaultBase,
   Gen.CurrencyData.specialNames, Gen.CurrencyData.specialSymbols⟩

/-- the `try/except` structure of the running code -/
abbrev genGuard : Guards := Gen.Caught.guard

end KaVerif.UserFiles
