/-
  C06 — the control structure of interpret.execute / eval.eval_parse_tree / error() /
  execute_interpreter_command, over abstract stages.
  Anchors: interpret.py execute (213-330), error (364-377), execute_interpreter_command (198-211);
  eval.py eval_parse_tree (53-61); cli.py main (35-37).
  Which exception classes each `try` catches comes from Gen/Exec.lean (regenerated from the source).
  Import-free.
-/
namespace KaVerif.Exec

/-- what the four stages of one `execute` call do: `none` = completes, `some cls` = raises `cls` -/
structure Stages where
  lex : Option String          -- tokenise(s)
  parse : Option String        -- parse_tokens(tokens)
  evalTree : Option String     -- eval_node(root) inside eval_parse_tree's try (before conversion)
  display : Option String      -- reduce_result / display_result / plotting, outside eval_parse_tree
deriving Repr, Inhabited

/-- observable outcome of `execute`: status and which streams received text, or an escaping class -/
inductive Outcome where
  | done (status : Nat) (outNonEmpty errNonEmpty : Bool)
  | escaped (cls : String)
deriving DecidableEq, Repr, Inhabited

/-- a `try` with handlers `(class, status)`: a caught class returns its status with the diagnostic on
    the error stream (status 0 handlers — exit / interrupt signals — write a newline or nothing) -/
def handle (caught : List (String × Nat)) (cls : String) : Outcome :=
  match caught.lookup cls with
  | some 1 => .done 1 false true
  | some k => .done k (cls == "KeyboardInterrupt") false
  | none => .escaped cls

/-- `eval_parse_tree`: host exceptions raised while evaluating the tree are converted -/
def convert (conv : List (String × String)) (cls : String) : String :=
  (conv.lookup cls).getD cls

/-- `interpret.execute` -/
def execute (lexC parseC evalC : List (String × Nat)) (conv : List (String × String)) (st : Stages) : Outcome :=
  match st.lex with
  | some c => handle lexC c
  | none =>
    match st.parse with
    | some c => handle parseC c
    | none =>
      match st.evalTree with
      | some c => handle evalC (convert conv c)
      | none =>
        match st.display with
        | some c => handle evalC c
        | none => .done 0 true false

/-! ### error(): the position marker -/

structure Marker where
  contextLine : List Char     -- INDENT spaces ++ left fade ++ s[low:high] ++ right fade
  caretLine : List Char       -- spaces up to the caret ++ "^"
deriving Repr

/-- the two extra lines `error(msg, index, s, errout)` prints for a non-empty input -/
def marker (ctx indent : Nat) (s : List Char) (index : Nat) : Marker :=
  let low := index - ctx                       -- max(0, index - ERROR_CONTEXT_SIZE)
  let high := min s.length (index + ctx + 1)
  let leftFade := if low = 0 then [] else ['.', '.', '.']
  let rightFade := if high = s.length then [] else ['.', '.', '.']
  { contextLine := List.replicate indent ' ' ++ leftFade ++ (s.drop low).take (high - low) ++ rightFade,
    caretLine := List.replicate (indent + leftFade.length + index - low) ' ' ++ ['^'] }

/-- column of the caret -/
def Marker.column (m : Marker) : Nat := m.caretLine.length - 1

/-! ### execute_interpreter_command -/

inductive CmdOutcome where
  | unknown                         -- "Unknown interpreter command…" + help
  | wrongArity (expected got : Nat)
  | run (names : List String) (args : List String)
deriving DecidableEq, Repr

/-- the words after the `%` (already split on whitespace) -/
def interpretCommand (commands : List (List String × Nat)) (words : List String) : CmdOutcome :=
  let cmdName := words.headD ""              -- `args[0] if args else ""`
  let args := words.drop 1
  match commands.find? (fun c => c.1.contains cmdName) with
  | none => .unknown
  | some (names, nargs) => if nargs != args.length then .wrongArity nargs args.length else .run names args

end KaVerif.Exec
