import KaVerif.Model.Num
/-
  Tokens as produced by src/ka/tokens.py: a tag, the half-open span in the input,
  and the metadata the parser reads (`value` for numbers/strings/instants, `name`
  for identifiers).  Shared by the lexer model (C11) and the parser model (C02).
-/
namespace KaVerif

/-- `Token.tag`: 'number', 'identifier', 'string', 'instant', or the spelling of a constant token
    (`+`, `..`, `<=`, `to`, `in`, …) exactly as listed in `CONST_TOKENS`. -/
inductive Tag where
  | num | var | str | inst
  | const (spelling : String)
deriving DecidableEq, Repr, Inhabited

inductive TokVal where
  | none
  | num (n : Num)          -- value of a numeric literal BEFORE `simplify_number` (the parser applies it)
  | name (s : String)      -- identifier name
  | text (s : String)      -- raw text between the delimiters of a string / instant literal
deriving Inhabited

structure Token where
  tag : Tag
  b : Nat                  -- begin_index_incl
  e : Nat                  -- end_index_excl
  val : TokVal := .none
deriving Inhabited

def Tag.render : Tag → String
  | .num => "number" | .var => "identifier" | .str => "string" | .inst => "instant"
  | .const s => s

end KaVerif
