import KaVerif.Model.Num
import KaVerif.Model.Units
/-
  C03 / C04 — quantities: unit signatures, construction, conversion, and the operator wrapper.
  Anchors: eval.py make_quantity, convert_quantity, compose_units (136-190);
  functions.py register_quantities_op (351-379) and the loops that register + - (same dimension),
  the six comparisons (same dimension, plain result) and * / (dimension vectors added / subtracted);
  units.py Vector / QuantityVector arithmetic.
  The unit table is a parameter (`Units.UnitTable`), instantiated with Gen/Units in the driver.
-/
namespace KaVerif.Qty
open KaVerif Num Units

abbrev Dim := List Int

def Dim.zero (n : Nat) : Dim := List.replicate n 0
def Dim.add (a b : Dim) : Dim := List.zipWith (· + ·) a b
def Dim.sub (a b : Dim) : Dim := List.zipWith (· - ·) a b
def Dim.smul (k : Int) (a : Dim) : Dim := a.map (k * ·)
def Dim.isZero (a : Dim) : Bool := a.all (· == 0)

/-- a stored table number as the Python value it is -/
def numOf (n : Int) (d : Nat) (k : NumKind) : Num :=
  match k with
  | .int => .int n
  | .frac => .frac (mkRat n d)
  | .float => .flt (ratToFloat (mkRat n d))

/-- a unit signature: `a b^n | c d^m` -/
structure Sig where
  units : List (List Nat × Int)       -- (name as code points, exponent)
  inverted : List (List Nat × Int)
deriving Repr, Inhabited

/-- multiple of the Unit object `lookup_unit` returns: for a prefixed unit the Python product
    `prefix.multiplier * unit.multiple` -/
def resolvedMultiple (t : UnitTable) (r : Resolved) (name : List Nat) : Except Err Num :=
  if r.prefixed then
    -- recompute the product with Python's kinds (a float unit rounds the product)
    match lookupHit t name with
    | some ⟨_, some p⟩ => pyLin .mul (numOf p.mulNum p.mulDen p.mulKind) (numOf r.unit.mulNum r.unit.mulDen r.unit.mulKind)
    | _ => .ok (numOf r.mulNum r.mulDen r.mulKind)
  else .ok (numOf r.mulNum r.mulDen r.mulKind)

/-- Python's raw `x ** k` for an int exponent (no strict_pow guard is involved for integers) -/
def rawPowInt (x : Num) (k : Int) : Except Err Num := pyPow x (.int k)

structure Composed where
  dim : Dim
  multiple : Num
  offset : Num

/-- the new multiple after one unit: `if unit.multiple != 1: multiple *= unit.multiple ** exp` -/
def stepMultiple (acc um : Num) (exp : Int) : Except Err Num :=
  if cmpEq um (.int 1) then .ok acc
  else do
    let p ← rawPowInt um exp
    let m ← pyLin .mul acc p
    -- fix 3818d9a: float * float overflows to inf silently; the code now raises OverflowError for an infinite factor
    match m with
    | .flt x => if x.isInf then .error .overflow else .ok m
    | _ => .ok m

/-- the two offset rules: an offset unit cannot be combined with others, nor carry an exponent ≠ 1 -/
def offsetBad (offset : Num) (n : Nat) (exp : Int) : Bool :=
  (!(cmpEq offset (.int 0)) && decide (n > 1)) || (!(cmpEq offset (.int 0)) && exp != 1)

/-- one iteration of the loop of `compose_units` (n = number of unit specs in the signature) -/
def stepSpec (t : UnitTable) (n : Nat) (acc : Composed) (spec : List Nat × Int × Bool) : Except Err Composed :=
  match lookupUnit t spec.1 with
  | .error _ => .error .eval            -- InvalidPrefixError → EvalError
  | .ok none => .error .eval            -- unknown unit
  | .ok (some r) =>
    let exp := if spec.2.2 then -spec.2.1 else spec.2.1
    match resolvedMultiple t r spec.1 with
    | .error e => .error e
    | .ok um =>
      match stepMultiple acc.multiple um exp with
      | .error e => .error e
      | .ok multiple =>
        let offset := numOf r.unit.offNum r.unit.offDen r.unit.offKind
        if offsetBad offset n exp then .error .eval
        else .ok ⟨Dim.add acc.dim (Dim.smul exp r.unit.dim), multiple, offset⟩

/-- `compose_units` -/
def composeUnits (t : UnitTable) (sig : Sig) : Except Err Composed :=
  let specs : List (List Nat × Int × Bool) :=
    sig.units.map (fun p => (p.1, p.2, false)) ++ sig.inverted.map (fun p => (p.1, p.2, true))
  specs.foldlM (stepSpec t specs.length) ⟨Dim.zero t.baseUnits.length, .int 1, .int 0⟩

/-- values of the quantity fragment -/
inductive QVal where
  | num (n : Num)
  | qty (mag : Num) (dim : Dim)
deriving Inhabited

/-- `make_quantity`: only a plain number can be tagged; base magnitude = multiple*x + offset, simplified -/
def makeQuantity (t : UnitTable) (v : QVal) (sig : Sig) : Except Err QVal :=
  match v with
  | .qty _ _ => .error .eval
  | .num x => do
    let c ← composeUnits t sig
    let m ← pyLin .mul c.multiple x
    let m ← pyLin .add m c.offset
    let m ← simplify m
    .ok (.qty m c.dim)

/-- `convert_quantity`: same dimension required; (mag − offset) / multiple through dispatch -/
def convertQuantity (t : UnitTable) (v : QVal) (sig : Sig) : Except Err QVal := do
  let c ← composeUnits t sig
  match v with
  | .num _ => .error .eval
  | .qty mag dim =>
    if dim != c.dim then .error .eval
    else do
      let d ← binop .sub mag c.offset
      let r ← binop .div d c.multiple
      .ok (.num r)

inductive QOp where
  | add | sub | mul | div
  | lt | le | eq | ne
deriving DecidableEq, Repr, Inhabited

def numOp (op : QOp) (x y : Num) : Except Err Num :=
  match op with
  | .add => binop .add x y | .sub => binop .sub x y | .mul => binop .mul x y | .div => binop .div x y
  | .lt => .ok (.int (if cmpLt x y then 1 else 0)) | .le => .ok (.int (if cmpLe x y then 1 else 0))
  | .eq => .ok (.int (if cmpEq x y then 1 else 0)) | .ne => .ok (.int (if cmpEq x y then 0 else 1))

/-- `register_quantities_op`'s `f(q1, q2)` -/
def qtyOp (op : QOp) (x : Num) (dx : Dim) (y : Num) (dy : Dim) : Except Err QVal :=
  match op with
  | .mul => do let m ← numOp op x y; .ok (.qty m (Dim.add dx dy))
  | .div => do let m ← numOp op x y; .ok (.qty m (Dim.sub dx dy))
  | .add | .sub =>
    if dx != dy then .error .incompatible else do let m ← numOp op x y; .ok (.qty m dx)
  | _ =>
    if dx != dy then .error .incompatible else do let m ← numOp op x y; .ok (.num m)

/-- dispatch of a binary operator on the fragment's values (number lifted to the zero vector) -/
def applyOp (nbase : Nat) (op : QOp) (a b : QVal) : Except Err QVal :=
  match a, b with
  | .num x, .num y => do let m ← numOp op x y; .ok (.num m)
  | .qty x dx, .qty y dy => qtyOp op x dx y dy
  | .num x, .qty y dy => qtyOp op x (Dim.zero nbase) y dy
  | .qty x dx, .num y => qtyOp op x dx y (Dim.zero nbase)

/-- expression trees over quantity literals, numbers, the operators and `to` -/
inductive QExp where
  | lit (n : Num)                       -- a plain number
  | tag (e : QExp) (sig : Sig)          -- `e U`
  | bin (op : QOp) (a b : QExp)
  | conv (e : QExp) (sig : Sig)         -- `e to U`
deriving Inhabited

def evalQ (t : UnitTable) : QExp → Except Err QVal
  | .lit n => .ok (.num n)
  | .tag e sig => do let v ← evalQ t e; makeQuantity t v sig
  | .bin op a b => do let x ← evalQ t a; let y ← evalQ t b; applyOp t.baseUnits.length op x y
  | .conv e sig => do let v ← evalQ t e; convertQuantity t v sig

/-! ### the specification side: dimensions only -/

/-- dimension of a signature: Σ k·dim u over the units, minus the inverted ones; `none` when a
    name does not resolve or a prefix is refused -/
def sigDim (t : UnitTable) (sig : Sig) : Option Dim :=
  let specs : List (List Nat × Int) := sig.units ++ sig.inverted.map (fun p => (p.1, -p.2))
  specs.foldlM (fun acc p =>
    match lookupUnit t p.1 with
    | .ok (some r) => some (Dim.add acc (Dim.smul p.2 r.unit.dim))
    | _ => none) (Dim.zero t.baseUnits.length)

/-- abstract interpretation over dimensions: `some none` = a plain number, `some (some d)` = a quantity of
    dimension d, `none` = ill-dimensioned (or an unknown unit) -/
def dimOf (t : UnitTable) : QExp → Option (Option Dim)
  | .lit _ => some none
  | .tag e sig =>
    match dimOf t e with
    | some none => (sigDim t sig).map some
    | _ => none
  | .bin op a b =>
    match dimOf t a, dimOf t b with
    | some x, some y =>
      match x, y with
      | none, none => some none
      | _, _ =>
        let dx := x.getD (Dim.zero t.baseUnits.length)
        let dy := y.getD (Dim.zero t.baseUnits.length)
        match op with
        | .mul => some (some (Dim.add dx dy))
        | .div => some (some (Dim.sub dx dy))
        | .add | .sub => if dx = dy then some (some dx) else none
        | _ => if dx = dy then some none else none
    | _, _ => none
  | .conv e sig =>
    match dimOf t e, sigDim t sig with
    | some (some d), some d' => if d = d' then some none else none
    | _, _ => none

def QVal.dim? : QVal → Option Dim
  | .num _ => none
  | .qty _ d => some d

end KaVerif.Qty
