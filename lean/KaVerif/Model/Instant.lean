import KaVerif.Model.Num
/-
  Instants (C17): Ka's `Instant` wraps a naive Python `datetime`; all arithmetic is
  `datetime`/`timedelta` arithmetic of CPython 3.12.

  Anchors: src/ka/types.py:206-283 (Instant, instant_lt…, instant_from_iso, get_year…,
           floor_instant, ceil_instant, instant_minus_instant, instant_±_quantity/int,
           validate_time), src/ka/functions.py:697-718 (registrations, `intify` wrappers),
           src/ka/parse.py:226-228 (parse_instant).
  CPython: Modules/_datetimemodule.c (ymd_to_ord, ord_to_ymd, delta_new/accum,
           add_datetime_timedelta, delta_total_seconds, parse_isoformat_date/time).

  Import-free (apart from the numeric tower) and executable.  No Lean `Float` is used inside
  the calendar/µs arithmetic: a double enters as its exact rational value
  (`Num.floatToRat`) and the one IEEE operation CPython performs on the way
  (`1e6 * fracpart`) is modelled by `dbl` = round-to-nearest-even on rationals.

  An instant is (day number since 0001-01-01, 0-based; microsecond of the day).
  Only naive datetimes are modelled (no UTC offset).
-/
namespace KaVerif.Instant
open KaVerif

/-! ## Proleptic Gregorian calendar (CPython's `is_leap`, `days_in_month`,
    `days_before_month`, `days_before_year`, `ymd_to_ord`, `ord_to_ymd`) -/

def isLeap (y : Nat) : Bool := decide (y % 4 = 0 ∧ (y % 100 ≠ 0 ∨ y % 400 = 0))

/-- `_days_in_month[m]`, February of a leap year 29. -/
def dimL (leap : Bool) (m : Nat) : Nat :=
  match m with
  | 1 => 31 | 2 => if leap then 29 else 28 | 3 => 31 | 4 => 30 | 5 => 31 | 6 => 30
  | 7 => 31 | 8 => 31 | 9 => 30 | 10 => 31 | 11 => 30 | 12 => 31 | _ => 0

def daysInMonth (y m : Nat) : Nat := dimL (isLeap y) m

/-- `_days_before_month[m] + (m > 2 && leap)`. -/
def dbmL (leap : Bool) (m : Nat) : Nat :=
  (match m with
   | 1 => 0 | 2 => 31 | 3 => 59 | 4 => 90 | 5 => 120 | 6 => 151
   | 7 => 181 | 8 => 212 | 9 => 243 | 10 => 273 | 11 => 304 | 12 => 334 | _ => 0)
  + (if 2 < m ∧ leap = true then 1 else 0)

/-- `days_before_year(y)` = number of days before January 1st of year `y`. -/
def daysBeforeYear (y : Nat) : Nat :=
  let p := y - 1
  p * 365 + p / 4 - p / 100 + p / 400

/-- what `datetime(y, m, d)` accepts -/
def validDate (y m d : Nat) : Bool :=
  decide (1 ≤ y ∧ y ≤ 9999 ∧ 1 ≤ m ∧ m ≤ 12 ∧ 1 ≤ d ∧ d ≤ daysInMonth y m)

/-- `ymd_to_ord(y, m, d) - 1`: day number, 0001-01-01 ↦ 0. -/
def fromCivil (y m d : Nat) : Nat := daysBeforeYear y + dbmL (isLeap y) m + (d - 1)

/-- the month/day part of `ord_to_ymd`: estimate `(n + 50) >> 5`, corrected downwards when the
    estimate is one too large (`r` = 0-based day of the year, `leap` as computed from n1/n4/n100). -/
def monthDayOf (year : Nat) (leap : Bool) (r : Nat) : Nat × Nat :=
  let month := (r + 50) / 32
  let preceding := dbmL leap month
  if r < preceding then
    let month' := month - 1
    let preceding' := preceding - daysInMonth year month'
    (month', r - preceding' + 1)
  else (month, r - preceding + 1)

/-- `ord_to_ymd(n + 1)`, line by line. -/
def toCivil (n : Nat) : Nat × Nat × Nat :=
  let n400 := n / 146097
  let n100 := n % 146097 / 36524
  let n4 := n % 146097 % 36524 / 1461
  let n1 := n % 146097 % 36524 % 1461 / 365
  let r := n % 146097 % 36524 % 1461 % 365
  let year := n400 * 400 + 1 + n100 * 100 + n4 * 4 + n1
  if n1 = 4 ∨ n100 = 4 then (year - 1, 12, 31)
  else
    let leap : Bool := decide (n1 = 3 ∧ (n4 ≠ 24 ∨ n100 = 3))
    let md := monthDayOf year leap r
    (year, md.1, md.2)

/-! ## Instants -/

def usPerSec : Nat := 1000000
def usPerDay : Nat := 86400000000
/-- `date(9999,12,31).toordinal()`: day numbers 0 … maxDay-1 are the years 1 … 9999 -/
def maxDay : Nat := 3652059

structure Inst where
  day : Int
  us : Nat
deriving DecidableEq, Repr, Inhabited

namespace Inst

/-- a representable naive datetime -/
def valid (i : Inst) : Prop := 0 ≤ i.day ∧ i.day < (maxDay : Int) ∧ i.us < usPerDay

instance (i : Inst) : Decidable i.valid := by unfold valid; exact inferInstance

/-- microseconds since 0001-01-01T00:00:00 -/
def total (i : Inst) : Int := i.day * (usPerDay : Int) + (i.us : Int)

def year (i : Inst) : Nat := (toCivil i.day.toNat).1
def month (i : Inst) : Nat := (toCivil i.day.toNat).2.1
def dayOfMonth (i : Inst) : Nat := (toCivil i.day.toNat).2.2
def hour (i : Inst) : Nat := i.us / 3600000000
def minute (i : Inst) : Nat := i.us / 60000000 % 60
def second (i : Inst) : Nat := i.us / 1000000 % 60
def micro (i : Inst) : Nat := i.us % 1000000

end Inst

/-- `datetime(y, m, d, h, mi, s, us)`: `ValueError` when a field is out of range. -/
def mkDateTime (y m d h mi s us : Nat) : Except Err Inst :=
  if validDate y m d = true ∧ h < 24 ∧ mi < 60 ∧ s < 60 ∧ us < 1000000 then
    .ok ⟨(fromCivil y m d : Nat), ((h * 60 + mi) * 60 + s) * 1000000 + us⟩
  else .error (.py "ValueError")

/-! ## timedelta -/

/-- `microseconds_to_delta`: normalisation to (days, seconds, µs) rejects |days| > 999999999
    with `OverflowError`.  A timedelta is represented by its total number of microseconds. -/
def tdNorm (k : Int) : Except Err Int :=
  if -999999999 ≤ k / (usPerDay : Int) ∧ k / (usPerDay : Int) ≤ 999999999 then .ok k else .error .overflow

/-- `timedelta(days=n)` for a Python int. -/
def tdDays (n : Int) : Except Err Int := tdNorm (n * (usPerDay : Int))

/-- C `modf` integer part / Python `int()`: truncation toward zero -/
def truncRat (r : Rat) : Int := if r < 0 then -((-r).floor) else r.floor

/-- C `round()`: nearest integer, halves away from zero -/
def roundHalfAway (q : Rat) : Int := if q < 0 then -((-q + 1/2).floor) else (q + 1/2).floor

/-- exact rational value of the finite IEEE double with (unsigned) bit pattern `b` -/
def bitsToRat (b : Nat) : Rat :=
  let e : Nat := b / 2^52 % 2^11
  let m : Nat := b % 2^52
  if e = 0 then ((m : Int) : Rat) / ((2:Rat)^(1074:Nat))
  else
    let mant : Int := ((2^52 + m : Nat) : Int)
    if e ≥ 1075 then ((mant * (2:Int)^(e - 1075) : Int) : Rat)
    else (mant : Rat) / ((2:Rat)^(1075 - e))

/-- the IEEE double nearest to `q` (ties to even) as an exact rational; `none` = overflow.
    Same rounding as `Num.ratToFloat`, without going through `Float`. -/
def dbl (q : Rat) : Option Rat :=
  match Num.posRatToBits q.num.natAbs q.den with
  | some b => some (if q.num < 0 then -(bitsToRat b) else bitsToRat b)
  | none => none

/-- the last step of `delta_new`: `whole_us = round(leftover_us)`, and when that is exactly
    halfway, `2.0 * round((leftover_us + x_is_odd) * 0.5) - x_is_odd` (round-half-even of `x + leftover`) -/
def roundLeftover (x : Int) (f : Rat) : Int :=
  let whole := roundHalfAway f
  let diff := (whole : Rat) - f
  if diff = 1/2 ∨ diff = -(1/2) then
    let odd : Int := x % 2
    2 * roundHalfAway ((f + (odd : Rat)) * (1/2)) - odd
  else whole

/-- `timedelta(seconds=x)` for a finite double of exact value `r` (`accum` on a float argument):
    `modf`, the whole seconds times 10⁶, then `1e6 * fracpart` **in double arithmetic**, `modf`
    again, and the leftover fraction of a microsecond rounded half-even. -/
def tdSecondsRat (r : Rat) : Except Err Int :=
  let ip := truncRat r
  let fr := r - (ip : Rat)
  let sum := ip * 1000000
  if fr = 0 then tdNorm sum
  else
    match dbl (1000000 * fr) with
    | none => .error .overflow      -- cannot happen: |1e6·fr| < 1e6
    | some p =>
      let ip2 := truncRat p
      let f2 := p - (ip2 : Rat)
      let x := sum + ip2
      if f2 = 0 then tdNorm x else tdNorm (x + roundLeftover x f2)

/-- `float(n)` for a Python int, as the exact value of the resulting double: every integer of
    magnitude ≤ 2⁵³ is a double, so the conversion is exact there (IEEE 754); beyond, the nearest
    double, ties to even; `none` = OverflowError. -/
def floatOfInt (n : Int) : Option Rat :=
  if n.natAbs ≤ 9007199254740992 then some (n : Rat) else dbl (n : Rat)

/-- `float(q.mag)` as the exact value of the resulting double.  `OverflowError` for an int /
    Fraction beyond the double range; an infinite float reaches `PyLong_FromDouble`
    (`OverflowError`), a NaN gives `ValueError`. -/
def secondsOf : Num → Except Err Rat
  | .int n => match floatOfInt n with | some r => .ok r | none => .error .overflow
  | .frac q => match dbl q with | some r => .ok r | none => .error .overflow
  | .flt x => if x.isNaN then .error (.py "ValueError")
              else if x.isFinite then .ok (Num.floatToRat x) else .error .overflow

/-! ## datetime ± timedelta, datetime − datetime -/

/-- `add_datetime_timedelta(dt, delta, ±1)` with `k` = ± the delta's microseconds:
    `OverflowError` ("date value out of range") outside years 1 … 9999. -/
def addUs (i : Inst) (k : Int) : Except Err Inst :=
  let t := i.total + k
  let d := t / (usPerDay : Int)
  if 0 ≤ d ∧ d < (maxDay : Int) then .ok ⟨d, (t % (usPerDay : Int)).toNat⟩ else .error .overflow

/-- `(a.dt - b.dt)` in microseconds -/
def diffUs (a b : Inst) : Int := a.total - b.total

/-! ## src/ka/types.py -/

/-- `SECONDS == quantity.qv` on the exponent vector over BASE_UNITS = [kg, m, s, A, K, mol, cd(, currency)] -/
def isTimeDim (dim : List Rat) : Bool :=
  match dim with
  | a :: b :: c :: rest => decide (a = 0) && decide (b = 0) && decide (c = 1) && rest.all (fun x => decide (x = 0))
  | _ => false

/-- `validate_time` -/
def validateTime (dim : List Rat) : Except Err Unit :=
  if isTimeDim dim then .ok () else .error .runtime

/-- `timedelta(seconds=float(q.mag))` in microseconds: the rounding function from a span to µs -/
def spanUs (mag : Num) : Except Err Int := do
  let r ← secondsOf mag
  tdSecondsRat r

/-- `inst.dt + timedelta(seconds=x)` for a finite double of exact value `r` -/
def plusSeconds (i : Inst) (r : Rat) : Except Err Inst := do
  let k ← tdSecondsRat r
  addUs i k

def minusSeconds (i : Inst) (r : Rat) : Except Err Inst := do
  let k ← tdSecondsRat r
  addUs i (-k)

/-- `instant_plus_quantity` -/
def instantPlusQuantity (i : Inst) (mag : Num) (dim : List Rat) : Except Err Inst := do
  validateTime dim
  let r ← secondsOf mag
  plusSeconds i r

/-- `instant_minus_quantity` -/
def instantMinusQuantity (i : Inst) (mag : Num) (dim : List Rat) : Except Err Inst := do
  validateTime dim
  let r ← secondsOf mag
  minusSeconds i r

/-- `instant_plus_int` -/
def instantPlusInt (i : Inst) (n : Int) : Except Err Inst := do
  let k ← tdDays n
  addUs i k

/-- `instant_minus_int` -/
def instantMinusInt (i : Inst) (n : Int) : Except Err Inst := do
  let k ← tdDays n
  addUs i (-k)

/-- `timedelta.total_seconds()` = `total_microseconds / 10**6` (int true division, correctly
    rounded) as a Python float -/
def totalSeconds (k : Int) : Float := Num.ratToFloat ((k : Rat) / 1000000)

/-- `instant_minus_instant`, followed by `dispatch`'s `simplify_type`: the magnitude of the
    resulting `Quantity(…, SECONDS)` (a float, or an int when the float is integral). -/
def instantMinusInstant (a b : Inst) : Except Err Num :=
  Num.simplify (.flt (totalSeconds (diffUs a b)))

/-- `floor_instant`: `datetime(dt.year, dt.month, dt.day)` -/
def floorInstant (i : Inst) : Except Err Inst :=
  mkDateTime i.year i.month i.dayOfMonth 0 0 0 0

/-- `ceil_instant`: `floor_instant(inst).dt + timedelta(days=1)` -/
def ceilInstant (i : Inst) : Except Err Inst := do
  let f ← floorInstant i
  let k ← tdDays 1
  addUs f k

/-- datetime comparison (naive): lexicographic on (date, time of day) -/
def lt (a b : Inst) : Bool := decide (a.day < b.day ∨ (a.day = b.day ∧ a.us < b.us))
def le (a b : Inst) : Bool := decide (a.day < b.day ∨ (a.day = b.day ∧ a.us ≤ b.us))
def eq (a b : Inst) : Bool := decide (a.day = b.day ∧ a.us = b.us)

inductive Cmp where
  | lt | le | gt | ge | eq | ne
deriving DecidableEq, Repr

/-- `instant_lt`, `instant_leq`, `instant_gt`, `instant_geq`, `operator.eq/ne` (Instant.__eq__) -/
def cmpBool (op : Cmp) (a b : Inst) : Bool :=
  match op with
  | .lt => lt a b | .le => le a b | .gt => lt b a | .ge => le b a
  | .eq => eq a b | .ne => !(eq a b)

/-- the registered comparison: `intify(f)` → `1 if f(x, y) else 0` -/
def cmpReg (op : Cmp) (a b : Inst) : Num := .int (if cmpBool op a b then 1 else 0)

/-! ## ISO text (instant_from_iso) -/

inductive IsoRes where
  | ok (i : Inst)
  | invalid            -- ValueError in fromisoformat → KaRuntimeError
  | notModelled        -- a form this model does not cover
deriving DecidableEq, Repr

def dig (c : Char) : Option Nat := if 48 ≤ c.toNat ∧ c.toNat ≤ 57 then some (c.toNat - 48) else none

def num2 (a b : Char) : Option Nat :=
  match dig a, dig b with
  | some x, some y => some (x * 10 + y)
  | _, _ => none

def num4 (a b c d : Char) : Option Nat :=
  match num2 a b, num2 c d with
  | some x, some y => some (x * 100 + y)
  | _, _ => none

/-- `JUST_YEAR.match(s)` on the modelled alphabet: exactly four ASCII digits -/
def justYear (s : List Char) : Bool :=
  match s with
  | [a, b, c, d] => (num4 a b c d).isSome
  | _ => false

/-- `JUST_YEAR_AND_MONTH.match(s)`: `dddd-dd` -/
def justYearMonth (s : List Char) : Bool :=
  match s with
  | [a, b, c, d, sep, e, f] => decide (sep = '-') && (num4 a b c d).isSome && (num2 e f).isSome
  | _ => false

/-- digits after the decimal point: the first six scaled to microseconds, further digits skipped
    (`parse_hh_mm_ss_ff`); `none` when there is no digit or a non-digit -/
def fracUs (ds : List Char) : Option Nat :=
  if ds.isEmpty then none
  else if ds.all (fun c => (dig c).isSome) then
    let first := ds.take 6
    some (first.foldl (fun acc c => acc * 10 + (c.toNat - 48)) 0 * 10 ^ (6 - first.length))
  else none

def isoBuild (y m d h mi s us : Nat) : IsoRes :=
  match mkDateTime y m d h mi s us with
  | .ok i => .ok i
  | .error _ => .invalid

/-- after `HH:MM`: nothing, `:SS`, or `:SS.f+` -/
def isoSec (y m d h mi : Nat) (rest : List Char) : IsoRes :=
  match rest with
  | [] => isoBuild y m d h mi 0 0
  | c :: s1 :: s2 :: rest3 =>
    if c = ':' then
      match num2 s1 s2 with
      | some sc =>
        (match rest3 with
         | [] => isoBuild y m d h mi sc 0
         | p :: fs =>
           if p = '.' then
             (match fracUs fs with
              | some us => isoBuild y m d h mi sc us
              | none => if fs.isEmpty then .invalid else .notModelled)
           else .notModelled)
      | none => .notModelled
    else .notModelled
  | _ => .notModelled

/-- after the date: nothing, or a separator `T` / space and `HH:MM…` -/
def isoTime (y m d : Nat) (rest : List Char) : IsoRes :=
  match rest with
  | [] => isoBuild y m d 0 0 0 0
  | sep :: h1 :: h2 :: c :: n1 :: n2 :: rest2 =>
    if (sep = 'T' ∨ sep = ' ') ∧ c = ':' then
      match num2 h1 h2, num2 n1 n2 with
      | some h, some mi => isoSec y m d h mi rest2
      | _, _ => .notModelled
    else .notModelled
  | _ => .notModelled

/-- `datetime.fromisoformat(s)` restricted to the forms
    `YYYY-MM-DD`, `YYYY-MM-DD(T| )HH:MM`, `…:SS`, `…:SS.f+`; every other text ↦ `notModelled`
    (CPython 3.12 accepts more: basic format, week dates, bare hours, offsets, any separator). -/
def fromIsoFormat (s : List Char) : IsoRes :=
  match s with
  | y1 :: y2 :: y3 :: y4 :: c1 :: m1 :: m2 :: c2 :: d1 :: d2 :: rest =>
    if c1 = '-' ∧ c2 = '-' then
      match num4 y1 y2 y3 y4, num2 m1 m2, num2 d1 d2 with
      | some y, some m, some d => isoTime y m d rest
      | _, _, _ => .notModelled
    else .notModelled
  | _ => .notModelled

/-- `instant_from_iso` -/
def instantFromIso (s : List Char) : IsoRes :=
  let s := if justYear s then s ++ ['-', '0', '1', '-', '0', '1'] else s
  let s := if justYearMonth s then s ++ ['-', '0', '1'] else s
  fromIsoFormat s

/-! ### the ISO text of given fields (specification side of `C17_fields`) -/

def dch (k : Nat) : Char := Char.ofNat (48 + k % 10)
def pad2 (n : Nat) : List Char := [dch (n / 10), dch n]
def pad4 (n : Nat) : List Char := [dch (n / 1000), dch (n / 100), dch (n / 10), dch n]
def pad6 (n : Nat) : List Char :=
  [dch (n / 100000), dch (n / 10000), dch (n / 1000), dch (n / 100), dch (n / 10), dch n]

def textDate (y m d : Nat) : List Char := pad4 y ++ '-' :: pad2 m ++ '-' :: pad2 d
def textHM (h mi : Nat) : List Char := pad2 h ++ ':' :: pad2 mi
def textHMS (h mi s : Nat) : List Char := textHM h mi ++ ':' :: pad2 s
def textHMSU (h mi s us : Nat) : List Char := textHMS h mi s ++ '.' :: pad6 us

/-! ## what the evaluator returns -/

inductive Res where
  | inst (i : Inst)
  | secs (mag : Num)      -- Quantity(mag, SECONDS)
  | num (n : Num)

end KaVerif.Instant
