/-
  C08 — probability of events.  Executable, import-free model of

    src/ka/probability.py   distributions (pmf / cdf / mean / parameter validation), Event, DoubleEvent,
                            eval_probability
    src/ka/functions.py     the event constructors registered for `<`, `<=`, `=`, `<_<` … and `P`
    src/ka/parse.py         make_comparison_node (rewriting of `>` / `>=` chains)
    src/ka/utils.py         choose, factorial

  The *decision table* of eval_probability / DoubleEvent.probability (which cdf/pmf call with which
  floor / ceil / −1 adjustment for which operator, side and kind of variable) is NOT written here: it is
  `KaVerif.Gen.ProbTable.rows`, extracted from the live code by symbolic execution on every run.  This file
  defines the expression language of that table, its interpreter, and the pipeline
  written comparison chain → parser rewriting → registered constructor → table row → number.

  Numbers are exact rationals (`Rat`): a Python int / Fraction is itself, a float is modelled by its exact
  value and real arithmetic (IEEE rounding is not modelled; the correspondence compares within 1e-9).
  exp / erf / √2 are abstract parameters.
-/
namespace KaVerif.Prob

/-! ## the expression language of the generated decision table -/

/-- comparison tokens `<=  <  >  >=  =` (ComparisonOp / Tokens) -/
inductive Op where
  | le | lt | gt | ge | eq
deriving DecidableEq, Repr, Inhabited

/-- what the code passes to `cdf` / `pmf`: built from a numeric argument of the registered function by
    `math.floor`, `math.ceil` and adding an integer literal -/
inductive Arg where
  | var (i : Nat)              -- the i-th argument of the registered function (a number)
  | floor (a : Arg)
  | ceil (a : Arg)
  | addc (a : Arg) (c : Int)
deriving DecidableEq, Repr, Inhabited

/-- the value an event's `probability()` returns -/
inductive PExpr where
  | cdf (a : Arg)
  | pmf (a : Arg)
  | oneSub (e : PExpr)         -- 1 - e
  | sub (e f : PExpr)          -- e - f
  | max0 (e : PExpr)           -- max(e, 0)
deriving DecidableEq, Repr, Inhabited

/-- one row of the decision table: registered function `"_".join(ops)` applied with the random variable
    at argument position `rvPos`; `disc` = the variable is a DiscreteRandomVariable; `intOnly` = the
    registered signature demands Integral for the numeric arguments -/
structure Row where
  ops : List Op
  rvPos : Nat
  disc : Bool
  intOnly : Bool
  expr : PExpr
deriving Repr, Inhabited

/-- value of an argument expression -/
def Arg.evalQ (env : Nat → Rat) : Arg → Rat
  | .var i => env i
  | .floor a => (((a.evalQ env).floor : Int) : Rat)
  | .ceil a => (((a.evalQ env).ceil : Int) : Rat)
  | .addc a c => a.evalQ env + (c : Rat)

/-- the Python int an argument expression denotes, if it is one.  (Ka delivers an integral number as a Python
    int, `math.floor/ceil` return ints, int ± literal is an int; anything else is a Fraction / float, on
    which the discrete `cdf`/`pmf` implementations do not work: `range(x+1)`.) -/
def Arg.evalZ (env : Nat → Rat) (a : Arg) : Option Int :=
  let q := a.evalQ env
  if q.den = 1 then some q.num else none

/-- `max(x, 0)` as CPython computes it: `0 if 0 > x else x` -/
def pyMax0 (x : Rat) : Rat := if x < 0 then 0 else x

/-- interpretation for a discrete variable with `pmf`, `cdf` on Python ints; `none` = the call would not get
    a Python int -/
def PExpr.evalD (pmf cdf : Int → Rat) (env : Nat → Rat) : PExpr → Option Rat
  | .cdf a => (a.evalZ env).map cdf
  | .pmf a => (a.evalZ env).map pmf
  | .oneSub e => (e.evalD pmf cdf env).map (fun x => 1 - x)
  | .sub e f =>
    match e.evalD pmf cdf env, f.evalD pmf cdf env with
    | some x, some y => some (x - y)
    | _, _ => none
  | .max0 e => (e.evalD pmf cdf env).map pyMax0

/-- interpretation for a continuous variable with distribution function `cdf`; `none` = `pmf` requested -/
def PExpr.evalC (cdf : Rat → Rat) (env : Nat → Rat) : PExpr → Option Rat
  | .cdf a => some (cdf (a.evalQ env))
  | .pmf _ => none
  | .oneSub e => (e.evalC cdf env).map (fun x => 1 - x)
  | .sub e f =>
    match e.evalC cdf env, f.evalC cdf env with
    | some x, some y => some (x - y)
    | _, _ => none
  | .max0 e => (e.evalC cdf env).map pyMax0

/-! ## written events and the pipeline -/

/-- a term of a comparison chain: the random variable, or a number -/
inductive Term where
  | rv
  | num (q : Rat)
deriving Repr, Inhabited

/-- a comparison chain as the user writes it: `terms[0] ops[0] terms[1] (ops[1] terms[2])` -/
structure Written where
  terms : List Term
  ops : List Op
deriving Repr, Inhabited

/-- a random variable as `eval_probability` sees it -/
inductive Law where
  | disc (pmf cdf : Int → Rat)
  | cont (cdf : Rat → Rat)

def Law.isDisc : Law → Bool
  | .disc _ _ => true
  | .cont _ => false

/-- why the pipeline delivers no number -/
inductive PErr where
  | unknownFn       -- UnknownFunctionError: the chain's label is not a registered function
  | noMatch         -- NoMatchingFunctionSignatureError
  | typeErr         -- the discrete cdf/pmf would be called with a non-int
deriving DecidableEq, Repr, Inhabited

def Op.test : Op → Rat → Rat → Bool
  | .le, a, b => a ≤ b
  | .lt, a, b => a < b
  | .gt, a, b => a > b
  | .ge, a, b => a ≥ b
  | .eq, a, b => a = b

/-- the condition a chain states, on concrete numbers -/
def chain : List Rat → List Op → Bool
  | a :: b :: rest, o :: os => o.test a b && chain (b :: rest) os
  | _, _ => true

def Term.value (k : Int) : Term → Rat
  | .rv => (k : Rat)
  | .num q => q

/-- the condition AS WRITTEN, for the outcome `X = k` -/
def Written.holds (w : Written) (k : Int) : Bool :=
  chain (w.terms.map (Term.value k)) w.ops

/-- positions of the random variable among the terms -/
def rvPositions : List Term → Nat → List Nat
  | [], _ => []
  | .rv :: ts, i => i :: rvPositions ts (i + 1)
  | .num _ :: ts, i => rvPositions ts (i + 1)

def Term.isInt : Term → Bool
  | .rv => true
  | .num q => q.den = 1

/-- i-th argument as a number (the variable's own position is never read) -/
def envOf (terms : List Term) (i : Nat) : Rat :=
  match terms[i]? with
  | some (.num q) => q
  | _ => 0

def findRow (rows : List Row) (ops : List Op) (pos : Nat) (disc : Bool) : Option Row :=
  rows.find? (fun r => r.ops = ops && r.rvPos = pos && r.disc = disc)

/-- parser rewriting (table `flips`: make_comparison_node) and dispatch to the registered constructor
    (tables `labels`, `rows`): the row of the decision table that will be evaluated, and the argument list -/
def resolveRow (flips : List (List Op × (List Op × Bool))) (labels : List (List Op)) (rows : List Row)
    (disc : Bool) (w : Written) : Except PErr (Row × List Term) :=
  match flips.lookup w.ops with
  | none => .error .unknownFn
  | some (ops, rev) =>
    let terms := if rev then w.terms.reverse else w.terms
    if !(labels.contains ops) then .error .unknownFn
    else if terms.length ≠ ops.length + 1 then .error .noMatch
    else match rvPositions terms 0 with
      | [pos] =>
        match findRow rows ops pos disc with
        | none => .error .noMatch
        | some row =>
          if row.intOnly && !(terms.all Term.isInt) then .error .noMatch
          else .ok (row, terms)
      | _ => .error .noMatch

/-- `event.probability()` for the event built from `row` with arguments `terms` -/
def evalRow (law : Law) (row : Row) (terms : List Term) : Except PErr Rat :=
  let r := match law with
    | .disc pmf cdf => row.expr.evalD pmf cdf (envOf terms)
    | .cont cdf => row.expr.evalC cdf (envOf terms)
  match r with
  | some v => .ok v
  | none => .error .typeErr

/-- `P(<chain>)` -/
def probWritten (flips : List (List Op × (List Op × Bool))) (labels : List (List Op)) (rows : List Row)
    (law : Law) (w : Written) : Except PErr Rat :=
  match resolveRow flips labels rows law.isDisc w with
  | .error e => .error e
  | .ok (row, terms) => evalRow law row terms

/-! ## vocabulary for stating the property: the written forms -/

/-- the single comparison `X op t` (variable on the left) or `t op X` -/
def single (op : Op) (rvLeft : Bool) (t : Rat) : Written :=
  if rvLeft then ⟨[.rv, .num t], [op]⟩ else ⟨[.num t, .rv], [op]⟩

/-- the double comparison `a op1 X op2 b` -/
def double (op1 op2 : Op) (a b : Rat) : Written := ⟨[.num a, .rv, .num b], [op1, op2]⟩

/-- the forms that bound `X` from above: `X < t`, `X <= t`, `t > X`, `t >= X` -/
def isUpper : Op → Bool → Bool
  | .lt, true | .le, true | .gt, false | .ge, false => true
  | _, _ => false

/-- the forms that bound `X` from below: `X > t`, `X >= t`, `t < X`, `t <= X` -/
def isLower : Op → Bool → Bool
  | .gt, true | .ge, true | .lt, false | .le, false => true
  | _, _ => false

def Op.forward : Op → Bool
  | .lt | .le => true
  | _ => false

def Op.backward : Op → Bool
  | .gt | .ge => true
  | _ => false

/-- logical negation of an order comparison -/
def Op.neg : Op → Op
  | .lt => .ge | .le => .gt | .gt => .le | .ge => .lt | .eq => .eq

/-! ## utils.choose / utils.factorial -/

/-- the loop of `choose`: after `j` rounds, (numerator, denominator) -/
def chooseLoop (M : Int) : Nat → Int × Int
  | 0 => (1, 1)
  | j + 1 => let (n, d) := chooseLoop M j; (n * (M - ((j : Int) + 1)), d * ((j : Int) + 1))

/-- `utils.choose(n, k)` -/
def choose (n k : Int) : Int :=
  if k > n ∨ n < 0 ∨ k < 0 then 0
  else
    let M := n + 1
    let nterms := min k (n - k)
    let (num, den) := chooseLoop M nterms.toNat
    num / den

/-- `utils.factorial(n)`: 1 for n < 2, else 2·3·…·n -/
def factLoop : Nat → Nat
  | 0 => 1
  | k + 1 => (k + 1) * factLoop k

def factorial (n : Int) : Int := if n < 2 then 1 else (factLoop n.toNat : Int)

/-- `sum(f(k) for k in range(n))` -/
def sumRange (f : Int → Rat) : Nat → Rat
  | 0 => 0
  | n + 1 => sumRange f n + f (n : Int)

/-! ## the discrete distributions -/

/-- Poisson carries the abstract constant `E` standing for `math.exp(-mu)`.  The code evaluates
    `pmf(x) = exp(x*log(mu) - mu - lgamma(x+1))` in log space; its mathematical value is `mu^x · E / x!`, which is
    what the model computes (the float evaluation of exp/log/lgamma is modelled, not verified);
    `cdf(x) = fsum(pmf(j) for j in range(x+1))` is the model's sum. -/
inductive Dist where
  | binomial (n : Int) (p : Rat)
  | poisson (mu : Int) (E : Rat)
  | geometric (p : Rat)
  | bernoulli (p : Rat)
  | uniformInt (lo hi : Int)
deriving Repr, Inhabited

/-- the constructors' parameter checks: `true` = accepted, `false` = InvalidParameterException -/
def Dist.valid : Dist → Bool
  | .binomial n p => !(n ≤ 0) && !(p < 0 || p > 1)
  | .poisson mu _ => !(mu ≤ 0)
  | .geometric p => !(p ≤ 0 || p > 1)
  | .bernoulli p => !(p < 0 || p > 1)
  | .uniformInt lo hi => !(lo > hi)

def Dist.pmf : Dist → Int → Rat
  | .binomial n p, x =>
    if x < 0 ∨ x > n then 0
    else (choose n x : Rat) * p ^ x.toNat * (1 - p) ^ (n - x).toNat
  | .poisson mu E, x =>
    if x < 0 then 0
    else (mu : Rat) ^ x.toNat * E / (factorial x : Rat)
  | .geometric p, x =>
    if x < 1 then 0
    else (1 - p) ^ (x - 1).toNat * p
  | .bernoulli p, x =>
    if x = 1 then p
    else if x = 0 then 1 - p
    else 0
  | .uniformInt lo hi, x =>
    if x < lo ∨ x > hi then 0
    else 1 / ((hi - lo + 1 : Int) : Rat)

def Dist.cdf : Dist → Int → Rat
  | .binomial n p, x => sumRange (Dist.binomial n p).pmf (x + 1).toNat
  | .poisson mu E, x => sumRange (Dist.poisson mu E).pmf (x + 1).toNat
  | .geometric p, x =>
    if x < 1 then 0
    else 1 - (1 - p) ^ x.toNat
  | .bernoulli p, x =>
    if x ≥ 1 then 1
    else if x ≥ 0 then 1 - p
    else 0
  | .uniformInt lo hi, x =>
    if x < lo then 0
    else if x ≥ hi then 1
    else ((x - lo + 1 : Int) : Rat) / ((hi - lo + 1 : Int) : Rat)

def Dist.mean : Dist → Rat
  | .binomial n p => (n : Rat) * p
  | .poisson mu _ => (mu : Rat)
  | .geometric p => 1 / p
  | .bernoulli p => p
  | .uniformInt lo hi => (lo : Rat) + ((hi - lo : Int) : Rat) / 2

/-- least integer that can carry mass -/
def Dist.lo : Dist → Int
  | .binomial _ _ => 0
  | .poisson _ _ => 0
  | .geometric _ => 1
  | .bernoulli _ => 0
  | .uniformInt lo _ => lo

/-- greatest integer that can carry mass, when the support is finite -/
def Dist.hi : Dist → Option Int
  | .binomial n _ => some n
  | .bernoulli _ => some 1
  | .uniformInt _ hi => some hi
  | _ => none

def Dist.law (d : Dist) : Law := .disc d.pmf d.cdf

/-! ## the continuous distributions -/

/-- abstract elementary functions: `math.exp`, `math.erf`, `math.sqrt(2)` -/
structure Fns where
  exp : Rat → Rat
  erf : Rat → Rat
  sqrt2 : Rat

inductive CDist where
  | exponential (lam : Rat)
  | uniform (lo hi : Rat)
  | gaussian (mu sd : Rat)
deriving Repr, Inhabited

def CDist.valid : CDist → Bool
  | .exponential lam => !(lam ≤ 0)
  | .uniform lo hi => !(lo > hi)
  | .gaussian _ sd => !(sd ≤ 0)

def CDist.cdf (F : Fns) : CDist → Rat → Rat
  | .exponential lam, x =>
    if x < 0 then 0
    else 1 - F.exp (-lam * x)
  | .uniform lo hi, x =>
    if x < lo then 0
    else if x ≥ hi then 1
    else (x - lo) / (hi - lo)
  | .gaussian mu sd, x => (1 / 2) * (1 + F.erf ((x - mu) / (sd * F.sqrt2)))

def CDist.mean : CDist → Rat
  | .exponential lam => 1 / lam
  | .uniform lo hi => lo + (hi - lo) / 2
  | .gaussian mu _ => mu

def CDist.law (F : Fns) (d : CDist) : Law := .cont (d.cdf F)

end KaVerif.Prob
