import KaVerif.Model.Num
/-
  C12 — ranges, comprehensions and array aggregates.
  Anchors: functions.py 462-551 (array_prod, array_min, array_max, array_sum, array_size, array_mean,
  in_array, ka_cmp, array_median, the `range` registrations, ka_range) and eval.py eval_comprehension /
  run_comprehension, parse.py make_array_with_condition_node (clause split).
  Aggregates are written as the code's folds over `dispatch` (here `Num.binop` / exact comparison).
-/
namespace KaVerif.Arr
open KaVerif Num

/-- `lo..hi` = `Array(list(range(lo, hi+1)))` -/
def range (lo hi : Int) : List Int :=
  (List.range (hi + 1 - lo).toNat).map (fun (k : Nat) => lo + Int.ofNat k)

/-- the loop of `ka_range` on exact rationals; `fuel` bounds the number of iterations.
    The code's loop also checks, in every round, that `curr + step` is larger than `curr` and raises
    FunctionArgError otherwise (fix efcc27a: `1e16 + 0.5 == 1e16` looped forever).  On exact rationals
    that guard is dead code: `kaRange` enters the loop only with `0 < step`, and then `curr < curr + step`
    always.  So this fragment has no guard; `PIPE_range_step` (Props/Pipeline2.lean, `kaRangeLoop_eq`)
    proves that the unified evaluator's loop WITH the guard, on exact operands, is this loop, and
    `PIPE_range_step_float` (Props/PipelineArr.lean, clause 5) that the guard can only fire with a float. -/
def rangeLoop (hi step : Rat) : Nat → Rat → List Rat → Option (List Rat)
  | 0, _, _ => none                                  -- would still be looping: `diverges`
  | fuel + 1, curr, acc =>
    if curr ≤ hi then rangeLoop hi step fuel (curr + step) (curr :: acc) else some acc.reverse

/-- `range(lo, hi, step)`: positive step required, lo ≤ hi required -/
def kaRange (lo hi step : Rat) : Except Err (List Rat) :=
  if ¬ (0 < step) then .error .funArg
  else if ¬ (lo ≤ hi) then .error .funArg
  else match rangeLoop hi step (((hi - lo) / step).floor.toNat + 2) lo [] with
    | some xs => .ok xs
    | none => .error .diverges

/-- `array_sum`: 0 for the empty array, else fold `+` from the first element -/
def arraySum : List Num → Except Err Num
  | [] => .ok (.int 0)
  | h :: t => t.foldlM (fun acc e => binop .add acc e) h

/-- `array_prod`: fold `e * result` from 1 -/
def arrayProd (xs : List Num) : Except Err Num :=
  xs.foldlM (fun acc e => binop .mul e acc) (.int 1)

def arraySize (xs : List Num) : Num := .int xs.length

/-- `array_mean` -/
def arrayMean (xs : List Num) : Except Err Num :=
  if xs.isEmpty then .error .funArg
  else do let s ← arraySum xs; binop .div s (.int xs.length)

/-- `array_min`: scan replacing the candidate when an element is strictly smaller -/
def arrayMin : List Num → Except Err Num
  | [] => .error .funArg
  | h :: t => .ok ((h :: t).foldl (fun r e => if cmpLt e r then e else r) h)

/-- `array_max`: scan replacing the candidate when it is strictly smaller than an element -/
def arrayMax : List Num → Except Err Num
  | [] => .error .funArg
  | h :: t => .ok ((h :: t).foldl (fun r e => if cmpLt r e then e else r) h)

/-- insertion of `x` into a list sorted by exact value (stable: after equal elements) -/
def insertSorted (x : Num) : List Num → List Num
  | [] => [x]
  | y :: ys => if cmpLt x y then x :: y :: ys else y :: insertSorted x ys

/-- `sorted(arr, key=cmp_to_key(ka_cmp))`: any stable sort by exact value -/
def sortNums (xs : List Num) : List Num := xs.foldl (fun acc x => insertSorted x acc) []

/-- `array_median` -/
def arrayMedian (xs : List Num) : Except Err Num :=
  if xs.isEmpty then .error .funArg
  else
    let s := sortNums xs
    let n := s.length
    if n % 2 = 0 then do
      let t ← binop .add (s.getD (n / 2 - 1) (.int 0)) (s.getD (n / 2) (.int 0))
      binop .div t (.int 2)
    else .ok (s.getD (n / 2) (.int 0))

/-- `in_array`: 1 when some element is `==` -/
def inArray (x : Num) (xs : List Num) : Num := .int (if xs.any (fun e => cmpEq x e) then 1 else 0)

/-! ### comprehension -/

abbrev Env (V : Type) := List (String × V)

/-- `bool_like` and the test `result == 0` on a condition's value -/
inductive Cond where
  | one | zero | notBool
deriving DecidableEq, Repr

/-- one pass of the `while True` loop body for index `i`: bind the generator variables (lock-step;
    an exhausted generator ends the loop), evaluate EVERY condition (no short-circuit; each must be
    0 or 1), and evaluate the body when all are 1. -/
def comprStep {V : Type} (names : List String) (arrays : List (List V))
    (conds : List (Env V → Except Err Cond)) (body : Env V → Except Err V)
    (env : Env V) (i : Nat) : Except Err (Option (Option V)) :=   -- none = exhausted; some none = filtered out
  let rec bind : List String → List (List V) → Env V → Option (Env V)
    | n :: ns, a :: as, e => if h : i < a.length then bind ns as ((n, a[i]) :: e) else none
    | _, _, e => some e
  match bind names arrays env with
  | none => .ok none
  | some e =>
    let rec evalConds : List (Env V → Except Err Cond) → Bool → Except Err Bool
      | [], ok => .ok ok
      | c :: cs, ok => do
        match ← c e with
        | .notBool => .error .eval
        | .zero => evalConds cs false
        | .one => evalConds cs ok
    do
      let keep ← evalConds conds true
      if keep then do let v ← body e; .ok (some (some v)) else .ok (some none)

/-- `run_comprehension`: indices 0,1,2,… until some generator is exhausted; `fuel` bounds the loop -/
def comprLoop {V : Type} (names : List String) (arrays : List (List V))
    (conds : List (Env V → Except Err Cond)) (body : Env V → Except Err V)
    (env : Env V) : Nat → Nat → List V → Except Err (List V)
  | 0, _, _ => .error .diverges
  | fuel + 1, i, acc => do
    match ← comprStep names arrays conds body env i with
    | none => .ok acc.reverse
    | some none => comprLoop names arrays conds body env fuel (i + 1) acc
    | some (some v) => comprLoop names arrays conds body env fuel (i + 1) (v :: acc)

/-- `eval_comprehension`: at least one generator is required -/
def comprehension {V : Type} (names : List String) (arrays : List (List V))
    (conds : List (Env V → Except Err Cond)) (body : Env V → Except Err V) (env : Env V) : Except Err (List V) :=
  if names.isEmpty then .error .eval
  else comprLoop names arrays conds body env ((arrays.map List.length).foldl min (arrays.headD []).length + 1) 0 []

end KaVerif.Arr
